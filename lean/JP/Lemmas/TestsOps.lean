import JP.Lemmas.TestsEqv
import JP.Lemmas.CloseApply

/-!
# Passing tests are transparent, part 4: the operations

* `applyOp_eqv`: an operation other than `test`, run from two states in the same parse class (both
  satisfying the invariant `KN`), gives the same outcome and again states in the same parse class,
  with the same running copy-size total;
* `opTest_fix`: a passing `test` leaves the state in its parse class;
* `applyOps_sim`: hence the run of a patch and the run of the patch without its tests stay in the
  same parse class as long as the former succeeds;
* `marshalRoot_DR`: what is printed depends on the parse class only (under the invariant).
-/

namespace JP
namespace Impl

/-! ### small congruences -/

theorem conAdd_eqv {o : Opts} {c₁ c₂ v₁ v₂ : Node} {key : Bytes}
    (hc : deepParse c₁ = deepParse c₂) (hv : deepParse v₁ = deepParse v₂)
    (h₁ : shape c₁ = true) (h₂ : shape c₂ = true) :
    mapO deepParse (conAdd o c₁ key v₁) = mapO deepParse (conAdd o c₂ key v₂) := by
  rw [← conAdd_D o c₁ key v₁ h₁, ← conAdd_D o c₂ key v₂ h₂, hc, hv]

theorem conSet_eqv {o : Opts} {c₁ c₂ v₁ v₂ : Node} {key : Bytes}
    (hc : deepParse c₁ = deepParse c₂) (hv : deepParse v₁ = deepParse v₂)
    (h₁ : shape c₁ = true) (h₂ : shape c₂ = true) :
    mapO deepParse (conSet o c₁ key v₁) = mapO deepParse (conSet o c₂ key v₂) := by
  rw [← conSet_D o c₁ key v₁ h₁, ← conSet_D o c₂ key v₂ h₂, hc, hv]

theorem conRemove_eqv {o : Opts} {c₁ c₂ : Node} {key : Bytes}
    (hc : deepParse c₁ = deepParse c₂) (h₁ : shape c₁ = true) (h₂ : shape c₂ = true) :
    mapO deepParse (conRemove o c₁ key) = mapO deepParse (conRemove o c₂ key) := by
  rw [← conRemove_D o c₁ key h₁, ← conRemove_D o c₂ key h₂, hc]

/-- the usual shape of an action: a container method, errors passed through, a value attached -/
theorem liftAct_eqv {α} {f : α → α} {x₁ x₂ : Outcome Node} {a₁ a₂ : α} :
    mapO deepParse x₁ = mapO deepParse x₂ → f a₁ = f a₂ →
    AmapD f (match x₁ with
      | .ok con' => (.ok (con', a₁) : Outcome (Node × α))
      | .err e => .err e
      | .panic => .panic) =
    AmapD f (match x₂ with
      | .ok con' => (.ok (con', a₂) : Outcome (Node × α))
      | .err e => .err e
      | .panic => .panic) := by
  intro hx ha
  cases x₁ <;> cases x₂ <;> simp only [mapO, reduceCtorEq] at hx
  · simp only [Outcome.ok.injEq] at hx; simp only [AmapD, hx, ha]
  · simp only [Outcome.err.injEq] at hx; simp only [AmapD, hx]
  · rfl

theorem isNilN_false_of_ne {n : Node} (h : n ≠ .nil) : isNilN n = false := by
  cases n <;> simp_all [isNilN]

theorem deepCopy_of_not_nil (e : Bool) {n : Node} (h : isNilN n = false) :
    deepCopy e n = (.raw (cstOf e n), (Cst.print (cstOf e n)).length) := by
  cases n <;> simp_all [isNilN, deepCopy]

/-- under the invariant `deepCopy` depends on the parse class only -/
theorem deepCopy_eqv {e : Bool} {n₁ n₂ : Node} (k₁ : KN e n₁) (k₂ : KN e n₂)
    (h : deepParse n₁ = deepParse n₂) : deepCopy e n₁ = deepCopy e n₂ := by
  have hn := isNilN_eqv h
  cases h1 : isNilN n₁ with
  | true =>
    rw [h1] at hn
    cases n₁ <;> simp [isNilN] at h1
    cases n₂ <;> simp [isNilN] at hn
    rfl
  | false =>
    rw [h1] at hn
    rw [deepCopy_of_not_nil e h1, deepCopy_of_not_nil e hn.symm]
    have : cstOf e n₁ = cstOf e n₂ := by
      rw [← cstOf_deepParse e n₁ k₁, ← cstOf_deepParse e n₂ k₂, h]
    rw [this]

theorem Walk_cases_eq {α} {f : α → α} {w₁ w₂ : Walk α} (h : WmapD f w₁ = WmapD f w₂) :
    (∃ c₁ a₁ c₂ a₂, w₁ = .done c₁ a₁ ∧ w₂ = .done c₂ a₂ ∧ deepParse c₁ = deepParse c₂ ∧ f a₁ = f a₂) ∨
    (∃ c₁ c₂, w₁ = .notFound c₁ ∧ w₂ = .notFound c₂ ∧ deepParse c₁ = deepParse c₂) ∨
    (∃ e, w₁ = .fail e ∧ w₂ = .fail e) ∨
    (w₁ = .panic ∧ w₂ = .panic) ∨
    (∃ s₁ a₁ s₂ a₂, w₁ = .doneSelf s₁ a₁ ∧ w₂ = .doneSelf s₂ a₂ ∧ deepParse s₁ = deepParse s₂ ∧ f a₁ = f a₂) ∨
    (∃ s₁ s₂, w₁ = .notFoundSelf s₁ ∧ w₂ = .notFoundSelf s₂ ∧ deepParse s₁ = deepParse s₂) := by
  cases w₁ <;> cases w₂ <;> simp only [WmapD, reduceCtorEq] at h
  · simp only [Walk.done.injEq] at h
    exact Or.inl ⟨_, _, _, _, rfl, rfl, h.1, h.2⟩
  · simp only [Walk.notFound.injEq] at h
    exact Or.inr (Or.inl ⟨_, _, rfl, rfl, h⟩)
  · simp only [Walk.fail.injEq] at h
    subst h
    exact Or.inr (Or.inr (Or.inl ⟨_, rfl, rfl⟩))
  · exact Or.inr (Or.inr (Or.inr (Or.inl ⟨rfl, rfl⟩)))
  · simp only [Walk.doneSelf.injEq] at h
    exact Or.inr (Or.inr (Or.inr (Or.inr (Or.inl ⟨_, _, _, _, rfl, rfl, h.1, h.2⟩))))
  · simp only [Walk.notFoundSelf.injEq] at h
    exact Or.inr (Or.inr (Or.inr (Or.inr (Or.inr ⟨_, _, rfl, rfl, h⟩))))

theorem DR_con {r₁ r₂ : Root} (h : DR r₁ = DR r₂) {c₁ c₂ : Node} (hc : deepParse c₁ = deepParse c₂) :
    DR { r₁ with con := c₁ } = DR { r₂ with con := c₂ } := by
  obtain ⟨_, hs, hcr⟩ := DR_eq.1 h
  exact DR_eq.2 ⟨hc, hs, hcr⟩

theorem DR_self {r₁ r₂ : Root} (h : DR r₁ = DR r₂) {s₁ s₂ : Node} (hs : deepParse s₁ = deepParse s₂) :
    DR { r₁ with self := s₁ } = DR { r₂ with self := s₂ } := by
  obtain ⟨hc, _, hcr⟩ := DR_eq.1 h
  exact DR_eq.2 ⟨hc, hs, hcr⟩

theorem liftWalk_eqv {r₁ r₂ : Root} {w₁ w₂ : Walk Unit} {k₁ k₂ : Root → Outcome Root}
    (hr : DR r₁ = DR r₂) (hw : WmapD id w₁ = WmapD id w₂)
    (hk : ∀ a b, DR a = DR b → mapO DR (k₁ a) = mapO DR (k₂ b)) :
    mapO DR (liftWalk r₁ w₁ k₁) = mapO DR (liftWalk r₂ w₂ k₂) := by
  rcases Walk_cases_eq hw with ⟨c₁, a₁, c₂, a₂, rfl, rfl, hc, _⟩ | ⟨c₁, c₂, rfl, rfl, hc⟩ | ⟨e, rfl, rfl⟩ |
    ⟨rfl, rfl⟩ | ⟨s₁, a₁, s₂, a₂, rfl, rfl, hs, _⟩ | ⟨s₁, s₂, rfl, rfl, hs⟩
  · simp only [liftWalk, mapO, DR_con hr hc]
  · exact hk _ _ (DR_con hr hc)
  · rfl
  · rfl
  · simp only [liftWalk, mapO, DR_self hr hs]
  · exact hk _ _ (DR_self hr hs)

theorem mapO_eq_cases {α β} {f : α → β} {x y : Outcome α} (h : mapO f x = mapO f y) :
    (∃ a b, x = .ok a ∧ y = .ok b ∧ f a = f b) ∨ (∃ e, x = .err e ∧ y = .err e) ∨ (x = .panic ∧ y = .panic) := by
  cases x <;> cases y <;> simp only [mapO, reduceCtorEq] at h
  · simp only [Outcome.ok.injEq] at h; exact Or.inl ⟨_, _, rfl, rfl, h⟩
  · simp only [Outcome.err.injEq] at h; subst h; exact Or.inr (Or.inl ⟨_, rfl, rfl⟩)
  · exact Or.inr (Or.inr ⟨rfl, rfl⟩)

/-! ### `add` -/

theorem addWalk_eqv {e : Bool} {o : Opts} {r₁ r₂ : Root} {path : Bytes} {v₁ v₂ : Node}
    (hr : DR r₁ = DR r₂) (k₁ : RootK e r₁) (k₂ : RootK e r₂) (hv : deepParse v₁ = deepParse v₂) :
    WmapD id (addWalk o r₁ path v₁) = WmapD id (addWalk o r₂ path v₂) := by
  unfold addWalk
  refine withPath_eqv o id r₁ r₂ path _ _ hr k₁ k₂ ?_
  intro key s₁ s₂ c₁ c₂ _ hc kc₁ kc₂ _ _
  exact liftAct_eqv (conAdd_eqv hc hv kc₁.2 kc₂.2) rfl

theorem ensurePath_eqv {e : Bool} {o : Opts} {r₁ r₂ : Root} {path : Bytes}
    (hr : DR r₁ = DR r₂) (k₁ : RootK e r₁) (k₂ : RootK e r₂) :
    mapO DR (ensurePath o r₁ path) = mapO DR (ensurePath o r₂ path) := by
  obtain ⟨hc, hs, hcr⟩ := DR_eq.1 hr
  unfold ensurePath
  split
  · simp only [mapO, hr]
  · simp only [mapO, hr]
  · rename_i parts _ _
    split
    · simp only [mapO, hr]
    have := ensure_eqv o parts r₁.selfCR r₁.self r₂.self r₁.con r₂.con hs hc k₁.1.2 k₂.1.2
    rw [← hcr]
    cases h1 : ensure o r₁.selfCR r₁.self r₁.con parts with
    | ok p =>
      obtain ⟨a1, b1⟩ := p
      cases h2 : ensure o r₁.selfCR r₂.self r₂.con parts with
      | ok q =>
        obtain ⟨a2, b2⟩ := q
        rw [h1, h2] at this
        simp only [EmapD, Outcome.ok.injEq, Prod.mk.injEq] at this
        simp only [mapO, Outcome.ok.injEq]
        exact DR_eq.2 ⟨this.1, this.2, rfl⟩
      | err e2 => rw [h1, h2] at this; cases this
      | panic => rw [h1, h2] at this; cases this
    | err e1 =>
      cases h2 : ensure o r₁.selfCR r₂.self r₂.con parts with
      | ok q => obtain ⟨a2, b2⟩ := q; rw [h1, h2] at this; cases this
      | err e2 => rw [h1, h2] at this; simpa [EmapD, mapO] using this
      | panic => rw [h1, h2] at this; cases this
    | panic =>
      cases h2 : ensure o r₁.selfCR r₂.self r₂.con parts with
      | ok q => obtain ⟨a2, b2⟩ := q; rw [h1, h2] at this; cases this
      | err e2 => rw [h1, h2] at this; cases this
      | panic => rfl

theorem opAdd_eqv {e : Bool} {o : Opts} {r₁ r₂ : Root} {op : Op}
    (hr : DR r₁ = DR r₂) (k₁ : RootK e r₁) (k₂ : RootK e r₂) (hv : OpK e op) :
    mapO DR (opAdd o r₁ op) = mapO DR (opAdd o r₂ op) := by
  unfold opAdd
  split
  · rfl
  · simp only []
    have h1 : mapO DR (if o.ensure = true then ensurePath o r₁ op.path else .ok r₁) =
        mapO DR (if o.ensure = true then ensurePath o r₂ op.path else .ok r₂) := by
      split
      · exact ensurePath_eqv hr k₁ k₂
      · simp only [mapO, hr]
    have hk1 : OutK e (if o.ensure = true then ensurePath o r₁ op.path else .ok r₁) := by
      split
      · exact ensurePath_K k₁ hv.toks
      · exact k₁
    have hk2 : OutK e (if o.ensure = true then ensurePath o r₂ op.path else .ok r₂) := by
      split
      · exact ensurePath_K k₂ hv.toks
      · exact k₂
    rcases mapO_eq_cases h1 with ⟨a, b, ha, hb, hab⟩ | ⟨er, ha, hb⟩ | ⟨ha, hb⟩
    · rw [ha] at hk1
      rw [hb] at hk2
      rw [ha, hb]
      simp only []
      exact liftWalk_eqv hab (addWalk_eqv hab hk1 hk2 rfl) (fun _ _ _ => rfl)
    · rw [ha, hb]
    · rw [ha, hb]

/-! ### `remove`, `replace` -/

theorem opRemove_eqv {e : Bool} {o : Opts} {r₁ r₂ : Root} {op : Op}
    (hr : DR r₁ = DR r₂) (k₁ : RootK e r₁) (k₂ : RootK e r₂) :
    mapO DR (opRemove o r₁ op) = mapO DR (opRemove o r₂ op) := by
  unfold opRemove
  refine liftWalk_eqv hr ?_ ?_
  · refine withPath_eqv o id r₁ r₂ _ _ _ hr k₁ k₂ ?_
    intro key s₁ s₂ c₁ c₂ _ hc kc₁ kc₂ _ _
    exact liftAct_eqv (conRemove_eqv hc kc₁.2 kc₂.2) rfl
  · intro a b hab
    split
    · simp only [mapO, hab]
    · rfl

theorem opReplace_eqv {e : Bool} {o : Opts} {r₁ r₂ : Root} {op : Op}
    (hr : DR r₁ = DR r₂) (k₁ : RootK e r₁) (k₂ : RootK e r₂) :
    mapO DR (opReplace o r₁ op) = mapO DR (opReplace o r₂ op) := by
  unfold opReplace
  split
  · rfl
  · simp only []
    refine liftWalk_eqv hr ?_ (fun _ _ _ => rfl)
    refine withPath_eqv o id r₁ r₂ _ _ _ hr k₁ k₂ ?_
    intro key s₁ s₂ c₁ c₂ hs hc kc₁ kc₂ _ _
    have hg := mapO_conGet_eqv (o := o) (key := key) hs hc kc₁.2 kc₂.2
    rcases mapO_eq_cases hg with ⟨a, b, ha, hb, _⟩ | ⟨er, ha, hb⟩ | ⟨ha, hb⟩
    · rw [ha, hb]
      exact liftAct_eqv (conSet_eqv hc rfl kc₁.2 kc₂.2) rfl
    · rw [ha, hb]
    · rw [ha, hb]

/-! ### `move` -/

theorem opMove_eqv {e : Bool} {o : Opts} {r₁ r₂ : Root} {op : Op} (he : o.esc = e)
    (hr : DR r₁ = DR r₂) (k₁ : RootK e r₁) (k₂ : RootK e r₂) (_hv : OpK e op) :
    mapO DR (opMove o r₁ op) = mapO DR (opMove o r₂ op) := by
  unfold opMove
  split
  · rfl
  · split
    · rfl
    · rename_i frm _ _
      simp only []
      generalize hwe1 : (withPath o r₁ frm _) = w₁
      generalize hwe2 : (withPath o r₂ frm _) = w₂
      have hw : WmapD deepParse w₁ = WmapD deepParse w₂ := by
        rw [← hwe1, ← hwe2]
        refine withPath_eqv o deepParse r₁ r₂ _ _ _ hr k₁ k₂ ?_
        intro key s₁ s₂ c₁ c₂ hs hc kc₁ kc₂ ks₁ ks₂
        have hg := mapO_conGet_eqv (o := o) (key := key) hs hc kc₁.2 kc₂.2
        have hk1 := conGet_K (o := o) (key := key) ks₁ kc₁.1
        have hk2 := conGet_K (o := o) (key := key) ks₂ kc₂.1
        rcases mapO_eq_cases hg with ⟨a, b, ha, hb, hab⟩ | ⟨er, ha, hb⟩ | ⟨ha, hb⟩
        · rw [ha] at hk1
          rw [hb] at hk2
          rw [ha, hb]
          simp only []
          exact liftAct_eqv (conRemove_eqv hc kc₁.2 kc₂.2) hab
        · rw [ha, hb]
        · rw [ha, hb]
      have hK1 : WalkK e (fun v => KN e v) w₁ := by
        rw [← hwe1]
        refine withPath_K o r₁ _ _ _ k₁ ?_
        intro self con key hc hs
        have hg' := conGet_K (o := o) (key := key) hs hc.1
        cases hg : conGet o self con key with
        | panic => trivial
        | err e => trivial
        | ok x =>
          rw [hg] at hg'
          exact liftAct_K (conRemove_K hc.1) hg'
      have hK2 : WalkK e (fun v => KN e v) w₂ := by
        rw [← hwe2]
        refine withPath_K o r₂ _ _ _ k₂ ?_
        intro self con key hc hs
        have hg' := conGet_K (o := o) (key := key) hs hc.1
        cases hg : conGet o self con key with
        | panic => trivial
        | err e => trivial
        | ok x =>
          rw [hg] at hg'
          exact liftAct_K (conRemove_K hc.1) hg'
      clear hwe1 hwe2
      rcases Walk_cases_eq hw with ⟨c₁, a₁, c₂, a₂, rfl, rfl, hc, ha⟩ | ⟨c₁, c₂, rfl, rfl, hc⟩ | ⟨er, rfl, rfl⟩ |
        ⟨rfl, rfl⟩ | ⟨s₁, a₁, s₂, a₂, rfl, rfl, hs, ha⟩ | ⟨s₁, s₂, rfl, rfl, hs⟩
      · simp only []
        have hr' := DR_con hr hc
        have k1' : RootK e { r₁ with con := c₁ } := ⟨hK1.1, k₁.2⟩
        have k2' : RootK e { r₂ with con := c₂ } := ⟨hK2.1, k₂.2⟩
        exact liftWalk_eqv hr' (addWalk_eqv (o := o) (path := op.path) hr' k1' k2' ha) (fun _ _ _ => rfl)
      · rfl
      · rfl
      · rfl
      · simp only []
        have hr' := DR_self hr hs
        have k1' : RootK e { r₁ with self := s₁ } := ⟨k₁.1, hK1.1⟩
        have k2' : RootK e { r₂ with self := s₂ } := ⟨k₂.1, hK2.1⟩
        exact liftWalk_eqv hr' (addWalk_eqv (o := o) (path := op.path) hr' k1' k2' ha) (fun _ _ _ => rfl)
      · rfl

/-! ### `copy` -/

theorem failOf_WmapD {α} (f : α → α) (w : Walk α) : failOf (WmapD f w) = failOf w := by
  cases w <;> rfl

theorem failOf_eqv {α} {f : α → α} {w₁ w₂ : Walk α} (h : WmapD f w₁ = WmapD f w₂) : failOf w₁ = failOf w₂ := by
  rw [← failOf_WmapD f w₁, ← failOf_WmapD f w₂, h]

theorem afterW_eqv {α} {f : α → α} {r₁ r₂ : Root} {w₁ w₂ : Walk α} (hr : DR r₁ = DR r₂)
    (h : WmapD f w₁ = WmapD f w₂) : (afterW r₁ w₁).map DR = (afterW r₂ w₂).map DR := by
  rcases Walk_cases_eq h with ⟨c₁, a₁, c₂, a₂, rfl, rfl, hc, _⟩ | ⟨c₁, c₂, rfl, rfl, hc⟩ | ⟨e, rfl, rfl⟩ |
    ⟨rfl, rfl⟩ | ⟨s₁, a₁, s₂, a₂, rfl, rfl, hs, _⟩ | ⟨s₁, s₂, rfl, rfl, hs⟩
  · simp only [afterW, Option.map_some, DR_con hr hc]
  · rfl
  · rfl
  · rfl
  · simp only [afterW, Option.map_some, DR_self hr hs]
  · rfl

theorem copySource_eqv {e : Bool} {o : Opts} {r₁ r₂ : Root} {frm : Bytes}
    (hr : DR r₁ = DR r₂) (k₁ : RootK e r₁) (k₂ : RootK e r₂) :
    WmapD deepParse (copySource o r₁ frm) = WmapD deepParse (copySource o r₂ frm) := by
  unfold copySource
  refine withPath_eqv o deepParse r₁ r₂ _ _ _ hr k₁ k₂ ?_
  intro key s₁ s₂ c₁ c₂ hs hc kc₁ kc₂ _ _
  have hg := mapO_conGet_eqv (o := o) (key := key) hs hc kc₁.2 kc₂.2
  rcases mapO_eq_cases hg with ⟨a, b, ha, hb, hab⟩ | ⟨er, ha, hb⟩ | ⟨ha, hb⟩
  · rw [ha, hb]; simp only [AmapD, hc, hab]
  · rw [ha, hb]
  · rw [ha, hb]

theorem isNullN_deepParse (n : Node) (h : shape n = true) : isNullN (deepParse n) = isNullN n := by
  cases n <;> simp_all [shape, deepParse, isNullN]

theorem copyFirst_eqv {e : Bool} {o : Opts} {r₁ r₂ : Root} {frm : Bytes}
    (hr : DR r₁ = DR r₂) (k₁ : RootK e r₁) (k₂ : RootK e r₂) :
    WmapD deepParse (copyFirst o r₁ frm) = WmapD deepParse (copyFirst o r₂ frm) := by
  unfold copyFirst
  split
  · have hc := (DR_eq.1 hr).1
    have hn : isNullN r₁.con = isNullN r₂.con := by
      rw [← isNullN_deepParse _ k₁.1.2, ← isNullN_deepParse _ k₂.1.2, hc]
    rw [hn]
    split
    · rfl
    · simp only [WmapD, hc]
  · exact copySource_eqv hr k₁ k₂

theorem destWalk_eqv {e : Bool} {o : Opts} {r₁ r₂ : Root} {path : Bytes}
    (hr : DR r₁ = DR r₂) (k₁ : RootK e r₁) (k₂ : RootK e r₂) :
    WmapD id (destWalk o r₁ path) = WmapD id (destWalk o r₂ path) := by
  unfold destWalk
  refine withPath_eqv o id r₁ r₂ _ _ _ hr k₁ k₂ ?_
  intro key s₁ s₂ c₁ c₂ _ hc _ _ _ _
  simp only [AmapD, hc]

theorem copySrc_eqv {e : Bool} {o : Opts} {r₁ r₂ : Root} {frm : Bytes}
    (hr : DR r₁ = DR r₂) (k₁ : RootK e r₁) (k₂ : RootK e r₂) :
    mapO deepParse (copySrc o r₁ frm) = mapO deepParse (copySrc o r₂ frm) := by
  unfold copySrc
  split
  · simp only [mapO, (DR_eq.1 hr).1]
  · have hw := copySource_eqv (o := o) (frm := frm) hr k₁ k₂
    rcases Walk_cases_eq hw with ⟨c₁, a₁, c₂, a₂, h1, h2, hc, ha⟩ | ⟨c₁, c₂, h1, h2, hc⟩ | ⟨er, h1, h2⟩ |
      ⟨h1, h2⟩ | ⟨s₁, a₁, s₂, a₂, h1, h2, hs, ha⟩ | ⟨s₁, s₂, h1, h2, hs⟩ <;> rw [h1, h2] <;>
      simp only [mapO, ha]

theorem opCopy_eqv {e : Bool} {o : Opts} {r₁ r₂ : Root} {acc : Int} {op : Op} (he : o.esc = e)
    (hr : DR r₁ = DR r₂) (k₁ : RootK e r₁) (k₂ : RootK e r₂) (_hv : OpK e op) :
    mapO (fun p : Root × Int => (DR p.1, p.2)) (opCopy o r₁ acc op) =
      mapO (fun p : Root × Int => (DR p.1, p.2)) (opCopy o r₂ acc op) := by
  rw [opCopy_eq, opCopy_eq]
  cases hf : op.frm with
  | none => rfl
  | some frm =>
    simp only []
    -- the source walk
    have hw1 := copyFirst_eqv (o := o) (frm := frm) hr k₁ k₂
    have ha1 := afterW_eqv hr hw1
    cases h1 : afterW r₁ (copyFirst o r₁ frm) with
    | none =>
      cases h2 : afterW r₂ (copyFirst o r₂ frm) with
      | some x => rw [h1, h2] at ha1; cases ha1
      | none => simp only [failOf_eqv hw1]
    | some r1a =>
      cases h2 : afterW r₂ (copyFirst o r₂ frm) with
      | none => rw [h1, h2] at ha1; cases ha1
      | some r1b =>
        rw [h1, h2] at ha1
        simp only [Option.map_some, Option.some.injEq] at ha1
        simp only []
        have ka := afterW_K k₁ (copyFirst_K (o := o) (frm := frm) k₁) h1
        have kb := afterW_K k₂ (copyFirst_K (o := o) (frm := frm) k₂) h2
        -- the destination walk
        have hw2 := destWalk_eqv (o := o) (path := op.path) ha1 ka kb
        have ha2 := afterW_eqv ha1 hw2
        cases h3 : afterW r1a (destWalk o r1a op.path) with
        | none =>
          cases h4 : afterW r1b (destWalk o r1b op.path) with
          | some x => rw [h3, h4] at ha2; cases ha2
          | none => simp only [failOf_eqv hw2]
        | some r2a =>
          cases h4 : afterW r1b (destWalk o r1b op.path) with
          | none => rw [h3, h4] at ha2; cases ha2
          | some r2b =>
            rw [h3, h4] at ha2
            simp only [Option.map_some, Option.some.injEq] at ha2
            simp only []
            have k2a := afterW_K ka (destWalk_K (o := o) (path := op.path) ka) h3
            have k2b := afterW_K kb (destWalk_K (o := o) (path := op.path) kb) h4
            -- the source as it is now
            have hsrc := copySrc_eqv (o := o) (frm := frm) ha2 k2a k2b
            rcases mapO_eq_cases hsrc with ⟨va, vb, hva, hvb, hvab⟩ | ⟨er, hva, hvb⟩ | ⟨hva, hvb⟩
            · rw [hva, hvb]
              simp only []
              have kva := copySrc_K k2a hva
              have kvb := copySrc_K k2b hvb
              have hdc : deepCopy o.esc va = deepCopy o.esc vb := by rw [he]; exact deepCopy_eqv kva kvb hvab
              have hnil : isDocNil r2a.con = isDocNil r2b.con := by
                rw [← isDocNil_deepParse _ k2a.1.2, ← isDocNil_deepParse _ k2b.1.2, (DR_eq.1 ha2).1]
              rw [hnil, hdc]
              split
              · rfl
              · split
                · rfl
                · have kcp : KN e (deepCopy o.esc vb).1 := by rw [he]; exact KN_deepCopy kvb
                  have hw4 := addWalk_eqv (o := o) (path := op.path) (v₁ := (deepCopy o.esc vb).1)
                    (v₂ := (deepCopy o.esc vb).1) ha2 k2a k2b rfl
                  have ha4 := afterW_eqv ha2 hw4
                  cases h5 : afterW r2a (addWalk o r2a op.path (deepCopy o.esc vb).1) with
                  | none =>
                    cases h6 : afterW r2b (addWalk o r2b op.path (deepCopy o.esc vb).1) with
                    | some x => rw [h5, h6] at ha4; cases ha4
                    | none => simp only [failOf_eqv hw4]
                  | some r3a =>
                    cases h6 : afterW r2b (addWalk o r2b op.path (deepCopy o.esc vb).1) with
                    | none => rw [h5, h6] at ha4; cases ha4
                    | some r3b =>
                      rw [h5, h6] at ha4
                      simp only [Option.map_some, Option.some.injEq] at ha4
                      simp only [mapO, ha4]
            · rw [hva, hvb]
            · rw [hva, hvb]

/-! ### one operation other than `test` -/

theorem liftAcc_eqv {acc : Int} {x y : Outcome Root} (h : mapO DR x = mapO DR y) :
    mapO (fun p : Root × Int => (DR p.1, p.2)) (liftAcc acc x) =
      mapO (fun p : Root × Int => (DR p.1, p.2)) (liftAcc acc y) := by
  rcases mapO_eq_cases h with ⟨a, b, ha, hb, hab⟩ | ⟨er, ha, hb⟩ | ⟨ha, hb⟩ <;> rw [ha, hb] <;>
    simp only [liftAcc, mapO, hab]

theorem applyOp_eqv {e : Bool} {o : Opts} {r₁ r₂ : Root} {acc : Int} {op : Op} (he : o.esc = e)
    (hr : DR r₁ = DR r₂) (k₁ : RootK e r₁) (k₂ : RootK e r₂) (hv : OpK e op)
    (hnt : op.kind ≠ ascii "test") :
    mapO (fun p : Root × Int => (DR p.1, p.2)) (applyOp o r₁ acc op) =
      mapO (fun p : Root × Int => (DR p.1, p.2)) (applyOp o r₂ acc op) := by
  rw [applyOp_eq, applyOp_eq]
  by_cases h1 : op.kind = ascii "add"
  · rw [if_pos h1, if_pos h1]; exact liftAcc_eqv (opAdd_eqv hr k₁ k₂ hv)
  rw [if_neg h1, if_neg h1]
  by_cases h2 : op.kind = ascii "remove"
  · rw [if_pos h2, if_pos h2]; exact liftAcc_eqv (opRemove_eqv hr k₁ k₂)
  rw [if_neg h2, if_neg h2]
  by_cases h3 : op.kind = ascii "replace"
  · rw [if_pos h3, if_pos h3]; exact liftAcc_eqv (opReplace_eqv hr k₁ k₂)
  rw [if_neg h3, if_neg h3]
  by_cases h4 : op.kind = ascii "move"
  · rw [if_pos h4, if_pos h4]; exact liftAcc_eqv (opMove_eqv he hr k₁ k₂ hv)
  rw [if_neg h4, if_neg h4, if_neg hnt, if_neg hnt]
  by_cases h5 : op.kind = ascii "copy"
  · rw [if_pos h5, if_pos h5]; exact opCopy_eqv he hr k₁ k₂ hv
  rw [if_neg h5, if_neg h5]

/-! ### a passing `test` -/

theorem equalTo_fix (n : Node) (ov : Option Cst) : deepParse (equalTo n ov).2 = deepParse n := by
  cases ov with
  | none => simp [equalTo]
  | some c =>
    simp only [equalTo]
    split
    · rfl
    · split
      · exact deepParse_idem n
      · rfl

theorem opTest_fix {o : Opts} {r r1 : Root} {op : Op} (hs : shape r.con = true)
    (h : opTest o r op = .ok r1) : DR r1 = DR r := by
  unfold opTest at h
  split at h
  · have := equalTo_fix r.con op.value
    cases he : equalTo r.con op.value with
    | mk b con' =>
      rw [he] at this h
      simp only at h this
      split at h
      · simp only [Outcome.ok.injEq] at h
        subst h
        exact DR_eq.2 ⟨this, rfl, rfl⟩
      · cases h
  · generalize hwe : (withPath o r op.path _) = w at h
    have hfix : WalkFix r.self r.con w := by
      rw [← hwe]
      refine withPath_fix o r _ _ hs ?_
      intro self con key c' a hsc hact
      simp only [] at hact
      cases hg : conGet o self con key with
      | panic => rw [hg] at hact; cases hact
      | err e' =>
        rw [hg] at hact
        cases e' <;> simp only [] at hact <;> first
          | (cases hact; done)
          | skip
        cases he : equalTo Node.nil op.value with
        | mk b val' =>
          rw [he] at hact
          simp only at hact
          split at hact
          · simp only [Outcome.ok.injEq, Prod.mk.injEq] at hact; rw [← hact.1]
          · cases hact
      | ok val =>
        rw [hg] at hact
        simp only [] at hact
        have hv := equalTo_fix val op.value
        cases he : equalTo val op.value with
        | mk b val' =>
          rw [he] at hv hact
          simp only at hv hact
          split at hact
          · split at hact
            · simp only [Outcome.ok.injEq, Prod.mk.injEq] at hact; rw [← hact.1]
            · simp only [Outcome.ok.injEq, Prod.mk.injEq] at hact
              rw [← hact.1, putChild_D o con key val' hsc, hv, ← putChild_D o con key val hsc,
                putChild_self hg]
          · cases hact
    clear hwe
    cases w with
    | done con a =>
      simp only [liftWalk, Outcome.ok.injEq] at h
      subst h
      exact DR_eq.2 ⟨hfix, rfl, rfl⟩
    | doneSelf s a =>
      simp only [liftWalk, Outcome.ok.injEq] at h
      subst h
      exact DR_eq.2 ⟨rfl, hfix.1, rfl⟩
    | notFound con => simp [liftWalk] at h
    | notFoundSelf s => simp [liftWalk] at h
    | fail e => simp [liftWalk] at h
    | panic => simp [liftWalk] at h

/-! ### the two runs -/

/-- **the run of a patch and the run of the patch without its `test` operations stay in the same
parse class** (as long as the former succeeds) -/
theorem applyOps_sim {e : Bool} (o : Opts) (he : o.esc = e) : ∀ (ops : List Op) (r₁ r₂ : Root) (acc : Int)
    (r' : Root), DR r₁ = DR r₂ → RootK e r₁ → RootK e r₂ → (∀ op ∈ ops, OpK e op) →
    applyOps o r₁ acc ops = .ok r' →
    ∃ r'', applyOps o r₂ acc (ops.filter fun op => op.kind ≠ ascii "test") = .ok r'' ∧ DR r' = DR r'' ∧
      RootK e r' ∧ RootK e r'' := by
  intro ops
  induction ops with
  | nil =>
    intro r₁ r₂ acc r' hr k₁ k₂ _ h
    simp only [applyOps, Outcome.ok.injEq] at h
    subst h
    exact ⟨r₂, rfl, hr, k₁, k₂⟩
  | cons op ops ih =>
    intro r₁ r₂ acc r' hr k₁ k₂ hops h
    have hop := hops op List.mem_cons_self
    have hops' : ∀ op' ∈ ops, OpK e op' := fun op' hm => hops op' (List.mem_cons_of_mem _ hm)
    rw [applyOps_cons] at h
    cases h1 : applyOp o r₁ acc op with
    | err er => rw [h1] at h; cases h
    | panic => rw [h1] at h; cases h
    | ok p =>
      obtain ⟨ra, acca⟩ := p
      rw [h1] at h
      simp only [Outcome.bind] at h
      have kra : RootK e ra := by
        have := applyOp_K (acc := acc) he k₁ hop
        rw [h1] at this
        exact this
      by_cases hk : op.kind = ascii "test"
      · -- a passing test: the state stays in its parse class, the total is unchanged
        have hf : (op :: ops).filter (fun op => op.kind ≠ ascii "test") =
            ops.filter (fun op => op.kind ≠ ascii "test") := by
          simp [List.filter_cons, hk]
        rw [hf]
        rw [applyOp_eq] at h1
        have e1 : op.kind ≠ ascii "add" := by rw [hk]; decide
        have e2 : op.kind ≠ ascii "remove" := by rw [hk]; decide
        have e3 : op.kind ≠ ascii "replace" := by rw [hk]; decide
        have e4 : op.kind ≠ ascii "move" := by rw [hk]; decide
        rw [if_neg e1, if_neg e2, if_neg e3, if_neg e4, if_pos hk] at h1
        obtain ⟨ht, hacc⟩ := liftAcc_ok h1
        subst hacc
        have hfix := opTest_fix k₁.1.2 ht
        exact ih ra r₂ acca r' (hfix.trans hr) kra k₂ hops' h
      · have hf : (op :: ops).filter (fun op => op.kind ≠ ascii "test") =
            op :: ops.filter (fun op => op.kind ≠ ascii "test") := by
          simp [List.filter_cons, hk]
        rw [hf, applyOps_cons]
        have hsim := applyOp_eqv (acc := acc) he hr k₁ k₂ hop hk
        rw [h1] at hsim
        cases h2 : applyOp o r₂ acc op with
        | err er => rw [h2] at hsim; cases hsim
        | panic => rw [h2] at hsim; cases hsim
        | ok q =>
          obtain ⟨rb, accb⟩ := q
          rw [h2] at hsim
          simp only [mapO, Outcome.ok.injEq, Prod.mk.injEq] at hsim
          have krb : RootK e rb := by
            have := applyOp_K (acc := acc) he k₂ hop
            rw [h2] at this
            exact this
          simp only [Outcome.bind]
          rw [← hsim.2]
          exact ih ra rb acca r' hsim.1 kra krb hops' h

/-! ### printing depends on the parse class only -/

theorem marshalRoot_DR {e : Bool} (r : Root) (hk : RootK e r) : marshalRoot e (DR r) = marshalRoot e r := by
  obtain ⟨⟨hkn, hs⟩, _⟩ := hk
  unfold marshalRoot DR
  cases hc : r.con with
  | docNil => rfl
  | nilAry => rfl
  | doc keys obj =>
    rw [hc] at hkn
    have := cstOf_deepParse e _ hkn
    simp only [deepParse] at this ⊢
    rw [this]
  | ary ns =>
    rw [hc] at hkn
    have := cstOf_deepParse e _ hkn
    simp only [deepParse] at this ⊢
    rw [this]
  | nil => rw [hc] at hs; simp [shape] at hs
  | raw c => rw [hc] at hs; simp [shape] at hs

theorem marshalRoot_eqv {e : Bool} {r₁ r₂ : Root} (hr : DR r₁ = DR r₂) (k₁ : RootK e r₁) (k₂ : RootK e r₂) :
    marshalRoot e r₁ = marshalRoot e r₂ := by
  rw [← marshalRoot_DR r₁ k₁, ← marshalRoot_DR r₂ k₂, hr]

/-! ### what a decoded patch outside the trigger class satisfies -/

theorem opValue_kr {e : Bool} {ms : List (Bytes × Cst)} (h : keyRespelledM e ms = false) {c : Cst}
    (hc : opValue ms = some c) : keyRespelled e c = false := by
  unfold opValue member at hc
  cases hl : lookupLastC (ascii "value") ms with
  | none => rw [hl] at hc; simp at hc
  | some c' =>
    rw [hl] at hc
    cases hn : c'.isNullLit with
    | true =>
      simp only [hn, if_true, Option.some.injEq] at hc; subst hc; rfl
    | false =>
      simp only [hn, Bool.false_eq_true, if_false, Option.some.injEq] at hc; subst hc
      obtain ⟨k', hk'⟩ := lookupLastC_mem hl
      exact ((keyRespelledM_false_iff e ms).1 h _ hk').2

theorem decodeOps_kr {e : Bool} : ∀ {xs : List Cst} {ops : List Op}, keyRespelledL e xs = false →
    decodeOps xs = some ops → ∀ op ∈ ops, ∀ c, op.value = some c → keyRespelled e c = false
  | [], ops, _, h => by simp [decodeOps] at h; subst h; simp
  | c :: cs, ops, hw, h => by
    simp only [keyRespelledL, Bool.or_eq_false_iff] at hw
    cases c with
    | obj ms =>
      simp only [decodeOps] at h
      cases h1 : decodeOp ms with
      | none => simp [h1] at h
      | some op =>
        cases h2 : decodeOps cs with
        | none => simp [h1, h2] at h
        | some ops' =>
          simp only [h1, h2, Option.some.injEq] at h
          subst h
          intro op' hop'
          simp only [List.mem_cons] at hop'
          rcases hop' with rfl | hop'
          · obtain ⟨p, _, rfl⟩ := DecodePatchLemmas.decodeOp_some ms op' h1
            intro c hc
            exact opValue_kr (by simpa [keyRespelled] using hw.1) hc
          · exact decodeOps_kr hw.2 h2 op' hop'
    | lit s => simp [decodeOps] at h
    | str b => simp [decodeOps] at h
    | arr xs => simp [decodeOps] at h

/-- the reference tokens of a decoded `path` survive the encoder -/
theorem OpFacts.splitSlash_QK {op : Op} (h : OpFacts op) (e : Bool) :
    ∀ p ∈ splitSlash op.path, QK e (decodeToken p) = true := by
  obtain ⟨b, hb, hpath⟩ := h.path
  have hv : isValidUtf8 op.path = true := by
    rw [hpath]; exact unquote_utf8 b ((validBody_eq_true_iff b).1 hb)
  intro p hp
  rw [← splitOnSlash_eq] at hp
  have h1 := splitOnSlash_utf8 _ op.path (Nat.le_refl _) hv p hp
  have h2 := decodeTok_utf8 _ p (Nat.le_refl _) h1
  rw [decodeTok_eq] at h2
  exact QK_of_utf8 e _ h2

theorem decodePatch_OpK {e : Bool} {patch : Bytes} {ops : List Op} (h : decodePatch patch = .ok ops)
    (hk : ∀ c, parseCst patch = some c → keyRespelled e c = false)
    (hnd : ∀ op ∈ ops, ∀ v, op.value = some v → v.valueOf.noDup = true) :
    ∀ op ∈ ops, OpK e op := by
  obtain ⟨xs, hp, hd⟩ := decodePatch_inv h
  have hkr := hk _ hp
  simp only [keyRespelled] at hkr
  intro op hop
  have hf := decodePatch_facts h op hop
  exact ⟨fun c hc => ⟨hf.val c hc, decodeOps_kr hkr hd op hop c hc, hnd op hop c hc⟩, hf.splitSlash_QK e⟩

end Impl
end JP
