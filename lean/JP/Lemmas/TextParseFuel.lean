import JP.Cst

namespace JP

theorem Option.map_mono_aux {α β : Type} (g : α → β) (a b : Option α) (r : β)
    (hab : ∀ q, a = some q → b = some q) (h : a.map g = some r) : b.map g = some r := by
  cases a with
  | none => simp at h
  | some q => rw [hab q rfl]; exact h

theorem parse_fuel_mono_aux : ∀ (f : Nat),
    (∀ f' d bs r, f ≤ f' → parseValue f d bs = some r → parseValue f' d bs = some r) ∧
    (∀ f' d bs r, f ≤ f' → parseElems f d bs = some r → parseElems f' d bs = some r) ∧
    (∀ f' d bs r, f ≤ f' → parseMembers f d bs = some r → parseMembers f' d bs = some r)
  | 0 => by
    refine ⟨?_, ?_, ?_⟩ <;> intro f' d bs r _ h
    · simp [parseValue] at h
    · simp [parseElems] at h
    · simp [parseMembers] at h
  | f + 1 => by
    obtain ⟨ihv, ihe, ihm⟩ := parse_fuel_mono_aux f
    refine ⟨?_, ?_, ?_⟩ <;> intro f' d bs r hle h
    · cases f' with
      | zero => omega
      | succ f' =>
        have hle' : f ≤ f' := by omega
        cases bs with
        | nil => simp [parseValue] at h
        | cons c cs =>
          rw [parseValue] at h ⊢
          split at h
          · rename_i h123
            split at h
            · simp at h
            · rename_i hdep
              rw [if_pos h123, if_neg hdep]
              split at h
              · exact h
              · exact Option.map_mono_aux _ _ _ _ (fun q hq => ihm _ _ _ _ hle' hq) h
          · rename_i h123
            rw [if_neg h123]
            split at h
            · rename_i h91
              split at h
              · simp at h
              · rename_i hdep
                rw [if_pos h91, if_neg hdep]
                split at h
                · exact h
                · exact Option.map_mono_aux _ _ _ _ (fun q hq => ihe _ _ _ _ hle' hq) h
            · rename_i h91
              rw [if_neg h91]
              exact h
    · cases f' with
      | zero => omega
      | succ f' =>
        have hle' : f ≤ f' := by omega
        rw [parseElems] at h ⊢
        cases hv : parseValue f d bs with
        | none => rw [hv] at h; simp at h
        | some q =>
          obtain ⟨x, r1⟩ := q
          rw [hv] at h
          rw [ihv _ _ _ _ hle' hv]
          simp only at h ⊢
          split at h
          · exact h
          · exact Option.map_mono_aux _ _ _ _ (fun q hq => ihe _ _ _ _ hle' hq) h
          · simp at h
    · cases f' with
      | zero => omega
      | succ f' =>
        have hle' : f ≤ f' := by omega
        rw [parseMembers.eq_def] at h ⊢
        simp only at h ⊢
        split at h
        · rename_i cs
          cases hk : parseStrBody cs with
          | none => rw [hk] at h; simp at h
          | some q =>
            obtain ⟨k, r1⟩ := q
            rw [hk] at h
            simp only at h ⊢
            split at h
            · rename_i r2 hs
              cases hv : parseValue f d (skipWs r2) with
              | none => rw [hv] at h; simp at h
              | some q =>
                obtain ⟨v, r3⟩ := q
                rw [hv] at h
                rw [ihv _ _ _ _ hle' hv]
                simp only at h ⊢
                split at h
                · exact h
                · exact Option.map_mono_aux _ _ _ _ (fun q hq => ihm _ _ _ _ hle' hq) h
                · simp at h
            · simp at h
        · simp at h

/-- more fuel never changes a successful parse -/
theorem parseValue_fuel_mono (f f' d : Nat) (bs : Bytes) (r : Cst × Bytes) (hle : f ≤ f')
    (h : parseValue f d bs = some r) : parseValue f' d bs = some r :=
  (parse_fuel_mono_aux f).1 f' d bs r hle h

theorem parseElems_fuel_mono (f f' d : Nat) (bs : Bytes) (r : List Cst × Bytes) (hle : f ≤ f')
    (h : parseElems f d bs = some r) : parseElems f' d bs = some r :=
  (parse_fuel_mono_aux f).2.1 f' d bs r hle h

theorem parseMembers_fuel_mono (f f' d : Nat) (bs : Bytes) (r : List (Bytes × Cst) × Bytes)
    (hle : f ≤ f') (h : parseMembers f d bs = some r) : parseMembers f' d bs = some r :=
  (parse_fuel_mono_aux f).2.2 f' d bs r hle h

end JP
