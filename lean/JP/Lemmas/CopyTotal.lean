import JP.Lemmas.CopySize

/-!
# The running copy-size total over a whole patch
-/

namespace JP
namespace Impl

/-- sum of sizes, as an integer -/
def sumSizes (l : List Nat) : Int := (l.sum : Nat)

theorem sumSizes_nil : sumSizes [] = 0 := rfl
theorem sumSizes_cons (a : Nat) (l : List Nat) : sumSizes (a :: l) = (a : Int) + sumSizes l := by
  simp [sumSizes, List.sum_cons]
theorem sumSizes_append (l₁ l₂ : List Nat) : sumSizes (l₁ ++ l₂) = sumSizes l₁ + sumSizes l₂ := by
  simp [sumSizes, List.sum_append]

/-- the size one operation contributes -/
def opSize (o : Opts) (r : Root) (op : Op) : Nat :=
  if op.kind = ascii "copy" then copySizeOf o r op else 0

theorem copySizes_cons (o : Opts) (r : Root) (acc : Int) (op : Op) (ops : List Op) :
    copySizes o r acc (op :: ops) =
      opSize o r op :: (match applyOp o r acc op with
        | .ok (r', acc') => copySizes o r' acc' ops
        | _ => []) := by
  rw [copySizes]
  simp only [opSize]
  cases applyOp o r acc op with
  | ok p => rfl
  | err e => rfl
  | panic => rfl

/-- one successful step adds exactly the operation's size -/
theorem applyOp_ok_acc {o r acc op r' acc'} (h : applyOp o r acc op = .ok (r', acc')) :
    acc' = acc + (opSize o r op : Int) := by
  unfold opSize
  by_cases hk : op.kind = ascii "copy"
  · rw [if_pos hk]
    rw [applyOp_copy hk] at h
    exact opCopy_ok_acc h
  · rw [if_neg hk, applyOp_not_copy_acc hk h]; simp

theorem failOf_ne_ok {α} (w : Walk α) (x : Root × Int) : failOf w ≠ .ok x := by
  cases w <;> simp [failOf]

/-- inversion of a successful copy -/
theorem opCopy_ok_inv {o r acc op r' acc'} (h : opCopy o r acc op = .ok (r', acc')) :
    ∃ frm r1 r2 val, op.frm = some frm ∧ afterW r (copyFirst o r frm) = some r1 ∧
      afterW r1 (destWalk o r1 op.path) = some r2 ∧ copySrc o r2 frm = .ok val ∧
      ¬ (frm = [] ∧ isDocNil r2.con = true) ∧
      ¬ (o.limit > 0 ∧ acc + ((deepCopy o.esc val).2 : Int) > o.limit) ∧
      afterW r2 (addWalk o r2 op.path (deepCopy o.esc val).1) = some r' ∧
      acc' = acc + ((deepCopy o.esc val).2 : Int) := by
  rw [opCopy_eq] at h
  split at h
  · contradiction
  · rename_i frm hfrm
    split at h
    · exact absurd h (failOf_ne_ok _ _)
    · rename_i r1 h1
      split at h
      · exact absurd h (failOf_ne_ok _ _)
      · rename_i r2 h2
        split at h
        · contradiction
        · contradiction
        · rename_i val h3
          split at h
          · contradiction
          · rename_i hnil
            split at h
            · contradiction
            · rename_i hlim
              split at h
              · rename_i r3 h4
                cases h
                refine ⟨frm, r1, r2, val, hfrm, h1, h2, h3, ?_, hlim, h4, rfl⟩
                simpa [Bool.and_eq_true, decide_eq_true_eq] using hnil
              · exact absurd h (failOf_ne_ok _ _)

/-- with a positive limit, a copy that succeeds leaves the total within the limit -/
theorem opCopy_ok_within {o r acc op r' acc'} (hl : o.limit > 0)
    (h : opCopy o r acc op = .ok (r', acc')) : acc' ≤ o.limit := by
  obtain ⟨frm, r1, r2, val, _, _, _, _, _, hlim, _, hacc⟩ := opCopy_ok_inv h
  subst hacc
  by_cases hgt : acc + ((deepCopy o.esc val).2 : Int) > o.limit
  · exact absurd ⟨hl, hgt⟩ hlim
  · omega

/-- a successful copy resolves its source and destination -/
theorem opCopy_ok_resolves {o r acc op r' acc'} (h : opCopy o r acc op = .ok (r', acc')) :
    CopyResolves o r op := by
  obtain ⟨frm, r1, r2, val, h0, h1, h2, h3, h4, _⟩ := opCopy_ok_inv h
  exact ⟨frm, r1, r2, val, h0, h1, h2, h3, h4⟩

/-- while the operations succeed, the running total stays within a positive limit -/
theorem applyOp_ok_within {o r acc op r' acc'} (hl : o.limit > 0) (ha : acc ≤ o.limit)
    (h : applyOp o r acc op = .ok (r', acc')) : acc' ≤ o.limit := by
  by_cases hk : op.kind = ascii "copy"
  · rw [applyOp_copy hk] at h; exact opCopy_ok_within hl h
  · rw [applyOp_not_copy_acc hk h]; exact ha

theorem applyOpsAcc_ok_within {o : Opts} (hl : o.limit > 0) (ops : List Op) :
    ∀ {r acc r' acc'}, acc ≤ o.limit → applyOpsAcc o r acc ops = .ok (r', acc') → acc' ≤ o.limit := by
  induction ops with
  | nil => intro r acc r' acc' ha h; simp only [applyOpsAcc, Outcome.ok.injEq, Prod.mk.injEq] at h; omega
  | cons op ops ih =>
    intro r acc r' acc' ha h
    rw [applyOpsAcc_cons] at h
    cases h1 : applyOp o r acc op with
    | ok p =>
      rw [h1] at h
      exact ih (applyOp_ok_within hl ha (by rw [h1])) h
    | err e => rw [h1] at h; simp [Outcome.bind] at h
    | panic => rw [h1] at h; simp [Outcome.bind] at h

/-- the running total after a successful prefix is the start value plus the sizes -/
theorem applyOpsAcc_total (o : Opts) (ops : List Op) :
    ∀ {r acc r' acc'}, applyOpsAcc o r acc ops = .ok (r', acc') →
      acc' = acc + sumSizes (copySizes o r acc ops) ∧ (copySizes o r acc ops).length = ops.length := by
  induction ops with
  | nil =>
    intro r acc r' acc' h
    simp only [applyOpsAcc, Outcome.ok.injEq, Prod.mk.injEq] at h
    simp [copySizes, sumSizes_nil, h.2]
  | cons op ops ih =>
    intro r acc r' acc' h
    rw [applyOpsAcc_cons] at h
    cases h1 : applyOp o r acc op with
    | ok p =>
      obtain ⟨r1, acc1⟩ := p
      rw [h1] at h
      simp only [Outcome.bind] at h
      obtain ⟨ht, hlen⟩ := ih h
      rw [copySizes_cons, h1, sumSizes_cons]
      simp only [List.length_cons, hlen, and_true]
      rw [ht, applyOp_ok_acc h1]; omega
    | err e => rw [h1] at h; simp [Outcome.bind] at h
    | panic => rw [h1] at h; simp [Outcome.bind] at h

/-- the sizes of a patch whose prefix succeeds: those of the prefix, then those of the rest -/
theorem copySizes_append (o : Opts) (ops₁ ops₂ : List Op) :
    ∀ {r acc r₁ acc₁}, applyOpsAcc o r acc ops₁ = .ok (r₁, acc₁) →
      copySizes o r acc (ops₁ ++ ops₂) = copySizes o r acc ops₁ ++ copySizes o r₁ acc₁ ops₂ := by
  induction ops₁ with
  | nil =>
    intro r acc r₁ acc₁ h
    simp only [applyOpsAcc, Outcome.ok.injEq, Prod.mk.injEq] at h
    simp [copySizes, h.1, h.2]
  | cons op ops ih =>
    intro r acc r₁ acc₁ h
    rw [applyOpsAcc_cons] at h
    cases h1 : applyOp o r acc op with
    | ok p =>
      obtain ⟨r1, acc1⟩ := p
      rw [h1] at h
      simp only [Outcome.bind] at h
      rw [List.cons_append, copySizes_cons, copySizes_cons, h1]
      simp only [List.cons_append, ih h]
    | err e => rw [h1] at h; simp [Outcome.bind] at h
    | panic => rw [h1] at h; simp [Outcome.bind] at h

/-- the first copy-size failure of a patch: where exactly `applyOps` reports it -/
theorem applyOps_copySize_iff (o : Opts) (ops : List Op) : ∀ (r : Root) (acc : Int),
    applyOps o r acc ops = .err .copySize ↔
      ∃ ops₁ op ops₂ r₁ acc₁, ops = ops₁ ++ op :: ops₂ ∧
        applyOpsAcc o r acc ops₁ = .ok (r₁, acc₁) ∧
        applyOp o r₁ acc₁ op = .err .copySize := by
  induction ops with
  | nil =>
    intro r acc
    constructor
    · intro h; simp [applyOps] at h
    · rintro ⟨ops₁, op, ops₂, _, _, h, _⟩; simp at h
  | cons op ops ih =>
    intro r acc
    rw [applyOps_cons]
    constructor
    · intro h
      cases h1 : applyOp o r acc op with
      | ok p =>
        obtain ⟨r1, acc1⟩ := p
        rw [h1] at h
        simp only [Outcome.bind] at h
        obtain ⟨ops₁, op', ops₂, r₁, acc₁, he, hp, hb⟩ := (ih r1 acc1).1 h
        refine ⟨op :: ops₁, op', ops₂, r₁, acc₁, by rw [he]; rfl, ?_, hb⟩
        rw [applyOpsAcc_cons, h1]; exact hp
      | err e =>
        rw [h1] at h
        simp only [Outcome.bind, Outcome.err.injEq] at h
        subst h
        exact ⟨[], op, ops, r, acc, rfl, rfl, h1⟩
      | panic => rw [h1] at h; simp [Outcome.bind] at h
    · rintro ⟨ops₁, op', ops₂, r₁, acc₁, he, hp, hb⟩
      cases ops₁ with
      | nil =>
        simp only [List.nil_append, List.cons.injEq] at he
        simp only [applyOpsAcc, Outcome.ok.injEq, Prod.mk.injEq] at hp
        rw [he.1, hp.1, hp.2, hb]; rfl
      | cons op₀ ops₁ =>
        simp only [List.cons_append, List.cons.injEq] at he
        rw [applyOpsAcc_cons] at hp
        rw [he.1]
        cases h1 : applyOp o r acc op₀ with
        | ok p =>
          rw [h1] at hp
          simp only [Outcome.bind] at hp ⊢
          exact (ih p.1 p.2).2 ⟨ops₁, op', ops₂, r₁, acc₁, he.2, hp, hb⟩
        | err e => rw [h1] at hp; simp [Outcome.bind] at hp
        | panic => rw [h1] at hp; simp [Outcome.bind] at hp

end Impl
end JP
