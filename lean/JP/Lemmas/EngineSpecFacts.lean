import JP.Lemmas.EngineAllow

/-!
# Specification-level facts used by the corollaries of C01
(value semantics of `Spec.applyOp`: `move = remove ; add`, reading back what was written,
an absent member tests as null, edits under one member leave the other members alone)
-/

namespace JP
namespace Impl

open Spec (Res)

/-! ### association lists -/

theorem lookup_set_self (k : Bytes) (v : Value) (ms : Value.Members) :
    Value.lookup k (Value.set k v ms) = some v := by
  induction ms with
  | nil => simp [Value.set, Value.lookup]
  | cons m ms ih =>
    obtain ⟨k', v'⟩ := m
    simp only [Value.set]
    split
    · simp [Value.lookup]
    · next h => simp [Value.lookup, h, ih]

theorem lookup_set_ne (a k : Bytes) (v : Value) (ms : Value.Members) (h : a ≠ k) :
    Value.lookup a (Value.set k v ms) = Value.lookup a ms := by
  induction ms with
  | nil => simp [Value.set, Value.lookup, Ne.symm h]
  | cons m ms ih =>
    obtain ⟨k', v'⟩ := m
    simp only [Value.set]
    split
    · next hk => subst hk; simp [Value.lookup, Ne.symm h]
    · next hk =>
      simp only [Value.lookup]
      split
      · rfl
      · exact ih

theorem lookup_erase_ne (a k : Bytes) (ms : Value.Members) (h : a ≠ k) :
    Value.lookup a (Value.erase k ms) = Value.lookup a ms := by
  induction ms with
  | nil => simp [Value.erase, Value.lookup]
  | cons m ms ih =>
    obtain ⟨k', v'⟩ := m
    simp only [Value.erase]
    split
    · next hk => subst hk; simp [Value.lookup, Ne.symm h, ih]
    · next hk =>
      simp only [Value.lookup]
      split
      · rfl
      · exact ih

theorem insertAt_length {α} (i : Nat) (a : α) (xs : List α) : (Spec.insertAt i a xs).length = xs.length + 1 := by
  induction xs generalizing i with
  | nil => cases i <;> rfl
  | cons x xs ih => cases i with
    | zero => rfl
    | succ i => simp [Spec.insertAt, ih]

theorem insertAt_getElem? {α} (i : Nat) (a : α) (xs : List α) (h : i ≤ xs.length) :
    (Spec.insertAt i a xs)[i]? = some a := by
  induction xs generalizing i with
  | nil => cases i with
    | zero => rfl
    | succ i => simp at h
  | cons x xs ih => cases i with
    | zero => rfl
    | succ i => simp only [List.length_cons] at h; simp [Spec.insertAt, ih i (by omega)]

/-! ### `nav` after an edit of the parent -/

theorem nav_fail_cause (o : Spec.Opts) : ∀ (ts : List Bytes) (v : Value) (c : Spec.Cause),
    nav o v ts = .fail c → c = .parentUnreachable := by
  intro ts
  induction ts with
  | nil =>
    intro v c h
    simp only [nav] at h
    split at h
    · cases h
    · cases h; rfl
  | cons t ts ih =>
    intro v c h
    cases v with
    | obj ms =>
      simp only [nav] at h
      cases hl : Value.lookup t ms with
      | none => rw [hl] at h; cases h; rfl
      | some child =>
        rw [hl] at h
        simp only at h
        cases hn : nav o child ts with
        | ok pk => rw [hn] at h; cases h
        | fail c' => rw [hn] at h; simp only [Res.bind] at h; cases h; exact ih child _ hn
        | unspec => rw [hn] at h; cases h
    | arr xs =>
      simp only [nav] at h
      cases hr : Spec.readIdx o.neg xs.length t with
      | unspec => rw [hr] at h; cases h
      | bad => rw [hr] at h; cases h; rfl
      | «at» i =>
        rw [hr] at h
        simp only at h
        cases hl : xs[i]? with
        | none => rw [hl] at h; cases h; rfl
        | some child =>
          rw [hl] at h
          simp only at h
          cases hn : nav o child ts with
          | ok pk => rw [hn] at h; cases h
          | fail c' => rw [hn] at h; simp only [Res.bind] at h; cases h; exact ih child _ hn
          | unspec => rw [hn] at h; cases h
    | null => simp only [nav] at h; cases h; rfl
    | bool b => simp only [nav] at h; cases h; rfl
    | num l => simp only [nav] at h; cases h; rfl
    | str s => simp only [nav] at h; cases h; rfl

/-- after rebuilding around a new parent, the same tokens lead to the new parent -/
theorem nav_rebuild (o : Spec.Opts) : ∀ (ts : List Bytes) (v p p' : Value) (k : Value → Value),
    nav o v ts = .ok (p, k) → p'.isContainer = true → ∃ k', nav o (k p') ts = .ok (p', k') := by
  intro ts
  induction ts with
  | nil =>
    intro v p p' k h hp'
    simp only [nav] at h
    split at h
    · simp only [Res.ok.injEq, Prod.mk.injEq] at h
      obtain ⟨_, rfl⟩ := h
      exact ⟨id, by simp [nav, hp']⟩
    · cases h
  | cons t ts ih =>
    intro v p p' k h hp'
    cases v with
    | obj ms =>
      simp only [nav] at h
      cases hl : Value.lookup t ms with
      | none => rw [hl] at h; cases h
      | some child =>
        rw [hl] at h
        simp only at h
        cases hn : nav o child ts with
        | ok pk =>
          obtain ⟨p1, k1⟩ := pk
          rw [hn] at h
          simp only [Res.bind, Res.ok.injEq, Prod.mk.injEq] at h
          obtain ⟨rfl, rfl⟩ := h
          obtain ⟨k', hk'⟩ := ih child p1 p' k1 hn hp'
          refine ⟨fun q => .obj (Value.set t (k' q) (Value.set t (k1 p') ms)), ?_⟩
          simp only [nav, lookup_set_self, hk', Res.bind]
        | fail c => rw [hn] at h; cases h
        | unspec => rw [hn] at h; cases h
    | arr xs =>
      simp only [nav] at h
      cases hr : Spec.readIdx o.neg xs.length t with
      | unspec => rw [hr] at h; cases h
      | bad => rw [hr] at h; cases h
      | «at» i =>
        rw [hr] at h
        simp only at h
        cases hl : xs[i]? with
        | none => rw [hl] at h; cases h
        | some child =>
          rw [hl] at h
          simp only at h
          cases hn : nav o child ts with
          | ok pk =>
            obtain ⟨p1, k1⟩ := pk
            rw [hn] at h
            simp only [Res.bind, Res.ok.injEq, Prod.mk.injEq] at h
            obtain ⟨rfl, rfl⟩ := h
            obtain ⟨k', hk'⟩ := ih child p1 p' k1 hn hp'
            have hi : i < xs.length := by
              cases hlt : decide (i < xs.length) with
              | true => exact of_decide_eq_true hlt
              | false =>
                have : xs[i]? = none := by
                  rw [List.getElem?_eq_none_iff]; have := of_decide_eq_false hlt; omega
                rw [this] at hl; cases hl
            refine ⟨fun q => .arr (Spec.setAt i (k' q) (Spec.setAt i (k1 p') xs)), ?_⟩
            simp only [nav, setAt_length, hr, setAt_getElem? _ _ _ hi, hk', Res.bind]
          | fail c => rw [hn] at h; cases h
          | unspec => rw [hn] at h; cases h
    | null => simp [nav] at h
    | bool b => simp [nav] at h
    | num l => simp [nav] at h
    | str s => simp [nav] at h

/-! ### `removeIn` and `getIn` agree, with the same cause -/

theorem removeIn_getIn_strong (so : Spec.Opts) (p : Value) (key : Bytes) :
    match Spec.removeIn so p key with
    | .ok pv => Spec.getIn so false p key = .ok (p, pv.2)
    | .fail c => Spec.getIn so false p key = .fail c
    | .unspec => Spec.getIn so false p key = .unspec := by
  cases p with
  | obj ms =>
    simp only [Spec.removeIn, Spec.getIn]
    cases Value.lookup key ms <;> simp
  | arr xs =>
    simp only [Spec.removeIn, Spec.getIn]
    cases Spec.readIdx so.neg xs.length key with
    | unspec => simp
    | bad => simp
    | «at» i => cases hx : xs[i]? <;> simp [hx]
  | null => simp [Spec.removeIn, Spec.getIn]
  | bool b => simp [Spec.removeIn, Spec.getIn]
  | num l => simp [Spec.removeIn, Spec.getIn]
  | str s => simp [Spec.removeIn, Spec.getIn]

/-! ### edits under one member of an object leave the other members alone -/

/-- an edit function that, applied directly to an object, only touches the member it is given -/
def KeepsOthers {α} (f : Value → Bytes → Res (Value × α)) : Prop :=
  ∀ ms b pa, f (.obj ms) b = .ok pa →
    ∃ ms', pa.1 = .obj ms' ∧ ∀ a, a ≠ b → Value.lookup a ms' = Value.lookup a ms

theorem atParent_obj_keeps {α} (o : Spec.Opts) (f : Value → Bytes → Res (Value × α)) (hf : KeepsOthers f)
    (ms : Value.Members) (b : Bytes) (rest : List Bytes) (pa : Value × α)
    (h : Spec.atParent o f (.obj ms) (b :: rest) = .ok pa) :
    ∃ ms', pa.1 = .obj ms' ∧ ∀ a, a ≠ b → Value.lookup a ms' = Value.lookup a ms := by
  cases rest with
  | nil =>
    simp only [Spec.atParent] at h
    exact hf ms b pa h
  | cons t2 ts =>
    simp only [Spec.atParent] at h
    cases hl : Value.lookup b ms with
    | none => rw [hl] at h; cases h
    | some child =>
      rw [hl] at h
      simp only at h
      cases hc : Spec.atParent o f child (t2 :: ts) with
      | ok ca =>
        obtain ⟨c', x⟩ := ca
        rw [hc] at h
        simp only [Res.bind, Res.ok.injEq] at h
        subst h
        exact ⟨_, rfl, fun a ha => lookup_set_ne a b c' ms ha⟩
      | fail c => rw [hc] at h; cases h
      | unspec => rw [hc] at h; cases h

theorem keeps_addIn (so : Spec.Opts) (v : Value) : KeepsOthers (Spec.addIn so v) := by
  intro ms b pa h
  simp only [Spec.addIn, Res.ok.injEq] at h
  subst h
  exact ⟨_, rfl, fun a ha => lookup_set_ne a b v ms ha⟩

theorem keeps_removeIn (so : Spec.Opts) : KeepsOthers (Spec.removeIn so) := by
  intro ms b pa h
  simp only [Spec.removeIn] at h
  cases hl : Value.lookup b ms with
  | none => rw [hl] at h; cases h
  | some old =>
    rw [hl] at h
    simp only [Res.ok.injEq] at h
    subst h
    exact ⟨_, rfl, fun a ha => lookup_erase_ne a b ms ha⟩

theorem keeps_replaceIn (so : Spec.Opts) (v : Value) : KeepsOthers (Spec.replaceIn so v) := by
  intro ms b pa h
  simp only [Spec.replaceIn] at h
  cases hl : Value.lookup b ms with
  | none => rw [hl] at h; cases h
  | some old =>
    rw [hl] at h
    simp only [Res.ok.injEq] at h
    subst h
    exact ⟨_, rfl, fun a ha => lookup_set_ne a b v ms ha⟩

/-! ### reading back what was written -/

theorem classify_ne_dash {t : Bytes} (h : t ≠ [45]) : Spec.classify t ≠ .dash := by
  rcases classify_cases t h with ⟨_, hc⟩ | ⟨i, _, hc | hc⟩ <;> rw [hc] <;> simp

/-- an insertion slot that is not `-` is, after the insertion, the index of the new element -/
theorem slot_then_read {neg : Bool} {n i : Nat} {t : Bytes} (h : Spec.slotIdx neg n t = .at i)
    (hd : t ≠ [45]) : Spec.readIdx neg (n + 1) t = .at i ∧ i ≤ n := by
  simp only [Spec.slotIdx] at h
  simp only [Spec.readIdx]
  cases hc : Spec.classify t with
  | dash => exact absurd hc (classify_ne_dash hd)
  | name => rw [hc] at h; cases h
  | noncanon => rw [hc] at h; cases h
  | int j =>
    rw [hc] at h
    simp only at h ⊢
    by_cases h0 : 0 ≤ j
    · rw [if_pos h0] at h ⊢
      by_cases h1 : j.toNat ≤ n
      · rw [if_pos h1] at h
        cases h
        exact ⟨by rw [if_pos (by omega)], h1⟩
      · rw [if_neg h1] at h; cases h
    · rw [if_neg h0] at h ⊢
      by_cases h1 : neg = true ∧ -((n : Int) + 1) ≤ j
      · rw [if_pos h1] at h
        cases h
        refine ⟨?_, by omega⟩
        rw [if_pos ⟨h1.1, by push_cast; omega⟩]
      · rw [if_neg h1] at h; cases h

theorem addIn_then_getIn (so : Spec.Opts) (v p p' : Value) (key : Bytes) (u : Unit) (b : Bool)
    (hadd : Spec.addIn so v p key = .ok (p', u)) (hd : key ≠ [45]) :
    Spec.getIn so b p' key = .ok (p', v) := by
  cases p with
  | obj ms =>
    simp only [Spec.addIn, Res.ok.injEq, Prod.mk.injEq] at hadd
    obtain ⟨rfl, _⟩ := hadd
    simp only [Spec.getIn, lookup_set_self]
  | arr xs =>
    simp only [Spec.addIn] at hadd
    cases hs : Spec.slotIdx so.neg xs.length key with
    | unspec => rw [hs] at hadd; cases hadd
    | bad => rw [hs] at hadd; cases hadd
    | «at» i =>
      rw [hs] at hadd
      simp only [Res.ok.injEq, Prod.mk.injEq] at hadd
      obtain ⟨rfl, _⟩ := hadd
      obtain ⟨hr, hi⟩ := slot_then_read hs hd
      simp only [Spec.getIn, insertAt_length, hr, insertAt_getElem? i v xs hi]
  | null => simp [Spec.addIn] at hadd
  | bool b => simp [Spec.addIn] at hadd
  | num l => simp [Spec.addIn] at hadd
  | str s => simp [Spec.addIn] at hadd

theorem replaceIn_then_getIn (so : Spec.Opts) (v p p' : Value) (key : Bytes) (u : Unit) (b : Bool)
    (hrep : Spec.replaceIn so v p key = .ok (p', u)) :
    Spec.getIn so b p' key = .ok (p', v) := by
  cases p with
  | obj ms =>
    simp only [Spec.replaceIn] at hrep
    cases hl : Value.lookup key ms with
    | none => rw [hl] at hrep; cases hrep
    | some old =>
      rw [hl] at hrep
      simp only [Res.ok.injEq, Prod.mk.injEq] at hrep
      obtain ⟨rfl, _⟩ := hrep
      simp only [Spec.getIn, lookup_set_self]
  | arr xs =>
    simp only [Spec.replaceIn] at hrep
    cases hs : Spec.readIdx so.neg xs.length key with
    | unspec => rw [hs] at hrep; cases hrep
    | bad => rw [hs] at hrep; cases hrep
    | «at» i =>
      rw [hs] at hrep
      simp only at hrep
      by_cases hi : i < xs.length
      · rw [if_pos hi] at hrep
        simp only [Res.ok.injEq, Prod.mk.injEq] at hrep
        obtain ⟨rfl, _⟩ := hrep
        simp only [Spec.getIn, setAt_length, hs, setAt_getElem? i v xs hi]
      · rw [if_neg hi] at hrep; cases hrep
  | null => simp [Spec.replaceIn] at hrep
  | bool b => simp [Spec.replaceIn] at hrep
  | num l => simp [Spec.replaceIn] at hrep
  | str s => simp [Spec.replaceIn] at hrep

theorem addIn_container {so : Spec.Opts} {v p : Value} {key : Bytes} {pa : Value × Unit}
    (h : Spec.addIn so v p key = .ok pa) : pa.1.isContainer = true := by
  cases p with
  | obj ms => simp only [Spec.addIn, Res.ok.injEq] at h; subst h; exact isContainer_obj _
  | arr xs =>
    simp only [Spec.addIn] at h
    split at h
    · simp only [Res.ok.injEq] at h; subst h; exact isContainer_arr _
    · cases h
    · cases h
  | null => simp [Spec.addIn] at h
  | bool b => simp [Spec.addIn] at h
  | num l => simp [Spec.addIn] at h
  | str s => simp [Spec.addIn] at h

theorem replaceIn_container {so : Spec.Opts} {v p : Value} {key : Bytes} {pa : Value × Unit}
    (h : Spec.replaceIn so v p key = .ok pa) : pa.1.isContainer = true := by
  cases p with
  | obj ms =>
    simp only [Spec.replaceIn] at h
    split at h
    · simp only [Res.ok.injEq] at h; subst h; exact isContainer_obj _
    · cases h
  | arr xs =>
    simp only [Spec.replaceIn] at h
    split at h
    · split at h
      · simp only [Res.ok.injEq] at h; subst h; exact isContainer_arr _
      · cases h
    · cases h
    · cases h
  | null => simp [Spec.replaceIn] at h
  | bool b => simp [Spec.replaceIn] at h
  | num l => simp [Spec.replaceIn] at h
  | str s => simp [Spec.replaceIn] at h

/-- after an edit `f` at the parent that can be read back by `getIn`, the whole pointer reads back -/
theorem atParent_then_getIn (so : Spec.Opts) (f : Value → Bytes → Res (Value × Unit)) (v doc d : Value)
    (u : Unit) (ns : List Bytes) (key : Bytes) (b : Bool)
    (hcont : ∀ p pa, f p key = .ok pa → pa.1.isContainer = true)
    (hread : ∀ p p' u, f p key = .ok (p', u) → Spec.getIn so b p' key = .ok (p', v))
    (h : Spec.atParent so f doc (ns ++ [key]) = .ok (d, u)) :
    Spec.atParent so (Spec.getIn so b) d (ns ++ [key]) = .ok (d, v) := by
  rw [atParent_nav] at h ⊢
  cases hn : nav so doc ns with
  | unspec => rw [hn] at h; cases h
  | fail c => rw [hn] at h; cases h
  | ok pk =>
    obtain ⟨p, k⟩ := pk
    rw [hn] at h
    simp only [Res.bind] at h
    cases hf : f p key with
    | unspec => rw [hf] at h; cases h
    | fail c => rw [hf] at h; cases h
    | ok pa =>
      obtain ⟨p', u'⟩ := pa
      rw [hf] at h
      simp only [Res.ok.injEq, Prod.mk.injEq] at h
      obtain ⟨hd, _⟩ := h
      obtain ⟨k', hk'⟩ := nav_rebuild so ns doc p p' k hn (hcont p _ hf)
      rw [hd] at hk'
      obtain ⟨_, hkp⟩ := nav_ok so ns d p' k' hk'
      rw [hk']
      simp only [Res.bind, hread p p' u' hf, hkp]

end Impl
end JP
