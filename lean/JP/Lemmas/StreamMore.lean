import JP.Lemmas.StreamTokens

/-!
# `More` inside the arrays and objects of a well-formed text

Positions are described with the reference parser: `arrayTail` is what `parseValue` does after `[`,
`elemsAfter` what `parseElems` does after an element; likewise for objects.
-/

namespace JP
namespace Codec
namespace Stream

open Scanner

theorem more_cons (D : Dec) (c : UInt8) (cs : Bytes) (h : skipWs D.rest = c :: cs) :
    (more D).2 = (c ≠ 93 && c ≠ 125) := by
  simp only [more, peek_cons D c cs h, moreOf]

theorem more_nil (D : Dec) (h : skipWs D.rest = []) : (more D).2 = false := by
  simp only [more, peek_nil D h, moreOf]

/-- the first byte of a value is not a closing bracket -/
theorem value_head (f d : Nat) (bs : Bytes) (c : Cst) (rest : Bytes) (h : parseValue f d bs = some (c, rest)) :
    ∃ x bs', bs = x :: bs' ∧ x ≠ 93 ∧ x ≠ 125 := by
  cases f with
  | zero => simp [parseValue] at h
  | succ f =>
    rcases parseValue_inv f d bs c rest h with ⟨cs, _, rfl, _⟩ | ⟨cs, _, rfl, _⟩ | ⟨cs, _, rfl, _⟩ | ⟨cs, _, rfl, _⟩ |
      ⟨cs, _, rfl, _⟩ | ⟨w, hw, rfl, _⟩ | ⟨x, cs, _, rfl, hx, _⟩
    · exact ⟨_, _, rfl, by decide, by decide⟩
    · exact ⟨_, _, rfl, by decide, by decide⟩
    · exact ⟨_, _, rfl, by decide, by decide⟩
    · exact ⟨_, _, rfl, by decide, by decide⟩
    · exact ⟨_, _, rfl, by decide, by decide⟩
    · rcases hw with rfl | rfl | rfl
      · exact ⟨116, [114, 117, 101] ++ rest, rfl, by decide, by decide⟩
      · exact ⟨102, [97, 108, 115, 101] ++ rest, rfl, by decide, by decide⟩
      · exact ⟨110, [117, 108, 108] ++ rest, rfl, by decide, by decide⟩
    · have := digit_not_delim x hx
      exact ⟨x, cs, rfl, this.2.1, this.2.2.2.1⟩

theorem elems_head (f d : Nat) (bs : Bytes) (xs : List Cst) (rest : Bytes) (h : parseElems f d bs = some (xs, rest)) :
    xs ≠ [] ∧ ∃ x bs', bs = x :: bs' ∧ x ≠ 93 ∧ x ≠ 125 := by
  cases f with
  | zero => simp [parseElems] at h
  | succ f =>
    obtain ⟨x, r, hv, hcase⟩ := parseElems_inv f d bs xs rest h
    refine ⟨?_, value_head f d bs x r hv⟩
    rcases hcase with ⟨_, _, rfl, _⟩ | ⟨_, _, _, _, rfl⟩ <;> simp

theorem members_head (f d : Nat) (bs : Bytes) (ms : List (Bytes × Cst)) (rest : Bytes)
    (h : parseMembers f d bs = some (ms, rest)) : ms ≠ [] ∧ ∃ cs, bs = 34 :: cs := by
  cases f with
  | zero => simp [parseMembers] at h
  | succ f =>
    obtain ⟨cs, k, r, r1, v, r2, rfl, _, _, _, hcase⟩ := parseMembers_inv f d bs ms rest h
    refine ⟨?_, cs, rfl⟩
    rcases hcase with ⟨_, _, rfl, _⟩ | ⟨_, _, _, _, rfl⟩ <;> simp

/-- what follows `[`: the elements and the rest (as `parseValue` reads it) -/
def arrayTail (f d : Nat) (cs : Bytes) : Option (List Cst × Bytes) :=
  match skipWs cs with
  | 93 :: r => some ([], r)
  | r => parseElems f d r

/-- what follows an element of an array: the remaining elements and the rest (as `parseElems` reads it) -/
def elemsAfter (f d : Nat) (r : Bytes) : Option (List Cst × Bytes) :=
  match skipWs r with
  | 93 :: r' => some ([], r')
  | 44 :: r' => parseElems f d (skipWs r')
  | _ => none

/-- what follows `{` -/
def objectTail (f d : Nat) (cs : Bytes) : Option (List (Bytes × Cst) × Bytes) :=
  match skipWs cs with
  | 125 :: r => some ([], r)
  | r => parseMembers f d r

/-- what follows a member of an object -/
def membersAfter (f d : Nat) (r : Bytes) : Option (List (Bytes × Cst) × Bytes) :=
  match skipWs r with
  | 125 :: r' => some ([], r')
  | 44 :: r' => parseMembers f d (skipWs r')
  | _ => none

/-- right after `[`: `More` reports whether the array has an element -/
theorem more_array_start (f d : Nat) (D : Dec) (xs : List Cst) (rest : Bytes)
    (h : arrayTail f d D.rest = some (xs, rest)) : (more D).2 = true ↔ xs ≠ [] := by
  unfold arrayTail at h
  split at h
  · rename_i r hr
    simp only [Option.some.injEq, Prod.mk.injEq] at h
    rw [more_cons D 93 r hr, ← h.1]; simp
  · rename_i r hr
    obtain ⟨hne, x, bs', hbs, h1, h2⟩ := elems_head f d _ xs rest h
    rw [more_cons D x bs' hbs]
    simp [h1, h2, hne]

/-- after an element: `More` reports whether another element follows -/
theorem more_array_next (f d : Nat) (D : Dec) (xs : List Cst) (rest : Bytes)
    (h : elemsAfter f d D.rest = some (xs, rest)) : (more D).2 = true ↔ xs ≠ [] := by
  unfold elemsAfter at h
  split at h
  · rename_i r hr
    simp only [Option.some.injEq, Prod.mk.injEq] at h
    rw [more_cons D 93 r hr, ← h.1]; simp
  · rename_i r hr
    rw [more_cons D 44 r hr]
    simp [(elems_head f d _ xs rest h).1]
  · cases h

/-- right after `{`: `More` reports whether the object has a member -/
theorem more_object_start (f d : Nat) (D : Dec) (ms : List (Bytes × Cst)) (rest : Bytes)
    (h : objectTail f d D.rest = some (ms, rest)) : (more D).2 = true ↔ ms ≠ [] := by
  unfold objectTail at h
  split at h
  · rename_i r hr
    simp only [Option.some.injEq, Prod.mk.injEq] at h
    rw [more_cons D 125 r hr, ← h.1]; simp
  · rename_i r hr
    obtain ⟨hne, cs, hbs⟩ := members_head f d _ ms rest h
    rw [more_cons D 34 cs hbs]
    simp [hne]

/-- after a member: `More` reports whether another member follows -/
theorem more_object_next (f d : Nat) (D : Dec) (ms : List (Bytes × Cst)) (rest : Bytes)
    (h : membersAfter f d D.rest = some (ms, rest)) : (more D).2 = true ↔ ms ≠ [] := by
  unfold membersAfter at h
  split at h
  · rename_i r hr
    simp only [Option.some.injEq, Prod.mk.injEq] at h
    rw [more_cons D 125 r hr, ← h.1]; simp
  · rename_i r hr
    rw [more_cons D 44 r hr]
    simp [(members_head f d _ ms rest h).1]
  · cases h

end Stream
end Codec
end JP
