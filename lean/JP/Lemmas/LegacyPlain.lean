import JP.Lemmas.TextBody
import JP.Check

/-!
# A string body without escapes, accepted by the scanner, valid UTF-8, decodes to itself
-/

namespace JP
namespace Legacy


theorem decodeRune_size_pos (b : UInt8) (rest : Bytes) : 1 ≤ (decodeRune (b :: rest)).2 := by
  simp only [decodeRune]
  repeat' split
  all_goals simp

/-- `b` has no backslash, no quote, no control character -/
def cleanBody (b : Bytes) : Bool := b.all fun c => c != 92 && c != 34 && decide (32 ≤ c.toNat)

theorem unquoteGo_plain : ∀ (n : Nat) (b : Bytes) (f g : Nat), b.length ≤ n → b.length < f → b.length < g →
    cleanBody b = true → validUtf8 g b = true → unquoteGo f b = some b := by
  intro n
  induction n with
  | zero =>
    intro b f g hn hf _ _ _
    have : b = [] := List.eq_nil_of_length_eq_zero (by omega)
    subst this
    cases f with
    | zero => simp at hf
    | succ f => rfl
  | succ n ih =>
    intro b f g hn hf hg hc hv
    cases b with
    | nil =>
      cases f with
      | zero => simp at hf
      | succ f => rfl
    | cons c rest =>
      cases f with
      | zero => simp at hf
      | succ f =>
        cases g with
        | zero => simp at hg
        | succ g =>
          simp only [List.length_cons] at hn hf hg
          simp only [cleanBody, List.all_cons, Bool.and_eq_true, bne_iff_ne, ne_eq, decide_eq_true_eq] at hc
          obtain ⟨⟨⟨h92, h34⟩, h32⟩, hrest⟩ := hc
          have hcr : cleanBody rest = true := by simpa [cleanBody] using hrest
          simp only [unquoteGo, if_neg h92]
          have hnot : ¬ (c = 34 ∨ c.toNat < 32) := by
            intro h; rcases h with h | h
            · exact h34 h
            · omega
          rw [if_neg hnot]
          simp only [validUtf8] at hv
          by_cases h128 : c.toNat < 128
          · rw [if_pos h128]
            have hd : decodeRune (c :: rest) = (c.toNat, 1) := by simp [decodeRune, h128]
            rw [hd] at hv
            simp only [List.drop_succ_cons, List.drop_zero] at hv
            have hv' : validUtf8 g rest = true := by
              split at hv
              · cases hv
              · exact hv
            rw [ih rest f g (by omega) (by omega) (by omega) hcr hv']
            rfl
          · rw [if_neg h128]
            have hpos := decodeRune_size_pos c rest
            cases hd : decodeRune (c :: rest) with
            | mk r size =>
              rw [hd] at hv hpos
              simp only at hv hpos ⊢
              have hne : ¬ (r = runeError ∧ size = 1) := by
                intro h; rw [if_pos h] at hv; cases hv
              rw [if_neg hne] at hv
              have hre := JP.encodeRune_decodeRune c rest (by unfold runeOk; rw [hd]; exact hne)
              rw [hd] at hre
              obtain ⟨he, _, hle, _⟩ := hre
              simp only at he hle
              have hclean : cleanBody ((c :: rest).drop size) = true := by
                have : cleanBody (c :: rest) = true := by
                  simp only [cleanBody, List.all_cons, Bool.and_eq_true, bne_iff_ne, ne_eq, decide_eq_true_eq]
                  exact ⟨⟨⟨h92, h34⟩, h32⟩, hrest⟩
                simp only [cleanBody, List.all_eq_true] at this ⊢
                exact fun x hx => this x (List.mem_of_mem_drop hx)
              have hlen : ((c :: rest).drop size).length ≤ n := by
                simp only [List.length_drop, List.length_cons]; omega
              have hlen2 : ((c :: rest).drop size).length ≤ rest.length := by
                simp only [List.length_drop, List.length_cons]; omega
              rw [ih _ f g hlen (by omega) (by omega) hclean hv, he]
              simp only [Option.map_some, List.take_append_drop]

theorem unquote_of_clean (b : Bytes) (hc : cleanBody b = true) (hu : isValidUtf8 b = true) :
    unquote b = b := by
  simp only [unquote, unquoteBody]
  rw [unquoteGo_plain b.length b (b.length + 1) (b.length + 1) (Nat.le_refl _) (by omega) (by omega) hc hu]
  rfl

/-- a body the scanner accepts and that holds no backslash has no quote and no control character -/
theorem cleanBody_of_valid : ∀ (b : Bytes), b.contains 92 = false →
    parseStrBody (b ++ [34]) = some (b, []) → cleanBody b = true
  | [], _, _ => rfl
  | c :: rest, hb, hp => by
    have h92 : ¬ c = 92 := by
      intro h; subst h; simp at hb
    have hb' : rest.contains 92 = false := by
      cases hc : rest.contains 92 with
      | false => rfl
      | true =>
        have : (c :: rest).contains 92 = true := by
          simp only [List.contains_cons, hc, Bool.or_true]
        rw [this] at hb; cases hb
    rw [List.cons_append] at hp
    by_cases h34 : c = 34
    · subst h34; rw [parseStrBody_quote] at hp; cases hp
    · rw [parseStrBody_plain c _ h34 h92] at hp
      by_cases h32 : c.toNat < 32
      · rw [if_pos h32] at hp; cases hp
      · rw [if_neg h32] at hp
        cases hr : parseStrBody (rest ++ [34]) with
        | none => rw [hr] at hp; cases hp
        | some br =>
          obtain ⟨b', r'⟩ := br
          rw [hr] at hp
          simp only [Option.map_some, Option.some.injEq, Prod.mk.injEq, List.cons.injEq, true_and] at hp
          obtain ⟨rfl, rfl⟩ := hp
          have ih := cleanBody_of_valid b' hb' hr
          simp only [cleanBody, List.all_cons, Bool.and_eq_true, bne_iff_ne, ne_eq, decide_eq_true_eq] at ih ⊢
          exact ⟨⟨⟨h92, h34⟩, by omega⟩, ih⟩

end Legacy
end JP
