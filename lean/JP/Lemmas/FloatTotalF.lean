import JP.Lemmas.FloatNatFmt3
import JP.Lemmas.FloatValid
import JP.Lemmas.FloatNeg

/-!
# Reading back what `fmtF` lays out: `parseLit (fmtF neg (decimal c) dp)` for every decimal point `dp`
-/

namespace JP
namespace Codec
namespace Float

open JP.Codec.Typed (decimal)

/-! ## splitting a text without exponent -/

theorem splitE_noExp : ∀ d : Bytes, (∀ c ∈ d, c ≠ 101 ∧ c ≠ 69) → splitE d = (d, none)
  | [], _ => rfl
  | c :: cs, h => by
    have hc : ¬ (c = 101 ∨ c = 69) := by
      have := h c (by simp)
      rintro (e | e)
      · exact this.1 e
      · exact this.2 e
    have ih := splitE_noExp cs (fun x hx => h x (by simp [hx]))
    simp [splitE, hc, ih]

theorem digit_noExp (c : UInt8) (h : isDigit c = true) : c ≠ 101 ∧ c ≠ 69 := by
  constructor
  · rintro rfl; exact absurd h (by decide)
  · rintro rfl; exact absurd h (by decide)

theorem splitE_int_frac (ip fp : Bytes) (hip : ip.all isDigit = true) (hfp : fp.all isDigit = true) :
    splitE (ip ++ 46 :: fp) = (ip ++ 46 :: fp, none) := by
  apply splitE_noExp
  intro c hc
  simp only [List.mem_append, List.mem_cons] at hc
  rcases hc with hc | hc | hc
  · exact digit_noExp c (List.all_eq_true.1 hip c hc)
  · subst hc; decide
  · exact digit_noExp c (List.all_eq_true.1 hfp c hc)

theorem splitDot_int_frac : ∀ (ip fp : Bytes), ip.all isDigit = true →
    splitDot (ip ++ 46 :: fp) = (ip, some fp)
  | [], fp, _ => by simp [splitDot]
  | c :: cs, fp, h => by
    simp only [List.all_cons, Bool.and_eq_true] at h
    have hc : ¬ (c = 46) := by
      rintro rfl; exact absurd h.1 (by decide)
    simp [splitDot, hc, splitDot_int_frac cs fp h.2]

/-- integer part, `.`, fraction -/
theorem parseLit_int_frac (ip fp : Bytes) (hip : intOk ip = true) (hfp : allDigits fp = true) :
    parseLit (ip ++ 46 :: fp) = some ⟨false, digitsNat (ip ++ fp), -(fp.length : Int), ip.length⟩ := by
  obtain ⟨c, r, hcr, hc45⟩ := head_digit_ne_45 ip hip
  have hipd : ip.all isDigit = true := by
    simp only [intOk, Bool.and_eq_true] at hip
    exact ((allDigits_iff ip).1 hip.1).2
  have hfpd := ((allDigits_iff fp).1 hfp).2
  have h45 : (ip ++ 46 :: fp).head? ≠ some 45 := by
    rw [hcr]; simpa using hc45
  simp only [parseLit, splitE_int_frac ip fp hipd hfpd, parseMant, h45, if_false, decide_false,
    Bool.false_eq_true, splitDot_int_frac ip fp hipd, hip, Bool.not_true, hfp, if_true]

/-! ## digit strings -/

theorem digitsNat_zeros (k : Nat) : digitsNat (List.replicate k 48) = 0 := by
  induction k with
  | zero => rfl
  | succ k ih =>
    rw [List.replicate_succ', digitsNat_append_one, ih]
    decide

theorem digitsNat_zero_append (a b : Bytes) (h : digitsNat a = 0) : digitsNat (a ++ b) = digitsNat b := by
  rw [digitsNat_append_acc, h]; rfl

theorem all_digit_zeros (k : Nat) : (List.replicate k (48 : UInt8)).all isDigit = true := by
  rw [List.all_eq_true]
  intro x hx
  rw [List.mem_replicate] at hx
  rw [hx.2]; decide

theorem decimal_head_ne_48 (c : Nat) (hc : c ≠ 0) : (decimal c).head? ≠ some 48 := by
  intro h
  have h1 := Typed.decimal_no_leading_zero c h
  have h2 := digitsNat_decimal c
  rw [h1] at h2
  exact hc (by rw [← h2]; decide)

/-! ## the three layouts -/

theorem fmtF_parse_pos (c : Nat) (dp : Int) (hc : c ≠ 0) :
    parseLit (fmtF false (decimal c) dp) =
      some ⟨false, c * 10 ^ (dp - ((decimal c).length : Int)).toNat,
        min (dp - ((decimal c).length : Int)) 0,
        if dp ≤ 0 then 1 else dp.toNat⟩ := by
  have hlen := decimal_length_pos c
  have hdig := (Typed.decimal_digits c).1
  have hne := (Typed.decimal_digits c).2
  have hhead := decimal_head_ne_48 c hc
  generalize hds : decimal c = ds at hlen hdig hne hhead
  by_cases h1 : (ds.length : Int) ≤ dp
  · -- no fraction
    have hpos : dp > 0 := by omega
    obtain ⟨k, hk⟩ : ∃ k : Nat, dp = ((ds.length + k : Nat) : Int) := ⟨(dp - ds.length).toNat, by omega⟩
    subst hk
    have hf : fmtF false ds ((ds.length + k : Nat) : Int) = decimal (c * 10 ^ k) := by
      rw [decimal_mul_pow c k (by omega), hds]
      unfold fmtF
      simp only [hpos, if_true, Int.toNat_natCast, Bool.false_eq_true, if_false, List.nil_append]
      rw [List.take_of_length_le (by omega), List.drop_of_length_le (by omega)]
      have : ds.length + k - ds.length = k := by omega
      rw [this]
      simp
    rw [hf, parseLit_decimal, decimal_mul_pow c k (by omega), hds]
    have e1 : (((ds.length + k : Nat) : Int) - (ds.length : Int)).toNat = k := by omega
    have e2 : min (((ds.length + k : Nat) : Int) - (ds.length : Int)) 0 = 0 := by omega
    have e3 : ¬ (((ds.length + k : Nat) : Int) ≤ 0) := by omega
    rw [e1, e2, if_neg e3]
    simp
    omega
  · by_cases h2 : dp > 0
    · -- the point inside the digits
      obtain ⟨j, hj⟩ : ∃ j : Nat, dp = (j : Int) := ⟨dp.toNat, by omega⟩
      subst hj
      have hj1 : 0 < j := by omega
      have hj2 : j < ds.length := by omega
      have hdrop : (ds.drop j) ≠ [] := by
        intro h
        have := congrArg List.length h
        simp at this; omega
      have hf : fmtF false ds (j : Int) = ds.take j ++ 46 :: ds.drop j := by
        unfold fmtF
        simp only [h2, if_true, Int.toNat_natCast, Bool.false_eq_true, if_false, List.nil_append]
        have : j - ds.length = 0 := by omega
        rw [this]
        cases hd : ds.drop j with
        | nil => exact absurd hd hdrop
        | cons x xs => simp
      have hall : ds.all isDigit = true := hdig
      have htd : (ds.take j).all isDigit = true := by
        rw [List.all_eq_true] at hall ⊢
        intro x hx; exact hall x (List.mem_of_mem_take hx)
      have hdd : (ds.drop j).all isDigit = true := by
        rw [List.all_eq_true] at hall ⊢
        intro x hx; exact hall x (List.mem_of_mem_drop hx)
      have htne : ds.take j ≠ [] := by
        intro h
        have := congrArg List.length h
        rw [List.length_take, List.length_nil] at this
        omega
      have hth : (ds.take j).head? ≠ some 48 := by
        cases ds with
        | nil => exact absurd rfl hne
        | cons x xs =>
          cases j with
          | zero => omega
          | succ j => simpa using hhead
      have hip : intOk (ds.take j) = true := by
        simp only [intOk, Bool.and_eq_true, Bool.or_eq_true, decide_eq_true_eq]
        refine ⟨(allDigits_iff _).2 ⟨htne, htd⟩, Or.inr ?_⟩
        simpa using hth
      have hfp : allDigits (ds.drop j) = true := (allDigits_iff _).2 ⟨hdrop, hdd⟩
      rw [hf, parseLit_int_frac _ _ hip hfp, List.take_append_drop, ← hds, digitsNat_decimal, hds]
      have e1 : ((j : Int) - (ds.length : Int)).toNat = 0 := by omega
      have e2 : min ((j : Int) - (ds.length : Int)) 0 = (j : Int) - (ds.length : Int) := by omega
      have e3 : ¬ ((j : Int) ≤ 0) := by omega
      rw [e1, e2, if_neg e3]
      simp only [List.length_drop, List.length_take, Nat.pow_zero, Nat.mul_one, Int.toNat_natCast]
      have e4 : -((ds.length - j : Nat) : Int) = (j : Int) - (ds.length : Int) := by omega
      have e5 : min j ds.length = j := by omega
      rw [e4, e5]
    · -- zeros behind the point
      obtain ⟨k, hk⟩ : ∃ k : Nat, dp = -(k : Int) := ⟨(-dp).toNat, by omega⟩
      subst hk
      have hf : fmtF false ds (-(k : Int)) = [48] ++ 46 :: (List.replicate k 48 ++ ds) := by
        unfold fmtF
        simp only [h2, if_false, Bool.false_eq_true, List.nil_append, Int.neg_neg, Int.toNat_natCast]
        cases hd : List.replicate k (48 : UInt8) ++ ds with
        | nil =>
          have := congrArg List.length hd
          rw [List.length_append, List.length_nil] at this
          omega
        | cons x xs => simp
      have hip : intOk [48] = true := by decide
      have hfp : allDigits (List.replicate k 48 ++ ds) = true := by
        refine (allDigits_iff _).2 ⟨?_, ?_⟩
        · intro h
          have := congrArg List.length h
          rw [List.length_append, List.length_nil] at this
          omega
        · rw [List.all_append, all_digit_zeros, hdig]; rfl
      rw [hf, parseLit_int_frac _ _ hip hfp]
      have hd : digitsNat ([48] ++ (List.replicate k 48 ++ ds)) = c := by
        rw [← List.append_assoc, digitsNat_zero_append _ _ ?_, ← hds, digitsNat_decimal]
        have : ([48] : Bytes) ++ List.replicate k 48 = List.replicate (k + 1) 48 := by
          rw [List.replicate_succ]; rfl
        rw [this]; exact digitsNat_zeros (k + 1)
      rw [hd]
      have e1 : (-(k : Int) - (ds.length : Int)).toNat = 0 := by omega
      have e2 : min (-(k : Int) - (ds.length : Int)) 0 = -(k : Int) - (ds.length : Int) := by omega
      have e3 : -(k : Int) ≤ 0 := by omega
      rw [e1, e2, if_pos e3]
      simp only [List.length_append, List.length_replicate, Nat.pow_zero, Nat.mul_one, List.length_cons,
        List.length_nil]
      have e4 : -((k + ds.length : Nat) : Int) = -(k : Int) - (ds.length : Int) := by omega
      rw [e4]

theorem fmtF_neg (ds : Bytes) (dp : Int) : fmtF true ds dp = 45 :: fmtF false ds dp := by
  unfold fmtF
  simp

theorem fmtF_false_head (c : Nat) (dp : Int) (hc : c ≠ 0) : (fmtF false (decimal c) dp).head? ≠ some 45 := by
  intro h
  have hp := fmtF_parse_pos c dp hc
  have := parseLit_head_neg _ h _ hp
  simp at this

/-- what `fmtF` lays out is read back as the same digits with the decimal point at `dp` -/
theorem fmtF_parse (neg : Bool) (c : Nat) (dp : Int) (hc : c ≠ 0) :
    ∃ l, parseLit (fmtF neg (decimal c) dp) = some l ∧ l.neg = neg ∧
      l.digits = c * 10 ^ (dp - ((decimal c).length : Int)).toNat ∧
      l.exp10 = min (dp - ((decimal c).length : Int)) 0 := by
  cases neg with
  | false => exact ⟨_, fmtF_parse_pos c dp hc, rfl, rfl, rfl⟩
  | true =>
    rw [fmtF_neg, parseLit_neg _ (fmtF_false_head c dp hc), fmtF_parse_pos c dp hc]
    exact ⟨_, rfl, rfl, rfl, rfl⟩

end Float
end Codec
end JP
