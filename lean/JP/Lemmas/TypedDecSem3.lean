import JP.Lemmas.TypedDecSem2

set_option linter.unusedSimpArgs false
set_option linter.unusedVariables false

/-!
# The typed decoder as a function of the parse tree, part 3: containers, the loops, the induction

`sem_all`: on every well-formed value text with tree `c`, for every decodable target type, `d.value(v)` of the
model computes `tvalue c t cur` (and stands just past the text); `arrLoop` computes `tarr`, `mapLoop` computes
`tmap`, `structLoop` computes `tstruct`.
-/

namespace JP
namespace Codec
namespace TDec

open Scanner
open JP.Codec.Typed
open JP.C17 (decodable decodableF structSettable lastField)

/-! ### unfolding `value`, `array`, `object` -/

theorem value_arr_sem (Q : DState → Prop) (G : Nat) (t : GoType) (cur : DV) (cs : Bool) (D : DState) (tv : TR DV)
    (hop : D.opcode = scanBeginArray) (h : RSem (fun d1 => Q (scanNext d1)) tv (array G t cur cs D)) :
    RSem Q tv (value (G + 1) t cur cs D) := by
  simp only [value, hop, if_true]
  generalize array G t cur cs D = r at h ⊢
  cases r <;> exact h

theorem value_obj_sem (Q : DState → Prop) (G : Nat) (t : GoType) (cur : DV) (cs : Bool) (D : DState) (tv : TR DV)
    (hop : D.opcode = scanBeginObject) (h : RSem (fun d1 => Q (scanNext d1)) tv (object G t cur cs D)) :
    RSem Q tv (value (G + 1) t cur cs D) := by
  have e1 : (scanBeginObject = scanBeginArray) = False := by decide
  simp only [value, hop, e1, if_false, if_true]
  generalize object G t cur cs D = r at h ⊢
  cases r <;> exact h

theorem array_sem (Q : DState → Prop) (G : Nat) (t : GoType) (cur : DV) (cs : Bool) (D : DState) (xs : List Cst)
    (hinv : Inv t cur cs)
    (hI : ∃ d1 vs, arrayInterface G D [] = .ok (d1, vs) ∧ Q d1 ∧ mapRawL parseCst vs = semL xs .any)
    (hL : ∀ isSlice e xs0 sp, decodable e = true → typedAll e xs0 = true → typedAll e sp = true →
      RSem Q (tarr xs isSlice e xs0 sp 0) (arrLoop G isSlice e xs0 sp 0 D))
    (hE : ∀ k v, RSem Q (.ok v) (typeErrorSkip k v D)) :
    RSem Q (tvalue (.arr xs) t cur) (array (G + 1) t cur cs D) := by
  obtain ⟨hd, hty, hcs⟩ := hinv
  simp only [array, tvalue]
  have h0 : (t.isPtr && !cs) = false := by
    cases hp : t.isPtr with
    | false => rfl
    | true => simp [hcs hp]
  simp only [h0, Bool.false_eq_true, if_false]
  have hb := derefV_typed t cur hty
  have hdd := decodable_derefT t hd
  generalize derefV t cur = bv at hb ⊢
  generalize hbt : derefT t = bt at hb hdd ⊢
  cases bt with
  | iface =>
    obtain ⟨d1, vs, h, hq, hv⟩ := hI
    simp only [h]
    refine ⟨hq, ?_⟩
    simp only [sem, ifaceOfV, dvOfIface, ← hv, ← ifaceOfL_view]
  | slice e =>
    simp only []
    obtain ⟨h1, h2⟩ := sliceParts_typed e bv hb
    have := hL true e _ _ (by simpa [decodable] using hdd) h1 h2
    generalize arrLoop G true e (sliceXs bv) (sliceSpare bv) 0 D = r at this ⊢
    cases r with
    | ok d1 res => rw [this.2]; exact ⟨this.1, rfl⟩
    | abort d1 res err => have h3 : tarr xs true e (sliceXs bv) (sliceSpare bv) 0 = .abort res := this; rw [h3]; exact rfl
    | panic => exact this.elim
    | fuel => exact this.elim
  | array n e =>
    simp only []
    obtain ⟨h1, h2⟩ := arrParts_typed n e bv hb
    have := hL false e _ [] (by simpa [decodable] using hdd) h1 rfl
    generalize arrLoop G false e (arrXs bv) [] 0 D = r at this ⊢
    cases r with
    | ok d1 res => rw [this.2]; exact ⟨this.1, rfl⟩
    | abort d1 res err => have h3 : tarr xs false e (arrXs bv) [] 0 = .abort res := this; rw [h3]; exact rfl
    | panic => exact this.elim
    | fuel => exact this.elim
  | _ => exact hE _ _

theorem object_sem (Q : DState → Prop) (hQlk : ∀ d keys, Q d → Q { d with lastKeys := keys }) (G : Nat) (t : GoType)
    (cur : DV) (cs : Bool) (D : DState) (ms : List (Bytes × Cst)) (hinv : Inv t cur cs)
    (hI : ∃ d1 m, objectInterface G D [] = .ok (d1, m) ∧ Q d1 ∧ mapRawM parseCst m = semM ms .any [])
    (hM : ∀ kt e ms0, decodable e = true → RSem Q (tmap ms kt e ms0) (R.map Prod.fst (mapLoop G kt e ms0 [] D)))
    (hS : ∀ n fs sv, decodable (.struct n fs) = true → DV.typed (.struct n fs) sv = true →
      RSem Q (tstruct ms (.struct n fs) (typeFields (.struct n fs)) sv)
        (structLoop G (.struct n fs) (typeFields (.struct n fs)) sv D))
    (hE : ∀ k v, RSem Q (.ok v) (typeErrorSkip k v D)) :
    RSem Q (tvalue (.obj ms) t cur) (object (G + 1) t cur cs D) := by
  obtain ⟨hd, hty, hcs⟩ := hinv
  simp only [object, tvalue]
  have h0 : (t.isPtr && !cs) = false := by
    cases hp : t.isPtr with
    | false => rfl
    | true => simp [hcs hp]
  simp only [h0, Bool.false_eq_true, if_false]
  have hb := derefV_typed t cur hty
  have hdd := decodable_derefT t hd
  generalize derefV t cur = bv at hb ⊢
  generalize hbt : derefT t = bt at hb hdd ⊢
  cases bt with
  | iface =>
    obtain ⟨d1, m, h, hq, hv⟩ := hI
    simp only [h]
    refine ⟨hq, ?_⟩
    simp only [sem, ifaceOfV, dvOfIface, ← hv, ← ifaceOfM_view]
  | map kt e =>
    simp only []
    have := hM kt e (mapMs bv) (by simpa [decodable] using hdd)
    generalize mapLoop G kt e (mapMs bv) [] D = r at this ⊢
    cases r with
    | ok d1 res => rw [this.2]; exact ⟨hQlk _ _ this.1, rfl⟩
    | abort d1 res err => have h3 : tmap ms kt e (mapMs bv) = .abort res.1 := this; rw [h3]; exact rfl
    | panic => exact this.elim
    | fuel => exact this.elim
  | struct n fs =>
    simp only []
    exact RSem_map _ _ _ _ (hS n fs bv hdd hb)
  | _ => exact hE _ _

theorem consumesS_container (Q : DState → Prop) (hQ : SaveClosed Q) (G : Nat) (D : DState) (c : Cst)
    (hc : (∃ xs, c = .arr xs) ∨ (∃ ms, c = .obj ms))
    (hop : D.opcode = scanBeginArray ∨ D.opcode = scanBeginObject)
    (hsk : ∃ d1, skip D = .ok d1 ∧ Q (scanNext d1))
    (hval : ∀ t cur cs, Inv t cur cs → RSem Q (tvalue c t cur) (value G t cur cs D)) : ConsumesS G Q c D := by
  obtain ⟨d1, h, hq⟩ := hsk
  refine ⟨hval, ?_, ?_⟩
  · simp only [valueSkip, hop, if_true, h]; exact ⟨hq, rfl⟩
  · intro t cur cs _
    simp only [quotedValue, hop, if_true, h]
    rcases hc with ⟨xs, rfl⟩ | ⟨ms, rfl⟩ <;> exact ⟨hQ _ _ hq, rfl⟩

theorem typeErrorSkip_sem (k : JKind) (v : DV) (data : Bytes) (m : Nat) (r : Scanner.Scan × Nat) (se : Option DErr)
    (lk : List Bytes) (n : Nat) (stk : List Nat) (cop : Nat)
    (hskip : ∀ se', skip (atD data m r se' lk) = .ok (atD data n (afterClose stk, cop) se' lk)) :
    RSem (EndQ data n stk cop) (.ok v) (typeErrorSkip k v (atD data m r se lk)) := by
  simp only [typeErrorSkip, saveError_atD, atD_off, hskip]
  exact ⟨⟨_, _, rfl⟩, rfl⟩

/-! ### one turn of the loops -/

theorem arrLoop_sem (Q P : DState → Prop) (c : Cst) (rest : List Cst) (G : Nat) (isSlice : Bool) (e : GoType)
    (xs spare : List DV) (i : Nat)
    (d0 D1 : DState) (hde : decodable e = true) (hx : typedAll e xs = true) (hs : typedAll e spare = true)
    (h1 : scanWhile scanSkipSpace d0 = D1) (hop : D1.opcode ≠ scanEndArray) (hcons : ConsumesS G P c D1)
    (hnext : ∀ d2, P d2 → ((skipSpaceIf d2).opcode = scanEndArray ∧ Q (skipSpaceIf d2) ∧ rest = []) ∨
      ((skipSpaceIf d2).opcode = scanArrayValue ∧ ∀ xs2 sp2, typedAll e xs2 = true → typedAll e sp2 = true →
        RSem Q (tarr rest isSlice e xs2 sp2 (i + 1)) (arrLoop G isSlice e xs2 sp2 (i + 1) (skipSpaceIf d2)))) :
    RSem Q (tarr (c :: rest) isSlice e xs spare i) (arrLoop (G + 1) isSlice e xs spare i d0) := by
  rw [tarr_cons]
  simp only [arrLoop, h1, hop, if_false]
  have hg : typedAll e (if isSlice = true then growSlice e xs spare i else (xs, spare)).1 = true ∧
      typedAll e (if isSlice = true then growSlice e xs spare i else (xs, spare)).2 = true := by
    cases isSlice with
    | true => exact ⟨(growSlice_typed e xs spare i hx hs).1, (growSlice_typed e xs spare i hx hs).2⟩
    | false => exact ⟨hx, hs⟩
  generalize (if isSlice = true then growSlice e xs spare i else (xs, spare)) = g at hg ⊢
  have hty := elemStep_typed (value G) e (fun cur cs d h => (TDec.typed_all G).1 e cur cs d h) g.1 i D1 hg.1
  have helem : RSem P (telem c e g.1 i) (elemStep (value G) e g.1 i D1) := by
    simp only [elemStep, telem]
    cases hgi : g.1[i]? with
    | none => simp only []; exact RSem_map (fun _ => g.1) P (.ok ()) _ hcons.skip
    | some x =>
      simp only []
      exact RSem_map _ _ _ _ (hcons.val e x true ⟨hde, typedAll_get e g.1 i x hg.1 hgi, fun _ => rfl⟩)
  generalize elemStep (value G) e g.1 i D1 = r at hty helem ⊢
  cases r with
  | panic => exact helem.elim
  | fuel => exact helem.elim
  | abort d2 xs2 err =>
    have h2 : telem c e g.1 i = .abort xs2 := helem
    rw [h2]
    exact rfl
  | ok d2 xs2 =>
    obtain ⟨hp2, h2⟩ := helem
    rw [h2]
    simp only []
    rcases hnext d2 hp2 with ⟨ho, hq, hr⟩ | ⟨ho, hrec⟩
    · subst hr
      simp only [ho, if_true, tarr]
      exact ⟨hq, rfl⟩
    · have e1 : (scanArrayValue = scanEndArray) = False := by decide
      simp only [ho, e1, if_false, ne_eq, not_true_eq_false]
      exact hrec xs2 g.2 hty.1 hg.2

theorem mapLoop_sem (Q P : DState → Prop) (hP : SaveClosed P) (k : Bytes) (c : Cst) (rest : List (Bytes × Cst)) (G : Nat)
    (kt : KeyType) (e : GoType) (ms : List (MapKey × DV)) (keys : List Bytes) (d0 D1 D4 : DState) (start : Nat)
    (hde : decodable e = true) (h1 : scanWhile scanSkipSpace d0 = D1) (hop1 : D1.opcode = scanBeginLiteral)
    (hrk : readKey D1 = .ok (D4, unquote k, start)) (hcons : ConsumesS G P c D4)
    (hnext : ∀ d5, P d5 → ((skipSpaceIf d5).opcode = scanEndObject ∧ Q (skipSpaceIf d5) ∧ rest = []) ∨
      ((skipSpaceIf d5).opcode = scanObjectValue ∧ ∀ ms2 keys2,
        RSem Q (tmap rest kt e ms2) (R.map Prod.fst (mapLoop G kt e ms2 keys2 (skipSpaceIf d5))))) :
    RSem Q (tmap ((k, c) :: rest) kt e ms) (R.map Prod.fst (mapLoop (G + 1) kt e ms keys d0)) := by
  have e1 : (scanBeginLiteral = scanEndObject) = False := by decide
  rw [tmap_cons]
  simp only [mapLoop, h1, hop1, e1, if_false, ne_eq, not_true_eq_false, hrk]
  have hv := hcons.val e (zeroDV e) true ⟨hde, zero_typed e, fun _ => rfl⟩
  generalize value G e (zeroDV e) true D4 = r at hv ⊢
  cases r with
  | panic => exact hv.elim
  | fuel => exact hv.elim
  | abort d5 v err =>
    have h2 : tvalue c e (zeroDV e) = .abort v := hv
    rw [h2]
    exact rfl
  | ok d5 v =>
    obtain ⟨hp5, h2⟩ := hv
    rw [h2]
    simp only []
    have hP5 : P (storeEntry kt (unquote k) start v ms d5).1 := by
      simp only [storeEntry]
      split
      · exact hp5
      · exact hP _ _ hp5
    have hsnd := storeEntry_snd kt (unquote k) start v ms d5
    generalize storeEntry kt (unquote k) start v ms d5 = se5 at hP5 hsnd ⊢
    rcases hnext _ hP5 with ⟨ho, hq, hr⟩ | ⟨ho, hrec⟩
    · subst hr
      simp only [ho, if_true, R.map, tmap, hsnd]
      exact ⟨hq, rfl⟩
    · have e2 : (scanObjectValue = scanEndObject) = False := by decide
      simp only [ho, e2, if_false, ne_eq, not_true_eq_false]
      rw [← hsnd]
      exact hrec _ _

theorem structLoop_sem (Q P : DState → Prop) (k : Bytes) (c : Cst) (rest : List (Bytes × Cst)) (G : Nat) (n : Bytes)
    (fs : List (FieldInfo × GoType)) (cur : DV)
    (d0 D1 D4 : DState) (start : Nat)
    (hd : decodable (.struct n fs) = true) (hc : DV.typed (.struct n fs) cur = true)
    (h1 : scanWhile scanSkipSpace d0 = D1) (hop1 : D1.opcode = scanBeginLiteral)
    (hrk : readKey D1 = .ok (D4, unquote k, start)) (hcons : ConsumesS G P c D4)
    (hcons' : ConsumesS G P c (D4.saveError .other))
    (hnext : ∀ d5, P d5 → ((skipSpaceIf d5).opcode = scanEndObject ∧ Q (skipSpaceIf d5) ∧ rest = []) ∨
      ((skipSpaceIf d5).opcode = scanObjectValue ∧ ∀ v, DV.typed (.struct n fs) v = true →
        RSem Q (tstruct rest (.struct n fs) (typeFields (.struct n fs)) v)
          (structLoop G (.struct n fs) (typeFields (.struct n fs)) v (skipSpaceIf d5)))) :
    RSem Q (tstruct ((k, c) :: rest) (.struct n fs) (typeFields (.struct n fs)) cur)
      (structLoop (G + 1) (.struct n fs) (typeFields (.struct n fs)) cur d0) := by
  have e1 : (scanBeginLiteral = scanEndObject) = False := by decide
  rw [tstruct_cons]
  simp only [structLoop, h1, hop1, e1, if_false, ne_eq, not_true_eq_false, hrk]
  have hm := memberStep_sem P G n fs hd cur hc (unquote k) c D4 hcons hcons'
  have hty := memberStep_typed G (.struct n fs) (typeFields (.struct n fs)) cur (unquote k) D4 hc
  generalize memberStep (value G) (.struct n fs) (typeFields (.struct n fs)) cur (unquote k) D4 = r at hm hty ⊢
  cases r with
  | panic => exact hm.elim
  | fuel => exact hm.elim
  | abort d5 v err =>
    have h2 : tmember c (.struct n fs) (typeFields (.struct n fs)) cur (unquote k) = .abort v := hm
    rw [h2]
    exact rfl
  | ok d5 v =>
    obtain ⟨hp5, h2⟩ := hm
    rw [h2]
    simp only []
    rcases hnext d5 hp5 with ⟨ho, hq, hr⟩ | ⟨ho, hrec⟩
    · subst hr
      simp only [ho, if_true, tstruct]
      exact ⟨hq, rfl⟩
    · have e2 : (scanObjectValue = scanEndObject) = False := by decide
      simp only [ho, e2, if_false, ne_eq, not_true_eq_false]
      exact hrec v hty

/-! ### the statements about element and member sequences -/

def SemE (f dd : Nat) (bs : Bytes) (xs : List Cst) (rest : Bytes) : Prop :=
  parseElems f dd bs = some (xs, rest) →
  ∀ stk : List Nat, stk.length + 1 = dd → ∀ (pre : Bytes) (x : UInt8) (bs' : Bytes), bs = x :: bs' →
    ∃ et, bs = et ++ rest ∧ ∀ (se : Option DErr) (lk : List Bytes) (G : Nat), 3 * f + 1 ≤ G →
      ∀ (isSlice : Bool) (e : GoType) (xs0 spare : List DV) (i : Nat) (d0 : DState),
      decodable e = true → typedAll e xs0 = true → typedAll e spare = true →
      scanWhile scanSkipSpace d0 = atD (pre ++ bs) (pre.length + 1) (step (bv (2 :: stk)) x) se lk →
      RSem (EndQ (pre ++ bs) (pre ++ et).length stk scanEndArray) (tarr xs isSlice e xs0 spare i)
        (arrLoop G isSlice e xs0 spare i d0)

def SemM (f dd : Nat) (bs : Bytes) (ms : List (Bytes × Cst)) (rest : Bytes) : Prop :=
  parseMembers f dd bs = some (ms, rest) →
  ∀ stk : List Nat, stk.length + 1 = dd → ∀ (pre : Bytes) (bs' : Bytes), bs = 34 :: bs' →
    ∃ mt, bs = mt ++ rest ∧ ∀ (se : Option DErr) (lk : List Bytes) (G : Nat), 3 * f + 1 ≤ G → ∀ d0 : DState,
      scanWhile scanSkipSpace d0 =
        atD (pre ++ bs) (pre.length + 1) (step (mk .stateBeginString (0 :: stk)) 34) se lk →
      (∀ kt e ms0 keys, decodable e = true →
        RSem (EndQ (pre ++ bs) (pre ++ mt).length stk scanEndObject) (tmap ms kt e ms0)
          (R.map Prod.fst (mapLoop G kt e ms0 keys d0))) ∧
      (∀ n fs cur, decodable (.struct n fs) = true → DV.typed (.struct n fs) cur = true →
        RSem (EndQ (pre ++ bs) (pre ++ mt).length stk scanEndObject)
          (tstruct ms (.struct n fs) (typeFields (.struct n fs)) cur)
          (structLoop G (.struct n fs) (typeFields (.struct n fs)) cur d0))

/-! ### arrays -/

theorem sem_elast (f d : Nat) (bs : Bytes) (c : Cst) (r r' : Bytes) (hv : parseValue f d bs = some (c, r))
    (ih : SemV f d bs c r) (h93 : skipWs r = 93 :: r') : SemE (f + 1) d bs [c] r' := by
  intro _ stk hstk pre x bs' hx
  obtain ⟨vt, hbs, hstart, hcons⟩ := ih hv (2 :: stk) (by simpa using hstk) (valueStk_two stk) pre x bs' hx
    (delimW_of_skipWs r r' 93 h93 (by simp))
  obtain ⟨y, r0, rfl⟩ := skipWs_cons_ne_nil h93
  obtain ⟨ws, hr, hws, hy93⟩ := skipWs_split (y :: r0) 93 r' h93
  have hdata : pre ++ bs = (pre ++ vt) ++ y :: r0 := by rw [hbs]; simp
  refine ⟨vt ++ ws ++ [93], by rw [hbs, hr]; simp, ?_⟩
  intro se lk G hG isSlice e xs0 spare i d0 hde hx0 hsp hd0
  obtain ⟨G, rfl⟩ : ∃ G', G = G' + 1 := ⟨G - 1, by omega⟩
  refine arrLoop_sem _ (PostQ (pre ++ bs) (pre ++ vt).length (2 :: stk) (y :: r0)) c [] G isSlice e xs0 spare i d0 _
    hde hx0 hsp hd0 (startOp_ne_endArray hstart) (hcons se lk G (by omega)) ?_
  intro d2 hq
  obtain ⟨se', lk', hskip⟩ := postQ_skipSpaceIf (pre ++ bs) (pre ++ vt) y r0 93 r' 2 stk ws hdata hr hws hy93 d2 hq
  rw [step_ev_arr_rbrack] at hskip
  left
  rw [hskip]
  refine ⟨rfl, ⟨se', lk', ?_⟩, rfl⟩
  have : (pre ++ vt ++ ws).length + 1 = (pre ++ (vt ++ ws ++ [93])).length := by
    simp only [List.length_append, List.length_cons, List.length_nil]; omega
  rw [this]

theorem sem_emore (f d : Nat) (bs : Bytes) (c : Cst) (r r' : Bytes) (xs : List Cst) (rest : Bytes)
    (hv : parseValue f d bs = some (c, r)) (ih : SemV f d bs c r) (h44 : skipWs r = 44 :: r')
    (hpe : parseElems f d (skipWs r') = some (xs, rest)) (ihE : SemE f d (skipWs r') xs rest) :
    SemE (f + 1) d bs (c :: xs) rest := by
  intro _ stk hstk pre x bs' hx
  obtain ⟨vt, hbs, hstart, hcons⟩ := ih hv (2 :: stk) (by simpa using hstk) (valueStk_two stk) pre x bs' hx
    (delimW_of_skipWs r r' 44 h44 (by simp))
  obtain ⟨y, r0, rfl⟩ := skipWs_cons_ne_nil h44
  obtain ⟨ws, hr, hws, hy44⟩ := skipWs_split (y :: r0) 44 r' h44
  have hdata : pre ++ bs = (pre ++ vt) ++ y :: r0 := by rw [hbs]; simp
  obtain ⟨x2, b2, hx2⟩ := parseElems_cons_of_some hpe
  obtain ⟨ws', hr', hws'⟩ := skipWs_prefix r'
  have hx2ws : isWs x2 = false := skipWs_head_nonws r' x2 b2 hx2
  have hdata2 : pre ++ bs = (pre ++ vt ++ ws ++ [44]) ++ (ws' ++ x2 :: b2) := by
    rw [hbs, hr, hr', hx2]; simp
  have hdata3 : pre ++ bs = (pre ++ vt ++ ws ++ [44] ++ ws') ++ skipWs r' := by rw [hdata2, hx2]; simp
  obtain ⟨et', het', hloop⟩ := ihE hpe stk hstk (pre ++ vt ++ ws ++ [44] ++ ws') x2 b2 hx2
  refine ⟨vt ++ ws ++ [44] ++ ws' ++ et', by rw [hbs, hr, hr', het']; simp, ?_⟩
  intro se lk G hG isSlice e xs0 spare i d0 hde hx0 hsp hd0
  obtain ⟨G, rfl⟩ : ∃ G', G = G' + 1 := ⟨G - 1, by omega⟩
  refine arrLoop_sem _ (PostQ (pre ++ bs) (pre ++ vt).length (2 :: stk) (y :: r0)) c xs G isSlice e xs0 spare i d0 _
    hde hx0 hsp hd0 (startOp_ne_endArray hstart) (hcons se lk G (by omega)) ?_
  intro d2 hq
  obtain ⟨se1, lk1, hskip⟩ := postQ_skipSpaceIf (pre ++ bs) (pre ++ vt) y r0 44 r' 2 stk ws hdata hr hws hy44 d2 hq
  rw [step_ev_arr_comma] at hskip
  right
  rw [hskip]
  refine ⟨rfl, ?_⟩
  intro xs2 sp2 hx2t hsp2
  have hsw := scanWhile_ws' (pre ++ bs) (pre ++ vt ++ ws ++ [44]) ws' x2 b2 (bv (2 :: stk)) scanArrayValue se1 lk1
    hdata2 hws' (fun c hc => step_bv_ws (2 :: stk) c hc) hx2ws
  have hlen : (pre ++ vt ++ ws ++ [44]).length = (pre ++ vt ++ ws).length + 1 := by
    simp only [List.length_append, List.length_cons, List.length_nil]
  rw [hlen] at hsw
  rw [hdata3] at hsw
  have h := hloop se1 lk1 G (by omega) isSlice e xs2 sp2 (i + 1) _ hde hx2t hsp2 hsw
  rw [← hdata3] at h
  have hn : (pre ++ vt ++ ws ++ [44] ++ ws' ++ et').length = (pre ++ (vt ++ ws ++ [44] ++ ws' ++ et')).length := by
    simp only [List.append_assoc]
  rw [hn] at h
  exact h

/-- an array, given what the loop does on its elements -/
theorem sem_arr_of_loop (F d : Nat) (cs : Bytes) (xs : List Cst) (rest : Bytes)
    (hp : parseValue F d (91 :: cs) = some (.arr xs, rest)) (hd : d + 1 ≤ maxDepth) (hF : 1 ≤ F)
    (stk : List Nat) (hstk : stk.length = d) (hvs : ValueStk stk) (pre : Bytes) (hdl : DelimW rest)
    (hloop : ∀ vt, 91 :: cs = vt ++ rest → ∀ (se : Option DErr) (lk : List Bytes) (G : Nat), 3 * F ≤ G + 2 →
      ∀ (isSlice : Bool) (e : GoType) (xs0 sp : List DV), decodable e = true → typedAll e xs0 = true →
        typedAll e sp = true →
        RSem (EndQ (pre ++ 91 :: cs) (pre ++ vt).length stk scanEndArray) (tarr xs isSlice e xs0 sp 0)
          (arrLoop G isSlice e xs0 sp 0
            (atD (pre ++ 91 :: cs) (pre.length + 1) (mk .stateBeginValueOrEmpty (2 :: stk), scanBeginArray) se lk))) :
    ∃ vt, 91 :: cs = vt ++ rest ∧ StartOp (step (bv stk) 91).2 ∧
      ∀ (se : Option DErr) (lk : List Bytes) (G : Nat), 3 * F ≤ G →
        ConsumesS G (PostQ (pre ++ 91 :: cs) (pre ++ vt).length stk rest) (.arr xs)
          (atD (pre ++ 91 :: cs) (pre.length + 1) (step (bv stk) 91) se lk) := by
  obtain ⟨vt, hbs, hend, hre⟩ := (split_all F).1 d _ _ rest hp
  obtain ⟨e0, inner, rfl⟩ := head_of_append (endsNonWs_ne_nil hend)
  have hbs' := hbs
  simp only [List.cons_append, List.cons.injEq] at hbs'
  obtain ⟨rfl, rfl⟩ := hbs'
  have heq := fun rest' hdl' => trace_of_split (91 :: inner) (.arr xs) d hre stk (by omega) rest' hdl'
  have hskip := fun se' lk' => skip_arr stk hvs (by omega) pre inner rest xs heq hend se' lk'
  have h0 := step_lbrack_ok stk (by omega)
  refine ⟨91 :: inner, rfl, by rw [h0]; exact .inr (.inr rfl), ?_⟩
  intro se lk G hG
  obtain ⟨G, rfl⟩ : ∃ G', G = G' + 2 := ⟨G - 2, by omega⟩
  rw [h0]
  simp only [h0] at hskip
  have hnext : ∀ d1, EndQ (pre ++ (91 :: inner ++ rest)) (pre ++ 91 :: inner).length stk scanEndArray d1 →
      PostQ (pre ++ (91 :: inner ++ rest)) (pre ++ 91 :: inner).length stk rest (scanNext d1) := by
    intro d1 hq
    obtain ⟨se', lk', h⟩ := hq
    rw [h]
    exact ⟨se', lk', postV_scanNext pre (91 :: inner) rest stk scanEndArray se' lk'⟩
  refine consumesS_container _ (postQ_saveClosed _ _ _ _) (G + 2) _ _ (.inl ⟨xs, rfl⟩) (.inl rfl)
    ⟨_, hskip se lk, hnext _ ⟨se, lk, rfl⟩⟩ ?_
  intro t cur cs' hinv
  refine value_arr_sem _ (G + 1) t cur cs' _ _ rfl ?_
  refine array_sem _ G t cur cs' _ xs hinv ?_ ?_ ?_
  · obtain ⟨vt2, D', v, hvt2, _, hval, hview, hpost⟩ := (iface_all F).1 d _ _ rest hp stk hstk pre 91
      (inner ++ rest) rfl se lk (G + 1) (by omega) hdl
    have : vt2 = 91 :: inner := List.append_cancel_right (by rw [← hvt2]; simp)
    subst this
    rw [h0] at hval
    simp only [valueInterface, atD_opcode, if_true] at hval
    cases hai : arrayInterface G
        (atD (pre ++ 91 :: (inner ++ rest)) (pre.length + 1) (mk St.stateBeginValueOrEmpty (2 :: stk), scanBeginArray) se lk) [] with
    | ok p =>
      obtain ⟨d1, vs⟩ := p
      rw [hai] at hval
      simp only [Exec.ok.injEq, Prod.mk.injEq] at hval
      refine ⟨d1, vs, rfl, ?_, ?_⟩
      · show PostQ _ _ _ _ (scanNext d1)
        rw [hval.1]
        exact ⟨se, lk, hpost⟩
      · rw [← hval.2] at hview
        simpa only [view, mapRaw, sem, DValG.list.injEq] using hview
    | panic => rw [hai] at hval; cases hval
    | fuel => rw [hai] at hval; cases hval
  · intro isSlice e xs0 sp hde hx0 hsp
    exact RSem_mono _ _ hnext _ _ (hloop (91 :: inner) rfl se lk G (by omega) isSlice e xs0 sp hde hx0 hsp)
  · intro k v
    exact RSem_mono _ _ hnext _ _ (typeErrorSkip_sem k v _ _ _ se lk _ stk scanEndArray (fun se' => hskip se' lk))

theorem sem_arr0 (f d : Nat) (cs r : Bytes) (hd : d + 1 ≤ maxDepth) (hs : skipWs cs = 93 :: r) :
    SemV (f + 1) d (91 :: cs) (.arr []) r := by
  intro hp stk hstk hvs pre x bs' hx hdl
  simp only [List.cons.injEq] at hx
  obtain ⟨rfl, rfl⟩ := hx
  refine sem_arr_of_loop (f + 1) d cs [] r hp hd (by omega) stk hstk hvs pre hdl ?_
  intro vt hvt se lk G hG isSlice e xs0 sp _ _ _
  obtain ⟨G, rfl⟩ : ∃ G', G = G' + 1 := ⟨G - 1, by omega⟩
  obtain ⟨ws, hcs, hws, _⟩ := skipWs_split cs 93 r hs
  have hdata : pre ++ 91 :: cs = (pre ++ [91]) ++ (ws ++ 93 :: r) := by rw [hcs]; simp
  have hsw := scanWhile_ws' (pre ++ 91 :: cs) (pre ++ [91]) ws 93 r (mk .stateBeginValueOrEmpty (2 :: stk))
    scanBeginArray se lk hdata hws (fun c hc => step_bvoe_ws (2 :: stk) c hc) (by decide)
  rw [step_bvoe_rbrack] at hsw
  have hlen : (pre ++ [91]).length = pre.length + 1 := by simp
  rw [hlen] at hsw
  rw [arrLoop_done G isSlice e xs0 sp 0 _ _ hsw rfl]
  simp only [tarr]
  refine ⟨⟨se, lk, ?_⟩, rfl⟩
  have hv : vt = 91 :: ws ++ [93] := List.append_cancel_right (by rw [← hvt, hcs]; simp)
  subst hv
  have : (pre ++ [91] ++ ws).length + 1 = (pre ++ (91 :: ws ++ [93])).length := by
    simp only [List.length_append, List.length_cons, List.length_nil]; omega
  rw [this]

theorem sem_arr (f d : Nat) (cs : Bytes) (xs : List Cst) (rest : Bytes) (hd : d + 1 ≤ maxDepth)
    (hs : ∀ r, skipWs cs ≠ 93 :: r) (hpe : parseElems f (d + 1) (skipWs cs) = some (xs, rest))
    (ih : SemE f (d + 1) (skipWs cs) xs rest) : SemV (f + 1) d (91 :: cs) (.arr xs) rest := by
  intro hp stk hstk hvs pre x bs' hx hdl
  simp only [List.cons.injEq] at hx
  obtain ⟨rfl, rfl⟩ := hx
  refine sem_arr_of_loop (f + 1) d cs xs rest hp hd (by omega) stk hstk hvs pre hdl ?_
  intro vt hvt se lk G hG isSlice e xs0 sp hde hx0 hsp
  obtain ⟨x2, b2, hx2⟩ := parseElems_cons_of_some hpe
  obtain ⟨ws, hcs, hws⟩ := skipWs_prefix cs
  have hx2ws : isWs x2 = false := skipWs_head_nonws cs x2 b2 hx2
  have hx293 : x2 ≠ 93 := fun h => hs b2 (by rw [hx2, h])
  have hdata : pre ++ 91 :: cs = (pre ++ [91]) ++ (ws ++ x2 :: b2) := by rw [hcs, hx2]; simp
  have hsw := scanWhile_ws' (pre ++ 91 :: cs) (pre ++ [91]) ws x2 b2 (mk .stateBeginValueOrEmpty (2 :: stk))
    scanBeginArray se lk hdata hws (fun c hc => step_bvoe_ws (2 :: stk) c hc) hx2ws
  rw [step_bvoe_other (2 :: stk) x2 hx2ws hx293] at hsw
  have hlen : (pre ++ [91]).length = pre.length + 1 := by simp
  rw [hlen] at hsw
  have hdata2 : pre ++ 91 :: cs = (pre ++ [91] ++ ws) ++ skipWs cs := by rw [hdata, hx2]; simp
  rw [hdata2] at hsw
  obtain ⟨et, het, hl⟩ := ih hpe stk (by omega) (pre ++ [91] ++ ws) x2 b2 hx2
  have h := hl se lk G (by omega) isSlice e xs0 sp 0 _ hde hx0 hsp hsw
  rw [← hdata2] at h
  have hv : vt = 91 :: ws ++ et := List.append_cancel_right (by rw [← hvt, hcs, het]; simp)
  subst hv
  have hn : (pre ++ [91] ++ ws ++ et).length = (pre ++ (91 :: ws ++ et)).length := by
    simp only [List.length_append, List.length_cons, List.length_nil]; omega
  rw [hn] at h
  exact h

/-! ### objects -/

/-- from the member name to the state behind the member's value -/
theorem sem_member (f d : Nat) (cs k r r1 : Bytes) (c : Cst) (r2 : Bytes) (y' : UInt8) (r3 : Bytes)
    (hk : parseStrBody cs = some (k, r)) (h58 : skipWs r = 58 :: r1)
    (hv : parseValue f d (skipWs r1) = some (c, r2)) (ih : SemV f d (skipWs r1) c r2)
    (hy' : skipWs r2 = y' :: r3) (hy'd : y' = 44 ∨ y' = 93 ∨ y' = 125)
    (stk : List Nat) (hstk : stk.length + 1 = d) (pre : Bytes) :
    ∃ (mt : Bytes) (P : DState → Prop), 34 :: cs = mt ++ y' :: r3 ∧ SaveClosed P ∧
      (∀ d5, P d5 → ∃ se lk, skipSpaceIf d5 =
        atD (pre ++ 34 :: cs) ((pre ++ mt).length + 1) (step (ev (1 :: stk)) y') se lk) ∧
      ∀ (se : Option DErr) (lk : List Bytes) (G : Nat), 3 * f ≤ G → ∃ D4 start,
        readKey (atD (pre ++ 34 :: cs) (pre.length + 1) (mk .stateInString (0 :: stk), scanBeginLiteral) se lk) =
          .ok (D4, unquote k, start) ∧ ConsumesS G P c D4 ∧ ConsumesS G P c (D4.saveError .other) := by
  obtain ⟨xv, bv', hxv⟩ := parseValue_cons_of_some hv
  obtain ⟨mid, hmid, hrk⟩ := readKey_pos cs k r r1 hk h58 xv bv' hxv stk pre
  have hdata4 : pre ++ 34 :: cs = (pre ++ mid) ++ skipWs r1 := by rw [hmid]; simp
  obtain ⟨vt, hvt, _, hcons⟩ := ih hv (1 :: stk) (by simpa using hstk) (valueStk_one stk) (pre ++ mid) xv bv' hxv
    (delimW_of_skipWs r2 r3 y' hy' hy'd)
  obtain ⟨y2, r20, rfl⟩ := skipWs_cons_ne_nil hy'
  obtain ⟨ws3, hr2, hws3, hy'ws⟩ := skipWs_split (y2 :: r20) y' r3 hy'
  have hdata5 : pre ++ 34 :: cs = (pre ++ mid ++ vt) ++ y2 :: r20 := by rw [hdata4, hvt]; simp
  refine ⟨mid ++ vt ++ ws3, PostQ (pre ++ 34 :: cs) (pre ++ mid ++ vt).length (1 :: stk) (y2 :: r20), ?_,
    postQ_saveClosed _ _ _ _, ?_, ?_⟩
  · rw [hmid, hvt, hr2]; simp
  · intro d5 hq
    obtain ⟨se, lk, h⟩ := postQ_skipSpaceIf (pre ++ 34 :: cs) (pre ++ mid ++ vt) y2 r20 y' r3 1 stk ws3 hdata5 hr2
      hws3 hy'ws d5 hq
    refine ⟨se, lk, ?_⟩
    rw [h]
    have hn : (pre ++ mid ++ vt ++ ws3).length = (pre ++ (mid ++ vt ++ ws3)).length := by
      simp only [List.append_assoc]
    rw [hn]
  · intro se lk G hG
    have hc := hcons se lk G hG
    have hc' := hcons (saveE se .other) lk G hG
    rw [← hdata4] at hc hc'
    obtain ⟨start, hs⟩ := hrk se lk
    refine ⟨_, start, hs, hc, ?_⟩
    rw [saveError_atD]
    exact hc'

theorem sem_mlast (f d : Nat) (cs k r r1 : Bytes) (c : Cst) (r2 r3 : Bytes)
    (hk : parseStrBody cs = some (k, r)) (h58 : skipWs r = 58 :: r1)
    (hv : parseValue f d (skipWs r1) = some (c, r2)) (ih : SemV f d (skipWs r1) c r2)
    (h125 : skipWs r2 = 125 :: r3) : SemM (f + 1) d (34 :: cs) [(k, c)] r3 := by
  intro _ stk hstk pre bs' hx
  obtain ⟨mt, P, hmt, hP, hafter, hmem⟩ := sem_member f d cs k r r1 c r2 125 r3 hk h58 hv ih h125 (by simp) stk hstk pre
  refine ⟨mt ++ [125], by rw [hmt]; simp, ?_⟩
  intro se lk G hG d0 hd0
  obtain ⟨G, rfl⟩ : ∃ G', G = G' + 1 := ⟨G - 1, by omega⟩
  rw [step_bs_quote] at hd0
  obtain ⟨D4, start, hrk, hc, hc'⟩ := hmem se lk G (by omega)
  have hnext : ∀ d5, P d5 → (skipSpaceIf d5).opcode = scanEndObject ∧
      EndQ (pre ++ 34 :: cs) (pre ++ (mt ++ [125])).length stk scanEndObject (skipSpaceIf d5) := by
    intro d5 hq
    obtain ⟨se', lk', h⟩ := hafter d5 hq
    rw [step_ev_val_rbrace] at h
    rw [h]
    refine ⟨rfl, se', lk', ?_⟩
    have : (pre ++ mt).length + 1 = (pre ++ (mt ++ [125])).length := by
      simp only [List.length_append, List.length_cons, List.length_nil]; omega
    rw [this]
  constructor
  · intro kt e ms0 keys hde
    exact mapLoop_sem _ P hP k c [] G kt e ms0 keys d0 _ D4 start hde hd0 rfl hrk hc
      (fun d5 hq => .inl ⟨(hnext d5 hq).1, (hnext d5 hq).2, rfl⟩)
  · intro n fs cur hdd hty
    exact structLoop_sem _ P k c [] G n fs cur d0 _ D4 start hdd hty hd0 rfl hrk hc hc'
      (fun d5 hq => .inl ⟨(hnext d5 hq).1, (hnext d5 hq).2, rfl⟩)

theorem sem_mmore (f d : Nat) (cs k r r1 : Bytes) (c : Cst) (r2 r3 : Bytes) (ms : List (Bytes × Cst)) (rest : Bytes)
    (hk : parseStrBody cs = some (k, r)) (h58 : skipWs r = 58 :: r1)
    (hv : parseValue f d (skipWs r1) = some (c, r2)) (ih : SemV f d (skipWs r1) c r2)
    (h44 : skipWs r2 = 44 :: r3) (hpm : parseMembers f d (skipWs r3) = some (ms, rest))
    (ihM : SemM f d (skipWs r3) ms rest) : SemM (f + 1) d (34 :: cs) ((k, c) :: ms) rest := by
  intro _ stk hstk pre bs' hx
  obtain ⟨mt, P, hmt, hP, hafter, hmem⟩ := sem_member f d cs k r r1 c r2 44 r3 hk h58 hv ih h44 (by simp) stk hstk pre
  obtain ⟨b3, hb3⟩ := parseMembers_cons_of_some hpm
  obtain ⟨ws4, hr3, hws4⟩ := skipWs_prefix r3
  have hdata : pre ++ 34 :: cs = (pre ++ mt ++ [44]) ++ (ws4 ++ 34 :: b3) := by rw [hmt, hr3, hb3]; simp
  have hdata2 : pre ++ 34 :: cs = (pre ++ mt ++ [44] ++ ws4) ++ skipWs r3 := by rw [hdata, hb3]; simp
  obtain ⟨mt', hmt', hloop⟩ := ihM hpm stk hstk (pre ++ mt ++ [44] ++ ws4) b3 hb3
  refine ⟨mt ++ [44] ++ ws4 ++ mt', by rw [hmt, hr3, hmt']; simp, ?_⟩
  intro se lk G hG d0 hd0
  obtain ⟨G, rfl⟩ : ∃ G', G = G' + 1 := ⟨G - 1, by omega⟩
  rw [step_bs_quote] at hd0
  obtain ⟨D4, start, hrk, hc, hc'⟩ := hmem se lk G (by omega)
  have hnext : ∀ d5, P d5 → (skipSpaceIf d5).opcode = scanObjectValue ∧
      ((∀ kt e ms2 keys2, decodable e = true →
        RSem (EndQ (pre ++ 34 :: cs) (pre ++ (mt ++ [44] ++ ws4 ++ mt')).length stk scanEndObject) (tmap ms kt e ms2)
          (R.map Prod.fst (mapLoop G kt e ms2 keys2 (skipSpaceIf d5)))) ∧
       (∀ n fs v, decodable (.struct n fs) = true → DV.typed (.struct n fs) v = true →
        RSem (EndQ (pre ++ 34 :: cs) (pre ++ (mt ++ [44] ++ ws4 ++ mt')).length stk scanEndObject)
          (tstruct ms (.struct n fs) (typeFields (.struct n fs)) v)
          (structLoop G (.struct n fs) (typeFields (.struct n fs)) v (skipSpaceIf d5)))) := by
    intro d5 hq
    obtain ⟨se1, lk1, h⟩ := hafter d5 hq
    rw [step_ev_val_comma] at h
    have hsw := scanWhile_ws' (pre ++ 34 :: cs) (pre ++ mt ++ [44]) ws4 34 b3 (mk .stateBeginString (0 :: stk))
      scanObjectValue se1 lk1 hdata hws4 (fun c hc => step_bs_ws (0 :: stk) c hc) (by decide)
    have hlen : (pre ++ mt ++ [44]).length = (pre ++ mt).length + 1 := by
      simp only [List.length_append, List.length_cons, List.length_nil]
    rw [hlen] at hsw
    rw [hdata2] at hsw
    have hl := hloop se1 lk1 G (by omega) _ hsw
    rw [← hdata2] at hl
    have hn : (pre ++ mt ++ [44] ++ ws4 ++ mt').length = (pre ++ (mt ++ [44] ++ ws4 ++ mt')).length := by
      simp only [List.append_assoc]
    rw [hn] at hl
    rw [h]
    exact ⟨rfl, hl⟩
  constructor
  · intro kt e ms0 keys hde
    exact mapLoop_sem _ P hP k c ms G kt e ms0 keys d0 _ D4 start hde hd0 rfl hrk hc
      (fun d5 hq => .inr ⟨(hnext d5 hq).1, fun ms2 keys2 => (hnext d5 hq).2.1 kt e ms2 keys2 hde⟩)
  · intro n fs cur hdd hty
    exact structLoop_sem _ P k c ms G n fs cur d0 _ D4 start hdd hty hd0 rfl hrk hc hc'
      (fun d5 hq => .inr ⟨(hnext d5 hq).1, fun v hv' => (hnext d5 hq).2.2 n fs v hdd hv'⟩)

/-- an object, given what the loops do on its members -/
theorem sem_obj_of_loop (F d : Nat) (cs : Bytes) (ms : List (Bytes × Cst)) (rest : Bytes)
    (hp : parseValue F d (123 :: cs) = some (.obj ms, rest)) (hd : d + 1 ≤ maxDepth) (hF : 1 ≤ F)
    (stk : List Nat) (hstk : stk.length = d) (hvs : ValueStk stk) (pre : Bytes) (hdl : DelimW rest)
    (hloop : ∀ vt, 123 :: cs = vt ++ rest → ∀ (se : Option DErr) (lk : List Bytes) (G : Nat), 3 * F ≤ G + 2 →
      (∀ kt e ms0, decodable e = true →
        RSem (EndQ (pre ++ 123 :: cs) (pre ++ vt).length stk scanEndObject) (tmap ms kt e ms0)
          (R.map Prod.fst (mapLoop G kt e ms0 []
            (atD (pre ++ 123 :: cs) (pre.length + 1) (mk .stateBeginStringOrEmpty (0 :: stk), scanBeginObject) se lk)))) ∧
      (∀ n fs cur, decodable (.struct n fs) = true → DV.typed (.struct n fs) cur = true →
        RSem (EndQ (pre ++ 123 :: cs) (pre ++ vt).length stk scanEndObject)
          (tstruct ms (.struct n fs) (typeFields (.struct n fs)) cur)
          (structLoop G (.struct n fs) (typeFields (.struct n fs)) cur
            (atD (pre ++ 123 :: cs) (pre.length + 1) (mk .stateBeginStringOrEmpty (0 :: stk), scanBeginObject) se lk)))) :
    ∃ vt, 123 :: cs = vt ++ rest ∧ StartOp (step (bv stk) 123).2 ∧
      ∀ (se : Option DErr) (lk : List Bytes) (G : Nat), 3 * F ≤ G →
        ConsumesS G (PostQ (pre ++ 123 :: cs) (pre ++ vt).length stk rest) (.obj ms)
          (atD (pre ++ 123 :: cs) (pre.length + 1) (step (bv stk) 123) se lk) := by
  obtain ⟨vt, hbs, hend, hre⟩ := (split_all F).1 d _ _ rest hp
  obtain ⟨e0, inner, rfl⟩ := head_of_append (endsNonWs_ne_nil hend)
  have hbs' := hbs
  simp only [List.cons_append, List.cons.injEq] at hbs'
  obtain ⟨rfl, rfl⟩ := hbs'
  have heq := fun rest' hdl' => trace_of_split (123 :: inner) (.obj ms) d hre stk (by omega) rest' hdl'
  have hskip := fun se' lk' => skip_obj stk hvs (by omega) pre inner rest ms heq hend se' lk'
  have h0 := step_lbrace_ok stk (by omega)
  refine ⟨123 :: inner, rfl, by rw [h0]; exact .inr (.inl rfl), ?_⟩
  intro se lk G hG
  obtain ⟨G, rfl⟩ : ∃ G', G = G' + 2 := ⟨G - 2, by omega⟩
  rw [h0]
  simp only [h0] at hskip
  have hnext : ∀ d1, EndQ (pre ++ (123 :: inner ++ rest)) (pre ++ 123 :: inner).length stk scanEndObject d1 →
      PostQ (pre ++ (123 :: inner ++ rest)) (pre ++ 123 :: inner).length stk rest (scanNext d1) := by
    intro d1 hq
    obtain ⟨se', lk', h⟩ := hq
    rw [h]
    exact ⟨se', lk', postV_scanNext pre (123 :: inner) rest stk scanEndObject se' lk'⟩
  refine consumesS_container _ (postQ_saveClosed _ _ _ _) (G + 2) _ _ (.inr ⟨ms, rfl⟩) (.inr rfl)
    ⟨_, hskip se lk, hnext _ ⟨se, lk, rfl⟩⟩ ?_
  intro t cur cs' hinv
  refine value_obj_sem _ (G + 1) t cur cs' _ _ rfl ?_
  refine object_sem _ (fun d keys h => postQ_lastKeys _ _ _ _ d keys h) G t cur cs' _ ms hinv ?_ ?_ ?_ ?_
  · obtain ⟨vt2, D', v, hvt2, _, hval, hview, hpost⟩ := (iface_all F).1 d _ _ rest hp stk hstk pre 123
      (inner ++ rest) rfl se lk (G + 1) (by omega) hdl
    have : vt2 = 123 :: inner := List.append_cancel_right (by rw [← hvt2]; simp)
    subst this
    rw [h0] at hval
    have e1 : (scanBeginObject = scanBeginArray) = False := by decide
    simp only [valueInterface, atD_opcode, e1, if_false, if_true] at hval
    cases hai : objectInterface G
        (atD (pre ++ 123 :: (inner ++ rest)) (pre.length + 1) (mk St.stateBeginStringOrEmpty (0 :: stk), scanBeginObject) se lk) [] with
    | ok p =>
      obtain ⟨d1, m⟩ := p
      rw [hai] at hval
      simp only [Exec.ok.injEq, Prod.mk.injEq] at hval
      refine ⟨d1, m, rfl, ?_, ?_⟩
      · show PostQ _ _ _ _ (scanNext d1)
        rw [hval.1]
        exact ⟨se, lk, hpost⟩
      · rw [← hval.2] at hview
        simpa only [view, mapRaw, sem, DValG.map.injEq] using hview
    | panic => rw [hai] at hval; cases hval
    | fuel => rw [hai] at hval; cases hval
  · intro kt e ms0 hde
    exact RSem_mono _ _ hnext _ _ ((hloop (123 :: inner) rfl se lk G (by omega)).1 kt e ms0 hde)
  · intro n fs sv hdd hsv
    exact RSem_mono _ _ hnext _ _ ((hloop (123 :: inner) rfl se lk G (by omega)).2 n fs sv hdd hsv)
  · intro k v
    exact RSem_mono _ _ hnext _ _ (typeErrorSkip_sem k v _ _ _ se lk _ stk scanEndObject (fun se' => hskip se' lk))

theorem sem_obj0 (f d : Nat) (cs r : Bytes) (hd : d + 1 ≤ maxDepth) (hs : skipWs cs = 125 :: r) :
    SemV (f + 1) d (123 :: cs) (.obj []) r := by
  intro hp stk hstk hvs pre x bs' hx hdl
  simp only [List.cons.injEq] at hx
  obtain ⟨rfl, rfl⟩ := hx
  refine sem_obj_of_loop (f + 1) d cs [] r hp hd (by omega) stk hstk hvs pre hdl ?_
  intro vt hvt se lk G hG
  obtain ⟨G, rfl⟩ : ∃ G', G = G' + 1 := ⟨G - 1, by omega⟩
  obtain ⟨ws, hcs, hws, _⟩ := skipWs_split cs 125 r hs
  have hdata : pre ++ 123 :: cs = (pre ++ [123]) ++ (ws ++ 125 :: r) := by rw [hcs]; simp
  have hsw := scanWhile_ws' (pre ++ 123 :: cs) (pre ++ [123]) ws 125 r (mk .stateBeginStringOrEmpty (0 :: stk))
    scanBeginObject se lk hdata hws (fun c hc => step_bsoe_ws (0 :: stk) c hc) (by decide)
  rw [step_bsoe_rbrace] at hsw
  have hlen : (pre ++ [123]).length = pre.length + 1 := by simp
  rw [hlen] at hsw
  have hv : vt = 123 :: ws ++ [125] := List.append_cancel_right (by rw [← hvt, hcs]; simp)
  subst hv
  have hoff : (pre ++ [123] ++ ws).length + 1 = (pre ++ (123 :: ws ++ [125])).length := by
    simp only [List.length_append, List.length_cons, List.length_nil]; omega
  constructor
  · intro kt e ms0 _
    rw [mapLoop_done G kt e ms0 [] _ _ hsw rfl]
    simp only [tmap, R.map]
    exact ⟨⟨se, lk, by rw [hoff]⟩, rfl⟩
  · intro n fs cur _ _
    rw [structLoop_done G _ _ cur _ _ hsw rfl]
    simp only [tstruct]
    exact ⟨⟨se, lk, by rw [hoff]⟩, rfl⟩

theorem sem_obj (f d : Nat) (cs : Bytes) (ms : List (Bytes × Cst)) (rest : Bytes) (hd : d + 1 ≤ maxDepth)
    (hs : ∀ r, skipWs cs ≠ 125 :: r) (hpm : parseMembers f (d + 1) (skipWs cs) = some (ms, rest))
    (ih : SemM f (d + 1) (skipWs cs) ms rest) : SemV (f + 1) d (123 :: cs) (.obj ms) rest := by
  intro hp stk hstk hvs pre x bs' hx hdl
  simp only [List.cons.injEq] at hx
  obtain ⟨rfl, rfl⟩ := hx
  refine sem_obj_of_loop (f + 1) d cs ms rest hp hd (by omega) stk hstk hvs pre hdl ?_
  intro vt hvt se lk G hG
  obtain ⟨b2, hx2⟩ := parseMembers_cons_of_some hpm
  obtain ⟨ws, hcs, hws⟩ := skipWs_prefix cs
  have hdata : pre ++ 123 :: cs = (pre ++ [123]) ++ (ws ++ 34 :: b2) := by rw [hcs, hx2]; simp
  have hsw := scanWhile_ws' (pre ++ 123 :: cs) (pre ++ [123]) ws 34 b2 (mk .stateBeginStringOrEmpty (0 :: stk))
    scanBeginObject se lk hdata hws (fun c hc => step_bsoe_ws (0 :: stk) c hc) (by decide)
  rw [step_bsoe_other (0 :: stk) 34 (by decide) (by decide)] at hsw
  have hlen : (pre ++ [123]).length = pre.length + 1 := by simp
  rw [hlen] at hsw
  have hdata2 : pre ++ 123 :: cs = (pre ++ [123] ++ ws) ++ skipWs cs := by rw [hdata, hx2]; simp
  rw [hdata2] at hsw
  obtain ⟨mt, hmt, hl⟩ := ih hpm stk (by omega) (pre ++ [123] ++ ws) b2 hx2
  have h := hl se lk G (by omega) _ hsw
  rw [← hdata2] at h
  have hv : vt = 123 :: ws ++ mt := List.append_cancel_right (by rw [← hvt, hcs, hmt]; simp)
  subst hv
  have hn : (pre ++ [123] ++ ws ++ mt).length = (pre ++ (123 :: ws ++ mt)).length := by
    simp only [List.length_append, List.length_cons, List.length_nil]; omega
  rw [hn] at h
  exact ⟨fun kt e ms0 hde => h.1 kt e ms0 [] hde, h.2⟩

/-! ### the induction -/

theorem sem_all (f : Nat) :
    (∀ d bs c rest, parseValue f d bs = some (c, rest) → SemV f d bs c rest) ∧
    (∀ d bs xs rest, parseElems f d bs = some (xs, rest) → xs ≠ [] ∧ SemE f d bs xs rest) ∧
    (∀ d bs ms rest, parseMembers f d bs = some (ms, rest) → ms ≠ [] ∧ SemM f d bs ms rest) :=
  parse_ind (PV := SemV) (PE := SemE) (PM := SemM)
    (fun f d cs r hd hs => sem_obj0 f d cs r hd hs)
    (fun f d cs ms rest hd hs _ hp ih => sem_obj f d cs ms rest hd hs hp ih)
    (fun f d cs r hd hs => sem_arr0 f d cs r hd hs)
    (fun f d cs xs rest hd hs _ hp ih => sem_arr f d cs xs rest hd hs hp ih)
    (fun f d cs b rest h => sem_str f d cs b rest h)
    (fun f d w rest hw => sem_word f d w rest hw)
    (fun f d c cs l rest hc hp => sem_num f d c cs l rest hc hp)
    (fun f d bs x r r' hv ih h93 => sem_elast f d bs x r r' hv ih h93)
    (fun f d bs x r r' xs rest hv ih h44 _ hp ihE => sem_emore f d bs x r r' xs rest hv ih h44 hp ihE)
    (fun f d cs k r r1 v r2 r3 hk h58 hv ih h125 => sem_mlast f d cs k r r1 v r2 r3 hk h58 hv ih h125)
    (fun f d cs k r r1 v r2 r3 ms rest hk h58 hv ih h44 _ hp ihM =>
      sem_mmore f d cs k r r1 v r2 r3 ms rest hk h58 hv ih h44 hp ihM)
    f

end TDec
end Codec
end JP
