import JP.Lemmas.WorldConc

/-!
# Footprints: the trace of a program that satisfies `Sat` is well owned
-/

namespace JP
namespace World

/-- the stacks of held objects are covered by the ownership set -/
def Cov (held : List (PoolId × Nat)) (hd he hs : List Nat) : Prop :=
  ∀ o, hd.count o ≤ held.count (PoolId.dec, o) ∧ he.count o ≤ held.count (PoolId.enc, o) ∧
       hs.count o ≤ held.count (PoolId.scan, o)

theorem Cov.nil : Cov [] [] [] [] := fun _ => ⟨Nat.le_refl _, Nat.le_refl _, Nat.le_refl _⟩

theorem contains_of_count_pos {held : List (PoolId × Nat)} {x : PoolId × Nat} (h : 0 < held.count x) :
    held.contains x = true := by
  rw [List.contains_iff_mem]
  exact List.count_pos_iff.mp h

theorem Cov.acqDec {held hd he hs} (h : Cov held hd he hs) (o : Nat) :
    Cov ((PoolId.dec, o) :: held) (o :: hd) he hs := by
  intro o'
  have := h o'
  simp only [List.count_cons, beq_iff_eq, Prod.mk.injEq, true_and]
  refine ⟨?_, ?_, ?_⟩
  · split <;> omega
  · simp; omega
  · simp; omega

theorem Cov.acqEnc {held hd he hs} (h : Cov held hd he hs) (o : Nat) :
    Cov ((PoolId.enc, o) :: held) hd (o :: he) hs := by
  intro o'
  have := h o'
  simp only [List.count_cons, beq_iff_eq, Prod.mk.injEq, true_and]
  refine ⟨?_, ?_, ?_⟩
  · simp; omega
  · split <;> omega
  · simp; omega

theorem Cov.acqScan {held hd he hs} (h : Cov held hd he hs) (o : Nat) :
    Cov ((PoolId.scan, o) :: held) hd he (o :: hs) := by
  intro o'
  have := h o'
  simp only [List.count_cons, beq_iff_eq, Prod.mk.injEq, true_and]
  refine ⟨?_, ?_, ?_⟩
  · simp; omega
  · simp; omega
  · split <;> omega

theorem Cov.relDec {held hd he hs} {o : Nat} (h : Cov held (o :: hd) he hs) :
    held.contains (PoolId.dec, o) = true ∧ Cov (held.erase (PoolId.dec, o)) hd he hs := by
  refine ⟨contains_of_count_pos ?_, ?_⟩
  · have := (h o).1
    simp only [List.count_cons, beq_self_eq_true, if_true] at this
    omega
  · intro o'
    have := h o'
    simp only [List.count_cons, beq_iff_eq] at this
    simp only [List.count_erase, beq_iff_eq, Prod.mk.injEq, true_and]
    refine ⟨?_, ?_, ?_⟩
    · split <;> simp_all <;> omega
    · simp; omega
    · simp; omega

theorem Cov.relEnc {held hd he hs} {o : Nat} (h : Cov held hd (o :: he) hs) :
    held.contains (PoolId.enc, o) = true ∧ Cov (held.erase (PoolId.enc, o)) hd he hs := by
  refine ⟨contains_of_count_pos ?_, ?_⟩
  · have := (h o).2.1
    simp only [List.count_cons, beq_self_eq_true, if_true] at this
    omega
  · intro o'
    have := h o'
    simp only [List.count_cons, beq_iff_eq] at this
    simp only [List.count_erase, beq_iff_eq, Prod.mk.injEq, true_and]
    refine ⟨?_, ?_, ?_⟩
    · simp; omega
    · split <;> simp_all <;> omega
    · simp; omega

theorem Cov.relScan {held hd he hs} {o : Nat} (h : Cov held hd he (o :: hs)) :
    held.contains (PoolId.scan, o) = true ∧ Cov (held.erase (PoolId.scan, o)) hd he hs := by
  refine ⟨contains_of_count_pos ?_, ?_⟩
  · have := (h o).2.2
    simp only [List.count_cons, beq_self_eq_true, if_true] at this
    omega
  · intro o'
    have := h o'
    simp only [List.count_cons, beq_iff_eq] at this
    simp only [List.count_erase, beq_iff_eq, Prod.mk.injEq, true_and]
    refine ⟨?_, ?_, ?_⟩
    · simp; omega
    · simp; omega
    · split <;> simp_all <;> omega

/-- a program that never puts what it does not hold (the indices of `SatI`) has a well-owned
trace, whatever objects (`idOf`) and leftovers (`L`) the pools hand out -/
theorem SatI.wellOwned {α : Type} {p : Prog α} {Q : α → Prop} {a b c : Nat} (hp : SatI Q p a b c)
    (L : Leftovers) (hL : L.Inv) (idOf : PoolId → Nat → Nat) (i j l : Nat)
    (held : List (PoolId × Nat)) (hd he hs : List Nat)
    (ha : a ≤ hd.length) (hb : b ≤ he.length) (hc : c ≤ hs.length) (hcov : Cov held hd he hs) :
    wellOwned held (p.traceFrom L idOf i j l hd he hs) = true := by
  induction hp generalizing i j l held hd he hs with
  | ret _ => rfl
  | getDec _ ih =>
    simp only [Prog.traceFrom, World.wellOwned]
    exact ih _ (hL.1 i) _ _ _ _ _ _ _ (by simp; omega) hb hc (hcov.acqDec _)
  | putDec _ _ ih =>
    cases hd with
    | nil => simp at ha
    | cons o hd' =>
      obtain ⟨h1, h2⟩ := hcov.relDec
      simp only [Prog.traceFrom, World.wellOwned, h1, Bool.true_and]
      exact ih _ _ _ _ _ _ _ (by simp at ha; omega) hb hc h2
  | getEnc _ ih =>
    simp only [Prog.traceFrom, World.wellOwned]
    exact ih _ (hL.2 j) _ _ _ _ _ _ _ ha (by simp; omega) hc (hcov.acqEnc _)
  | putEnc _ _ ih =>
    cases he with
    | nil => simp at hb
    | cons o he' =>
      obtain ⟨h1, h2⟩ := hcov.relEnc
      simp only [Prog.traceFrom, World.wellOwned, h1, Bool.true_and]
      exact ih _ _ _ _ _ _ _ ha (by simp at hb; omega) hc h2
  | getScan _ ih =>
    simp only [Prog.traceFrom, World.wellOwned]
    exact ih _ _ _ _ _ _ _ _ ha hb (by simp; omega) (hcov.acqScan _)
  | putScan _ ih =>
    cases hs with
    | nil => simp at hc
    | cons o hs' =>
      obtain ⟨h1, h2⟩ := hcov.relScan
      simp only [Prog.traceFrom, World.wellOwned, h1, Bool.true_and]
      exact ih _ _ _ _ _ _ _ ha hb (by simp at hc; omega) h2
  | cache _ ih =>
    simp only [Prog.traceFrom, World.wellOwned]
    exact ih _ _ _ _ _ _ _ ha hb hc hcov
  | tau _ ih =>
    simp only [Prog.traceFrom, World.wellOwned]
    exact ih _ _ _ _ _ _ _ ha hb hc hcov

theorem Call.trace_wellOwned (c : Call) (L : Leftovers) (hL : L.Inv) (idOf : PoolId → Nat → Nat) :
    wellOwned [] (c.trace L idOf) = true := by
  simp only [Call.trace, World.wellOwned]
  exact SatI.wellOwned (Call.prog_sat c) L hL idOf 0 0 0 [] [] [] []
    (Nat.le_refl _) (Nat.le_refl _) (Nat.le_refl _) Cov.nil

end World
end JP
