import JP.Lemmas.OrderOps

/-!
# Frame laws: what an operation does not address keeps its value

`resolve neg d q` is the value at the RFC 6901 pointer `q` (decoded tokens) of `d`: object
members by name, array elements by canonical index (`readIdx`, the specification's own index
reader, so `neg` = the option SupportNegativeIndices).

Core (`atParent_at_prefix`): a walk along `c ++ a :: p'` whose prefix `c` reaches an object
leaves an object at `c` whose members other than `a` are untouched, whose names are the same
list when the walk goes deeper (`p' ≠ []`), and which is `f` applied to the old object when the
walk ends there.  The frame law for incomparable pointers follows.
-/

namespace JP
namespace Spec
open Value

/-- one reference token -/
def child (neg : Bool) : Value → Bytes → Option Value
  | .obj ms, t => Value.lookup t ms
  | .arr xs, t =>
    match readIdx neg xs.length t with
    | .at i => xs[i]?
    | _ => none
  | _, _ => none

/-- the value at a pointer -/
def resolve (neg : Bool) : Value → List Bytes → Option Value
  | v, [] => some v
  | v, t :: ts => (child neg v t).bind fun c => resolve neg c ts

theorem resolve_nil (neg : Bool) (v : Value) : resolve neg v [] = some v := rfl

theorem resolve_cons (neg : Bool) (v : Value) (t : Bytes) (ts : List Bytes) :
    resolve neg v (t :: ts) = (child neg v t).bind fun c => resolve neg c ts := rfl

theorem child_obj (neg : Bool) (ms : Members) (t : Bytes) : child neg (.obj ms) t = Value.lookup t ms := rfl

theorem child_arr_at {neg : Bool} {xs : List Value} {t : Bytes} {i : Nat}
    (h : readIdx neg xs.length t = .at i) : child neg (.arr xs) t = xs[i]? := by
  simp only [child, h]

theorem resolve_append (neg : Bool) : ∀ (c q : List Bytes) (v : Value),
    resolve neg v (c ++ q) = (resolve neg v c).bind fun w => resolve neg w q
  | [], q, v => by simp [resolve_nil]
  | t :: c, q, v => by
    rw [List.cons_append, resolve_cons, resolve_cons]
    cases child neg v t with
    | none => rfl
    | some w => simp only [Option.bind_some]; exact resolve_append neg c q w

/-- every container on the way to `q` (the proper prefixes of `q`) is an object -/
def objPath (neg : Bool) (d : Value) (q : List Bytes) : Prop :=
  ∀ c x rest, q = c ++ x :: rest → ∃ ms, resolve neg d c = some (.obj ms)

/-- an edit of an object touches only the addressed member and returns an object -/
def ObjLocal {α : Type} (f : Value → Bytes → Res (Value × α)) : Prop :=
  ∀ ms t p' a, f (.obj ms) t = .ok (p', a) →
    ∃ ms', p' = .obj ms' ∧ ∀ b, b ≠ t → Value.lookup b ms' = Value.lookup b ms

theorem objLocal_addIn (o : Opts) (v : Value) : ObjLocal (addIn o v) := by
  intro ms t p' a h
  rw [addIn_obj] at h; cases h
  exact ⟨_, rfl, fun b hb => lookup_set_other hb v ms⟩

theorem objLocal_removeIn (o : Opts) : ObjLocal (removeIn o) := by
  intro ms t p' a h
  obtain ⟨_, rfl⟩ := removeIn_obj_ok h
  exact ⟨_, rfl, fun b hb => lookup_erase_other hb ms⟩

theorem objLocal_replaceIn (o : Opts) (v : Value) : ObjLocal (replaceIn o v) := by
  intro ms t p' a h
  obtain ⟨_, rfl⟩ := replaceIn_obj_ok h
  exact ⟨_, rfl, fun b hb => lookup_set_other hb v ms⟩

theorem objLocal_getIn (o : Opts) (b : Bool) : ObjLocal (getIn o b) := by
  intro ms t p' a h
  rw [getIn_ok h]
  exact ⟨_, rfl, fun _ _ => rfl⟩

variable {α : Type} {o : Opts} {f : Value → Bytes → Res (Value × α)}

theorem exists_cons_of_append_cons {β} (c : List β) (a : β) (p' : List β) :
    ∃ t2 ts, c ++ a :: p' = t2 :: ts := by
  cases c with
  | nil => exact ⟨a, p', rfl⟩
  | cons x c => exact ⟨x, c ++ a :: p', rfl⟩

/-- the container at a prefix of the walk: still an object, only the member on the walk may
have changed, its names are the same list unless the edit happens in this very object -/
theorem atParent_at_prefix (hf : ObjLocal f) {a : Bytes} {p' : List Bytes} {r : α} {ms : Members} :
    ∀ (c : List Bytes) (d d' : Value), atParent o f d (c ++ a :: p') = .ok (d', r) →
      resolve o.neg d c = some (.obj ms) →
      ∃ ms', resolve o.neg d' c = some (.obj ms') ∧
        (∀ b, b ≠ a → Value.lookup b ms' = Value.lookup b ms) ∧
        (p' ≠ [] → keys ms' = keys ms) ∧
        (p' = [] → f (.obj ms) a = .ok (.obj ms', r))
  | [], d, d', h, hres => by
    rw [resolve_nil] at hres; cases hres
    rw [List.nil_append] at h
    cases p' with
    | nil =>
      rw [atParent_single_obj] at h
      obtain ⟨ms', rfl, hfr⟩ := hf ms a d' r h
      exact ⟨ms', rfl, hfr, fun hne => absurd rfl hne, fun _ => h⟩
    | cons t2 ts =>
      obtain ⟨ch, c', hl, _, rfl⟩ := atParent_obj_cons_ok h
      refine ⟨_, rfl, fun b hb => lookup_set_other hb c' ms, fun _ => ?_, fun hne => by cases hne⟩
      exact keys_set_present a c' ms (by simp [hl])
  | t :: c, d, d', h, hres => by
    obtain ⟨t2, ts, hts⟩ := exists_cons_of_append_cons c a p'
    rw [List.cons_append, hts] at h
    rw [resolve_cons] at hres
    cases d with
    | obj ms0 =>
      obtain ⟨ch, c', hl, hrec, rfl⟩ := atParent_obj_cons_ok h
      rw [child_obj, hl, Option.bind_some] at hres
      rw [← hts] at hrec
      obtain ⟨ms', h1, h2⟩ := atParent_at_prefix hf c ch c' hrec hres
      refine ⟨ms', ?_, h2⟩
      rw [resolve_cons, child_obj, lookup_set_self, Option.bind_some]; exact h1
    | arr xs =>
      obtain ⟨i, ch, c', hr, hx, hrec, rfl⟩ := atParent_arr_cons_ok h
      rw [child_arr_at hr, hx, Option.bind_some] at hres
      rw [← hts] at hrec
      obtain ⟨ms', h1, h2⟩ := atParent_at_prefix hf c ch c' hrec hres
      refine ⟨ms', ?_, h2⟩
      have hr' : readIdx o.neg (setAt i c' xs).length t = .at i := by rw [length_setAt]; exact hr
      rw [resolve_cons, child_arr_at hr', getElem?_setAt_self c' (readIdx_lt hr), Option.bind_some]
      exact h1
    | null => simp [child] at hres
    | bool _ => simp [child] at hres
    | num _ => simp [child] at hres
    | str _ => simp [child] at hres

/-! ### the generic argument: from stability at the prefixes of the edited pointer -/

/-- `d'` arises from `d` by an edit at pointer `p`: every object on the way is still an
object and only its member on the way may have changed -/
def Stable (neg : Bool) (d d' : Value) (p : List Bytes) : Prop :=
  ∀ c a p' ms, p = c ++ a :: p' → resolve neg d c = some (.obj ms) →
    ∃ ms', resolve neg d' c = some (.obj ms') ∧ ∀ b, b ≠ a → Value.lookup b ms' = Value.lookup b ms

theorem stable_refl (neg : Bool) (d : Value) (p : List Bytes) : Stable neg d d p :=
  fun _ _ _ ms _ h => ⟨ms, h, fun _ _ => rfl⟩

theorem stable_atParent (hf : ObjLocal f) {p : List Bytes} {r : α} {d d' : Value}
    (h : atParent o f d p = .ok (d', r)) : Stable o.neg d d' p := by
  intro c a p' ms hp hres
  subst hp
  obtain ⟨ms', h1, h2, _⟩ := atParent_at_prefix hf c d d' h hres
  exact ⟨ms', h1, h2⟩

/-- frame law, pointers that part at an object: nothing below the other member changes -/
theorem frame_diverge {neg : Bool} {d d' : Value} {a b : Bytes} {c p' q' : List Bytes} {ms : Members}
    (hst : Stable neg d d' (c ++ a :: p')) (hab : a ≠ b) (hres : resolve neg d c = some (.obj ms)) :
    resolve neg d' (c ++ b :: q') = resolve neg d (c ++ b :: q') := by
  obtain ⟨ms', h1, h2⟩ := hst c a p' ms rfl hres
  rw [resolve_append, resolve_append, h1, hres]
  simp only [Option.bind_some, resolve_cons, child_obj]
  rw [h2 b (Ne.symm hab)]

/-! ### incomparable pointers -/

/-- neither pointer is a prefix of the other -/
def Incomparable (p q : List Bytes) : Prop := ¬ p <+: q ∧ ¬ q <+: p

theorem diverge_of_incomparable : ∀ (p q : List Bytes), Incomparable p q →
    ∃ c a b p' q', p = c ++ a :: p' ∧ q = c ++ b :: q' ∧ a ≠ b
  | [], q, h => absurd (List.nil_prefix) h.1
  | a :: p, [], h => absurd (List.nil_prefix) h.2
  | a :: p, b :: q, h => by
    by_cases hab : a = b
    · subst hab
      have h' : Incomparable p q := by
        constructor
        · intro hp; exact h.1 (List.cons_prefix_cons.2 ⟨rfl, hp⟩)
        · intro hp; exact h.2 (List.cons_prefix_cons.2 ⟨rfl, hp⟩)
      obtain ⟨c, a', b', p', q', hp, hq, hne⟩ := diverge_of_incomparable p q h'
      exact ⟨a :: c, a', b', p', q', by rw [hp]; rfl, by rw [hq]; rfl, hne⟩
    · exact ⟨[], a, b, p, q, rfl, rfl, hab⟩

theorem incomparable_of_diverge {c : List Bytes} {a b : Bytes} {p' q' : List Bytes} (hab : a ≠ b) :
    Incomparable (c ++ a :: p') (c ++ b :: q') := by
  constructor
  · intro h
    rw [List.prefix_append_right_inj, List.cons_prefix_cons] at h
    exact hab h.1
  · intro h
    rw [List.prefix_append_right_inj, List.cons_prefix_cons] at h
    exact hab h.1.symm

theorem objPath_prefix {neg : Bool} {d : Value} {c rest : List Bytes} (h : objPath neg d (c ++ rest)) :
    objPath neg d c := by
  intro c1 x r hc
  exact h c1 x (r ++ rest) (by rw [hc]; simp)

/-- frame law: a location whose pointer is incomparable with the edited pointer and is
reached through objects keeps its value -/
theorem frame_of_stable {neg : Bool} {d d' : Value} {p q : List Bytes}
    (hst : Stable neg d d' p) (hinc : Incomparable p q) (hobj : objPath neg d q) :
    resolve neg d' q = resolve neg d q := by
  obtain ⟨c, a, b, p', q', rfl, rfl, hab⟩ := diverge_of_incomparable p q hinc
  obtain ⟨ms, hms⟩ := hobj c b q' rfl
  exact frame_diverge hst hab hms

/-- a pointer that does not pass through the edited location is still reached through objects -/
theorem objPath_of_stable {neg : Bool} {d d' : Value} {p q : List Bytes}
    (hst : Stable neg d d' p) (hnp : ¬ p <+: q) (hobj : objPath neg d q) : objPath neg d' q := by
  intro c1 x rest hq
  obtain ⟨ms1, hms1⟩ := hobj c1 x rest hq
  have hnp1 : ¬ p <+: c1 := fun hp => hnp (hq ▸ hp.trans (List.prefix_append _ _))
  by_cases hcp : c1 <+: p
  · obtain ⟨r, rfl⟩ := hcp
    cases r with
    | nil => exact absurd (by simp) hnp1
    | cons a p' =>
      obtain ⟨ms', h1, _⟩ := hst c1 a p' ms1 rfl hms1
      exact ⟨ms', h1⟩
  · refine ⟨ms1, ?_⟩
    rw [frame_of_stable hst ⟨hnp1, hcp⟩ (objPath_prefix (hq ▸ hobj))]
    exact hms1

/-- an object elsewhere (the edited pointer does not pass through it and it is not inside
the edited location) is the same object -/
theorem resolve_of_stable_elsewhere {neg : Bool} {d d' : Value} {p c : List Bytes}
    (hst : Stable neg d d' p) (hinc : Incomparable p c) (hobj : objPath neg d c) :
    resolve neg d' c = resolve neg d c ∧ objPath neg d' c :=
  ⟨frame_of_stable hst hinc hobj, objPath_of_stable hst hinc.1 hobj⟩

/-- frame law for a walk -/
theorem frame_atParent (hf : ObjLocal f) {p q : List Bytes} {r : α} {d d' : Value}
    (h : atParent o f d p = .ok (d', r)) (hinc : Incomparable p q) (hobj : objPath o.neg d q) :
    resolve o.neg d' q = resolve o.neg d q ∧ objPath o.neg d' q :=
  resolve_of_stable_elsewhere (stable_atParent hf h) hinc hobj

end Spec
end JP
