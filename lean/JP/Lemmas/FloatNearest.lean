import JP.Lemmas.FloatRound

/-!
# `roundRat` returns a float NEAREST to `N / D` among ALL finite floats of the format

Every finite float is an integer number of units `2^qmin` (`FP.ulps`); `N / D` is `A / D` such units with
`A = N · 2^(bias + mb - 1)`.  Distances are compared after multiplying by `D`:
`|A - ulps x · D| ≤ |A - ulps y · D|` for every finite float `y`.
-/

namespace JP
namespace Codec
namespace Float

/-- `|m - n|` -/
def adiff (m n : Nat) : Nat := (m - n) + (n - m)

theorem adiff_mul_right (m n c : Nat) : adiff (m * c) (n * c) = adiff m n * c := by
  unfold adiff
  rw [Nat.add_mul, Nat.sub_mul, Nat.sub_mul]

/-- value of a finite float in units of `2^qmin` -/
def ulps (bits : Nat) (y : FP) : Nat := y.sig bits * 2 ^ ((if y.exp = 0 then 1 else y.exp) - 1)

/-- a nearest integer is nearest among all integers -/
theorem nearest_int (a b S : Nat) (h1 : 2 * (S * b) ≤ 2 * a + b) (h2 : 2 * a ≤ 2 * (S * b) + b) (k : Nat) :
    adiff a (S * b) ≤ adiff a (k * b) := by
  unfold adiff
  rcases Nat.lt_trichotomy k S with hk | hk | hk
  · have : (k + 1) * b ≤ S * b := Nat.mul_le_mul_right b hk
    rw [Nat.add_mul] at this
    omega
  · subst hk; omega
  · have : (S + 1) * b ≤ k * b := Nat.mul_le_mul_right b hk
    rw [Nat.add_mul] at this
    omega

/-- the same after rescaling by `2^j` and changing the denominator: `A / D = a · 2^j / b` -/
theorem near_mult (A D a b S j : Nat) (hb : 0 < b) (hrel : A * b = a * 2 ^ j * D)
    (h1 : 2 * (S * b) ≤ 2 * a + b) (h2 : 2 * a ≤ 2 * (S * b) + b) (k : Nat) :
    adiff A (S * 2 ^ j * D) ≤ adiff A (k * 2 ^ j * D) := by
  apply Nat.le_of_mul_le_mul_right _ hb
  rw [← adiff_mul_right, ← adiff_mul_right, hrel]
  have e : ∀ t : Nat, t * 2 ^ j * D * b = t * b * (2 ^ j * D) := by
    intro t; simp only [Nat.mul_assoc, Nat.mul_comm, Nat.mul_left_comm]
  have e' : a * 2 ^ j * D = a * (2 ^ j * D) := Nat.mul_assoc _ _ _
  rw [e S, e k, e', adiff_mul_right, adiff_mul_right]
  exact Nat.mul_le_mul_right _ (nearest_int a b S h1 h2 k)

/-- `N / D` in units of `2^qmin` is `a · 2^j / b`, when `a / b = N / D / 2^q` and `q = qmin + j` -/
theorem scaled_units (N D : Nat) (Kq : Nat) (j : Nat) :
    (N * 2 ^ Kq) * (scaled N D ((j : Int) - (Kq : Int))).2
      = (scaled N D ((j : Int) - (Kq : Int))).1 * 2 ^ j * D := by
  unfold scaled
  by_cases h : (j : Int) - (Kq : Int) ≥ 0
  · simp only [h, if_true]
    have : j = ((j : Int) - (Kq : Int)).toNat + Kq := by omega
    conv => rhs; rw [this, Nat.pow_add]
    simp only [Nat.mul_assoc, Nat.mul_comm, Nat.mul_left_comm]
  · simp only [h, if_false]
    have : Kq = (-((j : Int) - (Kq : Int))).toNat + j := by omega
    conv => lhs; rw [this, Nat.pow_add]
    simp only [Nat.mul_assoc, Nat.mul_comm, Nat.mul_left_comm]

theorem roundRat_nearest (bits N D : Nat) (hN : 0 < N) (hD : 0 < D)
    (hno : (roundRat bits N D).2.2 = false) (y : FP) (hy : y.wf bits = true) :
    adiff (N * 2 ^ (bias bits + mantBits bits - 1))
        (ulps bits ⟨false, (roundRat bits N D).1, (roundRat bits N D).2.1⟩ * D)
      ≤ adiff (N * 2 ^ (bias bits + mantBits bits - 1)) (ulps bits y * D) := by
  obtain ⟨S, q, a, b, hab, hb, hq, hU, hL, h1, h2, _, hres⟩ := roundRat_spec bits N D hN hD
  rcases hres with ⟨hov, _, _⟩ | ⟨_, hwf, hlt, hqe, hval⟩
  · rw [hov] at hno; simp at hno
  · have hbias : 1 ≤ bias bits := by unfold bias; split <;> omega
    have hmb1 : 1 ≤ mantBits bits := by unfold mantBits; split <;> omega
    generalize hx : (FP.mk false (roundRat bits N D).1 (roundRat bits N D).2.1) = x at *
    generalize hKq : bias bits + mantBits bits - 1 = Kq
    -- q = j - Kq
    obtain ⟨j, hj⟩ : ∃ j : Nat, q = (j : Int) - (Kq : Int) := ⟨(q + (Kq : Int)).toNat, by omega⟩
    have hrel : (N * 2 ^ Kq) * b = a * 2 ^ j * D := by
      have := scaled_units N D Kq j
      rw [← hj, ← hab] at this
      exact this
    -- the result in units
    have hxu : ulps bits x = S * 2 ^ j := by
      unfold ulps
      simp only [FP.qexp] at hqe hval
      generalize hex : (if x.exp = 0 then 1 else x.exp) = ex at *
      have hsplit : ex - 1 = ((ex : Int) - ((bias bits + mantBits bits : Nat) : Int) - q).toNat + j := by omega
      rw [hsplit, Nat.pow_add, ← Nat.mul_assoc, hval]
    rw [hxu]
    -- the other float in units
    unfold FP.wf at hy
    simp only [Bool.and_eq_true, decide_eq_true_eq] at hy
    have hsy : y.sig bits < 2 ^ (mantBits bits + 1) := by
      unfold FP.sig
      rw [Nat.pow_succ]
      split <;> omega
    generalize hey : (if y.exp = 0 then 1 else y.exp) - 1 = ey
    by_cases hc : j ≤ ey
    · -- a multiple of 2^j
      have : ulps bits y = y.sig bits * 2 ^ (ey - j) * 2 ^ j := by
        unfold ulps
        rw [hey, Nat.mul_assoc, ← Nat.pow_add]
        congr 2; omega
      rw [this]
      exact near_mult _ D a b S j hb hrel h1 h2 _
    · -- below the binade: even 2^mb · 2^j is at least as far
      have hj1 : 1 ≤ j := by omega
      have hQ : 2 ^ mantBits bits ≤ a / b := by
        rcases hL with h | h
        · exact h
        · omega
      have hab2 : 2 ^ mantBits bits * b ≤ a := (Nat.le_div_iff_mul_le hb).1 hQ
      have hyle : ulps bits y ≤ 2 ^ mantBits bits * 2 ^ j := by
        unfold ulps
        rw [hey]
        have e1 : 2 ^ mantBits bits * 2 ^ j = 2 ^ (mantBits bits + 1) * 2 ^ (j - 1) := by
          rw [← Nat.pow_add, ← Nat.pow_add]; congr 1; omega
        rw [e1]
        calc y.sig bits * 2 ^ ey ≤ 2 ^ (mantBits bits + 1) * 2 ^ ey :=
              Nat.mul_le_mul_right _ (Nat.le_of_lt hsy)
          _ ≤ 2 ^ (mantBits bits + 1) * 2 ^ (j - 1) :=
              Nat.mul_le_mul_left _ (Nat.pow_le_pow_right (by omega) (by omega))
      have hA : 2 ^ mantBits bits * 2 ^ j * D ≤ N * 2 ^ Kq := by
        apply Nat.le_of_mul_le_mul_right _ hb
        rw [hrel]
        calc 2 ^ mantBits bits * 2 ^ j * D * b = 2 ^ mantBits bits * b * 2 ^ j * D := by
              simp only [Nat.mul_assoc, Nat.mul_comm, Nat.mul_left_comm]
          _ ≤ a * 2 ^ j * D := Nat.mul_le_mul_right _ (Nat.mul_le_mul_right _ hab2)
      have hstep := near_mult _ D a b S j hb hrel h1 h2 (2 ^ mantBits bits)
      have hyD : ulps bits y * D ≤ 2 ^ mantBits bits * 2 ^ j * D := Nat.mul_le_mul_right _ hyle
      refine Nat.le_trans hstep ?_
      unfold adiff
      omega

end Float
end Codec
end JP
