import JP.Lemmas.LegacyMerge
import JP.Lemmas.LegacyRespell
import JP.Lemmas.CloseMergeGood
import JP.Lemmas.EqvLaws

/-!
# Legacy package: the text invariant of merge results (byte-level closure of C19)

`Legacy.GoodN d n`: every raw message inside the legacy node `n` is a well-formed syntax tree
(`WFC`), every member name of a parsed object is valid UTF-8 and what `cstOf` prints nests at most
`d` deep.  The invariant holds for freshly parsed input, is preserved by the legacy `merge` /
`mergeDocs` / `pruneNulls` (either `mergeMerge` flag, no duplicate-freeness needed) and implies that
what `json.Marshal` prints (`cstOf`: members sorted by name, names spelled by the standard library's
encoder `quoteBodyStd`) is well-formed, within the nesting limit, duplicate-free, and denotes
`den n` up to member order.

(The sorting lemmas repeat, with a `_C` suffix, a few facts of `JP/Lemmas/LegacyMarshal.lean`, which
belongs to the lemma family of the engine proofs and cannot be imported here.)
-/

namespace JP
namespace Legacy
open Value
open Impl (GC GCL GCM GCL_cons GCM_cons GC_obj GC_arr GC_litNull GC_of_parse litNull hasKeyC)

/-! ### nodes -/

mutual
def GoodN : Nat → Node → Bool
  | _, .nil => true
  | _, .rawNil => true
  | d, .raw c => WFC c && decide (c.depth ≤ d)
  | d, .doc ob => decide (1 ≤ d) && GoodNM (d - 1) ob
  | _, .docNil => true
  | d, .ary ns => decide (1 ≤ d) && GoodNL (d - 1) ns
def GoodNM : Nat → NMembers → Bool
  | _, [] => true
  | d, (k, n) :: ms => isValidUtf8 k && GoodN d n && GoodNM d ms
def GoodNL : Nat → List Node → Bool
  | _, [] => true
  | d, n :: ns => GoodN d n && GoodNL d ns
end

theorem GoodN_nil (d : Nat) : GoodN d .nil = true := by simp [GoodN]
theorem GoodN_docNil (d : Nat) : GoodN d .docNil = true := by simp [GoodN]

theorem GoodN_raw (d : Nat) (c : Cst) : GoodN d (.raw c) = true ↔ GC d c := by
  simp [GoodN, GC]

theorem GoodNM_iff (d : Nat) : ∀ (ms : NMembers),
    GoodNM d ms = true ↔ ∀ kn ∈ ms, isValidUtf8 kn.1 = true ∧ GoodN d kn.2 = true
  | [] => by simp [GoodNM]
  | (k, n) :: ms => by
    simp only [GoodNM, Bool.and_eq_true, GoodNM_iff d ms, List.mem_cons, forall_eq_or_imp, and_assoc]

theorem GoodNL_iff (d : Nat) : ∀ (ns : List Node), GoodNL d ns = true ↔ ∀ n ∈ ns, GoodN d n = true
  | [] => by simp [GoodNL]
  | n :: ns => by simp only [GoodNL, Bool.and_eq_true, GoodNL_iff d ns, List.mem_cons, forall_eq_or_imp]

theorem GoodN_doc (d : Nat) (ob : NMembers) :
    GoodN d (.doc ob) = true ↔ 1 ≤ d ∧ GoodNM (d - 1) ob = true := by
  simp [GoodN]

theorem GoodN_ary (d : Nat) (ns : List Node) :
    GoodN d (.ary ns) = true ↔ 1 ≤ d ∧ GoodNL (d - 1) ns = true := by
  simp [GoodN]

/-! ### member-list operations keep the invariant -/

theorem mem_setN_C (k : Bytes) (n : Node) : ∀ (ob : NMembers) (x : Bytes × Node),
    x ∈ setN k n ob → x = (k, n) ∨ x ∈ ob
  | [], x, h => by simp only [setN, List.mem_singleton] at h; exact Or.inl h
  | (k', n') :: ms, x, h => by
    simp only [setN] at h
    split at h
    · rcases List.mem_cons.1 h with h | h
      · exact Or.inl h
      · exact Or.inr (List.mem_cons_of_mem _ h)
    · rcases List.mem_cons.1 h with h | h
      · exact Or.inr (h ▸ List.mem_cons_self ..)
      · rcases mem_setN_C k n ms x h with h | h
        · exact Or.inl h
        · exact Or.inr (List.mem_cons_of_mem _ h)

theorem mem_eraseN_C (k : Bytes) : ∀ (ob : NMembers) (x : Bytes × Node), x ∈ eraseN k ob → x ∈ ob
  | [], _, h => by simp [eraseN] at h
  | (k', n') :: ms, x, h => by
    simp only [eraseN] at h
    split at h
    · exact List.mem_cons_of_mem _ h
    · rcases List.mem_cons.1 h with h | h
      · exact h ▸ List.mem_cons_self ..
      · exact List.mem_cons_of_mem _ (mem_eraseN_C k ms x h)

theorem GoodNM_setN (d : Nat) (k : Bytes) (n : Node) (ob : NMembers)
    (hk : isValidUtf8 k = true) (hn : GoodN d n = true) (ho : GoodNM d ob = true) :
    GoodNM d (setN k n ob) = true := by
  rw [GoodNM_iff] at ho ⊢
  intro x hx
  rcases mem_setN_C k n ob x hx with rfl | h
  · exact ⟨hk, hn⟩
  · exact ho x h

theorem GoodNM_eraseN (d : Nat) (k : Bytes) (ob : NMembers) (ho : GoodNM d ob = true) :
    GoodNM d (eraseN k ob) = true := by
  rw [GoodNM_iff] at ho ⊢
  exact fun x hx => ho x (mem_eraseN_C k ob x hx)

theorem GoodNM_filter (d : Nat) (p : Bytes × Node → Bool) (ob : NMembers) (ho : GoodNM d ob = true) :
    GoodNM d (ob.filter p) = true := by
  rw [GoodNM_iff] at ho ⊢
  exact fun x hx => ho x (List.mem_filter.1 hx).1

theorem GoodN_of_lookupN (d : Nat) (k : Bytes) (n : Node) (ob : NMembers) (ho : GoodNM d ob = true)
    (h : lookupN k ob = some n) : GoodN d n = true :=
  ((GoodNM_iff d ob).1 ho _ (lookupN_memL h)).2

/-! ### decoding one level -/

theorem GoodN_childOf (d : Nat) (c : Cst) (h : GC d c) : GoodN d (childOf c) = true := by
  simp only [childOf]
  split
  · exact GoodN_nil d
  · exact (GoodN_raw d c).2 h

theorem GoodNM_decodeMembers (d : Nat) : ∀ (ms : List (Bytes × Cst)) (acc : NMembers),
    GCM d ms → GoodNM d acc = true → GoodNM d (decodeMembers ms acc) = true
  | [], acc, _, ha => by simpa [decodeMembers] using ha
  | (k, v) :: ms, acc, hm, ha => by
    rw [GCM_cons] at hm
    simp only [decodeMembers]
    exact GoodNM_decodeMembers d ms _ hm.2.2
      (GoodNM_setN d _ _ acc (isValidUtf8_unquote k) (GoodN_childOf d v hm.2.1) ha)

theorem GoodN_decodeDoc (d : Nat) (ms : List (Bytes × Cst)) (h : GC d (.obj ms)) :
    GoodN d (decodeDoc ms) = true := by
  rw [GC_obj] at h
  simp only [decodeDoc, GoodN_doc]
  exact ⟨h.1, GoodNM_decodeMembers (d - 1) ms [] h.2 rfl⟩

theorem GoodNL_map_childOf (d : Nat) : ∀ (xs : List Cst), GCL d xs → GoodNL d (xs.map childOf) = true
  | [], _ => rfl
  | x :: xs, h => by
    rw [GCL_cons] at h
    simp only [List.map_cons, GoodNL, Bool.and_eq_true]
    exact ⟨GoodN_childOf d x h.1, GoodNL_map_childOf d xs h.2⟩

theorem GoodN_decodeAry (d : Nat) (xs : List Cst) (h : GC d (.arr xs)) :
    GoodN d (decodeAry xs) = true := by
  rw [GC_arr] at h
  simp only [decodeAry, GoodN_ary]
  exact ⟨h.1, GoodNL_map_childOf (d - 1) xs h.2⟩

/-! ### `pruneC`, `pruneN` -/

theorem pruneC_nonobj_C (c : Cst) (h : c.isObj = false) :
    pruneC c = if c.isNullLit then .docNil else .raw c := by
  cases c <;> simp [pruneC, Cst.isObj] at h ⊢

mutual
theorem GoodN_pruneC : ∀ (c : Cst) (d : Nat), GC d c → GoodN d (pruneC c) = true
  | .lit s, d, h => by
    rw [pruneC_nonobj_C _ rfl]; split
    · exact GoodN_docNil d
    · exact (GoodN_raw d _).2 h
  | .str s, d, h => by
    rw [pruneC_nonobj_C _ rfl]; split
    · exact GoodN_docNil d
    · exact (GoodN_raw d _).2 h
  | .arr xs, d, h => by
    rw [pruneC_nonobj_C _ rfl]; split
    · exact GoodN_docNil d
    · exact (GoodN_raw d _).2 h
  | .obj ms, d, h => by
    rw [GC_obj] at h
    simp only [pruneC, GoodN_doc]
    exact ⟨h.1, GoodNM_filter _ _ _ (GoodNM_pruneCM ms [] (d - 1) h.2 rfl)⟩
theorem GoodNM_pruneCM : ∀ (ms : List (Bytes × Cst)) (acc : NMembers) (d : Nat), GCM d ms →
    GoodNM d acc = true → GoodNM d (pruneCM ms acc) = true
  | [], acc, _, _, ha => by simpa [pruneCM] using ha
  | (k, v) :: ms, acc, d, h, ha => by
    rw [GCM_cons] at h
    simp only [pruneCM]
    refine GoodNM_pruneCM ms _ d h.2.2 (GoodNM_setN d _ _ acc (isValidUtf8_unquote k) ?_ ha)
    split
    · exact GoodN_nil d
    · exact GoodN_pruneC v d h.2.1
end

mutual
theorem GoodN_pruneN : ∀ (n : Node) (d : Nat), GoodN d n = true → GoodN d (pruneN n) = true
  | .nil, _, _ => by simp [pruneN, GoodN]
  | .rawNil, _, _ => by simp [pruneN, GoodN]
  | .raw c, d, h => by
    simp only [pruneN]
    exact GoodN_pruneC c d ((GoodN_raw d c).1 h)
  | .doc ob, d, h => by
    rw [GoodN_doc] at h
    simp only [pruneN, GoodN_doc]
    exact ⟨h.1, GoodNM_filter _ _ _ (GoodNM_pruneNM ob (d - 1) h.2)⟩
  | .ary ns, _, h => by simpa [pruneN] using h
  | .docNil, _, _ => by simp [pruneN, GoodN]
theorem GoodNM_pruneNM : ∀ (ms : NMembers) (d : Nat), GoodNM d ms = true → GoodNM d (pruneNM ms) = true
  | [], _, _ => rfl
  | (k, n) :: ms, d, h => by
    simp only [GoodNM, Bool.and_eq_true] at h
    have ih := GoodNM_pruneNM ms d h.2
    cases n with
    | nil => simp only [pruneNM, GoodNM, Bool.and_eq_true]; exact ⟨⟨h.1.1, GoodN_nil d⟩, ih⟩
    | rawNil =>
      simp only [pruneNM, GoodNM, Bool.and_eq_true]; exact ⟨⟨h.1.1, GoodN_pruneN .rawNil d h.1.2⟩, ih⟩
    | raw c =>
      simp only [pruneNM, GoodNM, Bool.and_eq_true]; exact ⟨⟨h.1.1, GoodN_pruneN (.raw c) d h.1.2⟩, ih⟩
    | doc ob =>
      simp only [pruneNM, GoodNM, Bool.and_eq_true]; exact ⟨⟨h.1.1, GoodN_pruneN (.doc ob) d h.1.2⟩, ih⟩
    | docNil =>
      simp only [pruneNM, GoodNM, Bool.and_eq_true]; exact ⟨⟨h.1.1, GoodN_pruneN .docNil d h.1.2⟩, ih⟩
    | ary ns =>
      simp only [pruneNM, GoodNM, Bool.and_eq_true]; exact ⟨⟨h.1.1, GoodN_pruneN (.ary ns) d h.1.2⟩, ih⟩
end

/-! ### `mergeNC`, `mergeDocsC` (either flag) -/

theorem intoDoc_good (d : Nat) (cur : Node) (h : GoodN d cur = true) (ob : NMembers)
    (hi : intoDoc cur = .ok (.doc ob)) : 1 ≤ d ∧ GoodNM (d - 1) ob = true := by
  cases cur with
  | nil => simp [intoDoc] at hi
  | rawNil => simp [intoDoc] at hi
  | docNil => simp [intoDoc] at hi
  | ary ns => simp [intoDoc] at hi
  | doc ob' =>
    simp only [intoDoc, Impl.Outcome.ok.injEq, Node.doc.injEq] at hi
    subst hi
    exact (GoodN_doc d _).1 h
  | raw c =>
    cases c with
    | lit s => simp only [intoDoc] at hi; split at hi <;> cases hi
    | str s => simp [intoDoc, Cst.isNullLit] at hi
    | arr xs => simp [intoDoc, Cst.isNullLit] at hi
    | obj ms =>
      simp only [intoDoc, decodeDoc, Impl.Outcome.ok.injEq, Node.doc.injEq] at hi
      subst hi
      have := GoodN_decodeDoc d ms ((GoodN_raw d _).1 h)
      simpa only [decodeDoc, GoodN_doc] using this

theorem mergeNC_nonobj_shape (mm : Bool) (cur : Node) (pc : Cst) (ho : pc.isObj = false) (r : Node)
    (h : mergeNC mm cur pc = some r) :
    (∃ ob, intoDoc cur = .ok (.doc ob) ∧ r = .doc ob) ∨ r = .docNil ∨ r = .raw pc ∨ r = pruneC pc := by
  cases pc with
  | obj ms => simp [Cst.isObj] at ho
  | lit s =>
    simp only [mergeNC] at h
    split at h
    · rename_i ob hi
      split at h
      · simp only [Option.some.injEq] at h; exact Or.inl ⟨ob, hi, h.symm⟩
      · simp only [Option.some.injEq] at h; exact Or.inr (Or.inr (Or.inl h.symm))
    · split at h
      · simp only [Option.some.injEq] at h; exact Or.inr (Or.inl h.symm)
      · simp only [Option.some.injEq] at h; exact Or.inr (Or.inr (Or.inl h.symm))
    · simp only [Option.some.injEq] at h; exact Or.inr (Or.inr (Or.inr h.symm))
  | str s =>
    simp only [mergeNC] at h
    split at h
    · rename_i ob hi
      split at h
      · simp only [Option.some.injEq] at h; exact Or.inl ⟨ob, hi, h.symm⟩
      · simp only [Option.some.injEq] at h; exact Or.inr (Or.inr (Or.inl h.symm))
    · split at h
      · simp only [Option.some.injEq] at h; exact Or.inr (Or.inl h.symm)
      · simp only [Option.some.injEq] at h; exact Or.inr (Or.inr (Or.inl h.symm))
    · simp only [Option.some.injEq] at h; exact Or.inr (Or.inr (Or.inr h.symm))
  | arr xs =>
    simp only [mergeNC] at h
    split at h
    · rename_i ob hi
      split at h
      · simp only [Option.some.injEq] at h; exact Or.inl ⟨ob, hi, h.symm⟩
      · simp only [Option.some.injEq] at h; exact Or.inr (Or.inr (Or.inl h.symm))
    · split at h
      · simp only [Option.some.injEq] at h; exact Or.inr (Or.inl h.symm)
      · simp only [Option.some.injEq] at h; exact Or.inr (Or.inr (Or.inl h.symm))
    · simp only [Option.some.injEq] at h; exact Or.inr (Or.inr (Or.inr h.symm))

theorem GoodN_mergeNC_nonobj (mm : Bool) (cur : Node) (pc : Cst) (d : Nat) (ho : pc.isObj = false)
    (hc : GoodN d cur = true) (hp : GC d pc) (r : Node) (h : mergeNC mm cur pc = some r) :
    GoodN d r = true := by
  rcases mergeNC_nonobj_shape mm cur pc ho r h with ⟨ob, hi, rfl⟩ | rfl | rfl | rfl
  · exact (GoodN_doc d ob).2 (intoDoc_good d cur hc ob hi)
  · exact GoodN_docNil d
  · exact (GoodN_raw d pc).2 hp
  · exact GoodN_pruneC pc d hp

mutual
theorem GoodN_mergeNC (mm : Bool) : ∀ (p : Cst) (cur : Node) (d : Nat) (r : Node), GoodN d cur = true →
    GC d p → mergeNC mm cur p = some r → GoodN d r = true
  | .lit s, cur, d, r, hc, hp, h => GoodN_mergeNC_nonobj mm cur _ d rfl hc hp r h
  | .str s, cur, d, r, hc, hp, h => GoodN_mergeNC_nonobj mm cur _ d rfl hc hp r h
  | .arr xs, cur, d, r, hc, hp, h => GoodN_mergeNC_nonobj mm cur _ d rfl hc hp r h
  | .obj pms, cur, d, r, hc, hp, h => by
    have hp' := (GC_obj d pms).1 hp
    simp only [mergeNC] at h
    split at h
    · rename_i ob hi
      have hg := intoDoc_good d cur hc ob hi
      cases hm : mergeDocsC mm (some ob) pms with
      | none => rw [hm] at h; cases h
      | some ob' =>
        rw [hm] at h
        simp only [Option.map_some, Option.some.injEq] at h
        subst h
        rw [GoodN_doc]
        exact ⟨hp'.1, GoodNM_mergeDocsC mm pms (some ob) (d - 1) ob' hg.2 hp'.2 hm⟩
    · cases hm : mergeDocsC mm none pms with
      | none => rw [hm] at h; cases h
      | some ob' =>
        rw [hm] at h
        simp only [Option.map_some, Option.some.injEq] at h
        subst h
        exact GoodN_docNil d
    · simp only [Option.some.injEq] at h
      subst h
      exact GoodN_pruneC _ d hp
theorem GoodNM_mergeDocsC (mm : Bool) : ∀ (pms : List (Bytes × Cst)) (o : Option NMembers) (d : Nat)
    (ob' : NMembers), GoodNM d (o.getD []) = true → GCM d pms →
    mergeDocsC mm o pms = some ob' → GoodNM d ob' = true
  | [], o, d, ob', ho, _, h => by
    simp only [mergeDocsC, Option.some.injEq] at h
    subst h; exact ho
  | (k, v) :: pms, o, d, ob', ho, hp, h => by
    rw [GCM_cons] at hp
    have hu := isValidUtf8_unquote k
    have hfresh : GoodN d (if mm then .raw v else pruneC v) = true := by
      split
      · exact (GoodN_raw d v).2 hp.2.1
      · exact GoodN_pruneC v d hp.2.1
    simp only [mergeDocsC] at h
    split at h
    · exact GoodNM_mergeDocsC mm pms o d ob' ho hp.2.2 h
    · cases o with
      | none =>
        simp only at h
        split at h
        · exact GoodNM_mergeDocsC mm pms none d ob' ho hp.2.2 h
        · cases h
      | some ob =>
        simp only [Option.getD_some] at ho
        simp only at h
        split at h
        · refine GoodNM_mergeDocsC mm pms _ d ob' ?_ hp.2.2 h
          simp only [Option.getD_some]
          split
          · exact GoodNM_setN d _ .nil ob hu (GoodN_nil d) ho
          · exact GoodNM_eraseN d _ ob ho
        · split at h
          · refine GoodNM_mergeDocsC mm pms _ d ob' ?_ hp.2.2 h
            simp only [Option.getD_some]
            exact GoodNM_setN d _ _ ob hu hfresh ho
          · refine GoodNM_mergeDocsC mm pms _ d ob' ?_ hp.2.2 h
            simp only [Option.getD_some]
            exact GoodNM_setN d _ _ ob hu hfresh ho
          · rename_i cur _ hl
            split at h
            · rename_i n hn
              refine GoodNM_mergeDocsC mm pms _ d ob' ?_ hp.2.2 h
              simp only [Option.getD_some]
              exact GoodNM_setN d _ _ ob hu
                (GoodN_mergeNC mm v cur d n (GoodN_of_lookupN d _ cur ob ho hl) hp.2.1 hn) ho
            · cases h
end

/-! ### sorting by name (`json.Marshal` of a map) -/

theorem insertByName_perm_C {α} (k : Bytes) (a : α) :
    ∀ ms : List (Bytes × α), (insertByName k a ms).Perm ((k, a) :: ms)
  | [] => List.Perm.refl _
  | (k', a') :: ms => by
    simp only [insertByName]
    split
    · exact List.Perm.refl _
    · exact ((insertByName_perm_C k a ms).cons (k', a')).trans (List.Perm.swap (k, a) (k', a') ms)

theorem sortByName_perm_C {α} : ∀ ms : List (Bytes × α), (sortByName ms).Perm ms
  | [] => List.Perm.refl _
  | (k, a) :: ms =>
    (insertByName_perm_C k a (sortByName ms)).trans ((sortByName_perm_C ms).cons (k, a))

theorem mem_sortByName_C {α} {m : Bytes × α} {ms : List (Bytes × α)} : m ∈ sortByName ms ↔ m ∈ ms :=
  (sortByName_perm_C ms).mem_iff

theorem sortByName_keys_nodup_C {α} (ms : List (Bytes × α)) :
    ((sortByName ms).map Prod.fst).Nodup ↔ (ms.map Prod.fst).Nodup :=
  ((sortByName_perm_C ms).map Prod.fst).nodup_iff

theorem cstOfM_eq_map_C : ∀ ob : NMembers, cstOfM ob = ob.map fun p => (p.1, cstOf p.2)
  | [] => rfl
  | (k, n) :: ms => by simp only [cstOfM, List.map_cons, cstOfM_eq_map_C ms]

theorem cstOfL_eq_map_C : ∀ ns : List Node, cstOfL ns = ns.map cstOf
  | [] => rfl
  | n :: ns => by simp only [cstOfL, List.map_cons, cstOfL_eq_map_C ns]

/-- the members `json.Marshal` prints for a map -/
def printedM_C (ob : NMembers) : List (Bytes × Cst) :=
  (sortByName (cstOfM ob)).map fun m => (quoteBodyStd m.1, m.2)

theorem cstOf_doc_C (ob : NMembers) : cstOf (.doc ob) = .obj (printedM_C ob) := by
  simp only [cstOf, printedM_C]

theorem mem_printedM_C {ob : NMembers} {m : Bytes × Cst} :
    m ∈ printedM_C ob ↔ ∃ p ∈ ob, m = (quoteBodyStd p.1, cstOf p.2) := by
  simp only [printedM_C, List.mem_map, mem_sortByName_C, cstOfM_eq_map_C]
  constructor
  · rintro ⟨a, ⟨p, hp, rfl⟩, rfl⟩; exact ⟨p, hp, rfl⟩
  · rintro ⟨p, hp, rfl⟩; exact ⟨_, ⟨p, hp, rfl⟩, rfl⟩

/-! ### what `cstOf` prints for a good node is well-formed and within the depth limit -/

theorem GCM_iff (d : Nat) : ∀ (ms : List (Bytes × Cst)),
    GCM d ms ↔ ∀ m ∈ ms, validBody m.1 = true ∧ GC d m.2
  | [] => by simp [GCM, WFCM, Cst.depthM]
  | (k, v) :: ms => by
    rw [GCM_cons, GCM_iff d ms]
    simp only [List.mem_cons, forall_eq_or_imp, and_assoc]

theorem GCL_iff (d : Nat) : ∀ (xs : List Cst), GCL d xs ↔ ∀ x ∈ xs, GC d x
  | [] => by simp [GCL, WFCL, Cst.depthL]
  | x :: xs => by
    rw [GCL_cons, GCL_iff d xs]
    simp only [List.mem_cons, forall_eq_or_imp]

mutual
theorem GC_cstOf : ∀ (n : Node) (d : Nat), GoodN d n = true → GC d (cstOf n)
  | .nil, d, _ => by simp only [cstOf]; exact GC_litNull d
  | .rawNil, d, _ => by simp only [cstOf]; exact GC_litNull d
  | .docNil, d, _ => by simp only [cstOf]; exact GC_litNull d
  | .raw c, d, h => by
    have hc := (GoodN_raw d c).1 h
    simp only [cstOf]
    exact ⟨WFC_escape true c hc.1, by rw [depth_escape]; exact hc.2⟩
  | .doc ob, d, h => by
    rw [GoodN_doc] at h
    have hm := GC_cstOfM ob (d - 1) h.2
    rw [cstOf_doc_C, GC_obj]
    refine ⟨h.1, (GCM_iff _ _).2 ?_⟩
    intro m hmem
    obtain ⟨p, hp, rfl⟩ := mem_printedM_C.1 hmem
    exact ⟨(validBody_iff _).2 (VB_quoteBodyStd p.1), hm p hp⟩
  | .ary ns, d, h => by
    rw [GoodN_ary] at h
    simp only [cstOf]
    rw [GC_arr]
    exact ⟨h.1, GC_cstOfL ns (d - 1) h.2⟩
theorem GC_cstOfM : ∀ (ob : NMembers) (d : Nat), GoodNM d ob = true → ∀ p ∈ ob, GC d (cstOf p.2)
  | [], _, _ => by intro p hp; cases hp
  | (k, n) :: ms, d, h => by
    simp only [GoodNM, Bool.and_eq_true] at h
    intro p hp
    rcases List.mem_cons.1 hp with rfl | hp
    · exact GC_cstOf n d h.1.2
    · exact GC_cstOfM ms d h.2 p hp
theorem GC_cstOfL : ∀ (ns : List Node) (d : Nat), GoodNL d ns = true → GCL d (cstOfL ns)
  | [], _, _ => ⟨rfl, by simp [cstOfL, Cst.depthL]⟩
  | n :: ns, d, h => by
    simp only [GoodNL, Bool.and_eq_true] at h
    simp only [cstOfL]
    rw [GCL_cons]
    exact ⟨GC_cstOf n d h.1, GC_cstOfL ns d h.2⟩
end

/-- the output text of a good node parses back to the tree that was printed -/
theorem parse_print_cstOf (n : Node) (h : GoodN maxDepth n = true) :
    parseCst (Cst.print (cstOf n)) = some (cstOf n) :=
  parse_print _ (GC_cstOf n maxDepth h).1 (GC_cstOf n maxDepth h).2

/-! ### … it is duplicate-free and denotes `den n` up to member order -/

theorem valueOfM_eq_map_C : ∀ (ms : List (Bytes × Cst)),
    Cst.valueOfM ms = ms.map fun m => (unquote m.1, m.2.valueOf)
  | [] => rfl
  | (k, v) :: ms => by simp only [Cst.valueOfM, List.map_cons, valueOfM_eq_map_C ms]

theorem litNull_valueOf_C : litNull.valueOf = .null := by
  simp [litNull, Cst.valueOf, Cst.litValue]

theorem mem_valueOfM_printedM_C {ob : NMembers} (hq : ∀ p ∈ ob, isValidUtf8 p.1 = true)
    {k : Bytes} {v : Value} :
    (k, v) ∈ Cst.valueOfM (printedM_C ob) ↔ ∃ p ∈ ob, k = p.1 ∧ v = (cstOf p.2).valueOf := by
  rw [valueOfM_eq_map_C, List.mem_map]
  constructor
  · rintro ⟨m, hm, he⟩
    obtain ⟨p, hp, rfl⟩ := mem_printedM_C.1 hm
    simp only [Prod.mk.injEq] at he
    exact ⟨p, hp, by rw [← he.1]; exact unquote_quoteBodyStd_utf8 _ (hq p hp), he.2.symm⟩
  · rintro ⟨p, hp, rfl, rfl⟩
    exact ⟨_, mem_printedM_C.2 ⟨p, hp, rfl⟩, by
      simp only [Prod.mk.injEq, and_true]; exact unquote_quoteBodyStd_utf8 _ (hq p hp)⟩

theorem keys_valueOfM_printedM_C {ob : NMembers} (hq : ∀ p ∈ ob, isValidUtf8 p.1 = true) :
    (Cst.valueOfM (printedM_C ob)).map Prod.fst = (sortByName (cstOfM ob)).map Prod.fst := by
  rw [valueOfM_eq_map_C, printedM_C, List.map_map, List.map_map]
  apply List.map_congr_left
  intro m hm
  rw [mem_sortByName_C, cstOfM_eq_map_C, List.mem_map] at hm
  obtain ⟨p, hp, rfl⟩ := hm
  exact unquote_quoteBodyStd_utf8 _ (hq p hp)

theorem nodup_keys_printedM_C {ob : NMembers} (hq : ∀ p ∈ ob, isValidUtf8 p.1 = true)
    (hn : (ob.map Prod.fst).Nodup) : ((Cst.valueOfM (printedM_C ob)).map Prod.fst).Nodup := by
  rw [keys_valueOfM_printedM_C hq, sortByName_keys_nodup_C, cstOfM_eq_map_C, List.map_map]
  exact hn

/-- the value of a printed node: duplicate-free, and `den` up to member order -/
def SimC (x y : Value) : Prop := noDup x = true ∧ eqv x y = true

/-- the object case, from the statement for the members -/
theorem simC_printedM {ob : NMembers} (hn : (ob.map Prod.fst).Nodup)
    (hq : ∀ p ∈ ob, isValidUtf8 p.1 = true)
    (hs : ∀ p ∈ ob, SimC (cstOf p.2).valueOf (den p.2)) :
    SimC (.obj (Cst.valueOfM (printedM_C ob))) (.obj (denM ob)) := by
  have hx := nodup_keys_printedM_C hq hn
  have hxk : nodupKeys ((Cst.valueOfM (printedM_C ob)).map Prod.fst) = true := (nodupKeys_iffL _).2 hx
  have hyk : nodupKeys ((denM ob).map Prod.fst) = true := by
    rw [keys_denM]; exact (nodupKeys_iffL _).2 hn
  refine ⟨?_, ?_⟩
  · simp only [noDup, Bool.and_eq_true]
    refine ⟨hxk, (noDupM_iff _).2 ?_⟩
    intro k v hm
    obtain ⟨p, hp, _, rfl⟩ := (mem_valueOfM_printedM_C hq).1 hm
    exact (hs p hp).1
  · rw [eqv_obj_obj, Bool.and_eq_true, eqvM_iff, subKeys_iff]
    constructor
    · intro k v hm
      obtain ⟨p, hp, rfl, rfl⟩ := (mem_valueOfM_printedM_C hq).1 hm
      refine ⟨den p.2, ?_, (hs p hp).2⟩
      apply lookup_of_mem hyk
      rw [denM_eq_map]
      exact List.mem_map.2 ⟨p, hp, rfl⟩
    · intro k hk
      rw [lookup_isSome_iff, keys_denM] at hk
      obtain ⟨p, hp, rfl⟩ := List.mem_map.1 hk
      exact lookup_isSome_of_mem ((mem_valueOfM_printedM_C hq).2 ⟨p, hp, rfl, rfl⟩)

mutual
theorem cstOf_simC : ∀ (n : Node) (d : Nat), WF n = true → GoodN d n = true →
    SimC (cstOf n).valueOf (den n)
  | .nil, _, _, _ => by simp only [cstOf, den, litNull_valueOf_C]; exact ⟨rfl, rfl⟩
  | .rawNil, _, _, _ => by simp only [cstOf, den, litNull_valueOf_C]; exact ⟨rfl, rfl⟩
  | .docNil, _, h, _ => by simp [WF] at h
  | .raw c, d, h1, h2 => by
    have hc := (GoodN_raw d c).1 h2
    have hn : c.valueOf.noDup = true := by simpa [WF] using h1
    simp only [cstOf, den, valueOf_escape true c hc.1]
    exact ⟨hn, eqv_refl _ hn⟩
  | .doc ob, d, h1, h2 => by
    have hw := (WF_doc_iff ob).1 h1
    rw [GoodN_doc] at h2
    rw [cstOf_doc_C]
    simp only [Cst.valueOf, den]
    exact simC_printedM hw.1 (fun p hp => ((GoodNM_iff _ ob).1 h2.2 p hp).1)
      (cstOfM_simC ob (d - 1) hw.2 h2.2)
  | .ary ns, d, h1, h2 => by
    have hw : WFL ns = true := by simpa [WF] using h1
    rw [GoodN_ary] at h2
    obtain ⟨a, b⟩ := cstOfL_simC ns (d - 1) hw h2.2
    simp only [cstOf, Cst.valueOf, den]
    exact ⟨by simpa [noDup] using a, by simpa [eqv] using b⟩
theorem cstOfM_simC : ∀ (ob : NMembers) (d : Nat), WFM ob = true → GoodNM d ob = true →
    ∀ p ∈ ob, SimC (cstOf p.2).valueOf (den p.2)
  | [], _, _, _ => by intro p hp; cases hp
  | (k, n) :: ms, d, h1, h2 => by
    simp only [WFM, Bool.and_eq_true] at h1
    simp only [GoodNM, Bool.and_eq_true] at h2
    intro p hp
    rcases List.mem_cons.1 hp with rfl | hp
    · exact cstOf_simC n d h1.1 h2.1.2
    · exact cstOfM_simC ms d h1.2 h2.2 p hp
theorem cstOfL_simC : ∀ (ns : List Node) (d : Nat), WFL ns = true → GoodNL d ns = true →
    noDupL (Cst.valueOfL (cstOfL ns)) = true ∧ eqvL (Cst.valueOfL (cstOfL ns)) (denL ns) = true
  | [], _, _, _ => ⟨rfl, rfl⟩
  | n :: ns, d, h1, h2 => by
    simp only [WFL, Bool.and_eq_true] at h1
    simp only [GoodNL, Bool.and_eq_true] at h2
    obtain ⟨a, c⟩ := cstOf_simC n d h1.1 h2.1
    obtain ⟨a', c'⟩ := cstOfL_simC ns d h1.2 h2.2
    simp only [cstOfL, Cst.valueOfL, denL, noDupL, eqvL, Bool.and_eq_true]
    exact ⟨⟨a, a'⟩, c, c'⟩
end

/-! ### the node `doMergePatch` marshals is good -/

theorem GoodN_mergeTree (mm : Bool) (dc pc : Cst) (r : Node) (hd : GC maxDepth dc) (hp : GC maxDepth pc)
    (h : mergeTree mm dc pc = some r) : GoodN maxDepth r = true := by
  cases pc with
  | lit s => cases dc <;> simp [mergeTree] at h
  | str s => cases dc <;> simp [mergeTree] at h
  | arr xs =>
    have : r = decodeAry xs := by cases dc <;> simp [mergeTree] at h <;> exact h.symm
    subst this
    exact GoodN_decodeAry _ xs hp
  | obj pms =>
    have hdec : GoodN maxDepth (decodeDoc pms) = true := GoodN_decodeDoc _ pms hp
    have hprune : GoodN maxDepth (pruneN (decodeDoc pms)) = true := GoodN_pruneN _ _ hdec
    have hnon : ∀ dc' : Cst, dc'.isObj = false → mergeTree mm dc' (.obj pms) = some r →
        GoodN maxDepth r = true := by
      intro dc' hno hr
      cases dc' with
      | obj dms => simp [Cst.isObj] at hno
      | lit s =>
        simp only [mergeTree] at hr
        cases mm <;> simp only [Bool.false_eq_true, if_false, if_true, Option.some.injEq] at hr <;>
          subst hr <;> assumption
      | str s =>
        simp only [mergeTree] at hr
        cases mm <;> simp only [Bool.false_eq_true, if_false, if_true, Option.some.injEq] at hr <;>
          subst hr <;> assumption
      | arr xs =>
        simp only [mergeTree] at hr
        cases mm <;> simp only [Bool.false_eq_true, if_false, if_true, Option.some.injEq] at hr <;>
          subst hr <;> assumption
    cases dc with
    | lit s => exact hnon _ rfl h
    | str s => exact hnon _ rfl h
    | arr xs => exact hnon _ rfl h
    | obj dms =>
      simp only [mergeTree] at h
      cases hm : mergeDocsC mm (some (decodeMembers dms [])) pms with
      | none => rw [hm] at h; cases h
      | some ob' =>
        rw [hm] at h
        simp only [Option.map_some, Option.some.injEq] at h
        subst h
        have hd' := (GC_obj _ dms).1 hd
        have hp' := (GC_obj _ pms).1 hp
        rw [GoodN_doc]
        refine ⟨hp'.1, GoodNM_mergeDocsC mm pms _ (maxDepth - 1) ob' ?_ hp'.2 hm⟩
        simp only [Option.getD_some]
        exact GoodNM_decodeMembers _ dms [] hd'.2 rfl

end Legacy
end JP
