import JP.Lemmas.EngineCopy

/-!
# Engine lemmas, part 10: `remove` with AllowMissingPathOnRemove
-/

namespace JP
namespace Impl

open Spec (Res)

/-- the probe of `Spec.skipsRemove` at the parent -/
def skipG (so : Spec.Opts) (p : Value) (t : Bytes) : Res (Value × Bool) :=
  match p with
  | .obj ms => .ok (p, (Value.lookup t ms).isNone)
  | .arr xs =>
    match Spec.classify t with
    | .int i =>
      if 0 ≤ i then .ok (p, decide (xs.length ≤ i.toNat))
      else if !so.neg then .unspec
      else .ok (p, decide (i < -(xs.length : Int)))
    | _ => .unspec
  | _ => .ok (p, true)

theorem skipsRemove_eq (so : Spec.Opts) (doc : Value) (path : List Bytes) :
    Spec.skipsRemove so doc path =
      match Spec.atParent so (skipG so) doc path with
      | .ok pb => .ok pb.2
      | .fail _ => .ok true
      | .unspec => .unspec := by
  have h : Spec.skipsRemove so doc path =
      match Spec.atParent so (skipG so) doc path with
      | .ok (_, b) => .ok b
      | .fail _ => .ok true
      | .unspec => .unspec := rfl
  rw [h]
  cases Spec.atParent so (skipG so) doc path with
  | ok pb => obtain ⟨a, b⟩ := pb; rfl
  | fail c => rfl
  | unspec => rfl

theorem skipG_ne_fail (so : Spec.Opts) (p : Value) (t : Bytes) (c : Spec.Cause) :
    skipG so p t ≠ .fail c := by
  intro h
  cases p with
  | obj ms => simp only [skipG] at h; cases h
  | arr xs =>
    simp only [skipG] at h
    split at h
    · split at h
      · cases h
      · split at h <;> cases h
    · cases h
  | null => simp only [skipG] at h; cases h
  | bool b => simp only [skipG] at h; cases h
  | num l => simp only [skipG] at h; cases h
  | str s => simp only [skipG] at h; cases h

theorem spec_remove_allow {so : Spec.Opts} {sz acc : Nat} {doc : Value} {sop : Spec.Op}
    {t : Bytes} {ts : List Bytes}
    (hk : sop.kind = .remove) (hp : Spec.parsePointer sop.path = some (t :: ts))
    (ha : so.allowMissing = true) :
    Spec.applyOp so sz acc doc sop =
      match Spec.skipsRemove so doc (t :: ts) with
      | .ok true => .ok (doc, acc)
      | .ok false => (Spec.atParent so (Spec.removeIn so) doc (t :: ts)).bind fun vb => .ok (vb.1, acc)
      | .fail c => .fail c
      | .unspec => .unspec := by
  simp only [Spec.applyOp, hp, hk, ha, if_true]
  cases Spec.skipsRemove so doc (t :: ts) with
  | ok b => cases b <;> rfl
  | fail c => rfl
  | unspec => rfl

theorem classify_int {t : Bytes} {i : Int} (h : Spec.classify t = .int i) : atoi t = some i := by
  simp only [Spec.classify] at h
  split at h
  · cases h
  · cases ha : atoi t with
    | none => rw [ha] at h; cases h
    | some j =>
      rw [ha] at h
      simp only at h
      split at h
      · cases h; rfl
      · cases h

theorem classify_int_readIdx {neg : Bool} {n : Nat} {t : Bytes} {i : Int} (h : Spec.classify t = .int i) :
    Spec.readIdx neg n t =
      if 0 ≤ i then (if i.toNat < n then .at i.toNat else .bad)
      else if neg ∧ -(n : Int) ≤ i then .at (n - i.natAbs) else .bad := by
  simp only [Spec.readIdx, h]

/-- `remove` at the parent when missing paths are allowed -/
theorem conRemove_allow {o : Opts} {e : Bool} {pc : Node} {key : Bytes}
    (ha : o.allow = true) (h : Inv e pc) (hc : isCon pc = true) :
    match skipG (specOpts o) (den pc) key with
    | .ok pb =>
      if pb.2 then conRemove o pc key = .ok pc
      else ∃ p', Spec.removeIn (specOpts o) (den pc) key = .ok p'
    | _ => True := by
  cases pc with
  | doc keys obj =>
    rw [den_doc_inv h]
    simp only [skipG, Spec.removeIn, lookupN_denM]
    cases hl : lookupN key obj with
    | none => simp [conRemove, hl, ha]
    | some n => simp
  | ary ns =>
    rw [den_ary]
    simp only [skipG, Spec.removeIn, denL_length, specOpts_neg]
    cases hcl : Spec.classify key with
    | dash => trivial
    | name => trivial
    | noncanon => trivial
    | int i =>
      have hat := classify_int hcl
      have hrd := classify_int_readIdx (neg := o.neg) (n := ns.length) hcl
      simp only
      by_cases h0 : 0 ≤ i
      · rw [if_pos h0]
        by_cases h1 : ns.length ≤ i.toNat
        · have hge : i ≥ (ns.length : Int) := by omega
          simp [h1, conRemove, hat, hge, ha]
        · have hlt : i.toNat < ns.length := by omega
          rw [if_pos h0, if_pos hlt] at hrd
          simp only [h1, decide_false, Bool.false_eq_true, if_false, hrd]
          have : (denL ns)[i.toNat]? = some (den ns[i.toNat]) := by simp [denL_eq_map, hlt]
          rw [this]
          exact ⟨_, rfl⟩
      · rw [if_neg h0]
        cases hneg : o.neg with
        | false => simp
        | true =>
          simp only [Bool.not_true, Bool.false_eq_true, if_false]
          by_cases h1 : i < -(ns.length : Int)
          · have hge : ¬ i ≥ (ns.length : Int) := by omega
            have hlt : i < 0 := by omega
            simp [h1, conRemove, hat, hge, hlt, hneg, ha]
          · have hcond : (o.neg = true ∧ -(ns.length : Int) ≤ i) := ⟨hneg, by omega⟩
            rw [if_neg h0, hneg] at hrd
            simp only [true_and] at hrd
            rw [if_pos (by omega)] at hrd
            simp only [h1, decide_false, Bool.false_eq_true, if_false, hrd]
            have hlt : ns.length - i.natAbs < ns.length := by omega
            have : (denL ns)[ns.length - i.natAbs]? = some (den ns[ns.length - i.natAbs]) := by
              simp [denL_eq_map, hlt]
            rw [this]
            exact ⟨_, rfl⟩
  | nil => simp [isCon] at hc
  | raw c => simp [isCon] at hc
  | docNil => simp [isCon] at hc
  | nilAry => simp [isCon] at hc

theorem skipG_fst {so : Spec.Opts} {p : Value} {t : Bytes} {pb : Value × Bool}
    (h : skipG so p t = .ok pb) : pb.1 = p := by
  cases p with
  | obj ms => simp only [skipG] at h; cases h; rfl
  | arr xs =>
    simp only [skipG] at h
    split at h
    · split at h
      · cases h; rfl
      · split at h
        · cases h
        · cases h; rfl
    · cases h
  | null => simp only [skipG] at h; cases h; rfl
  | bool b => simp only [skipG] at h; cases h; rfl
  | num l => simp only [skipG] at h; cases h; rfl
  | str s => simp only [skipG] at h; cases h; rfl

theorem opRemove_refines_allow {o : Opts} {e : Bool} {r : Root} {op : Op} {sop : Spec.Op}
    (sz acc : Nat) (ha : o.allow = true) (hr : InvRoot e r)
    (hk : sop.kind = .remove) (hpath : sop.path = op.path) :
    OpRef e (Spec.applyOp (specOpts o) sz acc (den r.con) sop) (opRemove o r op) := by
  cases hp : Spec.parsePointer op.path with
  | none => simp only [Spec.applyOp, hpath, hp, hk, specOpts, ha, and_self, if_true, OpRef]
  | some toks =>
    cases toks with
    | nil => simp only [Spec.applyOp, hpath, hp, hk, OpRef]
    | cons t ts =>
      rw [spec_remove_allow hk (by rw [hpath]; exact hp) (by simp [specOpts, ha]), opRemove_eq,
        skipsRemove_eq]
      obtain ⟨ns, key, htoks, hnav⟩ := withPath_nav (o := o) hr.1 hr.2 hp (by simp)
      rw [htoks, atParent_nav, atParent_nav]
      cases hn : nav (specOpts o) (den r.con) ns with
      | unspec => trivial
      | fail c =>
        rw [hn] at hnav
        obtain ⟨con', h1, h2, h3, h4⟩ := hnav
        simp only [Res.bind, h4, liftWalk, ha, if_true, OpRef]
        exact ⟨_, rfl, ⟨h1, h2⟩, h3⟩
      | ok pk =>
        obtain ⟨p, k⟩ := pk
        rw [hn] at hnav
        obtain ⟨s, pc, rb, h1, h2, h3, h4, h5⟩ := hnav
        simp only at h3 h4
        obtain ⟨_, hkp⟩ := nav_ok _ _ _ _ _ hn
        have hal := conRemove_allow (o := o) (key := key) ha h1 h2
        rw [h3] at hal
        simp only [Res.bind]
        cases hg : skipG (specOpts o) p key with
        | unspec => trivial
        | fail c => exact absurd hg (skipG_ne_fail _ _ _ _)
        | ok pb =>
          obtain ⟨p1, b⟩ := pb
          rw [hg] at hal
          have hp1 : p1 = p := skipG_fst hg
          simp only at hal ⊢
          cases b with
          | true =>
            simp only [if_true] at hal
            simp only [OpRef, h5, actRemove, hal, doneOf, liftWalk]
            obtain ⟨x, y, z⟩ := h4 pc h1 h2
            exact ⟨_, rfl, ⟨x, y⟩, by rw [z, h3, hkp]⟩
          | false =>
            simp only [Bool.false_eq_true, if_false] at hal
            obtain ⟨p', hp'⟩ := hal
            have href := conRemove_refines (o := o) (key := key) h1 h2
            rw [h3, hp'] at href
            obtain ⟨pc', hc1, hc2, hc3, hc4⟩ := href
            simp only [hp', OpRef, h5, actRemove, hc1, doneOf, liftWalk]
            obtain ⟨x, y, z⟩ := h4 pc' hc2 hc3
            exact ⟨_, rfl, ⟨x, y⟩, by rw [z, hc4]⟩

theorem opRemove_refines {o : Opts} {e : Bool} {r : Root} {op : Op} {sop : Spec.Op}
    (sz acc : Nat) (hr : InvRoot e r)
    (hk : sop.kind = .remove) (hpath : sop.path = op.path) :
    OpRef e (Spec.applyOp (specOpts o) sz acc (den r.con) sop) (opRemove o r op) := by
  cases ha : o.allow with
  | false => exact opRemove_refines_noallow sz acc ha hr hk hpath
  | true => exact opRemove_refines_allow sz acc ha hr hk hpath

end Impl
end JP
