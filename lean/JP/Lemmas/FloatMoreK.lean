import JP.Lemmas.FloatTotalK
import JP.Lemmas.FloatTotalC
import JP.Lemmas.FloatDecimal
import JP.Lemmas.FloatTotalE

/-!
# The decimal point of a finite non-zero float, upper side: `N/D < 10^k`; at most `n` digits in an `n`-digit candidate
-/

namespace JP
namespace Codec
namespace Float

open JP.Codec.Typed (decimal)

/-! ## `fixUp`, `fixDown` and `geP10 = false` -/

theorem fixUp_stop (N D : Nat) : ∀ (fuel : Nat) (k0 : Int),
    fixUp fuel N D k0 < k0 + (fuel : Int) → geP10 N D (fixUp fuel N D k0) = false := by
  intro fuel
  induction fuel with
  | zero => intro k0; simp only [fixUp]; omega
  | succ f ih =>
    intro k0
    simp only [fixUp]
    by_cases hg : geP10 N D k0 = true
    · rw [if_pos hg]
      intro h
      apply ih (k0 + 1)
      omega
    · rw [if_neg hg]
      intro _
      simpa using hg

theorem fixDown_false (N D : Nat) : ∀ (fuel : Nat) (k1 : Int),
    geP10 N D k1 = false → geP10 N D (fixDown fuel N D k1) = false := by
  intro fuel
  induction fuel with
  | zero => intro k1 h; simpa only [fixDown] using h
  | succ f ih =>
    intro k1 h
    simp only [fixDown]
    by_cases hg : geP10 N D (k1 - 1) = true
    · rw [if_pos hg]; exact h
    · rw [if_neg hg]
      apply ih (k1 - 1)
      simpa using hg

/-- the corrected estimate: if `N/D < 10^(k0+4)` then the final `k` has `N/D < 10^k` -/
theorem fix_upper (N D : Nat) (k0 : Int) (h : geP10 N D (k0 + 4) = false) :
    geP10 N D (fixDown 4 N D (fixUp 4 N D k0)) = false := by
  apply fixDown_false
  obtain ⟨_, u2, _⟩ := fixUp_bounds N D 4 k0
  by_cases he : fixUp 4 N D k0 = k0 + 4
  · rw [he]; exact h
  · apply fixUp_stop
    omega

/-! ## the estimate from the bit lengths is at most four too low -/

def powTabU (i : Nat) : Bool :=
  let l : Int := (i : Int) - 1100
  let j : Int := l * 1233 / 4096 + 5
  decide (2 ^ l.toNat * 10 ^ (-j).toNat * 2 ≤ 2 ^ (-l).toNat * 10 ^ j.toNat)

theorem powTabU_all : ∀ i : Fin 2201, powTabU i.val = true := by
  decide +kernel

/-- `2^(l+1) ≤ 10^(l·1233/4096 + 5)` for `|l| ≤ 1100`, cleared of denominators -/
theorem pow_tableU (l : Int) (h1 : -1100 ≤ l) (h2 : l ≤ 1100) :
    2 ^ l.toNat * 10 ^ (-(l * 1233 / 4096 + 5)).toNat * 2
      ≤ 2 ^ (-l).toNat * 10 ^ (l * 1233 / 4096 + 5).toNat := by
  have h := powTabU_all ⟨(l + 1100).toNat, by omega⟩
  unfold powTabU at h
  simp only [decide_eq_true_eq] at h
  have e : (((l + 1100).toNat : Nat) : Int) - 1100 = l := by omega
  rw [e] at h
  exact h

theorem geP10_false_of_bits (N D : Nat) (hD : D ≠ 0) (j : Int)
    (T : 2 ^ ((Nat.log2 N : Int) - (Nat.log2 D : Int)).toNat * 10 ^ (-j).toNat * 2
      ≤ 2 ^ (-((Nat.log2 N : Int) - (Nat.log2 D : Int))).toNat * 10 ^ j.toNat) :
    geP10 N D j = false := by
  have ha : N < 2 ^ (Nat.log2 N + 1) := Nat.lt_log2_self
  have hb : 2 ^ Nat.log2 D ≤ D := Nat.log2_self_le hD
  have ha' : 2 ^ (Nat.log2 N + 1) = 2 * 2 ^ Nat.log2 N := by rw [Nat.pow_succ]; omega
  generalize Nat.log2 N = a at *
  generalize Nat.log2 D = b at *
  have hAB : 2 ^ a * 2 ^ (-((a : Int) - (b : Int))).toNat = 2 ^ b * 2 ^ ((a : Int) - (b : Int)).toNat := by
    rw [← Nat.pow_add, ← Nat.pow_add]; congr 1; omega
  have hBpos : 0 < 2 ^ (-((a : Int) - (b : Int))).toNat := Nat.pos_of_ne_zero (by simp)
  generalize 2 ^ ((a : Int) - (b : Int)).toNat = A at *
  generalize 2 ^ (-((a : Int) - (b : Int))).toNat = B at *
  have key : N * 10 ^ (-j).toNat < D * 10 ^ j.toNat := by
    have hMpos : 0 < 10 ^ (-j).toNat := Nat.pos_of_ne_zero (by simp)
    generalize 10 ^ j.toNat = P at *
    generalize 10 ^ (-j).toNat = M at *
    apply Nat.lt_of_mul_lt_mul_right (a := B)
    calc N * M * B < (2 * 2 ^ a) * M * B :=
          Nat.mul_lt_mul_of_pos_right (Nat.mul_lt_mul_of_pos_right (by omega) hMpos) hBpos
      _ = 2 ^ a * B * (M * 2) := by ac_rfl
      _ = 2 ^ b * A * (M * 2) := by rw [hAB]
      _ = 2 ^ b * (A * M * 2) := by ac_rfl
      _ ≤ 2 ^ b * (B * P) := Nat.mul_le_mul_left _ T
      _ ≤ D * (B * P) := Nat.mul_le_mul_right _ hb
      _ = D * P * B := by ac_rfl
  unfold geP10
  by_cases hj : j ≥ 0
  · have : (-j).toNat = 0 := by omega
    rw [this] at key
    simp only [hj, if_true, decide_eq_false_iff_not]
    simp only [Nat.pow_zero, Nat.mul_one] at key
    omega
  · have : j.toNat = 0 := by omega
    rw [this] at key
    simp only [hj, if_false, decide_eq_false_iff_not]
    simp only [Nat.pow_zero, Nat.mul_one] at key
    omega

/-! ## the exact value of a finite non-zero float -/

theorem decPoint_upper (bits : Nat) (x : FP) (hwf : x.wf bits = true) (hfin : x.isFinite bits = true)
    (hnz : x.isZero = false) :
    geP10 (exactN bits x) (exactD bits x) (decPoint (exactN bits x) (exactD bits x)) = false := by
  unfold FP.wf at hwf
  simp only [Bool.and_eq_true, decide_eq_true_eq] at hwf
  simp only [FP.isFinite, decide_eq_true_eq] at hfin
  have hs0 : x.sig bits ≠ 0 := by
    unfold FP.sig
    split
    · rename_i he
      simp only [FP.isZero, he, decide_true, Bool.true_and, decide_eq_false_iff_not] at hnz
      exact hnz
    · have : 0 < 2 ^ mantBits bits := two_pow_pos _
      omega
  have hD0 : exactD bits x ≠ 0 := by
    unfold exactD
    split
    · omega
    · exact Nat.ne_of_gt (two_pow_pos _)
  have hlog : (Nat.log2 (exactN bits x) : Int) - (Nat.log2 (exactD bits x) : Int)
      = (Nat.log2 (x.sig bits) : Int) + x.qexp bits := by
    unfold exactN exactD
    by_cases h : x.qexp bits ≥ 0
    · simp only [h, if_true]
      rw [log2_mul_pow _ _ hs0]
      have : Nat.log2 1 = 0 := by decide
      rw [this]; omega
    · simp only [h, if_false, Nat.log2_two_pow]
      omega
  -- the range of the bit length difference
  have hsig : x.sig bits < 2 ^ (mantBits bits + 1) := by
    have hpow : 2 ^ (mantBits bits + 1) = 2 * 2 ^ mantBits bits := by rw [Nat.pow_succ]; omega
    unfold FP.sig
    split <;> omega
  have hl2 : Nat.log2 (x.sig bits) < mantBits bits + 1 := (Nat.log2_lt hs0).2 hsig
  have hrange : -1100 ≤ (Nat.log2 (x.sig bits) : Int) + x.qexp bits ∧
      (Nat.log2 (x.sig bits) : Int) + x.qexp bits ≤ 1100 := by
    unfold FP.qexp
    unfold expMax expBits at hfin
    unfold mantBits at hl2
    unfold bias mantBits
    by_cases hb : bits = 32
    · simp only [hb, if_true] at hfin hl2 ⊢
      have : (2 : Nat) ^ 8 = 256 := by decide
      split <;> omega
    · simp only [hb, if_false] at hfin hl2 ⊢
      have : (2 : Nat) ^ 11 = 2048 := by decide
      split <;> omega
  generalize hle : (Nat.log2 (exactN bits x) : Int) - (Nat.log2 (exactD bits x) : Int) = l at hlog
  rw [← hlog] at hrange
  have T := pow_tableU l hrange.1 hrange.2
  have hlt : geP10 (exactN bits x) (exactD bits x) (l * 1233 / 4096 + 1 + 4) = false := by
    apply geP10_false_of_bits _ _ hD0
    rw [hle]
    have e : l * 1233 / 4096 + 1 + 4 = l * 1233 / 4096 + 5 := by omega
    rw [e]; exact T
  have f := fix_upper _ _ _ hlt
  unfold decPoint
  simp only [hle]
  exact f

/-! ## candidates: the scaled fraction is below `10^n` -/

/-- from `N/D < 10^k`: the scaled fraction is below `10^n` -/
theorem candAB_lt_mul (N D : Nat) (k : Int) (n : Nat) (hk : geP10 N D k = false) :
    (candAB N D ((n : Int) - k)).1 < 10 ^ n * (candAB N D ((n : Int) - k)).2 := by
  unfold geP10 at hk
  unfold candAB
  by_cases hk1 : k ≥ 0
  · simp only [hk1, if_true, decide_eq_false_iff_not, Nat.not_le] at hk
    by_cases hs : (n : Int) - k ≥ 0
    · simp only [hs, if_true]
      have e : n = k.toNat + ((n : Int) - k).toNat := by omega
      have hQ : 0 < 10 ^ ((n : Int) - k).toNat := Nat.pos_of_ne_zero (by simp)
      conv => rhs; rw [e, Nat.pow_add]
      generalize 10 ^ k.toNat = P at *
      generalize 10 ^ ((n : Int) - k).toNat = Q at *
      calc N * Q < (D * P) * Q := Nat.mul_lt_mul_of_pos_right hk hQ
        _ = P * Q * D := by ac_rfl
    · simp only [hs, if_false]
      have e : k.toNat = n + (-((n : Int) - k)).toNat := by omega
      rw [e, Nat.pow_add] at hk
      generalize 10 ^ n = P at *
      generalize 10 ^ (-((n : Int) - k)).toNat = Q at *
      calc N < D * (P * Q) := hk
        _ = P * (D * Q) := by ac_rfl
  · simp only [hk1, if_false, decide_eq_false_iff_not, Nat.not_le] at hk
    have hs : (n : Int) - k ≥ 0 := by omega
    simp only [hs, if_true]
    have e : ((n : Int) - k).toNat = (-k).toNat + n := by omega
    have hP : 0 < 10 ^ n := Nat.pos_of_ne_zero (by simp)
    rw [e, Nat.pow_add]
    generalize 10 ^ n = P at *
    generalize 10 ^ (-k).toNat = Q at *
    calc N * (Q * P) = (N * Q) * P := by ac_rfl
      _ < D * P := Nat.mul_lt_mul_of_pos_right hk hP
      _ = P * D := Nat.mul_comm _ _

theorem candAB_lt (N D : Nat) (hD : 0 < D) (k : Int) (n : Nat) (hk : geP10 N D k = false) :
    (candAB N D ((n : Int) - k)).1 / (candAB N D ((n : Int) - k)).2 < 10 ^ n :=
  (Nat.div_lt_iff_lt_mul (candAB_snd_pos N D hD _)).2 (candAB_lt_mul N D k n hk)

/-- a candidate is one of the two integers around the scaled fraction -/
theorem cand_lo_or_hi (bits : Nat) (x : FP) (N D : Nat) (k : Int) (n : Nat) (c : Nat) (e : Int)
    (h : cand bits x N D k n = some (c, e)) :
    c = (candAB N D ((n : Int) - k)).1 / (candAB N D ((n : Int) - k)).2 ∨
      c = (candAB N D ((n : Int) - k)).1 / (candAB N D ((n : Int) - k)).2 + 1 := by
  unfold cand candPick at h
  simp only at h
  repeat' split at h
  all_goals first
    | (simp at h; done)
    | (simp only [Option.some.injEq, Prod.mk.injEq] at h; omega)

/-- an `n`-digit candidate is at most `10^n` -/
theorem cand_le (bits : Nat) (x : FP) (N D : Nat) (hD : 0 < D) (k : Int) (n : Nat) (c : Nat) (e : Int)
    (hk : geP10 N D k = false) (h : cand bits x N D k n = some (c, e)) : c ≤ 10 ^ n := by
  have h1 := candAB_lt N D hD k n hk
  have h2 := cand_lo_or_hi bits x N D k n c e h
  omega

/-! ## digits: a number up to `10^n` has at most `n` digits once its trailing zeros are stripped -/

theorem strip_len_le (c n : Nat) (hc : 0 < c) (hn : 1 ≤ n) (hle : c ≤ 10 ^ n) :
    (stripZeros (decimal c)).length ≤ n := by
  obtain ⟨c', z, hcz, hc', hs, _⟩ := strip_decimal c (by omega)
  rw [hs]
  have hpos : 0 < c' := by
    cases c' with
    | zero => exact absurd rfl hc'
    | succ m => omega
  obtain ⟨b1, _⟩ := decimal_len_bounds c' hpos
  have hzpos : 0 < 10 ^ z := Nat.pos_of_ne_zero (by simp)
  have hc'c : c' ≤ c := by
    rw [hcz]; exact Nat.le_mul_of_pos_right _ hzpos
  apply Nat.le_of_not_lt
  intro hL
  have hpow : 10 ^ n ≤ 10 ^ ((decimal c').length - 1) := Nat.pow_le_pow_right (by omega) (by omega)
  have e : c' = 10 ^ n := by omega
  have e2 : 10 ^ n = 10 * 10 ^ (n - 1) := by
    have : n = (n - 1) + 1 := by omega
    conv => lhs; rw [this, Nat.pow_succ]
    omega
  apply hc'
  rw [e, e2]
  exact Nat.mul_mod_right _ _

/-- an `n`-digit candidate prints at most `n` digits -/
theorem cand_digits_le (bits : Nat) (x : FP) (N D : Nat) (hD : 0 < D) (k : Int) (n : Nat) (hn : 1 ≤ n)
    (c : Nat) (e : Int) (hc : 0 < c) (hk : geP10 N D k = false) (h : cand bits x N D k n = some (c, e)) :
    (stripZeros (decimal c)).length ≤ n :=
  strip_len_le c n hc hn (cand_le bits x N D hD k n c e hk h)

end Float
end Codec
end JP
