import JP.Lemmas.TextParse
import JP.Lemmas.TextParseFuel

/-!
# An induction principle along successful runs of the reference parser

`parse_ind` packages the case analysis of `parseValue` / `parseElems` / `parseMembers` on a
successful parse once and for all: a family of predicates that is closed under the grammar
rules holds of every successful parse.  Used for the token trace of the scanner, for the
well-formedness of parse results, and for the parser on escaped texts.
-/

namespace JP

theorem isPrefix_split : ∀ (w bs : Bytes), isPrefix w bs = true → bs = w ++ bs.drop w.length
  | [], _, _ => rfl
  | _ :: _, [], h => by simp [isPrefix] at h
  | a :: w, b :: bs, h => by
    simp only [isPrefix, Bool.and_eq_true, beq_iff_eq] at h
    obtain ⟨rfl, h⟩ := h
    simp only [List.length_cons, List.drop_succ_cons, List.cons_append, List.cons.injEq, true_and]
    exact isPrefix_split w bs h

theorem parseLit_inv (w bs : Bytes) (v : Cst) (rest : Bytes) (h : parseLit w bs = some (v, rest)) :
    v = .lit w ∧ bs = w ++ rest := by
  unfold parseLit at h
  split at h
  · rename_i hp
    simp only [Option.some.injEq, Prod.mk.injEq] at h
    obtain ⟨rfl, rfl⟩ := h
    exact ⟨rfl, isPrefix_split w bs hp⟩
  · simp at h

/-- inversion of a successful `parseValue` -/
theorem parseValue_inv (f d : Nat) (bs : Bytes) (v : Cst) (rest : Bytes)
    (h : parseValue (f + 1) d bs = some (v, rest)) :
    (∃ cs r, bs = 123 :: cs ∧ d + 1 ≤ maxDepth ∧ skipWs cs = 125 :: r ∧ v = .obj [] ∧ rest = r) ∨
    (∃ cs ms, bs = 123 :: cs ∧ d + 1 ≤ maxDepth ∧ (∀ r, skipWs cs ≠ 125 :: r) ∧
        parseMembers f (d + 1) (skipWs cs) = some (ms, rest) ∧ v = .obj ms) ∨
    (∃ cs r, bs = 91 :: cs ∧ d + 1 ≤ maxDepth ∧ skipWs cs = 93 :: r ∧ v = .arr [] ∧ rest = r) ∨
    (∃ cs xs, bs = 91 :: cs ∧ d + 1 ≤ maxDepth ∧ (∀ r, skipWs cs ≠ 93 :: r) ∧
        parseElems f (d + 1) (skipWs cs) = some (xs, rest) ∧ v = .arr xs) ∨
    (∃ cs b, bs = 34 :: cs ∧ parseStrBody cs = some (b, rest) ∧ v = .str b) ∨
    (∃ w, (w = ascii "true" ∨ w = ascii "false" ∨ w = ascii "null") ∧ bs = w ++ rest ∧ v = .lit w) ∨
    (∃ c cs l, bs = c :: cs ∧ (c = 45 ∨ isDigit c = true) ∧ parseNumber (c :: cs) = some (l, rest) ∧
        v = .lit l) := by
  cases bs with
  | nil => simp [parseValue] at h
  | cons c cs =>
    by_cases h123 : c = 123
    · subst h123
      by_cases hd : d + 1 ≤ maxDepth
      · by_cases hs : ∃ r, skipWs cs = 125 :: r
        · obtain ⟨r, hr⟩ := hs
          rw [parseValue_obj_nil f d cs r hd hr] at h
          simp only [Option.some.injEq, Prod.mk.injEq] at h
          exact .inl ⟨cs, r, rfl, hd, hr, h.1.symm, h.2.symm⟩
        · have hs' : ∀ r, skipWs cs ≠ 125 :: r := fun r hr => hs ⟨r, hr⟩
          rw [parseValue_obj_cons f d cs hd hs'] at h
          cases hm : parseMembers f (d + 1) (skipWs cs) with
          | none => rw [hm] at h; simp at h
          | some p =>
            obtain ⟨ms, r'⟩ := p
            rw [hm] at h
            simp only [Option.map_some, Option.some.injEq, Prod.mk.injEq] at h
            obtain ⟨rfl, rfl⟩ := h
            exact .inr (.inl ⟨cs, ms, rfl, hd, hs', hm, rfl⟩)
      · have : d + 1 > maxDepth := by omega
        rw [parseValue] at h; simp [this] at h
    · by_cases h91 : c = 91
      · subst h91
        by_cases hd : d + 1 ≤ maxDepth
        · by_cases hs : ∃ r, skipWs cs = 93 :: r
          · obtain ⟨r, hr⟩ := hs
            rw [parseValue_arr_nil f d cs r hd hr] at h
            simp only [Option.some.injEq, Prod.mk.injEq] at h
            exact .inr (.inr (.inl ⟨cs, r, rfl, hd, hr, h.1.symm, h.2.symm⟩))
          · have hs' : ∀ r, skipWs cs ≠ 93 :: r := fun r hr => hs ⟨r, hr⟩
            rw [parseValue_arr_cons f d cs hd hs'] at h
            cases hm : parseElems f (d + 1) (skipWs cs) with
            | none => rw [hm] at h; simp at h
            | some p =>
              obtain ⟨xs, r'⟩ := p
              rw [hm] at h
              simp only [Option.map_some, Option.some.injEq, Prod.mk.injEq] at h
              obtain ⟨rfl, rfl⟩ := h
              exact .inr (.inr (.inr (.inl ⟨cs, xs, rfl, hd, hs', hm, rfl⟩)))
        · have : d + 1 > maxDepth := by omega
          rw [parseValue] at h; simp [this] at h
      · by_cases h34 : c = 34
        · subst h34
          rw [parseValue_str] at h
          cases hp : parseStrBody cs with
          | none => rw [hp] at h; simp at h
          | some p =>
            obtain ⟨b, r⟩ := p
            rw [hp] at h
            simp only [Option.map_some, Option.some.injEq, Prod.mk.injEq] at h
            obtain ⟨rfl, rfl⟩ := h
            exact .inr (.inr (.inr (.inr (.inl ⟨cs, b, rfl, hp, rfl⟩))))
        · by_cases h116 : c = 116
          · subst h116
            rw [parseValue_true] at h
            obtain ⟨hv, hb⟩ := parseLit_inv _ _ _ _ h
            exact .inr (.inr (.inr (.inr (.inr (.inl ⟨_, .inl rfl, hb, hv⟩)))))
          · by_cases h102 : c = 102
            · subst h102
              rw [parseValue_false] at h
              obtain ⟨hv, hb⟩ := parseLit_inv _ _ _ _ h
              exact .inr (.inr (.inr (.inr (.inr (.inl ⟨_, .inr (.inl rfl), hb, hv⟩)))))
            · by_cases h110 : c = 110
              · subst h110
                rw [parseValue_null] at h
                obtain ⟨hv, hb⟩ := parseLit_inv _ _ _ _ h
                exact .inr (.inr (.inr (.inr (.inr (.inl ⟨_, .inr (.inr rfl), hb, hv⟩)))))
              · rw [parseValue] at h
                simp only [h123, h91, h34, h116, h102, h110, if_false] at h
                cases hp : parseNumber (c :: cs) with
                | none => rw [hp] at h; simp at h
                | some p =>
                  obtain ⟨l, r⟩ := p
                  rw [hp] at h
                  simp only [Option.map_some, Option.some.injEq, Prod.mk.injEq] at h
                  obtain ⟨rfl, rfl⟩ := h
                  obtain ⟨c', t, hx, hc⟩ := parseNumber_head _ _ _ hp
                  simp only [List.cons.injEq] at hx
                  obtain ⟨rfl, rfl⟩ := hx
                  exact .inr (.inr (.inr (.inr (.inr (.inr ⟨c, cs, l, rfl, hc, hp, rfl⟩)))))

theorem skipWs_cases (r : Bytes) (k : UInt8) : (∃ r', skipWs r = k :: r') ∨ (∀ r', skipWs r ≠ k :: r') := by
  by_cases h : ∃ r', skipWs r = k :: r'
  · exact .inl h
  · exact .inr fun r' hr => h ⟨r', hr⟩

/-- inversion of a successful `parseElems` -/
theorem parseElems_inv (f d : Nat) (bs : Bytes) (xs : List Cst) (rest : Bytes)
    (h : parseElems (f + 1) d bs = some (xs, rest)) :
    ∃ x r, parseValue f d bs = some (x, r) ∧
      ((∃ r', skipWs r = 93 :: r' ∧ xs = [x] ∧ rest = r') ∨
       (∃ r' xs', skipWs r = 44 :: r' ∧ parseElems f d (skipWs r') = some (xs', rest) ∧ xs = x :: xs')) := by
  cases hv : parseValue f d bs with
  | none => rw [parseElems] at h; simp [hv] at h
  | some p =>
    obtain ⟨x, r⟩ := p
    refine ⟨x, r, rfl, ?_⟩
    rcases skipWs_cases r 93 with ⟨r', h93⟩ | h93
    · rw [parseElems_last f d bs r r' x hv h93] at h
      simp only [Option.some.injEq, Prod.mk.injEq] at h
      exact .inl ⟨r', h93, h.1.symm, h.2.symm⟩
    · rcases skipWs_cases r 44 with ⟨r', h44⟩ | h44
      · rw [parseElems_more f d bs r r' x hv h44] at h
        cases hm : parseElems f d (skipWs r') with
        | none => rw [hm] at h; simp at h
        | some q =>
          obtain ⟨xs', r''⟩ := q
          rw [hm] at h
          simp only [Option.map_some, Option.some.injEq, Prod.mk.injEq] at h
          obtain ⟨rfl, rfl⟩ := h
          exact .inr ⟨r', xs', h44, hm, rfl⟩
      · rw [parseElems] at h
        simp only [hv] at h
        cases h

/-- inversion of a successful `parseMembers` -/
theorem parseMembers_inv (f d : Nat) (bs : Bytes) (ms : List (Bytes × Cst)) (rest : Bytes)
    (h : parseMembers (f + 1) d bs = some (ms, rest)) :
    ∃ cs k r r1 v r2, bs = 34 :: cs ∧ parseStrBody cs = some (k, r) ∧ skipWs r = 58 :: r1 ∧
      parseValue f d (skipWs r1) = some (v, r2) ∧
      ((∃ r3, skipWs r2 = 125 :: r3 ∧ ms = [(k, v)] ∧ rest = r3) ∨
       (∃ r3 ms', skipWs r2 = 44 :: r3 ∧ parseMembers f d (skipWs r3) = some (ms', rest) ∧
          ms = (k, v) :: ms')) := by
  have hbs : ∃ cs, bs = 34 :: cs := by
    cases bs with
    | nil => simp [parseMembers] at h
    | cons c cs =>
      by_cases hc : c = 34
      · exact ⟨cs, by rw [hc]⟩
      · rw [parseMembers] at h
        · cases h
        · intro cs' hh
          simp only [List.cons.injEq] at hh
          exact hc hh.1
  obtain ⟨cs, rfl⟩ := hbs
  rw [parseMembers] at h
  · cases hk : parseStrBody cs with
    | none => simp [hk] at h
    | some p =>
      obtain ⟨k, r⟩ := p
      simp only [hk] at h
      split at h
      · rename_i r1 h58
        cases hv : parseValue f d (skipWs r1) with
        | none => simp [hv] at h
        | some q =>
          obtain ⟨v, r2⟩ := q
          simp only [hv] at h
          refine ⟨cs, k, r, r1, v, r2, rfl, hk, h58, hv, ?_⟩
          split at h
          · rename_i r3 h125
            simp only [Option.some.injEq, Prod.mk.injEq] at h
            exact .inl ⟨r3, h125, h.1.symm, h.2.symm⟩
          · rename_i r3 h44
            cases hm : parseMembers f d (skipWs r3) with
            | none => rw [hm] at h; simp at h
            | some q' =>
              obtain ⟨ms', r4⟩ := q'
              rw [hm] at h
              simp only [Option.map_some, Option.some.injEq, Prod.mk.injEq] at h
              obtain ⟨rfl, rfl⟩ := h
              exact .inr ⟨r3, ms', h44, hm, rfl⟩
          · simp at h
      · simp at h

section
variable {PV : Nat → Nat → Bytes → Cst → Bytes → Prop}
  {PE : Nat → Nat → Bytes → List Cst → Bytes → Prop}
  {PM : Nat → Nat → Bytes → List (Bytes × Cst) → Bytes → Prop}

/-- induction along successful parses (fuel `f`, open containers `d`, input, result, rest) -/
theorem parse_ind
    (obj0 : ∀ f d cs r, d + 1 ≤ maxDepth → skipWs cs = 125 :: r → PV (f + 1) d (123 :: cs) (.obj []) r)
    (obj : ∀ f d cs ms rest, d + 1 ≤ maxDepth → (∀ r, skipWs cs ≠ 125 :: r) → ms ≠ [] →
      parseMembers f (d + 1) (skipWs cs) = some (ms, rest) → PM f (d + 1) (skipWs cs) ms rest →
      PV (f + 1) d (123 :: cs) (.obj ms) rest)
    (arr0 : ∀ f d cs r, d + 1 ≤ maxDepth → skipWs cs = 93 :: r → PV (f + 1) d (91 :: cs) (.arr []) r)
    (arr : ∀ f d cs xs rest, d + 1 ≤ maxDepth → (∀ r, skipWs cs ≠ 93 :: r) → xs ≠ [] →
      parseElems f (d + 1) (skipWs cs) = some (xs, rest) → PE f (d + 1) (skipWs cs) xs rest →
      PV (f + 1) d (91 :: cs) (.arr xs) rest)
    (str : ∀ f d cs b rest, parseStrBody cs = some (b, rest) → PV (f + 1) d (34 :: cs) (.str b) rest)
    (word : ∀ f d w rest, (w = ascii "true" ∨ w = ascii "false" ∨ w = ascii "null") →
      PV (f + 1) d (w ++ rest) (.lit w) rest)
    (num : ∀ f d c cs l rest, (c = 45 ∨ isDigit c = true) → parseNumber (c :: cs) = some (l, rest) →
      PV (f + 1) d (c :: cs) (.lit l) rest)
    (elast : ∀ f d bs x r r', parseValue f d bs = some (x, r) → PV f d bs x r → skipWs r = 93 :: r' →
      PE (f + 1) d bs [x] r')
    (emore : ∀ f d bs x r r' xs rest, parseValue f d bs = some (x, r) → PV f d bs x r →
      skipWs r = 44 :: r' → xs ≠ [] → parseElems f d (skipWs r') = some (xs, rest) →
      PE f d (skipWs r') xs rest → PE (f + 1) d bs (x :: xs) rest)
    (mlast : ∀ f d cs k r r1 v r2 r3, parseStrBody cs = some (k, r) → skipWs r = 58 :: r1 →
      parseValue f d (skipWs r1) = some (v, r2) → PV f d (skipWs r1) v r2 → skipWs r2 = 125 :: r3 →
      PM (f + 1) d (34 :: cs) [(k, v)] r3)
    (mmore : ∀ f d cs k r r1 v r2 r3 ms rest, parseStrBody cs = some (k, r) → skipWs r = 58 :: r1 →
      parseValue f d (skipWs r1) = some (v, r2) → PV f d (skipWs r1) v r2 → skipWs r2 = 44 :: r3 →
      ms ≠ [] → parseMembers f d (skipWs r3) = some (ms, rest) → PM f d (skipWs r3) ms rest →
      PM (f + 1) d (34 :: cs) ((k, v) :: ms) rest) :
    ∀ f, (∀ d bs c rest, parseValue f d bs = some (c, rest) → PV f d bs c rest) ∧
         (∀ d bs xs rest, parseElems f d bs = some (xs, rest) → xs ≠ [] ∧ PE f d bs xs rest) ∧
         (∀ d bs ms rest, parseMembers f d bs = some (ms, rest) → ms ≠ [] ∧ PM f d bs ms rest) := by
  intro f
  induction f with
  | zero =>
    refine ⟨?_, ?_, ?_⟩ <;> intro d bs c rest h
    · simp [parseValue] at h
    · simp [parseElems] at h
    · simp [parseMembers] at h
  | succ f ih =>
    obtain ⟨ihV, ihE, ihM⟩ := ih
    refine ⟨?_, ?_, ?_⟩
    · intro d bs v rest h
      rcases parseValue_inv f d bs v rest h with ⟨cs, r, rfl, hd, hs, rfl, rfl⟩ |
        ⟨cs, ms, rfl, hd, hs, hm, rfl⟩ | ⟨cs, r, rfl, hd, hs, rfl, rfl⟩ | ⟨cs, xs, rfl, hd, hs, hm, rfl⟩ |
        ⟨cs, b, rfl, hp, rfl⟩ | ⟨w, hw, rfl, rfl⟩ | ⟨c, cs, l, rfl, hc, hp, rfl⟩
      · exact obj0 f d cs _ hd hs
      · exact obj f d cs ms rest hd hs (ihM _ _ _ _ hm).1 hm (ihM _ _ _ _ hm).2
      · exact arr0 f d cs _ hd hs
      · exact arr f d cs xs rest hd hs (ihE _ _ _ _ hm).1 hm (ihE _ _ _ _ hm).2
      · exact str f d cs b rest hp
      · exact word f d w rest hw
      · exact num f d c cs l rest hc hp
    · intro d bs xs rest h
      obtain ⟨x, r, hv, hcase⟩ := parseElems_inv f d bs xs rest h
      rcases hcase with ⟨r', h93, rfl, rfl⟩ | ⟨r', xs', h44, hm, rfl⟩
      · exact ⟨by simp, elast f d bs x r _ hv (ihV _ _ _ _ hv) h93⟩
      · exact ⟨by simp, emore f d bs x r r' xs' rest hv (ihV _ _ _ _ hv) h44 (ihE _ _ _ _ hm).1 hm
          (ihE _ _ _ _ hm).2⟩
    · intro d bs ms rest h
      obtain ⟨cs, k, r, r1, v, r2, rfl, hk, h58, hv, hcase⟩ := parseMembers_inv f d bs ms rest h
      rcases hcase with ⟨r3, h125, rfl, rfl⟩ | ⟨r3, ms', h44, hm, rfl⟩
      · exact ⟨by simp, mlast f d cs k r r1 v r2 _ hk h58 hv (ihV _ _ _ _ hv) h125⟩
      · exact ⟨by simp, mmore f d cs k r r1 v r2 r3 ms' rest hk h58 hv (ihV _ _ _ _ hv) h44
          (ihM _ _ _ _ hm).1 hm (ihM _ _ _ _ hm).2⟩

end

end JP
