import JP.Lemmas.TypedCst
import JP.Lemmas.TypedLeaf
import JP.Lemmas.TypedFields
import JP.Lemmas.TextQuote
import JP.Lemmas.TextParse

/-!
# The tree the typed encoder prints is well-formed and no deeper than the value
-/

namespace JP
namespace Codec
namespace Typed

open JP.Codec.Enc (isValidNumber null)

/-! ### sub-values and sub-types -/

theorem typesWfL_mem : ∀ (xs : List GoVal), typesWfL xs = true → ∀ x ∈ xs, x.typesWf = true
  | [], _, x, hx => by cases hx
  | y :: ys, h, x, hx => by
    simp only [typesWfL, Bool.and_eq_true] at h
    cases hx with
    | head => exact h.1
    | tail _ hx' => exact typesWfL_mem ys h.2 x hx'

theorem typesWfM_mem : ∀ (ms : List (MapKey × GoVal)), typesWfM ms = true → ∀ p ∈ ms, p.2.typesWf = true
  | [], _, p, hp => by cases hp
  | (k, v) :: ms, h, p, hp => by
    simp only [typesWfM, Bool.and_eq_true] at h
    cases hp with
    | head => exact h.1
    | tail _ hp' => exact typesWfM_mem ms h.2 p hp'

theorem wfFields_mem : ∀ (fs : List (FieldInfo × GoType)), wfFields fs = true → ∀ p ∈ fs, p.2.wf = true
  | [], _, p, hp => by cases hp
  | (i, t) :: fs, h, p, hp => by
    simp only [wfFields, Bool.and_eq_true] at h
    cases hp with
    | head => exact h.1.2
    | tail _ hp' => exact wfFields_mem fs h.2 p hp'

theorem wf_typeByIndex : ∀ (idx : List Nat) (t : GoType), t.wf = true → (typeByIndex t idx).wf = true
  | [], t, h => by simpa only [typeByIndex] using h
  | i :: is, t, h => by
    simp only [typeByIndex]
    cases hg : (structFieldsOf t.deref)[i]? with
    | none => rfl
    | some p =>
      obtain ⟨fi, ft⟩ := p
      simp only []
      have hm : (fi, ft) ∈ structFieldsOf t.deref := List.mem_of_getElem? hg
      exact wf_typeByIndex is ft (wfFields_mem _ (wfFields_structFieldsOf _ (wf_deref t h)) _ hm)

theorem fieldOf_val (i : Nat) (v fv : GoVal) (h : fieldOf i v = .val fv) : ∃ fs, v = .struct fs ∧ fv ∈ fs := by
  cases v <;> simp only [fieldOf] at h <;> try cases h
  rename_i fs
  cases hg : fs[i]? with
  | none => rw [hg] at h; cases h
  | some x =>
    rw [hg] at h
    cases h
    exact ⟨fs, rfl, List.mem_of_getElem? hg⟩

/-- one step of the walk lands on a field of the struct, or of the struct pointed to -/
theorem walkStep_val (i : Nat) (v fv : GoVal) (h : walkStep i v = .val fv) :
    ∃ fs, (v = .struct fs ∨ v = .ptr (.struct fs)) ∧ fv ∈ fs := by
  cases v with
  | nil => simp only [walkStep] at h; cases h
  | ptr p =>
    simp only [walkStep] at h
    obtain ⟨fs, rfl, hm⟩ := fieldOf_val i p fv h
    exact ⟨fs, Or.inr rfl, hm⟩
  | struct fs' =>
    simp only [walkStep] at h
    obtain ⟨fs, he, hm⟩ := fieldOf_val i _ fv h
    exact ⟨fs, Or.inl he, hm⟩
  | bool _ => simp only [walkStep, fieldOf] at h; cases h
  | int _ => simp only [walkStep, fieldOf] at h; cases h
  | uint _ => simp only [walkStep, fieldOf] at h; cases h
  | str _ => simp only [walkStep, fieldOf] at h; cases h
  | bytes _ => simp only [walkStep, fieldOf] at h; cases h
  | list _ => simp only [walkStep, fieldOf] at h; cases h
  | map _ => simp only [walkStep, fieldOf] at h; cases h
  | iface _ _ => simp only [walkStep, fieldOf] at h; cases h

theorem walkStep_typesWf (i : Nat) (v fv : GoVal) (h : walkStep i v = .val fv) (hv : v.typesWf = true) :
    fv.typesWf = true := by
  obtain ⟨fs, hc, hm⟩ := walkStep_val i v fv h
  rcases hc with rfl | rfl
  · simp only [GoVal.typesWf] at hv; exact typesWfL_mem fs hv fv hm
  · simp only [GoVal.typesWf] at hv; exact typesWfL_mem fs hv fv hm

theorem walk_typesWf : ∀ (idx : List Nat) (v fv : GoVal), walk idx v = .val fv → v.typesWf = true → fv.typesWf = true
  | [], v, fv, h, hv => by simp only [walk] at h; cases h; exact hv
  | i :: is, v, fv, h, hv => by
    simp only [walk] at h
    cases hs : walkStep i v with
    | skip => rw [hs] at h; cases h
    | bad => rw [hs] at h; cases h
    | val v' =>
      rw [hs] at h
      exact walk_typesWf is v' fv h (walkStep_typesWf i v v' hs hv)

theorem depthL_mem : ∀ (xs : List GoVal) (x : GoVal), x ∈ xs → x.depth ≤ depthL xs
  | [], x, hx => by cases hx
  | y :: ys, x, hx => by
    simp only [depthL]
    cases hx with
    | head => exact Nat.le_max_left _ _
    | tail _ hx' => exact Nat.le_trans (depthL_mem ys x hx') (Nat.le_max_right _ _)

theorem depthM_mem : ∀ (ms : List (MapKey × GoVal)) (p : MapKey × GoVal), p ∈ ms → p.2.depth ≤ depthM ms
  | [], p, hp => by cases hp
  | (k, v) :: ms, p, hp => by
    simp only [depthM]
    cases hp with
    | head => exact Nat.le_max_left _ _
    | tail _ hp' => exact Nat.le_trans (depthM_mem ms p hp') (Nat.le_max_right _ _)

theorem walkStep_depth (i : Nat) (v fv : GoVal) (h : walkStep i v = .val fv) : fv.depth + 1 ≤ v.depth := by
  obtain ⟨fs, hc, hm⟩ := walkStep_val i v fv h
  have := depthL_mem fs fv hm
  rcases hc with rfl | rfl <;> simp only [GoVal.depth] <;> omega

theorem walk_depth_le : ∀ (idx : List Nat) (v fv : GoVal), walk idx v = .val fv → fv.depth ≤ v.depth
  | [], v, fv, h => by simp only [walk] at h; cases h; exact Nat.le_refl _
  | i :: is, v, fv, h => by
    simp only [walk] at h
    cases hs : walkStep i v with
    | skip => rw [hs] at h; cases h
    | bad => rw [hs] at h; cases h
    | val v' =>
      rw [hs] at h
      have h1 := walk_depth_le is v' fv h
      have h2 := walkStep_depth i v v' hs
      omega

theorem walk_depth_lt (idx : List Nat) (v fv : GoVal) (hne : idx ≠ []) (h : walk idx v = .val fv) :
    fv.depth + 1 ≤ v.depth := by
  cases idx with
  | nil => exact absurd rfl hne
  | cons i is =>
    simp only [walk] at h
    cases hs : walkStep i v with
    | skip => rw [hs] at h; cases h
    | bad => rw [hs] at h; cases h
    | val v' =>
      rw [hs] at h
      have h1 := walk_depth_le is v' fv h
      have h2 := walkStep_depth i v v' hs
      omega

/-! ### what the combinators return -/

theorem encAll_forall {α : Type} (P : α → Prop) (f : GoVal → Option α) :
    ∀ (xs : List GoVal), (∀ x ∈ xs, ∀ a, f x = some a → P a) → ∀ as, encAll f xs = some as → ∀ a ∈ as, P a
  | [], _, as, h, a, ha => by simp only [encAll, Option.some.injEq] at h; subst h; cases ha
  | x :: xs, hx, as, h, a, ha => by
    simp only [encAll] at h
    cases hf : f x with
    | none => rw [hf] at h; cases h
    | some b =>
      rw [hf] at h
      cases hr : encAll f xs with
      | none => rw [hr] at h; cases h
      | some bs =>
        rw [hr] at h
        simp only [Option.some.injEq] at h
        subst h
        cases ha with
        | head => exact hx x (List.mem_cons_self) _ hf
        | tail _ ha' =>
          exact encAll_forall P f xs (fun y hy => hx y (List.mem_cons_of_mem _ hy)) bs hr a ha'

theorem encEntries_forall {α : Type} (P : α → Prop) (f : GoVal → Option α) :
    ∀ (ms : List (MapKey × GoVal)), (∀ p ∈ ms, ∀ a, f p.2 = some a → P a) →
      ∀ kvs, encEntries f ms = some kvs → ∀ q ∈ kvs, P q.2
  | [], _, kvs, h, q, hq => by simp only [encEntries, Option.some.injEq] at h; subst h; cases hq
  | (k, v) :: ms, hx, kvs, h, q, hq => by
    simp only [encEntries] at h
    cases hf : f v with
    | none => rw [hf] at h; cases h
    | some b =>
      rw [hf] at h
      cases hr : encEntries f ms with
      | none => rw [hr] at h; cases h
      | some bs =>
        rw [hr] at h
        simp only [Option.some.injEq] at h
        subst h
        cases hq with
        | head => exact hx (k, v) (List.mem_cons_self) b hf
        | tail _ hq' =>
          exact encEntries_forall P f ms (fun y hy => hx y (List.mem_cons_of_mem _ hy)) bs hr q hq'

/-- every member `encFields` returns is the encoding of the value found at the path of one of the
fields, under that field's name -/
theorem encFields_forall {α : Type} (P : Bytes → α → Prop) (f : Bool → GoType → GoVal → Option α) (t : GoType) (v : GoVal) :
    ∀ (flds : List Fld),
      (∀ fld ∈ flds, ∀ fv, walk fld.index v = .val fv → ∀ a, f fld.quoted (typeByIndex t fld.index) fv = some a → P fld.name a) →
      ∀ ms, encFields f t v flds = some ms → ∀ q ∈ ms, P q.1 q.2
  | [], _, ms, h, q, hq => by simp only [encFields, Option.some.injEq] at h; subst h; cases hq
  | fld :: flds, hx, ms, h, q, hq => by
    have ih := encFields_forall P f t v flds (fun y hy => hx y (List.mem_cons_of_mem _ hy))
    simp only [encFields] at h
    cases hw : walk fld.index v with
    | skip => rw [hw] at h; exact ih ms h q hq
    | bad => rw [hw] at h; cases h
    | val fv =>
      rw [hw] at h
      simp only [] at h
      cases he : (fld.omitEmpty && isEmptyValue (typeByIndex t fld.index) fv) with
      | true => rw [he] at h; simp only [if_true] at h; exact ih ms h q hq
      | false =>
        rw [he] at h
        simp only [Bool.false_eq_true, if_false] at h
        cases hf : f fld.quoted (typeByIndex t fld.index) fv with
        | none => rw [hf] at h; cases h
        | some b =>
          rw [hf] at h
          cases hr : encFields f t v flds with
          | none => rw [hr] at h; cases h
          | some bs =>
            rw [hr] at h
            simp only [Option.some.injEq] at h
            subst h
            cases hq with
            | head => exact hx fld (List.mem_cons_self) fv hw b hf
            | tail _ hq' => exact ih bs hr q hq'

theorem mem_insertKV {α : Type} (k : Bytes) (a : α) : ∀ (l : List (Bytes × α)) (p : Bytes × α),
    p ∈ insertKV k a l ↔ p = (k, a) ∨ p ∈ l
  | [], p => by simp only [insertKV, List.mem_singleton, List.not_mem_nil, or_false]
  | (k', a') :: l, p => by
    simp only [insertKV]
    cases bytesLt k k' with
    | true => simp only [if_true, List.mem_cons]
    | false =>
      simp only [Bool.false_eq_true, if_false, List.mem_cons, mem_insertKV k a l p]
      constructor
      · rintro (h | h | h)
        · exact Or.inr (Or.inl h)
        · exact Or.inl h
        · exact Or.inr (Or.inr h)
      · rintro (h | h | h)
        · exact Or.inr (Or.inl h)
        · exact Or.inl h
        · exact Or.inr (Or.inr h)

theorem mem_sortKV {α : Type} : ∀ (l : List (Bytes × α)) (p : Bytes × α), p ∈ sortKV l ↔ p ∈ l
  | [], p => by simp only [sortKV]
  | (k, a) :: l, p => by
    simp only [sortKV, mem_insertKV, mem_sortKV l p, List.mem_cons]

theorem mem_keyMembers (esc : Bool) : ∀ (l : List (Bytes × Cst)) (p : Bytes × Cst),
    p ∈ keyMembers esc l → ∃ q ∈ l, p = (quoteBody esc q.1, q.2)
  | [], p, h => by cases h
  | (k, c) :: l, p, h => by
    simp only [keyMembers, List.mem_cons] at h
    rcases h with h | h
    · exact ⟨(k, c), List.mem_cons_self, h⟩
    · obtain ⟨q, hq, he⟩ := mem_keyMembers esc l p h
      exact ⟨q, List.mem_cons_of_mem _ hq, he⟩

theorem mem_nameMembers (esc : Bool) : ∀ (l : List (Bytes × Cst)) (p : Bytes × Cst),
    p ∈ nameMembers esc l → ∃ q ∈ l, p = (nameBody esc q.1, q.2)
  | [], p, h => by cases h
  | (k, c) :: l, p, h => by
    simp only [nameMembers, List.mem_cons] at h
    rcases h with h | h
    · exact ⟨(k, c), List.mem_cons_self, h⟩
    · obtain ⟨q, hq, he⟩ := mem_nameMembers esc l p h
      exact ⟨q, List.mem_cons_of_mem _ hq, he⟩

/-! ### `WFC` and `depth` from the members -/

theorem WFCL_of_forall : ∀ (cs : List Cst), (∀ c ∈ cs, WFC c = true) → WFCL cs = true
  | [], _ => rfl
  | c :: cs, h => by
    simp only [WFCL, Bool.and_eq_true]
    exact ⟨h c List.mem_cons_self, WFCL_of_forall cs (fun d hd => h d (List.mem_cons_of_mem _ hd))⟩

theorem WFCM_of_forall : ∀ (ms : List (Bytes × Cst)), (∀ p ∈ ms, validBody p.1 = true ∧ WFC p.2 = true) → WFCM ms = true
  | [], _ => rfl
  | (k, c) :: ms, h => by
    simp only [WFCM, Bool.and_eq_true]
    exact ⟨h (k, c) List.mem_cons_self, WFCM_of_forall ms (fun d hd => h d (List.mem_cons_of_mem _ hd))⟩

theorem depthL_le_of_forall (n : Nat) : ∀ (cs : List Cst), (∀ c ∈ cs, c.depth ≤ n) → Cst.depthL cs ≤ n
  | [], _ => Nat.zero_le _
  | c :: cs, h => by
    simp only [Cst.depthL]
    exact Nat.max_le.mpr ⟨h c List.mem_cons_self, depthL_le_of_forall n cs (fun d hd => h d (List.mem_cons_of_mem _ hd))⟩

theorem depthM_le_of_forall (n : Nat) : ∀ (ms : List (Bytes × Cst)), (∀ p ∈ ms, p.2.depth ≤ n) → Cst.depthM ms ≤ n
  | [], _ => Nat.zero_le _
  | (k, c) :: ms, h => by
    simp only [Cst.depthM]
    exact Nat.max_le.mpr ⟨h (k, c) List.mem_cons_self, depthM_le_of_forall n ms (fun d hd => h d (List.mem_cons_of_mem _ hd))⟩

theorem validBody_quoteBody (e : Bool) (s : Bytes) : validBody (quoteBody e s) = true := by
  rw [validBody_iff]; exact quoteBody_valid e s

theorem WFC_litOrStr (q : Bool) (b : Bytes) (hl : validLit b = true) (hb : validBody b = true) :
    WFC (litOrStr q b) = true := by
  cases q <;> simp only [litOrStr, Bool.false_eq_true, if_false, if_true, WFC] <;> assumption

theorem depth_litOrStr (q : Bool) (b : Bytes) : (litOrStr q b).depth = 0 := by
  cases q <;> rfl

theorem validBody_nameBody (esc : Bool) (n : Bytes) (h : nameOk n = true) : validBody (nameBody esc n) = true := by
  cases esc
  · simpa only [nameBody, Bool.false_eq_true, if_false] using validBody_of_nameOk n h
  · simpa only [nameBody, if_true] using validBody_htmlEscape_of_nameOk n h

/-! ### the tree is well-formed -/

/-- the premises under which the printed tree is well-formed: Go identifiers as field names
(`GoType.wf`), also in the dynamic types inside the value (`GoVal.typesWf`) -/
def Ok (t : GoType) (v : GoVal) : Prop := t.wf = true ∧ v.typesWf = true

theorem arrayCstBody_wfc (g : GoVal → Option Cst) (xs : List GoVal) (c : Cst)
    (hg : ∀ x ∈ xs, ∀ a, g x = some a → WFC a = true) (h : arrayCstBody g xs = some c) : WFC c = true := by
  simp only [arrayCstBody] at h
  cases hr : encAll g xs with
  | none => rw [hr] at h; cases h
  | some cs =>
    rw [hr] at h
    simp only [Option.some.injEq] at h
    subst h
    simp only [WFC]
    exact WFCL_of_forall cs (encAll_forall (fun a => WFC a = true) g xs hg cs hr)

theorem cstT_wfc (esc : Bool) (g : Bool → GoType → GoVal → Option Cst)
    (hg : ∀ q t v c, Ok t v → g q t v = some c → WFC c = true)
    (q : Bool) (t : GoType) (v : GoVal) (c : Cst) (hok : Ok t v) (h : cstT esc g q t v = some c) : WFC c = true := by
  obtain ⟨ht, hv⟩ := hok
  cases t with
  | bool =>
    simp only [cstT] at h
    cases v <;> simp only [boolCst] at h <;> try cases h
    rename_i b
    cases b
    · exact WFC_litOrStr q _ validLit_false validBody_false
    · exact WFC_litOrStr q _ validLit_true validBody_true
  | int k =>
    simp only [cstT] at h
    cases v <;> simp only [intCst] at h <;> try cases h
    exact WFC_litOrStr q _ (validLit_fmtInt _) (validBody_fmtInt _)
  | uint k =>
    simp only [cstT] at h
    cases v <;> simp only [uintCst] at h <;> try cases h
    exact WFC_litOrStr q _ (validLit_decimal _) (validBody_decimal _)
  | string =>
    simp only [cstT] at h
    cases v <;> simp only [stringCst] at h <;> try cases h
    simp only [WFC]
    cases q
    · simp only [Bool.false_eq_true, if_false]; exact validBody_quoteBody _ _
    · simp only [if_true]; exact validBody_quoteBody _ _
  | number =>
    simp only [cstT] at h
    cases v <;> simp only [numberCst] at h <;> try cases h
    rename_i s
    cases hn : isValidNumber (if s.isEmpty = true then [48] else s) with
    | false => rw [hn] at h; simp only [Bool.false_eq_true, if_false] at h; cases h
    | true =>
      rw [hn] at h
      simp only [if_true, Option.some.injEq] at h
      subst h
      exact WFC_litOrStr q _ (validLit_of_isValidNumber _ hn) (validBody_of_isValidNumber _ hn)
  | iface =>
    simp only [cstT] at h
    cases v <;> simp only [ifaceCst] at h <;> try cases h
    · exact validLit_null
    · rename_i dt dv
      simp only [GoVal.typesWf, Bool.and_eq_true] at hv
      exact hg q dt dv c ⟨hv.1, hv.2⟩ h
  | struct n fs =>
    simp only [cstT] at h
    cases v <;> simp only [structCst] at h <;> try cases h
    rename_i vs
    cases hr : encFields g (.struct n fs) (.struct vs) (typeFields (.struct n fs)) with
    | none => rw [hr] at h; cases h
    | some ms =>
      rw [hr] at h
      simp only [Option.some.injEq] at h
      subst h
      simp only [WFC]
      apply WFCM_of_forall
      intro p hp
      obtain ⟨m, hm, rfl⟩ := mem_nameMembers esc ms p hp
      have hall := encFields_forall (fun name a => nameOk name = true ∧ WFC a = true) g (.struct n fs) (.struct vs)
        (typeFields (.struct n fs))
        (fun fld hfld fv hw a ha =>
          ⟨typeFields_names_ok _ nameOk_of_isValidTag ht fld hfld,
           hg fld.quoted _ fv a ⟨wf_typeByIndex _ _ ht, walk_typesWf _ _ fv hw hv⟩ ha⟩)
        ms hr m hm
      exact ⟨validBody_nameBody esc _ hall.1, hall.2⟩
  | map k e =>
    simp only [cstT] at h
    cases v <;> simp only [mapCst] at h <;> try cases h
    · exact validLit_null
    · rename_i ms
      cases hr : encEntries (g q e) ms with
      | none => rw [hr] at h; cases h
      | some kvs =>
        rw [hr] at h
        simp only [Option.some.injEq] at h
        subst h
        simp only [WFC]
        apply WFCM_of_forall
        intro p hp
        obtain ⟨m, hm, rfl⟩ := mem_keyMembers esc _ p hp
        rw [mem_sortKV] at hm
        simp only [GoVal.typesWf] at hv
        simp only [GoType.wf] at ht
        have hall := encEntries_forall (fun a => WFC a = true) (g q e) ms
          (fun x hx a ha => hg q e x.2 a ⟨ht, typesWfM_mem ms hv x hx⟩ ha) kvs hr m hm
        exact ⟨validBody_quoteBody _ _, hall⟩
  | slice e =>
    simp only [cstT] at h
    simp only [GoType.wf] at ht
    cases hu : e.isUint8 with
    | true =>
      rw [hu] at h
      simp only [if_true] at h
      cases v <;> simp only [bytesCst] at h <;> try cases h
      · exact validLit_null
      · simp only [WFC]; exact validBody_base64 _
    | false =>
      rw [hu] at h
      simp only [Bool.false_eq_true, if_false] at h
      cases v <;> simp only [sliceCst] at h <;> try cases h
      · exact validLit_null
      · rename_i xs
        simp only [GoVal.typesWf] at hv
        exact arrayCstBody_wfc (g q e) xs c (fun x hx a ha => hg q e x a ⟨ht, typesWfL_mem xs hv x hx⟩ ha) h
  | array n e =>
    simp only [cstT] at h
    simp only [GoType.wf] at ht
    cases v <;> simp only [arrayCst] at h <;> try cases h
    rename_i xs
    simp only [GoVal.typesWf] at hv
    by_cases hl : xs.length = n
    · simp only [hl, if_true] at h
      exact arrayCstBody_wfc (g q e) xs c (fun x hx a ha => hg q e x a ⟨ht, typesWfL_mem xs hv x hx⟩ ha) h
    · simp only [hl, if_false] at h; cases h
  | ptr e =>
    simp only [cstT] at h
    simp only [GoType.wf] at ht
    cases v <;> simp only [ptrCst] at h <;> try cases h
    · exact validLit_null
    · rename_i pv
      simp only [GoVal.typesWf] at hv
      exact hg q e pv c ⟨ht, hv⟩ h

theorem cst_wfc (esc : Bool) : ∀ (fuel : Nat) (q : Bool) (t : GoType) (v : GoVal) (c : Cst),
    Ok t v → cst esc fuel q t v = some c → WFC c = true
  | 0, _, _, _, _, _, h => by simp only [cst] at h; cases h
  | fuel + 1, q, t, v, c, hok, h => by
    simp only [cst] at h
    exact cstT_wfc esc (cst esc fuel) (cst_wfc esc fuel) q t v c hok h

/-! ### the tree is no deeper than the value -/

theorem arrayCstBody_depth (g : GoVal → Option Cst) (xs : List GoVal) (c : Cst)
    (hg : ∀ x ∈ xs, ∀ a, g x = some a → a.depth ≤ x.depth) (h : arrayCstBody g xs = some c) :
    c.depth ≤ depthL xs + 1 := by
  simp only [arrayCstBody] at h
  cases hr : encAll g xs with
  | none => rw [hr] at h; cases h
  | some cs =>
    rw [hr] at h
    simp only [Option.some.injEq] at h
    subst h
    simp only [Cst.depth]
    have := depthL_le_of_forall (depthL xs) cs
      (encAll_forall (fun a => a.depth ≤ depthL xs) g xs
        (fun x hx a ha => Nat.le_trans (hg x hx a ha) (depthL_mem xs x hx)) cs hr)
    omega

theorem cstT_depth (esc : Bool) (g : Bool → GoType → GoVal → Option Cst)
    (hg : ∀ q t v c, g q t v = some c → c.depth ≤ v.depth)
    (q : Bool) (t : GoType) (v : GoVal) (c : Cst) (h : cstT esc g q t v = some c) : c.depth ≤ v.depth := by
  cases t with
  | bool =>
    simp only [cstT] at h
    cases v <;> simp only [boolCst] at h <;> try cases h
    simp only [depth_litOrStr]; exact Nat.zero_le _
  | int k =>
    simp only [cstT] at h
    cases v <;> simp only [intCst] at h <;> try cases h
    simp only [depth_litOrStr]; exact Nat.zero_le _
  | uint k =>
    simp only [cstT] at h
    cases v <;> simp only [uintCst] at h <;> try cases h
    simp only [depth_litOrStr]; exact Nat.zero_le _
  | string =>
    simp only [cstT] at h
    cases v <;> simp only [stringCst] at h <;> try cases h
    exact Nat.zero_le _
  | number =>
    simp only [cstT] at h
    cases v <;> simp only [numberCst] at h <;> try cases h
    rename_i s
    cases hn : isValidNumber (if s.isEmpty = true then [48] else s) with
    | false => rw [hn] at h; simp only [Bool.false_eq_true, if_false] at h; cases h
    | true =>
      rw [hn] at h
      simp only [if_true, Option.some.injEq] at h
      subst h
      simp only [depth_litOrStr]; exact Nat.zero_le _
  | iface =>
    simp only [cstT] at h
    cases v <;> simp only [ifaceCst] at h <;> try cases h
    · exact Nat.zero_le _
    · rename_i dt dv
      simp only [GoVal.depth]
      exact hg q dt dv c h
  | struct n fs =>
    simp only [cstT] at h
    cases v <;> simp only [structCst] at h <;> try cases h
    rename_i vs
    cases hr : encFields g (.struct n fs) (.struct vs) (typeFields (.struct n fs)) with
    | none => rw [hr] at h; cases h
    | some ms =>
      rw [hr] at h
      simp only [Option.some.injEq] at h
      subst h
      simp only [Cst.depth, GoVal.depth]
      have : Cst.depthM (nameMembers esc ms) ≤ depthL vs := by
        apply depthM_le_of_forall
        intro p hp
        obtain ⟨m, hm, rfl⟩ := mem_nameMembers esc ms p hp
        have hall := encFields_forall (fun _ a => a.depth + 1 ≤ (GoVal.struct vs).depth) g (.struct n fs) (.struct vs)
          (typeFields (.struct n fs))
          (fun fld hfld fv hw a ha => by
            have h1 := hg fld.quoted _ fv a ha
            have h2 := walk_depth_lt fld.index _ fv (typeFields_index_ne_nil _ fld hfld) hw
            omega)
          ms hr m hm
        simp only [GoVal.depth] at hall
        show m.2.depth ≤ depthL vs
        omega
      omega
  | map k e =>
    simp only [cstT] at h
    cases v <;> simp only [mapCst] at h <;> try cases h
    · exact Nat.zero_le _
    · rename_i ms
      cases hr : encEntries (g q e) ms with
      | none => rw [hr] at h; cases h
      | some kvs =>
        rw [hr] at h
        simp only [Option.some.injEq] at h
        subst h
        simp only [Cst.depth, GoVal.depth]
        have : Cst.depthM (keyMembers esc (sortKV kvs)) ≤ depthM ms := by
          apply depthM_le_of_forall
          intro p hp
          obtain ⟨m, hm, rfl⟩ := mem_keyMembers esc _ p hp
          rw [mem_sortKV] at hm
          exact encEntries_forall (fun a => a.depth ≤ depthM ms) (g q e) ms
            (fun x hx a ha => Nat.le_trans (hg q e x.2 a ha) (depthM_mem ms x hx)) kvs hr m hm
        omega
  | slice e =>
    simp only [cstT] at h
    cases hu : e.isUint8 with
    | true =>
      rw [hu] at h
      simp only [if_true] at h
      cases v <;> simp only [bytesCst] at h <;> try cases h
      · exact Nat.zero_le _
      · exact Nat.zero_le _
    | false =>
      rw [hu] at h
      simp only [Bool.false_eq_true, if_false] at h
      cases v <;> simp only [sliceCst] at h <;> try cases h
      · exact Nat.zero_le _
      · rename_i xs
        simp only [GoVal.depth]
        exact arrayCstBody_depth (g q e) xs c (fun x _ a ha => hg q e x a ha) h
  | array n e =>
    simp only [cstT] at h
    cases v <;> simp only [arrayCst] at h <;> try cases h
    rename_i xs
    by_cases hl : xs.length = n
    · simp only [hl, if_true] at h
      simp only [GoVal.depth]
      exact arrayCstBody_depth (g q e) xs c (fun x _ a ha => hg q e x a ha) h
    · simp only [hl, if_false] at h; cases h
  | ptr e =>
    simp only [cstT] at h
    cases v <;> simp only [ptrCst] at h <;> try cases h
    · exact Nat.zero_le _
    · rename_i pv
      simp only [GoVal.depth]
      exact hg q e pv c h

theorem cst_depth (esc : Bool) : ∀ (fuel : Nat) (q : Bool) (t : GoType) (v : GoVal) (c : Cst),
    cst esc fuel q t v = some c → c.depth ≤ v.depth
  | 0, _, _, _, _, h => by simp only [cst] at h; cases h
  | fuel + 1, q, t, v, c, h => by
    simp only [cst] at h
    exact cstT_depth esc (cst esc fuel) (cst_depth esc fuel) q t v c h

/-! ### the output is one RFC 8259 text -/

theorem typed_wellformed_cst (esc : Bool) (t : GoType) (v : GoVal) (bs : Bytes)
    (ht : t.wf = true) (hv : v.typesWf = true) (hd : v.depth ≤ maxDepth) (h : marshalTyped esc t v = some bs) :
    ∃ c, typedCst esc t v = some c ∧ bs = Cst.print c ∧ parseCst bs = some c := by
  rw [marshalTyped_eq_print] at h
  cases hc : typedCst esc t v with
  | none => rw [hc] at h; cases h
  | some c =>
    rw [hc] at h
    simp only [Option.map_some, Option.some.injEq] at h
    subst h
    refine ⟨c, rfl, rfl, ?_⟩
    exact parse_print c (cst_wfc esc _ false t v c ⟨ht, hv⟩ hc) (Nat.le_trans (cst_depth esc _ false t v c hc) hd)

end Typed
end Codec
end JP
