import JP.Lemmas.HeapLegacyOps
import JP.Lemmas.HeapLegacyStable
import JP.Lemmas.HeapLegacyMarshal

/-!
# The legacy `copy`: the Go code keeps the pointer it found, the value model walks again

`Legacy.opCopy` is first rewritten into named pieces (`opCopy_eq`); the stability of `find`
(`HeapLegacyStable`) shows that the value model's third and fourth walks reach the cells the heap
model still holds pointers to.
-/

namespace JP
namespace Heap
namespace Lg

open JP.Impl (Outcome)
open JP.Legacy (Node NMembers walk Walk putChild conGet Op StrField ValField)

def LRelAcc (h : Heap) (fp : List Nat) (x : St × Int) (y : Node × Int) : Prop :=
  LRelSt h fp x.1 y.1 ∧ x.2 = y.2

def vCopyLink (neg : Bool) (limit acc : Int) (path : Bytes) (root2 : Node) (val : Node) : Outcome (Node × Int) :=
  if limit > 0 ∧ acc + ((Legacy.deepCopy val).2 : Int) > limit then .err .copySize
  else
    match Legacy.liftWalk (Legacy.withPath neg root2 path fun con key =>
        Legacy.unitAct (Legacy.conAdd neg con key (Legacy.deepCopy val).1)) with
    | .ok root3 => .ok (root3, acc + ((Legacy.deepCopy val).2 : Int))
    | .err e => .err e
    | .panic => .panic

def vCopyTail (neg : Bool) (limit acc : Int) (frm path : Bytes) (root1 : Node) : Outcome (Node × Int) :=
  match Legacy.withPath neg root1 path (fun con _ => (.ok (con, ()) : Outcome (Node × Unit))) with
  | .panic => .panic
  | .fail e => .err e
  | .notFound => .err .missing
  | .done root2 _ =>
    match Legacy.copySource neg root2 frm with
    | .done _ val => vCopyLink neg limit acc path root2 val
    | .panic => .panic
    | _ => .err .other

def vCopyFrom (neg : Bool) (limit acc : Int) (frm : Bytes) (op : Op) (root : Node) : Outcome (Node × Int) :=
  match Legacy.copySource neg root frm with
  | .panic => .panic
  | .fail e => .err e
  | .notFound => .err .missing
  | .done root1 _ =>
    match op.path with
    | .ok path => vCopyTail neg limit acc frm path root1
    | _ => .err .missing

theorem opCopy_eq (neg : Bool) (limit : Int) (root : Node) (acc : Int) (op : Op) :
    Legacy.opCopy neg limit root acc op =
      match op.frm with
      | .missing => .err .missing
      | .bad => .err .other
      | .ok frm => vCopyFrom neg limit acc frm op root := by
  unfold Legacy.opCopy Legacy.copyPrepare vCopyFrom
  cases op.frm with
  | missing => rfl
  | bad => rfl
  | ok frm =>
    simp only
    cases Legacy.copySource neg root frm with
    | panic => rfl
    | fail e => rfl
    | notFound => rfl
    | done root1 v1 =>
      simp only
      cases hp : op.path with
      | missing => rfl
      | bad => rfl
      | ok path =>
        simp only [vCopyTail]
        cases Legacy.withPath neg root1 path (fun con _ => (.ok (con, ()) : Outcome (Node × Unit))) with
        | panic => rfl
        | fail e => rfl
        | notFound => rfl
        | done root2 u =>
          simp only
          cases Legacy.copySource neg root2 frm with
          | panic => rfl
          | fail e => rfl
          | notFound => rfl
          | done r3 val =>
            simp only [vCopyLink]
            by_cases hl : limit > 0 ∧ acc + ((Legacy.deepCopy val).2 : Int) > limit
            · simp only [hl, and_self, if_true]
            · simp only [hl, if_false]
              cases Legacy.liftWalk (Legacy.withPath neg root2 path fun con key =>
                Legacy.unitAct (Legacy.conAdd neg con key (Legacy.deepCopy val).1)) <;> rfl

/-- `deepCopy`: nil stays nil; anything else is marshalled (the recursion returns: the source is a
tree) into ONE fresh raw cell -/
theorem hDeepCopy_refines {h : Heap} {v : Node} {p : Ptr} {fv : List Nat} (rv : LRepr h v p fv) :
    ∃ ext cp fcp, hDeepCopy h p = .ok (h ++ ext, cp, (Legacy.deepCopy v).2) ∧
      LRepr (h ++ ext) (Legacy.deepCopy v).1 cp fcp ∧ ∀ x ∈ fcp, h.length ≤ x := by
  cases p with
  | none =>
    obtain ⟨rfl, _⟩ := LRepr.none_iff rv
    exact ⟨[], none, [], by simp [hDeepCopy, Legacy.deepCopy], by simpa [Legacy.deepCopy] using LRepr.mk_nil h,
      fun x hx => by cases hx⟩
  | some a =>
    have hm := marshal_fuelOf rv
    have hd : Legacy.deepCopy v = (.raw (Legacy.cstOf v), (Cst.print (Legacy.cstOf v)).length) := by
      cases v with
      | nil => simp only [LRepr] at rv; cases rv.1
      | rawNil => rfl
      | raw c => rfl
      | doc m => rfl
      | ary k => rfl
      | docNil => rfl
    refine ⟨[.raw (Legacy.cstOf v)], some h.length, [h.length], ?_, ?_, fun x hx => by simp at hx; omega⟩
    · simp only [hDeepCopy, hm, hd]
    · rw [hd]; exact LRepr.mk_raw (by simp)

theorem copyLink_refines (neg : Bool) (limit : Int) {h0 : Heap} {fp : List Nat} {h2 : Heap} {root : Nat}
    {r2 : Node} {fpB : List Nat} (acc : Int) (path : Bytes) {p : Ptr} {v : Node} {fv : List Nat}
    (hr2 : LRepr h2 r2 (some root) fpB) (e02 : Ext h0 h2 fp fpB) (rv : LRepr h2 v p fv)
    {c2 : Nat} {key2 : Bytes} (hfind : findObject neg h2 root path = .ok (h2, some (c2, key2))) :
    OutRel (LRelAcc h0 fp) (copyLink neg limit root acc h2 p c2 key2) (vCopyLink neg limit acc path r2 v) := by
  obtain ⟨ext, cp, fcp, hdc, rcp, frcp⟩ := hDeepCopy_refines rv
  unfold copyLink vCopyLink
  rw [hdc]
  simp only
  by_cases hl : limit > 0 ∧ acc + ((Legacy.deepCopy v).2 : Int) > limit
  · simp only [hl, and_self, if_true, OutRel_err_err]
  · simp only [hl, if_false]
    have hF := findObject_refines neg r2 path hr2
    rw [hfind] at hF
    simp only [FoundP] at hF
    obtain ⟨conc, fc, ctx, plug, hrc, dc, e1, hctx, vctx, hw⟩ := hF
    rw [hw]
    have dv : Disj fcp fc := by
      intro x hx hy
      have := frcp x hx
      have := LRepr.valid hrc x hy
      omega
    have hA := hAdd_refines neg key2 (LRepr.alloc hrc ext) rcp dv
    rcases outCases hA with ⟨a1, a2⟩ | ⟨e, a1, a2⟩ | ⟨h', con', a1, a2, hW⟩
    · simp [a1, a2, doneOf, Legacy.liftWalk, Legacy.unitAct]
    · simp [a1, a2, doneOf, Legacy.liftWalk, Legacy.unitAct]
    · simp only [a1, a2, doneOf, Legacy.liftWalk, Legacy.unitAct, OutRel_ok_ok, LRelAcc]
      obtain ⟨fp', hr', e'⟩ := link_fresh hrc dc e1 hctx vctx frcp hW
      exact ⟨⟨fp', hr', Ext.trans e02 e'⟩, trivial⟩

/-- the context closed again over the unchanged container -/
theorem ctx_close {h0 : Heap} {fp : List Nat} {h2 : Heap} {root c : Nat} {conc : Node} {fc ctx : List Nat}
    {plug : Node → Node} (hrc : LRepr h2 conc (some c) fc) (dc : Disj fc ctx)
    (e : Ext h0 h2 fp (fc ++ ctx)) (hctx : LCtx h2 root c ctx plug) :
    ∃ fpB, LRepr h2 (plug conc) (some root) fpB ∧ Ext h0 h2 fp fpB := by
  obtain ⟨fpB, hr, sub⟩ := hctx h2 conc fc hrc (fun _ _ => rfl) dc
  exact ⟨fpB, hr, e.len, e.frame, fun x hx => e.sub x (by simpa using sub x hx)⟩

theorem copyTail_refines (neg : Bool) (limit : Int) {h0 : Heap} {fp : List Nat} {h1 : Heap} {root : Nat}
    {r1 : Node} {fpA : List Nat} (acc : Int) (frm path : Bytes) (p : Ptr)
    (hr1 : LRepr h1 r1 (some root) fpA) (e01 : Ext h0 h1 fp fpA)
    {c : Nat} {key : Bytes}
    (hsrc : ∀ h2, Mono h1 h2 → findObject neg h2 root frm = .ok (h2, some (c, key)))
    (hget : hGet neg h1 c key = .ok p) :
    OutRel (LRelAcc h0 fp)
      (match findObject neg h1 root path with
       | .panic => .panic
       | .err e => .err e
       | .ok (_, none) => .err .missing
       | .ok (h2, some (c2, key2)) => copyLink neg limit root acc h2 p c2 key2)
      (vCopyTail neg limit acc frm path r1) := by
  unfold vCopyTail
  have hF := findObject_refines neg r1 path hr1
  cases hf : findObject neg h1 root path with
  | panic =>
    rw [hf] at hF; simp only [FoundP] at hF
    rw [hF]; simp
  | err e => rw [hf] at hF; simp only [FoundP] at hF
  | ok res =>
    obtain ⟨h2, oc⟩ := res
    obtain ⟨m12, hst⟩ := findObject_stable hf
    rw [hf] at hF
    cases oc with
    | none =>
      simp only [FoundP] at hF
      rw [hF]; simp
    | some ck =>
      obtain ⟨c2, key2⟩ := ck
      simp only [FoundP] at hF
      obtain ⟨conc, fc, ctx, plug, hrc, dc, e1, hctx, vctx, hw⟩ := hF
      rw [hw]
      simp only [doneOf]
      obtain ⟨fpB, hr2, e12⟩ := ctx_close hrc dc e1 hctx
      have e02 := Ext.trans e01 e12
      have hfind2 := hst c2 key2 rfl h2 (Mono.refl _)
      have hF3 := findObject_refines neg (plug conc) frm hr2
      rw [hsrc h2 m12] at hF3
      simp only [FoundP] at hF3
      obtain ⟨conc3, fc3, ctx3, plug3, hrc3, _, _, _, _, hw3⟩ := hF3
      have hG := hGet_refines neg key hrc3
      rw [hGet_mono hget m12] at hG
      simp only [Legacy.copySource]
      rw [hw3]
      cases hc : conGet neg conc3 key with
      | panic => rw [hc] at hG; simp at hG
      | err e => rw [hc] at hG; simp at hG
      | ok v =>
        rw [hc] at hG; simp only [OutRel_ok_ok] at hG
        obtain ⟨fv, rv, _⟩ := Got.repr hG
        simp only [doneOf]
        exact copyLink_refines neg limit acc path hr2 e02 rv hfind2

theorem copyFrom_refines (neg : Bool) (limit : Int) {s : St} {r : Node} {fp : List Nat} (acc : Int)
    (frm : Bytes) (op : Op) (hr : LRepr s.h r (some s.root) fp) :
    OutRel (LRelAcc s.h fp) (copyFrom neg limit s acc frm op) (vCopyFrom neg limit acc frm op r) := by
  unfold copyFrom vCopyFrom
  have hF := findObject_refines neg r frm hr
  cases hf : findObject neg s.h s.root frm with
  | panic =>
    rw [hf] at hF; simp only [FoundP] at hF
    simp only [Legacy.copySource]
    rw [hF]; simp
  | err e => rw [hf] at hF; simp only [FoundP] at hF
  | ok res =>
    obtain ⟨h1, oc⟩ := res
    obtain ⟨_, hst⟩ := findObject_stable hf
    rw [hf] at hF
    cases oc with
    | none =>
      simp only [FoundP] at hF
      simp only [Legacy.copySource]
      rw [hF]; simp
    | some ck =>
      obtain ⟨c, key⟩ := ck
      simp only [FoundP] at hF
      obtain ⟨conc, fc, ctx, plug, hrc, dc, e1, hctx, vctx, hw⟩ := hF
      simp only [Legacy.copySource]
      rw [hw]
      rcases outCases (hGet_refines neg key hrc) with ⟨g1, g2⟩ | ⟨e, g1, g2⟩ | ⟨p, n0, g1, g2, _⟩
      · simp [g1, g2, doneOf]
      · simp [g1, g2, doneOf]
      · simp only [g1, g2, doneOf]
        obtain ⟨fpA, hr1, e01⟩ := ctx_close hrc dc e1 hctx
        unfold copyTail
        cases op.path with
        | missing => simp
        | bad => simp
        | ok path =>
          simp only
          exact copyTail_refines neg limit acc frm path p hr1 e01
            (fun h2 m => hst c key rfl h2 m) g1

theorem opCopy_refines (neg : Bool) (limit : Int) {s : St} {r : Node} {fp : List Nat} (acc : Int) (op : Op)
    (hr : LRepr s.h r (some s.root) fp) :
    OutRel (LRelAcc s.h fp) (Lg.opCopy neg limit s acc op) (Legacy.opCopy neg limit r acc op) := by
  rw [opCopy_eq]
  unfold Lg.opCopy
  cases op.frm with
  | missing => simp
  | bad => simp
  | ok frm => exact copyFrom_refines neg limit acc frm op hr

end Lg
end Heap
end JP
