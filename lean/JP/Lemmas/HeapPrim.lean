import JP.Lemmas.HeapList

/-!
# Heap primitives refine the value model: allocation of children, `intoDoc`, `intoAry`
-/

namespace JP
namespace Heap

open JP.Impl (Node NMembers Outcome childOf decodeMembers setN)

/-- two outcomes of the same class; on success the results are related by `R` -/
def OutRel {α β : Type} (R : α → β → Prop) : Outcome α → Outcome β → Prop
  | .ok a, .ok b => R a b
  | .err e, .err e' => e = e'
  | .panic, .panic => True
  | _, _ => False

@[simp] theorem OutRel_ok_ok {α β} (R : α → β → Prop) (a b) : OutRel R (.ok a) (.ok b) = R a b := rfl
@[simp] theorem OutRel_err_err {α β} (R : α → β → Prop) (e e') :
    OutRel R (.err e : Outcome α) (.err e' : Outcome β) = (e = e') := rfl
@[simp] theorem OutRel_panic_panic {α β} (R : α → β → Prop) :
    OutRel R (.panic : Outcome α) (.panic : Outcome β) = True := rfl
@[simp] theorem OutRel_ok_err {α β} (R : α → β → Prop) (a e) : OutRel R (.ok a) (.err e : Outcome β) = False := rfl
@[simp] theorem OutRel_ok_panic {α β} (R : α → β → Prop) (a) : OutRel R (.ok a) (.panic : Outcome β) = False := rfl
@[simp] theorem OutRel_err_ok {α β} (R : α → β → Prop) (e b) : OutRel R (.err e : Outcome α) (.ok b) = False := rfl
@[simp] theorem OutRel_err_panic {α β} (R : α → β → Prop) (e) :
    OutRel R (.err e : Outcome α) (.panic : Outcome β) = False := rfl
@[simp] theorem OutRel_panic_ok {α β} (R : α → β → Prop) (b) : OutRel R (.panic : Outcome α) (.ok b) = False := rfl
@[simp] theorem OutRel_panic_err {α β} (R : α → β → Prop) (e) :
    OutRel R (.panic : Outcome α) (.err e : Outcome β) = False := rfl

theorem OutRel.mono {α β} {R S : α → β → Prop} (hRS : ∀ a b, R a b → S a b) {x : Outcome α} {y : Outcome β}
    (hxy : OutRel R x y) : OutRel S x y := by
  cases x <;> cases y <;> simp only [OutRel] at hxy ⊢
  · exact hRS _ _ hxy
  · exact hxy

/-- what an operation confined to the footprint `f` may do to the heap: allocate, and write inside
`f`; its new footprint `f'` consists of cells of `f` and of fresh cells -/
structure Ext (h h' : Heap) (f f' : List Nat) : Prop where
  len : h.length ≤ h'.length
  frame : ∀ x, x < h.length → x ∉ f → h'[x]? = h[x]?
  sub : ∀ x ∈ f', x ∈ f ∨ h.length ≤ x

theorem Ext.refl (h : Heap) (f : List Nat) : Ext h h f f :=
  ⟨Nat.le_refl _, fun _ _ _ => rfl, fun _ hx => Or.inl hx⟩

theorem Ext.trans {h h1 h2 : Heap} {f f1 f2 : List Nat} (e1 : Ext h h1 f f1) (e2 : Ext h1 h2 f1 f2) :
    Ext h h2 f f2 := by
  refine ⟨Nat.le_trans e1.len e2.len, fun x hx hf => ?_, fun x hx => ?_⟩
  · rw [e2.frame x (Nat.lt_of_lt_of_le hx e1.len) ?_, e1.frame x hx hf]
    intro h1f
    rcases e1.sub x h1f with h' | h'
    · exact hf h'
    · omega
  · rcases e2.sub x hx with h' | h'
    · exact e1.sub x h'
    · exact Or.inr (Nat.le_trans e1.len h')

/-- a tree outside the footprint of an operation is untouched by it -/
theorem Repr.ext {h h' : Heap} {f f' g : List Nat} {n p} (r : Repr h n p g) (e : Ext h h' f f')
    (d : Disj g f) : Repr h' n p g :=
  Repr.frame n r (fun x hx => e.frame x (Repr.valid n r x hx) (d x hx))

theorem ReprL.ext {h h' : Heap} {f f' g : List Nat} {ns ps} (r : ReprL h ns ps g) (e : Ext h h' f f')
    (d : Disj g f) : ReprL h' ns ps g :=
  ReprL.frame ns r (fun x hx => e.frame x (ReprL.valid ns r x hx) (d x hx))

theorem ReprM.ext {h h' : Heap} {f f' g : List Nat} {ms ps} (r : ReprM h ms ps g) (e : Ext h h' f f')
    (d : Disj g f) : ReprM h' ms ps g :=
  ReprM.frame ms r (fun x hx => e.frame x (ReprM.valid ms r x hx) (d x hx))

/-- the new footprint stays disjoint from anything allocated that was disjoint from the old one -/
theorem Ext.disj {h h' : Heap} {f f' g : List Nat} (e : Ext h h' f f') (d : Disj g f)
    (v : ∀ x ∈ g, x < h.length) : Disj g f' := by
  intro x hx hy
  rcases e.sub x hy with h1 | h1
  · exact d x hx h1
  · have := v x hx; omega

/-! ### allocation of decoded children -/

theorem newChild_spec (h : Heap) (c : Cst) :
    ∃ ext f, (newChild h c).1 = h ++ ext ∧ Repr (newChild h c).1 (childOf c) (newChild h c).2 f ∧
      ∀ x ∈ f, h.length ≤ x := by
  unfold newChild childOf
  by_cases hc : c.isNullLit = true
  · simp only [hc, if_true]
    exact ⟨[], [], by simp, Repr.mk_nil h, fun x hx => by cases hx⟩
  · simp only [hc]
    refine ⟨[.raw c], [h.length], rfl, Repr.mk_raw (by simp), fun x hx => ?_⟩
    simp only [List.mem_singleton] at hx; omega

theorem newChildren_spec : ∀ (xs : List Cst) (h : Heap),
    ∃ ext f, (newChildren h xs).1 = h ++ ext ∧
      ReprL (newChildren h xs).1 (xs.map childOf) (newChildren h xs).2 f ∧ ∀ x ∈ f, h.length ≤ x
  | [], h => ⟨[], [], by simp [newChildren], by simp [newChildren, ReprL], fun x hx => by cases hx⟩
  | c :: cs, h => by
    obtain ⟨e1, f1, he1, r1, fr1⟩ := newChild_spec h c
    obtain ⟨e2, f2, he2, r2, fr2⟩ := newChildren_spec cs (newChild h c).1
    simp only [newChildren, List.map_cons]
    refine ⟨e1 ++ e2, f1 ++ f2, by rw [he2, he1, List.append_assoc], ?_, fun x hx => ?_⟩
    · refine ReprL.mk_cons (by rw [he2]; exact Repr.alloc r1 e2) r2 ?_
      intro x hx hy
      have h1 := Repr.valid _ r1 x hx
      have h2 := fr2 x hy
      omega
    · simp only [List.mem_append] at hx
      rcases hx with hx | hx
      · exact fr1 x hx
      · have := fr2 x hx
        have : h.length ≤ (newChild h c).1.length := by rw [he1]; simp
        omega

theorem newMembers_spec : ∀ (ms : List (Bytes × Cst)) (h : Heap) (accN : NMembers) (accP : PMembers)
    (facc : List Nat), ReprM h accN accP facc →
    ∃ ext f, (newMembers h ms accP).1 = h ++ ext ∧
      ReprM (newMembers h ms accP).1 (decodeMembers ms accN) (newMembers h ms accP).2 f ∧
      ∀ x ∈ f, x ∈ facc ∨ h.length ≤ x
  | [], h, accN, accP, facc, r =>
    ⟨[], facc, by simp [newMembers], by simpa [newMembers, decodeMembers] using r, fun x hx => Or.inl hx⟩
  | (k, v) :: ms, h, accN, accP, facc, r => by
    obtain ⟨e1, f1, he1, r1, fr1⟩ := newChild_spec h v
    have racc : ReprM (newChild h v).1 accN accP facc := by rw [he1]; exact ReprM.alloc r e1
    have d : Disj f1 facc := by
      intro x hx hy
      have h1 := fr1 x hx
      have h2 := ReprM.valid _ r x hy
      omega
    obtain ⟨fp1, rset, sub1⟩ := ReprM.set accN (unquote k) racc r1 d
    obtain ⟨e2, f2, he2, r2, fr2⟩ := newMembers_spec ms (newChild h v).1 _ _ fp1 rset
    simp only [newMembers, decodeMembers]
    refine ⟨e1 ++ e2, f2, by rw [he2, he1, List.append_assoc], r2, fun x hx => ?_⟩
    have hl : h.length ≤ (newChild h v).1.length := by rw [he1]; simp
    rcases fr2 x hx with h1 | h1
    · rcases sub1 x h1 with h2 | h2
      · exact Or.inr (fr1 x h2)
      · exact Or.inl h2
    · exact Or.inr (by omega)

/-! ### `intoDoc` / `intoAry` at the root of a footprint -/

/-- the result of an in-place step on the node at `a`: the same address now stands for `n'` -/
def Step (h : Heap) (a : Nat) (f : List Nat) (h' : Heap) (n' : Node) : Prop :=
  ∃ f', Repr h' n' (some a) f' ∧ Ext h h' f f'

theorem set_after_alloc_ext {h : Heap} {ext : List Cell} {a : Nat} {c : Cell} {f f' : List Nat}
    (ha : a ∈ f) (sub : ∀ x ∈ f', x ∈ f ∨ h.length ≤ x) : Ext h ((h ++ ext).set a c) f f' := by
  refine ⟨by simp, fun x hx hf => ?_, sub⟩
  rw [List.getElem?_set_ne (by intro e; exact hf (e ▸ ha))]
  exact List.getElem?_append_left hx

theorem intoDoc_refines {h : Heap} {n : Node} {a : Nat} {f : List Nat} (r : Repr h n (some a) f) :
    OutRel (fun h' n' => Step h a f h' n') (intoDoc h (some a)) (Impl.intoDoc n) := by
  have hv := Repr.valid n r
  cases n with
  | nil => simp only [Repr] at r; cases r.1
  | raw c =>
    simp only [Repr] at r; obtain ⟨a', e, ha, rfl⟩ := r; cases e
    simp only [intoDoc, ha]
    cases c with
    | obj ms =>
      simp only [cellIntoDoc, Impl.intoDoc, OutRel_ok_ok, Impl.decodeDoc]
      obtain ⟨ext, f', he, rm, fr⟩ := newMembers_spec ms h [] [] [] (ReprM.mk_nil h)
      have halt : a < h.length := hv a (by simp)
      have hnot : a ∉ f' := by
        intro hx
        rcases fr a hx with h1 | h1
        · cases h1
        · omega
      refine ⟨a :: f', Repr.mk_doc ?_ (ReprM.write rm _ hnot) hnot, ?_⟩
      · rw [List.getElem?_set_self]; rw [he]; simp; omega
      · rw [he]
        refine set_after_alloc_ext (by simp) (fun x hx => ?_)
        simp only [List.mem_cons] at hx
        rcases hx with rfl | hx
        · exact Or.inl (by simp)
        · rcases fr x hx with h1 | h1
          · cases h1
          · exact Or.inr h1
    | lit s => simp [cellIntoDoc, Impl.intoDoc]
    | str s => simp [cellIntoDoc, Impl.intoDoc]
    | arr s => simp [cellIntoDoc, Impl.intoDoc]
  | doc keys ms =>
    have r0 := r
    simp only [Repr] at r; obtain ⟨a', ps, f0, e, ha, hm, hn, rfl⟩ := r; cases e
    simp only [intoDoc, ha, cellIntoDoc, Impl.intoDoc, OutRel_ok_ok]
    exact ⟨_, r0, Ext.refl _ _⟩
  | ary ns =>
    simp only [Repr] at r; obtain ⟨a', ps, f0, e, ha, hm, hn, rfl⟩ := r; cases e
    simp [intoDoc, ha, cellIntoDoc, Impl.intoDoc]
  | docNil =>
    simp only [Repr] at r; obtain ⟨a', e, ha, rfl⟩ := r; cases e
    simp [intoDoc, ha, cellIntoDoc, Impl.intoDoc]
  | nilAry =>
    simp only [Repr] at r; obtain ⟨a', e, ha, rfl⟩ := r; cases e
    simp [intoDoc, ha, cellIntoDoc, Impl.intoDoc]

theorem intoAry_refines {h : Heap} {n : Node} {a : Nat} {f : List Nat} (r : Repr h n (some a) f) :
    OutRel (fun h' n' => Step h a f h' n') (intoAry h (some a)) (Impl.intoAry n) := by
  have hv := Repr.valid n r
  cases n with
  | nil => simp only [Repr] at r; cases r.1
  | raw c =>
    simp only [Repr] at r; obtain ⟨a', e, ha, rfl⟩ := r; cases e
    simp only [intoAry, ha]
    cases c with
    | arr xs =>
      simp only [cellIntoAry, Impl.intoAry, OutRel_ok_ok, Impl.decodeAry]
      obtain ⟨ext, f', he, rm, fr⟩ := newChildren_spec xs h
      have halt : a < h.length := hv a (by simp)
      have hnot : a ∉ f' := by
        intro hx
        have := fr a hx
        omega
      refine ⟨a :: f', Repr.mk_ary ?_ (ReprL.write rm _ hnot) hnot, ?_⟩
      · rw [List.getElem?_set_self]; rw [he]; simp; omega
      · rw [he]
        refine set_after_alloc_ext (by simp) (fun x hx => ?_)
        simp only [List.mem_cons] at hx
        rcases hx with rfl | hx
        · exact Or.inl (by simp)
        · exact Or.inr (fr x hx)
    | lit s => simp [cellIntoAry, Impl.intoAry]
    | str s => simp [cellIntoAry, Impl.intoAry]
    | obj s => simp [cellIntoAry, Impl.intoAry]
  | ary ns =>
    have r0 := r
    simp only [Repr] at r; obtain ⟨a', ps, f0, e, ha, hm, hn, rfl⟩ := r; cases e
    simp only [intoAry, ha, cellIntoAry, Impl.intoAry, OutRel_ok_ok]
    exact ⟨_, r0, Ext.refl _ _⟩
  | doc keys ms =>
    simp only [Repr] at r; obtain ⟨a', ps, f0, e, ha, hm, hn, rfl⟩ := r; cases e
    simp [intoAry, ha, cellIntoAry, Impl.intoAry]
  | docNil =>
    simp only [Repr] at r; obtain ⟨a', e, ha, rfl⟩ := r; cases e
    simp [intoAry, ha, cellIntoAry, Impl.intoAry]
  | nilAry =>
    simp only [Repr] at r; obtain ⟨a', e, ha, rfl⟩ := r; cases e
    simp [intoAry, ha, cellIntoAry, Impl.intoAry]

theorem ptrIsArray_eq {h : Heap} {n : Node} {a : Nat} {f : List Nat} (r : Repr h n (some a) f) :
    ptrIsArray h (some a) = Impl.rawIsArray n := by
  cases n with
  | nil => simp only [Repr] at r; cases r.1
  | raw c =>
    simp only [Repr] at r; obtain ⟨a', e, ha, rfl⟩ := r; cases e
    simp [ptrIsArray, ha, cellIsArray, Impl.rawIsArray]
  | doc keys ms =>
    simp only [Repr] at r; obtain ⟨a', ps, f0, e, ha, hm, hn, rfl⟩ := r; cases e
    simp [ptrIsArray, ha, cellIsArray, Impl.rawIsArray]
  | ary ns =>
    simp only [Repr] at r; obtain ⟨a', ps, f0, e, ha, hm, hn, rfl⟩ := r; cases e
    simp [ptrIsArray, ha, cellIsArray, Impl.rawIsArray]
  | docNil =>
    simp only [Repr] at r; obtain ⟨a', e, ha, rfl⟩ := r; cases e
    simp [ptrIsArray, ha, cellIsArray, Impl.rawIsArray]
  | nilAry =>
    simp only [Repr] at r; obtain ⟨a', e, ha, rfl⟩ := r; cases e
    simp [ptrIsArray, ha, cellIsArray, Impl.rawIsArray]

/-- the descent step of `findObject` / `ensurePathExists` -/
theorem intoContainer_refines {h : Heap} {n : Node} {a : Nat} {f : List Nat} (r : Repr h n (some a) f) :
    OutRel (fun h' n' => Step h a f h' n') (intoContainer h (some a)) (Impl.intoContainer n) := by
  unfold intoContainer Impl.intoContainer
  rw [ptrIsArray_eq r]
  by_cases hb : Impl.rawIsArray n = true
  · simp only [hb, if_true]; exact intoAry_refines r
  · simp only [hb]; exact intoDoc_refines r

end Heap
end JP
