import JP.Lemmas.EncodeAny
import JP.Lemmas.TextClean
import JP.Lemmas.CloseUtf8

/-!
# The remaining `Marshal` calls of `v5/merge.go`

* `json.Marshal(patchAry.nodes)` (`[]*lazyNode` at top level);
* `json.Marshal(result)` in `createArrayMergePatch` (`[]json.RawMessage`, every element the output of
  `createObjectMergePatch`, i.e. the print of `marshalAny v`): `compact` with escaping re-spells
  nothing, because the encoder already wrote these texts with escaping on.
-/

namespace JP
namespace Codec
namespace Enc
open Impl

mutual
/-- what the encoder wrote with escaping on is a fixed point of the escaper -/
theorem escape_marshalAny : ∀ v : Value, Cst.escape true (marshalAnyE true v) = marshalAnyE true v
  | .null => rfl
  | .bool _ => rfl
  | .num _ => rfl
  | .str s => by
    simp only [marshalAnyE, Cst.escape, if_true, escBody_of_clean _ (quoteBody_clean s)]
  | .arr xs => by simp only [marshalAnyE, Cst.escape, escapeL_marshalAny xs]
  | .obj ms => by simp only [marshalAnyE, Cst.escape, escapeM_marshalAny ms]
theorem escapeL_marshalAny : ∀ xs : List Value, Cst.escapeL true (marshalAnyEL true xs) = marshalAnyEL true xs
  | [] => rfl
  | x :: xs => by simp only [marshalAnyEL, Cst.escapeL, escape_marshalAny x, escapeL_marshalAny xs]
theorem escapeM_marshalAny : ∀ ms : Value.Members, Cst.escapeM true (marshalAnyEM true ms) = marshalAnyEM true ms
  | [] => rfl
  | (k, v) :: ms => by
    simp only [marshalAnyEM, Cst.escapeM, if_true, escBody_of_clean _ (quoteBody_clean k), escape_marshalAny v,
      escapeM_marshalAny ms]
end

/-- elements that are raw messages holding the compact, escaped print of a tree -/
theorem encElems_rawPrints : ∀ cs : List Cst,
    (∀ c ∈ cs, WFC c = true ∧ c.depth ≤ maxDepth ∧ Cst.escape true c = c) →
    encElems true (cs.map fun c => GoVal.rawMsg (some (Cst.print c))) = W.ok (Cst.printL cs)
  | [], _ => rfl
  | c :: cs, h => by
    obtain ⟨h1, h2, h3⟩ := h c (List.mem_cons_self ..)
    have he : enc true (.rawMsg (some (Cst.print c))) = W.ok (Cst.print c) := by
      simp only [enc, encRawMessage_of_parse true _ c (parse_print c h1 h2), h3]
    have ih := encElems_rawPrints cs (fun c' hc' => h c' (List.mem_cons_of_mem _ hc'))
    cases cs with
    | nil => simp only [List.map_cons, List.map_nil, encElems, he, Cst.printL]
    | cons d ds =>
      simp only [List.map_cons] at ih
      simp only [List.map_cons, encElems, he, ih, write_eq, seq_ok_ok, Cst.printL, List.cons_append,
        List.nil_append]

end Enc
end Codec
end JP
