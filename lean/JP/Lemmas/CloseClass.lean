import JP.Lemmas.EngineSpecFacts
import JP.Lemmas.CopyTotal
import JP.Lemmas.AllowAbsent

/-!
# Error classes: which error the engine returns when the specification fails (C08)

`ErrC c er`: the engine error `er` is in the class the specification's cause `c` asks for.
The refinement lemmas of `Engine*.lean` say *that* the engine fails when the specification does;
the lemmas here record *which* error it returns, action by action (`ActC`), walk by walk
(`WalkC`, `withPath_class`), and operation by operation (`opAdd_class`, …).
-/

namespace JP
namespace Impl

open Spec (Res Cause)

/-- the engine error `er` is in the class the specification's cause `c` asks for -/
def ErrC (c : Cause) (er : Err) : Prop :=
  (er = .testFailed ↔ c = .testUnequal) ∧ (er = .copySize ↔ c = .copyLimit) ∧
  (c = .absentMember ∨ c = .parentUnreachable → er = .missing)

theorem ErrC_plain {c : Cause} {er : Err}
    (hc : c = .badIndex ∨ c = .moveFromRoot ∨ c = .rootNotContainer) (he : ¬ Special er) : ErrC c er := by
  simp only [Special, not_or] at he
  refine ⟨⟨fun h => absurd h he.1, ?_⟩, ⟨fun h => absurd h he.2, ?_⟩, ?_⟩
  · rintro rfl; simp at hc
  · rintro rfl; simp at hc
  · rintro (rfl | rfl) <;> simp at hc

theorem ErrC_missing {c : Cause} (hc : c = .absentMember ∨ c = .parentUnreachable) : ErrC c .missing := by
  refine ⟨⟨(fun h => nomatch h), ?_⟩, ⟨(fun h => nomatch h), ?_⟩, fun _ => rfl⟩
  · rintro rfl; simp at hc
  · rintro rfl; simp at hc

theorem ErrC_test : ErrC .testUnequal .testFailed :=
  ⟨⟨fun _ => rfl, fun _ => rfl⟩, ⟨(fun h => nomatch h), (fun h => nomatch h)⟩, fun h => by simp at h⟩

/-! ### causes of the specification's container edits -/

theorem bind_fail {α β} {r : Res α} {f : α → Res β} {c : Cause} (h : r.bind f = .fail c) :
    r = .fail c ∨ ∃ a, r = .ok a ∧ f a = .fail c := by
  cases r with
  | ok a => exact Or.inr ⟨a, rfl, h⟩
  | fail c' => simp only [Res.bind, Res.fail.injEq] at h; subst h; exact Or.inl rfl
  | unspec => cases h

theorem container_cases {p : Value} (h : p.isContainer = true) : (∃ ms, p = .obj ms) ∨ (∃ xs, p = .arr xs) := by
  cases p with
  | obj ms => exact Or.inl ⟨ms, rfl⟩
  | arr xs => exact Or.inr ⟨xs, rfl⟩
  | null => simp [Value.isContainer, Value.isObj, Value.isArr] at h
  | bool b => simp [Value.isContainer, Value.isObj, Value.isArr] at h
  | num l => simp [Value.isContainer, Value.isObj, Value.isArr] at h
  | str s => simp [Value.isContainer, Value.isObj, Value.isArr] at h

theorem addIn_fail {so : Spec.Opts} {v p : Value} {t : Bytes} {c : Cause}
    (h : Spec.addIn so v p t = .fail c) (hp : p.isContainer = true) : c = .badIndex := by
  rcases container_cases hp with ⟨ms, rfl⟩ | ⟨xs, rfl⟩
  · simp [Spec.addIn] at h
  · simp only [Spec.addIn] at h
    split at h
    · cases h
    · cases h; rfl
    · cases h

theorem removeIn_fail {so : Spec.Opts} {p : Value} {t : Bytes} {c : Cause}
    (h : Spec.removeIn so p t = .fail c) (hp : p.isContainer = true) :
    (∃ ms, p = .obj ms ∧ Value.lookup t ms = none ∧ c = .absentMember) ∨ ((∃ xs, p = .arr xs) ∧ c = .badIndex) := by
  rcases container_cases hp with ⟨ms, rfl⟩ | ⟨xs, rfl⟩
  · simp only [Spec.removeIn] at h
    cases hl : Value.lookup t ms with
    | some old => rw [hl] at h; cases h
    | none => rw [hl] at h; cases h; exact Or.inl ⟨ms, rfl, hl, rfl⟩
  · simp only [Spec.removeIn] at h
    refine Or.inr ⟨⟨xs, rfl⟩, ?_⟩
    split at h
    · split at h
      · cases h
      · cases h; rfl
    · cases h; rfl
    · cases h

theorem replaceIn_fail {so : Spec.Opts} {v p : Value} {t : Bytes} {c : Cause}
    (h : Spec.replaceIn so v p t = .fail c) (hp : p.isContainer = true) : c = .absentMember := by
  rcases container_cases hp with ⟨ms, rfl⟩ | ⟨xs, rfl⟩
  · simp only [Spec.replaceIn] at h
    split at h
    · cases h
    · cases h; rfl
  · simp only [Spec.replaceIn] at h
    split at h
    · split at h
      · cases h
      · cases h; rfl
    · cases h; rfl
    · cases h

theorem getIn_fail {so : Spec.Opts} {b : Bool} {p : Value} {t : Bytes} {c : Cause}
    (h : Spec.getIn so b p t = .fail c) (hp : p.isContainer = true) :
    (∃ ms, p = .obj ms ∧ Value.lookup t ms = none ∧ b = false ∧ c = .absentMember) ∨
      ((∃ xs, p = .arr xs) ∧ c = .badIndex) := by
  rcases container_cases hp with ⟨ms, rfl⟩ | ⟨xs, rfl⟩
  · simp only [Spec.getIn] at h
    cases hl : Value.lookup t ms with
    | some old => rw [hl] at h; cases h
    | none =>
      rw [hl] at h
      cases b with
      | true => simp at h
      | false => simp at h; subst h; exact Or.inl ⟨ms, rfl, hl, rfl, rfl⟩
  · simp only [Spec.getIn] at h
    refine Or.inr ⟨⟨xs, rfl⟩, ?_⟩
    split at h
    · split at h
      · cases h
      · cases h; rfl
    · cases h; rfl
    · cases h

theorem testEq_fail {a b : Value} {c : Cause} (h : Spec.testEq a b = .fail c) : c = .testUnequal := by
  unfold Spec.testEq at h
  split at h
  · cases h
  · split at h
    · cases h
    · cases h; rfl

/-- a parsed object whose value has no member `key` has no entry `key` -/
theorem lookupN_none_of_den {e : Bool} {pc : Node} {ms : Value.Members} {key : Bytes}
    (hp : Inv e pc) (hc : isCon pc = true) (hd : den pc = .obj ms) (hl : Value.lookup key ms = none) :
    ∃ keys obj, pc = .doc keys obj ∧ lookupN key obj = none := by
  cases pc with
  | doc keys obj =>
    rw [den_doc_inv hp] at hd
    simp only [Value.obj.injEq] at hd
    subst hd
    rw [lookupN_denM] at hl
    refine ⟨keys, obj, rfl, ?_⟩
    cases hx : lookupN key obj with
    | none => rfl
    | some n => rw [hx] at hl; cases hl
  | ary ns => rw [den_ary] at hd; cases hd
  | nil => simp [isCon] at hc
  | raw c => simp [isCon] at hc
  | docNil => simp [isCon] at hc
  | nilAry => simp [isCon] at hc

/-! ### actions -/

/-- the error of an action is in the class of the cause of the specification's edit -/
def ActC {α β} (e : Bool) (key : Bytes) (act : Node → Node → Bytes → Outcome (Node × α))
    (f : Value → Bytes → Res (Value × β)) : Prop :=
  ∀ s pc c, Inv e pc → isCon pc = true → f (den pc) key = .fail c →
    ∃ er, act s pc key = .err er ∧ ErrC c er

theorem actAdd_class {o : Opts} {e : Bool} {val : Node} {key : Bytes} (hv : Inv e val) (hk : QK e key = true) :
    ActC e key (actAdd o val) (Spec.addIn (specOpts o) (den val)) := by
  intro s pc c hp hc hf
  have href := actAdd_ref (o := o) hv hk s pc hp hc
  rw [hf] at href
  obtain ⟨er, her⟩ := href
  refine ⟨er, her, ErrC_plain (Or.inl (addIn_fail hf (den_isContainer hp hc))) ?_⟩
  simp only [actAdd] at her
  cases hx : conAdd o pc key val with
  | ok c' => rw [hx] at her; cases her
  | err e' => rw [hx] at her; cases her; exact conAdd_not_special hx
  | panic => rw [hx] at her; cases her

theorem actRemove_class {o : Opts} {e : Bool} {key : Bytes} (ha : o.allow = false) :
    ActC e key (actRemove o) (Spec.removeIn (specOpts o)) := by
  intro s pc c hp hc hf
  rcases removeIn_fail hf (den_isContainer hp hc) with ⟨ms, hd, hl, rfl⟩ | ⟨_, rfl⟩
  · obtain ⟨keys, obj, rfl, hn⟩ := lookupN_none_of_den hp hc hd hl
    exact ⟨.missing, by simp [actRemove, conRemove, hn, ha], ErrC_missing (Or.inl rfl)⟩
  · have href := actRemove_ref (e := e) (o := o) (key := key) ha s pc hp hc
    rw [hf] at href
    obtain ⟨er, her⟩ := href
    refine ⟨er, her, ErrC_plain (Or.inl rfl) ?_⟩
    simp only [actRemove] at her
    cases hx : conRemove o pc key with
    | ok c' => rw [hx] at her; cases her
    | err e' => rw [hx] at her; cases her; exact conRemove_not_special hx
    | panic => rw [hx] at her; cases her

theorem actReplace_class {o : Opts} {e : Bool} {val : Node} {key : Bytes} :
    ActC e key (actReplace o val) (Spec.replaceIn (specOpts o) (den val)) := by
  intro s pc c hp hc hf
  have hget := conGet_refines (o := o) (key := key) s hp hc
  have hrel := replaceIn_getIn (specOpts o) (den val) (den pc) key
  rw [hf] at hrel
  obtain ⟨c', hc'⟩ := hrel
  rw [hc'] at hget
  obtain ⟨er, her⟩ := hget
  exact ⟨.missing, by simp [actReplace, her],
    ErrC_missing (Or.inl (replaceIn_fail hf (den_isContainer hp hc)))⟩

theorem conGet_class {o : Opts} {e : Bool} {pc : Node} {key : Bytes} {b : Bool} {c : Cause} (s : Node)
    (hp : Inv e pc) (hc : isCon pc = true)
    (hf : Spec.getIn (specOpts o) b (den pc) key = .fail c) :
    ∃ er, conGet o s pc key = .err er ∧ ErrC c er ∧ (b = true → er ≠ .missing) := by
  rcases getIn_fail hf (den_isContainer hp hc) with ⟨ms, hd, hl, rfl, rfl⟩ | ⟨_, rfl⟩
  · obtain ⟨keys, obj, rfl, hn⟩ := lookupN_none_of_den hp hc hd hl
    exact ⟨.missing, by rw [conGet_doc o s keys obj key, hn], ErrC_missing (Or.inl rfl),
      fun h => by cases h⟩
  · cases b with
    | false =>
      have hget := conGet_refines (o := o) (key := key) s hp hc
      rw [hf] at hget
      obtain ⟨er, her⟩ := hget
      exact ⟨er, her, ErrC_plain (Or.inl rfl) (conGet_not_special her), fun h => by cases h⟩
    | true =>
      have hget := conGet_refines_test (o := o) (key := key) s hp hc
      rw [hf] at hget
      obtain ⟨er, her, hne⟩ := hget
      exact ⟨er, her, ErrC_plain (Or.inl rfl) (conGet_not_special her), fun _ => hne⟩

theorem actMoveSrc_class {o : Opts} {e : Bool} {key : Bytes} :
    ActC e key (actMoveSrc o) (Spec.removeIn (specOpts o)) := by
  intro s pc c hp hc hf
  rcases removeIn_fail hf (den_isContainer hp hc) with ⟨ms, hd, hl, rfl⟩ | ⟨_, rfl⟩
  · obtain ⟨keys, obj, rfl, hn⟩ := lookupN_none_of_den hp hc hd hl
    exact ⟨.missing, by simp [actMoveSrc, conGet_doc o s keys obj key, hn], ErrC_missing (Or.inl rfl)⟩
  · have hrel := removeIn_getIn (specOpts o) (den pc) key
    rw [hf] at hrel
    obtain ⟨c', hc'⟩ := hrel
    have hget := conGet_refines (o := o) (key := key) s hp hc
    rw [hc'] at hget
    obtain ⟨er, her⟩ := hget
    exact ⟨er, by simp [actMoveSrc, her], ErrC_plain (Or.inl rfl) (conGet_not_special her)⟩

theorem actCopySrc_class {o : Opts} {e : Bool} {key : Bytes} :
    ActC e key (actCopySrc o) (Spec.getIn (specOpts o) false) := by
  intro s pc c hp hc hf
  obtain ⟨er, her, hcl, _⟩ := conGet_class (o := o) s hp hc hf
  exact ⟨er, by simp [actCopySrc, her], hcl⟩

theorem actProbe_class {e : Bool} {key : Bytes} :
    ActC e key actProbe (fun p _ => (.ok (p, ()) : Res (Value × Unit))) := by
  intro s pc c _ _ hf
  cases hf

theorem actTest_class (hEq : EqSpec) {o : Opts} {e : Bool} {ov : Option Cst} {key : Bytes}
    (hov : ∀ c, ov = some c → c.valueOf.noDup = true) :
    ActC e key (actTest o ov) (testIn (specOpts o) ((ov.map Cst.valueOf).getD .null)) := by
  intro s pc c hp hc hf
  simp only [testIn] at hf
  rcases bind_fail hf with hg | ⟨pv, hg, hrest⟩
  · obtain ⟨er, her, hcl, hne⟩ := conGet_class (o := o) s hp hc hg
    refine ⟨er, ?_, hcl⟩
    have hne' := hne rfl
    simp only [actTest, her]
    cases er <;> simp at hne' ⊢
  · rcases bind_fail hrest with ht | ⟨u, _, hx⟩
    · have hcause := testEq_fail ht
      subst hcause
      have hfull := conGet_test_full (o := o) (key := key) s hp hc
      rw [hg] at hfull
      refine ⟨.testFailed, ?_, ErrC_test⟩
      rcases hfull with ⟨n, hn, hn1, hn2, _⟩ | ⟨hmiss, hnull⟩
      · have heq := equalTo_refines hEq (ov := ov) hn1 hov
        rw [hn2, ht] at heq
        simp only [actTest, hn]
        cases hx : equalTo n ov with
        | mk b val' =>
          rw [hx] at heq
          simp only at heq
          simp [heq]
      · have heq := equalTo_refines hEq (ov := ov) (Inv_nil e) hov
        simp only [den] at heq
        rw [hnull] at ht
        rw [ht] at heq
        simp only [actTest, hmiss]
        cases hx : equalTo .nil ov with
        | mk b val' =>
          rw [hx] at heq
          simp only at heq
          simp [heq]
    · cases hx

/-! ### walks -/

/-- a walk that did not run its action to success, against the cause of the specification -/
def WalkC {α} (c : Cause) (w : Walk α) : Prop :=
  (∃ con', w = .notFound con' ∧ c = .parentUnreachable) ∨ (∃ er, w = .fail er ∧ ErrC c er)

theorem withPath_class {α β} {o : Opts} {e : Bool} {r : Root} {path : Bytes} {toks : List Bytes}
    {act : Node → Node → Bytes → Outcome (Node × α)} {f : Value → Bytes → Res (Value × β)}
    (hr : InvRoot e r) (hp : Spec.parsePointer path = some toks) (hne : toks ≠ [])
    (hact : ∀ key, key ∈ toks → ActC e key act f) {c : Cause}
    (h : Spec.atParent (specOpts o) f (den r.con) toks = .fail c) :
    WalkC c (withPath o r path act) := by
  obtain ⟨ts, key, htoks, hnav⟩ := withPath_nav (o := o) hr.1 hr.2 hp hne
  subst htoks
  rw [atParent_nav] at h
  have hA := hact key (by simp)
  cases hn : nav (specOpts o) (den r.con) ts with
  | unspec => rw [hn] at h; cases h
  | fail c' =>
    rw [hn] at hnav h
    simp only [Res.bind, Res.fail.injEq] at h
    subst h
    obtain ⟨con', _, _, _, h4⟩ := hnav
    exact Or.inl ⟨con', h4 α act, nav_fail_cause _ _ _ _ hn⟩
  | ok pk =>
    rw [hn] at hnav h
    obtain ⟨s, pc, rb, h1, h2, h3, _, h5⟩ := hnav
    simp only [Res.bind] at h
    rcases bind_fail h with hf | ⟨pa, _, hx⟩
    · rw [← h3] at hf
      obtain ⟨er, her, hcl⟩ := hA s pc c h1 h2 hf
      exact Or.inr ⟨er, by rw [h5, her]; rfl, hcl⟩
    · cases hx

/-- the outcome of an operation against the cause of the specification -/
def OpC (c : Cause) (out : Outcome Root) : Prop := ∃ er, out = .err er ∧ ErrC c er

theorem liftWalk_class {r : Root} {w : Walk Unit} {k : Root → Outcome Root} {c : Cause}
    (hk : ∀ r', k r' = .err .missing) (h : WalkC c w) : OpC c (liftWalk r w k) := by
  rcases h with ⟨con', rfl, rfl⟩ | ⟨er, rfl, hcl⟩
  · exact ⟨.missing, hk _, ErrC_missing (Or.inr rfl)⟩
  · exact ⟨er, rfl, hcl⟩

/-! ### operations -/

theorem root_value_fail {v : Value} {acc : Nat} {c : Cause}
    (h : (if v.isContainer then (.ok (v, acc) : Res (Value × Nat)) else if v.isNull then .unspec
      else .fail .rootNotContainer) = .fail c) : c = .rootNotContainer := by
  split at h
  · cases h
  · split at h
    · cases h
    · cases h; rfl

theorem opAdd_class {o : Opts} {e : Bool} {r : Root} {op : Op} {sop : Spec.Op} {cv : Cst}
    (sz acc : Nat) (he : o.ensure = false) (hr : InvRoot e r)
    (hk : sop.kind = .add) (hpath : sop.path = op.path)
    (hval : op.value = some cv) (hsval : sop.value = some cv.valueOf)
    (hc : Inv e (.raw cv))
    (hq : ∀ toks, Spec.parsePointer op.path = some toks → ∀ t ∈ toks, QK e t = true) {c : Cause}
    (h : Spec.applyOp (specOpts o) sz acc (den r.con) sop = .fail c) : OpC c (opAdd o r op) := by
  have href := opAdd_refines (o := o) sz acc he hr hk hpath hval hsval hc hq
  cases hp : Spec.parsePointer op.path with
  | none =>
    rw [spec_path_none (by rw [hpath]; exact hp) (by simp [hk])] at h
    cases h
    exact ⟨.missing, opAdd_path_none o r op he hp, ErrC_missing (Or.inr rfl)⟩
  | some toks =>
    cases toks with
    | nil =>
      rw [h] at href
      obtain ⟨er, her⟩ := href
      rw [spec_add_root hk (by rw [hpath]; exact hp) hsval] at h
      exact ⟨er, her, ErrC_plain (Or.inr (Or.inr (root_value_fail h))) (opAdd_not_special her)⟩
    | cons t ts =>
      have hne : op.path ≠ [] := fun h => by
        have := (parsePointer_nil_iff hp).2 h; cases this
      rw [spec_add hk (by rw [hpath]; exact hp) hsval (by simp [specOpts, he])] at h
      rw [opAdd_eq_nonroot o r op hne he]
      have hvn : (op.valueNode).getD .nil = .raw cv := by simp [Op.valueNode, hval]
      rw [hvn]
      have hd : (Cst.valueOf cv) = den (.raw cv) := by simp [den]
      rw [hd] at h
      rcases bind_fail h with hf | ⟨a, _, hx⟩
      · exact liftWalk_class (fun _ => rfl)
          (withPath_class hr hp (by simp) (fun key hmem => actAdd_class hc (hq _ hp key hmem)) hf)
      · cases hx

theorem opRemove_class {o : Opts} {e : Bool} {r : Root} {op : Op} {sop : Spec.Op}
    (sz acc : Nat) (hr : InvRoot e r)
    (hk : sop.kind = .remove) (hpath : sop.path = op.path) {c : Cause}
    (h : Spec.applyOp (specOpts o) sz acc (den r.con) sop = .fail c) : OpC c (opRemove o r op) := by
  cases hp : Spec.parsePointer op.path with
  | none =>
    cases ha : o.allow with
    | true =>
      -- with AllowMissingPathOnRemove such a remove is left open by the specification
      simp [Spec.applyOp, hpath, hp, hk, specOpts, ha] at h
    | false =>
      rw [spec_path_none (by rw [hpath]; exact hp) (by simp [hk, specOpts, ha])] at h
      cases h
      refine ⟨.missing, ?_, ErrC_missing (Or.inr rfl)⟩
      rw [opRemove_eq, withPath_of_parsePointer_none _ _ _ hp]
      simp [liftWalk, ha]
  | some toks =>
    cases toks with
    | nil => simp only [Spec.applyOp, hpath, hp, hk] at h; cases h
    | cons t ts =>
      cases ha : o.allow with
      | false =>
        rw [spec_remove hk (by rw [hpath]; exact hp) (by simp [specOpts, ha])] at h
        rw [opRemove_eq]
        rcases bind_fail h with hf | ⟨a, _, hx⟩
        · exact liftWalk_class (fun _ => by simp [ha])
            (withPath_class hr hp (by simp) (fun key _ => actRemove_class ha) hf)
        · cases hx
      | true =>
        -- with AllowMissingPathOnRemove the specification never fails on a remove
        exfalso
        rw [spec_remove_allow hk (by rw [hpath]; exact hp) (by simp [specOpts, ha])] at h
        cases hs : Spec.skipsRemove (specOpts o) (den r.con) (t :: ts) with
        | unspec => rw [hs] at h; cases h
        | fail c' =>
          rw [skipsRemove_eq] at hs
          split at hs <;> cases hs
        | ok b =>
          rw [hs] at h
          cases b with
          | true => cases h
          | false =>
            obtain ⟨q, hq⟩ := AllowLemmas.skips_false_succeeds _ _ _ hs
            simp only [hq, Res.bind] at h
            cases h

theorem opReplace_class {o : Opts} {e : Bool} {r : Root} {op : Op} {sop : Spec.Op} {cv : Cst}
    (sz acc : Nat) (hr : InvRoot e r)
    (hk : sop.kind = .replace) (hpath : sop.path = op.path)
    (hval : op.value = some cv) (hsval : sop.value = some cv.valueOf)
    (hc : Inv e (.raw cv))
    (hq : ∀ toks, Spec.parsePointer op.path = some toks → ∀ t ∈ toks, QK e t = true) {c : Cause}
    (h : Spec.applyOp (specOpts o) sz acc (den r.con) sop = .fail c) : OpC c (opReplace o r op) := by
  have href := opReplace_refines (o := o) sz acc hr hk hpath hval hsval hc hq
  cases hp : Spec.parsePointer op.path with
  | none =>
    rw [spec_path_none (by rw [hpath]; exact hp) (by simp [hk])] at h
    cases h
    exact ⟨.missing, opReplace_path_none o r op hp, ErrC_missing (Or.inr rfl)⟩
  | some toks =>
    cases toks with
    | nil =>
      rw [h] at href
      obtain ⟨er, her⟩ := href
      rw [spec_replace_root hk (by rw [hpath]; exact hp) hsval] at h
      exact ⟨er, her, ErrC_plain (Or.inr (Or.inr (root_value_fail h))) (opReplace_not_special her)⟩
    | cons t ts =>
      have hne : op.path ≠ [] := fun h => by
        have := (parsePointer_nil_iff hp).2 h; cases this
      rw [spec_replace hk (by rw [hpath]; exact hp) hsval] at h
      rw [opReplace_eq_nonroot o r op hne]
      have hvn : (op.valueNode).getD .nil = .raw cv := by simp [Op.valueNode, hval]
      rw [hvn]
      have hd : (Cst.valueOf cv) = den (.raw cv) := by simp [den]
      rw [hd] at h
      rcases bind_fail h with hf | ⟨a, _, hx⟩
      · exact liftWalk_class (fun _ => rfl)
          (withPath_class hr hp (by simp) (fun key _ => actReplace_class) hf)
      · cases hx

/-- the source half of `move` fails: the class of the error is that of the source's cause -/
theorem moveSrc_class {o : Opts} {e : Bool} {r : Root} {op : Op} {f : Bytes} {t : Bytes} {ts : List Bytes}
    (hr : InvRoot e r) (hfo : op.frm = some f) (hpf : Spec.parsePointer f = some (t :: ts)) {c : Cause}
    (hf : Spec.atParent (specOpts o) (Spec.removeIn (specOpts o)) (den r.con) (t :: ts) = .fail c) :
    OpC c (opMove o r op) := by
  have hne : f ≠ [] := fun h => by
    have := (parsePointer_nil_iff hpf).2 h; cases this
  rw [opMove_eq o r op f hfo hne]
  have hw := withPath_class (o := o) (act := actMoveSrc o) hr hpf (by simp)
    (fun key _ => actMoveSrc_class) hf
  rcases hw with ⟨con', hw, rfl⟩ | ⟨er, hw, hcl⟩
  · rw [hw]; exact ⟨.missing, rfl, ErrC_missing (Or.inr rfl)⟩
  · rw [hw]; exact ⟨er, rfl, hcl⟩

theorem opMove_class {o : Opts} {e : Bool} {r : Root} {op : Op} {sop : Spec.Op}
    (sz acc : Nat) (hr : InvRoot e r)
    (hk : sop.kind = .move) (hpath : sop.path = op.path) (hfrm : sop.frm = op.frm.getD [])
    (hq : ∀ toks, Spec.parsePointer op.path = some toks → ∀ t ∈ toks, QK e t = true) {c : Cause}
    (h : Spec.applyOp (specOpts o) sz acc (den r.con) sop = .fail c) : OpC c (opMove o r op) := by
  cases hp : Spec.parsePointer op.path with
  | none =>
    -- the destination is outside RFC 6901: the source half runs first, its failure is reported
    rw [spec_move_path_none hk (by rw [hpath]; exact hp)] at h
    cases hfo : op.frm with
    | none =>
      rw [hfo] at hfrm
      have hnil : Spec.parsePointer sop.frm = some [] := by rw [hfrm]; rfl
      rw [hnil] at h
      cases h
      exact ⟨.missing, by simp [opMove, hfo], ErrC_plain (Or.inr (Or.inl rfl)) (by simp [Special])⟩
    | some f =>
      rw [hfo] at hfrm
      simp only [Option.getD_some] at hfrm
      rw [hfrm] at h
      cases hpf : Spec.parsePointer f with
      | none =>
        rw [hpf] at h
        cases h
        refine ⟨.missing, ?_, ErrC_missing (Or.inr rfl)⟩
        rw [opMove_eq o r op f hfo (parsePointer_none_ne_nil hpf), withPath_of_parsePointer_none _ _ _ hpf]
        rfl
      | some ftoks =>
        rw [hpf] at h
        cases ftoks with
        | nil =>
          cases h
          exact ⟨.invalid, by simp [opMove, hfo, (parsePointer_nil_iff hpf).1 rfl],
            ErrC_plain (Or.inr (Or.inl rfl)) (by simp [Special])⟩
        | cons t ts =>
          simp only at h
          rcases bind_fail h with hf | ⟨dv, hres, hrest⟩
          · exact moveSrc_class hr hfo hpf hf
          · cases hrest
            have hne : f ≠ [] := fun h => by
              have := (parsePointer_nil_iff hpf).2 h; cases this
            have hw : WalkRef e r (fun val old => Inv e val ∧ den val = old)
                (Spec.atParent (specOpts o) (Spec.removeIn (specOpts o)) (den r.con) (t :: ts))
                (withPath o r f (actMoveSrc o)) :=
              withPath_walkRef hr hpf (by simp) (fun key _ => actMoveSrc_ref)
            rw [hres] at hw
            simp only [WalkRef] at hw
            obtain ⟨con', val, hw, _⟩ := hw
            refine ⟨.missing, ?_, ErrC_missing (Or.inr rfl)⟩
            rw [opMove_eq o r op f hfo hne, hw]
            simp only [moveK, withPath_of_parsePointer_none _ _ _ hp, liftWalk]
  | some ptoks =>
    have hp' : Spec.parsePointer sop.path = some ptoks := by rw [hpath]; exact hp
    cases hfo : op.frm with
    | none =>
      rw [hfo] at hfrm
      rw [spec_move_root hk hp' (by rw [hfrm]; rfl)] at h
      cases h
      exact ⟨.missing, by simp [opMove, hfo], ErrC_plain (Or.inr (Or.inl rfl)) (by simp [Special])⟩
    | some f =>
      rw [hfo] at hfrm
      simp only [Option.getD_some] at hfrm
      cases hpf : Spec.parsePointer f with
      | none =>
        rw [spec_move_none hk hp' (by rw [hfrm]; exact hpf)] at h
        cases h
        refine ⟨.missing, ?_, ErrC_missing (Or.inr rfl)⟩
        rw [opMove_eq o r op f hfo (parsePointer_none_ne_nil hpf), withPath_of_parsePointer_none _ _ _ hpf]
        rfl
      | some ftoks =>
        cases ftoks with
        | nil =>
          have hnil : f = [] := (parsePointer_nil_iff hpf).1 rfl
          rw [spec_move_root hk hp' (by rw [hfrm]; exact hpf)] at h
          cases h
          exact ⟨.invalid, by simp [opMove, hfo, hnil], ErrC_plain (Or.inr (Or.inl rfl)) (by simp [Special])⟩
        | cons t ts =>
          have hne : f ≠ [] := fun h => by
            have := (parsePointer_nil_iff hpf).2 h; cases this
          rw [spec_move hk hp' (by rw [hfrm]; exact hpf)] at h
          rw [opMove_eq o r op f hfo hne]
          rcases bind_fail h with hf | ⟨dv, hres, hrest⟩
          · have hw := withPath_class (o := o) (act := actMoveSrc o) hr hpf (by simp)
              (fun key _ => actMoveSrc_class) hf
            rcases hw with ⟨con', hw, rfl⟩ | ⟨er, hw, hcl⟩
            · rw [hw]; exact ⟨.missing, rfl, ErrC_missing (Or.inr rfl)⟩
            · rw [hw]; exact ⟨er, rfl, hcl⟩
          · have hw : WalkRef e r (fun val old => Inv e val ∧ den val = old)
                (Spec.atParent (specOpts o) (Spec.removeIn (specOpts o)) (den r.con) (t :: ts))
                (withPath o r f (actMoveSrc o)) :=
              withPath_walkRef hr hpf (by simp) (fun key _ => actMoveSrc_ref)
            rw [hres] at hw
            simp only [WalkRef] at hw
            obtain ⟨con', val, hw, h1, h2, h3, h4, h5⟩ := hw
            rw [hw]
            simp only [moveK]
            cases ptoks with
            | nil => cases hrest
            | cons pt pts =>
              simp only at hrest
              have hr1 : InvRoot e { r with con := con' } := ⟨h1, h2⟩
              rcases bind_fail hrest with hf | ⟨a, _, hx⟩
              · rw [← h3, ← h5] at hf
                exact liftWalk_class (fun _ => rfl)
                  (withPath_class (o := o) hr1 hp (by simp)
                    (fun key hmem => actAdd_class h4 (hq _ hp key hmem)) hf)
              · cases hx

/-- the two ways of writing `test` fail with the same cause -/
theorem test_spec_cause (so : Spec.Opts) (want doc : Value) (acc : Nat) (toks : List Bytes) (hne : toks ≠ [])
    {c : Cause}
    (h : ((Spec.atParent so (Spec.getIn so true) doc toks).bind fun pv =>
        (Spec.testEq pv.2 want).bind fun _ => (.ok (doc, acc) : Res (Value × Nat))) = .fail c) :
    Spec.atParent so (testIn so want) doc toks = .fail c := by
  obtain ⟨ts, t, rfl⟩ := exists_concat toks hne
  rw [atParent_nav] at h ⊢
  cases hn : nav so doc ts with
  | unspec => rw [hn] at h; cases h
  | fail c' => rw [hn] at h; simp only [Res.bind, Res.fail.injEq] at h ⊢; exact h
  | ok pk =>
    obtain ⟨p, k⟩ := pk
    rw [hn] at h
    simp only [Res.bind, testIn] at h ⊢
    cases hg : Spec.getIn so true p t with
    | unspec => rw [hg] at h; cases h
    | fail c' => rw [hg] at h; simp only [Res.fail.injEq] at h ⊢; exact h
    | ok pv =>
      rw [hg] at h
      simp only at h ⊢
      cases ht : Spec.testEq pv.2 want with
      | unspec => rw [ht] at h; cases h
      | fail c' => rw [ht] at h; simp only [Res.fail.injEq] at h ⊢; exact h
      | ok u => rw [ht] at h; cases h

theorem opTest_class (hEq : EqSpec) {o : Opts} {e : Bool} {r : Root} {op : Op} {sop : Spec.Op}
    (sz acc : Nat) (hr : InvRoot e r)
    (hk : sop.kind = .test) (hpath : sop.path = op.path)
    (hsval : sop.value = op.value.map Cst.valueOf)
    (hov : ∀ c, op.value = some c → c.valueOf.noDup = true) {c : Cause}
    (h : Spec.applyOp (specOpts o) sz acc (den r.con) sop = .fail c) : OpC c (opTest o r op) := by
  cases hp : Spec.parsePointer op.path with
  | none =>
    rw [spec_path_none (by rw [hpath]; exact hp) (by simp [hk])] at h
    cases h
    exact ⟨.missing, opTest_path_none o r op hp, ErrC_missing (Or.inr rfl)⟩
  | some toks =>
    cases toks with
    | nil =>
      have hnil : op.path = [] := (parsePointer_nil_iff hp).1 rfl
      rw [spec_test_root hk (by rw [hpath]; exact hp), hsval] at h
      have heq := equalTo_refines hEq (ov := op.value) hr.1 hov
      rcases bind_fail h with ht | ⟨u, _, hx⟩
      · have hcause := testEq_fail ht
        subst hcause
        rw [ht] at heq
        refine ⟨.testFailed, ?_, ErrC_test⟩
        simp only [opTest, hnil, if_true]
        cases hx : equalTo r.con op.value with
        | mk b val' =>
          rw [hx] at heq
          simp only at heq
          simp [heq]
      · cases hx
    | cons t ts =>
      have hne : op.path ≠ [] := fun h => by
        have := (parsePointer_nil_iff hp).2 h; cases this
      rw [spec_test hk (by rw [hpath]; exact hp), hsval] at h
      rw [opTest_eq_nonroot o r op hne]
      have hf := test_spec_cause (specOpts o) _ (den r.con) acc (t :: ts) (by simp) h
      exact liftWalk_class (fun _ => rfl)
        (withPath_class hr hp (by simp) (fun key _ => actTest_class hEq hov) hf)

/-- the outcome of `copy` against the cause of the specification -/
def OpC2 (c : Cause) (out : Outcome (Root × Int)) : Prop := ∃ er, out = .err er ∧ ErrC c er

theorem failOfW_class {α} {r : Root} {w : Walk α} {c : Cause} (h : WalkC c w) :
    eng_afterW r w = none ∧ OpC2 c (failOfW w) := by
  rcases h with ⟨con', rfl, rfl⟩ | ⟨er, rfl, hcl⟩
  · exact ⟨rfl, .missing, rfl, ErrC_missing (Or.inr rfl)⟩
  · exact ⟨rfl, er, rfl, hcl⟩

/-- the source of `copy` cannot be read: the class of the error is that of the source's cause -/
theorem copySrc_class {o : Opts} {e : Bool} {r : Root} {acci : Int} {op : Op} {f : Bytes}
    {ft : Bytes} {fts : List Bytes}
    (hr : InvRoot e r) (hfo : op.frm = some f) (hpf : Spec.parsePointer f = some (ft :: fts)) {c : Cause}
    (hf : Spec.atParent (specOpts o) (Spec.getIn (specOpts o) false) (den r.con) (ft :: fts) = .fail c) :
    OpC2 c (opCopy o r acci op) := by
  rw [eng_opCopy_eq o r acci op f hfo]
  have hw := withPath_class (o := o) (act := actCopySrc o) hr hpf (by simp)
    (fun key _ => actCopySrc_class) hf
  rw [← copySource_eq] at hw
  have hne : f ≠ [] := fun h => by
    have := (parsePointer_nil_iff hpf).2 h; cases this
  rw [copyFirst_ne o r hne]
  obtain ⟨ha, hcl⟩ := failOfW_class (r := r) hw
  simp only [ha]
  exact hcl

/-- the source is read, the destination pointer is outside RFC 6901: nothing is found -/
theorem opCopy_dest_none {o : Opts} {e : Bool} {r : Root} {acci : Int} {op : Op} {f : Bytes}
    {ftoks : List Bytes} {v : Value}
    (hr : InvRoot e r) (hfo : op.frm = some f) (hpf : Spec.parsePointer f = some ftoks)
    (hsrc : eng_copySrc (specOpts o) (den r.con) ftoks = .ok v)
    (hp : Spec.parsePointer op.path = none) :
    opCopy o r acci op = .err .missing := by
  rw [eng_opCopy_eq o r acci op f hfo]
  have h1 := copy_phase1 (o := o) hr hpf
  rw [hsrc] at h1
  obtain ⟨r1, ha, _, _⟩ := h1
  rw [ha]
  simp only [withPath_of_parsePointer_none _ _ _ hp, eng_afterW, failOfW]

/-- `copy` to a destination outside RFC 6901, whatever the limit: the source half is evaluated
first, its failure is the one reported; otherwise nothing is found -/
theorem opCopy_path_none_class {o : Opts} {e : Bool} {r : Root} {op : Op} {sop : Spec.Op} {f : Bytes}
    (sz acc : Nat) (acci : Int) (hr : InvRoot e r)
    (hk : sop.kind = .copy) (hpath : sop.path = op.path) (hfo : op.frm = some f) (hfrm : sop.frm = f)
    (hp : Spec.parsePointer op.path = none) {c : Cause}
    (h : Spec.applyOp (specOpts o) sz acc (den r.con) sop = .fail c) : OpC2 c (opCopy o r acci op) := by
  rw [spec_copy_path_none hk (by rw [hpath]; exact hp), hfrm] at h
  cases hpf : Spec.parsePointer f with
  | none =>
    rw [hpf] at h
    cases h
    exact ⟨.missing, opCopy_from_none hfo hpf, ErrC_missing (Or.inr rfl)⟩
  | some ftoks =>
    rw [hpf] at h
    cases ftoks with
    | nil =>
      cases h
      exact ⟨.missing, opCopy_dest_none (v := den r.con) hr hfo hpf rfl hp, ErrC_missing (Or.inr rfl)⟩
    | cons ft fts =>
      simp only at h
      rcases bind_fail h with hf | ⟨pv, hres, hrest⟩
      · exact copySrc_class hr hfo hpf hf
      · cases hrest
        exact ⟨.missing,
          opCopy_dest_none (v := pv.2) hr hfo hpf (by simp only [eng_copySrc, hres, Res.bind]) hp,
          ErrC_missing (Or.inr rfl)⟩

theorem opCopy_class {o : Opts} {r : Root} {op : Op} {sop : Spec.Op} {f : Bytes}
    (sz acc : Nat) (acci : Int) (hl : o.limit = 0) (hr : InvRoot o.esc r)
    (hk : sop.kind = .copy) (hpath : sop.path = op.path) (hfo : op.frm = some f) (hfrm : sop.frm = f)
    (hq : ∀ toks, Spec.parsePointer op.path = some toks → ∀ t ∈ toks, QK o.esc t = true) {c : Cause}
    (h : Spec.applyOp (specOpts o) sz acc (den r.con) sop = .fail c) : OpC2 c (opCopy o r acci op) := by
  cases hp : Spec.parsePointer op.path with
  | none => exact opCopy_path_none_class sz acc acci hr hk hpath hfo hfrm hp h
  | some ptoks =>
    have hp' : Spec.parsePointer sop.path = some ptoks := by rw [hpath]; exact hp
    cases hpf : Spec.parsePointer f with
    | none =>
      rw [spec_copy_none hk hp' (by rw [hfrm]; exact hpf)] at h
      cases h
      exact ⟨.missing, opCopy_from_none hfo hpf, ErrC_missing (Or.inr rfl)⟩
    | some ftoks =>
      rw [spec_copy hk hp' (by rw [hfrm]; exact hpf) (by simp [specOpts, hl])] at h
      rw [eng_opCopy_eq o r acci op f hfo]
      have h1 := copy_phase1 (o := o) hr hpf
      rcases bind_fail h with hsrc | ⟨v, hsrc, hrest⟩
      · -- the source cannot be read
        cases ftoks with
        | nil => simp [eng_copySrc] at hsrc
        | cons ft fts =>
          simp only [eng_copySrc] at hsrc
          rcases bind_fail hsrc with hf | ⟨a, _, hx⟩
          · have hw := withPath_class (o := o) (act := actCopySrc o) hr hpf (by simp)
              (fun key _ => actCopySrc_class) hf
            rw [← copySource_eq] at hw
            have hne : f ≠ [] := fun h => by
              have := (parsePointer_nil_iff hpf).2 h; cases this
            rw [copyFirst_ne o r hne]
            obtain ⟨ha, hcl⟩ := failOfW_class (r := r) hw
            simp only [ha]
            exact hcl
          · cases hx
      · rw [hsrc] at h1
        obtain ⟨r1, ha, hr1, hd1⟩ := h1
        simp only [ha]
        cases ptoks with
        | nil => cases hrest
        | cons pt pts =>
          simp only at hrest
          rcases bind_fail hrest with hprobe | ⟨u, hres2, hrest2⟩
          · -- the destination parent is not reachable
            rw [← hd1] at hprobe
            have hw := withPath_class (o := o) (act := actProbe) hr1 hp (by simp)
              (fun key _ => actProbe_class) hprobe
            obtain ⟨ha2, hcl⟩ := failOfW_class (r := r1) hw
            simp only [ha2]
            exact hcl
          · have hw2 : WalkRef o.esc r1 (fun _ _ => True)
                (Spec.atParent (specOpts o) (fun p _ => (.ok (p, ()) : Res (Value × Unit))) (den r1.con) (pt :: pts))
                (withPath o r1 op.path actProbe) :=
              withPath_walkRef hr1 hp (by simp) (fun key _ => actProbe_ref)
            rw [hd1, hres2] at hw2
            simp only [WalkRef] at hw2
            obtain ⟨con2, a, hw, h21, h22, h23, _⟩ := hw2
            rw [hw]
            simp only [eng_afterW]
            have hd2 : den con2 = den r.con := by
              rw [h23]
              exact atParent_same _ _ (fun p t pb h => by cases h; rfl) _ _ (by simp) _ hres2
            have hr2 : InvRoot o.esc { r1 with con := con2 } := ⟨h21, h22⟩
            have hs := copy_src (o := o) hr2 hd2 hpf
            rw [hsrc] at hs
            obtain ⟨val, hsv, hval, hdv⟩ := hs
            obtain ⟨hcp, hcpd⟩ := deepCopy_spec hval
            simp only [copyTail, hsv, isDocNil_of_isCon h22, Bool.and_false, Bool.false_eq_true, if_false, hl,
              Int.lt_irrefl, false_and]
            rcases bind_fail hrest2 with hadd | ⟨vb, _, hx⟩
            · rw [← hd2, ← hdv, ← hcpd] at hadd
              have hw3 := withPath_class (o := o) (act := actAdd o (deepCopy o.esc val).1) (path := op.path)
                hr2 hp (by simp) (fun key hmem => actAdd_class hcp (hq _ hp key hmem)) hadd
              obtain ⟨ha3, hcl⟩ := failOfW_class (r := { r1 with con := con2 }) hw3
              simp only [ha3]
              exact hcl
            · cases hx

end Impl
end JP
