import JP.Lemmas.StreamDecode
import JP.Lemmas.DecodeAny

/-!
# `Decode` on a sequence of values

* `view` is injective on values without captured raw texts (everything decoded into `any`), so the
  value `Decode(&x)` stores is THE value `Unmarshal` stores for the same tree;
* `decode_values`: a sequence of texts separated by spaces is decoded text by text, then `io.EOF`.
-/

namespace JP
namespace Codec
namespace Stream

open Scanner

/-! ### values without raw texts are determined by their view -/

mutual
def NoRaw : DView → Prop
  | .rawText _ => False
  | .list xs => NoRawL xs
  | .map ms => NoRawM ms
  | _ => True
def NoRawL : List DView → Prop
  | [] => True
  | x :: xs => NoRaw x ∧ NoRawL xs
def NoRawM : DMembersG (Option Cst) → Prop
  | [] => True
  | (_, v) :: ms => NoRaw v ∧ NoRawM ms
end

/-- forget the (absent) raw texts -/
def unview (w : DView) : DVal := mapRaw (fun _ => ([] : Bytes)) w

mutual
theorem unview_view : ∀ v : DVal, NoRaw (view v) → unview (view v) = v
  | .rawText x => by intro h; simp [view, mapRaw, NoRaw] at h
  | .nilPtr => fun _ => rfl
  | .str s => fun _ => rfl
  | .num l => fun _ => rfl
  | .bool b => fun _ => rfl
  | .null => fun _ => rfl
  | .list xs => by
    intro h
    simp only [view, mapRaw, NoRaw] at h
    simp only [unview, view, mapRaw, unviewL_viewL xs h]
  | .nilSlice => fun _ => rfl
  | .map ms => by
    intro h
    simp only [view, mapRaw, NoRaw] at h
    simp only [unview, view, mapRaw, unviewM_viewM ms h]
  | .nilMap => fun _ => rfl
theorem unviewL_viewL : ∀ xs : List DVal, NoRawL (mapRawL parseCst xs) →
    mapRawL (fun _ => ([] : Bytes)) (mapRawL parseCst xs) = xs
  | [] => fun _ => rfl
  | x :: xs => by
    intro h
    simp only [mapRawL, NoRawL] at h
    have h1 := unview_view x h.1
    simp only [unview, view] at h1
    simp only [mapRawL, h1, unviewL_viewL xs h.2]
theorem unviewM_viewM : ∀ ms : DMembers, NoRawM (mapRawM parseCst ms) →
    mapRawM (fun _ => ([] : Bytes)) (mapRawM parseCst ms) = ms
  | [] => fun _ => rfl
  | (k, v) :: ms => by
    intro h
    simp only [mapRawM, NoRawM] at h
    have h1 := unview_view v h.1
    simp only [unview, view] at h1
    simp only [mapRawM, h1, unviewM_viewM ms h.2]
end

theorem view_inj {v v' : DVal} (h : view v = view v') (hn : NoRaw (view v)) : v = v' := by
  rw [← unview_view v hn, h, unview_view v' (h ▸ hn)]

theorem noRawM_setD (k : Bytes) (v : DView) (hv : NoRaw v) : ∀ acc : DMembersG (Option Cst), NoRawM acc →
    NoRawM (setD k v acc)
  | [], _ => ⟨hv, trivial⟩
  | (k', v') :: ms, h => by
    simp only [setD]
    split
    · exact ⟨hv, h.2⟩
    · exact ⟨h.1, noRawM_setD k v hv ms h.2⟩

theorem noRaw_semLit (s : Bytes) : NoRaw (semLit s .any) := by
  simp only [semLit]
  repeat' split
  all_goals trivial

mutual
theorem noRaw_sem : ∀ c : Cst, NoRaw (sem c .any)
  | .lit s => by simp only [sem]; exact noRaw_semLit s
  | .str b => by simp only [sem, semStr]; trivial
  | .arr xs => by simp only [sem, NoRaw]; exact noRawL_semL xs
  | .obj ms => by simp only [sem, NoRaw]; exact noRawM_semM ms [] trivial
theorem noRawL_semL : ∀ xs : List Cst, NoRawL (semL xs .any)
  | [] => trivial
  | x :: xs => ⟨noRaw_sem x, noRawL_semL xs⟩
theorem noRawM_semM : ∀ (ms : List (Bytes × Cst)) (acc : DMembersG (Option Cst)), NoRawM acc →
    NoRawM (semM ms .any acc)
  | [], _, h => h
  | (k, v) :: ms, acc, h => by
    simp only [semM]
    exact noRawM_semM ms _ (noRawM_setD _ _ (noRaw_sem v) acc h)
end

/-- two decodes of the same tree into `any` store the same value -/
theorem any_value_unique {v v' : DVal} {c : Cst} (h : view v = sem c .any) (h' : view v' = sem c .any) : v = v' :=
  view_inj (h.trans h'.symm) (h ▸ noRaw_sem c)

end Stream
end Codec
end JP
