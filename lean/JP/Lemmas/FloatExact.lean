import JP.Lemmas.FloatRound

/-!
# Every finite non-zero float is read back from its exact value
-/

namespace JP
namespace Codec
namespace Float

theorem log2_mul_pow (s k : Nat) (hs : s ≠ 0) : Nat.log2 (s * 2 ^ k) = Nat.log2 s + k := by
  have hpos : 0 < 2 ^ k := two_pow_pos k
  have hne : s * 2 ^ k ≠ 0 := by
    have : 0 < s * 2 ^ k := Nat.mul_pos (by omega) hpos
    omega
  have h1 : Nat.log2 s + k ≤ Nat.log2 (s * 2 ^ k) := by
    apply (Nat.le_log2 hne).2
    rw [Nat.pow_add]
    exact Nat.mul_le_mul_right _ (Nat.log2_self_le hs)
  have h2 : Nat.log2 (s * 2 ^ k) < Nat.log2 s + k + 1 := by
    apply (Nat.log2_lt hne).2
    have : Nat.log2 s + k + 1 = (Nat.log2 s + 1) + k := by omega
    rw [this, Nat.pow_add]
    exact Nat.mul_lt_mul_of_pos_right Nat.lt_log2_self hpos
  omega

/-- the exact value of a finite float as a fraction of naturals -/
def exactN (bits : Nat) (x : FP) : Nat :=
  if x.qexp bits ≥ 0 then x.sig bits * 2 ^ (x.qexp bits).toNat else x.sig bits
def exactD (bits : Nat) (x : FP) : Nat :=
  if x.qexp bits ≥ 0 then 1 else 2 ^ (-(x.qexp bits)).toNat

theorem scaled_exact (bits : Nat) (x : FP) :
    (scaled (exactN bits x) (exactD bits x) (x.qexp bits)).1
        = x.sig bits * (scaled (exactN bits x) (exactD bits x) (x.qexp bits)).2 ∧
      0 < (scaled (exactN bits x) (exactD bits x) (x.qexp bits)).2 := by
  unfold scaled exactN exactD
  by_cases h : x.qexp bits ≥ 0
  · simp only [h, if_true, Nat.one_mul]
    exact ⟨trivial, two_pow_pos _⟩
  · simp only [h, if_false]
    exact ⟨trivial, two_pow_pos _⟩

theorem roundRat_exact (bits : Nat) (x : FP) (hwf : x.wf bits = true) (hfin : x.isFinite bits = true)
    (hnz : x.isZero = false) :
    roundRat bits (exactN bits x) (exactD bits x) = (x.exp, x.mant, false) := by
  unfold FP.wf at hwf
  simp only [Bool.and_eq_true, decide_eq_true_eq] at hwf
  simp only [FP.isFinite, decide_eq_true_eq] at hfin
  have hbias : 1 ≤ bias bits := by unfold bias; split <;> omega
  have hP : 0 < 2 ^ mantBits bits := two_pow_pos _
  have hpow : 2 ^ (mantBits bits + 1) = 2 * 2 ^ mantBits bits := by rw [Nat.pow_succ]; omega
  -- the significand
  have hs0 : x.sig bits ≠ 0 := by
    unfold FP.sig
    split
    · rename_i he
      simp only [FP.isZero, he, decide_true, Bool.true_and, decide_eq_false_iff_not] at hnz
      exact hnz
    · omega
  have hN0 : exactN bits x ≠ 0 := by
    unfold exactN
    split
    · have : 0 < x.sig bits * 2 ^ (x.qexp bits).toNat := Nat.mul_pos (by omega) (two_pow_pos _)
      omega
    · exact hs0
  -- log2 N - log2 D = log2 sig + qexp
  have hlog : (Nat.log2 (exactN bits x) : Int) - (Nat.log2 (exactD bits x) : Int)
      = (Nat.log2 (x.sig bits) : Int) + x.qexp bits := by
    unfold exactN exactD
    by_cases h : x.qexp bits ≥ 0
    · simp only [h, if_true]
      rw [log2_mul_pow _ _ hs0]
      have : Nat.log2 1 = 0 := by decide
      rw [this]; omega
    · simp only [h, if_false, Nat.log2_two_pow]
      omega
  obtain ⟨hsc, hbpos⟩ := scaled_exact bits x
  have hdiv : (scaled (exactN bits x) (exactD bits x) (x.qexp bits)).1
      / (scaled (exactN bits x) (exactD bits x) (x.qexp bits)).2 = x.sig bits := by
    rw [hsc]; exact Nat.mul_div_cancel _ hbpos
  have hmod : (scaled (exactN bits x) (exactD bits x) (x.qexp bits)).1
      % (scaled (exactN bits x) (exactD bits x) (x.qexp bits)).2 = 0 := by
    rw [hsc]; exact Nat.mul_mod_left _ _
  -- the exponent
  have hpick : pickQ bits (exactN bits x) (exactD bits x) = x.qexp bits := by
    unfold pickQ
    simp only
    rw [hlog]
    by_cases he : x.exp = 0
    · -- subnormal
      have hsig : x.sig bits = x.mant := by simp [FP.sig, he]
      have hq : x.qexp bits = 1 - ((bias bits + mantBits bits : Nat) : Int) := by
        simp [FP.qexp, he]
      have hl : Nat.log2 (x.sig bits) < mantBits bits := (Nat.log2_lt hs0).2 (by rw [hsig]; exact hwf.2)
      rw [if_pos (by omega), hq]
    · have hsig : x.sig bits = 2 ^ mantBits bits + x.mant := by simp [FP.sig, he]
      have hq : x.qexp bits = (x.exp : Int) - ((bias bits + mantBits bits : Nat) : Int) := by
        simp [FP.qexp, he]
      have hl : Nat.log2 (x.sig bits) = mantBits bits := by
        have h1 := (Nat.le_log2 hs0 (k := mantBits bits)).2 (by omega)
        have h2 := (Nat.log2_lt hs0 (k := mantBits bits + 1)).2 (by omega)
        omega
      rw [hl]
      have e0 : (mantBits bits : Int) + x.qexp bits - (mantBits bits : Int) = x.qexp bits := by omega
      rw [e0]
      by_cases hmin : x.qexp bits ≤ 1 - ((bias bits + mantBits bits : Nat) : Int)
      · rw [if_pos hmin]; omega
      · rw [if_neg hmin, hdiv, if_neg (by omega)]
  rw [roundRat_eq, hpick]
  have hne : nearestEven (scaled (exactN bits x) (exactD bits x) (x.qexp bits)).1
      (scaled (exactN bits x) (exactD bits x) (x.qexp bits)).2 = x.sig bits := by
    unfold nearestEven
    rw [hmod, hdiv]
    have : ¬ ((scaled (exactN bits x) (exactD bits x) (x.qexp bits)).2 < 2 * 0) := by omega
    have h2 : ¬ (2 * 0 = (scaled (exactN bits x) (exactD bits x) (x.qexp bits)).2) := by omega
    simp [h2]
  rw [hne]
  unfold encodeSig
  simp only
  by_cases he : x.exp = 0
  · have hsig : x.sig bits = x.mant := by simp [FP.sig, he]
    have hcar : ¬ (x.mant = 2 ^ (mantBits bits + 1)) := by omega
    rw [hsig]
    simp only [hcar, if_false]
    rw [if_pos hwf.2, he]
  · have hsig : x.sig bits = 2 ^ mantBits bits + x.mant := by simp [FP.sig, he]
    have hq : x.qexp bits = (x.exp : Int) - ((bias bits + mantBits bits : Nat) : Int) := by
      simp [FP.qexp, he]
    have hcar : ¬ (2 ^ mantBits bits + x.mant = 2 ^ (mantBits bits + 1)) := by omega
    rw [hsig]
    simp only [hcar, if_false]
    rw [if_neg (by omega), hq]
    have e1 : ((x.exp : Int) - ((bias bits + mantBits bits : Nat) : Int)
        - (1 - ((bias bits + mantBits bits : Nat) : Int))).toNat + 1 = x.exp := by omega
    rw [e1, if_neg (by omega)]
    congr 2
    omega

end Float
end Codec
end JP
