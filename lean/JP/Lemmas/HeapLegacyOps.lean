import JP.Lemmas.HeapLegacyFind

/-!
# The operations of the legacy heap model refine the legacy value model's: remove, add, replace, move
-/

namespace JP
namespace Heap
namespace Lg

open JP.Impl (Outcome)
open JP.Legacy (Node NMembers walk Walk putChild conGet Op StrField ValField)

/-- inversion of `OutRel`: three cases instead of nine -/
theorem outCases {α β : Type} {R : α → β → Prop} {x : Outcome α} {y : Outcome β} (h : OutRel R x y) :
    (x = .panic ∧ y = .panic) ∨ (∃ e, x = .err e ∧ y = .err e) ∨
      (∃ a b, x = .ok a ∧ y = .ok b ∧ R a b) := by
  cases x <;> cases y <;> simp only [OutRel] at h
  · exact Or.inr (Or.inr ⟨_, _, rfl, rfl, h⟩)
  · subst h; exact Or.inr (Or.inl ⟨_, rfl, rfl⟩)
  · exact Or.inl ⟨rfl, rfl⟩

/-- the state after an operation: the root represents the value model's new document as a TREE,
and the heap changed only inside the old footprint and by allocation -/
def LRelSt (h : Heap) (fp : List Nat) (s' : St) (r' : Node) : Prop :=
  ∃ fp', LRepr s'.h r' (some s'.root) fp' ∧ Ext h s'.h fp fp'

/-! ### remove -/

theorem removeAt_refines (neg : Bool) {s : St} {r : Node} {fp : List Nat} (path : Bytes)
    (hr : LRepr s.h r (some s.root) fp) :
    OutRel (LRelSt s.h fp) (removeAt neg s path)
      (Legacy.liftWalk (Legacy.withPath neg r path fun con key => Legacy.unitAct (Legacy.conRemove neg con key))) := by
  have hF := findObject_refines neg r path hr
  unfold removeAt
  cases hf : findObject neg s.h s.root path with
  | panic =>
    rw [hf] at hF; simp only [FoundP] at hF
    rw [hF]; simp [Legacy.liftWalk]
  | err e => rw [hf] at hF; simp only [FoundP] at hF
  | ok res =>
    obtain ⟨h1, oc⟩ := res
    rw [hf] at hF
    cases oc with
    | none =>
      simp only [FoundP] at hF
      rw [hF]; simp [Legacy.liftWalk]
    | some ck =>
      obtain ⟨c, key⟩ := ck
      simp only [FoundP] at hF
      obtain ⟨conc, fc, ctx, plug, hrc, dc, e1, hctx, vctx, hw⟩ := hF
      rw [hw]
      rcases outCases (hRemove_refines neg key hrc) with ⟨h1', h2'⟩ | ⟨e, h1', h2'⟩ | ⟨h', con', h1', h2', hR⟩
      · simp [h1', h2', liftHeap, doneOf, Legacy.liftWalk, Legacy.unitAct]
      · simp [h1', h2', liftHeap, doneOf, Legacy.liftWalk, Legacy.unitAct]
      · obtain ⟨fc', cell', rfl, hr', sub, _⟩ := hR
        simp only [h1', h2', liftHeap, doneOf, Legacy.liftWalk, Legacy.unitAct, OutRel_ok_ok]
        have hcm := commit hrc dc e1 hctx vctx [] cell' (by simpa using hr')
          (fun x hx => ⟨fun hy => dc x (sub x hx) hy, e1.sub x (by simp [sub x hx])⟩)
        obtain ⟨fp', a1, a2, _⟩ := hcm
        exact ⟨fp', by simpa using a1, by simpa using a2⟩

theorem opRemove_refines (neg : Bool) {s : St} {r : Node} {fp : List Nat} (op : Op)
    (hr : LRepr s.h r (some s.root) fp) :
    OutRel (LRelSt s.h fp) (Lg.opRemove neg s op) (Legacy.opRemove neg r op) := by
  unfold Lg.opRemove Legacy.opRemove
  cases op.path with
  | ok path => exact removeAt_refines neg path hr
  | missing => simp
  | bad => simp

/-! ### fresh roots and fresh values -/

/-- a tree all of whose cells were allocated after `h` -/
def LFreshTree (h : Heap) (s' : St) (con : Node) : Prop :=
  ∃ fp', LRepr s'.h con (some s'.root) fp' ∧ (∃ ext, s'.h = h ++ ext) ∧ ∀ x ∈ fp', h.length ≤ x

theorem LFreshTree.relSt {h : Heap} {fp : List Nat} {s' : St} {r' : Node} (ft : LFreshTree h s' r') :
    LRelSt h fp s' r' := by
  obtain ⟨fp', hr, ⟨ext, he⟩, fr⟩ := ft
  refine ⟨fp', hr, ?_, fun x hx _ => ?_, fun x hx => Or.inr (fr x hx)⟩
  · rw [he]; simp
  · rw [he]; exact List.getElem?_append_left hx

theorem fresh_ary {h : Heap} (xs : List Cst) :
    LFreshTree h ⟨(newChildren h xs).1 ++ [.ary (newChildren h xs).2], (newChildren h xs).1.length⟩
      (Legacy.decodeAry xs) := by
  obtain ⟨ext, f, he, rl, fr⟩ := newChildren_spec xs h
  have hlen : h.length ≤ (newChildren h xs).1.length := by rw [he]; simp
  have hnot : (newChildren h xs).1.length ∉ f := by
    intro hx
    have := LReprL.valid rl _ hx
    omega
  refine ⟨_ :: f, LRepr.mk_ary (by simp) (LReprL.alloc rl _) hnot,
    ⟨ext ++ [.ary (newChildren h xs).2], by simp [he]⟩, ?_⟩
  intro x hx
  simp only [List.mem_cons] at hx
  rcases hx with rfl | hx
  · exact hlen
  · exact fr x hx

theorem fresh_doc {h : Heap} (ms : List (Bytes × Cst)) :
    LFreshTree h ⟨(newMembers h ms []).1 ++ [.doc [] (newMembers h ms []).2],
      (newMembers h ms []).1.length⟩ (Legacy.decodeDoc ms) := by
  obtain ⟨ext, f, he, rl, fr⟩ := newMembers_spec ms h
  have hlen : h.length ≤ (newMembers h ms []).1.length := by rw [he]; simp
  have hnot : (newMembers h ms []).1.length ∉ f := by
    intro hx
    have := LReprM.valid rl _ hx
    omega
  refine ⟨_ :: f, LRepr.mk_doc (by simp) (LReprM.alloc rl _) hnot,
    ⟨ext ++ [.doc [] (newMembers h ms []).2], by simp [he]⟩, ?_⟩
  intro x hx
  simp only [List.mem_cons] at hx
  rcases hx with rfl | hx
  · exact hlen
  · exact fr x hx

theorem newValue_spec (h : Heap) (op : Op) :
    ∃ ext fv, (newValue h op).1 = h ++ ext ∧
      LRepr (newValue h op).1 op.valueNode (newValue h op).2 fv ∧ ∀ x ∈ fv, h.length ≤ x := by
  unfold newValue Op.valueNode
  cases op.value with
  | absent => exact ⟨[], [], by simp, by simpa using LRepr.mk_nil h, fun x hx => by cases hx⟩
  | null =>
    exact ⟨[.nilAry], [h.length], rfl, LRepr.mk_rawNil (by simp), fun x hx => by simp at hx; omega⟩
  | val c =>
    exact ⟨[.raw c], [h.length], rfl, LRepr.mk_raw (by simp), fun x hx => by simp at hx; omega⟩

/-- link a fresh value into the container found (`add` / `replace` below the root) -/
theorem link_fresh {h h2 : Heap} {fp : List Nat} {root c : Nat} {conc : Node}
    {fc ctx : List Nat} {plug : Node → Node} (hrc : LRepr h2 conc (some c) fc) (dc : Disj fc ctx)
    (e : Ext h h2 fp (fc ++ ctx)) (hctx : LCtx h2 root c ctx plug) (vctx : ∀ x ∈ ctx, x < h2.length)
    {ext : List Cell} {fv : List Nat} (frv : ∀ x ∈ fv, h2.length ≤ x)
    {h' : Heap} {con' : Node} (hw : LWrote (h2 ++ ext) c fc fv h' con') :
    ∃ fp', LRepr h' (plug con') (some root) fp' ∧ Ext h h' fp fp' := by
  obtain ⟨fc', cell', rfl, hr', sub⟩ := hw
  have hcm := commit hrc dc e hctx vctx ext cell' hr' (fun x hx => ?_)
  · obtain ⟨fp', a1, a2, _⟩ := hcm
    exact ⟨fp', a1, a2⟩
  rcases sub x hx with h1 | h1
  · have h2l := frv x h1
    refine ⟨fun hy => ?_, Or.inr (Nat.le_trans e.len h2l)⟩
    have := vctx x hy
    omega
  · exact ⟨fun hy => dc x h1 hy, e.sub x (by simp [h1])⟩

/-! ### add -/

theorem addAt_refines (neg : Bool) {s : St} {r : Node} {fp : List Nat} (path : Bytes) (op : Op)
    (hr : LRepr s.h r (some s.root) fp) :
    OutRel (LRelSt s.h fp) (addAt neg s path op)
      (Legacy.liftWalk (Legacy.withPath neg r path fun con key =>
        Legacy.unitAct (Legacy.conAdd neg con key op.valueNode))) := by
  unfold addAt
  have hF := findObject_refines neg r path hr
  cases hf : findObject neg s.h s.root path with
  | panic =>
    rw [hf] at hF; simp only [FoundP] at hF
    rw [hF]; simp [Legacy.liftWalk]
  | err e => rw [hf] at hF; simp only [FoundP] at hF
  | ok res =>
    obtain ⟨h2, oc⟩ := res
    rw [hf] at hF
    cases oc with
    | none =>
      simp only [FoundP] at hF
      rw [hF]; simp [Legacy.liftWalk]
    | some ck =>
      obtain ⟨c, key⟩ := ck
      simp only [FoundP] at hF
      obtain ⟨conc, fc, ctx, plug, hrc, dc, e1, hctx, vctx, hw⟩ := hF
      rw [hw]
      obtain ⟨ext, fv, hext, rv, frv⟩ := newValue_spec h2 op
      have dv : Disj fv fc := by
        intro x hx hy
        have := frv x hx
        have := LRepr.valid hrc x hy
        omega
      have hA := hAdd_refines neg key (by rw [hext]; exact LRepr.alloc hrc ext) rv dv
      rcases outCases hA with ⟨h1', h2'⟩ | ⟨e, h1', h2'⟩ | ⟨h', con', h1', h2', hW⟩
      · simp [h1', h2', liftHeap, doneOf, Legacy.liftWalk, Legacy.unitAct]
      · simp [h1', h2', liftHeap, doneOf, Legacy.liftWalk, Legacy.unitAct]
      · rw [hext] at hW
        simp only [h1', h2', liftHeap, doneOf, Legacy.liftWalk, Legacy.unitAct, OutRel_ok_ok]
        exact link_fresh hrc dc e1 hctx vctx frv hW

theorem opAdd_refines (neg : Bool) {s : St} {r : Node} {fp : List Nat} (op : Op)
    (hr : LRepr s.h r (some s.root) fp) :
    OutRel (LRelSt s.h fp) (Lg.opAdd neg s op) (Legacy.opAdd neg r op) := by
  unfold Lg.opAdd Legacy.opAdd
  cases op.path with
  | ok path => exact addAt_refines neg path op hr
  | missing => simp
  | bad => simp

/-! ### replace -/

theorem replaceRoot_refines (h : Heap) (fp : List Nat) (v : ValField) :
    OutRel (LRelSt h fp) (replaceRoot h v)
      (match v with
       | .absent => .err .missing
       | .null => .err .other
       | .val c =>
         match c with
         | .obj ms => .ok (Legacy.decodeDoc ms)
         | .arr xs => .ok (Legacy.decodeAry xs)
         | _ => .err .other) := by
  cases v with
  | absent => simp [replaceRoot]
  | null => simp [replaceRoot]
  | val c =>
    cases c with
    | obj ms => simp only [replaceRoot, OutRel_ok_ok]; exact (fresh_doc ms).relSt
    | arr xs => simp only [replaceRoot, OutRel_ok_ok]; exact (fresh_ary xs).relSt
    | str b => simp [replaceRoot]
    | lit l => simp [replaceRoot]

theorem replaceAt_refines (neg : Bool) {s : St} {r : Node} {fp : List Nat} (path : Bytes) (op : Op)
    (hr : LRepr s.h r (some s.root) fp) :
    OutRel (LRelSt s.h fp) (replaceAt neg s path op)
      (Legacy.liftWalk (Legacy.withPath neg r path fun con key =>
        match conGet neg con key with
        | .panic => .panic
        | .err _ => .err .missing
        | .ok _ => Legacy.unitAct (Legacy.conSet neg con key op.valueNode))) := by
  unfold replaceAt
  have hF := findObject_refines neg r path hr
  cases hf : findObject neg s.h s.root path with
  | panic =>
    rw [hf] at hF; simp only [FoundP] at hF
    rw [hF]; simp [Legacy.liftWalk]
  | err e => rw [hf] at hF; simp only [FoundP] at hF
  | ok res =>
    obtain ⟨h1, oc⟩ := res
    rw [hf] at hF
    cases oc with
    | none =>
      simp only [FoundP] at hF
      rw [hF]; simp [Legacy.liftWalk]
    | some ck =>
      obtain ⟨c, key⟩ := ck
      simp only [FoundP] at hF
      obtain ⟨conc, fc, ctx, plug, hrc, dc, e1, hctx, vctx, hw⟩ := hF
      rw [hw]
      rcases outCases (hGet_refines neg key hrc) with ⟨g1, g2⟩ | ⟨e, g1, g2⟩ | ⟨p0, n0, g1, g2, _⟩
      · simp [g1, g2, doneOf, Legacy.liftWalk]
      · simp [g1, g2, doneOf, Legacy.liftWalk]
      · simp only [g1, g2]
        obtain ⟨ext, fv, hext, rv, frv⟩ := newValue_spec h1 op
        have dv : Disj fv fc := by
          intro x hx hy
          have := frv x hx
          have := LRepr.valid hrc x hy
          omega
        have hA := hSet_refines neg key (by rw [hext]; exact LRepr.alloc hrc ext) rv dv
        rcases outCases hA with ⟨h1', h2'⟩ | ⟨e, h1', h2'⟩ | ⟨h', con', h1', h2', hW⟩
        · simp [h1', h2', liftHeap, doneOf, Legacy.liftWalk, Legacy.unitAct]
        · simp [h1', h2', liftHeap, doneOf, Legacy.liftWalk, Legacy.unitAct]
        · rw [hext] at hW
          simp only [h1', h2', liftHeap, doneOf, Legacy.liftWalk, Legacy.unitAct, OutRel_ok_ok]
          exact link_fresh hrc dc e1 hctx vctx frv hW

theorem opReplace_refines (neg : Bool) {s : St} {r : Node} {fp : List Nat} (op : Op)
    (hr : LRepr s.h r (some s.root) fp) :
    OutRel (LRelSt s.h fp) (Lg.opReplace neg s op) (Legacy.opReplace neg r op) := by
  unfold Lg.opReplace Legacy.opReplace
  cases op.path with
  | missing => simp
  | bad => simp
  | ok path =>
    simp only
    by_cases hp : path = []
    · simp only [hp, if_true]
      exact replaceRoot_refines s.h fp op.value
    · simp only [hp, if_false]
      exact replaceAt_refines neg path op hr

/-! ### move -/

/-- the value model's second half of `move` -/
def vMoveLink (neg : Bool) (root1 : Node) (val : Node) (op : Op) : Outcome Node :=
  match op.path with
  | .missing => .err .missing
  | .bad => .err .other
  | .ok path => Legacy.liftWalk (Legacy.withPath neg root1 path fun con key =>
      Legacy.unitAct (Legacy.conAdd neg con key val))

/-- `move`: the pointer leaves the source container (its footprint leaves the document's) before
THE SAME pointer enters the destination; no cell is reachable twice in between or afterwards -/
theorem moveFrom_refines (neg : Bool) {s : St} {r : Node} {fp : List Nat} (frm : Bytes) (op : Op)
    (hr : LRepr s.h r (some s.root) fp) :
    OutRel (LRelSt s.h fp) (moveFrom neg s frm op)
      (match (Legacy.withPath neg r frm fun con key =>
          match conGet neg con key with
          | .panic => .panic
          | .err e => .err e
          | .ok val =>
            match Legacy.conRemove neg con key with
            | .ok con' => .ok (con', val)
            | .err e => .err e
            | .panic => .panic : Walk Node) with
       | .panic => .panic
       | .fail e => .err e
       | .notFound => .err .missing
       | .done root1 val => vMoveLink neg root1 val op) := by
  unfold moveFrom
  have hF := findObject_refines neg r frm hr
  cases hf : findObject neg s.h s.root frm with
  | panic =>
    rw [hf] at hF; simp only [FoundP] at hF
    rw [hF]; simp
  | err e => rw [hf] at hF; simp only [FoundP] at hF
  | ok res =>
    obtain ⟨h1, oc⟩ := res
    rw [hf] at hF
    cases oc with
    | none =>
      simp only [FoundP] at hF
      rw [hF]; simp
    | some ck =>
      obtain ⟨c, key⟩ := ck
      simp only [FoundP] at hF
      obtain ⟨conc, fc, ctx, plug, hrc, dc, e1, hctx, vctx, hw⟩ := hF
      rw [hw]
      rcases outCases (hGet_refines neg key hrc) with ⟨g1, g2⟩ | ⟨e, g1, g2⟩ | ⟨p, n0, g1, g2, _⟩
      · simp [g1, g2, doneOf]
      · simp [g1, g2, doneOf]
      · simp only [g1, g2]
        rcases outCases (hRemove_refines neg key hrc) with ⟨r1, r2⟩ | ⟨e, r1, r2⟩ | ⟨h2, con', r1, r2, hR⟩
        · simp [r1, r2, doneOf]
        · simp [r1, r2, doneOf]
        · simp only [r1, r2, doneOf]
          obtain ⟨fc', cell', rfl, hr', sub, hmv⟩ := hR
          obtain ⟨fn, rn, dn, sn⟩ := hmv p n0 g1 g2
          -- phase 1 committed: the document without the moved node
          obtain ⟨fp2, hr2, e2, sub2⟩ := commit hrc dc e1 hctx vctx [] cell' (by simpa using hr')
            (fun x hx => ⟨fun hy => dc x (sub x hx) hy, e1.sub x (by simp [sub x hx])⟩)
          simp only [List.append_nil] at hr2 e2
          have dn2 : Disj fn fp2 := by
            intro x hx hy
            rcases sub2 x hy with h1' | h1'
            · exact dn x hx h1'
            · exact dc x (sn x hx) h1'
          have vn := LRepr.valid rn
          have e2' : Ext s.h (h1.set c cell') fp (fp2 ++ fn) :=
            ⟨e2.len, e2.frame, fun x hx => by
              simp only [List.mem_append] at hx
              rcases hx with hx | hx
              · exact e2.sub x hx
              · exact e1.sub x (by simp [sn x hx])⟩
          unfold moveLink vMoveLink
          cases op.path with
          | missing => simp
          | bad => simp
          | ok path =>
            simp only
            have hF2 := findObject_refines neg (plug con') path hr2
            cases hf2 : findObject neg (h1.set c cell') s.root path with
            | panic =>
              rw [hf2] at hF2; simp only [FoundP] at hF2
              rw [hF2]; simp [Legacy.liftWalk]
            | err e => rw [hf2] at hF2; simp only [FoundP] at hF2
            | ok res2 =>
              obtain ⟨h3, oc2⟩ := res2
              rw [hf2] at hF2
              cases oc2 with
              | none =>
                simp only [FoundP] at hF2
                rw [hF2]; simp [Legacy.liftWalk]
              | some ck2 =>
                obtain ⟨c2, key2⟩ := ck2
                simp only [FoundP] at hF2
                obtain ⟨conc2, fc2, ctx2, plug2, hrc2, dc2, e3, hctx2, vctx2, hw2⟩ := hF2
                rw [hw2]
                have rn3 : LRepr h3 n0 p fn := LRepr.ext rn e3 dn2
                have dn3 : Disj fn (fc2 ++ ctx2) := Ext.disj e3 dn2 vn
                have e3' : Ext (h1.set c cell') h3 (fp2 ++ fn) (fc2 ++ ctx2) :=
                  Ext.widen e3 (fun x hx => by simp [hx]) (fun x hx => Or.inl hx)
                have hA := hAdd_refines neg key2 hrc2 rn3 (fun x hx hy => dn3 x hx (by simp [hy]))
                rcases outCases hA with ⟨a1, a2⟩ | ⟨e, a1, a2⟩ | ⟨h4, con2', a1, a2, hW⟩
                · simp [a1, a2, liftHeap, doneOf, Legacy.liftWalk, Legacy.unitAct]
                · simp [a1, a2, liftHeap, doneOf, Legacy.liftWalk, Legacy.unitAct]
                · obtain ⟨fc2', cell2', rfl, hr4, sub4⟩ := hW
                  simp only [a1, a2, liftHeap, doneOf, Legacy.liftWalk, Legacy.unitAct, OutRel_ok_ok]
                  obtain ⟨fp4, hr5, e5, _⟩ := commit hrc2 dc2 e3' hctx2 vctx2 [] cell2'
                    (by simpa using hr4)
                    (fun x hx => by
                      rcases sub4 x hx with h1' | h1'
                      · exact ⟨fun hy => dn3 x h1' (by simp [hy]), Or.inl (by simp [h1'])⟩
                      · exact ⟨fun hy => dc2 x h1' hy, e3'.sub x (by simp [h1'])⟩)
                  simp only [List.append_nil] at hr5 e5
                  exact ⟨fp4, hr5, Ext.trans e2' e5⟩

theorem opMove_refines (neg : Bool) {s : St} {r : Node} {fp : List Nat} (op : Op)
    (hr : LRepr s.h r (some s.root) fp) :
    OutRel (LRelSt s.h fp) (Lg.opMove neg s op) (Legacy.opMove neg r op) := by
  unfold Lg.opMove Legacy.opMove
  cases op.frm with
  | missing => simp
  | bad => simp
  | ok frm =>
    simp only
    have := moveFrom_refines neg frm op hr
    unfold vMoveLink at this
    exact this

end Lg
end Heap
end JP
