import JP.Lemmas.FloatTotalDefs

/-!
# The spacing lemma: a fraction close to a finite float is rounded to that float
-/

namespace JP
namespace Codec
namespace Float

/-- an integer within less than `1/2` of `a / b` is THE nearest integer -/
theorem uniq_nearest (a b S t : Nat) (h1 : 2 * (S * b) ≤ 2 * a + b) (h2 : 2 * a ≤ 2 * (S * b) + b)
    (hc : 2 * adiff a (t * b) < b) : S = t := by
  unfold adiff at hc
  rcases Nat.lt_trichotomy S t with hk | hk | hk
  · have : (S + 1) * b ≤ t * b := Nat.mul_le_mul_right b hk
    rw [Nat.add_mul] at this
    omega
  · exact hk
  · have : (t + 1) * b ≤ S * b := Nat.mul_le_mul_right b hk
    rw [Nat.add_mul] at this
    omega

/-- distances transported along `A / W = a / b` -/
theorem adiff_transport (A W a b t : Nat) (hrel : A * b = a * W) :
    adiff A (t * W) * b = adiff a (t * b) * W := by
  rw [← adiff_mul_right, ← adiff_mul_right, hrel]
  have : t * W * b = t * b * W := by ac_rfl
  rw [this]

/-- the exact value in units of `2^qmin` -/
theorem exact_units (bits : Nat) (x : FP) :
    exactN bits x * 2 ^ (bias bits + mantBits bits - 1) = ulps bits x * exactD bits x := by
  have hbias : 1 ≤ bias bits := by unfold bias; split <;> omega
  unfold exactN exactD ulps FP.qexp
  generalize hex : (if x.exp = 0 then 1 else x.exp) = ex
  have hex1 : 1 ≤ ex := by rw [← hex]; split <;> omega
  by_cases h : ((ex : Nat) : Int) - ((bias bits + mantBits bits : Nat) : Int) ≥ 0
  · simp only [h, if_true, Nat.mul_one]
    rw [Nat.mul_assoc, ← Nat.pow_add]
    congr 2; omega
  · simp only [h, if_false]
    rw [Nat.mul_assoc, ← Nat.pow_add]
    congr 2; omega

theorem close_units (bits : Nat) (x : FP) (N D : Nat) (h : closeTo bits x N D) :
    2 ^ (mantBits bits + 2) * adiff (N * 2 ^ (bias bits + mantBits bits - 1)) (ulps bits x * D)
      < ulps bits x * D := by
  unfold closeTo at h
  have hu := exact_units bits x
  have hDpos : 0 < exactD bits x := by unfold exactD; split <;> simp [Nat.pos_of_ne_zero]
  have hU : 0 < 2 ^ (bias bits + mantBits bits - 1) := Nat.pos_of_ne_zero (by simp)
  generalize 2 ^ (bias bits + mantBits bits - 1) = U at *
  generalize exactN bits x = eN at *
  generalize exactD bits x = eD at *
  generalize ulps bits x = X at *
  generalize 2 ^ (mantBits bits + 2) = T at *
  apply Nat.lt_of_mul_lt_mul_right (a := eD)
  have e1 : adiff (N * U) (X * D) * eD = adiff (N * eD) (eN * D) * U := by
    rw [← adiff_mul_right, ← adiff_mul_right]
    have a1 : N * U * eD = N * eD * U := by ac_rfl
    have a2 : X * D * eD = eN * D * U := by
      calc X * D * eD = (X * eD) * D := by ac_rfl
        _ = (eN * U) * D := by rw [hu]
        _ = eN * D * U := by ac_rfl
    rw [a1, a2]
  have e2 : X * D * eD = eN * D * U := by
    calc X * D * eD = (X * eD) * D := by ac_rfl
      _ = (eN * U) * D := by rw [hu]
      _ = eN * D * U := by ac_rfl
  rw [Nat.mul_assoc, e1, e2, ← Nat.mul_assoc]
  exact Nat.mul_lt_mul_of_pos_right h hU

/-- the arithmetic heart: `A / D` (units) lies in the binade of exponent `j` (`a / b = A / D / 2^j` has integer
part in `[P, 2P)`, or `j = 0`), `S` is nearest to `a / b`, and `A / D` is within `X / 4P` of `X = s · 2^jx`
(a float significand `s < 2P`, normal unless `jx = 0`): then `S · 2^j = X`, with the same exponent, or — just
below a power of two — as a carry from the binade below -/
theorem close_core (P s jx j A D a b S : Nat) (hP : 0 < P) (hD : 0 < D) (hb : 0 < b)
    (hs : s < 2 * P) (hnorm : 1 ≤ jx → P ≤ s)
    (hrel : A * b = a * (2 ^ j * D))
    (hU : a / b < 2 * P) (hL : P ≤ a / b ∨ j = 0)
    (h1 : 2 * (S * b) ≤ 2 * a + b) (h2 : 2 * a ≤ 2 * (S * b) + b)
    (hC : 4 * P * adiff A (s * (2 ^ jx * D)) < s * (2 ^ jx * D)) :
    (j = jx ∧ S = s) ∨ (j + 1 = jx ∧ s = P ∧ S = 2 * P) := by
  have hWpos : 0 < 2 ^ j * D := Nat.mul_pos (two_pow_pos _) hD
  have hWxpos : 0 < 2 ^ jx * D := Nat.mul_pos (two_pow_pos _) hD
  have haU : a < 2 * P * b := (Nat.div_lt_iff_lt_mul hb).1 hU
  have hAU : A < 2 * P * (2 ^ j * D) := by
    apply Nat.lt_of_mul_lt_mul_right (a := b)
    rw [hrel]
    calc a * (2 ^ j * D) < 2 * P * b * (2 ^ j * D) := Nat.mul_lt_mul_of_pos_right haU hWpos
      _ = 2 * P * (2 ^ j * D) * b := by ac_rfl
  have hAL : P ≤ a / b → P * (2 ^ j * D) ≤ A := by
    intro h
    have : P * b ≤ a := (Nat.le_div_iff_mul_le hb).1 h
    apply Nat.le_of_mul_le_mul_right (c := b) _ hb
    rw [hrel]
    calc P * (2 ^ j * D) * b = P * b * (2 ^ j * D) := by ac_rfl
      _ ≤ a * (2 ^ j * D) := Nat.mul_le_mul_right _ this
  -- the unit of x
  generalize hWx : 2 ^ jx * D = Wx at *
  have hM : s * Wx < 2 * (P * Wx) := by
    have : s * Wx < 2 * P * Wx := Nat.mul_lt_mul_of_pos_right hs hWxpos
    rw [Nat.mul_assoc] at this; exact this
  have hsW : s * Wx + Wx ≤ 2 * (P * Wx) := by
    have : (s + 1) * Wx ≤ 2 * P * Wx := Nat.mul_le_mul_right _ hs
    rw [Nat.add_mul, Nat.mul_assoc] at this; omega
  by_cases hgt : jx < j
  · -- the binade above: impossible
    exfalso
    have hj0 : ¬ (j = 0) := by omega
    have hPa : P ≤ a / b := by rcases hL with h | h; exact h; omega
    have hA := hAL hPa
    have hW2 : 2 * Wx ≤ 2 ^ j * D := by
      rw [← hWx, ← Nat.mul_assoc]
      apply Nat.mul_le_mul_right
      have : 2 * 2 ^ jx = 2 ^ (jx + 1) := by rw [Nat.pow_succ]; omega
      rw [this]
      exact Nat.pow_le_pow_right (by omega) hgt
    have hA2 : 2 * (P * Wx) ≤ A := by
      calc 2 * (P * Wx) = P * (2 * Wx) := by ac_rfl
        _ ≤ P * (2 ^ j * D) := Nat.mul_le_mul_left _ hW2
        _ ≤ A := hA
    have hd : Wx ≤ adiff A (s * Wx) := by unfold adiff; omega
    have : 4 * P * Wx ≤ 4 * P * adiff A (s * Wx) := Nat.mul_le_mul_left _ hd
    have e : 4 * P * Wx = 4 * (P * Wx) := by ac_rfl
    omega
  · by_cases heq : j = jx
    · left
      refine ⟨heq, ?_⟩
      subst heq
      rw [hWx] at hrel
      apply uniq_nearest a b S s h1 h2
      -- 4P · |a - s b| < s b < 2P b
      have ht := adiff_transport A Wx a b s hrel
      have h3 : 4 * P * adiff a (s * b) * Wx < s * b * Wx := by
        calc 4 * P * adiff a (s * b) * Wx = 4 * P * (adiff a (s * b) * Wx) := by ac_rfl
          _ = 4 * P * (adiff A (s * Wx) * b) := by rw [ht]
          _ = 4 * P * adiff A (s * Wx) * b := by ac_rfl
          _ < s * Wx * b := Nat.mul_lt_mul_of_pos_right hC hb
          _ = s * b * Wx := by ac_rfl
      have h4 : 4 * P * adiff a (s * b) < s * b := Nat.lt_of_mul_lt_mul_right h3
      have h5 : s * b < 2 * P * b := Nat.mul_lt_mul_of_pos_right hs hb
      have h6 : 2 * P * (2 * adiff a (s * b)) < 2 * P * b := by
        calc 2 * P * (2 * adiff a (s * b)) = 4 * P * adiff a (s * b) := by
              rw [show 4 = 2 * 2 from rfl]; ac_rfl
          _ < 2 * P * b := Nat.lt_trans h4 h5
      exact Nat.lt_of_mul_lt_mul_left h6
    · have hlt : j < jx := by omega
      have hPs : P ≤ s := hnorm (by omega)
      have hPW : P * Wx ≤ s * Wx := Nat.mul_le_mul_right _ hPs
      by_cases h1j : j + 1 = jx
      · right
        -- Wx = 2 W
        have hW2 : Wx = 2 * (2 ^ j * D) := by
          rw [← hWx, ← h1j, Nat.pow_succ]; ac_rfl
        generalize hW : 2 ^ j * D = W at *
        have hAM : A < P * Wx := by
          rw [hW2]
          calc A < 2 * P * W := hAU
            _ = P * (2 * W) := by ac_rfl
        have hsP : s = P := by
          apply Nat.le_antisymm _ hPs
          apply Nat.le_of_not_lt
          intro hlt2
          have : (P + 1) * Wx ≤ s * Wx := Nat.mul_le_mul_right _ hlt2
          rw [Nat.add_mul, Nat.one_mul] at this
          have hd : Wx ≤ adiff A (s * Wx) := by unfold adiff; omega
          have : 4 * P * Wx ≤ 4 * P * adiff A (s * Wx) := Nat.mul_le_mul_left _ hd
          have e : 4 * P * Wx = 4 * (P * Wx) := by ac_rfl
          omega
        refine ⟨h1j, hsP, ?_⟩
        subst hsP
        apply uniq_nearest a b S (2 * s) h1 h2
        have hXW : s * Wx = 2 * s * W := by rw [hW2]; ac_rfl
        rw [hXW] at hC
        have ht := adiff_transport A W a b (2 * s) hrel
        have h3 : 4 * s * adiff a (2 * s * b) * W < 2 * s * b * W := by
          calc 4 * s * adiff a (2 * s * b) * W = 4 * s * (adiff a (2 * s * b) * W) := by ac_rfl
            _ = 4 * s * (adiff A (2 * s * W) * b) := by rw [ht]
            _ = 4 * s * adiff A (2 * s * W) * b := by ac_rfl
            _ < 2 * s * W * b := Nat.mul_lt_mul_of_pos_right hC hb
            _ = 2 * s * b * W := by ac_rfl
        have h4 : 4 * s * adiff a (2 * s * b) < 2 * s * b := Nat.lt_of_mul_lt_mul_right h3
        have h6 : 2 * s * (2 * adiff a (2 * s * b)) < 2 * s * b := by
          calc 2 * s * (2 * adiff a (2 * s * b)) = 4 * s * adiff a (2 * s * b) := by
                rw [show 4 = 2 * 2 from rfl]; ac_rfl
            _ < 2 * s * b := h4
        exact Nat.lt_of_mul_lt_mul_left h6
      · -- two or more binades below: impossible
        exfalso
        have hW4 : 4 * (2 ^ j * D) ≤ Wx := by
          rw [← hWx, ← Nat.mul_assoc]
          apply Nat.mul_le_mul_right
          have : 4 * 2 ^ j = 2 ^ (j + 2) := by rw [Nat.pow_succ, Nat.pow_succ]; omega
          rw [this]
          exact Nat.pow_le_pow_right (by omega) (by omega)
        have hA2 : 2 * A < P * Wx := by
          calc 2 * A < 2 * (2 * P * (2 ^ j * D)) := by omega
            _ = P * (4 * (2 ^ j * D)) := by rw [show 4 = 2 * 2 from rfl]; ac_rfl
            _ ≤ P * Wx := Nat.mul_le_mul_left _ hW4
        have hd : s * Wx < 2 * adiff A (s * Wx) := by unfold adiff; omega
        have h4 : 4 * adiff A (s * Wx) ≤ 4 * P * adiff A (s * Wx) := by
          apply Nat.mul_le_mul_right
          omega
        omega

theorem pow_cancel (u v dv t : Nat) (h : u * 2 ^ (dv + t) = v * 2 ^ dv) : u * 2 ^ t = v := by
  rw [Nat.pow_add, Nat.mul_comm (2 ^ dv), ← Nat.mul_assoc] at h
  exact Nat.eq_of_mul_eq_mul_right (two_pow_pos dv) h

theorem two_le_pow (t : Nat) (ht : 1 ≤ t) : 2 ≤ 2 ^ t := by
  calc 2 = 2 ^ 1 := rfl
    _ ≤ 2 ^ t := Nat.pow_le_pow_right (by omega) ht

/-- two well-formed floats with the same value `sig · 2^qexp` have the same fields -/
theorem fields_unique (bits : Nat) (y x : FP) (hy : y.wf bits = true) (hx : x.wf bits = true) (q : Int)
    (hqy : q ≤ y.qexp bits) (hqx : q ≤ x.qexp bits)
    (h : y.sig bits * 2 ^ (y.qexp bits - q).toNat = x.sig bits * 2 ^ (x.qexp bits - q).toNat) :
    y.exp = x.exp ∧ y.mant = x.mant := by
  unfold FP.wf at hy hx
  simp only [Bool.and_eq_true, decide_eq_true_eq] at hy hx
  unfold FP.sig FP.qexp at *
  generalize hK : bias bits + mantBits bits = K at *
  generalize hPd : 2 ^ mantBits bits = P at *
  by_cases hye : y.exp = 0 <;> by_cases hxe : x.exp = 0
  · simp only [hye, hxe, if_true] at h hqy hqx ⊢
    exact ⟨trivial, Nat.eq_of_mul_eq_mul_right (two_pow_pos _) h⟩
  · exfalso
    simp only [hye, hxe, if_true, if_false] at h hqy hqx
    have hd : (((x.exp : Nat) : Int) - (K : Int) - q).toNat
        = (((1 : Nat) : Int) - (K : Int) - q).toNat + (x.exp - 1) := by omega
    rw [hd] at h
    have := pow_cancel _ _ _ _ h.symm
    have hp : 1 ≤ 2 ^ (x.exp - 1) := two_pow_pos _
    have : (P + x.mant) * 1 ≤ (P + x.mant) * 2 ^ (x.exp - 1) := Nat.mul_le_mul_left _ hp
    omega
  · exfalso
    simp only [hye, hxe, if_true, if_false] at h hqy hqx
    have hd : (((y.exp : Nat) : Int) - (K : Int) - q).toNat
        = (((1 : Nat) : Int) - (K : Int) - q).toNat + (y.exp - 1) := by omega
    rw [hd] at h
    have := pow_cancel _ _ _ _ h
    have hp : 1 ≤ 2 ^ (y.exp - 1) := two_pow_pos _
    have : (P + y.mant) * 1 ≤ (P + y.mant) * 2 ^ (y.exp - 1) := Nat.mul_le_mul_left _ hp
    omega
  · simp only [hye, hxe, if_false] at h hqy hqx
    rcases Nat.lt_trichotomy y.exp x.exp with hlt | heq | hgt
    · exfalso
      have hd : (((x.exp : Nat) : Int) - (K : Int) - q).toNat
          = (((y.exp : Nat) : Int) - (K : Int) - q).toNat + (x.exp - y.exp) := by omega
      rw [hd] at h
      have := pow_cancel _ _ _ _ h.symm
      have hp := two_le_pow (x.exp - y.exp) (by omega)
      have : (P + x.mant) * 2 ≤ (P + x.mant) * 2 ^ (x.exp - y.exp) := Nat.mul_le_mul_left _ hp
      omega
    · rw [heq] at h
      have := Nat.eq_of_mul_eq_mul_right (two_pow_pos _) h
      exact ⟨heq, by omega⟩
    · exfalso
      have hd : (((y.exp : Nat) : Int) - (K : Int) - q).toNat
          = (((x.exp : Nat) : Int) - (K : Int) - q).toNat + (y.exp - x.exp) := by omega
      rw [hd] at h
      have := pow_cancel _ _ _ _ h
      have hp := two_le_pow (y.exp - x.exp) (by omega)
      have : (P + y.mant) * 2 ≤ (P + y.mant) * 2 ^ (y.exp - x.exp) := Nat.mul_le_mul_left _ hp
      omega

/-- THE SPACING LEMMA.  A fraction `N / D` whose distance from the finite non-zero float `x` is less than
`|x| / 2^(mantBits + 2)` — less than half the gap to the next float on either side, also just below a power of
two, among the subnormals and at the largest finite float — is rounded to `x` -/
theorem roundRat_of_close (bits : Nat) (x : FP) (hwf : x.wf bits = true) (hfin : x.isFinite bits = true)
    (N D : Nat) (hN : 0 < N) (hD : 0 < D) (hc : closeTo bits x N D) :
    roundRat bits N D = (x.exp, x.mant, false) := by
  have hC := close_units bits x N D hc
  obtain ⟨S, q, a, b, hab, hb, hq, hU, hL, h1, h2, _, hres⟩ := roundRat_spec bits N D hN hD
  have hbias : 1 ≤ bias bits := by unfold bias; split <;> omega
  have hem2 : 2 ≤ expMax bits := by unfold expMax expBits; split <;> simp
  have hwf' := hwf
  unfold FP.wf at hwf'
  simp only [Bool.and_eq_true, decide_eq_true_eq] at hwf'
  simp only [FP.isFinite, decide_eq_true_eq] at hfin
  generalize hKq : bias bits + mantBits bits - 1 = Kq at *
  obtain ⟨j, hj⟩ : ∃ j : Nat, q = (j : Int) - (Kq : Int) := ⟨(q + (Kq : Int)).toNat, by omega⟩
  have hrel : (N * 2 ^ Kq) * b = a * (2 ^ j * D) := by
    have := scaled_units N D Kq j
    rw [← hj, ← hab] at this
    rw [this]; ac_rfl
  have hp2 : 2 ^ (mantBits bits + 2) = 4 * 2 ^ mantBits bits := by
    rw [Nat.pow_succ, Nat.pow_succ]; omega
  have hp1 : 2 ^ (mantBits bits + 1) = 2 * 2 ^ mantBits bits := by rw [Nat.pow_succ]; omega
  have hPpos : 0 < 2 ^ mantBits bits := two_pow_pos _
  -- x in units
  have hxu : ulps bits x = x.sig bits * 2 ^ ((if x.exp = 0 then 1 else x.exp) - 1) := rfl
  have hxq : x.qexp bits = (((if x.exp = 0 then 1 else x.exp) : Nat) : Int)
      - ((bias bits + mantBits bits : Nat) : Int) := rfl
  have hsig : x.sig bits = if x.exp = 0 then x.mant else 2 ^ mantBits bits + x.mant := rfl
  generalize hex : (if x.exp = 0 then 1 else x.exp) = ex at *
  have hex1 : 1 ≤ ex ∧ ex < expMax bits := by rw [← hex]; split <;> omega
  have hs : x.sig bits < 2 * 2 ^ mantBits bits := by rw [hsig]; split <;> omega
  have hnorm : 1 ≤ ex - 1 → 2 ^ mantBits bits ≤ x.sig bits := by
    intro h
    have : ¬ (x.exp = 0) := by
      intro h0; rw [if_pos h0] at hex; omega
    rw [hsig, if_neg this]; omega
  rw [hxu, hp2, Nat.mul_assoc (x.sig bits) _ D] at hC
  rw [hp1] at hU
  have hL' : 2 ^ mantBits bits ≤ a / b ∨ j = 0 := by
    rcases hL with h | h
    · left; exact h
    · right; omega
  have hcore := close_core (2 ^ mantBits bits) (x.sig bits) (ex - 1) j (N * 2 ^ Kq) D a b S hPpos hD hb
    hs hnorm hrel hU hL' h1 h2 hC
  -- no overflow, and the encoded value is that of x
  have hkey : (if S = 2 ^ (mantBits bits + 1) then (1 : Int) else 0) + q + ((bias bits + mantBits bits : Nat) : Int)
      = (ex : Int) ∧ q ≤ x.qexp bits ∧ S = x.sig bits * 2 ^ (x.qexp bits - q).toNat := by
    rcases hcore with ⟨hjj, hS⟩ | ⟨hjj, hsP, hS⟩
    · have hne : ¬ (S = 2 ^ (mantBits bits + 1)) := by rw [hp1]; omega
      rw [if_neg hne]
      refine ⟨by omega, by omega, ?_⟩
      have : (x.qexp bits - q).toNat = 0 := by omega
      rw [this, hS]; simp
    · have he : S = 2 ^ (mantBits bits + 1) := by rw [hp1]; exact hS
      rw [if_pos he]
      refine ⟨by omega, by omega, ?_⟩
      have : (x.qexp bits - q).toNat = 1 := by omega
      rw [this, hS, hsP]; omega
  obtain ⟨hk1, hk2, hk3⟩ := hkey
  rcases hres with ⟨_, _, hexp⟩ | ⟨hno, hwfy, _, hqe, hval⟩
  · exfalso
    split at hexp <;> split at hk1 <;> omega
  · rw [hk3] at hval
    obtain ⟨he, hm⟩ := fields_unique bits _ x hwfy hwf q hqe hk2 hval
    simp only at he hm
    exact Prod.ext he (Prod.ext hm hno)

end Float
end Codec
end JP
