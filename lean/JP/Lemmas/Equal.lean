import JP.Lemmas.EqualBasic

/-!
# `eqCC` / `eqNC` decide `Value.eqv` on duplicate-free inputs
-/

namespace JP
open Value Cst

namespace Impl

/-! ### the map view of a raw member list -/

theorem keys_valueOfM : ∀ (ms : List (Bytes × Cst)),
    (valueOfM ms).map Prod.fst = ms.map (fun m => unquote m.1)
  | [] => rfl
  | (k, v) :: ms => by simp [valueOfM, keys_valueOfM ms]

theorem length_valueOfM : ∀ (ms : List (Bytes × Cst)), (valueOfM ms).length = ms.length
  | [] => rfl
  | (k, v) :: ms => by simp [valueOfM, length_valueOfM ms]

theorem hasKeyC_iff (k : Bytes) : ∀ (ms : List (Bytes × Cst)),
    hasKeyC k ms = true ↔ k ∈ (valueOfM ms).map Prod.fst
  | [] => by simp [hasKeyC, valueOfM]
  | (k', v) :: ms => by
    simp only [hasKeyC, valueOfM, List.map_cons, List.mem_cons, Bool.or_eq_true,
      decide_eq_true_eq, hasKeyC_iff k ms]
    constructor
    · intro h; cases h with
      | inl h => exact Or.inl h.symm
      | inr h => exact Or.inr h
    · intro h; cases h with
      | inl h => exact Or.inl h.symm
      | inr h => exact Or.inr h

theorem hasKeyC_false_of_nodup (k : Bytes) (v : Cst) (ms : List (Bytes × Cst))
    (h : nodupKeys ((valueOfM ((k, v) :: ms)).map Prod.fst) = true) :
    hasKeyC (unquote k) ms = false := by
  simp only [valueOfM, List.map_cons] at h
  have := ((nodupKeys_cons _ _).mp h).1
  cases hc : hasKeyC (unquote k) ms with
  | false => rfl
  | true => exact absurd ((hasKeyC_iff _ _).mp hc) this

theorem uniqueCount_nodup : ∀ (ms : List (Bytes × Cst)),
    nodupKeys ((valueOfM ms).map Prod.fst) = true → uniqueCount ms = ms.length
  | [], _ => rfl
  | (k, v) :: ms, h => by
    have h1 := hasKeyC_false_of_nodup k v ms h
    simp only [valueOfM, List.map_cons] at h
    have h2 := ((nodupKeys_cons _ _).mp h).2
    simp only [uniqueCount, h1, List.length_cons, uniqueCount_nodup ms h2]
    simp

/-- under duplicate-free names, "last member named `k`" is the association-list lookup -/
theorem lookupLastC_nodup (k : Bytes) : ∀ (ms : List (Bytes × Cst)),
    nodupKeys ((valueOfM ms).map Prod.fst) = true →
    (lookupLastC k ms).map valueOf = lookup k (valueOfM ms)
  | [], _ => rfl
  | (k', v) :: ms, h => by
    simp only [valueOfM, List.map_cons] at h
    have ⟨h1, h2⟩ := (nodupKeys_cons _ _).mp h
    have ih := lookupLastC_nodup k ms h2
    simp only [lookupLastC, valueOfM, lookup]
    by_cases hk : unquote k' = k
    · subst hk
      have hnone : lookup (unquote k') (valueOfM ms) = none := (lookup_eq_none_iff_E _ _).mpr h1
      rw [hnone] at ih
      cases hl : lookupLastC (unquote k') ms with
      | none => simp
      | some c => rw [hl] at ih; simp at ih
    · rw [if_neg hk, ← ih]
      cases hl : lookupLastC k ms with
      | none => simp [hk]
      | some c => simp [hk]

theorem noDup_of_lookupLastC (k : Bytes) (c : Cst) : ∀ (ms : List (Bytes × Cst)),
    noDupM (valueOfM ms) = true → lookupLastC k ms = some c → noDup (valueOf c) = true
  | [], _ => by simp [lookupLastC]
  | (k', v) :: ms, h => by
    simp only [valueOfM, noDupM, Bool.and_eq_true] at h
    simp only [lookupLastC]
    cases hl : lookupLastC k ms with
    | some c' =>
      intro e; cases e
      exact noDup_of_lookupLastC k c ms h.2 hl
    | none =>
      by_cases hk : unquote k' = k
      · simp only [hk, if_true]; intro e; cases e; exact h.1
      · simp [hk]

/-! ### literals -/

theorem isNullLit_iff (c : Cst) : c.isNullLit = true ↔ c = .lit (ascii "null") := by
  cases c <;> simp [isNullLit]

theorem litValue_not_container (s : Bytes) :
    (∀ b, litValue s ≠ .str b) ∧ (∀ xs, litValue s ≠ .arr xs) ∧ (∀ ms, litValue s ≠ .obj ms) := by
  unfold litValue
  refine ⟨?_, ?_, ?_⟩ <;> intro x <;> split <;> (try split) <;> (try split) <;> simp

theorem litValue_eq_null_iff (s : Bytes) : litValue s = .null ↔ s = ascii "null" := by
  unfold litValue
  split
  · simp_all
  · split
    · simp_all
    · split <;> simp_all

theorem valueOf_eq_null_iff (c : Cst) : (match valueOf c with | .null => true | _ => false) = c.isNullLit := by
  cases c with
  | lit s =>
    simp only [valueOf, isNullLit]
    by_cases h : s = ascii "null"
    · simp [h, litValue]
    · have h1 : (s == ascii "null") = false := by simpa using h
      have h2 : litValue s ≠ .null := fun e => h ((litValue_eq_null_iff s).mp e)
      rw [h1]
      cases hl : litValue s <;> simp_all
  | str b => simp [valueOf, isNullLit]
  | arr xs => simp [valueOf, isNullLit]
  | obj ms => simp [valueOf, isNullLit]

theorem eqv_null_left (v : Value) : eqv .null v = (match v with | .null => true | _ => false) := by
  cases v <;> simp [eqv]

/-- `eqv` of two literal values is equality of the literals -/
theorem eqv_litValue (s t : Bytes) : eqv (litValue s) (litValue t) = (s == t) := by
  by_cases h : s = t
  · subst h
    simp only [beq_self_eq_true]
    unfold litValue
    split
    · rfl
    · split
      · simp [eqv]
      · split <;> simp [eqv]
  · have hne : (s == t) = false := by simpa using h
    rw [hne]
    have hinj : litValue s ≠ litValue t := fun e => h ((litValue_inj s t).mp e)
    have hcs := litValue_not_container s
    have hct := litValue_not_container t
    cases hs : litValue s <;> cases ht : litValue t <;> simp_all [eqv]

theorem eqv_litValue_str (s b : Bytes) : eqv (litValue s) (.str b) = false := by
  have := (litValue_not_container s).1
  cases h : litValue s <;> simp_all [eqv]

theorem eqv_litValue_arr (s : Bytes) (xs : List Value) : eqv (litValue s) (.arr xs) = false := by
  have := (litValue_not_container s).2.1
  cases h : litValue s <;> simp_all [eqv]

theorem eqv_litValue_obj (s : Bytes) (ms : Members) : eqv (litValue s) (.obj ms) = false := by
  have := (litValue_not_container s).2.2
  cases h : litValue s <;> simp_all [eqv]

theorem eqv_str_litValue (b s : Bytes) : eqv (.str b) (litValue s) = false := by
  have := (litValue_not_container s).1
  cases h : litValue s <;> simp_all [eqv]

theorem eqv_arr_litValue (xs : List Value) (s : Bytes) : eqv (.arr xs) (litValue s) = false := by
  have := (litValue_not_container s).2.1
  cases h : litValue s <;> simp_all [eqv]

theorem eqv_obj_litValue (ms : Members) (s : Bytes) : eqv (.obj ms) (litValue s) = false := by
  have := (litValue_not_container s).2.2
  cases h : litValue s <;> simp_all [eqv]

theorem eqCC_lit (s : Bytes) (o : Cst) : eqCC (.lit s) o = eqv (litValue s) (valueOf o) := by
  cases o with
  | lit t =>
    simp only [eqCC, valueOf, isNullLit, eqv_litValue]
    by_cases hs : s = ascii "null"
    · subst hs
      by_cases ht : t = ascii "null"
      · subst ht; simp
      · have h1 : (t == ascii "null") = false := by simpa using ht
        have h2 : (ascii "null" == t) = false := by simpa using fun e => ht e.symm
        simp [h1, h2]
    · by_cases ht : t = ascii "null"
      · subst ht
        have h2 : (s == ascii "null") = false := by simpa using hs
        simp [hs, h2]
      · have h1 : (t == ascii "null") = false := by simpa using ht
        simp [hs, h1]
  | str b =>
    simp only [eqCC, valueOf, isNullLit, eqv_litValue_str]
    by_cases hs : s = ascii "null" <;> simp [hs]
  | arr xs =>
    simp only [eqCC, valueOf, isNullLit, eqv_litValue_arr]
    by_cases hs : s = ascii "null" <;> simp [hs]
  | obj ms =>
    simp only [eqCC, valueOf, isNullLit, eqv_litValue_obj]
    by_cases hs : s = ascii "null" <;> simp [hs]

/-! ### the main induction for raw messages -/

mutual
theorem eqCC_eqv : ∀ (a b : Cst), noDup a.valueOf = true → noDup b.valueOf = true →
    eqCC a b = eqv a.valueOf b.valueOf
  | .lit s, b, _, _ => by rw [eqCC_lit]; rfl
  | .str s, b, _, _ => by
    cases b with
    | lit t => simp [eqCC, valueOf, eqv_str_litValue]
    | str t => simp [eqCC, valueOf, eqv]
    | arr ys => simp [eqCC, valueOf, eqv]
    | obj os => simp [eqCC, valueOf, eqv]
  | .arr xs, b, ha, hb => by
    cases b with
    | arr ys =>
      simp only [valueOf, noDup] at ha hb
      simp only [eqCC, valueOf, eqv]
      exact eqCCL_eqv xs ys ha hb
    | lit t => simp [eqCC, valueOf, eqv_arr_litValue]
    | str t => simp [eqCC, valueOf, eqv]
    | obj os => simp [eqCC, valueOf, eqv]
  | .obj ms, b, ha, hb => by
    cases b with
    | obj os =>
      simp only [valueOf, noDup, Bool.and_eq_true] at ha hb
      simp only [eqCC, valueOf]
      rw [eqv_obj_nodup _ _ ha.1 hb.1, uniqueCount_nodup ms ha.1, uniqueCount_nodup os hb.1,
        length_valueOfM, length_valueOfM, eqCCM_eqv ms os ha.1 ha.2 hb.1 hb.2]
    | lit t => simp [eqCC, valueOf, eqv_obj_litValue]
    | str t => simp [eqCC, valueOf, eqv]
    | arr ys => simp [eqCC, valueOf, eqv]
theorem eqCCL_eqv : ∀ (xs ys : List Cst), noDupL (valueOfL xs) = true → noDupL (valueOfL ys) = true →
    eqCCL xs ys = eqvL (valueOfL xs) (valueOfL ys)
  | [], ys, _, _ => by cases ys <;> simp [eqCCL, eqvL, valueOfL]
  | x :: xs, ys, ha, hb => by
    cases ys with
    | nil => simp [eqCCL, eqvL, valueOfL]
    | cons y ys =>
      simp only [valueOfL, noDupL, Bool.and_eq_true] at ha hb
      simp only [eqCCL, eqvL, valueOfL]
      rw [eqCC_eqv x y ha.1 hb.1, eqCCL_eqv xs ys ha.2 hb.2]
theorem eqCCM_eqv : ∀ (ms os : List (Bytes × Cst)),
    nodupKeys ((valueOfM ms).map Prod.fst) = true → noDupM (valueOfM ms) = true →
    nodupKeys ((valueOfM os).map Prod.fst) = true → noDupM (valueOfM os) = true →
    eqCCM ms os = eqvM (valueOfM ms) (valueOfM os)
  | [], os, _, _, _, _ => by simp [eqCCM, eqvM, valueOfM]
  | (k, v) :: ms, os, hk, hd, hko, hdo => by
    have h1 := hasKeyC_false_of_nodup k v ms hk
    simp only [valueOfM, List.map_cons] at hk
    have hk2 := ((nodupKeys_cons _ _).mp hk).2
    simp only [valueOfM, noDupM, Bool.and_eq_true] at hd
    simp only [eqCCM, eqvM, valueOfM, h1]
    rw [eqCCM_eqv ms os hk2 hd.2 hko hdo, ← lookupLastC_nodup (unquote k) os hko]
    cases hl : lookupLastC (unquote k) os with
    | none => simp
    | some ov =>
      have := noDup_of_lookupLastC (unquote k) ov os hdo hl
      simp [eqCC_eqv v ov hd.1 this]
end

/-! ### nodes -/

theorem nodup_fst_denM : ∀ (ob : NMembers), (denM ob).map Prod.fst = ob.map Prod.fst
  | [] => rfl
  | (k, n) :: ms => by simp [denM, nodup_fst_denM ms]

theorem length_denM : ∀ (ob : NMembers), (denM ob).length = ob.length
  | [] => rfl
  | (k, n) :: ms => by simp [denM, length_denM ms]

/-- the value of a well-formed parsed object is its member list -/
theorem den_doc_wf (keys : List Bytes) (ob : NMembers)
    (hk : keys = ob.map Prod.fst) (hn : nodupKeys keys = true) :
    den (.doc keys ob) = .obj (denM ob) := by
  simp only [den]
  subst hk
  rw [← nodup_fst_denM] at hn ⊢
  rw [map_lookup_self _ ((nodupKeys_iff _).mp hn)]

theorem WF_doc_iff (keys : List Bytes) (ob : NMembers) :
    WF (.doc keys ob) = true ↔ keys = ob.map Prod.fst ∧ nodupKeys keys = true ∧ WFM ob = true := by
  simp only [WF, Bool.and_eq_true, beq_iff_eq, and_assoc]

mutual
theorem noDup_den : ∀ (n : Node), WF n = true → noDup (den n) = true
  | .nil, _ => rfl
  | .raw c, h => by simpa [WF, den] using h
  | .doc keys ob, h => by
    have ⟨hk, hn, hm⟩ := (WF_doc_iff keys ob).mp h
    rw [den_doc_wf keys ob hk hn]
    simp only [noDup, Bool.and_eq_true]
    refine ⟨?_, noDupM_denM ob hm⟩
    rw [nodup_fst_denM, ← hk]; exact hn
  | .ary ns, h => by
    simp only [WF] at h
    simp only [den, noDup]
    exact noDupL_denL ns h
  | .docNil, h => by simp [WF] at h
  | .nilAry, h => by simp [WF] at h
theorem noDupM_denM : ∀ (ob : NMembers), WFM ob = true → noDupM (denM ob) = true
  | [], _ => rfl
  | (k, n) :: ms, h => by
    simp only [WFM, Bool.and_eq_true] at h
    simp only [denM, noDupM, Bool.and_eq_true]
    exact ⟨noDup_den n h.1, noDupM_denM ms h.2⟩
theorem noDupL_denL : ∀ (ns : List Node), WFL ns = true → noDupL (denL ns) = true
  | [], _ => rfl
  | n :: ns, h => by
    simp only [WFL, Bool.and_eq_true] at h
    simp only [denL, noDupL, Bool.and_eq_true]
    exact ⟨noDup_den n h.1, noDupL_denL ns h.2⟩
end

mutual
theorem eqNC_eqv : ∀ (n : Node) (c : Cst), WF n = true → noDup c.valueOf = true →
    eqNC n c = eqv (den n) c.valueOf
  | .nil, c, _, _ => by
    simp only [eqNC, den, eqv_null_left]; exact (valueOf_eq_null_iff c).symm
  | .nilAry, c, h, _ => by simp [WF] at h
  | .docNil, c, h, _ => by simp [WF] at h
  | .raw a, c, h, hc => by
    simp only [WF] at h
    simp only [eqNC, den]
    exact eqCC_eqv a c h hc
  | .doc keys ob, c, h, hc => by
    have ⟨hk, hn, hm⟩ := (WF_doc_iff keys ob).mp h
    rw [den_doc_wf keys ob hk hn]
    cases c with
    | obj os =>
      simp only [valueOf, noDup, Bool.and_eq_true] at hc
      have hnd : nodupKeys ((denM ob).map Prod.fst) = true := by
        rw [nodup_fst_denM, ← hk]; exact hn
      simp only [eqNC, valueOf]
      rw [eqv_obj_nodup _ _ hnd hc.1, uniqueCount_nodup os hc.1, length_denM, length_valueOfM,
        eqNCM_eqv ob os hm hc.1 hc.2]
    | lit t => simp [eqNC, valueOf, eqv_obj_litValue]
    | str t => simp [eqNC, valueOf, eqv]
    | arr ys => simp [eqNC, valueOf, eqv]
  | .ary ns, c, h, hc => by
    simp only [WF] at h
    cases c with
    | arr ys =>
      simp only [valueOf, noDup] at hc
      simp only [eqNC, den, valueOf, eqv]
      exact eqNCL_eqv ns ys h hc
    | lit t => simp [eqNC, den, valueOf, eqv_arr_litValue]
    | str t => simp [eqNC, den, valueOf, eqv]
    | obj os => simp [eqNC, den, valueOf, eqv]
theorem eqNCL_eqv : ∀ (ns : List Node) (ys : List Cst), WFL ns = true → noDupL (valueOfL ys) = true →
    eqNCL ns ys = eqvL (denL ns) (valueOfL ys)
  | [], ys, _, _ => by cases ys <;> simp [eqNCL, eqvL, denL, valueOfL]
  | n :: ns, ys, ha, hb => by
    cases ys with
    | nil => simp [eqNCL, eqvL, denL, valueOfL]
    | cons y ys =>
      simp only [WFL, valueOfL, noDupL, Bool.and_eq_true] at ha hb
      simp only [eqNCL, eqvL, denL, valueOfL]
      rw [eqNC_eqv n y ha.1 hb.1, eqNCL_eqv ns ys ha.2 hb.2]
theorem eqNCM_eqv : ∀ (ob : NMembers) (os : List (Bytes × Cst)), WFM ob = true →
    nodupKeys ((valueOfM os).map Prod.fst) = true → noDupM (valueOfM os) = true →
    eqNCM ob os = eqvM (denM ob) (valueOfM os)
  | [], os, _, _, _ => by simp [eqNCM, eqvM, denM]
  | (k, n) :: ms, os, hm, hko, hdo => by
    simp only [WFM, Bool.and_eq_true] at hm
    simp only [eqNCM, eqvM, denM]
    rw [eqNCM_eqv ms os hm.2 hko hdo, ← lookupLastC_nodup k os hko]
    cases hl : lookupLastC k os with
    | none => simp
    | some ov =>
      have := noDup_of_lookupLastC k ov os hdo hl
      simp [eqNC_eqv n ov hm.1 this]
end

end Impl
end JP
