import JP.Lemmas.TypedPaths

/-!
# The typed encoder is total on well-typed values with valid numbers

`enc` returns `none` for three reasons: an invalid `json.Number` (Go's `e.error`), lack of fuel, and
the defensive branches (a value not of the type the encoder was built for, `Walked.bad`).  On values
with `GoVal.hasType t v` the last two never happen with the fuel `v.height + 1` of `marshalTyped`:
`typed_total`.  More fuel never changes a result: `enc_fuel_mono`.
-/

namespace JP
namespace Codec
namespace Typed

open JP.Codec.Enc (isValidNumber null)

mutual
/-- every `json.Number` inside the value (as far as the static/dynamic types say it is one) passes
`isValidNumber` (the empty literal counts as "0") -/
def numsOk : GoType → GoVal → Bool
  | t, .str s => (match t with | .number => isValidNumber (if s.isEmpty then [48] else s) | _ => true)
  | t, .list xs =>
    (match t with
     | .slice e => numsOkAll e xs
     | .array _ e => numsOkAll e xs
     | _ => true)
  | t, .map ms => (match t with | .map _ e => numsOkM e ms | _ => true)
  | t, .ptr v => (match t with | .ptr e => numsOk e v | _ => true)
  | _, .iface dt v => numsOk dt v
  | t, .struct vs => (match t with | .struct _ fts => numsOkL fts vs | _ => true)
  | _, .nil => true
  | _, .bool _ => true
  | _, .int _ => true
  | _, .uint _ => true
  | _, .bytes _ => true
def numsOkAll (e : GoType) : List GoVal → Bool
  | [] => true
  | x :: xs => numsOk e x && numsOkAll e xs
def numsOkM (e : GoType) : List (MapKey × GoVal) → Bool
  | [] => true
  | (_, v) :: ms => numsOk e v && numsOkM e ms
def numsOkL : List (FieldInfo × GoType) → List GoVal → Bool
  | _, [] => true
  | fts, v :: vs => (match fts with | (_, ft) :: r => numsOk ft v && numsOkL r vs | [] => true)
end

/-! ### components of well-typed values -/

theorem heightL_mem : ∀ (xs : List GoVal) (x : GoVal), x ∈ xs → x.height ≤ heightL xs
  | [], x, hx => by cases hx
  | y :: ys, x, hx => by
    simp only [heightL]
    cases hx with
    | head => exact Nat.le_max_left _ _
    | tail _ hx' => exact Nat.le_trans (heightL_mem ys x hx') (Nat.le_max_right _ _)

theorem heightM_mem : ∀ (ms : List (MapKey × GoVal)) (p : MapKey × GoVal), p ∈ ms → p.2.height ≤ heightM ms
  | [], p, hp => by cases hp
  | (k, v) :: ms, p, hp => by
    simp only [heightM]
    cases hp with
    | head => exact Nat.le_max_left _ _
    | tail _ hp' => exact Nat.le_trans (heightM_mem ms p hp') (Nat.le_max_right _ _)

theorem hasTypeAll_mem (e : GoType) : ∀ (xs : List GoVal), hasTypeAll e xs = true → ∀ x ∈ xs, GoVal.hasType e x = true
  | [], _, x, hx => by cases hx
  | y :: ys, h, x, hx => by
    simp only [hasTypeAll, Bool.and_eq_true] at h
    cases hx with
    | head => exact h.1
    | tail _ hx' => exact hasTypeAll_mem e ys h.2 x hx'

theorem numsOkAll_mem (e : GoType) : ∀ (xs : List GoVal), numsOkAll e xs = true → ∀ x ∈ xs, numsOk e x = true
  | [], _, x, hx => by cases hx
  | y :: ys, h, x, hx => by
    simp only [numsOkAll, Bool.and_eq_true] at h
    cases hx with
    | head => exact h.1
    | tail _ hx' => exact numsOkAll_mem e ys h.2 x hx'

theorem hasTypeM_mem (k : KeyType) (e : GoType) : ∀ (ms : List (MapKey × GoVal)), hasTypeM k e ms = true →
    ∀ p ∈ ms, GoVal.hasType e p.2 = true
  | [], _, p, hp => by cases hp
  | (key, v) :: ms, h, p, hp => by
    simp only [hasTypeM, Bool.and_eq_true] at h
    cases hp with
    | head => exact h.1.2
    | tail _ hp' => exact hasTypeM_mem k e ms h.2 p hp'

theorem numsOkM_mem (e : GoType) : ∀ (ms : List (MapKey × GoVal)), numsOkM e ms = true →
    ∀ p ∈ ms, numsOk e p.2 = true
  | [], _, p, hp => by cases hp
  | (key, v) :: ms, h, p, hp => by
    simp only [numsOkM, Bool.and_eq_true] at h
    cases hp with
    | head => exact h.1
    | tail _ hp' => exact numsOkM_mem e ms h.2 p hp'

/-- a struct value has a value of the field's type at every field position -/
theorem hasTypeL_getElem : ∀ (vs : List GoVal) (fs : List (FieldInfo × GoType)) (i : Nat) (fi : FieldInfo) (ft : GoType),
    hasTypeL fs vs = true → fs[i]? = some (fi, ft) → ∃ v, vs[i]? = some v ∧ GoVal.hasType ft v = true
  | [], fs, i, fi, ft, h, hg => by
    simp only [hasTypeL, List.isEmpty_iff] at h
    subst h
    simp only [List.getElem?_nil] at hg
    cases hg
  | v :: vs, fs, i, fi, ft, h, hg => by
    cases fs with
    | nil => simp only [hasTypeL, Bool.false_eq_true] at h
    | cons p r =>
      obtain ⟨fi', ft'⟩ := p
      simp only [hasTypeL, Bool.and_eq_true] at h
      cases i with
      | zero =>
        simp only [List.getElem?_cons_zero, Option.some.injEq, Prod.mk.injEq] at hg
        obtain ⟨_, rfl⟩ := hg
        exact ⟨v, rfl, h.1⟩
      | succ j =>
        simp only [List.getElem?_cons_succ] at hg ⊢
        exact hasTypeL_getElem vs r j fi ft h.2 hg

theorem numsOkL_getElem : ∀ (vs : List GoVal) (fs : List (FieldInfo × GoType)) (i : Nat) (fi : FieldInfo) (ft : GoType) (v : GoVal),
    numsOkL fs vs = true → fs[i]? = some (fi, ft) → vs[i]? = some v → numsOk ft v = true
  | [], fs, i, fi, ft, v, _, _, hv => by
    simp only [List.getElem?_nil] at hv
    cases hv
  | x :: vs, fs, i, fi, ft, v, h, hg, hv => by
    cases fs with
    | nil => simp only [List.getElem?_nil] at hg; cases hg
    | cons p r =>
      obtain ⟨fi', ft'⟩ := p
      simp only [numsOkL, Bool.and_eq_true] at h
      cases i with
      | zero =>
        simp only [List.getElem?_cons_zero, Option.some.injEq, Prod.mk.injEq] at hg hv
        obtain ⟨_, rfl⟩ := hg
        subst hv
        exact h.1
      | succ j =>
        simp only [List.getElem?_cons_succ] at hg hv
        exact numsOkL_getElem vs r j fi ft v h.2 hg hv

theorem hasType_struct (n : Bytes) (fs : List (FieldInfo × GoType)) (v : GoVal)
    (h : GoVal.hasType (.struct n fs) v = true) : ∃ vs, v = .struct vs ∧ hasTypeL fs vs = true := by
  cases v <;> simp only [GoVal.hasType, GoType.nilable, Bool.false_eq_true] at h
  exact ⟨_, rfl, h⟩

theorem hasType_ptr (e : GoType) (v : GoVal) (h : GoVal.hasType (.ptr e) v = true) :
    v = .nil ∨ ∃ p, v = .ptr p ∧ GoVal.hasType e p = true := by
  cases v <;> simp only [GoVal.hasType, GoType.nilable, Bool.false_eq_true] at h
  · exact Or.inl rfl
  · exact Or.inr ⟨_, rfl, h⟩

theorem structFieldsOf_getElem (t : GoType) (i : Nat) (p : FieldInfo × GoType)
    (h : (structFieldsOf t)[i]? = some p) : ∃ n fs, t = .struct n fs := by
  cases t <;> simp only [structFieldsOf, List.getElem?_nil] at h <;> try cases h
  exact ⟨_, _, rfl⟩

theorem deref_eq_struct (t : GoType) (n : Bytes) (fs : List (FieldInfo × GoType))
    (h : t.deref = .struct n fs) : t = .struct n fs ∨ t = .ptr (.struct n fs) := by
  cases t <;> simp only [GoType.deref] at h <;> try cases h
  · exact Or.inr rfl
  · exact Or.inl rfl

/-! ### walking a valid path in a well-typed value -/

theorem fieldOf_ok (fs : List (FieldInfo × GoType)) (vs : List GoVal) (i : Nat) (fi : FieldInfo) (ft : GoType)
    (hg : fs[i]? = some (fi, ft)) (ht : hasTypeL fs vs = true) (hn : numsOkL fs vs = true) :
    ∃ fv, fieldOf i (.struct vs) = .val fv ∧ GoVal.hasType ft fv = true ∧ numsOk ft fv = true
      ∧ fv.height ≤ heightL vs := by
  obtain ⟨fv, hv, h1⟩ := hasTypeL_getElem vs fs i fi ft ht hg
  refine ⟨fv, ?_, h1, numsOkL_getElem vs fs i fi ft fv hn hg hv, heightL_mem vs fv (List.mem_of_getElem? hv)⟩
  simp only [fieldOf, hv]

/-- one step from a value of struct type or pointer-to-struct type: a nil pointer, or the field, which
is of the field's type and strictly lower -/
theorem walkStep_ok (t : GoType) (v : GoVal) (i : Nat) (fi : FieldInfo) (ft : GoType)
    (hg : (structFieldsOf t.deref)[i]? = some (fi, ft))
    (ht : GoVal.hasType t v = true) (hn : numsOk t v = true) :
    walkStep i v = .skip ∨
      ∃ fv, walkStep i v = .val fv ∧ GoVal.hasType ft fv = true ∧ numsOk ft fv = true ∧ fv.height < v.height := by
  obtain ⟨n, fs, he⟩ := structFieldsOf_getElem _ i _ hg
  rw [he] at hg
  simp only [structFieldsOf] at hg
  rcases deref_eq_struct t n fs he with rfl | rfl
  · obtain ⟨vs, rfl, hl⟩ := hasType_struct n fs v ht
    simp only [numsOk] at hn
    obtain ⟨fv, h1, h2, h3, h4⟩ := fieldOf_ok fs vs i fi ft hg hl hn
    refine Or.inr ⟨fv, ?_, h2, h3, ?_⟩
    · simp only [walkStep]; exact h1
    · simp only [GoVal.height]; omega
  · rcases hasType_ptr _ v ht with rfl | ⟨p, rfl, hp⟩
    · exact Or.inl rfl
    · obtain ⟨vs, rfl, hl⟩ := hasType_struct n fs p hp
      simp only [numsOk] at hn
      obtain ⟨fv, h1, h2, h3, h4⟩ := fieldOf_ok fs vs i fi ft hg hl hn
      refine Or.inr ⟨fv, ?_, h2, h3, ?_⟩
      · simp only [walkStep]; exact h1
      · simp only [GoVal.height]; omega

/-- following a valid path from a well-typed value never gives `Walked.bad`; the value reached is of
the type `typeByIndex` names, its numbers are valid, and it is lower (strictly for a non-empty path) -/
theorem walk_ok : ∀ (idx : List Nat) (t : GoType) (v : GoVal), pathOk t idx = true →
    GoVal.hasType t v = true → numsOk t v = true →
    walk idx v = .skip ∨
      ∃ fv, walk idx v = .val fv ∧ GoVal.hasType (typeByIndex t idx) fv = true
        ∧ numsOk (typeByIndex t idx) fv = true ∧ fv.height ≤ v.height ∧ (idx ≠ [] → fv.height < v.height)
  | [], _, v, _, ht, hn => Or.inr ⟨v, rfl, ht, hn, Nat.le_refl _, fun h => absurd rfl h⟩
  | i :: is, t, v, hp, ht, hn => by
    simp only [pathOk] at hp
    cases hg : (structFieldsOf t.deref)[i]? with
    | none => rw [hg] at hp; cases hp
    | some p =>
      obtain ⟨fi, ft⟩ := p
      rw [hg] at hp
      simp only [] at hp
      simp only [walk, typeByIndex, hg]
      rcases walkStep_ok t v i fi ft hg ht hn with hs | ⟨fv, hs, h1, h2, h3⟩
      · left; rw [hs]
      · rw [hs]
        simp only []
        rcases walk_ok is ft fv hp h1 h2 with hw | ⟨fv', hw, h4, h5, h6, _⟩
        · exact Or.inl hw
        · exact Or.inr ⟨fv', hw, h4, h5, by omega, fun _ => by omega⟩

theorem walk_ne_bad (idx : List Nat) (t : GoType) (v : GoVal) (hp : pathOk t idx = true)
    (ht : GoVal.hasType t v = true) : walk idx v ≠ .bad := by
  -- `numsOk` plays no role for the shape: rerun the walk with the steps only
  induction idx generalizing t v with
  | nil => intro h; simp only [walk] at h; cases h
  | cons i is ih =>
    intro h
    simp only [pathOk] at hp
    cases hg : (structFieldsOf t.deref)[i]? with
    | none => rw [hg] at hp; cases hp
    | some p =>
      obtain ⟨fi, ft⟩ := p
      rw [hg] at hp
      simp only [] at hp
      obtain ⟨n, fs, he⟩ := structFieldsOf_getElem _ i _ hg
      rw [he] at hg
      simp only [structFieldsOf] at hg
      simp only [walk] at h
      rcases deref_eq_struct t n fs he with rfl | rfl
      · obtain ⟨vs, rfl, hl⟩ := hasType_struct n fs v ht
        obtain ⟨fv, hv, h1⟩ := hasTypeL_getElem vs fs i fi ft hl hg
        simp only [walkStep, fieldOf, hv] at h
        exact ih ft fv hp h1 h
      · rcases hasType_ptr _ v ht with rfl | ⟨p, rfl, hpt⟩
        · simp only [walkStep] at h; cases h
        · obtain ⟨vs, rfl, hl⟩ := hasType_struct n fs p hpt
          obtain ⟨fv, hv, h1⟩ := hasTypeL_getElem vs fs i fi ft hl hg
          simp only [walkStep, fieldOf, hv] at h
          exact ih ft fv hp h1 h

/-- the struct case in one statement: for every selected field of a struct type, following its index
sequence from a value of that type is never `Walked.bad`, and a value reached is of the field's
type, has valid numbers, and is strictly lower than the struct -/
theorem typeFields_walk (n : Bytes) (fs : List (FieldInfo × GoType)) (v : GoVal)
    (ht : GoVal.hasType (.struct n fs) v = true) (hn : numsOk (.struct n fs) v = true) :
    ∀ fld ∈ typeFields (.struct n fs), walk fld.index v ≠ .bad ∧
      ∀ fv, walk fld.index v = .val fv →
        GoVal.hasType (typeByIndex (.struct n fs) fld.index) fv = true
        ∧ numsOk (typeByIndex (.struct n fs) fld.index) fv = true ∧ fv.height < v.height := by
  intro fld hfld
  have hp := typeFields_pathOk_struct n fs fld hfld
  refine ⟨walk_ne_bad _ _ _ hp ht, fun fv hw => ?_⟩
  rcases walk_ok fld.index _ v hp ht hn with hs | ⟨fv', hw', h1, h2, _, h4⟩
  · rw [hs] at hw; cases hw
  · rw [hw'] at hw
    cases hw
    exact ⟨h1, h2, h4 (typeFields_index_ne_nil _ fld hfld)⟩

/-! ### the combinators return when the element encoder does -/

theorem encAll_isSome {α : Type} (f : GoVal → Option α) : ∀ (xs : List GoVal),
    (∀ x ∈ xs, (f x).isSome = true) → (encAll f xs).isSome = true
  | [], _ => rfl
  | x :: xs, h => by
    have ih := encAll_isSome f xs (fun y hy => h y (List.mem_cons_of_mem _ hy))
    have hx := h x List.mem_cons_self
    simp only [encAll]
    cases hf : f x with
    | none => rw [hf] at hx; cases hx
    | some b =>
      simp only []
      cases hr : encAll f xs with
      | none => rw [hr] at ih; cases ih
      | some bs => rfl

theorem encEntries_isSome {α : Type} (f : GoVal → Option α) : ∀ (ms : List (MapKey × GoVal)),
    (∀ p ∈ ms, (f p.2).isSome = true) → (encEntries f ms).isSome = true
  | [], _ => rfl
  | (k, v) :: ms, h => by
    have ih := encEntries_isSome f ms (fun y hy => h y (List.mem_cons_of_mem _ hy))
    have hx := h (k, v) List.mem_cons_self
    simp only [encEntries]
    cases hf : f v with
    | none => rw [hf] at hx; cases hx
    | some b =>
      simp only []
      cases hr : encEntries f ms with
      | none => rw [hr] at ih; cases ih
      | some bs => rfl

theorem encFields_isSome {α : Type} (f : Bool → GoType → GoVal → Option α) (t : GoType) (v : GoVal) :
    ∀ (flds : List Fld),
      (∀ fld ∈ flds, walk fld.index v = .skip ∨
        ∃ fv, walk fld.index v = .val fv ∧ (f fld.quoted (typeByIndex t fld.index) fv).isSome = true) →
      (encFields f t v flds).isSome = true
  | [], _ => rfl
  | fld :: flds, h => by
    have ih := encFields_isSome f t v flds (fun y hy => h y (List.mem_cons_of_mem _ hy))
    simp only [encFields]
    rcases h fld List.mem_cons_self with hw | ⟨fv, hw, hs⟩
    · rw [hw]; exact ih
    · rw [hw]
      simp only []
      cases he : (fld.omitEmpty && isEmptyValue (typeByIndex t fld.index) fv) with
      | true => simp only [if_true]; exact ih
      | false =>
        simp only [Bool.false_eq_true, if_false]
        cases hf : f fld.quoted (typeByIndex t fld.index) fv with
        | none => rw [hf] at hs; cases hs
        | some b =>
          simp only []
          cases hr : encFields f t v flds with
          | none => rw [hr] at ih; cases ih
          | some r => rfl

theorem arrayBody_isSome (f : GoVal → Option Bytes) (xs : List GoVal)
    (h : ∀ x ∈ xs, (f x).isSome = true) : (arrayBody f xs).isSome = true := by
  have := encAll_isSome f xs h
  simp only [arrayBody]
  cases hr : encAll f xs with
  | none => rw [hr] at this; cases this
  | some bs => rfl

/-! ### one encoder call -/

/-- what the nested calls must do: return on every well-typed value of height below `N` -/
def TotalBelow (N : Nat) (f : Bool → GoType → GoVal → Option Bytes) : Prop :=
  ∀ q t v, v.height < N → GoVal.hasType t v = true → numsOk t v = true → (f q t v).isSome = true

theorem structEncoder_total (esc : Bool) (f : Bool → GoType → GoVal → Option Bytes) (N : Nat)
    (hf : TotalBelow N f) (n : Bytes) (fs : List (FieldInfo × GoType)) (vs : List GoVal)
    (hh : (GoVal.struct vs).height < N + 1) (ht : GoVal.hasType (.struct n fs) (.struct vs) = true)
    (hn : numsOk (.struct n fs) (.struct vs) = true) :
    (structEncoder esc f (.struct n fs) (.struct vs)).isSome = true := by
  have := encFields_isSome f (.struct n fs) (.struct vs) (typeFields (.struct n fs))
    (fun fld hfld => by
      rcases walk_ok fld.index _ _ (typeFields_pathOk_struct n fs fld hfld) ht hn with hw | ⟨fv, hw, h1, h2, _, h4⟩
      · exact Or.inl hw
      · have := h4 (typeFields_index_ne_nil _ fld hfld)
        exact Or.inr ⟨fv, hw, hf _ _ fv (by omega) h1 h2⟩)
  simp only [structEncoder]
  cases hr : encFields f (.struct n fs) (.struct vs) (typeFields (.struct n fs)) with
  | none => rw [hr] at this; cases this
  | some ms => rfl

theorem encT_total (esc : Bool) (f : Bool → GoType → GoVal → Option Bytes) (N : Nat) (hf : TotalBelow N f)
    (q : Bool) (t : GoType) (v : GoVal) (hh : v.height < N + 1)
    (ht : GoVal.hasType t v = true) (hn : numsOk t v = true) : (encT esc f q t v).isSome = true := by
  cases t with
  | bool =>
    cases v <;> simp only [GoVal.hasType, GoType.nilable, Bool.false_eq_true] at ht
    rfl
  | int k =>
    cases v <;> simp only [GoVal.hasType, GoType.nilable, Bool.false_eq_true] at ht
    rfl
  | uint k =>
    cases v <;> simp only [GoVal.hasType, GoType.nilable, Bool.false_eq_true] at ht
    rfl
  | string =>
    cases v <;> simp only [GoVal.hasType, GoType.nilable, Bool.false_eq_true] at ht
    rfl
  | number =>
    cases v <;> simp only [GoVal.hasType, GoType.nilable, Bool.false_eq_true] at ht
    simp only [numsOk] at hn
    simp only [encT, numberEncoder, hn, if_true, Option.isSome_some]
  | iface =>
    cases v <;> simp only [GoVal.hasType, GoType.nilable, Bool.false_eq_true, Bool.and_eq_true] at ht
    · rfl
    · rename_i dt dv
      simp only [numsOk] at hn
      simp only [GoVal.height] at hh
      simp only [encT, interfaceEncoder]
      exact hf q dt dv (by omega) ht.2 hn
  | struct n fs =>
    obtain ⟨vs, rfl, _⟩ := hasType_struct n fs v ht
    simp only [encT]
    exact structEncoder_total esc f N hf n fs vs hh ht hn
  | map k e =>
    cases v <;> simp only [GoVal.hasType, GoType.nilable, Bool.false_eq_true, Bool.and_eq_true] at ht
    · rfl
    · rename_i ms
      simp only [numsOk] at hn
      simp only [GoVal.height] at hh
      have := encEntries_isSome (f q e) ms (fun p hp =>
        hf q e p.2 (by have := heightM_mem ms p hp; omega) (hasTypeM_mem k e ms ht.2 p hp) (numsOkM_mem e ms hn p hp))
      simp only [encT, mapEncoder]
      cases hr : encEntries (f q e) ms with
      | none => rw [hr] at this; cases this
      | some kvs => rfl
  | slice e =>
    cases hu : e.isUint8 with
    | true =>
      cases v <;> simp only [GoVal.hasType, GoType.nilable, hu, Bool.not_true, Bool.false_and, Bool.false_eq_true] at ht
      · simp only [encT, hu, if_true, encodeByteSlice, Option.isSome_some]
      · simp only [encT, hu, if_true, encodeByteSlice, Option.isSome_some]
    | false =>
      cases v <;> simp only [GoVal.hasType, GoType.nilable, hu, Bool.not_false, Bool.true_and, Bool.false_eq_true] at ht
      · simp only [encT, hu, Bool.false_eq_true, if_false, sliceEncoder, Option.isSome_some]
      · rename_i xs
        simp only [numsOk] at hn
        simp only [GoVal.height] at hh
        simp only [encT, hu, Bool.false_eq_true, if_false, sliceEncoder]
        exact arrayBody_isSome (f q e) xs (fun x hx =>
          hf q e x (by have := heightL_mem xs x hx; omega) (hasTypeAll_mem e xs ht x hx) (numsOkAll_mem e xs hn x hx))
  | array n e =>
    cases v <;> simp only [GoVal.hasType, GoType.nilable, Bool.false_eq_true, Bool.and_eq_true, beq_iff_eq] at ht
    rename_i xs
    simp only [numsOk] at hn
    simp only [GoVal.height] at hh
    simp only [encT, arrayEncoder, ht.1, if_true]
    exact arrayBody_isSome (f q e) xs (fun x hx =>
      hf q e x (by have := heightL_mem xs x hx; omega) (hasTypeAll_mem e xs ht.2 x hx) (numsOkAll_mem e xs hn x hx))
  | ptr e =>
    rcases hasType_ptr e v ht with rfl | ⟨p, rfl, hp⟩
    · rfl
    · simp only [numsOk] at hn
      simp only [GoVal.height] at hh
      simp only [encT, ptrEncoder]
      exact hf q e p (by omega) hp hn

/-! ### the fuel `v.height + 1` suffices -/

theorem enc_total (esc : Bool) : ∀ (fuel : Nat) (q : Bool) (t : GoType) (v : GoVal), v.height < fuel →
    GoVal.hasType t v = true → numsOk t v = true → (enc esc fuel q t v).isSome = true
  | 0, _, _, _, hh, _, _ => absurd hh (Nat.not_lt_zero _)
  | fuel + 1, q, t, v, hh, ht, hn => by
    simp only [enc]
    exact encT_total esc (enc esc fuel) fuel (fun q' t' v' => enc_total esc fuel q' t' v') q t v hh ht hn

/-- `Marshal` returns on every value of its type whose `json.Number`s are valid: the `none`s of the
model for lack of fuel, for ill-typed values and for `Walked.bad` are unreachable -/
theorem typed_total (esc : Bool) (t : GoType) (v : GoVal) (ht : v.hasType t = true) (hn : numsOk t v = true) :
    (marshalTyped esc t v).isSome = true := by
  unfold marshalTyped
  exact enc_total esc (v.height + 1) false t v (Nat.lt_succ_self _) ht hn

/-- contrapositive: on a value of its type the only error is an invalid `json.Number` -/
theorem typed_none_numsOk (esc : Bool) (t : GoType) (v : GoVal) (ht : v.hasType t = true)
    (h : marshalTyped esc t v = none) : numsOk t v = false := by
  cases hn : numsOk t v with
  | false => rfl
  | true =>
    have := typed_total esc t v ht hn
    rw [h] at this
    cases this

theorem marshal_total (t : GoType) (v : GoVal) (ht : v.hasType t = true) (hn : numsOk t v = true) :
    (marshal t v).isSome = true := typed_total true t v ht hn

/-! ### more fuel never changes a result -/

theorem encAll_mono {α : Type} (f g : GoVal → Option α) (h : ∀ x a, f x = some a → g x = some a) :
    ∀ (xs : List GoVal) (as : List α), encAll f xs = some as → encAll g xs = some as
  | [], as, he => by simpa only [encAll] using he
  | x :: xs, as, he => by
    simp only [encAll] at he ⊢
    cases hf : f x with
    | none => rw [hf] at he; cases he
    | some b =>
      rw [hf] at he
      rw [h x b hf]
      simp only [] at he ⊢
      cases hr : encAll f xs with
      | none => rw [hr] at he; cases he
      | some bs =>
        rw [hr] at he
        rw [encAll_mono f g h xs bs hr]
        exact he

theorem encEntries_mono {α : Type} (f g : GoVal → Option α) (h : ∀ x a, f x = some a → g x = some a) :
    ∀ (ms : List (MapKey × GoVal)) (r : List (Bytes × α)), encEntries f ms = some r → encEntries g ms = some r
  | [], r, he => by simpa only [encEntries] using he
  | (k, v) :: ms, r, he => by
    simp only [encEntries] at he ⊢
    cases hf : f v with
    | none => rw [hf] at he; cases he
    | some b =>
      rw [hf] at he
      rw [h v b hf]
      simp only [] at he ⊢
      cases hr : encEntries f ms with
      | none => rw [hr] at he; cases he
      | some bs =>
        rw [hr] at he
        rw [encEntries_mono f g h ms bs hr]
        exact he

theorem encFields_mono {α : Type} (f g : Bool → GoType → GoVal → Option α)
    (h : ∀ q t v a, f q t v = some a → g q t v = some a) (t : GoType) (v : GoVal) :
    ∀ (flds : List Fld) (r : List (Bytes × α)), encFields f t v flds = some r → encFields g t v flds = some r
  | [], r, he => by simpa only [encFields] using he
  | fld :: flds, r, he => by
    have ih := encFields_mono f g h t v flds
    simp only [encFields] at he ⊢
    cases hw : walk fld.index v with
    | skip => rw [hw] at he; exact ih r he
    | bad => rw [hw] at he; cases he
    | val fv =>
      rw [hw] at he
      simp only [] at he ⊢
      cases hem : (fld.omitEmpty && isEmptyValue (typeByIndex t fld.index) fv) with
      | true => rw [hem] at he; simp only [if_true] at he ⊢; exact ih r he
      | false =>
        rw [hem] at he
        simp only [Bool.false_eq_true, if_false] at he ⊢
        cases hf : f fld.quoted (typeByIndex t fld.index) fv with
        | none => rw [hf] at he; cases he
        | some b =>
          rw [hf] at he
          rw [h _ _ _ b hf]
          simp only [] at he ⊢
          cases hr : encFields f t v flds with
          | none => rw [hr] at he; cases he
          | some bs =>
            rw [hr] at he
            rw [ih bs hr]
            exact he

theorem arrayBody_mono (f g : GoVal → Option Bytes) (h : ∀ x a, f x = some a → g x = some a)
    (xs : List GoVal) (bs : Bytes) (he : arrayBody f xs = some bs) : arrayBody g xs = some bs := by
  simp only [arrayBody] at he ⊢
  cases hr : encAll f xs with
  | none => rw [hr] at he; cases he
  | some r =>
    rw [hr] at he
    rw [encAll_mono f g h xs r hr]
    exact he

/-- `encT` is monotone in the encoder of the nested calls -/
theorem encT_mono (esc : Bool) (f g : Bool → GoType → GoVal → Option Bytes)
    (h : ∀ q t v a, f q t v = some a → g q t v = some a)
    (q : Bool) (t : GoType) (v : GoVal) (bs : Bytes) (he : encT esc f q t v = some bs) :
    encT esc g q t v = some bs := by
  cases t with
  | bool => exact he
  | int k => exact he
  | uint k => exact he
  | string => exact he
  | number => exact he
  | iface =>
    simp only [encT] at he ⊢
    cases v <;> simp only [interfaceEncoder] at he ⊢ <;> try exact he
    exact h _ _ _ _ he
  | struct n fs =>
    simp only [encT] at he ⊢
    cases v <;> simp only [structEncoder] at he ⊢ <;> try exact he
    rename_i vs
    cases hr : encFields f (.struct n fs) (.struct vs) (typeFields (.struct n fs)) with
    | none => rw [hr] at he; cases he
    | some ms =>
      rw [hr] at he
      rw [encFields_mono f g h _ _ _ ms hr]
      exact he
  | map k e =>
    simp only [encT] at he ⊢
    cases v <;> simp only [mapEncoder] at he ⊢ <;> try exact he
    rename_i ms
    cases hr : encEntries (f q e) ms with
    | none => rw [hr] at he; cases he
    | some kvs =>
      rw [hr] at he
      rw [encEntries_mono (f q e) (g q e) (h q e) ms kvs hr]
      exact he
  | slice e =>
    simp only [encT] at he ⊢
    cases hu : e.isUint8 with
    | true =>
      rw [hu] at he
      simp only [if_true] at he ⊢
      exact he
    | false =>
      rw [hu] at he
      simp only [Bool.false_eq_true, if_false] at he ⊢
      cases v <;> simp only [sliceEncoder] at he ⊢ <;> try exact he
      exact arrayBody_mono (f q e) (g q e) (h q e) _ bs he
  | array n e =>
    simp only [encT] at he ⊢
    cases v <;> simp only [arrayEncoder] at he ⊢ <;> try exact he
    rename_i xs
    by_cases hl : xs.length = n
    · simp only [hl, if_true] at he ⊢
      exact arrayBody_mono (f q e) (g q e) (h q e) _ bs he
    · simp only [hl, if_false] at he; cases he
  | ptr e =>
    simp only [encT] at he ⊢
    cases v <;> simp only [ptrEncoder] at he ⊢ <;> try exact he
    exact h _ _ _ _ he

theorem enc_fuel_mono (esc : Bool) : ∀ (fuel : Nat) (q : Bool) (t : GoType) (v : GoVal) (bs : Bytes),
    enc esc fuel q t v = some bs → enc esc (fuel + 1) q t v = some bs
  | 0, _, _, _, _, h => by simp only [enc] at h; cases h
  | fuel + 1, q, t, v, bs, h => by
    rw [enc] at h ⊢
    exact encT_mono esc (enc esc fuel) (enc esc (fuel + 1)) (enc_fuel_mono esc fuel) q t v bs h

theorem enc_fuel_le (esc : Bool) (q : Bool) (t : GoType) (v : GoVal) (bs : Bytes) :
    ∀ (k fuel : Nat), enc esc fuel q t v = some bs → enc esc (fuel + k) q t v = some bs
  | 0, _, h => h
  | k + 1, fuel, h => enc_fuel_mono esc (fuel + k) q t v bs (enc_fuel_le esc q t v bs k fuel h)

/-- any fuel above the height of a well-typed value gives the result of `marshalTyped` -/
theorem enc_eq_marshalTyped (esc : Bool) (fuel : Nat) (t : GoType) (v : GoVal) (hh : v.height < fuel)
    (ht : v.hasType t = true) (hn : numsOk t v = true) :
    enc esc fuel false t v = marshalTyped esc t v := by
  have hs := typed_total esc t v ht hn
  cases hm : marshalTyped esc t v with
  | none => rw [hm] at hs; cases hs
  | some bs =>
    have := enc_fuel_le esc false t v bs (fuel - (v.height + 1)) (v.height + 1) hm
    rw [show v.height + 1 + (fuel - (v.height + 1)) = fuel by omega] at this
    exact this

/-! ### an instance: an embedded pointer to a struct with a `json.Number` field -/

/-- `type Inner struct { N json.Number; S string }` -/
def ttInner : GoType :=
  .struct [73, 110, 110, 101, 114]
    [({ name := [78], tag := [], anonymous := false, exported := true }, .number),
     ({ name := [83], tag := [], anonymous := false, exported := true }, .string)]

/-- `type Outer struct { *Inner; X int `json:"x,omitempty"` }` -/
def ttOuter : GoType :=
  .struct [79, 117, 116, 101, 114]
    [({ name := [73, 110, 110, 101, 114], tag := [], anonymous := true, exported := true }, .ptr ttInner),
     ({ name := [88], tag := [120, 44, 111, 109, 105, 116, 101, 109, 112, 116, 121], anonymous := false, exported := true },
      .int .int)]

/-- `Outer{&Inner{"12", "a"}, 3}` -/
def ttVal : GoVal := .struct [.ptr (.struct [.str [49, 50], .str [97]]), .int 3]

/-- `Outer{nil, 0}` -/
def exNil : GoVal := .struct [.nil, .int 0]

/-- `Outer{&Inner{"1x", "a"}, 3}`: the only error `Marshal` has here -/
def exBadNum : GoVal := .struct [.ptr (.struct [.str [49, 120], .str [97]]), .int 3]

example : (typeFields ttOuter).map Fld.index = [[0, 0], [0, 1], [1]] := by decide +kernel

example : ttVal.hasType ttOuter = true ∧ numsOk ttOuter ttVal = true := by decide +kernel

example : marshalTyped true ttOuter ttVal = some (ascii "{\"N\":12,\"S\":\"a\",\"x\":3}") := by decide +kernel

example : exNil.hasType ttOuter = true ∧ numsOk ttOuter exNil = true
    ∧ marshalTyped true ttOuter exNil = some (ascii "{}") := by decide +kernel

example : exBadNum.hasType ttOuter = true ∧ numsOk ttOuter exBadNum = false
    ∧ marshalTyped true ttOuter exBadNum = none := by decide +kernel

example : (marshalTyped true ttOuter ttVal).isSome = true :=
  typed_total true ttOuter ttVal (by decide +kernel) (by decide +kernel)

end Typed
end Codec
end JP

#print axioms JP.Codec.Typed.typeFields_pathOk
#print axioms JP.Codec.Typed.walk_ok
#print axioms JP.Codec.Typed.typeFields_walk
#print axioms JP.Codec.Typed.enc_total
#print axioms JP.Codec.Typed.typed_total
#print axioms JP.Codec.Typed.enc_fuel_mono
#print axioms JP.Codec.Typed.enc_eq_marshalTyped

/-
Output of the `#print axioms` commands above (Lean 4.33, `lake build JP.Lemmas.TypedTotal`):

'JP.Codec.Typed.typeFields_pathOk' depends on axioms: [propext, Classical.choice, Quot.sound]
'JP.Codec.Typed.walk_ok' depends on axioms: [propext, Quot.sound]
'JP.Codec.Typed.typeFields_walk' depends on axioms: [propext, Classical.choice, Quot.sound]
'JP.Codec.Typed.enc_total' depends on axioms: [propext, Classical.choice, Quot.sound]
'JP.Codec.Typed.typed_total' depends on axioms: [propext, Classical.choice, Quot.sound]
'JP.Codec.Typed.enc_fuel_mono' depends on axioms: [propext, Classical.choice, Quot.sound]
'JP.Codec.Typed.enc_eq_marshalTyped' depends on axioms: [propext, Classical.choice, Quot.sound]
-/
