import JP.Lemmas.FloatMoreS

/-!
# The digits chosen are the closest ones of their length, ties to the even last digit

`ddist N D c e = |c·10^e − N/D| · D · decD e` (the distance of the decimal from the exact value, cleared of
denominators); two decimals are compared after cross-multiplying with the other one's `decD`.
-/

namespace JP
namespace Codec
namespace Float

/-- `|c · 10^e − N / D|`, multiplied by `D · decD e` -/
def ddist (N D c : Nat) (e : Int) : Nat := adiff (decN c e * D) (N * decD e)

/-- what `candPick` returns, and why -/
theorem candPick_spec (bits : Nat) (x : FP) (lo r b : Nat) (e : Int) (c : Nat) (e1 : Int)
    (h : candPick bits x lo r b e = some (c, e1)) :
    e1 = e ∧ roundsTo bits x c e = true ∧
    ((c = lo ∧ (r = 0 ∨ roundsTo bits x (lo + 1) e = false ∨ 2 * r < b ∨ (2 * r = b ∧ lo % 2 = 0))) ∨
     (c = lo + 1 ∧ r ≠ 0 ∧ (roundsTo bits x lo e = false ∨ b < 2 * r ∨ (2 * r = b ∧ lo % 2 = 1)))) := by
  unfold candPick at h
  simp only at h
  by_cases hr : r = 0
  · simp only [hr, if_true] at h
    split at h
    · rename_i hok
      simp only [Option.some.injEq, Prod.mk.injEq] at h
      obtain ⟨h1, h2⟩ := h
      subst h1 h2
      exact ⟨rfl, hok, Or.inl ⟨rfl, Or.inl hr⟩⟩
    · simp at h
  · simp only [hr, if_false] at h
    cases hlo : roundsTo bits x lo e <;> cases hhi : roundsTo bits x (lo + 1) e <;>
      simp only [hlo, hhi, Bool.and_self, Bool.and_true, Bool.and_false, Bool.false_eq_true, if_true,
        if_false] at h
    · simp at h
    · simp only [Option.some.injEq, Prod.mk.injEq] at h
      obtain ⟨h1, h2⟩ := h
      subst h1 h2
      exact ⟨rfl, hhi, Or.inr ⟨rfl, hr, Or.inl rfl⟩⟩
    · simp only [Option.some.injEq, Prod.mk.injEq] at h
      obtain ⟨h1, h2⟩ := h
      subst h1 h2
      exact ⟨rfl, hlo, Or.inl ⟨rfl, Or.inr (Or.inl rfl)⟩⟩
    · by_cases c1 : 2 * r < b
      · simp only [c1, if_true, Option.some.injEq, Prod.mk.injEq] at h
        obtain ⟨h1, h2⟩ := h
        subst h1 h2
        exact ⟨rfl, hlo, Or.inl ⟨rfl, Or.inr (Or.inr (Or.inl c1))⟩⟩
      · simp only [c1, if_false] at h
        by_cases c2 : b < 2 * r
        · simp only [c2, if_true, Option.some.injEq, Prod.mk.injEq] at h
          obtain ⟨h1, h2⟩ := h
          subst h1 h2
          exact ⟨rfl, hhi, Or.inr ⟨rfl, hr, Or.inr (Or.inl c2)⟩⟩
        · simp only [c2, if_false] at h
          by_cases c3 : lo % 2 = 0
          · simp only [c3, if_true, Option.some.injEq, Prod.mk.injEq] at h
            obtain ⟨h1, h2⟩ := h
            subst h1 h2
            exact ⟨rfl, hlo, Or.inl ⟨rfl, Or.inr (Or.inr (Or.inr ⟨by omega, c3⟩))⟩⟩
          · simp only [c3, if_false, Option.some.injEq, Prod.mk.injEq] at h
            obtain ⟨h1, h2⟩ := h
            subst h1 h2
            exact ⟨rfl, hhi, Or.inr ⟨rfl, hr, Or.inr (Or.inr ⟨by omega, by omega⟩)⟩⟩

/-- three decimals in a row: the middle one is at least as close to the value as the outer one (below) -/
theorem ddist_below (N D c₁ c₂ : Nat) (e₁ e₂ : Int)
    (h12 : decN c₁ e₁ * decD e₂ ≤ decN c₂ e₂ * decD e₁) (h2v : decN c₂ e₂ * D ≤ N * decD e₂) :
    ddist N D c₂ e₂ * decD e₁ ≤ ddist N D c₁ e₁ * decD e₂ := by
  unfold ddist
  rw [← adiff_mul_right, ← adiff_mul_right]
  have a1 := Nat.mul_le_mul_right D h12
  have a2 := Nat.mul_le_mul_right (decD e₁) h2v
  have e1 : decN c₁ e₁ * decD e₂ * D = decN c₁ e₁ * D * decD e₂ := by ac_rfl
  have e2 : decN c₂ e₂ * decD e₁ * D = decN c₂ e₂ * D * decD e₁ := by ac_rfl
  have e3 : N * decD e₂ * decD e₁ = N * decD e₁ * decD e₂ := by ac_rfl
  rw [e1, e2] at a1
  rw [e3] at a2 ⊢
  unfold adiff
  omega

/-- … and above -/
theorem ddist_above (N D c₁ c₂ : Nat) (e₁ e₂ : Int)
    (h12 : decN c₂ e₂ * decD e₁ ≤ decN c₁ e₁ * decD e₂) (h2v : N * decD e₂ ≤ decN c₂ e₂ * D) :
    ddist N D c₂ e₂ * decD e₁ ≤ ddist N D c₁ e₁ * decD e₂ := by
  unfold ddist
  rw [← adiff_mul_right, ← adiff_mul_right]
  have a1 := Nat.mul_le_mul_right D h12
  have a2 := Nat.mul_le_mul_right (decD e₁) h2v
  have e1 : decN c₁ e₁ * decD e₂ * D = decN c₁ e₁ * D * decD e₂ := by ac_rfl
  have e2 : decN c₂ e₂ * decD e₁ * D = decN c₂ e₂ * D * decD e₁ := by ac_rfl
  have e3 : N * decD e₂ * decD e₁ = N * decD e₁ * decD e₂ := by ac_rfl
  rw [e1, e2] at a1
  rw [e3] at a2 ⊢
  unfold adiff
  omega

/-- THE CANDIDATE WITH `n` DIGITS IS THE CLOSEST: among all decimals `c' · 10^e'` with `c' < 10^n` that read back
as `x`, the one `cand` returns is nearest to the exact value; and when another decimal on the same grid is
equally near, the returned one has an even last digit -/
theorem cand_closest (bits : Nat) (x : FP) (hwf : x.wf bits = true) (hfin : x.isFinite bits = true)
    (hnz : x.isZero = false) (k : Int) (hk : geP10 (exactN bits x) (exactD bits x) (k - 1) = true)
    (n : Nat) (hn : 1 ≤ n) (c : Nat) (e : Int)
    (hc : cand bits x (exactN bits x) (exactD bits x) k n = some (c, e)) :
    e = k - (n : Int) ∧ roundsTo bits x c e = true ∧
      (∀ (c' : Nat) (e' : Int), c' < 10 ^ n → roundsTo bits x c' e' = true →
        ddist (exactN bits x) (exactD bits x) c e * decD e'
          ≤ ddist (exactN bits x) (exactD bits x) c' e' * decD e) ∧
      (∀ c' : Nat, c' ≠ c → roundsTo bits x c' e = true →
        ddist (exactN bits x) (exactD bits x) c' e = ddist (exactN bits x) (exactD bits x) c e →
          c % 2 = 0) := by
  have hge := candAB_ge (exactN bits x) (exactD bits x) k n hn hk
  unfold cand at hc
  rw [candAB_grid] at hge hc
  simp only at hge hc
  obtain ⟨he, hok, hsel⟩ := candPick_spec bits x _ _ _ _ _ _ hc
  subst he
  have hD : 0 < exactD bits x := exactD_pos10 bits x
  generalize hNx : exactN bits x = N at *
  generalize hDx : exactD bits x = D at *
  generalize hej : k - (n : Int) = ej at *
  have hB0 : 0 < D * p10 ej := Nat.mul_pos hD (p10_pos _)
  have hdm := Nat.div_add_mod (N * p10 (-ej)) (D * p10 ej)
  have hml := Nat.mod_lt (N * p10 (-ej)) hB0
  have hpos := fun c' e' hc' hr' => grid_position bits x hwf hfin hnz N D hNx.symm hDx.symm n hn ej hge c' e'
    hc' hr' _ _ rfl rfl
  generalize hlo : N * p10 (-ej) / (D * p10 ej) = lo at *
  generalize hrr : N * p10 (-ej) % (D * p10 ej) = r at *
  -- the grid in units of `1 / (D · decD ej)`
  have E1 : ∀ t : Nat, decN t ej * D = D * p10 ej * t := by
    intro t; rw [decN_p10]; ac_rfl
  have E3 : N * decD ej = D * p10 ej * lo + r := by rw [decD_p10]; omega
  have hfl : decN lo ej * D ≤ N * decD ej := by rw [E1, E3]; omega
  have hcl : N * decD ej ≤ decN (lo + 1) ej * D := by
    rw [E1, E3, Nat.mul_add, Nat.mul_one]; omega
  have dlo : ddist N D lo ej = r := by
    unfold ddist adiff; rw [E1, E3]; omega
  have dhi : ddist N D (lo + 1) ej = D * p10 ej - r := by
    unfold ddist adiff; rw [E1, E3, Nat.mul_add, Nat.mul_one]; omega
  refine ⟨rfl, hok, ?_, ?_⟩
  · intro c' e' hc' hr'
    rcases hpos c' e' hc' hr' with ⟨_, h12, okLo⟩ | ⟨r0, _⟩ | ⟨_, r0, h23, okHi⟩
    · have T := ddist_below N D c' lo e' ej h12 hfl
      rcases hsel with ⟨hcl', _⟩ | ⟨hch, _, hwhy⟩
      · rw [hcl']; exact T
      · rw [hch]
        have : ddist N D (lo + 1) ej ≤ ddist N D lo ej := by
          rw [dlo, dhi]
          rcases hwhy with h | h | ⟨h, _⟩
          · rw [okLo] at h; simp at h
          · omega
          · omega
        exact Nat.le_trans (Nat.mul_le_mul_right _ this) T
    · rcases hsel with ⟨hcl', _⟩ | ⟨_, hr0, _⟩
      · rw [hcl', dlo, r0]; simp
      · exact absurd r0 hr0
    · have T := ddist_above N D c' (lo + 1) e' ej h23 hcl
      rcases hsel with ⟨hcl', hwhy⟩ | ⟨hch, _, _⟩
      · rw [hcl']
        have : ddist N D lo ej ≤ ddist N D (lo + 1) ej := by
          rw [dlo, dhi]
          rcases hwhy with h | h | h | ⟨h, _⟩
          · exact absurd h r0
          · rw [okHi] at h; simp at h
          · omega
          · omega
        exact Nat.le_trans (Nat.mul_le_mul_right _ this) T
      · rw [hch]; exact T
  · intro c' hne hr' hdd
    have dc' : ddist N D c' ej = adiff (D * p10 ej * c') (D * p10 ej * lo + r) := by
      unfold ddist; rw [E1, E3]
    rw [dc'] at hdd
    generalize hb : D * p10 ej = b at *
    rcases hsel with ⟨hcl', hwhy⟩ | ⟨hch, hr0, hwhy⟩
    · -- the floor was chosen: the other one is the ceiling and `2r = b`
      rw [hcl', dlo] at hdd
      rw [hcl'] at hne ⊢
      have hc1 : c' = lo + 1 ∧ 2 * r = b := by
        rcases Nat.lt_trichotomy c' (lo + 1) with hlt | heq | hgt
        · exfalso
          have h1 : b * c' ≤ b * lo := Nat.mul_le_mul_left _ (by omega)
          unfold adiff at hdd
          have : b * c' = b * lo := by omega
          exact hne (Nat.eq_of_mul_eq_mul_left hB0 this)
        · subst heq
          rw [Nat.mul_add, Nat.mul_one] at hdd
          unfold adiff at hdd
          exact ⟨rfl, by omega⟩
        · exfalso
          have h1 : b * (lo + 2) ≤ b * c' := Nat.mul_le_mul_left _ (by omega)
          rw [Nat.mul_add] at h1
          unfold adiff at hdd
          omega
      obtain ⟨hc1a, hc1b⟩ := hc1
      subst hc1a
      rcases hwhy with h | h | h | ⟨_, h⟩
      · omega
      · rw [hr'] at h; simp at h
      · omega
      · exact h
    · -- the ceiling was chosen: the other one is the floor and `2r = b`
      rw [hch, dhi] at hdd
      rw [hch] at hne ⊢
      have hc1 : c' = lo ∧ 2 * r = b := by
        rcases Nat.lt_trichotomy c' lo with hlt | heq | hgt
        · exfalso
          have h1 : b * (c' + 1) ≤ b * lo := Nat.mul_le_mul_left _ (by omega)
          rw [Nat.mul_add, Nat.mul_one] at h1
          unfold adiff at hdd
          omega
        · subst heq
          unfold adiff at hdd
          exact ⟨rfl, by omega⟩
        · exfalso
          have h1 : b * (lo + 2) ≤ b * c' := Nat.mul_le_mul_left _ (by omega)
          rw [Nat.mul_add] at h1
          unfold adiff at hdd
          omega
      obtain ⟨hc1a, hc1b⟩ := hc1
      subst hc1a
      rcases hwhy with h | h | ⟨_, h⟩
      · rw [hr'] at h; simp at h
      · omega
      · omega

end Float
end Codec
end JP
