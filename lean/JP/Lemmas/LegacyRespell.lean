import JP.Lemmas.TextQuote
import JP.Legacy.Node

/-!
# `respellBF` / `quoteBodyStd`: the standard library's spelling of member names

The standard library's encoder (Go ≥ 1.22) writes U+0008 / U+000C as `\b` / `\f`, the v5 fork
as `\u0008` / `\u000c`; `quoteBodyStd k` is `quoteBody true k` re-spelled.  Both spellings decode
to the same bytes, the re-spelled body is a valid string body again, shows none of `<`, `>`, `&`,
U+2028, U+2029 raw (so the HTML escaper leaves it alone).
-/

namespace JP
namespace Legacy

/-! ### `respellBF`: fuel, step equations -/

theorem respellBF_fuel : ∀ (f1 f2 : Nat) (bs : Bytes), bs.length < f1 → bs.length < f2 →
    respellBF f1 bs = respellBF f2 bs := by
  intro f1
  induction f1 with
  | zero => intro f2 bs h; omega
  | succ f1 ih =>
    intro f2 bs h1 h2
    cases f2 with
    | zero => omega
    | succ f2 =>
      cases bs with
      | nil => simp only [respellBF]
      | cons c cs =>
        simp only [List.length_cons] at h1 h2
        simp only [respellBF]
        split
        · split
          · rename_i rest
            simp only [List.length_cons] at h1 h2
            rw [ih f2 rest (by omega) (by omega)]
          · rename_i rest
            simp only [List.length_cons] at h1 h2
            rw [ih f2 rest (by omega) (by omega)]
          · rename_i e rest _ _
            simp only [List.length_cons] at h1 h2
            rw [ih f2 rest (by omega) (by omega)]
          · rfl
        · rw [ih f2 cs (by omega) (by omega)]

/-- `respellBF` with enough fuel -/
def respellS (bs : Bytes) : Bytes := respellBF (bs.length + 1) bs

theorem respellBF_eq (f : Nat) (bs : Bytes) (h : bs.length < f) : respellBF f bs = respellS bs :=
  respellBF_fuel _ _ _ h (by omega)

theorem quoteBodyStd_eq (k : Bytes) : quoteBodyStd k = respellS (quoteBody true k) := rfl

theorem respellS_nil : respellS [] = [] := rfl

theorem respellS_plain (c : UInt8) (X : Bytes) (hc : c ≠ 92) : respellS (c :: X) = c :: respellS X := by
  simp only [respellS, List.length_cons, respellBF, if_neg hc]

theorem respellS_b (X : Bytes) : respellS (92 :: 117 :: 48 :: 48 :: 48 :: 56 :: X) = 92 :: 98 :: respellS X := by
  simp only [respellS, List.length_cons, respellBF, if_true]
  rw [respellBF_eq _ X (by omega)]; rfl

theorem respellS_f (X : Bytes) : respellS (92 :: 117 :: 48 :: 48 :: 48 :: 99 :: X) = 92 :: 102 :: respellS X := by
  simp only [respellS, List.length_cons, respellBF, if_true]
  rw [respellBF_eq _ X (by omega)]; rfl

/-- an escape unit other than `\u0008` / `\u000c` is stepped over -/
theorem respellS_esc (e : UInt8) (X : Bytes)
    (h : ∀ Y, ¬ (e = 117 ∧ (X = 48 :: 48 :: 48 :: 56 :: Y ∨ X = 48 :: 48 :: 48 :: 99 :: Y))) :
    respellS (92 :: e :: X) = 92 :: e :: respellS X := by
  simp only [respellS, List.length_cons, respellBF, if_true]
  split
  · rename_i rest heq
    simp only [List.cons.injEq] at heq
    exact absurd ⟨heq.1, Or.inl heq.2⟩ (h rest)
  · rename_i rest heq
    simp only [List.cons.injEq] at heq
    exact absurd ⟨heq.1, Or.inr heq.2⟩ (h rest)
  · rename_i e' rest _ _ heq
    simp only [List.cons.injEq] at heq
    obtain ⟨rfl, rfl⟩ := heq
    rw [respellBF_eq _ _ (by omega)]; rfl
  · rename_i heq; cases heq

theorem respellS_append_plain : ∀ (T X : Bytes), (∀ x ∈ T, x ≠ 92) → respellS (T ++ X) = T ++ respellS X
  | [], X, _ => rfl
  | t :: T, X, h => by
    rw [List.cons_append, respellS_plain t _ (h t List.mem_cons_self),
      respellS_append_plain T X (fun x hx => h x (List.mem_cons_of_mem _ hx))]
    rfl

/-- a `\uXXXX` unit other than `\u0008` / `\u000c` whose digits are not backslashes -/
theorem respellS_u (h1 h2 h3 h4 : UInt8) (X : Bytes)
    (hne : ¬ (h1 = 48 ∧ h2 = 48 ∧ h3 = 48 ∧ (h4 = 56 ∨ h4 = 99)))
    (n1 : h1 ≠ 92) (n2 : h2 ≠ 92) (n3 : h3 ≠ 92) (n4 : h4 ≠ 92) :
    respellS (92 :: 117 :: h1 :: h2 :: h3 :: h4 :: X) = 92 :: 117 :: h1 :: h2 :: h3 :: h4 :: respellS X := by
  rw [respellS_esc 117 _ (by
    intro Y hY
    rcases hY.2 with h | h <;> simp only [List.cons.injEq] at h
    · exact hne ⟨h.1, h.2.1, h.2.2.1, Or.inl h.2.2.2.1⟩
    · exact hne ⟨h.1, h.2.1, h.2.2.1, Or.inr h.2.2.2.1⟩)]
  rw [respellS_plain h1 _ n1, respellS_plain h2 _ n2, respellS_plain h3 _ n3, respellS_plain h4 _ n4]

/-! ### one ASCII byte -/

/-- what the standard library's encoder writes for one ASCII byte -/
def stdAscii (b : UInt8) : Bytes :=
  if b = 8 then [92, 98] else if b = 12 then [92, 102] else quoteAscii true b

set_option maxRecDepth 100000 in
theorem quoteAscii_shape : ∀ b : UInt8, b.toNat < 128 →
    (b = 8 ∧ quoteAscii true b = [92, 117, 48, 48, 48, 56]) ∨
    (b = 12 ∧ quoteAscii true b = [92, 117, 48, 48, 48, 99]) ∨
    (b ≠ 8 ∧ b ≠ 12 ∧
      ((quoteAscii true b = [b] ∧ b ≠ 92) ∨
       (quoteAscii true b = [92, escLetter b] ∧ escLetter b ≠ 117) ∨
       (quoteAscii true b = [92, 117, 48, 48, hexLower (b.toNat / 16), hexLower (b.toNat % 16)] ∧
         hexLower (b.toNat / 16) ≠ 92 ∧ hexLower (b.toNat % 16) ≠ 92 ∧
         ¬ (hexLower (b.toNat / 16) = 48 ∧ (hexLower (b.toNat % 16) = 56 ∨ hexLower (b.toNat % 16) = 99))))) := by
  apply byte_forall; decide

theorem respellS_quoteAscii (b : UInt8) (hb : b.toNat < 128) (X : Bytes) :
    respellS (quoteAscii true b ++ X) = stdAscii b ++ respellS X := by
  rcases quoteAscii_shape b hb with ⟨rfl, hq⟩ | ⟨rfl, hq⟩ | ⟨h8, h12, hs⟩
  · rw [hq]; exact respellS_b X
  · rw [hq]; exact respellS_f X
  · have hstd : stdAscii b = quoteAscii true b := by simp only [stdAscii, if_neg h8, if_neg h12]
    rw [hstd]
    rcases hs with ⟨hq, h92⟩ | ⟨hq, h117⟩ | ⟨hq, n1, n2, hne⟩
    · rw [hq]; exact respellS_plain b X h92
    · rw [hq]
      exact respellS_esc _ X (fun Y hY => h117 hY.1)
    · rw [hq]
      exact respellS_u 48 48 _ _ X (fun h => hne ⟨h.2.2.1, h.2.2.2⟩) (by decide) (by decide) n1 n2

theorem unquoteBody_stdAscii (b : UInt8) (hb : b.toNat < 128) (X : Bytes) :
    unquoteBody (stdAscii b ++ X) = (unquoteBody X).map (b :: ·) := by
  unfold stdAscii
  split
  · rename_i h; subst h
    exact unquoteBody_simple 98 X (by decide)
  · split
    · rename_i h; subst h
      exact unquoteBody_simple 102 X (by decide)
    · exact unquoteBody_quoteAscii true b hb X

theorem hasRawHtml_stdAscii (b : UInt8) (hb : b.toNat < 128) (X : Bytes) :
    hasRawHtml (stdAscii b ++ X) = hasRawHtml X := by
  unfold stdAscii
  split
  · show hasRawHtml (92 :: 98 :: X) = _
    rw [hasRawHtml_plain _ _ (by decide), hasRawHtml_plain _ _ (by decide)]
  · split
    · show hasRawHtml (92 :: 102 :: X) = _
      rw [hasRawHtml_plain _ _ (by decide), hasRawHtml_plain _ _ (by decide)]
    · exact hasRawHtml_quoteAscii b hb X

theorem VB_stdAscii (b : UInt8) (hb : b.toNat < 128) (X : Bytes) (hX : VB X) : VB (stdAscii b ++ X) := by
  unfold stdAscii
  split
  · exact (VB_simple_iff 98 X (by decide)).2 hX
  · split
    · exact (VB_simple_iff 102 X (by decide)).2 hX
    · exact VB_quoteAscii true b hb X hX

/-! ### one rune of the source -/

/-- the piece `quoteBodyStd` writes for the first rune of `b :: rest`: it decodes to what the
fork's piece decodes to, is HTML-clean, and keeps bodies valid -/
theorem respellS_quoteBody_step (b : UInt8) (rest : Bytes) :
    ∃ piece : Bytes,
      respellS (quoteBody true (b :: rest)) =
        piece ++ respellS (quoteBody true ((b :: rest).drop (decodeRune (b :: rest)).2)) ∧
      (∀ Y, unquoteBody (piece ++ Y) = (unquoteBody Y).map (runeOut (b :: rest) ++ ·)) ∧
      (∀ Y, hasRawHtml (piece ++ Y) = hasRawHtml Y) ∧
      (∀ Y, VB Y → VB (piece ++ Y)) := by
  by_cases hb : b.toNat < 128
  · have hd := decodeRune_one b rest hb
    have hro : runeOut (b :: rest) = [b] := by
      simp only [runeOut, hd]
      rw [if_neg (by simp only [runeError]; omega)]; rfl
    refine ⟨stdAscii b, ?_, ?_, ?_, ?_⟩
    · rw [quoteBody_ascii true b rest hb, respellS_quoteAscii b hb, hd]; rfl
    · intro Y; rw [unquoteBody_stdAscii b hb, hro]; rfl
    · exact hasRawHtml_stdAscii b hb
    · exact VB_stdAscii b hb
  · rw [quoteBody_multi true b rest hb]
    by_cases hok : (decodeRune (b :: rest)).1 = runeError ∧ (decodeRune (b :: rest)).2 = 1
    · rw [if_pos hok]
      have hro : runeOut (b :: rest) = [0xEF, 0xBF, 0xBD] := by simp only [runeOut, if_pos hok]
      refine ⟨ascii "\\ufffd", ?_, ?_, ?_, ?_⟩
      · rw [hok.2]
        show respellS (92 :: 117 :: 102 :: 102 :: 102 :: 100 :: _) = _
        rw [respellS_u 102 102 102 100 _ (by decide) (by decide) (by decide) (by decide) (by decide)]
        rfl
      · intro Y; rw [hro]
        exact unquoteBody_u4 102 102 102 100 _ 0xFFFD (by decide) (by decide)
      · intro Y
        show hasRawHtml (92 :: 117 :: 102 :: 102 :: 102 :: 100 :: Y) = _
        rw [hasRawHtml_plain _ _ (by decide), hasRawHtml_plain _ _ (by decide), hasRawHtml_plain _ _ (by decide),
          hasRawHtml_plain _ _ (by decide), hasRawHtml_plain _ _ (by decide), hasRawHtml_plain _ _ (by decide)]
      · intro Y hY
        exact (VB_u_iff 102 102 102 100 Y).2 ⟨⟨by decide, by decide, by decide, by decide⟩, hY⟩
    · rw [if_neg hok]
      have hro : runeOut (b :: rest) = (b :: rest).take (decodeRune (b :: rest)).2 := by
        simp only [runeOut, if_neg hok]
      obtain ⟨henc, _, hle, _⟩ := encodeRune_decodeRune b rest hok
      by_cases hls : (decodeRune (b :: rest)).1 = 0x2028 ∨ (decodeRune (b :: rest)).1 = 0x2029
      · rw [if_pos hls]
        rcases hls with h | h
        · refine ⟨[92, 117, 50, 48, 50, 56], ?_, ?_, ?_, ?_⟩
          · rw [h, hexLower_8]
            show respellS (92 :: 117 :: 50 :: 48 :: 50 :: 56 :: _) = _
            rw [respellS_u 50 48 50 56 _ (by decide) (by decide) (by decide) (by decide) (by decide)]
            rfl
          · intro Y; rw [hro, ← henc, h]
            exact unquoteBody_u4 50 48 50 56 _ 0x2028 (by decide) (by decide)
          · intro Y
            show hasRawHtml (92 :: 117 :: 50 :: 48 :: 50 :: 56 :: Y) = _
            rw [hasRawHtml_plain _ _ (by decide), hasRawHtml_plain _ _ (by decide), hasRawHtml_plain _ _ (by decide),
              hasRawHtml_plain _ _ (by decide), hasRawHtml_plain _ _ (by decide), hasRawHtml_plain _ _ (by decide)]
          · intro Y hY
            exact (VB_u_iff 50 48 50 56 Y).2 ⟨⟨by decide, by decide, by decide, by decide⟩, hY⟩
        · refine ⟨[92, 117, 50, 48, 50, 57], ?_, ?_, ?_, ?_⟩
          · rw [h, hexLower_9]
            show respellS (92 :: 117 :: 50 :: 48 :: 50 :: 57 :: _) = _
            rw [respellS_u 50 48 50 57 _ (by decide) (by decide) (by decide) (by decide) (by decide)]
            rfl
          · intro Y; rw [hro, ← henc, h]
            exact unquoteBody_u4 50 48 50 57 _ 0x2029 (by decide) (by decide)
          · intro Y
            show hasRawHtml (92 :: 117 :: 50 :: 48 :: 50 :: 57 :: Y) = _
            rw [hasRawHtml_plain _ _ (by decide), hasRawHtml_plain _ _ (by decide), hasRawHtml_plain _ _ (by decide),
              hasRawHtml_plain _ _ (by decide), hasRawHtml_plain _ _ (by decide), hasRawHtml_plain _ _ (by decide)]
          · intro Y hY
            exact (VB_u_iff 50 48 50 57 Y).2 ⟨⟨by decide, by decide, by decide, by decide⟩, hY⟩
      · rw [if_neg hls]
        have hhigh := rune_bytes_high b rest (by omega)
        have h92 : ∀ x ∈ (b :: rest).take (decodeRune (b :: rest)).2, x ≠ 92 := by
          intro x hx e
          have := hhigh x hx
          subst e
          revert this; decide
        simp only [not_or] at hls
        refine ⟨(b :: rest).take (decodeRune (b :: rest)).2, respellS_append_plain _ _ h92, ?_, ?_, ?_⟩
        · intro Y; rw [hro]; exact unquoteBody_rune b rest Y (by omega) hok
        · intro Y; exact hasRawHtml_rune b rest Y (by omega) hok hls.1 hls.2
        · intro Y hY; exact VB_high_append _ _ hhigh hY

/-! ### the boundary facts about `quoteBodyStd` -/

/-- both spellings decode to the same bytes, for every name -/
theorem unquoteBody_quoteBodyStd (k : Bytes) : unquoteBody (quoteBodyStd k) = unquoteBody (quoteBody true k) := by
  rw [quoteBodyStd_eq]
  induction k using rune_induction with
  | nil => rfl
  | cons b rest ih =>
    obtain ⟨piece, h1, h2, _, _⟩ := respellS_quoteBody_step b rest
    rw [h1, h2, ih, unquoteBody_quoteBody_step]

theorem unquote_quoteBodyStd (k : Bytes) : unquote (quoteBodyStd k) = unquote (quoteBody true k) := by
  simp only [unquote, unquoteBody_quoteBodyStd]

/-- no raw `<`, `>`, `&`, U+2028, U+2029 -/
theorem quoteBodyStd_clean (k : Bytes) : hasRawHtml (quoteBodyStd k) = false := by
  rw [quoteBodyStd_eq]
  induction k using rune_induction with
  | nil => rfl
  | cons b rest ih =>
    obtain ⟨piece, h1, _, h3, _⟩ := respellS_quoteBody_step b rest
    rw [h1, h3, ih]

/-- always a valid string body -/
theorem VB_quoteBodyStd (k : Bytes) : VB (quoteBodyStd k) := by
  rw [quoteBodyStd_eq]
  induction k using rune_induction with
  | nil => exact VB_nil
  | cons b rest ih =>
    obtain ⟨piece, h1, _, _, h4⟩ := respellS_quoteBody_step b rest
    rw [h1]; exact h4 _ ih

theorem quoteBodyStd_valid (k : Bytes) :
    parseStrBody (quoteBodyStd k ++ [34]) = some (quoteBodyStd k, []) := VB_quoteBodyStd k

/-- the HTML escaper leaves a body without raw HTML-sensitive characters alone -/
theorem escBody_of_noHtml : ∀ (b : Bytes), hasRawHtml b = false → escBody b = b
  | [], _ => rfl
  | c :: rest, h => by
    rw [hasRawHtml_cons] at h
    simp only [Bool.or_eq_false_iff, decide_eq_false_iff_not, Bool.and_eq_false_imp, decide_eq_true_eq,
      beq_eq_false_iff_ne, ne_eq] at h
    obtain ⟨⟨⟨⟨h60, h62⟩, h38⟩, hE2⟩, hrest⟩ := h
    have ih := escBody_of_noHtml rest hrest
    rcases escBody_cases c rest with ⟨hc, _⟩ | ⟨t, hc, hr, _⟩ | ⟨t, hc, hr, _⟩ | ⟨_, _, he⟩
    · rcases hc with hc | hc | hc
      · exact absurd hc h60
      · exact absurd hc h62
      · exact absurd hc h38
    · have := hE2 hc
      subst hr
      simp at this
    · have := hE2 hc
      subst hr
      simp at this
    · rw [he, ih]

theorem escBody_quoteBodyStd (k : Bytes) : escBody (quoteBodyStd k) = quoteBodyStd k :=
  escBody_of_noHtml _ (quoteBodyStd_clean k)

/-- valid UTF-8 names survive the standard library's quoting -/
theorem unquote_quoteBodyStd_utf8 (k : Bytes) (h : isValidUtf8 k = true) : unquote (quoteBodyStd k) = k := by
  rw [unquote_quoteBodyStd, unquote_quoteBody true k h]

end Legacy
end JP
