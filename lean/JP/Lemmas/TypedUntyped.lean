import JP.Codec.Typed

/-!
# The typed encoder agrees with the encoder of `Encode.lean` on dynamic values

`JP/Codec/Encode.lean` (`Enc.enc`) and `JP/Codec/Typed.lean` (`Typed.enc`) are two transcriptions of
`encode.go`.  On the values both can express — `interface{}` trees of nil, `bool`, `json.Number`,
`string`, `[]interface{}`, `map[string]interface{}` — they compute the same thing:
`typed_agrees_with_untyped`.

`ofValue` embeds a dynamic value into the typed model (static type `interface{}`; the dynamic types are
`bool`, `json.Number`, `string`, `[]interface{}`, `map[string]interface{}`), as `Enc.anyToGo` embeds it
into the other.  `wBytes` is what a result `W` of the untyped model is worth to `Marshal`: the bytes
when the encoder returned, nothing when it was aborted (the partial output of an aborted encoder is
dropped by `marshalEscaped`).
-/

namespace JP
namespace Codec
namespace Typed

open JP.Codec.Enc (isValidNumber null W write anyToGo anyToGoL anyToGoM encElems encMembers sortW insertW
  encString encNumber)

mutual
/-- a dynamic value as a typed value of static type `interface{}` -/
def ofValue : Value → GoVal
  | .null => .nil
  | .bool b => .iface .bool (.bool b)
  | .num l => .iface .number (.str l)
  | .str s => .iface .string (.str s)
  | .arr xs => .iface (.slice .iface) (.list (ofValueL xs))
  | .obj ms => .iface (.map .str .iface) (.map (ofValueM ms))
def ofValueL : List Value → List GoVal
  | [] => []
  | x :: xs => ofValue x :: ofValueL xs
def ofValueM : Value.Members → List (MapKey × GoVal)
  | [] => []
  | (k, v) :: ms => (.str k, ofValue v) :: ofValueM ms
end

/-- what `Marshal` returns, on the level both models share: the bytes, or an error -/
def outcomeBytes : Impl.Outcome Bytes → Option Bytes
  | .ok out => some out
  | _ => none

/-! ### results of the untyped model as `Option Bytes` -/

/-- the bytes an encoder function appended when it returned; `none` when it was aborted -/
def wBytes : W → Option Bytes
  | .ok out => some out
  | _ => none

/-- one function after the other: both return, or the whole is aborted -/
def optApp : Option Bytes → Option Bytes → Option Bytes
  | some x, some y => some (x ++ y)
  | _, _ => none

theorem optApp_none_left (b : Option Bytes) : optApp none b = none := by
  cases b <;> rfl

theorem optApp_none_right (a : Option Bytes) : optApp a none = none := by
  cases a <;> rfl

theorem optApp_some (x y : Bytes) : optApp (some x) (some y) = some (x ++ y) := rfl

theorem wBytes_seq (a b : W) : wBytes (a.seq b) = optApp (wBytes a) (wBytes b) := by
  cases a <;> cases b <;> rfl

theorem wBytes_write (bs : Bytes) : wBytes (write bs) = some bs := rfl

theorem wBytes_ok (bs : Bytes) : wBytes (W.ok bs) = some bs := rfl

/-! ### leaves -/

theorem number_agrees (l : Bytes) : numberEncoder false (.str l) = wBytes (encNumber l) := by
  simp only [numberEncoder, encNumber, wrapQuoted, Bool.false_eq_true, if_false]
  cases isValidNumber (if l.isEmpty = true then [48] else l) <;> rfl

theorem string_agrees (esc : Bool) (s : Bytes) :
    stringEncoder esc false (.str s) = wBytes (encString esc s) := by
  simp only [stringEncoder, encString, goString, Bool.false_eq_true, if_false, wBytes_write]

theorem bool_agrees (b : Bool) :
    boolEncoder false (.bool b) = wBytes (write (if b then ascii "true" else ascii "false")) := by
  simp only [boolEncoder, wrapQuoted, Bool.false_eq_true, if_false, wBytes_write]

/-! ### arrays -/

/-- `encAll` then `joinComma`, one element at a time -/
theorem encAll_join_one (f : GoVal → Option Bytes) (g : GoVal) :
    (encAll f [g]).map joinComma = f g := by
  simp only [encAll]
  cases f g with
  | none => rfl
  | some b => rfl

theorem encAll_join_cons (f : GoVal → Option Bytes) (g g2 : GoVal) (gs : List GoVal) :
    (encAll f (g :: g2 :: gs)).map joinComma
      = optApp (f g) (optApp (some [44]) ((encAll f (g2 :: gs)).map joinComma)) := by
  simp only [encAll]
  cases f g with
  | none => simp only [Option.map_none, optApp_none_left]
  | some b =>
    cases f g2 with
    | none => simp only [Option.map_none, optApp_none_right]
    | some b2 =>
      cases encAll f gs with
      | none => simp only [Option.map_none, optApp_none_right]
      | some bs =>
        simp only [Option.map_some, joinComma, optApp_some, List.cons_append, List.nil_append]

theorem arrayBody_eq (f : GoVal → Option Bytes) (xs : List GoVal) :
    arrayBody f xs = optApp (some [91]) (optApp ((encAll f xs).map joinComma) (some [93])) := by
  simp only [arrayBody]
  cases encAll f xs with
  | none => rfl
  | some bs => rfl

/-! ### maps -/

/-- the member results when every one of them returned -/
def collect : List (Bytes × W) → Option (List (Bytes × Bytes))
  | [] => some []
  | (k, w) :: l =>
    match wBytes w with
    | none => none
    | some b =>
      match collect l with
      | none => none
      | some r => some ((k, b) :: r)

/-- successful member results -/
def okL : List (Bytes × Bytes) → List (Bytes × W)
  | [] => []
  | (k, b) :: l => (k, W.ok b) :: okL l

theorem collect_some : ∀ (l : List (Bytes × W)) (kvs : List (Bytes × Bytes)),
    collect l = some kvs → l = okL kvs
  | [], kvs, h => by
    simp only [collect, Option.some.injEq] at h
    subst h
    rfl
  | (k, w) :: l, kvs, h => by
    simp only [collect] at h
    cases w with
    | ok out =>
      simp only [wBytes] at h
      cases hc : collect l with
      | none => rw [hc] at h; cases h
      | some r =>
        rw [hc] at h
        simp only [Option.some.injEq] at h
        subst h
        simp only [okL, collect_some l r hc]
    | err out e => simp only [wBytes] at h; cases h
    | panic => simp only [wBytes] at h; cases h

theorem collect_none : ∀ (l : List (Bytes × W)), collect l = none → ∃ x ∈ l, wBytes x.2 = none
  | [], h => by simp only [collect] at h; cases h
  | (k, w) :: l, h => by
    simp only [collect] at h
    cases hw : wBytes w with
    | none => exact ⟨(k, w), List.mem_cons_self .., hw⟩
    | some b =>
      rw [hw] at h
      cases hc : collect l with
      | none =>
        obtain ⟨x, hx, hb⟩ := collect_none l hc
        exact ⟨x, List.mem_cons_of_mem _ hx, hb⟩
      | some r => rw [hc] at h; cases h

theorem insertW_okL (k : Bytes) (b : Bytes) : ∀ l : List (Bytes × Bytes),
    insertW k (W.ok b) (okL l) = okL (insertKV k b l)
  | [] => rfl
  | (k', b') :: l => by
    simp only [okL, insertW, insertKV]
    split
    · rfl
    · simp only [okL, insertW_okL k b l]

theorem sortW_okL : ∀ l : List (Bytes × Bytes), sortW (okL l) = okL (sortKV l)
  | [] => rfl
  | (k, b) :: l => by simp only [okL, sortW, sortKV, sortW_okL l, insertW_okL]

theorem emitEntries_okL (esc : Bool) : ∀ l : List (Bytes × Bytes),
    Enc.emitEntries esc (okL l) = W.ok (emitEntries esc l)
  | [] => rfl
  | [(k, b)] => by
    simp only [okL, Enc.emitEntries, emitEntries, encString, goString, write, W.seq, List.cons_append,
      List.append_assoc, List.nil_append]
  | (k, b) :: (k2, b2) :: l => by
    have ih := emitEntries_okL esc ((k2, b2) :: l)
    simp only [okL] at ih
    simp only [okL, Enc.emitEntries, ih, emitEntries, encString, goString, write, W.seq, List.cons_append,
      List.append_assoc, List.nil_append]

theorem mem_insertW' (k : Bytes) (w : W) : ∀ (l : List (Bytes × W)) (x : Bytes × W),
    x ∈ l → x ∈ insertW k w l
  | [], x, h => by cases h
  | (k', w') :: l, x, h => by
    simp only [insertW]
    split
    · exact List.mem_cons_of_mem _ h
    · rcases List.mem_cons.1 h with rfl | h
      · exact List.mem_cons_self ..
      · exact List.mem_cons_of_mem _ (mem_insertW' k w l x h)

theorem mem_insertW_self (k : Bytes) (w : W) : ∀ (l : List (Bytes × W)), (k, w) ∈ insertW k w l
  | [] => List.mem_cons_self ..
  | (k', w') :: l => by
    simp only [insertW]
    split
    · exact List.mem_cons_self ..
    · exact List.mem_cons_of_mem _ (mem_insertW_self k w l)

theorem mem_sortW' : ∀ (l : List (Bytes × W)) (x : Bytes × W), x ∈ l → x ∈ sortW l
  | [], x, h => by cases h
  | (k, w) :: l, x, h => by
    simp only [sortW]
    rcases List.mem_cons.1 h with rfl | h
    · exact mem_insertW_self k w _
    · exact mem_insertW' k w _ x (mem_sortW' l x h)

theorem emitEntries_bad (esc : Bool) : ∀ l : List (Bytes × W), (∃ x ∈ l, wBytes x.2 = none) →
    wBytes (Enc.emitEntries esc l) = none
  | [], h => by obtain ⟨x, hx, _⟩ := h; cases hx
  | [(k, w)], h => by
    obtain ⟨x, hx, hb⟩ := h
    simp only [List.mem_singleton] at hx
    subst hx
    simp only [Enc.emitEntries, wBytes_seq, hb, optApp_none_right]
  | (k, w) :: m :: ms, h => by
    simp only [Enc.emitEntries, wBytes_seq]
    obtain ⟨x, hx, hb⟩ := h
    rcases List.mem_cons.1 hx with rfl | hx
    · simp only [hb, optApp_none_left, optApp_none_right]
    · have ih := emitEntries_bad esc (m :: ms) ⟨x, hx, hb⟩
      simp only [ih, optApp_none_right]

/-- the loop of `mapEncoder` over the sorted entries, in both models -/
theorem emitEntries_sort (esc : Bool) (l : List (Bytes × W)) :
    wBytes (Enc.emitEntries esc (sortW l)) = (collect l).map (fun kvs => emitEntries esc (sortKV kvs)) := by
  cases hc : collect l with
  | none =>
    obtain ⟨x, hx, hb⟩ := collect_none l hc
    simp only [Option.map_none]
    exact emitEntries_bad esc _ ⟨x, mem_sortW' l x hx, hb⟩
  | some kvs =>
    rw [collect_some l kvs hc, sortW_okL, emitEntries_okL]
    rfl

theorem mapBody_eq (esc : Bool) (f : GoVal → Option Bytes) (ms : List (MapKey × GoVal)) :
    mapEncoder esc f (.map ms)
      = optApp (some [123]) (optApp ((encEntries f ms).map (fun kvs => emitEntries esc (sortKV kvs))) (some [125])) := by
  simp only [mapEncoder]
  cases encEntries f ms with
  | none => rfl
  | some kvs => rfl

/-! ### the induction -/

mutual
theorem enc_ofValue (esc : Bool) : ∀ (v : Value) (n : Nat), (ofValue v).height < n →
    enc esc n false .iface (ofValue v) = wBytes (Enc.enc esc (anyToGo v))
  | .null, n, h => by
    obtain ⟨m, rfl⟩ : ∃ m, n = m + 1 := ⟨n - 1, by omega⟩
    simp only [ofValue, anyToGo, enc, encT, interfaceEncoder, Enc.enc, wBytes_write]
  | .bool b, n, h => by
    simp only [ofValue, GoVal.height] at h
    obtain ⟨m, rfl⟩ : ∃ m, n = m + 2 := ⟨n - 2, by omega⟩
    simp only [ofValue, anyToGo, enc, encT, interfaceEncoder, Enc.enc, bool_agrees]
  | .num l, n, h => by
    simp only [ofValue, GoVal.height] at h
    obtain ⟨m, rfl⟩ : ∃ m, n = m + 2 := ⟨n - 2, by omega⟩
    simp only [ofValue, anyToGo, enc, encT, interfaceEncoder, Enc.enc, number_agrees]
  | .str s, n, h => by
    simp only [ofValue, GoVal.height] at h
    obtain ⟨m, rfl⟩ : ∃ m, n = m + 2 := ⟨n - 2, by omega⟩
    simp only [ofValue, anyToGo, enc, encT, interfaceEncoder, Enc.enc, string_agrees]
  | .arr xs, n, h => by
    simp only [ofValue, GoVal.height] at h
    obtain ⟨m, rfl⟩ : ∃ m, n = m + 2 := ⟨n - 2, by omega⟩
    have ih := encAll_ofValueL esc xs m (by omega)
    simp only [ofValue, anyToGo, enc, encT, interfaceEncoder, sliceEncoder, GoType.isUint8, Bool.false_eq_true,
      if_false, Enc.enc, arrayBody_eq, ih, wBytes_seq, wBytes_write]
  | .obj ms, n, h => by
    simp only [ofValue, GoVal.height] at h
    obtain ⟨m, rfl⟩ : ∃ m, n = m + 2 := ⟨n - 2, by omega⟩
    have ih := encEntries_ofValueM esc ms m (by omega)
    simp only [ofValue, anyToGo, enc, encT, interfaceEncoder, Enc.enc, mapBody_eq, ih, wBytes_seq, wBytes_write,
      emitEntries_sort]
theorem encAll_ofValueL (esc : Bool) : ∀ (xs : List Value) (n : Nat), heightL (ofValueL xs) < n →
    (encAll (enc esc n false .iface) (ofValueL xs)).map joinComma = wBytes (encElems esc (anyToGoL xs))
  | [], n, _ => rfl
  | x :: xs, n, h => by
    simp only [ofValueL, heightL] at h
    have h1 := enc_ofValue esc x n (by omega)
    have h2 := encAll_ofValueL esc xs n (by omega)
    cases xs with
    | nil => simp only [ofValueL, anyToGoL, encElems, encAll_join_one, h1]
    | cons y ys =>
      simp only [ofValueL, anyToGoL] at h2
      simp only [ofValueL, anyToGoL, encElems, encAll_join_cons, h1, h2, wBytes_seq, wBytes_write]
theorem encEntries_ofValueM (esc : Bool) : ∀ (ms : Value.Members) (n : Nat), heightM (ofValueM ms) < n →
    encEntries (enc esc n false .iface) (ofValueM ms) = collect (encMembers esc (anyToGoM ms))
  | [], n, _ => rfl
  | (k, v) :: ms, n, h => by
    simp only [ofValueM, heightM] at h
    have h1 := enc_ofValue esc v n (by omega)
    have h2 := encEntries_ofValueM esc ms n (by omega)
    simp only [ofValueM, anyToGoM, encMembers, encEntries, collect, h1, h2, keyText]
    cases wBytes (Enc.enc esc (anyToGo v)) with
    | none => rfl
    | some b =>
      cases collect (encMembers esc (anyToGoM ms)) with
      | none => rfl
      | some r => rfl
end

theorem outcomeBytes_marshalEscaped (esc : Bool) (g : Enc.GoVal) :
    outcomeBytes (Enc.marshalEscaped esc g) = wBytes (Enc.enc esc g) := by
  simp only [Enc.marshalEscaped]
  cases Enc.enc esc g <;> rfl

/-- On dynamic values the typed model of the encoder computes exactly what the model of
`Encode.lean` computes: the same bytes, and an error for the same values. -/
theorem typed_agrees_with_untyped (esc : Bool) (v : Value) :
    marshalTyped esc .iface (ofValue v) = outcomeBytes (Enc.marshalEscaped esc (Enc.anyToGo v)) := by
  rw [outcomeBytes_marshalEscaped, marshalTyped]
  exact enc_ofValue esc v _ (Nat.lt_succ_self _)

/-! ### a concrete value, both sides evaluated -/

/-- `{"b": [1.5, "a<b", null, {}], "a": true}` (members not in name order) -/
def sample : Value :=
  .obj [(ascii "b", .arr [.num (ascii "1.5"), .str (ascii "a<b"), .null, .obj []]), (ascii "a", .bool true)]

example : marshalTyped true .iface (ofValue sample)
    = some (ascii "{\"a\":true,\"b\":[1.5,\"a\\u003cb\",null,{}]}") := by decide +kernel

example : outcomeBytes (Enc.marshalEscaped true (Enc.anyToGo sample))
    = some (ascii "{\"a\":true,\"b\":[1.5,\"a\\u003cb\",null,{}]}") := by decide +kernel

example : marshalTyped false .iface (ofValue sample)
    = outcomeBytes (Enc.marshalEscaped false (Enc.anyToGo sample)) := by decide +kernel

/-- an invalid `json.Number` deep inside: an error in both models -/
example : marshalTyped true .iface (ofValue (.arr [.obj [(ascii "k", .num (ascii "01"))]])) = none
    ∧ outcomeBytes (Enc.marshalEscaped true (Enc.anyToGo (.arr [.obj [(ascii "k", .num (ascii "01"))]]))) = none := by
  decide +kernel

end Typed
end Codec
end JP
