import JP.Lemmas.FloatNatFmt3
import JP.Lemmas.FloatValid
import JP.Lemmas.FloatDigits

/-!
# `%e` layout of a digit string reads back: `parseLit (fmtE neg (decimal c) dp)`; trailing zeros of `decimal c`
-/

namespace JP
namespace Codec
namespace Float

open JP.Codec.Typed (decimal)

/-! ## trailing zeros -/

theorem stripZeros_append_zero : ∀ d : Bytes, stripZeros (d ++ [48]) = stripZeros d
  | [] => by simp [stripZeros]
  | c :: cs => by
    simp only [List.cons_append, stripZeros, stripZeros_append_zero cs]

theorem stripZeros_append_zeros (d : Bytes) : ∀ z : Nat, stripZeros (d ++ List.replicate z 48) = stripZeros d
  | 0 => by simp
  | z + 1 => by
    rw [List.replicate_succ', ← List.append_assoc, stripZeros_append_zero, stripZeros_append_zeros d z]

theorem strip_decimal (c : Nat) (hc : c ≠ 0) :
    ∃ c' z, c = c' * 10 ^ z ∧ c' % 10 ≠ 0 ∧ stripZeros (decimal c) = decimal c' ∧
      (decimal c).length = (decimal c').length + z := by
  obtain ⟨c', z, hcz, hc'⟩ := strip_pow10 c (by omega)
  have hpos : 0 < c' := by
    cases c' with
    | zero => exact absurd rfl hc'
    | succ n => omega
  have hd : decimal c = decimal c' ++ List.replicate z 48 := by
    rw [hcz]; exact decimal_mul_pow c' z hpos
  refine ⟨c', z, hcz, hc', ?_, ?_⟩
  · rw [hd, stripZeros_append_zeros, stripZeros_decimal c' hc']
  · rw [hd]; simp

/-! ## the exponent accumulator never saturates on at most four digits -/

theorem expNat_fold : ∀ (ds : Bytes) (k acc : Nat), ds.all isDigit = true → ds.length + k ≤ 4 → acc < 10 ^ k →
    ds.foldl (fun e c => if e < 10000 then e * 10 + (c.toNat - 48) else e) acc
      = ds.foldl (fun a c => a * 10 + (c.toNat - 48)) acc
  | [], _, _, _, _, _ => rfl
  | c :: cs, k, acc, hd, hl, ha => by
    simp only [List.all_cons, Bool.and_eq_true] at hd
    simp only [List.length_cons] at hl
    have hk : 10 ^ k ≤ 10 ^ 4 := Nat.pow_le_pow_right (by omega) (by omega)
    have h4 : (10 : Nat) ^ 4 = 10000 := by decide
    have h1 : acc < 10000 := by omega
    simp only [List.foldl_cons, h1, if_true]
    apply expNat_fold cs (k + 1) _ hd.2 (by omega)
    have := digit_val_lt c hd.1
    rw [Nat.pow_succ]; omega

theorem expNat_eq_digitsNat (ds : Bytes) (hd : ds.all isDigit = true) (hl : ds.length ≤ 4) :
    expNat ds = digitsNat ds := by
  unfold expNat digitsNat
  exact expNat_fold ds 0 0 hd (by omega) (by simp)

theorem expDigits_digits (n : Nat) : (expDigits n).all isDigit = true ∧ expDigits n ≠ [] := by
  unfold expDigits
  split
  · rename_i h
    have hb : isDigit (UInt8.ofNat (48 + n)) = true := by
      have := Typed.decimal_digits n
      rw [decimal_lt10 n h] at this
      simpa using this.1
    refine ⟨?_, by simp⟩
    simp only [List.all_cons, List.all_nil, Bool.and_true, hb]
    decide
  · exact Typed.decimal_digits n

theorem expNat_expDigits (n : Nat) (hn : n < 10000) : expNat (expDigits n) = n := by
  have hd := expDigits_digits n
  by_cases h : n < 10
  · have e : expDigits n = [48, UInt8.ofNat (48 + n)] := by simp [expDigits, h]
    rw [expNat_eq_digitsNat _ hd.1 (by rw [e]; simp), e]
    simp only [digitsNat, List.foldl_cons, List.foldl_nil, ofNat_digit_val n h]
    simp
  · have e : expDigits n = decimal n := by simp [expDigits, h]
    have hl : (decimal n).length ≤ 4 := decimal_length_le n 3 (by omega)
    rw [e] at hd ⊢
    rw [expNat_eq_digitsNat _ hd.1 hl, digitsNat_decimal]

theorem allDigits_expDigits (n : Nat) : allDigits (expDigits n) = true :=
  (allDigits_iff _).2 ⟨(expDigits_digits n).2, (expDigits_digits n).1⟩

theorem parseExp_minus (n : Nat) (hn : n < 10000) : parseExp (45 :: expDigits n) = some (-(n : Int)) := by
  simp [parseExp, allDigits_expDigits, expNat_expDigits n hn]

theorem parseExp_plus (n : Nat) (hn : n < 10000) : parseExp (43 :: expDigits n) = some (n : Int) := by
  simp [parseExp, allDigits_expDigits, expNat_expDigits n hn]

/-! ## the mantissa `[-]d[.ddd]` -/

theorem splitE_noE : ∀ l : Bytes, l.all (fun c => c != 101 && c != 69) = true → splitE l = (l, none)
  | [], _ => rfl
  | c :: cs, h => by
    simp only [List.all_cons, Bool.and_eq_true, bne_iff_ne, ne_eq] at h
    have hc : ¬ (c = 101 ∨ c = 69) := by
      intro h'; rcases h' with h' | h'
      · exact h.1.1 h'
      · exact h.1.2 h'
    have ih := splitE_noE cs (by simpa using h.2)
    simp [splitE, hc, ih]

theorem digit_noE (c : UInt8) (h : isDigit c = true) : (c != 101 && c != 69) = true := by
  simp only [Bool.and_eq_true, bne_iff_ne, ne_eq]
  constructor <;> (rintro rfl; exact absurd h (by decide))

theorem digits_noE (ds : Bytes) (h : ds.all isDigit = true) : ds.all (fun c => c != 101 && c != 69) = true := by
  rw [List.all_eq_true] at h ⊢
  intro x hx
  exact digit_noE x (h x hx)

theorem digit_ne_45 (d : UInt8) (h : isDigit d = true) : d ≠ 45 := by
  rintro rfl; exact absurd h (by decide)

theorem digit_ne_46 (d : UInt8) (h : isDigit d = true) : d ≠ 46 := by
  rintro rfl; exact absurd h (by decide)

theorem intOk_single (d : UInt8) (h : isDigit d = true) : intOk [d] = true := by
  simp [intOk, allDigits, h]

/-- the mantissa without sign -/
theorem parseMant_pos_sci (d : UInt8) (rest : Bytes) (hd : isDigit d = true) (hr : rest.all isDigit = true) :
    parseMant (d :: (if rest.isEmpty then [] else 46 :: rest)) = some (false, [d], rest) := by
  have h45 : ¬ (d = 45) := digit_ne_45 d hd
  have h46 : ¬ (d = 46) := digit_ne_46 d hd
  cases rest with
  | nil =>
    simp [parseMant, h45, splitDot, h46, intOk_single d hd]
  | cons r rs =>
    have hall : allDigits (r :: rs) = true := (allDigits_iff _).2 ⟨by simp, hr⟩
    simp [parseMant, h45, splitDot, h46, intOk_single d hd, hall]

theorem parseMant_neg_sci (d : UInt8) (rest : Bytes) (hd : isDigit d = true) (hr : rest.all isDigit = true) :
    parseMant (45 :: d :: (if rest.isEmpty then [] else 46 :: rest)) = some (true, [d], rest) := by
  have h46 : ¬ (d = 46) := digit_ne_46 d hd
  cases rest with
  | nil =>
    simp [parseMant, splitDot, h46, intOk_single d hd]
  | cons r rs =>
    have hall : allDigits (r :: rs) = true := (allDigits_iff _).2 ⟨by simp, hr⟩
    simp [parseMant, splitDot, h46, intOk_single d hd, hall]

theorem parseMant_sci (neg : Bool) (d : UInt8) (rest : Bytes) (hd : isDigit d = true)
    (hr : rest.all isDigit = true) :
    parseMant ((if neg then [45] else []) ++ d :: (if rest.isEmpty then [] else 46 :: rest))
      = some (neg, [d], rest) := by
  cases neg
  · simpa using parseMant_pos_sci d rest hd hr
  · simpa using parseMant_neg_sci d rest hd hr

theorem mant_noE (neg : Bool) (d : UInt8) (rest : Bytes) (hd : isDigit d = true)
    (hr : rest.all isDigit = true) :
    ((if neg then [45] else ([] : Bytes)) ++ d :: (if rest.isEmpty then [] else 46 :: rest)).all
      (fun c => c != 101 && c != 69) = true := by
  have h1 := digit_noE d hd
  have h2 := digits_noE rest hr
  have h45 : ((45 : UInt8) != 101 && (45 : UInt8) != 69) = true := by decide
  have h46 : ((46 : UInt8) != 101 && (46 : UInt8) != 69) = true := by decide
  cases neg <;> cases rest with
  | nil => simp [h1]
  | cons r rs =>
    simp only [List.all_cons] at h2
    simp [h1, h2]

/-- a literal in scientific notation reads back -/
theorem parseLit_sci (neg : Bool) (d : UInt8) (rest r : Bytes) (e : Int) (hd : isDigit d = true)
    (hr : rest.all isDigit = true) (he : parseExp r = some e) :
    parseLit ((if neg then [45] else []) ++ d :: (if rest.isEmpty then [] else 46 :: rest) ++ 101 :: r)
      = some ⟨neg, digitsNat (d :: rest), e - (rest.length : Int), 1⟩ := by
  have hsp := splitE_noE _ (mant_noE neg d rest hd hr)
  have hE := splitE_append_e r
    ((if neg then [45] else ([] : Bytes)) ++ d :: (if rest.isEmpty then [] else 46 :: rest))
  rw [hsp] at hE
  have hE' : splitE ((if neg then [45] else []) ++ d :: (if rest.isEmpty then [] else 46 :: rest) ++ 101 :: r)
      = ((if neg then [45] else ([] : Bytes)) ++ d :: (if rest.isEmpty then [] else 46 :: rest), some r) := by
    simpa using hE
  simp only [parseLit, hE', parseMant_sci neg d rest hd hr, he]
  simp

/-! ## `fmtE` -/

theorem fmtE_parse' (neg : Bool) (c : Nat) (dp : Int) (hdp : -9000 ≤ dp ∧ dp ≤ 9000) :
    parseLit (fmtE neg (decimal c) dp) = some ⟨neg, c, dp - ((decimal c).length : Int), 1⟩ := by
  have hdig := Typed.decimal_digits c
  cases hds : decimal c with
  | nil => exact absurd hds hdig.2
  | cons d rest =>
    rw [hds] at hdig
    have hall := hdig.1
    simp only [List.all_cons, Bool.and_eq_true] at hall
    have hval : digitsNat (d :: rest) = c := by rw [← hds]; exact digitsNat_decimal c
    have hfmt : fmtE neg (d :: rest) dp =
        (if neg then [45] else []) ++ d :: (if rest.isEmpty then [] else 46 :: rest) ++
          101 :: (if dp - 1 < 0 then (45 : UInt8) else 43) :: expDigits (dp - 1).natAbs := by
      simp [fmtE]
    have hn : (dp - 1).natAbs < 10000 := by omega
    rw [hfmt]
    by_cases hneg : dp - 1 < 0
    · simp only [hneg, if_true]
      have hexp : -((dp - 1).natAbs : Int) - (rest.length : Int) = dp - (((d :: rest).length : Nat) : Int) := by
        simp only [List.length_cons]; omega
      rw [parseLit_sci neg d rest _ _ hall.1 hall.2 (parseExp_minus _ hn), hval, hexp]
    · simp only [hneg, if_false]
      have hexp : ((dp - 1).natAbs : Int) - (rest.length : Int) = dp - (((d :: rest).length : Nat) : Int) := by
        simp only [List.length_cons]; omega
      rw [parseLit_sci neg d rest _ _ hall.1 hall.2 (parseExp_plus _ hn), hval, hexp]

theorem fmtE_parse (neg : Bool) (c : Nat) (dp : Int) (_hc : c % 10 ≠ 0) (hdp : -3000 ≤ dp ∧ dp ≤ 3000) :
    parseLit (fmtE neg (decimal c) dp) = some ⟨neg, c, dp - ((decimal c).length : Int), 1⟩ :=
  fmtE_parse' neg c dp ⟨by omega, by omega⟩

end Float
end Codec
end JP
