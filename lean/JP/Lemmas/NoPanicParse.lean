import JP.Lemmas.NoPanicNode

/-!
# `deepParse` (what a successful `equal` leaves behind) keeps the invariant
-/

namespace JP
namespace Impl

mutual
theorem NP_deepParseC : ∀ (c : Cst), NP (deepParseC c)
  | .lit s => by simp only [deepParseC]; split <;> simp
  | .str b => by simp [deepParseC]
  | .arr xs => by
    simp only [deepParseC]; rw [NP_ary]; exact NP_deepParseCL xs
  | .obj ms => by
    simp only [deepParseC]; rw [NP_doc]
    have := NP_deepParseCM ms [] (by simp [names]) (by simp)
    refine ⟨this.1, ?_, this.2.1⟩
    intro k hk
    rcases this.2.2 k hk with h | h
    · simp [names] at h
    · exact h
theorem NP_deepParseCL : ∀ (xs : List Cst), ∀ n ∈ deepParseCL xs, NP n
  | [] => by simp [deepParseCL]
  | x :: xs => by
    intro n hn
    simp only [deepParseCL, List.mem_cons] at hn
    rcases hn with hn | hn
    · rw [hn]; exact NP_deepParseC x
    · exact NP_deepParseCL xs n hn
theorem NP_deepParseCM : ∀ (ms : List (Bytes × Cst)) (acc : NMembers),
    (names acc).Nodup → (∀ p ∈ acc, NP p.2) →
      (names (deepParseCM ms acc)).Nodup ∧ (∀ p ∈ deepParseCM ms acc, NP p.2) ∧
      ∀ k ∈ names (deepParseCM ms acc), k ∈ names acc ∨ k ∈ decodeKeys ms
  | [], acc => by intro h1 h2; exact ⟨h1, h2, fun k hk => Or.inl hk⟩
  | (k, v) :: ms, acc => by
    intro h1 h2
    simp only [deepParseCM]
    have := NP_deepParseCM ms (setN (unquote k) (deepParseC v) acc) (nodup_setN h1) (by
      intro p hp
      rcases mem_setN hp with hp | hp
      · rw [hp]; exact NP_deepParseC v
      · exact h2 p hp)
    refine ⟨this.1, this.2.1, ?_⟩
    intro k' hk'
    rcases this.2.2 k' hk' with h | h
    · rcases mem_names_setN h with h | h
      · exact Or.inr (by simp [decodeKeys, h])
      · exact Or.inl h
    · exact Or.inr (by simp only [decodeKeys, List.map_cons, List.mem_cons]; exact Or.inr h)
end

theorem names_deepParseM (obj : NMembers) : names (deepParseM obj) = names obj := by
  induction obj with
  | nil => simp [deepParseM]
  | cons p ms ih => obtain ⟨k, n⟩ := p; simp only [deepParseM, names, List.map_cons] at ih ⊢; rw [ih]

mutual
theorem NP_deepParse : ∀ (n : Node), NP n → NP (deepParse n)
  | .nil => by simp [deepParse]
  | .raw c => by
    intro _; simp only [deepParse]; split
    · exact NP_deepParseC c
    · simp
  | .doc keys obj => by
    intro h
    simp only [deepParse]
    simp only [NP] at h ⊢
    rw [names_deepParseM]
    exact ⟨h.1, h.2.1, NP_deepParseM obj h.2.2⟩
  | .ary ns => by
    intro h
    simp only [deepParse]
    simp only [NP] at h ⊢
    exact NP_deepParseL ns h
  | .docNil => by simp [deepParse]
  | .nilAry => by simp [deepParse]
theorem NP_deepParseM : ∀ (obj : NMembers), NPM obj → NPM (deepParseM obj)
  | [] => by simp [deepParseM, NPM]
  | (k, n) :: ms => by
    intro h
    simp only [deepParseM, NPM] at h ⊢
    exact ⟨NP_deepParse n h.1, NP_deepParseM ms h.2⟩
theorem NP_deepParseL : ∀ (ns : List Node), NPL ns → NPL (deepParseL ns)
  | [] => by simp [deepParseL, NPL]
  | n :: ns => by
    intro h
    simp only [deepParseL, NPL] at h ⊢
    exact ⟨NP_deepParse n h.1, NP_deepParseL ns h.2⟩
end

theorem isCon_deepParse {n : Node} (h : isCon n = true) : isCon (deepParse n) = true := by
  cases n <;> simp_all [isCon, deepParse]

end Impl
end JP
