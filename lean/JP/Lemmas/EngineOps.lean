import JP.Lemmas.EngineWalk

/-!
# Engine lemmas, part 7: the six operations refine `Spec.applyOp`
-/

namespace JP
namespace Impl

open Spec (Res)

/-- the root as the engine keeps it between operations -/
def InvRoot (e : Bool) (r : Root) : Prop := Inv e r.con ∧ isCon r.con = true

theorem WFRoot_iff (r : Root) : WFRoot r = true ↔ WF r.con = true ∧ isCon r.con = true := by
  simp only [WFRoot, Bool.and_eq_true]
  cases r.con <;> simp [isCon]

theorem InvRoot_iff (e : Bool) (r : Root) : InvRoot e r ↔ WFRoot r = true ∧ TX e r.con = true := by
  simp only [InvRoot, Inv, WFRoot_iff]
  constructor
  · rintro ⟨⟨a, b⟩, c⟩; exact ⟨⟨a, c⟩, b⟩
  · rintro ⟨⟨a, c⟩, b⟩; exact ⟨⟨a, b⟩, c⟩

/-- one operation: the engine's outcome against the specification's result -/
def OpRef {γ} (e : Bool) (res : Res (Value × γ)) (out : Outcome Root) : Prop :=
  match res with
  | .ok va => ∃ r', out = .ok r' ∧ InvRoot e r' ∧ den r'.con = va.1
  | .fail _ => ∃ er, out = .err er
  | .unspec => True

/-! ### specification side: `applyOp` per kind -/

/-- a pointer outside RFC 6901 (no leading `/`): `add`, `replace`, `test` and the plain `remove`
fail (the remove under AllowMissingPathOnRemove is left open; `move` / `copy`: see below) -/
theorem spec_path_none {so : Spec.Opts} {sz acc : Nat} {doc : Value} {sop : Spec.Op}
    (hp : Spec.parsePointer sop.path = none)
    (hk : sop.kind = .add ∨ sop.kind = .replace ∨ sop.kind = .test ∨
      (sop.kind = .remove ∧ so.allowMissing = false)) :
    Spec.applyOp so sz acc doc sop = .fail .parentUnreachable := by
  rcases hk with hk | hk | hk | ⟨hk, ha⟩ <;> simp [Spec.applyOp, *]

/-- a destination pointer outside RFC 6901 in a `move`: the source half is evaluated first, its
failure is the one reported -/
theorem spec_move_path_none {so : Spec.Opts} {sz acc : Nat} {doc : Value} {sop : Spec.Op}
    (hk : sop.kind = .move) (hp : Spec.parsePointer sop.path = none) :
    Spec.applyOp so sz acc doc sop =
      match Spec.parsePointer sop.frm with
      | none => .fail .parentUnreachable
      | some [] => .fail .moveFromRoot
      | some (t :: ts) =>
        (Spec.atParent so (Spec.removeIn so) doc (t :: ts)).bind fun _ => .fail .parentUnreachable := by
  simp only [Spec.applyOp, hp, hk]
  simp only [reduceCtorEq, false_and, if_false]
  cases Spec.parsePointer sop.frm with
  | none => rfl
  | some ftoks => cases ftoks <;> rfl

/-- a destination pointer outside RFC 6901 in a `copy`: the source half is evaluated first -/
theorem spec_copy_path_none {so : Spec.Opts} {sz acc : Nat} {doc : Value} {sop : Spec.Op}
    (hk : sop.kind = .copy) (hp : Spec.parsePointer sop.path = none) :
    Spec.applyOp so sz acc doc sop =
      match Spec.parsePointer sop.frm with
      | none => .fail .parentUnreachable
      | some [] => .fail .parentUnreachable
      | some (t :: ts) =>
        (Spec.atParent so (Spec.getIn so false) doc (t :: ts)).bind fun _ => .fail .parentUnreachable := by
  simp only [Spec.applyOp, hp, hk]
  simp only [reduceCtorEq, false_and, if_false]
  cases Spec.parsePointer sop.frm with
  | none => rfl
  | some ftoks => cases ftoks <;> rfl

/-- a pointer outside RFC 6901: the operation never succeeds -/
theorem spec_path_none_not_ok {so : Spec.Opts} {sz acc : Nat} {doc : Value} {sop : Spec.Op}
    (hp : Spec.parsePointer sop.path = none) (va : Value × Nat) :
    Spec.applyOp so sz acc doc sop ≠ .ok va := by
  cases hk : sop.kind with
  | move =>
    rw [spec_move_path_none hk hp]
    split
    · simp
    · simp
    · cases Spec.atParent so (Spec.removeIn so) doc _ <;> simp [Res.bind]
  | copy =>
    rw [spec_copy_path_none hk hp]
    split
    · simp
    · simp
    · cases Spec.atParent so (Spec.getIn so false) doc _ <;> simp [Res.bind]
  | add => rw [spec_path_none hp (by simp [hk])]; simp
  | replace => rw [spec_path_none hp (by simp [hk])]; simp
  | test => rw [spec_path_none hp (by simp [hk])]; simp
  | remove =>
    cases ha : so.allowMissing with
    | false => rw [spec_path_none hp (by simp [hk, ha])]; simp
    | true => simp [Spec.applyOp, hp, hk, ha]

/-- against a specification result that is not a success, an engine error is all it takes -/
theorem OpRef_of_err {γ} {e : Bool} {res : Res (Value × γ)} {out : Outcome Root}
    (hres : ∀ va, res ≠ .ok va) (h : ∃ er, out = .err er) : OpRef e res out := by
  cases res with
  | ok va => exact absurd rfl (hres va)
  | fail c => exact h
  | unspec => trivial

/-- `findObject` on a pointer without a leading `/` returns nil at once -/
theorem withPath_of_parsePointer_none {α} (o : Opts) (r : Root) {path : Bytes}
    (act : Node → Node → Bytes → Outcome (Node × α)) (h : Spec.parsePointer path = none) :
    withPath o r path act = .notFound r.con := by
  simp [withPath, splitPath_of_parsePointer_none h]

theorem spec_add_root {so : Spec.Opts} {sz acc : Nat} {doc : Value} {sop : Spec.Op} {v : Value}
    (hk : sop.kind = .add) (hp : Spec.parsePointer sop.path = some []) (hv : sop.value = some v) :
    Spec.applyOp so sz acc doc sop =
      if v.isContainer then .ok (v, acc) else if v.isNull then .unspec else .fail .rootNotContainer := by
  simp only [Spec.applyOp, hp, hk, hv]

theorem spec_add {so : Spec.Opts} {sz acc : Nat} {doc : Value} {sop : Spec.Op} {v : Value}
    {t : Bytes} {ts : List Bytes}
    (hk : sop.kind = .add) (hp : Spec.parsePointer sop.path = some (t :: ts)) (hv : sop.value = some v)
    (he : so.ensure = false) :
    Spec.applyOp so sz acc doc sop =
      (Spec.atParent so (Spec.addIn so v) doc (t :: ts)).bind fun vb => .ok (vb.1, acc) := by
  simp only [Spec.applyOp, hp, hk, hv, he]
  rfl

theorem spec_remove {so : Spec.Opts} {sz acc : Nat} {doc : Value} {sop : Spec.Op}
    {t : Bytes} {ts : List Bytes}
    (hk : sop.kind = .remove) (hp : Spec.parsePointer sop.path = some (t :: ts))
    (ha : so.allowMissing = false) :
    Spec.applyOp so sz acc doc sop =
      (Spec.atParent so (Spec.removeIn so) doc (t :: ts)).bind fun vb => .ok (vb.1, acc) := by
  simp only [Spec.applyOp, hp, hk, ha]
  rfl

theorem spec_replace_root {so : Spec.Opts} {sz acc : Nat} {doc : Value} {sop : Spec.Op} {v : Value}
    (hk : sop.kind = .replace) (hp : Spec.parsePointer sop.path = some []) (hv : sop.value = some v) :
    Spec.applyOp so sz acc doc sop =
      if v.isContainer then .ok (v, acc) else if v.isNull then .unspec else .fail .rootNotContainer := by
  simp only [Spec.applyOp, hp, hk, hv]

theorem spec_replace {so : Spec.Opts} {sz acc : Nat} {doc : Value} {sop : Spec.Op} {v : Value}
    {t : Bytes} {ts : List Bytes}
    (hk : sop.kind = .replace) (hp : Spec.parsePointer sop.path = some (t :: ts)) (hv : sop.value = some v) :
    Spec.applyOp so sz acc doc sop =
      (Spec.atParent so (Spec.replaceIn so v) doc (t :: ts)).bind fun vb => .ok (vb.1, acc) := by
  simp only [Spec.applyOp, hp, hk, hv]

/-! ### from a walk to the operation's outcome -/

/-- the conclusion of `withPath_refines`, for reuse -/
def WalkRef {α β} (e : Bool) (r : Root) (R : α → β → Prop) (res : Res (Value × β)) (w : Walk α) : Prop :=
  match res with
  | .ok vb => ∃ con' a, w = .done con' a ∧ Inv e con' ∧ isCon con' = true ∧ den con' = vb.1 ∧ R a vb.2
  | .fail _ => (∃ con', w = .notFound con' ∧ Inv e con' ∧ isCon con' = true ∧ den con' = den r.con) ∨
      (∃ er, w = .fail er)
  | .unspec => True

theorem withPath_walkRef {α β} {o : Opts} {e : Bool} {r : Root} {path : Bytes} {toks : List Bytes}
    {act : Node → Node → Bytes → Outcome (Node × α)} {f : Value → Bytes → Res (Value × β)}
    {R : α → β → Prop}
    (hr : InvRoot e r)
    (hp : Spec.parsePointer path = some toks) (hne : toks ≠ [])
    (hact : ∀ key, key ∈ toks → ActRef e key act f R) :
    WalkRef e r R (Spec.atParent (specOpts o) f (den r.con) toks) (withPath o r path act) := by
  have := withPath_refines (o := o) hr.1 hr.2 hp hne hact
  cases h : Spec.atParent (specOpts o) f (den r.con) toks with
  | ok vb => rw [h] at this; exact this
  | fail c => rw [h] at this; exact this
  | unspec => trivial

theorem liftWalk_refines {β} {e : Bool} {r : Root} {w : Walk Unit} {k : Root → Outcome Root}
    {res : Res (Value × β)} {R : Unit → β → Prop} (acc : Nat)
    (hk : ∀ r', ∃ er, k r' = .err er)
    (h : WalkRef e r R res w) :
    OpRef e (res.bind fun vb => .ok (vb.1, acc)) (liftWalk r w k) := by
  cases res with
  | unspec => trivial
  | fail c =>
    simp only [WalkRef] at h
    simp only [Res.bind, OpRef]
    rcases h with ⟨con', hw, _⟩ | ⟨er, hw⟩
    · subst hw; exact hk _
    · subst hw; exact ⟨er, rfl⟩
  | ok vb =>
    simp only [WalkRef] at h
    obtain ⟨con', a, hw, h1, h2, h3, _⟩ := h
    subst hw
    simp only [Res.bind, OpRef]
    exact ⟨_, rfl, ⟨h1, h2⟩, h3⟩

/-! ### add -/

/-- the action of `add` (also the second half of `move` and `copy`) -/
def actAdd (o : Opts) (val : Node) : Node → Node → Bytes → Outcome (Node × Unit) :=
  fun _ con key =>
    match conAdd o con key val with
    | .ok con' => .ok (con', ())
    | .err e => .err e
    | .panic => .panic

theorem actAdd_ref {o : Opts} {e : Bool} {val : Node} {key : Bytes} (hv : Inv e val) (hk : QK e key = true) :
    ActRef e key (actAdd o val) (Spec.addIn (specOpts o) (den val)) (fun _ _ => True) := by
  intro s pc hp hc
  have := conAdd_refines (o := o) hp hc hv hk
  cases h : Spec.addIn (specOpts o) (den val) (den pc) key with
  | unspec => trivial
  | fail c =>
    rw [h] at this
    obtain ⟨er, her⟩ := this
    exact ⟨er, by simp [actAdd, her]⟩
  | ok pb =>
    rw [h] at this
    obtain ⟨pc', h1, h2, h3, h4⟩ := this
    exact ⟨pc', (), by simp [actAdd, h1], h2, h3, h4, trivial⟩

/-- adding `val` below the root, as `add`, `move` and `copy` do -/
theorem addAt_refines {o : Opts} {e : Bool} {r : Root} {val : Node} {path : Bytes} {toks : List Bytes}
    (hr : InvRoot e r) (hv : Inv e val)
    (hp : Spec.parsePointer path = some toks) (hne : toks ≠ [])
    (hq : ∀ t ∈ toks, QK e t = true) :
    WalkRef e r (fun _ _ => True)
      (Spec.atParent (specOpts o) (Spec.addIn (specOpts o) (den val)) (den r.con) toks)
      (withPath o r path (actAdd o val)) :=
  withPath_walkRef hr hp hne (fun key hmem => actAdd_ref hv (hq key hmem))

theorem opAdd_eq_nonroot (o : Opts) (r : Root) (op : Op) (hp : op.path ≠ []) (he : o.ensure = false) :
    opAdd o r op =
      liftWalk r (withPath o r op.path (actAdd o ((op.valueNode).getD .nil))) (fun _ => .err .missing) := by
  simp only [opAdd, hp, if_false, he, Bool.false_eq_true]
  rfl

/-- a pointer outside RFC 6901: `add` finds nothing (whatever its value member is) -/
theorem opAdd_path_none (o : Opts) (r : Root) (op : Op) (he : o.ensure = false)
    (hp : Spec.parsePointer op.path = none) : opAdd o r op = .err .missing := by
  rw [opAdd_eq_nonroot o r op (parsePointer_none_ne_nil hp) he, withPath_of_parsePointer_none _ _ _ hp]
  rfl

/-- `ensurePathExists` on a pointer without a leading `/` does nothing -/
theorem ensurePath_of_parsePointer_none (o : Opts) (r : Root) {path : Bytes}
    (h : Spec.parsePointer path = none) : ensurePath o r path = .ok r := by
  cases path with
  | nil => simp [Spec.parsePointer] at h
  | cons c cs =>
    simp only [Spec.parsePointer] at h
    split at h
    · next hc =>
      obtain ⟨p, ps, hs⟩ := splitSlash_head_cons c cs hc
      simp only [ensurePath, hs]
      cases ps with
      | nil => rfl
      | cons q qs => simp
    · cases h

/-- a pointer outside RFC 6901: `add` finds nothing, with or without EnsurePathExistsOnAdd -/
theorem opAdd_path_none_any (o : Opts) (r : Root) (op : Op)
    (hp : Spec.parsePointer op.path = none) : opAdd o r op = .err .missing := by
  cases he : o.ensure with
  | false => exact opAdd_path_none o r op he hp
  | true =>
    simp only [opAdd, parsePointer_none_ne_nil hp, if_false, he, if_true,
      ensurePath_of_parsePointer_none o r hp, withPath_of_parsePointer_none _ _ _ hp]
    rfl

theorem isContainer_valueOf (c : Cst) :
    c.valueOf.isContainer = (c.isArr || c.isObj) := by
  cases c with
  | lit s => simp [Cst.valueOf, litValue_isContainer_false, Cst.isArr, Cst.isObj]
  | str b => simp [Cst.valueOf, Value.isContainer, Value.isObj, Value.isArr, Cst.isArr, Cst.isObj]
  | arr xs => simp [Cst.valueOf, Value.isContainer, Value.isObj, Value.isArr, Cst.isArr, Cst.isObj]
  | obj ms => simp [Cst.valueOf, Value.isContainer, Value.isObj, Value.isArr, Cst.isArr, Cst.isObj]

theorem opAdd_refines {o : Opts} {e : Bool} {r : Root} {op : Op} {sop : Spec.Op} {c : Cst}
    (sz acc : Nat) (he : o.ensure = false) (hr : InvRoot e r)
    (hk : sop.kind = .add) (hpath : sop.path = op.path)
    (hval : op.value = some c) (hsval : sop.value = some c.valueOf)
    (hc : Inv e (.raw c))
    (hq : ∀ toks, Spec.parsePointer op.path = some toks → ∀ t ∈ toks, QK e t = true) :
    OpRef e (Spec.applyOp (specOpts o) sz acc (den r.con) sop) (opAdd o r op) := by
  cases hp : Spec.parsePointer op.path with
  | none =>
    rw [spec_path_none (by rw [hpath]; exact hp) (by simp [hk]), opAdd_path_none o r op he hp]
    exact ⟨.missing, rfl⟩
  | some toks =>
    cases toks with
    | nil =>
      have hnil : op.path = [] := (parsePointer_nil_iff hp).1 rfl
      rw [spec_add_root hk (by rw [hpath]; exact hp) hsval, isContainer_valueOf]
      simp only [opAdd, hnil, if_true, hval]
      cases c with
      | lit s =>
        simp only [Cst.isArr, Cst.isObj, Bool.or_self, Bool.false_eq_true, if_false, decodeRoot]
        by_cases hs : s = ascii "null"
        · subst hs; simp [Cst.valueOf, Cst.litValue, Value.isNull, OpRef]
        · have : (Cst.lit s).valueOf.isNull = false := by
            cases hx : (Cst.lit s).valueOf.isNull with
            | false => rfl
            | true =>
              have : (Cst.lit s).valueOf = .null := by
                cases hv : (Cst.lit s).valueOf <;> simp [hv, Value.isNull] at hx; rfl
              have := (isNullLit_valueOf _).2 this
              simp [Cst.isNullLit] at this
              exact absurd this hs
          simp only [this, Bool.false_eq_true, if_false, hs, OpRef]
          exact ⟨_, rfl⟩
      | str b =>
        simp only [Cst.isArr, Cst.isObj, Bool.or_self, Bool.false_eq_true, if_false, decodeRoot,
          Cst.valueOf, Value.isNull, OpRef]
        exact ⟨_, rfl⟩
      | arr xs =>
        simp only [Cst.isArr, Cst.isObj, Bool.or_false, if_true, decodeRoot, OpRef]
        exact ⟨_, rfl, ⟨Inv_decodeAry hc, by simp [decodeAry, isCon]⟩, den_decodeAry xs⟩
      | obj ms =>
        simp only [Cst.isArr, Cst.isObj, Bool.or_true, if_true, decodeRoot, OpRef]
        exact ⟨_, rfl, ⟨Inv_decodeDoc hc, by simp [decodeDoc, isCon]⟩, den_decodeDoc hc⟩
    | cons t ts =>
      have hne : op.path ≠ [] := fun h => by
        have := (parsePointer_nil_iff hp).2 h; cases this
      rw [spec_add hk (by rw [hpath]; exact hp) hsval (by simp [specOpts, he]),
        opAdd_eq_nonroot o r op hne he]
      have hvn : (op.valueNode).getD .nil = .raw c := by simp [Op.valueNode, hval]
      rw [hvn]
      have : (Cst.valueOf c) = den (.raw c) := by simp [den]
      rw [this]
      exact liftWalk_refines acc (fun _ => ⟨_, rfl⟩)
        (addAt_refines hr hc hp (by simp) (hq _ hp))

/-! ### remove (without AllowMissingPathOnRemove) -/

def actRemove (o : Opts) : Node → Node → Bytes → Outcome (Node × Unit) :=
  fun _ con key =>
    match conRemove o con key with
    | .ok con' => .ok (con', ())
    | .err e => .err e
    | .panic => .panic

theorem actRemove_ref {o : Opts} {e : Bool} {key : Bytes} (ha : o.allow = false) :
    ActRef e key (actRemove o) (Spec.removeIn (specOpts o)) (fun (_ : Unit) (_ : Value) => True) := by
  intro s pc hp hc
  have := conRemove_refines (o := o) (key := key) hp hc
  cases h : Spec.removeIn (specOpts o) (den pc) key with
  | unspec => trivial
  | fail c =>
    rw [h] at this
    obtain ⟨er, her⟩ := this ha
    exact ⟨er, by simp [actRemove, her]⟩
  | ok pb =>
    rw [h] at this
    obtain ⟨pc', h1, h2, h3, h4⟩ := this
    exact ⟨pc', (), by simp [actRemove, h1], h2, h3, h4, trivial⟩

theorem opRemove_eq (o : Opts) (r : Root) (op : Op) :
    opRemove o r op =
      liftWalk r (withPath o r op.path (actRemove o)) (fun r' => if o.allow then .ok r' else .err .missing) := rfl

theorem opRemove_refines_noallow {o : Opts} {e : Bool} {r : Root} {op : Op} {sop : Spec.Op}
    (sz acc : Nat) (ha : o.allow = false) (hr : InvRoot e r)
    (hk : sop.kind = .remove) (hpath : sop.path = op.path) :
    OpRef e (Spec.applyOp (specOpts o) sz acc (den r.con) sop) (opRemove o r op) := by
  cases hp : Spec.parsePointer op.path with
  | none =>
    rw [spec_path_none (by rw [hpath]; exact hp) (by simp [hk, specOpts, ha]),
      opRemove_eq, withPath_of_parsePointer_none _ _ _ hp]
    exact ⟨.missing, by simp [liftWalk, ha]⟩
  | some toks =>
    cases toks with
    | nil => simp only [Spec.applyOp, hpath, hp, hk, OpRef]
    | cons t ts =>
      rw [spec_remove hk (by rw [hpath]; exact hp) (by simp [specOpts, ha]), opRemove_eq]
      exact liftWalk_refines acc (fun _ => ⟨.missing, by simp [ha]⟩)
        (withPath_walkRef hr hp (by simp) (fun key _ => actRemove_ref ha))

/-! ### replace -/

def actReplace (o : Opts) (val : Node) : Node → Node → Bytes → Outcome (Node × Unit) :=
  fun self con key =>
    match conGet o self con key with
    | .panic => .panic
    | .err _ => .err .missing
    | .ok _ =>
      match conSet o con key val with
      | .ok con' => .ok (con', ())
      | .err e => .err e
      | .panic => .panic

theorem actReplace_ref {o : Opts} {e : Bool} {val : Node} {key : Bytes} (hv : Inv e val)
    (hk : QK e key = true) :
    ActRef e key (actReplace o val) (Spec.replaceIn (specOpts o) (den val)) (fun _ _ => True) := by
  intro s pc hp hc
  have hset := conSet_refines (o := o) hp hc hv hk
  have hget := conGet_refines (o := o) (key := key) s hp hc
  have hrel := replaceIn_getIn (specOpts o) (den val) (den pc) key
  cases h : Spec.replaceIn (specOpts o) (den val) (den pc) key with
  | unspec => trivial
  | fail c =>
    rw [h] at hrel
    obtain ⟨c', hc'⟩ := hrel
    rw [hc'] at hget
    obtain ⟨er, her⟩ := hget
    exact ⟨.missing, by simp [actReplace, her]⟩
  | ok pb =>
    rw [h] at hrel hset
    obtain ⟨old, hold⟩ := hrel
    rw [hold] at hget
    obtain ⟨n, hn, _⟩ := hget
    obtain ⟨pc', h1, h2, h3, h4⟩ := hset
    exact ⟨pc', (), by simp [actReplace, hn, h1], h2, h3, h4, trivial⟩

theorem opReplace_eq_nonroot (o : Opts) (r : Root) (op : Op) (hp : op.path ≠ []) :
    opReplace o r op =
      liftWalk r (withPath o r op.path (actReplace o ((op.valueNode).getD .nil))) (fun _ => .err .missing) := by
  simp only [opReplace, hp, if_false]
  rfl

/-- a pointer outside RFC 6901: `replace` finds nothing (whatever its value member is) -/
theorem opReplace_path_none (o : Opts) (r : Root) (op : Op)
    (hp : Spec.parsePointer op.path = none) : opReplace o r op = .err .missing := by
  rw [opReplace_eq_nonroot o r op (parsePointer_none_ne_nil hp), withPath_of_parsePointer_none _ _ _ hp]
  rfl

theorem opReplace_refines {o : Opts} {e : Bool} {r : Root} {op : Op} {sop : Spec.Op} {c : Cst}
    (sz acc : Nat) (hr : InvRoot e r)
    (hk : sop.kind = .replace) (hpath : sop.path = op.path)
    (hval : op.value = some c) (hsval : sop.value = some c.valueOf)
    (hc : Inv e (.raw c))
    (hq : ∀ toks, Spec.parsePointer op.path = some toks → ∀ t ∈ toks, QK e t = true) :
    OpRef e (Spec.applyOp (specOpts o) sz acc (den r.con) sop) (opReplace o r op) := by
  cases hp : Spec.parsePointer op.path with
  | none =>
    rw [spec_path_none (by rw [hpath]; exact hp) (by simp [hk]), opReplace_path_none o r op hp]
    exact ⟨.missing, rfl⟩
  | some toks =>
    cases toks with
    | nil =>
      have hnil : op.path = [] := (parsePointer_nil_iff hp).1 rfl
      rw [spec_replace_root hk (by rw [hpath]; exact hp) hsval, isContainer_valueOf]
      simp only [opReplace, hnil, if_true, hval]
      cases c with
      | lit s =>
        simp only [Cst.isArr, Cst.isObj, Bool.or_self, Bool.false_eq_true, if_false]
        by_cases hs : s = ascii "null"
        · subst hs; simp [Cst.valueOf, Cst.litValue, Value.isNull, OpRef]
        · have : (Cst.lit s).valueOf.isNull = false := by
            cases hx : (Cst.lit s).valueOf.isNull with
            | false => rfl
            | true =>
              have : (Cst.lit s).valueOf = .null := by
                cases hv : (Cst.lit s).valueOf <;> simp [hv, Value.isNull] at hx; rfl
              have := (isNullLit_valueOf _).2 this
              simp [Cst.isNullLit] at this
              exact absurd this hs
          simp only [this, Bool.false_eq_true, if_false, hs, OpRef]
          exact ⟨_, rfl⟩
      | str b =>
        simp only [Cst.isArr, Cst.isObj, Bool.or_self, Bool.false_eq_true, if_false,
          Cst.valueOf, Value.isNull, OpRef]
        exact ⟨_, rfl⟩
      | arr xs =>
        simp only [Cst.isArr, Cst.isObj, Bool.or_false, if_true, OpRef]
        exact ⟨_, rfl, ⟨Inv_decodeAry hc, by simp [decodeAry, isCon]⟩, den_decodeAry xs⟩
      | obj ms =>
        simp only [Cst.isArr, Cst.isObj, Bool.or_true, if_true, OpRef]
        exact ⟨_, rfl, ⟨Inv_decodeDoc hc, by simp [decodeDoc, isCon]⟩, den_decodeDoc hc⟩
    | cons t ts =>
      have hne : op.path ≠ [] := fun h => by
        have := (parsePointer_nil_iff hp).2 h; cases this
      rw [spec_replace hk (by rw [hpath]; exact hp) hsval, opReplace_eq_nonroot o r op hne]
      have hvn : (op.valueNode).getD .nil = .raw c := by simp [Op.valueNode, hval]
      rw [hvn]
      have : (Cst.valueOf c) = den (.raw c) := by simp [den]
      rw [this]
      exact liftWalk_refines acc (fun _ => ⟨_, rfl⟩)
        (withPath_walkRef hr hp (by simp)
          (fun key hmem => actReplace_ref hc (hq _ hp key hmem)))

/-! ### move -/

theorem spec_move_root {so : Spec.Opts} {sz acc : Nat} {doc : Value} {sop : Spec.Op} {ptoks : List Bytes}
    (hk : sop.kind = .move) (hp : Spec.parsePointer sop.path = some ptoks)
    (hf : Spec.parsePointer sop.frm = some []) :
    Spec.applyOp so sz acc doc sop = .fail .moveFromRoot := by
  simp only [Spec.applyOp, hp, hk, hf]

theorem spec_move_none {so : Spec.Opts} {sz acc : Nat} {doc : Value} {sop : Spec.Op} {ptoks : List Bytes}
    (hk : sop.kind = .move) (hp : Spec.parsePointer sop.path = some ptoks)
    (hf : Spec.parsePointer sop.frm = none) :
    Spec.applyOp so sz acc doc sop = .fail .parentUnreachable := by
  simp only [Spec.applyOp, hp, hk, hf]

theorem spec_move {so : Spec.Opts} {sz acc : Nat} {doc : Value} {sop : Spec.Op} {ptoks : List Bytes}
    {t : Bytes} {ts : List Bytes}
    (hk : sop.kind = .move) (hp : Spec.parsePointer sop.path = some ptoks)
    (hf : Spec.parsePointer sop.frm = some (t :: ts)) :
    Spec.applyOp so sz acc doc sop =
      (Spec.atParent so (Spec.removeIn so) doc (t :: ts)).bind fun dv =>
        match ptoks with
        | [] => .unspec
        | _ :: _ => (Spec.atParent so (Spec.addIn so dv.2) dv.1 ptoks).bind fun vb => .ok (vb.1, acc) := by
  simp only [Spec.applyOp, hp, hk, hf]
  cases Spec.atParent so (Spec.removeIn so) doc (t :: ts) with
  | ok dv =>
    obtain ⟨d, v⟩ := dv
    cases ptoks <;> rfl
  | fail c => rfl
  | unspec => rfl

def actMoveSrc (o : Opts) : Node → Node → Bytes → Outcome (Node × Node) :=
  fun self con key =>
    match conGet o self con key with
    | .panic => .panic
    | .err e => .err e
    | .ok val =>
      match conRemove o con key with
      | .ok con' => .ok (con', val)
      | .err e => .err e
      | .panic => .panic

theorem actMoveSrc_ref {o : Opts} {e : Bool} {key : Bytes} :
    ActRef e key (actMoveSrc o) (Spec.removeIn (specOpts o)) (fun val old => Inv e val ∧ den val = old) := by
  intro s pc hp hc
  have hrem := conRemove_refines (o := o) (key := key) hp hc
  have hget := conGet_refines (o := o) (key := key) s hp hc
  have hrel := removeIn_getIn (specOpts o) (den pc) key
  cases h : Spec.removeIn (specOpts o) (den pc) key with
  | unspec => trivial
  | fail c =>
    rw [h] at hrel
    obtain ⟨c', hc'⟩ := hrel
    rw [hc'] at hget
    obtain ⟨er, her⟩ := hget
    exact ⟨er, by simp [actMoveSrc, her]⟩
  | ok pb =>
    rw [h] at hrel hrem
    rw [hrel] at hget
    obtain ⟨n, hn, hn1, hn2⟩ := hget
    obtain ⟨pc', h1, h2, h3, h4⟩ := hrem
    exact ⟨pc', n, by simp [actMoveSrc, hn, h1], h2, h3, h4, hn1, hn2⟩

/-- what `move` does with the result of its first walk -/
def moveK (o : Opts) (r : Root) (op : Op) : Walk Node → Outcome Root
  | .panic => .panic
  | .fail e => .err e
  | .notFound _ => .err .missing
  | .notFoundSelf _ => .err .missing
  | .done con val =>
    liftWalk { r with con := con } (withPath o { r with con := con } op.path (actAdd o val)) (fun _ => .err .missing)
  | .doneSelf s val =>
    liftWalk { r with self := s } (withPath o { r with self := s } op.path (actAdd o val)) (fun _ => .err .missing)

theorem opMove_eq (o : Opts) (r : Root) (op : Op) (f : Bytes) (h : op.frm = some f) (hf : f ≠ []) :
    opMove o r op = moveK o r op (withPath o r f (actMoveSrc o)) := by
  simp only [opMove, h, hf, if_false]
  rfl

theorem opMove_refines {o : Opts} {e : Bool} {r : Root} {op : Op} {sop : Spec.Op}
    (sz acc : Nat) (hr : InvRoot e r)
    (hk : sop.kind = .move) (hpath : sop.path = op.path) (hfrm : sop.frm = op.frm.getD [])
    (hq : ∀ toks, Spec.parsePointer op.path = some toks → ∀ t ∈ toks, QK e t = true) :
    OpRef e (Spec.applyOp (specOpts o) sz acc (den r.con) sop) (opMove o r op) := by
  cases hp : Spec.parsePointer op.path with
  | none =>
    -- the destination is outside RFC 6901: the source half runs first, then nothing is found
    have hsp : Spec.parsePointer sop.path = none := by rw [hpath]; exact hp
    rw [spec_move_path_none hk hsp]
    cases hfo : op.frm with
    | none =>
      rw [hfo] at hfrm
      have hnil : Spec.parsePointer sop.frm = some [] := by rw [hfrm]; rfl
      rw [hnil]
      exact ⟨.missing, by simp [opMove, hfo]⟩
    | some f =>
      rw [hfo] at hfrm
      simp only [Option.getD_some] at hfrm
      rw [hfrm]
      cases hpf : Spec.parsePointer f with
      | none =>
        rw [opMove_eq o r op f hfo (parsePointer_none_ne_nil hpf), withPath_of_parsePointer_none _ _ _ hpf]
        exact ⟨.missing, rfl⟩
      | some ftoks =>
        cases ftoks with
        | nil =>
          exact ⟨.invalid, by simp [opMove, hfo, (parsePointer_nil_iff hpf).1 rfl]⟩
        | cons t ts =>
          have hne : f ≠ [] := fun h => by
            have := (parsePointer_nil_iff hpf).2 h; cases this
          rw [opMove_eq o r op f hfo hne]
          have hw : WalkRef e r (fun val old => Inv e val ∧ den val = old)
              (Spec.atParent (specOpts o) (Spec.removeIn (specOpts o)) (den r.con) (t :: ts))
              (withPath o r f (actMoveSrc o)) :=
            withPath_walkRef hr hpf (by simp) (fun key _ => actMoveSrc_ref)
          simp only
          cases hres : Spec.atParent (specOpts o) (Spec.removeIn (specOpts o)) (den r.con) (t :: ts) with
          | unspec => simp only [Res.bind, OpRef]
          | fail c =>
            rw [hres] at hw
            simp only [WalkRef] at hw
            simp only [Res.bind, OpRef]
            rcases hw with ⟨con', hw, _⟩ | ⟨er, hw⟩
            · rw [hw]; exact ⟨_, rfl⟩
            · rw [hw]; exact ⟨_, rfl⟩
          | ok dv =>
            rw [hres] at hw
            simp only [WalkRef] at hw
            obtain ⟨con', val, hw, _⟩ := hw
            rw [hw]
            simp only [Res.bind, moveK, withPath_of_parsePointer_none _ _ _ hp, liftWalk, OpRef]
            exact ⟨_, rfl⟩
  | some ptoks =>
    have hp' : Spec.parsePointer sop.path = some ptoks := by rw [hpath]; exact hp
    cases hfo : op.frm with
    | none =>
      rw [hfo] at hfrm
      rw [spec_move_root hk hp' (by rw [hfrm]; rfl)]
      exact ⟨.missing, by simp [opMove, hfo]⟩
    | some f =>
      rw [hfo] at hfrm
      simp only [Option.getD_some] at hfrm
      cases hpf : Spec.parsePointer f with
      | none =>
        rw [spec_move_none hk hp' (by rw [hfrm]; exact hpf),
          opMove_eq o r op f hfo (parsePointer_none_ne_nil hpf), withPath_of_parsePointer_none _ _ _ hpf]
        exact ⟨.missing, rfl⟩
      | some ftoks =>
        cases ftoks with
        | nil =>
          have hnil : f = [] := (parsePointer_nil_iff hpf).1 rfl
          rw [spec_move_root hk hp' (by rw [hfrm]; exact hpf)]
          exact ⟨.invalid, by simp [opMove, hfo, hnil]⟩
        | cons t ts =>
          have hne : f ≠ [] := fun h => by
            have := (parsePointer_nil_iff hpf).2 h; cases this
          rw [spec_move hk hp' (by rw [hfrm]; exact hpf), opMove_eq o r op f hfo hne]
          have hw : WalkRef e r (fun val old => Inv e val ∧ den val = old)
              (Spec.atParent (specOpts o) (Spec.removeIn (specOpts o)) (den r.con) (t :: ts))
              (withPath o r f (actMoveSrc o)) :=
            withPath_walkRef hr hpf (by simp) (fun key _ => actMoveSrc_ref)
          cases hres : Spec.atParent (specOpts o) (Spec.removeIn (specOpts o)) (den r.con) (t :: ts) with
          | unspec => trivial
          | fail c =>
            rw [hres] at hw
            simp only [WalkRef] at hw
            simp only [Res.bind, OpRef]
            rcases hw with ⟨con', hw, _⟩ | ⟨er, hw⟩
            · rw [hw]; exact ⟨_, rfl⟩
            · rw [hw]; exact ⟨_, rfl⟩
          | ok dv =>
            rw [hres] at hw
            simp only [WalkRef] at hw
            obtain ⟨con', val, hw, h1, h2, h3, h4, h5⟩ := hw
            rw [hw]
            simp only [Res.bind, moveK]
            cases ptoks with
            | nil => trivial
            | cons pt pts =>
              simp only
              have hr1 : InvRoot e { r with con := con' } := ⟨h1, h2⟩
              have := liftWalk_refines (k := fun _ => .err .missing) acc (fun _ => ⟨_, rfl⟩)
                (addAt_refines (o := o) hr1 h4 hp (by simp) (hq _ hp))
              simp only [h3, h5] at this
              exact this

end Impl
end JP
