import JP.Codec.TypedDecode

set_option linter.unusedSimpArgs false

/-!
# Type preservation of the typed decoder model, part 1: the typing of decoder values

`DV.typed t w`: the decoder value `w` (with its hidden slice elements) is a value of type `t`.
`typed_toGoVal`: then what the caller sees (`toGoVal`) `hasType t`.
-/

namespace JP
namespace Codec
namespace TDec

open Scanner
open JP.Codec.Typed

mutual
def DV.typed : GoType → DV → Bool
  | t, .nil => t.nilable
  | t, .bool _ => (match t with | .bool => true | _ => false)
  | t, .int n => (match t with | .int k => k.inRange n | _ => false)
  | t, .uint n => (match t with | .uint k => k.inRange n | _ => false)
  | t, .str _ => (match t with | .string => true | .number => true | _ => false)
  | t, .slice xs sp => (match t with | .slice e => typedAll e xs && typedAll e sp | _ => false)
  | t, .arr xs => (match t with | .array n e => xs.length == n && typedAll e xs | _ => false)
  | t, .map ms => (match t with | .map k e => distinctKeys (ms.map Prod.fst) && typedM k e ms | _ => false)
  | t, .ptr v => (match t with | .ptr e => DV.typed e v | _ => false)
  | t, .iface dt v =>
    (match t with
     | .iface => (match dt with | .iface => false | _ => true) && dt.wf && GoVal.hasType dt v
     | _ => false)
  | t, .struct vs => (match t with | .struct _ fts => typedF fts vs | _ => false)
def typedAll (e : GoType) : List DV → Bool
  | [] => true
  | x :: xs => DV.typed e x && typedAll e xs
def typedM (k : KeyType) (e : GoType) : List (MapKey × DV) → Bool
  | [] => true
  | (key, v) :: ms => key.hasType k && DV.typed e v && typedM k e ms
def typedF : List (FieldInfo × GoType) → List DV → Bool
  | fts, [] => fts.isEmpty
  | fts, v :: vs => (match fts with | (_, ft) :: r => DV.typed ft v && typedF r vs | [] => false)
end

theorem typedAll_replicate (e : GoType) (z : DV) (hz : DV.typed e z = true) : ∀ n, typedAll e (List.replicate n z) = true
  | 0 => rfl
  | n + 1 => by simp [List.replicate_succ, typedAll, hz, typedAll_replicate e z hz n]

theorem typedAll_append (e : GoType) : ∀ (xs ys : List DV), typedAll e (xs ++ ys) = (typedAll e xs && typedAll e ys)
  | [], ys => by simp [typedAll]
  | x :: xs, ys => by simp [typedAll, typedAll_append e xs ys, Bool.and_assoc]

theorem typedAll_take (e : GoType) : ∀ (xs : List DV) (n : Nat), typedAll e xs = true → typedAll e (xs.take n) = true
  | [], _, _ => by simp [typedAll]
  | _ :: _, 0, _ => by simp [typedAll]
  | x :: xs, n + 1, h => by
    simp only [typedAll, Bool.and_eq_true] at h
    simp [typedAll, h.1, typedAll_take e xs n h.2]

theorem typedAll_drop (e : GoType) : ∀ (xs : List DV) (n : Nat), typedAll e xs = true → typedAll e (xs.drop n) = true
  | [], _, _ => by simp [typedAll]
  | x :: xs, 0, h => by simpa using h
  | x :: xs, n + 1, h => by
    simp only [typedAll, Bool.and_eq_true] at h
    simp [typedAll_drop e xs n h.2]

theorem typedAll_set (e : GoType) (v : DV) (hv : DV.typed e v = true) :
    ∀ (xs : List DV) (i : Nat), typedAll e xs = true → typedAll e (xs.set i v) = true
  | [], _, _ => by simp [typedAll]
  | x :: xs, 0, h => by
    simp only [typedAll, Bool.and_eq_true] at h
    simp [typedAll, hv, h.2]
  | x :: xs, i + 1, h => by
    simp only [typedAll, Bool.and_eq_true] at h
    simp [typedAll, h.1, typedAll_set e v hv xs i h.2]

theorem typedAll_get (e : GoType) : ∀ (xs : List DV) (i : Nat) (x : DV), typedAll e xs = true → xs[i]? = some x →
    DV.typed e x = true
  | [], _, _, _, h => by simp at h
  | y :: ys, 0, x, h, hx => by
    simp only [typedAll, Bool.and_eq_true] at h
    simp at hx; subst hx; exact h.1
  | y :: ys, i + 1, x, h, hx => by
    simp only [typedAll, Bool.and_eq_true] at h
    simp at hx
    exact typedAll_get e ys i x h.2 hx

mutual
theorem zero_typed : ∀ t : GoType, DV.typed t (zeroDV t) = true
  | .bool => rfl
  | .int k => by cases k <;> decide
  | .uint k => by cases k <;> decide
  | .string => rfl
  | .number => rfl
  | .slice _ => rfl
  | .array n e => by
    simp [zeroDV, DV.typed, typedAll_replicate e _ (zero_typed e) n]
  | .map _ _ => rfl
  | .ptr _ => rfl
  | .iface => rfl
  | .struct _ fs => by simp [zeroDV, DV.typed, zeroFields_typed fs]
theorem zeroFields_typed : ∀ fs : List (FieldInfo × GoType), typedF fs (zeroFields fs) = true
  | [] => rfl
  | (_, t) :: r => by simp [zeroFields, typedF, zero_typed t, zeroFields_typed r]
end

/-! ### what the caller sees has the type -/

theorem toGoValM_keys (e : GoType) : ∀ ms : List (MapKey × DV), (toGoValM e ms).map Prod.fst = ms.map Prod.fst
  | [] => rfl
  | (k, v) :: ms => by simp [toGoValM, toGoValM_keys e ms]

mutual
theorem typed_toGoVal : ∀ (w : DV) (t : GoType), DV.typed t w = true → GoVal.hasType t (toGoVal t w) = true
  | .nil, t, h => by simpa [toGoVal, GoVal.hasType, DV.typed] using h
  | .bool b, t, h => by cases t <;> simp_all [toGoVal, GoVal.hasType, DV.typed]
  | .int n, t, h => by cases t <;> simp_all [toGoVal, GoVal.hasType, DV.typed]
  | .uint n, t, h => by cases t <;> simp_all [toGoVal, GoVal.hasType, DV.typed]
  | .str s, t, h => by cases t <;> simp_all [toGoVal, GoVal.hasType, DV.typed]
  | .slice xs sp, t, h => by
    cases t with
    | slice e =>
      simp only [DV.typed, Bool.and_eq_true] at h
      by_cases hu : e.isUint8 = true
      · simp [toGoVal, hu, GoVal.hasType]
      · simp [toGoVal, hu, GoVal.hasType, typed_toGoValL xs e h.1]
    | _ => simp [DV.typed] at h
  | .arr xs, t, h => by
    cases t with
    | array n e =>
      simp only [DV.typed, Bool.and_eq_true, beq_iff_eq] at h
      simp [toGoVal, GoVal.hasType, typed_toGoValL xs e h.2, toGoValL_length e xs, h.1]
    | _ => simp [DV.typed] at h
  | .map ms, t, h => by
    cases t with
    | map k e =>
      simp only [DV.typed, Bool.and_eq_true] at h
      simp [toGoVal, GoVal.hasType, toGoValM_keys, h.1, typed_toGoValM ms k e h.2]
    | _ => simp [DV.typed] at h
  | .ptr v, t, h => by
    cases t with
    | ptr e =>
      simp only [DV.typed] at h
      simp [toGoVal, GoVal.hasType, typed_toGoVal v e h]
    | _ => simp [DV.typed] at h
  | .iface dt v, t, h => by
    cases t with
    | iface => cases dt <;> simp_all [toGoVal, GoVal.hasType, DV.typed]
    | _ => simp [DV.typed] at h
  | .struct vs, t, h => by
    cases t with
    | struct n fts =>
      simp only [DV.typed] at h
      simp [toGoVal, GoVal.hasType, typed_toGoValF vs fts h]
    | _ => simp [DV.typed] at h
theorem typed_toGoValL : ∀ (xs : List DV) (e : GoType), typedAll e xs = true → hasTypeAll e (toGoValL e xs) = true
  | [], _, _ => rfl
  | x :: xs, e, h => by
    simp only [typedAll, Bool.and_eq_true] at h
    simp [toGoValL, hasTypeAll, typed_toGoVal x e h.1, typed_toGoValL xs e h.2]
theorem toGoValL_length : ∀ (e : GoType) (xs : List DV), (toGoValL e xs).length = xs.length
  | _, [] => rfl
  | e, x :: xs => by simp [toGoValL, toGoValL_length e xs]
theorem typed_toGoValM : ∀ (ms : List (MapKey × DV)) (k : KeyType) (e : GoType), typedM k e ms = true →
    hasTypeM k e (toGoValM e ms) = true
  | [], _, _, _ => rfl
  | (key, v) :: ms, k, e, h => by
    simp only [typedM, Bool.and_eq_true] at h
    simp [toGoValM, hasTypeM, h.1.1, typed_toGoVal v e h.1.2, typed_toGoValM ms k e h.2]
theorem typed_toGoValF : ∀ (vs : List DV) (fts : List (FieldInfo × GoType)), typedF fts vs = true →
    hasTypeL fts (toGoValF fts vs) = true
  | [], fts, h => by
    cases fts with
    | nil => rfl
    | cons a r => simp [typedF] at h
  | v :: vs, fts, h => by
    cases fts with
    | nil => simp [typedF] at h
    | cons a r =>
      obtain ⟨fi, ft⟩ := a
      simp only [typedF, Bool.and_eq_true] at h
      simp [toGoValF, hasTypeL, typed_toGoVal v ft h.1, typed_toGoValF vs r h.2]
end

end TDec
end Codec
end JP
