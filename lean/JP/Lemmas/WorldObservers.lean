import JP.Lemmas.WorldApi

/-!
# The methods of `partialDoc` that mention `keys` agree with the pure model on `PDoc.toNode`

The pure model's `Node.docNil` has no key list; a `PDoc` with a nil map has one (stale).  Each
method of the Go code that mentions `keys` tests `obj == nil` first, so the stale list is
never looked at: the `PDoc` methods (transcribed with their guards) equal the pure model's
container methods on `toNode`.
-/

namespace JP
namespace World

open Impl

theorem PDoc.trustMarshal_eq (esc : Bool) (p : PDoc) :
    p.trustMarshal esc =
      (match p.toNode with
       | .docNil => .err .expectedObject
       | n => .ok (cstOf esc n)) := by
  obtain ⟨keys, obj⟩ := p
  cases obj with
  | none => rfl
  | some o => simp [PDoc.trustMarshal, PDoc.toNode, cstOf]

/-- the final `MarshalEscaped(pd)` of `Apply` on a `partialDoc` root -/
theorem PDoc.marshalRoot_eq (esc : Bool) (p : PDoc) (self : Node) (cr : Bool) :
    marshalRoot esc { con := p.toNode, self := self, selfCR := cr } =
      mapOutcome Cst.print (p.trustMarshal esc) := by
  obtain ⟨keys, obj⟩ := p
  cases obj with
  | none => rfl
  | some o => simp [PDoc.trustMarshal, PDoc.toNode, marshalRoot, mapOutcome, cstOf]

theorem PDoc.set_eq (o : Opts) (p : PDoc) (key : Bytes) (val : Node) :
    mapOutcome PDoc.toNode (p.set key val) = conSet o p.toNode key val := by
  obtain ⟨keys, obj⟩ := p
  cases obj with
  | none => rfl
  | some ob => simp [PDoc.set, PDoc.toNode, conSet, docSet, mapOutcome]

theorem PDoc.add_eq (o : Opts) (p : PDoc) (key : Bytes) (val : Node) :
    mapOutcome PDoc.toNode (p.set key val) = conAdd o p.toNode key val := by
  obtain ⟨keys, obj⟩ := p
  cases obj with
  | none => rfl
  | some ob => simp [PDoc.set, PDoc.toNode, conAdd, docSet, mapOutcome]

theorem PDoc.remove_eq (o : Opts) (p : PDoc) (key : Bytes) :
    mapOutcome PDoc.toNode (p.remove o key) = conRemove o p.toNode key := by
  obtain ⟨keys, obj⟩ := p
  cases obj with
  | none => rfl
  | some ob =>
    simp only [PDoc.remove, PDoc.toNode, conRemove]
    cases lookupN key ob with
    | none => cases o.allow <;> simp [mapOutcome, PDoc.toNode]
    | some n =>
      simp only
      by_cases hc : keys.contains key = true
      · simp only [hc, if_true, mapOutcome, PDoc.toNode]
      · simp only [hc, Bool.false_eq_true, if_false, mapOutcome]

theorem PDoc.get_eq (o : Opts) (self : Node) (p : PDoc) (key : Bytes) :
    p.get self key = conGet o self p.toNode key := by
  obtain ⟨keys, obj⟩ := p
  cases obj with
  | none => simp [PDoc.get, PDoc.toNode, conGet]
  | some ob =>
    simp only [PDoc.get, PDoc.toNode, conGet]
    cases lookupN key ob <;> rfl

/-- two nil-map documents that differ only in their stale keys cannot be told apart by any
method that mentions `keys` -/
theorem stale_keys_unobservable (ks₁ ks₂ : List Bytes) (esc : Bool) (o : Opts) (self : Node) (key : Bytes)
    (val : Node) (patchData : Bytes) (q : PDoc) :
    (PDoc.mk ks₁ none).trustMarshal esc = (PDoc.mk ks₂ none).trustMarshal esc ∧
    (PDoc.mk ks₁ none).set key val = .err .expectedObject ∧
    (PDoc.mk ks₂ none).set key val = .err .expectedObject ∧
    (PDoc.mk ks₁ none).remove o key = .err .expectedObject ∧
    (PDoc.mk ks₂ none).remove o key = .err .expectedObject ∧
    (PDoc.mk ks₁ none).get self key = (PDoc.mk ks₂ none).get self key ∧
    mergeGuard patchData (PDoc.mk ks₁ none) q = some (.err .badDoc) ∧
    (q.obj.isSome → mergeGuard patchData q (PDoc.mk ks₁ none) = some (.ok patchData)) ∧
    (PDoc.mk ks₁ none).toNode = (PDoc.mk ks₂ none).toNode := by
  refine ⟨rfl, rfl, rfl, rfl, rfl, rfl, rfl, ?_, rfl⟩
  intro hq
  obtain ⟨k, ob⟩ := q
  cases ob with
  | none => simp at hq
  | some x => rfl

end World
end JP
