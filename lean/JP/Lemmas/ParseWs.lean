import JP.Lemmas.TextParse
import JP.Lemmas.TextParseFuel
import JP.Props.C16

/-!
# White space around a JSON text is irrelevant to the reference parser

`parseCst (ws₁ ++ a ++ ws₂) = parseCst a` for white-space-only `ws₁`, `ws₂`.

* success direction: a successful `parseValue` is stable under appending a continuation that
  cannot extend a number (`parseValue_append`), more fuel does not change it;
* failure direction: through the scanner (`C16.scanner_iff`, `C16.valid_ws`).
-/

namespace JP

/-- white-space-only text -/
def WsOnly (ws : Bytes) : Prop := ∀ c ∈ ws, isWs c = true

instance (ws : Bytes) : Decidable (WsOnly ws) := by unfold WsOnly; infer_instance

theorem skipWs_wsOnly {ws : Bytes} (h : WsOnly ws) : skipWs ws = [] := by
  induction ws with
  | nil => rfl
  | cons c cs ih =>
    simp only [skipWs, h c (by simp), if_true]
    exact ih (fun c' hc' => h c' (by simp [hc']))

theorem skipWs_ws_append {ws : Bytes} (x : Bytes) (h : WsOnly ws) : skipWs (ws ++ x) = skipWs x := by
  induction ws with
  | nil => rfl
  | cons c cs ih =>
    simp only [List.cons_append, skipWs, h c (by simp), if_true]
    exact ih (fun c' hc' => h c' (by simp [hc']))

theorem skipWs_append_cons : ∀ (x rest : Bytes) (c : UInt8) (r : Bytes), skipWs x = c :: r →
    skipWs (x ++ rest) = c :: (r ++ rest)
  | [], _, _, _, h => by simp [skipWs] at h
  | a :: x, rest, c, r, h => by
    simp only [skipWs] at h
    simp only [List.cons_append, skipWs]
    split at h
    · rename_i ha; rw [if_pos ha]; exact skipWs_append_cons x rest c r h
    · rename_i ha; rw [if_neg ha]
      simp only [List.cons.injEq] at h
      rw [h.1, h.2]

theorem skipWs_append_nil {rest : Bytes} : ∀ (x : Bytes), skipWs x = [] → skipWs (x ++ rest) = skipWs rest
  | [], _ => rfl
  | a :: x, h => by
    simp only [skipWs] at h
    simp only [List.cons_append, skipWs]
    split at h
    · rename_i ha; rw [if_pos ha]; exact skipWs_append_nil x h
    · cases h

theorem isPrefix_split : ∀ (w bs : Bytes), isPrefix w bs = true → ∃ t, bs = w ++ t
  | [], bs, _ => ⟨bs, rfl⟩
  | _ :: _, [], h => by simp [isPrefix] at h
  | a :: w, b :: bs, h => by
    simp only [isPrefix, Bool.and_eq_true, beq_iff_eq] at h
    obtain ⟨t, ht⟩ := isPrefix_split w bs h.2
    exact ⟨t, by rw [h.1, ht]; rfl⟩

theorem parseLit_suffix (w bs rest : Bytes) (q : Cst × Bytes) (h : parseLit w bs = some q) :
    parseLit w (bs ++ rest) = some (q.1, q.2 ++ rest) := by
  simp only [parseLit] at h
  split at h
  · rename_i hp
    obtain ⟨t, rfl⟩ := isPrefix_split w bs hp
    simp only [Option.some.injEq] at h
    subst h
    rw [List.append_assoc, parseLit_append]
    simp
  · cases h

theorem parseElems_nil (f d : Nat) : parseElems f d [] = none := by
  cases f with
  | zero => simp [parseElems]
  | succ f =>
    rw [parseElems]
    cases f with
    | zero => simp [parseValue]
    | succ f => simp [parseValue]

theorem parseMembers_nil (f d : Nat) : parseMembers f d [] = none := by
  cases f with
  | zero => simp [parseMembers]
  | succ f => rw [parseMembers.eq_def]

theorem Option.map_suffix_aux {α β : Type} (g : α × Bytes → β × Bytes) (a b : Option (α × Bytes)) (rest : Bytes)
    (hg : ∀ q, (g (q.1, q.2 ++ rest)) = ((g q).1, (g q).2 ++ rest))
    (hab : ∀ q, a = some q → b = some (q.1, q.2 ++ rest)) (r : β × Bytes) (h : a.map g = some r) :
    b.map g = some (r.1, r.2 ++ rest) := by
  cases a with
  | none => simp at h
  | some q =>
    rw [hab q rfl]
    simp only [Option.map_some, Option.some.injEq] at h ⊢
    rw [hg, h]

/-- a successful parse is stable under appending a continuation (that cannot extend a number when
the parse stopped at the end of the input) -/
theorem parse_suffix_aux (rest : Bytes) : ∀ (f : Nat),
    (∀ d x q, parseValue f d x = some q → (q.2 ≠ [] ∨ numStop rest) →
      parseValue f d (x ++ rest) = some (q.1, q.2 ++ rest)) ∧
    (∀ d x q, parseElems f d x = some q → parseElems f d (x ++ rest) = some (q.1, q.2 ++ rest)) ∧
    (∀ d x q, parseMembers f d x = some q → parseMembers f d (x ++ rest) = some (q.1, q.2 ++ rest))
  | 0 => by
    refine ⟨?_, ?_, ?_⟩
    · intro d x q h; simp [parseValue] at h
    · intro d x q h; simp [parseElems] at h
    · intro d x q h; simp [parseMembers] at h
  | f + 1 => by
    obtain ⟨ihv, ihe, ihm⟩ := parse_suffix_aux rest f
    refine ⟨?_, ?_, ?_⟩
    · intro d x q h hs
      cases x with
      | nil => simp [parseValue] at h
      | cons c cs =>
        rw [List.cons_append]
        rw [parseValue] at h ⊢
        split at h
        · rename_i h123
          split at h
          · simp at h
          · rename_i hdep
            rw [if_pos h123, if_neg hdep]
            split at h
            · rename_i r hsk
              simp only [Option.some.injEq] at h
              subst h
              rw [skipWs_append_cons _ rest _ _ hsk]
              rfl
            · rename_i r hsk
              cases hr : skipWs cs with
              | nil =>
                rw [hr, parseMembers_nil] at h; simp at h
              | cons c' t =>
                rw [skipWs_append_cons _ rest _ _ hr]
                have hne : c' ≠ 125 := by
                  intro hc; subst hc; exact hsk t hr
                rw [hr] at h
                have hm : ∀ q, parseMembers f (d + 1) (c' :: t) = some q →
                    parseMembers f (d + 1) (c' :: (t ++ rest)) = some (q.1, q.2 ++ rest) :=
                  fun q hq => ihm _ _ q hq
                split
                · rename_i r' heq
                  simp only [List.cons.injEq] at heq
                  exact absurd heq.1 hne
                · exact Option.map_suffix_aux _ _ _ rest (fun q => rfl) hm q h
        · rename_i h123
          rw [if_neg h123]
          split at h
          · rename_i h91
            split at h
            · simp at h
            · rename_i hdep
              rw [if_pos h91, if_neg hdep]
              split at h
              · rename_i r hsk
                simp only [Option.some.injEq] at h
                subst h
                rw [skipWs_append_cons _ rest _ _ hsk]
                rfl
              · rename_i r hsk
                cases hr : skipWs cs with
                | nil =>
                  rw [hr, parseElems_nil] at h; simp at h
                | cons c' t =>
                  rw [skipWs_append_cons _ rest _ _ hr]
                  have hne : c' ≠ 93 := by
                    intro hc; subst hc; exact hsk t hr
                  rw [hr] at h
                  have hm : ∀ q, parseElems f (d + 1) (c' :: t) = some q →
                      parseElems f (d + 1) (c' :: (t ++ rest)) = some (q.1, q.2 ++ rest) :=
                    fun q hq => ihe _ _ q hq
                  split
                  · rename_i r' heq
                    simp only [List.cons.injEq] at heq
                    exact absurd heq.1 hne
                  · exact Option.map_suffix_aux _ _ _ rest (fun q => rfl) hm q h
          · rename_i h91
            rw [if_neg h91]
            split at h
            · rename_i h34
              rw [if_pos h34]
              refine Option.map_suffix_aux _ _ _ rest (fun q => rfl) ?_ q h
              intro q' hq'
              exact parseStrBody_append cs rest q'.1 q'.2 hq'
            · rename_i h34
              rw [if_neg h34]
              split at h
              · rename_i h1; rw [if_pos h1]; exact parseLit_suffix _ (c :: cs) rest q h
              · rename_i h1
                rw [if_neg h1]
                split at h
                · rename_i h2; rw [if_pos h2]; exact parseLit_suffix _ (c :: cs) rest q h
                · rename_i h2
                  rw [if_neg h2]
                  split at h
                  · rename_i h3; rw [if_pos h3]; exact parseLit_suffix _ (c :: cs) rest q h
                  · rename_i h3
                    rw [if_neg h3]
                    cases hn : parseNumber (c :: cs) with
                    | none => rw [hn] at h; simp at h
                    | some p =>
                      obtain ⟨l, r⟩ := p
                      rw [hn] at h
                      simp only [Option.map_some, Option.some.injEq] at h
                      subst h
                      have := parseNumber_append (c :: cs) rest l r hn hs
                      rw [List.cons_append] at this
                      rw [this]
                      rfl
    · intro d x q h
      rw [parseElems] at h ⊢
      cases hv : parseValue f d x with
      | none => rw [hv] at h; simp at h
      | some p =>
        obtain ⟨v, r1⟩ := p
        rw [hv] at h
        simp only at h
        cases hr : skipWs r1 with
        | nil => rw [hr] at h; simp at h
        | cons c' t =>
          have hne : r1 ≠ [] := by rintro rfl; simp [skipWs] at hr
          rw [ihv d x (v, r1) hv (Or.inl hne)]
          simp only
          rw [skipWs_append_cons _ rest _ _ hr]
          rw [hr] at h
          split at h
          · rename_i r' heq
            simp only [List.cons.injEq] at heq
            obtain ⟨rfl, rfl⟩ := heq
            simp only [Option.some.injEq] at h
            subst h
            rfl
          · rename_i r' heq
            simp only [List.cons.injEq] at heq
            obtain ⟨rfl, rfl⟩ := heq
            simp only
            cases hr2 : skipWs t with
            | nil => rw [hr2, parseElems_nil] at h; simp at h
            | cons c2 t2 =>
              rw [skipWs_append_cons _ rest _ _ hr2]
              rw [hr2] at h
              exact Option.map_suffix_aux _ _ _ rest (fun q => rfl) (fun q hq => ihe _ _ q hq) q h
          · simp at h
    · intro d x q h
      rw [parseMembers.eq_def] at h ⊢
      simp only at h ⊢
      cases x with
      | nil => simp at h
      | cons c cs =>
        rw [List.cons_append]
        split at h
        · rename_i cs' heq
          simp only [List.cons.injEq] at heq
          obtain ⟨rfl, rfl⟩ := heq
          simp only
          cases hk : parseStrBody cs with
          | none => rw [hk] at h; simp at h
          | some p =>
            obtain ⟨k, r1⟩ := p
            rw [hk] at h
            rw [parseStrBody_append cs rest k r1 hk]
            simp only at h ⊢
            cases hr : skipWs r1 with
            | nil => rw [hr] at h; simp at h
            | cons c1 t1 =>
              rw [skipWs_append_cons _ rest _ _ hr]
              rw [hr] at h
              split at h
              · rename_i r2 heq
                simp only [List.cons.injEq] at heq
                obtain ⟨rfl, rfl⟩ := heq
                simp only
                cases hv : parseValue f d (skipWs t1) with
                | none => rw [hv] at h; simp at h
                | some p =>
                  obtain ⟨v, r3⟩ := p
                  rw [hv] at h
                  simp only at h
                  cases hr3 : skipWs r3 with
                  | nil => rw [hr3] at h; simp at h
                  | cons c3 t3 =>
                    have hne : r3 ≠ [] := by rintro rfl; simp [skipWs] at hr3
                    cases hr1 : skipWs t1 with
                    | nil =>
                      rw [hr1] at hv
                      cases f <;> simp [parseValue] at hv
                    | cons c4 t4 =>
                      rw [skipWs_append_cons _ rest _ _ hr1]
                      rw [hr1] at hv
                      have := ihv d _ (v, r3) hv (Or.inl hne)
                      rw [List.cons_append] at this
                      rw [this]
                      simp only
                      rw [skipWs_append_cons _ rest _ _ hr3]
                      rw [hr3] at h
                      split at h
                      · rename_i r' heq
                        simp only [List.cons.injEq] at heq
                        obtain ⟨rfl, rfl⟩ := heq
                        simp only [Option.some.injEq] at h
                        subst h
                        rfl
                      · rename_i r' heq
                        simp only [List.cons.injEq] at heq
                        obtain ⟨rfl, rfl⟩ := heq
                        simp only
                        cases hr5 : skipWs t3 with
                        | nil => rw [hr5, parseMembers_nil] at h; simp at h
                        | cons c5 t5 =>
                          rw [skipWs_append_cons _ rest _ _ hr5]
                          rw [hr5] at h
                          exact Option.map_suffix_aux _ _ _ rest (fun q => rfl) (fun q hq => ihm _ _ q hq) q h
                      · simp at h
              · simp at h
        · simp at h

theorem parseValue_append (f d : Nat) (x rest : Bytes) (c : Cst) (r : Bytes)
    (h : parseValue f d x = some (c, r)) (hs : r ≠ [] ∨ numStop rest) :
    parseValue f d (x ++ rest) = some (c, r ++ rest) :=
  (parse_suffix_aux rest f).1 d x (c, r) h hs

/-- success direction -/
theorem parseCst_ws_of_some (ws₁ a ws₂ : Bytes) (h₁ : WsOnly ws₁) (h₂ : WsOnly ws₂) (c : Cst)
    (h : parseCst a = some c) : parseCst (ws₁ ++ a ++ ws₂) = some c := by
  unfold parseCst at h ⊢
  cases hv : parseValue (a.length + 1) 0 (skipWs a) with
  | none => rw [hv] at h; cases h
  | some p =>
    obtain ⟨c', r⟩ := p
    rw [hv] at h
    simp only at h
    split at h
    · rename_i hr
      simp only [Option.some.injEq] at h
      subst h
      have hrn : skipWs r = [] := by simpa using hr
      cases hsa : skipWs a with
      | nil => rw [hsa] at hv; simp [parseValue] at hv
      | cons c0 t0 =>
        rw [List.append_assoc, skipWs_ws_append _ h₁, skipWs_append_cons _ ws₂ _ _ hsa]
        rw [hsa] at hv
        have h1 := parseValue_append _ _ _ ws₂ _ _ hv (Or.inr (numStop_of_skipWs_nil ws₂ (skipWs_wsOnly h₂)))
        have h2 := parseValue_fuel_mono (a.length + 1) ((ws₁ ++ (a ++ ws₂)).length + 1) 0 _ _
          (by simp only [List.length_append]; omega) h1
        rw [List.cons_append] at h2
        rw [h2]
        simp only
        rw [skipWs_append_nil r hrn, skipWs_wsOnly h₂]
        rfl
    · cases h

/-- **white space (space, tab, CR, LF) before and after a text is irrelevant to the reference
parser** -/
theorem parseCst_ws (ws₁ a ws₂ : Bytes) (h₁ : WsOnly ws₁) (h₂ : WsOnly ws₂) :
    parseCst (ws₁ ++ a ++ ws₂) = parseCst a := by
  cases h : parseCst a with
  | some c => exact parseCst_ws_of_some ws₁ a ws₂ h₁ h₂ c h
  | none =>
    have hv : Scanner.valid (ws₁ ++ a ++ ws₂) = Scanner.valid a := C16.valid_ws ws₁ a ws₂ h₁ h₂
    have h1 : Scanner.valid a = false := by
      cases hx : Scanner.valid a with
      | false => rfl
      | true => have := (C16.scanner_iff a).1 hx; rw [h] at this; cases this
    rw [h1] at hv
    cases h2 : parseCst (ws₁ ++ a ++ ws₂) with
    | none => rfl
    | some c =>
      have := (C16.scanner_iff (ws₁ ++ a ++ ws₂)).2 (by rw [h2]; rfl)
      rw [hv] at this; cases this

theorem parseValueOf_ws (ws₁ a ws₂ : Bytes) (h₁ : WsOnly ws₁) (h₂ : WsOnly ws₂) :
    parseValueOf (ws₁ ++ a ++ ws₂) = parseValueOf a := by
  simp only [parseValueOf, parseCst_ws ws₁ a ws₂ h₁ h₂]

end JP
