import JP.World.Conc
import JP.Lemmas.WorldApi

/-!
# The interleaving semantics preserves `Sat` of every thread and the pool invariant
-/

namespace JP
namespace World

/-- pointwise relation between two lists of the same length -/
inductive All2 {α β : Type} (R : α → β → Prop) : List α → List β → Prop
  | nil : All2 R [] []
  | cons {a : α} {b : β} {l : List α} {r : List β} : R a b → All2 R l r → All2 R (a :: l) (b :: r)

theorem forall2_get {α β : Type} {R : α → β → Prop} {l : List α} {r : List β} (h : All2 R l r)
    {i : Nat} {a : α} (ha : l[i]? = some a) : ∃ b, r[i]? = some b ∧ R a b := by
  induction h generalizing i with
  | nil => simp at ha
  | cons hab _ ih =>
    cases i with
    | zero => simp at ha; subst ha; exact ⟨_, rfl, hab⟩
    | succ n => simp at ha; simpa using ih ha

theorem forall2_set {α β : Type} {R : α → β → Prop} {l : List α} {r : List β} (h : All2 R l r)
    {i : Nat} {a' : α} (hR : ∀ b, r[i]? = some b → R a' b) : All2 R (l.set i a') r := by
  induction h generalizing i with
  | nil => exact .nil
  | cons hab hrest ih =>
    cases i with
    | zero => exact .cons (hR _ rfl) hrest
    | succ n => exact .cons hab (ih fun b hb => hR b (by simpa using hb))

/-- the invariant of a system: pooled objects satisfy the pool invariants, and every thread's
remaining program still satisfies its specification -/
structure SysInv {α : Type} (S : Sys α) (Qs : List (α → Prop)) : Prop where
  pools : S.pools.Inv
  threads : All2 (fun p Q => ∃ a b c, SatI Q p a b c) S.threads Qs

theorem mem_of_mem_eraseIdx' {α : Type} {l : List α} {j : Nat} {a : α} (h : a ∈ l.eraseIdx j) : a ∈ l :=
  List.mem_of_mem_eraseIdx h

theorem Step.preserves {α : Type} {S S' : Sys α} {Qs : List (α → Prop)} (hs : Step S S') (hI : SysInv S Qs) :
    SysInv S' Qs := by
  obtain ⟨hP, hT⟩ := hI
  cases hs with
  | getDecPooled i j hi hj =>
    obtain ⟨Q, hQ, a, b, c, hsat⟩ := forall2_get hT hi
    have hsInv := hP.1 _ (List.mem_of_getElem? hj)
    refine ⟨⟨fun d hd => hP.1 d (mem_of_mem_eraseIdx' hd), hP.2⟩, forall2_set hT fun b hb => ?_⟩
    rw [hQ] at hb; cases hb
    cases hsat with
    | getDec hk => exact ⟨_, _, _, hk _ hsInv⟩
  | getDecFresh i hi =>
    obtain ⟨Q, hQ, a, b, c, hsat⟩ := forall2_get hT hi
    refine ⟨hP, forall2_set hT fun b hb => ?_⟩
    rw [hQ] at hb; cases hb
    cases hsat with
    | getDec hk => exact ⟨_, _, _, hk _ rfl⟩
  | putDec i hi =>
    obtain ⟨Q, hQ, a, b, c, hsat⟩ := forall2_get hT hi
    cases hsat with
    | putDec hsInv hk =>
      refine ⟨⟨fun d hd => ?_, hP.2⟩, forall2_set hT fun b hb => ?_⟩
      · cases hd with
        | head => exact hsInv
        | tail _ hd' => exact hP.1 d hd'
      · rw [hQ] at hb; cases hb; exact ⟨_, _, _, hk⟩
  | getEncPooled i j hi hj =>
    obtain ⟨Q, hQ, a, b, c, hsat⟩ := forall2_get hT hi
    have hsInv := hP.2 _ (List.mem_of_getElem? hj)
    refine ⟨⟨hP.1, fun d hd => hP.2 d (mem_of_mem_eraseIdx' hd)⟩, forall2_set hT fun b hb => ?_⟩
    rw [hQ] at hb; cases hb
    cases hsat with
    | getEnc hk => exact ⟨_, _, _, hk _ hsInv⟩
  | getEncFresh i hi =>
    obtain ⟨Q, hQ, a, b, c, hsat⟩ := forall2_get hT hi
    refine ⟨hP, forall2_set hT fun b hb => ?_⟩
    rw [hQ] at hb; cases hb
    cases hsat with
    | getEnc hk => exact ⟨_, _, _, hk _ rfl⟩
  | putEnc i hi =>
    obtain ⟨Q, hQ, a, b, c, hsat⟩ := forall2_get hT hi
    cases hsat with
    | putEnc hsInv hk =>
      refine ⟨⟨hP.1, fun d hd => ?_⟩, forall2_set hT fun b hb => ?_⟩
      · cases hd with
        | head => exact hsInv
        | tail _ hd' => exact hP.2 d hd'
      · rw [hQ] at hb; cases hb; exact ⟨_, _, _, hk⟩
  | getScanPooled i j hi hj =>
    obtain ⟨Q, hQ, a, b, c, hsat⟩ := forall2_get hT hi
    refine ⟨hP, forall2_set hT fun b hb => ?_⟩
    rw [hQ] at hb; cases hb
    cases hsat with
    | getScan hk => exact ⟨_, _, _, hk _⟩
  | getScanFresh i hi =>
    obtain ⟨Q, hQ, a, b, c, hsat⟩ := forall2_get hT hi
    refine ⟨hP, forall2_set hT fun b hb => ?_⟩
    rw [hQ] at hb; cases hb
    cases hsat with
    | getScan hk => exact ⟨_, _, _, hk _⟩
  | putScan i hi =>
    obtain ⟨Q, hQ, a, b, c, hsat⟩ := forall2_get hT hi
    refine ⟨hP, forall2_set hT fun b hb => ?_⟩
    rw [hQ] at hb; cases hb
    cases hsat with
    | putScan hk => exact ⟨_, _, _, hk⟩
  | cache i hi =>
    obtain ⟨Q, hQ, a, b, c, hsat⟩ := forall2_get hT hi
    refine ⟨hP, forall2_set hT fun b hb => ?_⟩
    rw [hQ] at hb; cases hb
    cases hsat with
    | cache hk => exact ⟨_, _, _, hk⟩
  | tau i hi =>
    obtain ⟨Q, hQ, a, b, c, hsat⟩ := forall2_get hT hi
    refine ⟨hP, forall2_set hT fun b hb => ?_⟩
    rw [hQ] at hb; cases hb
    cases hsat with
    | tau hk => exact ⟨_, _, _, hk⟩
  | dropDec j => exact ⟨⟨fun d hd => hP.1 d (mem_of_mem_eraseIdx' hd), hP.2⟩, hT⟩
  | dropEnc j => exact ⟨⟨hP.1, fun d hd => hP.2 d (mem_of_mem_eraseIdx' hd)⟩, hT⟩
  | dropScan j => exact ⟨hP, hT⟩

theorem Steps.preserves {α : Type} {S S' : Sys α} {Qs : List (α → Prop)} (hs : Steps S S') (hI : SysInv S Qs) :
    SysInv S' Qs := by
  induction hs with
  | refl => exact hI
  | step h _ ih => exact ih (h.preserves hI)

/-- a finished thread holds a value satisfying its specification -/
theorem SysInv.result {α : Type} {S : Sys α} {Qs : List (α → Prop)} (hI : SysInv S Qs) {i : Nat} {a : α}
    (ha : S.threads[i]? = some (.ret a)) : ∃ Q, Qs[i]? = some Q ∧ Q a := by
  obtain ⟨Q, hQ, a, b, c, hsat⟩ := forall2_get hI.threads ha
  cases hsat with
  | ret hq => exact ⟨Q, hQ, hq⟩

theorem seqP_sat (cs : List Call) : Sat (seqP cs) (· = cs.map Call.pure) := by
  induction cs with
  | nil => exact .ret rfl
  | cons c cs ih =>
    refine (Call.prog_sat c).bind fun r hr => ?_
    refine ih.bind fun rs hrs => ?_
    subst hr hrs
    exact .ret rfl

theorem forall2_map_sat (scripts : List (List Call)) :
    All2 (fun p Q => ∃ a b c, SatI Q p a b c) (scripts.map seqP)
      (scripts.map fun cs => fun rs => rs = cs.map Call.pure) := by
  induction scripts with
  | nil => exact .nil
  | cons cs rest ih => exact .cons ⟨0, 0, 0, seqP_sat cs⟩ ih

/-- the deterministic scheduler only takes steps of the semantics -/
theorem stepThread_steps {α : Type} (S : Sys α) (i : Nat) (S' : Sys α) (h : stepThread S i = some S') :
    Step S S' := by
  obtain ⟨P, ts⟩ := S
  unfold stepThread at h
  simp only at h
  cases hi : ts[i]? with
  | none => simp [hi] at h
  | some p =>
    rw [hi] at h
    cases p with
    | ret a => simp at h
    | getDec k =>
      cases hd : P.dec with
      | nil =>
        simp only [hd] at h
        cases h
        exact .getDecFresh i hi
      | cons s rest =>
        simp only [hd] at h
        cases h
        have := Step.getDecPooled (P := P) i 0 (s := s) hi (by simp [hd])
        simpa [hd] using this
    | putDec s k => simp only at h; cases h; exact .putDec i hi
    | getEnc k =>
      cases hd : P.enc with
      | nil =>
        simp only [hd] at h
        cases h
        exact .getEncFresh i hi
      | cons s rest =>
        simp only [hd] at h
        cases h
        have := Step.getEncPooled (P := P) i 0 (s := s) hi (by simp [hd])
        simpa [hd] using this
    | putEnc s k => simp only at h; cases h; exact .putEnc i hi
    | getScan k =>
      cases hd : P.scan with
      | nil =>
        simp only [hd] at h
        cases h
        exact .getScanFresh i hi
      | cons s rest =>
        simp only [hd] at h
        cases h
        have := Step.getScanPooled (P := P) i 0 (s := s) hi (by simp [hd])
        simpa [hd] using this
    | putScan s k => simp only at h; cases h; exact .putScan i hi
    | cache key k => simp only at h; cases h; exact .cache i hi
    | tau k => simp only at h; cases h; exact .tau i hi

theorem runSchedule_steps {α : Type} (S : Sys α) (sched : List Nat) : Steps S (runSchedule S sched) := by
  induction sched generalizing S with
  | nil => exact .refl S
  | cons i is ih =>
    unfold runSchedule
    cases h : stepThread S i with
    | none => simpa using ih S
    | some S' => exact .step (stepThread_steps S i S' h) (by simpa using ih S')

end World
end JP
