import JP.Lemmas.TypedDecTyped3

set_option linter.unusedSimpArgs false

/-!
# Type preservation, part 4: slices, arrays, maps, and the induction over `value` / `array` / `object`
-/

namespace JP
namespace Codec
namespace TDec

open Scanner
open JP.Codec.Typed

theorem growSlice_typed (e : GoType) (xs spare : List DV) (i : Nat) (hx : typedAll e xs = true) (hs : typedAll e spare = true) :
    typedAll e (growSlice e xs spare i).1 = true ∧ typedAll e (growSlice e xs spare i).2 = true := by
  simp only [growSlice]
  have hs1 : typedAll e (if i ≥ xs.length + spare.length then
      List.replicate ((if xs.length + spare.length + (xs.length + spare.length) / 2 < 4 then 4
        else xs.length + spare.length + (xs.length + spare.length) / 2) - xs.length) (zeroDV e) else spare) = true := by
    split
    · exact typedAll_replicate e _ (zero_typed e) _
    · exact hs
  generalize (if i ≥ xs.length + spare.length then
      List.replicate ((if xs.length + spare.length + (xs.length + spare.length) / 2 < 4 then 4
        else xs.length + spare.length + (xs.length + spare.length) / 2) - xs.length) (zeroDV e) else spare) = sp1 at hs1
  have hall : typedAll e (xs ++ sp1) = true := by rw [typedAll_append, hx, hs1]; rfl
  split
  · exact ⟨typedAll_take e _ _ hall, typedAll_drop e _ _ hall⟩
  · exact ⟨hx, hs1⟩

theorem finishSlice_typed (e : GoType) (xs spare : List DV) (i : Nat) (hx : typedAll e xs = true) (hs : typedAll e spare = true) :
    DV.typed (.slice e) (finishSlice xs spare i) = true := by
  simp only [finishSlice]
  split
  · simp [DV.typed, typedAll]
  · split
    · simp [DV.typed, typedAll_take e xs i hx, typedAll_append, typedAll_drop e xs i hx, hs]
    · simp [DV.typed, hx, hs]

theorem finishArray_typed (e : GoType) (n : Nat) (xs : List DV) (i : Nat) (hx : typedAll e xs = true) (hl : xs.length = n) :
    DV.typed (.array n e) (finishArray e xs i) = true := by
  simp only [finishArray]
  split
  · rename_i hi
    have : (List.take i xs ++ List.replicate (xs.length - i) (zeroDV e)).length = n := by
      simp [List.length_take]; omega
    simp [DV.typed, this, typedAll_append, typedAll_take e xs i hx, typedAll_replicate e _ (zero_typed e)]
  · simp [DV.typed, hx, hl]

theorem elemStep_typed (val : GoType → DV → Bool → DState → R DV) (e : GoType)
    (hval : ∀ cur cs d, DV.typed e cur = true → R.All (fun w => DV.typed e w = true) (val e cur cs d))
    (xs : List DV) (i : Nat) (d : DState) (hx : typedAll e xs = true) :
    R.All (fun xs' => typedAll e xs' = true ∧ xs'.length = xs.length) (elemStep val e xs i d) := by
  simp only [elemStep]
  cases hg : xs[i]? with
  | none =>
    simp only []
    rw [R.All_map]
    cases valueSkip d <;> simp [R.All, hx]
  | some x =>
    simp only []
    rw [R.All_map]
    refine R.All_mono _ _ ?_ _ (hval x true d (typedAll_get e xs i x hx hg))
    intro a ha
    exact ⟨typedAll_set e a ha xs i hx, by simp⟩

/-! ### maps -/

theorem mem_setKey_keys (k : MapKey) (v : DV) (x : MapKey) : ∀ ms : List (MapKey × DV),
    x ∈ (setKey k v ms).map Prod.fst ↔ (x ∈ ms.map Prod.fst ∨ x = k)
  | [] => by simp [setKey]
  | (k', v') :: ms => by
    by_cases hk : k' = k
    · subst hk
      simp only [setKey, if_true, List.map_cons, List.mem_cons]
      constructor
      · intro h; rcases h with h | h
        · exact .inr h
        · exact .inl (.inr h)
      · intro h; rcases h with (h | h) | h
        · exact .inl h
        · exact .inr h
        · exact .inl h
    · simp only [setKey, hk, if_false, List.map_cons, List.mem_cons, mem_setKey_keys k v x ms, or_assoc]

theorem setKey_distinct (k : MapKey) (v : DV) : ∀ ms : List (MapKey × DV), distinctKeys (ms.map Prod.fst) = true →
    distinctKeys ((setKey k v ms).map Prod.fst) = true
  | [], _ => by simp [setKey, distinctKeys]
  | (k', v') :: ms, h => by
    simp only [List.map_cons, distinctKeys, Bool.and_eq_true, Bool.not_eq_true', List.contains_eq_mem,
      decide_eq_false_iff_not] at h
    by_cases hk : k' = k
    · subst hk
      simp [setKey, distinctKeys, h.1, h.2]
    · have hne : ¬ (k' ∈ (setKey k v ms).map Prod.fst) := by
        rw [mem_setKey_keys]; intro hh; rcases hh with hh | hh
        · exact h.1 hh
        · exact hk hh
      simp only [setKey, hk, if_false, List.map_cons, distinctKeys, Bool.and_eq_true, Bool.not_eq_true',
        List.contains_eq_mem, decide_eq_false_iff_not]
      exact ⟨hne, setKey_distinct k v ms h.2⟩

theorem setKey_typedM (kt : KeyType) (e : GoType) (k : MapKey) (v : DV) (hk : k.hasType kt = true) (hv : DV.typed e v = true) :
    ∀ ms : List (MapKey × DV), typedM kt e ms = true → typedM kt e (setKey k v ms) = true
  | [], _ => by simp [setKey, typedM, hk, hv]
  | (k', v') :: ms, h => by
    simp only [typedM, Bool.and_eq_true] at h
    by_cases hkk : k' = k
    · simp [setKey, hkk, typedM, hk, hv, h.2]
    · simp [setKey, hkk, typedM, h.1.1, h.1.2, setKey_typedM kt e k v hk hv ms h.2]

theorem mapKeyOf_typed (kt : KeyType) (key : Bytes) (k : MapKey) (h : mapKeyOf kt key = some k) : k.hasType kt = true := by
  cases kt with
  | str => simp [mapKeyOf] at h; subst h; rfl
  | int ik =>
    simp only [mapKeyOf] at h
    cases hp : parseInt64 key with
    | none => simp [hp] at h
    | some n =>
      simp only [hp] at h
      by_cases hr : ik.inRange n = true
      · simp [hr] at h; subst h; simpa [MapKey.hasType] using hr
      · simp [hr] at h
  | uint uk =>
    simp only [mapKeyOf] at h
    cases hp : parseUint64 key with
    | none => simp [hp] at h
    | some n =>
      simp only [hp] at h
      by_cases hr : uk.inRange n = true
      · simp [hr] at h; subst h; simpa [MapKey.hasType] using hr
      · simp [hr] at h

theorem storeEntry_typed (kt : KeyType) (e : GoType) (key : Bytes) (start : Nat) (v : DV) (ms : List (MapKey × DV)) (d : DState)
    (hd : distinctKeys (ms.map Prod.fst) = true) (hm : typedM kt e ms = true) (hv : DV.typed e v = true) :
    distinctKeys ((storeEntry kt key start v ms d).2.map Prod.fst) = true ∧ typedM kt e (storeEntry kt key start v ms d).2 = true := by
  simp only [storeEntry]
  cases hk : mapKeyOf kt key with
  | none => exact ⟨hd, hm⟩
  | some k => exact ⟨setKey_distinct k v ms hd, setKey_typedM kt e k v (mapKeyOf_typed kt key k hk) hv ms hm⟩

/-! ### the induction -/

def TV (G : Nat) : Prop := ∀ t cur cs d, DV.typed t cur = true → R.All (fun w => DV.typed t w = true) (value G t cur cs d)
def TA (G : Nat) : Prop := ∀ t cur cs d, DV.typed t cur = true → R.All (fun w => DV.typed t w = true) (array G t cur cs d)
def TO (G : Nat) : Prop := ∀ t cur cs d, DV.typed t cur = true → R.All (fun w => DV.typed t w = true) (object G t cur cs d)
def TAL (G : Nat) : Prop := ∀ isSlice e xs spare i d, typedAll e xs = true → typedAll e spare = true →
  R.All (fun r => typedAll e r.1 = true ∧ typedAll e r.2.1 = true ∧ (isSlice = false → r.1.length = xs.length))
    (arrLoop G isSlice e xs spare i d)
def TML (G : Nat) : Prop := ∀ kt e ms keys d, distinctKeys (ms.map Prod.fst) = true → typedM kt e ms = true →
  R.All (fun r => distinctKeys (r.1.map Prod.fst) = true ∧ typedM kt e r.1 = true) (mapLoop G kt e ms keys d)
def TSL (G : Nat) : Prop := ∀ t flds cur d, DV.typed t cur = true → R.All (fun w => DV.typed t w = true) (structLoop G t flds cur d)

theorem tv_step (G : Nat) (hA : TA G) (hO : TO G) : TV (G + 1) := by
  intro t cur cs d h
  simp only [value]
  split
  · have := hA t cur cs d h
    cases hc : array G t cur cs d <;> simp_all [R.All]
  · split
    · have := hO t cur cs d h
      cases hc : object G t cur cs d <;> simp_all [R.All]
    · split
      · cases rescanLiteral d with
        | panic => trivial
        | fuel => trivial
        | ok d1 =>
          simp only []
          cases slice? d1.data d.readIndex d1.readIndex with
          | none => trivial
          | some item => exact literalStore_typed item t cur cs false d1 h
      · trivial

theorem typeErrorSkip_typed (k : JKind) (t : GoType) (v : DV) (d : DState) (h : DV.typed t v = true) :
    R.All (fun w => DV.typed t w = true) (typeErrorSkip k v d) := by
  simp only [typeErrorSkip]
  cases skip (d.saveError (.typeError k d.off)) <;> simp [R.All, h]

theorem sliceParts_typed (e : GoType) (bv : DV) (h : DV.typed (.slice e) bv = true) :
    typedAll e (sliceXs bv) = true ∧ typedAll e (sliceSpare bv) = true := by
  cases bv <;> simp_all [DV.typed, sliceXs, sliceSpare, typedAll]

theorem arrParts_typed (n : Nat) (e : GoType) (bv : DV) (h : DV.typed (.array n e) bv = true) :
    typedAll e (arrXs bv) = true ∧ (arrXs bv).length = n := by
  cases bv <;> simp_all [DV.typed, arrXs, typedAll, GoType.nilable]

theorem mapParts_typed (kt : KeyType) (e : GoType) (bv : DV) (h : DV.typed (.map kt e) bv = true) :
    distinctKeys ((mapMs bv).map Prod.fst) = true ∧ typedM kt e (mapMs bv) = true := by
  cases bv <;> simp_all [DV.typed, mapMs, typedM, distinctKeys]

theorem ta_step (G : Nat) (hAL : TAL G) : TA (G + 1) := by
  intro t cur cs d h
  simp only [array]
  split
  · trivial
  · have hb := derefV_typed t cur h
    generalize derefV t cur = bv at hb
    have hw := rewrap_typed t
    generalize hbt : derefT t = bt at hb hw
    cases bt with
    | iface =>
      simp only []
      cases hc : arrayInterface G d [] with
      | ok p => obtain ⟨d1, vs⟩ := p; exact hw _ (arrayInterface_typed G d d1 vs hc)
      | panic => trivial
      | fuel => trivial
    | slice e =>
      simp only []
      obtain ⟨h1, h2⟩ := sliceParts_typed e bv hb
      have := hAL true e (sliceXs bv) (sliceSpare bv) 0 d h1 h2
      cases hc : arrLoop G true e (sliceXs bv) (sliceSpare bv) 0 d with
      | ok d1 r => rw [hc] at this; exact hw _ (finishSlice_typed e _ _ _ this.1 this.2.1)
      | abort d1 r err => rw [hc] at this; exact hw _ (by simp [DV.typed, this.1, this.2.1])
      | panic => trivial
      | fuel => trivial
    | array n e =>
      simp only []
      obtain ⟨h1, h2⟩ := arrParts_typed n e bv hb
      have := hAL false e (arrXs bv) [] 0 d h1 rfl
      cases hc : arrLoop G false e (arrXs bv) [] 0 d with
      | ok d1 r => rw [hc] at this; exact hw _ (finishArray_typed e n _ _ this.1 (by rw [this.2.2 rfl, h2]))
      | abort d1 r err =>
        rw [hc] at this
        exact hw _ (by simp [DV.typed, this.1, this.2.2 rfl, h2])
      | panic => trivial
      | fuel => trivial
    | _ => exact typeErrorSkip_typed _ t _ d (hw _ hb)

theorem tal_step (G : Nat) (hV : TV G) (hAL : TAL G) : TAL (G + 1) := by
  intro isSlice e xs spare i d hx hs
  simp only [arrLoop]
  split
  · exact ⟨hx, hs, fun _ => rfl⟩
  · have hg : typedAll e (if isSlice = true then growSlice e xs spare i else (xs, spare)).1 = true ∧
        typedAll e (if isSlice = true then growSlice e xs spare i else (xs, spare)).2 = true ∧
        (isSlice = false → (if isSlice = true then growSlice e xs spare i else (xs, spare)).1.length = xs.length) := by
      cases isSlice with
      | true => exact ⟨(growSlice_typed e xs spare i hx hs).1, (growSlice_typed e xs spare i hx hs).2, fun hh => by cases hh⟩
      | false => exact ⟨hx, hs, fun _ => rfl⟩
    generalize (if isSlice = true then growSlice e xs spare i else (xs, spare)) = g at hg
    have := elemStep_typed (value G) e (fun cur cs d h => hV e cur cs d h) g.1 i (scanWhile scanSkipSpace d) hg.1
    cases hc : elemStep (value G) e g.1 i (scanWhile scanSkipSpace d) with
    | panic => trivial
    | fuel => trivial
    | abort d2 xs2 err =>
      rw [hc] at this
      exact ⟨this.1, hg.2.1, fun hh => by rw [this.2, hg.2.2 hh]⟩
    | ok d2 xs2 =>
      rw [hc] at this
      simp only []
      split
      · exact ⟨this.1, hg.2.1, fun hh => by rw [this.2, hg.2.2 hh]⟩
      · split
        · trivial
        · refine R.All_mono _ _ ?_ _ (hAL isSlice e xs2 g.2 (i + 1) (skipSpaceIf d2) this.1 hg.2.1)
          intro r hr
          exact ⟨hr.1, hr.2.1, fun hh => by rw [hr.2.2 hh, this.2, hg.2.2 hh]⟩

theorem to_step (G : Nat) (hML : TML G) (hSL : TSL G) : TO (G + 1) := by
  intro t cur cs d h
  simp only [object]
  split
  · trivial
  · have hb := derefV_typed t cur h
    generalize derefV t cur = bv at hb
    have hw := rewrap_typed t
    generalize hbt : derefT t = bt at hb hw
    cases bt with
    | iface =>
      simp only []
      cases hc : objectInterface G d [] with
      | ok p => obtain ⟨d1, m⟩ := p; exact hw _ (objectInterface_typed G d d1 m hc)
      | panic => trivial
      | fuel => trivial
    | map kt e =>
      simp only []
      obtain ⟨h1, h2⟩ := mapParts_typed kt e bv hb
      have := hML kt e (mapMs bv) [] d h1 h2
      cases hc : mapLoop G kt e (mapMs bv) [] d with
      | ok d1 r => rw [hc] at this; exact hw _ (by simp [DV.typed, this.1, this.2])
      | abort d1 r err => rw [hc] at this; exact hw _ (by simp [DV.typed, this.1, this.2])
      | panic => trivial
      | fuel => trivial
    | struct n fs =>
      simp only []
      rw [R.All_map]
      exact R.All_mono _ _ (fun a ha => hw a ha) _ (hSL (.struct n fs) _ bv d hb)
    | _ => exact typeErrorSkip_typed _ t _ d (hw _ hb)

theorem tml_step (G : Nat) (hV : TV G) (hML : TML G) : TML (G + 1) := by
  intro kt e ms keys d hd hm
  simp only [mapLoop]
  split
  · exact ⟨hd, hm⟩
  · split
    · trivial
    · cases readKey (scanWhile scanSkipSpace d) with
      | panic => trivial
      | fuel => trivial
      | ok p =>
        obtain ⟨d4, key, start⟩ := p
        simp only []
        have := hV e (zeroDV e) true d4 (zero_typed e)
        cases hc : value G e (zeroDV e) true d4 with
        | panic => trivial
        | fuel => trivial
        | abort d5 v err => exact ⟨hd, hm⟩
        | ok d5 v =>
          rw [hc] at this
          simp only []
          have hs := storeEntry_typed kt e key start v ms d5 hd hm this
          split
          · exact hs
          · split
            · trivial
            · exact hML kt e _ _ _ hs.1 hs.2

theorem tsl_step (G : Nat) (hV : TV G) (hSL : TSL G) : TSL (G + 1) := by
  intro t flds cur d h
  simp only [structLoop]
  split
  · exact h
  · split
    · trivial
    · cases readKey (scanWhile scanSkipSpace d) with
      | panic => trivial
      | fuel => trivial
      | ok p =>
        obtain ⟨d4, key, start⟩ := p
        simp only []
        have hmem : R.All (fun w => DV.typed t w = true) (memberStep (value G) t flds cur key d4) := by
          simp only [memberStep]
          cases findField flds key with
          | none =>
            simp only []
            rw [R.All_map]
            cases valueSkip d4 <;> simp [R.All, h]
          | some f =>
            simp only []
            refine atPath_typed _ _ ?_ f.index t cur true d4 h
            intro t' cur' cs' d' h'
            split
            · exact quotedValue_typed t' cur' cs' d' h'
            · exact hV t' cur' cs' d' h'
        generalize memberStep (value G) t flds cur key d4 = r at hmem
        cases r with
        | panic => trivial
        | fuel => trivial
        | abort d5 v err => exact hmem
        | ok d5 v =>
          simp only []
          split
          · exact hmem
          · split
            · trivial
            · exact hSL t flds v _ hmem

theorem typed_all : ∀ G, TV G ∧ TA G ∧ TO G ∧ TAL G ∧ TML G ∧ TSL G := by
  intro G
  induction G with
  | zero =>
    refine ⟨?_, ?_, ?_, ?_, ?_, ?_⟩
    · intro t cur cs d _; simp [value, R.All]
    · intro t cur cs d _; simp [array, R.All]
    · intro t cur cs d _; simp [object, R.All]
    · intro isSlice e xs spare i d _ _; simp [arrLoop, R.All]
    · intro kt e ms keys d _ _; simp [mapLoop, R.All]
    · intro t flds cur d _; simp [structLoop, R.All]
  | succ G ih =>
    obtain ⟨hV, hA, hO, hAL, hML, hSL⟩ := ih
    exact ⟨tv_step G hA hO, ta_step G hAL, to_step G hML hSL, tal_step G hV hAL, tml_step G hV hML, tsl_step G hV hSL⟩

/-- the value a fresh variable of type `t` holds after `Unmarshal` is a value of type `t` -/
theorem unmarshalTyped_hasType (t : GoType) (text : Bytes) (v : GoVal) (e : Option DErr)
    (h : unmarshalTyped t text = .ok (v, e)) : GoVal.hasType t v = true := by
  simp only [unmarshalTyped] at h
  split at h
  · simp at h; rw [← h.1]; exact typed_toGoVal _ t (zero_typed t)
  · have := (typed_all (fuelFor text)).1 t (zeroDV t) true
      (scanWhile scanSkipSpace { data := text, off := 0, opcode := 0, scan := Scan.init, savedError := none, lastKeys := [] })
      (zero_typed t)
    generalize value (fuelFor text) t (zeroDV t) true
      (scanWhile scanSkipSpace { data := text, off := 0, opcode := 0, scan := Scan.init, savedError := none, lastKeys := [] }) = r at h this
    cases r with
    | ok d w => simp at h; rw [← h.1]; exact typed_toGoVal _ t this
    | abort d w err => simp at h; rw [← h.1]; exact typed_toGoVal _ t this
    | panic => simp at h
    | fuel => simp at h

end TDec
end Codec
end JP
