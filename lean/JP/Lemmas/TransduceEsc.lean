import JP.Lemmas.TransduceWF
import JP.Lemmas.TextClean
import JP.Scanner

/-!
# `HTMLEscape` on a whole text

`htmlEscape 0` is the same function as `escBody`.  On a well-formed text it escapes exactly the
string bodies: the reference parser maps the escaped text to the escaped tree.
-/

namespace JP

open Scanner (compactEmit htmlEscape)

/-! ### `htmlEscape 0 = escBody` -/

theorem compactEmit_plain (c : UInt8) (cs : Bytes) (h1 : ¬ (c = 60 ∨ c = 62 ∨ c = 38))
    (h2 : c = 0xE2 → cs.take 2 ≠ [0x80, 0xA8] ∧ cs.take 2 ≠ [0x80, 0xA9]) :
    compactEmit true c cs = ([c], 0) := by
  simp only [not_or] at h1
  by_cases hE : c = 0xE2
  · obtain ⟨a, b⟩ := h2 hE
    simp [compactEmit, h1.1, h1.2.1, h1.2.2, a, b]
  · simp [compactEmit, h1.1, h1.2.1, h1.2.2, hE]

theorem compactEmit_lt (cs : Bytes) : compactEmit true 60 cs = ([92, 117, 48, 48, 51, 99], 0) := rfl
theorem compactEmit_gt (cs : Bytes) : compactEmit true 62 cs = ([92, 117, 48, 48, 51, 101], 0) := rfl
theorem compactEmit_amp (cs : Bytes) : compactEmit true 38 cs = ([92, 117, 48, 48, 50, 54], 0) := rfl
theorem compactEmit_ls (t : Bytes) :
    compactEmit true 0xE2 (0x80 :: 0xA8 :: t) = ([92, 117, 50, 48, 50, 56], 2) := rfl
theorem compactEmit_ps (t : Bytes) :
    compactEmit true 0xE2 (0x80 :: 0xA9 :: t) = ([92, 117, 50, 48, 50, 57], 2) := rfl

theorem htmlEscape_zero_cons (c : UInt8) (cs : Bytes) :
    htmlEscape 0 (c :: cs) = (compactEmit true c cs).1 ++ htmlEscape (compactEmit true c cs).2 cs := by
  simp [htmlEscape]

theorem htmlEscape_two (a b : UInt8) (t : Bytes) : htmlEscape 2 (a :: b :: t) = htmlEscape 0 t := by
  simp [htmlEscape]

theorem htmlEscape_eq_escBody (bs : Bytes) : htmlEscape 0 bs = escBody bs := by
  induction bs using esc_induction with
  | nil => rfl
  | cons c rest ih1 ih2 =>
    rw [htmlEscape_zero_cons]
    rcases escBody_cases c rest with ⟨hc, _⟩ | ⟨t, rfl, rfl, he⟩ | ⟨t, rfl, rfl, he⟩ | ⟨hn, hE, he⟩
    · rcases hc with rfl | rfl | rfl
      · rw [compactEmit_lt, escBody_lt, ih1]; rfl
      · rw [compactEmit_gt, escBody_gt, ih1]; rfl
      · rw [compactEmit_amp, escBody_amp, ih1]; rfl
    · simp only [List.drop_succ_cons, List.drop_zero] at ih2
      rw [compactEmit_ls, he, htmlEscape_two, ih2]; rfl
    · simp only [List.drop_succ_cons, List.drop_zero] at ih2
      rw [compactEmit_ps, he, htmlEscape_two, ih2]; rfl
    · rw [compactEmit_plain c rest hn hE, he, ih1]; rfl

/-! ### `escBody` and concatenation -/

theorem escBody_append (a : Bytes) (c : UInt8) (r : Bytes) (hc : c.toNat < 0x80) :
    escBody (a ++ c :: r) = escBody a ++ escBody (c :: r) := by
  induction a using esc_induction with
  | nil => rfl
  | cons x a ih1 ih2 =>
    rcases escBody_cases x a with ⟨hx, _⟩ | ⟨t, rfl, rfl, he⟩ | ⟨t, rfl, rfl, he⟩ | ⟨hn, hE, he⟩
    · rcases hx with rfl | rfl | rfl
      · rw [List.cons_append, escBody_lt, escBody_lt, ih1]; rfl
      · rw [List.cons_append, escBody_gt, escBody_gt, ih1]; rfl
      · rw [List.cons_append, escBody_amp, escBody_amp, ih1]; rfl
    · simp only [List.drop_succ_cons, List.drop_zero] at ih2
      rw [he]
      simp only [List.cons_append]
      rw [escBody_ls, ih2]
    · simp only [List.drop_succ_cons, List.drop_zero] at ih2
      rw [he]
      simp only [List.cons_append]
      rw [escBody_ps, ih2]
    · rw [he]
      simp only [List.cons_append]
      rw [← ih1]
      by_cases hx : x = 0xE2
      · subst hx
        exact escBody_E2 _ (take2_append_ne a (c :: r) _ (by decide) hc (hE rfl).1)
          (take2_append_ne a (c :: r) _ (by decide) hc (hE rfl).2)
      · simp only [not_or] at hn
        exact escBody_plain _ _ ⟨hn.1, hn.2.1, hn.2.2, hx⟩

theorem escBody_plain_append (l r : Bytes) (h : ∀ c ∈ l, plainByte c) : escBody (l ++ r) = l ++ escBody r := by
  induction l with
  | nil => rfl
  | cons c l ih =>
    rw [List.cons_append, escBody_plain _ _ (h c (List.mem_cons_self ..)),
      ih (fun x hx => h x (List.mem_cons_of_mem _ hx))]
    rfl

theorem escBody_length (b : Bytes) : b.length ≤ (escBody b).length := by
  induction b using esc_induction with
  | nil => simp [escBody_nil]
  | cons c rest ih1 ih2 =>
    rcases escBody_cases c rest with ⟨_, x, y, he, _⟩ | ⟨t, rfl, rfl, he⟩ | ⟨t, rfl, rfl, he⟩ | ⟨hn, hE, he⟩
    · rw [he]; simp only [List.length_cons]; omega
    · simp only [List.drop_succ_cons, List.drop_zero] at ih2
      rw [he]; simp only [List.length_cons]; omega
    · simp only [List.drop_succ_cons, List.drop_zero] at ih2
      rw [he]; simp only [List.length_cons]; omega
    · rw [he]; simp only [List.length_cons]; omega

/-! ### white space and delimiters -/

theorem isWs_plain (c : UInt8) (h : isWs c = true) : plainByte c := by
  simp only [isWs, Bool.or_eq_true, decide_eq_true_eq] at h
  rcases h with ((rfl | rfl) | rfl) | rfl <;> decide

/-- the head of an escaped text is the head of the text, or a backslash replacing a non-ASCII-safe head -/
theorem escBody_head_cases (c : UInt8) (cs : Bytes) :
    (∃ t, escBody (c :: cs) = c :: t) ∨ (¬ plainByte c ∧ ∃ t, escBody (c :: cs) = 92 :: t) := by
  rcases escBody_cases c cs with ⟨hc, x, y, he, _⟩ | ⟨t, rfl, rfl, he⟩ | ⟨t, rfl, rfl, he⟩ | ⟨hn, hE, he⟩
  · right
    refine ⟨?_, _, he⟩
    rcases hc with rfl | rfl | rfl <;> decide
  · right; exact ⟨by decide, _, he⟩
  · right; exact ⟨by decide, _, he⟩
  · left; exact ⟨_, he⟩

theorem skipWs_escBody (bs : Bytes) : skipWs (escBody bs) = escBody (skipWs bs) := by
  induction bs with
  | nil => rfl
  | cons c cs ih =>
    by_cases hc : isWs c = true
    · rw [escBody_plain _ _ (isWs_plain c hc)]
      simp only [skipWs, hc, if_true]
      exact ih
    · have : skipWs (c :: cs) = c :: cs := by simp [skipWs, hc]
      rw [this]
      rcases escBody_head_cases c cs with ⟨t, ht⟩ | ⟨_, t, ht⟩
      · rw [ht]; simp [skipWs, hc]
      · rw [ht]; simp [skipWs, show isWs 92 = false by decide]

/-- an escaped text starts with a given plain byte only if the text does -/
theorem escBody_eq_cons (l : Bytes) (k : UInt8) (t : Bytes) (hk : k ≠ 92) (h : escBody l = k :: t) :
    ∃ r, l = k :: r :=
  let ⟨r, hr, _⟩ := escBody_head l k t h hk
  ⟨r, hr⟩

/-- what can follow a value: nothing, white space, or `,` `]` `}` -/
def Stop (rest : Bytes) : Prop :=
  ∀ c cs, rest = c :: cs → isWs c = true ∨ c = 44 ∨ c = 93 ∨ c = 125

theorem stop_of_skipWs (r r' : Bytes) (k : UInt8) (hk : k = 44 ∨ k = 93 ∨ k = 125) (h : skipWs r = k :: r') :
    Stop r := by
  intro c cs hr
  subst hr
  by_cases hc : isWs c = true
  · exact .inl hc
  · simp only [skipWs, hc, Bool.false_eq_true, if_false, List.cons.injEq] at h
    rw [h.1]; exact .inr hk

theorem stop_of_skipWs_nil (r : Bytes) (h : skipWs r = []) : Stop r := by
  intro c cs hr
  subst hr
  by_cases hc : isWs c = true
  · exact .inl hc
  · simp [skipWs, hc] at h

theorem stop_plain (c : UInt8) (h : isWs c = true ∨ c = 44 ∨ c = 93 ∨ c = 125) : plainByte c := by
  rcases h with h | rfl | rfl | rfl
  · exact isWs_plain c h
  all_goals decide

theorem stop_numStop (r : Bytes) (h : Stop r) : numStop r := by
  cases r with
  | nil => trivial
  | cons c cs =>
    simp only [numStop]
    rcases h c cs rfl with h | rfl | rfl | rfl
    · simp only [isWs, Bool.or_eq_true, decide_eq_true_eq] at h
      rcases h with ((rfl | rfl) | rfl) | rfl <;> decide
    all_goals decide

theorem stop_escBody (r : Bytes) (h : Stop r) : Stop (escBody r) := by
  cases r with
  | nil => intro c cs hh; simp [escBody_nil] at hh
  | cons c cs =>
    rw [escBody_plain _ _ (stop_plain c (h c cs rfl))]
    intro c' cs' hh
    simp only [List.cons.injEq] at hh
    rw [← hh.1]; exact h c cs rfl

/-! ### the parser on the escaped text -/

theorem escape_str (b : Bytes) : Cst.escape true (.str b) = .str (escBody b) := by simp [Cst.escape]

theorem esc_str_text (cs b rest : Bytes) (h : parseStrBody cs = some (b, rest)) :
    parseStrBody (escBody cs) = some (escBody b, escBody rest) := by
  obtain ⟨hsplit, hvb⟩ := parseStrBody_split cs b rest h
  rw [hsplit, escBody_append b 34 rest (by decide), escBody_plain 34 rest (by decide)]
  exact parseStrBody_valid (escBody b) (escBody rest)
    ((validBody_eq_true_iff _).2 (VB_escBody _ b (Nat.le_refl _) hvb))

theorem esc_all (f : Nat) :
    (∀ d bs c rest, parseValue f d bs = some (c, rest) →
      (Stop rest → parseValue f d (escBody bs) = some (Cst.escape true c, escBody rest))) ∧
    (∀ d bs xs rest, parseElems f d bs = some (xs, rest) →
      xs ≠ [] ∧ parseElems f d (escBody bs) = some (Cst.escapeL true xs, escBody rest)) ∧
    (∀ d bs ms rest, parseMembers f d bs = some (ms, rest) →
      ms ≠ [] ∧ parseMembers f d (escBody bs) = some (Cst.escapeM true ms, escBody rest)) := by
  apply parse_ind
    (PV := fun f d bs c rest => Stop rest → parseValue f d (escBody bs) = some (Cst.escape true c, escBody rest))
    (PE := fun f d bs xs rest => parseElems f d (escBody bs) = some (Cst.escapeL true xs, escBody rest))
    (PM := fun f d bs ms rest => parseMembers f d (escBody bs) = some (Cst.escapeM true ms, escBody rest))
  · -- {}
    intro f d cs r hd hs _
    rw [escBody_plain _ _ (by decide)]
    exact parseValue_obj_nil f d _ (escBody r) hd (by
      rw [skipWs_escBody, hs, escBody_plain _ _ (by decide)])
  · -- object
    intro f d cs ms rest hd hs _ _ ih _
    rw [escBody_plain _ _ (by decide), parseValue_obj_cons f d _ hd, skipWs_escBody, ih]
    · simp [Cst.escape]
    · intro r hr
      rw [skipWs_escBody] at hr
      obtain ⟨r0, h0⟩ := escBody_eq_cons _ 125 r (by decide) hr
      exact hs r0 h0
  · -- []
    intro f d cs r hd hs _
    rw [escBody_plain _ _ (by decide)]
    exact parseValue_arr_nil f d _ (escBody r) hd (by
      rw [skipWs_escBody, hs, escBody_plain _ _ (by decide)])
  · -- array
    intro f d cs xs rest hd hs _ _ ih _
    rw [escBody_plain _ _ (by decide), parseValue_arr_cons f d _ hd, skipWs_escBody, ih]
    · simp [Cst.escape]
    · intro r hr
      rw [skipWs_escBody] at hr
      obtain ⟨r0, h0⟩ := escBody_eq_cons _ 93 r (by decide) hr
      exact hs r0 h0
  · -- string
    intro f d cs b rest h _
    rw [escBody_plain _ _ (by decide), parseValue_str, esc_str_text cs b rest h, escape_str]
    rfl
  · -- true / false / null
    intro f d w rest hw _
    rcases hw with rfl | rfl | rfl
    · rw [escBody_plain_append _ _ (by decide)]
      exact (parseValue_true f d _).trans (parseLit_append (ascii "true") _)
    · rw [escBody_plain_append _ _ (by decide)]
      exact (parseValue_false f d _).trans (parseLit_append (ascii "false") _)
    · rw [escBody_plain_append _ _ (by decide)]
      exact (parseValue_null f d _).trans (parseLit_append (ascii "null") _)
  · -- number
    intro f d c cs l rest _ hp hstop
    obtain ⟨hsplit, hself⟩ := parseNumber_prefix _ _ _ hp
    have hplain : ∀ x ∈ l, plainByte x := fun x hx => (numChar_plain x (parseNumber_chars _ _ _ hp x hx)).1
    obtain ⟨c', t', rfl, hc'⟩ := parseNumber_head l l [] hself
    rw [hsplit, escBody_plain_append _ _ hplain, List.cons_append, parseValue_num f d c' _ hc',
      ← List.cons_append, parseNumber_complete _ _ hself (stop_numStop _ (stop_escBody _ hstop))]
    rfl
  · -- last element
    intro f d bs x r r' _ ih h93
    have h1 := ih (stop_of_skipWs r r' 93 (by simp) h93)
    exact parseElems_last f d _ _ (escBody r') _ h1 (by
      rw [skipWs_escBody, h93, escBody_plain _ _ (by decide)])
  · -- element, more follow
    intro f d bs x r r' xs rest _ ih h44 _ _ ihE
    have h1 := ih (stop_of_skipWs r r' 44 (by simp) h44)
    rw [parseElems_more f d _ _ (escBody r') _ h1 (by
      rw [skipWs_escBody, h44, escBody_plain _ _ (by decide)]), skipWs_escBody, ihE]
    simp [Cst.escapeL]
  · -- last member
    intro f d cs k r r1 v r2 r3 hk h58 _ ih h125
    have h3 := ih (stop_of_skipWs r2 r3 125 (by simp) h125)
    rw [← skipWs_escBody] at h3
    rw [escBody_plain _ _ (by decide)]
    rw [parseMembers_last f d _ (escBody k) (escBody r) (escBody r1) (escBody r2) (escBody r3) _
      (esc_str_text cs k r hk) (by rw [skipWs_escBody, h58, escBody_plain _ _ (by decide)]) h3
      (by rw [skipWs_escBody, h125, escBody_plain _ _ (by decide)])]
    simp [Cst.escapeM]
  · -- member, more follow
    intro f d cs k r r1 v r2 r3 ms rest hk h58 _ ih h44 _ _ ihM
    have h3 := ih (stop_of_skipWs r2 r3 44 (by simp) h44)
    rw [← skipWs_escBody] at h3
    rw [escBody_plain _ _ (by decide)]
    rw [parseMembers_more f d _ (escBody k) (escBody r) (escBody r1) (escBody r2) (escBody r3) _
      (esc_str_text cs k r hk) (by rw [skipWs_escBody, h58, escBody_plain _ _ (by decide)]) h3
      (by rw [skipWs_escBody, h44, escBody_plain _ _ (by decide)]), skipWs_escBody, ihM]
    simp [Cst.escapeM]

/-- the parser maps the escaped text to the escaped tree -/
theorem parseCst_escBody (bs : Bytes) (c : Cst) (h : parseCst bs = some c) :
    parseCst (escBody bs) = some (Cst.escape true c) := by
  obtain ⟨rest, hp, hws⟩ := parseCst_inv bs c h
  have h1 := (esc_all _).1 0 _ c rest hp (stop_of_skipWs_nil rest hws)
  have h2 := parseValue_fuel_mono _ ((escBody bs).length + 1) 0 _ _
    (by have := escBody_length bs; omega) h1
  unfold parseCst
  rw [skipWs_escBody, h2]
  simp only
  rw [skipWs_escBody, hws]
  rfl

end JP
