import JP.Lemmas.LegacyBasic
import JP.Lemmas.LegacyEqual
import JP.Lemmas.EqualEquiv
import JP.Lemmas.EngineSpecFacts

/-!
# Legacy engine against RFC 6902 (C18): definitions

* `isDA`       – a parsed container (`doc` / `ary`): what the root and every container reached
                 by a walk inside the property's domain is;
* `LT`         – the *text* invariant: `copy` re-prints a subtree (`json.Marshal`, HTML escaping
                 on) and `test` compares strings by their spelling, so every string *value*
                 inside a raw message must be fixed by `unquote` and by the HTML escaper
                 (`fixBody`: no escape sequence, none of `<`, `>`, `&`, U+2028, U+2029, valid
                 UTF-8), member names of raw objects must denote the same name after escaping
                 and after re-quoting (`Impl.CstOK true`), names of parsed objects must survive
                 `quoteBody true` / `unquote` (`Impl.QK true`; the standard library's spelling
                 `quoteBodyStd` — `\\b`, `\\f` for `\\u0008`, `\\u000c` — decodes to the same bytes,
                 `JP/Lemmas/LegacyRespell.lean`);
* `Inv`        – `WF ∧ LT`;
* `Sim a b`    – two duplicate-free values equal up to member order;
* `specOp`     – the RFC 6902 operation a decoded legacy operation stands for;
* `listed`     – the failure kinds the property requires to be reported as errors;
* `opDom`      – the decidable side conditions that exclude the deviations of the legacy package
                 from RFC 6902 which the property leaves out.
-/

namespace JP
namespace Legacy

open Value

def isDA : Node → Bool
  | .doc _ => true
  | .ary _ => true
  | _ => false

/-- a string body that both `unquote` and the HTML escaper of `compact` leave unchanged -/
def fixBody (b : Bytes) : Bool := unquote b == b && escBody b == b

mutual
/-- every string value (not: member name) has a `fixBody` -/
def StrFix : Cst → Bool
  | .lit _ => true
  | .str b => fixBody b
  | .arr xs => StrFixL xs
  | .obj ms => StrFixM ms
def StrFixL : List Cst → Bool
  | [] => true
  | x :: xs => StrFix x && StrFixL xs
def StrFixM : List (Bytes × Cst) → Bool
  | [] => true
  | (_, v) :: ms => StrFix v && StrFixM ms
end

/-- the text invariant of a raw message -/
def RawOK (c : Cst) : Bool := Impl.CstOK true c && StrFix c

mutual
def LT : Node → Bool
  | .raw c => RawOK c
  | .doc ob => LTM ob
  | .ary ns => LTL ns
  | _ => true
def LTM : NMembers → Bool
  | [] => true
  | (k, n) :: ms => Impl.QK true k && LT n && LTM ms
def LTL : List Node → Bool
  | [] => true
  | n :: ns => LT n && LTL ns
end

def Inv (n : Node) : Prop := WF n = true ∧ LT n = true

/-- equal up to member order, both sides duplicate-free -/
def Sim (a b : Value) : Prop := a.noDup = true ∧ b.noDup = true ∧ Value.eqv a b = true

/-- the options of the specification the legacy package corresponds to: negative indices follow
the package variable, nothing else is switched on, no copy limit -/
def specOpts (neg : Bool) : Spec.Opts := { neg := neg, allowMissing := false, ensure := false, limit := 0 }

def fieldBytes : StrField → Option Bytes
  | .ok s => some s
  | _ => none

def specValue : ValField → Option Value
  | .absent => none
  | .null => some .null
  | .val c => some c.valueOf

/-- the RFC 6902 operation a decoded operation stands for (`none`: unknown `op`, or no `path`) -/
def specOp (op : Op) : Option Spec.Op :=
  match specKind op.kind, fieldBytes op.path with
  | some k, some p =>
    some { kind := k, path := p, frm := (fieldBytes op.frm).getD [], value := specValue op.value }
  | _, _ => none

def specOps : List Op → Option (List Spec.Op)
  | [] => some []
  | op :: ops =>
    match specOp op, specOps ops with
    | some s, some ss => some (s :: ss)
    | _, _ => none

/-- the failures the property requires to be reported: a failing test, an array index out of
range (or otherwise unusable), the removal or the move of something absent -/
def listed (k : Spec.OpKind) (c : Spec.Cause) : Bool :=
  c = .testUnequal || c = .badIndex ||
    ((k = .remove || k = .move) && (c = .absentMember || c = .parentUnreachable))

/-- deviations of the legacy package the property leaves out: `add` at the root (reported as
missing), `copy` from the root or without a usable `from` (reported as missing; the legacy decoder
does not validate), `test` without `value` (RFC 6902 requires one; the legacy code then treats raw
nulls and nil children differently) -/
def opDom (op : Op) : Bool :=
  !(op.kind = ascii "add" && op.path matches .ok []) &&
  !(op.kind = ascii "copy" && ((fieldBytes op.frm).getD []).isEmpty) &&
  !(op.kind = ascii "test" && op.value matches .absent)

/-- text and duplicate conditions on one decoded operation -/
structure OpOK (op : Op) : Prop where
  /-- the value has no duplicate member names and its strings are spelled plainly -/
  val : ∀ c, op.value = .val c → c.valueOf.noDup = true ∧ RawOK c = true
  /-- the reference tokens of `path` survive printing as member names -/
  toks : ∀ p toks, op.path = .ok p → Spec.parsePointer p = some toks → ∀ t ∈ toks, Impl.QK true t = true
  /-- a present value is not the literal `null` (`decodeOp` maps that to `ValField.null`) -/
  nn : ∀ c, op.value = .val c → c.isNullLit = false
  /-- the deviations the property leaves out are excluded -/
  dom : opDom op = true

end Legacy
end JP
