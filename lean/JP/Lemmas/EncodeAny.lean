import JP.Lemmas.EncodeNode
import JP.Lemmas.EncodeNumber
import JP.Lemmas.CloseMergeSorted
import JP.Impl.Merge

/-!
# The encoder on dynamic values (`any`: nil, bool, `json.Number`, string, `[]any`, `map[string]any`)

`enc_any`: with valid number literals the encoder writes `Cst.print (marshalAnyE esc (sortV v))`,
`sortV` putting the members of every object in name order (what `mapEncoder` does; on the
values `Unmarshal` produces, `Impl.anyOf v`, it is the identity).  `enc_any_kind`: the encoder
fails — with the `invalid number literal` error, never a panic — exactly when some `json.Number`
does not pass `isValidNumber` (the empty literal is first replaced by `0`).
-/

namespace JP
namespace Codec
namespace Enc
open Impl

/-! ### sorting members the way `sortW` sorts results -/

def insertM (k : Bytes) (v : Value) : Value.Members → Value.Members
  | [] => [(k, v)]
  | (k', v') :: ms => if bytesLt k k' then (k, v) :: (k', v') :: ms else (k', v') :: insertM k v ms

def sortM : Value.Members → Value.Members
  | [] => []
  | (k, v) :: ms => insertM k v (sortM ms)

mutual
/-- members of every object in name order (stable insertion sort; names of a map are distinct) -/
def sortV : Value → Value
  | .arr xs => .arr (sortVL xs)
  | .obj ms => .obj (sortM (sortVM ms))
  | v => v
def sortVL : List Value → List Value
  | [] => []
  | x :: xs => sortV x :: sortVL xs
/-- the member values normalised, order untouched -/
def sortVM : Value.Members → Value.Members
  | [] => []
  | (k, v) :: ms => (k, sortV v) :: sortVM ms
end

/-- member results of a dynamic object, all successful -/
def okA (esc : Bool) : Value.Members → List (Bytes × W)
  | [] => []
  | (k, v) :: ms => (k, W.ok (Cst.print (marshalAnyE esc v))) :: okA esc ms

theorem insertW_okA (esc : Bool) (k : Bytes) (v : Value) : ∀ ms : Value.Members,
    insertW k (W.ok (Cst.print (marshalAnyE esc v))) (okA esc ms) = okA esc (insertM k v ms)
  | [] => rfl
  | (k', v') :: ms => by
    simp only [okA, insertW, insertM]
    split
    · rfl
    · simp only [okA, insertW_okA esc k v ms]

theorem sortW_okA (esc : Bool) : ∀ ms : Value.Members, sortW (okA esc ms) = okA esc (sortM ms)
  | [] => rfl
  | (k, v) :: ms => by simp only [okA, sortW, sortM, sortW_okA esc ms, insertW_okA]

theorem emitEntries_okA (esc : Bool) : ∀ ms : Value.Members,
    emitEntries esc (okA esc ms) = W.ok (Cst.printM (marshalAnyEM esc ms))
  | [] => rfl
  | [(k, v)] => by
    simp only [okA, emitEntries, encString_eq, write_eq, seq_ok_ok, marshalAnyEM, Cst.printM,
      List.cons_append, List.append_assoc, List.nil_append]
  | (k, v) :: (k2, v2) :: ms => by
    have ih := emitEntries_okA esc ((k2, v2) :: ms)
    simp only [okA] at ih
    simp only [okA, emitEntries, ih, encString_eq, write_eq, seq_ok_ok, marshalAnyEM, Cst.printM,
      List.cons_append, List.append_assoc, List.nil_append]

theorem validNum_ne_nil (l : Bytes) (h : validNum l = true) : l.isEmpty = false := by
  cases l with
  | nil => simp [validNum, parseNumber] at h
  | cons c cs => rfl

theorem encNumber_valid (l : Bytes) (h : validNum l = true) : encNumber l = W.ok l := by
  simp only [encNumber, validNum_ne_nil l h, Bool.false_eq_true, if_false, isValidNumber_validNum, h,
    if_true, write_eq]

mutual
theorem enc_any (esc : Bool) : ∀ v : Value, NumsValid v = true →
    enc esc (anyToGo v) = W.ok (Cst.print (marshalAnyE esc (sortV v)))
  | .null, _ => rfl
  | .bool b, _ => by cases b <;> rfl
  | .num l, h => by
    simp only [NumsValid] at h
    simp only [anyToGo, enc, encNumber_valid l h, sortV, marshalAnyE, Cst.print]
  | .str s, _ => by simp only [anyToGo, enc, encString_eq, sortV, marshalAnyE, Cst.print]
  | .arr xs, h => by
    simp only [NumsValid] at h
    simp only [anyToGo, enc, encElems_any esc xs h, write_eq, seq_ok_ok, sortV, marshalAnyE, Cst.print,
      List.cons_append, List.nil_append]
  | .obj ms, h => by
    simp only [NumsValid] at h
    simp only [anyToGo, enc, encMembers_any esc ms h, sortW_okA, emitEntries_okA, write_eq, seq_ok_ok,
      sortV, marshalAnyE, Cst.print, List.cons_append, List.nil_append]
theorem encElems_any (esc : Bool) : ∀ xs : List Value, NumsValidL xs = true →
    encElems esc (anyToGoL xs) = W.ok (Cst.printL (marshalAnyEL esc (sortVL xs)))
  | [], _ => rfl
  | x :: xs, h => by
    simp only [NumsValidL, Bool.and_eq_true] at h
    have h1 := enc_any esc x h.1
    have h2 := encElems_any esc xs h.2
    cases xs with
    | nil => simp only [anyToGoL, encElems, h1, sortVL, marshalAnyEL, Cst.printL]
    | cons y ys =>
      simp only [anyToGoL] at h2
      simp only [anyToGoL, encElems, h1, h2, write_eq, seq_ok_ok, sortVL, marshalAnyEL, Cst.printL,
        List.cons_append, List.nil_append]
theorem encMembers_any (esc : Bool) : ∀ ms : Value.Members, NumsValidM ms = true →
    encMembers esc (anyToGoM ms) = okA esc (sortVM ms)
  | [], _ => rfl
  | (k, v) :: ms, h => by
    simp only [NumsValidM, Bool.and_eq_true] at h
    simp only [anyToGoM, encMembers, enc_any esc v h.1, encMembers_any esc ms h.2, sortVM, okA]
end

/-! ### sorted input: `sortV` is the identity -/

theorem insertM_sorted (k : Bytes) (v : Value) : ∀ ms : Value.Members,
    (∀ x ∈ ms, bytesLt k x.1 = true) → insertM k v ms = (k, v) :: ms
  | [], _ => rfl
  | (k', v') :: ms, h => by
    simp only [insertM, h (k', v') (List.mem_cons_self ..), if_true]

theorem sortM_sorted : ∀ ms : Value.Members, SortedK ms → sortM ms = ms
  | [], _ => rfl
  | (k, v) :: ms, h => by
    rw [SortedK_cons] at h
    simp only [sortM, sortM_sorted ms h.2]
    exact insertM_sorted k v ms (fun x hx => h.1 x hx)

theorem sortVM_keys : ∀ ms : Value.Members, (sortVM ms).map Prod.fst = ms.map Prod.fst
  | [] => rfl
  | (k, v) :: ms => by simp only [sortVM, List.map_cons, sortVM_keys ms]

mutual
theorem sortV_norm : ∀ v : Value, Norm v = true → sortV v = v
  | .null, _ => rfl
  | .bool _, _ => rfl
  | .num _, _ => rfl
  | .str _, _ => rfl
  | .arr xs, h => by
    simp only [Norm] at h
    simp only [sortV, sortVL_norm xs h]
  | .obj ms, h => by
    simp only [Norm, Bool.and_eq_true] at h
    have h1 := sortVM_norm ms h.2
    simp only [sortV, h1]
    rw [sortM_sorted ms ((sortedKeys_iff ms).1 h.1)]
theorem sortVL_norm : ∀ xs : List Value, NormL xs = true → sortVL xs = xs
  | [], _ => rfl
  | x :: xs, h => by
    simp only [NormL, Bool.and_eq_true] at h
    simp only [sortVL, sortV_norm x h.1, sortVL_norm xs h.2]
theorem sortVM_norm : ∀ ms : Value.Members, NormM ms = true → sortVM ms = ms
  | [], _ => rfl
  | (k, v) :: ms, h => by
    simp only [NormM, Bool.and_eq_true] at h
    simp only [sortVM, sortV_norm v h.1, sortVM_norm ms h.2]
end

/-! ### failure: exactly the invalid number literals -/

/-- the literal the encoder checks and writes: `Number("")` is replaced by `0` -/
def numStr (l : Bytes) : Bytes := if l.isEmpty then [48] else l

mutual
/-- every `json.Number` inside passes the encoder's check -/
def GoNums : Value → Bool
  | .num l => isValidNumber (numStr l)
  | .arr xs => GoNumsL xs
  | .obj ms => GoNumsM ms
  | _ => true
def GoNumsL : List Value → Bool
  | [] => true
  | x :: xs => GoNums x && GoNumsL xs
def GoNumsM : Value.Members → Bool
  | [] => true
  | (_, v) :: ms => GoNums v && GoNumsM ms
end

def Good (w : W) : Prop := ∃ out, w = W.ok out
def Bad (w : W) : Prop := ∃ out, w = W.err out .invalidNumber

theorem Good_ok (a : Bytes) : Good (W.ok a) := ⟨a, rfl⟩

theorem Good_seq {a b : W} (ha : Good a) (hb : Good b) : Good (a.seq b) := by
  obtain ⟨x, rfl⟩ := ha; obtain ⟨y, rfl⟩ := hb; exact ⟨x ++ y, rfl⟩

theorem Bad_seq_left {a : W} (b : W) (ha : Bad a) : Bad (a.seq b) := by
  obtain ⟨x, rfl⟩ := ha; exact ⟨x, rfl⟩

theorem Bad_seq_right {a b : W} (ha : Good a) (hb : Bad b) : Bad (a.seq b) := by
  obtain ⟨x, rfl⟩ := ha; obtain ⟨y, rfl⟩ := hb; exact ⟨x ++ y, rfl⟩

theorem not_Good_Bad {w : W} (hg : Good w) (hb : Bad w) : False := by
  obtain ⟨x, rfl⟩ := hg; obtain ⟨y, h⟩ := hb; cases h

theorem mem_insertW (k : Bytes) (w : W) : ∀ (l : List (Bytes × W)) (x : Bytes × W),
    x ∈ insertW k w l ↔ x = (k, w) ∨ x ∈ l
  | [], x => by simp [insertW]
  | (k', w') :: l, x => by
    simp only [insertW]
    split
    · simp only [List.mem_cons]
    · simp only [List.mem_cons, mem_insertW k w l x]
      constructor
      · rintro (h | h | h)
        · exact Or.inr (Or.inl h)
        · exact Or.inl h
        · exact Or.inr (Or.inr h)
      · rintro (h | h | h)
        · exact Or.inr (Or.inl h)
        · exact Or.inl h
        · exact Or.inr (Or.inr h)

theorem mem_sortW : ∀ (l : List (Bytes × W)) (x : Bytes × W), x ∈ sortW l ↔ x ∈ l
  | [], x => by simp [sortW]
  | (k, w) :: l, x => by
    simp only [sortW, mem_insertW, mem_sortW l x, List.mem_cons]

theorem emitEntries_good (esc : Bool) : ∀ l : List (Bytes × W), (∀ x ∈ l, Good x.2) →
    Good (emitEntries esc l)
  | [], _ => Good_ok _
  | [(k, w)], h => by
    simp only [emitEntries]
    exact Good_seq (Good_ok _) (Good_seq (Good_ok _) (h (k, w) (List.mem_cons_self ..)))
  | (k, w) :: m :: ms, h => by
    simp only [emitEntries]
    exact Good_seq (Good_ok _) (Good_seq (Good_ok _) (Good_seq (h (k, w) (List.mem_cons_self ..))
      (Good_seq (Good_ok _) (emitEntries_good esc (m :: ms) (fun x hx => h x (List.mem_cons_of_mem _ hx))))))

theorem emitEntries_bad (esc : Bool) : ∀ l : List (Bytes × W), (∀ x ∈ l, Good x.2 ∨ Bad x.2) →
    (∃ x ∈ l, Bad x.2) → Bad (emitEntries esc l)
  | [], _, h => by obtain ⟨x, hx, _⟩ := h; simp at hx
  | [(k, w)], _, h => by
    obtain ⟨x, hx, hb⟩ := h
    simp only [List.mem_singleton] at hx
    subst hx
    simp only [emitEntries]
    exact Bad_seq_right (Good_ok _) (Bad_seq_right (Good_ok _) hb)
  | (k, w) :: m :: ms, hall, h => by
    simp only [emitEntries]
    refine Bad_seq_right (Good_ok _) (Bad_seq_right (Good_ok _) ?_)
    rcases hall (k, w) (List.mem_cons_self ..) with hg | hb
    · refine Bad_seq_right hg (Bad_seq_right (Good_ok _) ?_)
      refine emitEntries_bad esc (m :: ms) (fun x hx => hall x (List.mem_cons_of_mem _ hx)) ?_
      obtain ⟨x, hx, hb⟩ := h
      rcases List.mem_cons.1 hx with rfl | hx
      · exact absurd hb (fun hb => not_Good_Bad hg hb)
      · exact ⟨x, hx, hb⟩
    · exact Bad_seq_left _ hb

theorem encNumber_kind (l : Bytes) :
    (isValidNumber (numStr l) = true → Good (encNumber l)) ∧ (isValidNumber (numStr l) = false → Bad (encNumber l)) := by
  unfold encNumber numStr
  constructor
  · intro h; simp only [h, if_true]; exact Good_ok _
  · intro h; simp only [h]; exact ⟨[], rfl⟩

mutual
theorem enc_any_kind (esc : Bool) : ∀ v : Value,
    (GoNums v = true → Good (enc esc (anyToGo v))) ∧ (GoNums v = false → Bad (enc esc (anyToGo v)))
  | .null => ⟨fun _ => Good_ok _, fun h => by simp [GoNums] at h⟩
  | .bool b => ⟨fun _ => Good_ok _, fun h => by simp [GoNums] at h⟩
  | .num l => by simp only [GoNums, anyToGo, enc]; exact encNumber_kind l
  | .str s => ⟨fun _ => Good_ok _, fun h => by simp [GoNums] at h⟩
  | .arr xs => by
    have ih := encElems_any_kind esc xs
    simp only [GoNums, anyToGo, enc]
    exact ⟨fun h => Good_seq (Good_ok _) (Good_seq (ih.1 h) (Good_ok _)),
      fun h => Bad_seq_right (Good_ok _) (Bad_seq_left _ (ih.2 h))⟩
  | .obj ms => by
    have ih := encMembers_any_kind esc ms
    simp only [GoNums, anyToGo, enc]
    constructor
    · intro h
      refine Good_seq (Good_ok _) (Good_seq (emitEntries_good esc _ ?_) (Good_ok _))
      intro x hx
      exact (ih.2.1 h) x ((mem_sortW _ x).1 hx)
    · intro h
      refine Bad_seq_right (Good_ok _) (Bad_seq_left _ (emitEntries_bad esc _ ?_ ?_))
      · intro x hx; exact ih.1 x ((mem_sortW _ x).1 hx)
      · obtain ⟨x, hx, hb⟩ := ih.2.2 h
        exact ⟨x, (mem_sortW _ x).2 hx, hb⟩
theorem encElems_any_kind (esc : Bool) : ∀ xs : List Value,
    (GoNumsL xs = true → Good (encElems esc (anyToGoL xs))) ∧ (GoNumsL xs = false → Bad (encElems esc (anyToGoL xs)))
  | [] => ⟨fun _ => Good_ok _, fun h => by simp [GoNumsL] at h⟩
  | x :: xs => by
    have h1 := enc_any_kind esc x
    have h2 := encElems_any_kind esc xs
    cases xs with
    | nil =>
      simp only [GoNumsL, Bool.and_true, anyToGoL, encElems]
      exact h1
    | cons y ys =>
      simp only [anyToGoL] at h2
      simp only [anyToGoL, encElems]
      constructor
      · intro h
        rw [GoNumsL, Bool.and_eq_true] at h
        exact Good_seq (h1.1 h.1) (Good_seq (Good_ok _) (h2.1 h.2))
      · intro h
        rw [GoNumsL] at h
        cases hx : GoNums x with
        | false => exact Bad_seq_left _ (h1.2 hx)
        | true =>
          rw [hx, Bool.true_and] at h
          exact Bad_seq_right (h1.1 hx) (Bad_seq_right (Good_ok _) (h2.2 h))
theorem encMembers_any_kind (esc : Bool) : ∀ ms : Value.Members,
    (∀ x ∈ encMembers esc (anyToGoM ms), Good x.2 ∨ Bad x.2) ∧
    (GoNumsM ms = true → ∀ x ∈ encMembers esc (anyToGoM ms), Good x.2) ∧
    (GoNumsM ms = false → ∃ x ∈ encMembers esc (anyToGoM ms), Bad x.2)
  | [] => ⟨fun x hx => by simp [anyToGoM, encMembers] at hx, fun _ x hx => by simp [anyToGoM, encMembers] at hx,
      fun h => by simp [GoNumsM] at h⟩
  | (k, v) :: ms => by
    have h1 := enc_any_kind esc v
    have h2 := encMembers_any_kind esc ms
    simp only [anyToGoM, encMembers, List.mem_cons]
    refine ⟨?_, ?_, ?_⟩
    · rintro x (rfl | hx)
      · cases hv : GoNums v with
        | true => exact Or.inl (h1.1 hv)
        | false => exact Or.inr (h1.2 hv)
      · exact h2.1 x hx
    · intro h x hx
      rw [GoNumsM, Bool.and_eq_true] at h
      rcases hx with rfl | hx
      · exact h1.1 h.1
      · exact h2.2.1 h.2 x hx
    · intro h
      rw [GoNumsM] at h
      cases hv : GoNums v with
      | false => exact ⟨_, Or.inl rfl, h1.2 hv⟩
      | true =>
        rw [hv, Bool.true_and] at h
        obtain ⟨x, hx, hb⟩ := h2.2.2 h
        exact ⟨x, Or.inr hx, hb⟩
end

theorem numStr_valid (l : Bytes) (h : validNum l = true) : isValidNumber (numStr l) = true := by
  simp only [numStr, validNum_ne_nil l h, Bool.false_eq_true, if_false, isValidNumber_validNum, h]

mutual
theorem GoNums_of_valid : ∀ v : Value, NumsValid v = true → GoNums v = true
  | .null, _ => rfl
  | .bool _, _ => rfl
  | .num l, h => by simp only [NumsValid] at h; simp only [GoNums, numStr_valid l h]
  | .str _, _ => rfl
  | .arr xs, h => by simp only [NumsValid] at h; simp only [GoNums, GoNumsL_of_valid xs h]
  | .obj ms, h => by simp only [NumsValid] at h; simp only [GoNums, GoNumsM_of_valid ms h]
theorem GoNumsL_of_valid : ∀ xs : List Value, NumsValidL xs = true → GoNumsL xs = true
  | [], _ => rfl
  | x :: xs, h => by
    simp only [NumsValidL, Bool.and_eq_true] at h
    simp only [GoNumsL, GoNums_of_valid x h.1, GoNumsL_of_valid xs h.2, Bool.and_self]
theorem GoNumsM_of_valid : ∀ ms : Value.Members, NumsValidM ms = true → GoNumsM ms = true
  | [], _ => rfl
  | (_, v) :: ms, h => by
    simp only [NumsValidM, Bool.and_eq_true] at h
    simp only [GoNumsM, GoNums_of_valid v h.1, GoNumsM_of_valid ms h.2, Bool.and_self]
end

/-! ### sorting keeps the number literals -/

theorem NumsValidM_insertM (k : Bytes) (v : Value) (hv : NumsValid v = true) : ∀ ms : Value.Members,
    NumsValidM ms = true → NumsValidM (insertM k v ms) = true
  | [], _ => by simp only [insertM, NumsValidM, hv, Bool.and_self]
  | (k', v') :: ms, h => by
    simp only [NumsValidM, Bool.and_eq_true] at h
    simp only [insertM]
    split
    · simp only [NumsValidM, hv, h.1, h.2, Bool.and_self]
    · simp only [NumsValidM, h.1, NumsValidM_insertM k v hv ms h.2, Bool.and_self]

theorem NumsValidM_sortM : ∀ ms : Value.Members, NumsValidM ms = true → NumsValidM (sortM ms) = true
  | [], _ => rfl
  | (k, v) :: ms, h => by
    simp only [NumsValidM, Bool.and_eq_true] at h
    simp only [sortM]
    exact NumsValidM_insertM k v h.1 _ (NumsValidM_sortM ms h.2)

mutual
theorem NumsValid_sortV : ∀ v : Value, NumsValid v = true → NumsValid (sortV v) = true
  | .null, _ => rfl
  | .bool _, _ => rfl
  | .num _, h => h
  | .str _, _ => rfl
  | .arr xs, h => by
    simp only [NumsValid] at h
    simp only [sortV, NumsValid, NumsValidL_sortVL xs h]
  | .obj ms, h => by
    simp only [NumsValid] at h
    simp only [sortV, NumsValid]
    exact NumsValidM_sortM _ (NumsValidM_sortVM ms h)
theorem NumsValidL_sortVL : ∀ xs : List Value, NumsValidL xs = true → NumsValidL (sortVL xs) = true
  | [], _ => rfl
  | x :: xs, h => by
    simp only [NumsValidL, Bool.and_eq_true] at h
    simp only [sortVL, NumsValidL, NumsValid_sortV x h.1, NumsValidL_sortVL xs h.2, Bool.and_self]
theorem NumsValidM_sortVM : ∀ ms : Value.Members, NumsValidM ms = true → NumsValidM (sortVM ms) = true
  | [], _ => rfl
  | (k, v) :: ms, h => by
    simp only [NumsValidM, Bool.and_eq_true] at h
    simp only [sortVM, NumsValidM, NumsValid_sortV v h.1, NumsValidM_sortVM ms h.2, Bool.and_self]
end

end Enc
end Codec
end JP
