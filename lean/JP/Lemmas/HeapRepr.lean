import JP.Heap.Model

/-!
# The representation predicate of the heap model, frame and allocation lemmas

`Repr h n p fp`: in heap `h` the part reachable from pointer `p` is a TREE that abstracts to the
value-model node `n`; `fp` (the footprint) lists its cells, each exactly once.  Separation-logic
style: the footprint of a container is its own address followed by the pairwise DISJOINT
footprints of its children; the nil pointer stands for `Node.nil` with an empty footprint.

Defined by structural recursion on the node (equivalent to the inductive formulation; this form
unfolds by `simp only [Repr]`).
-/

namespace JP
namespace Heap

open JP.Impl (Node NMembers Outcome)

/-- the two footprints have no address in common -/
def Disj (f g : List Nat) : Prop := ∀ x, x ∈ f → x ∉ g

mutual
def Repr (h : Heap) : Node → Ptr → List Nat → Prop
  | .nil, p, fp => p = none ∧ fp = []
  | .raw c, p, fp => ∃ a : Nat, p = some a ∧ h[a]? = some (.raw c) ∧ fp = [a]
  | .doc keys ms, p, fp =>
    ∃ (a : Nat) (ps : PMembers) (f : List Nat), p = some a ∧ h[a]? = some (.doc keys ps) ∧ ReprM h ms ps f ∧ a ∉ f ∧ fp = a :: f
  | .ary ns, p, fp =>
    ∃ (a : Nat) (ps : List Ptr) (f : List Nat), p = some a ∧ h[a]? = some (.ary ps) ∧ ReprL h ns ps f ∧ a ∉ f ∧ fp = a :: f
  | .docNil, p, fp => ∃ a : Nat, p = some a ∧ h[a]? = some .docNil ∧ fp = [a]
  | .nilAry, p, fp => ∃ a : Nat, p = some a ∧ h[a]? = some .nilAry ∧ fp = [a]
def ReprL (h : Heap) : List Node → List Ptr → List Nat → Prop
  | [], ps, fp => ps = [] ∧ fp = []
  | n :: ns, ps, fp =>
    ∃ p ps' f1 f2, ps = p :: ps' ∧ Repr h n p f1 ∧ ReprL h ns ps' f2 ∧ Disj f1 f2 ∧ fp = f1 ++ f2
def ReprM (h : Heap) : NMembers → PMembers → List Nat → Prop
  | [], ps, fp => ps = [] ∧ fp = []
  | (k, n) :: ms, ps, fp =>
    ∃ p ps' f1 f2, ps = (k, p) :: ps' ∧ Repr h n p f1 ∧ ReprM h ms ps' f2 ∧ Disj f1 f2 ∧ fp = f1 ++ f2
end

theorem Disj.symm {f g : List Nat} (d : Disj f g) : Disj g f := fun x hx hf => d x hf hx

theorem Disj.nil_left (g : List Nat) : Disj [] g := fun _ hx => by cases hx
theorem Disj.nil_right (f : List Nat) : Disj f [] := fun _ _ hx => by cases hx

/-! ### constructor-style introduction rules -/

theorem Repr.mk_nil (h : Heap) : Repr h .nil none [] := by simp [Repr]

theorem Repr.mk_raw {h : Heap} {a : Nat} {c : Cst} (ha : h[a]? = some (.raw c)) :
    Repr h (.raw c) (some a) [a] := by
  simp only [Repr]; exact ⟨a, rfl, ha, rfl⟩

theorem Repr.mk_doc {h : Heap} {a : Nat} {keys ms ps f} (ha : h[a]? = some (.doc keys ps))
    (hm : ReprM h ms ps f) (hn : a ∉ f) : Repr h (.doc keys ms) (some a) (a :: f) := by
  simp only [Repr]; exact ⟨a, ps, f, rfl, ha, hm, hn, rfl⟩

theorem Repr.mk_ary {h : Heap} {a : Nat} {ns ps f} (ha : h[a]? = some (.ary ps))
    (hm : ReprL h ns ps f) (hn : a ∉ f) : Repr h (.ary ns) (some a) (a :: f) := by
  simp only [Repr]; exact ⟨a, ps, f, rfl, ha, hm, hn, rfl⟩

theorem ReprL.mk_nil (h : Heap) : ReprL h [] [] [] := by simp [ReprL]

theorem ReprL.mk_cons {h : Heap} {n ns p ps f1 f2} (h1 : Repr h n p f1) (h2 : ReprL h ns ps f2)
    (d : Disj f1 f2) : ReprL h (n :: ns) (p :: ps) (f1 ++ f2) := by
  simp only [ReprL]; exact ⟨p, ps, f1, f2, rfl, h1, h2, d, rfl⟩

theorem ReprM.mk_nil (h : Heap) : ReprM h [] [] [] := by simp [ReprM]

theorem ReprM.mk_cons {h : Heap} {k n ms p ps f1 f2} (h1 : Repr h n p f1) (h2 : ReprM h ms ps f2)
    (d : Disj f1 f2) : ReprM h ((k, n) :: ms) ((k, p) :: ps) (f1 ++ f2) := by
  simp only [ReprM]; exact ⟨p, ps, f1, f2, rfl, h1, h2, d, rfl⟩

/-! ### frame: `Repr` depends on the cells of the footprint only -/

mutual
theorem Repr.frame {h h' : Heap} : ∀ (n : Node) {p fp}, Repr h n p fp →
    (∀ x ∈ fp, h'[x]? = h[x]?) → Repr h' n p fp
  | .nil, p, fp, r, _ => by simp only [Repr] at r ⊢; exact r
  | .raw c, p, fp, r, fr => by
    simp only [Repr] at r ⊢
    obtain ⟨a, rfl, ha, rfl⟩ := r
    exact ⟨a, rfl, by rw [fr a (by simp)]; exact ha, rfl⟩
  | .docNil, p, fp, r, fr => by
    simp only [Repr] at r ⊢
    obtain ⟨a, rfl, ha, rfl⟩ := r
    exact ⟨a, rfl, by rw [fr a (by simp)]; exact ha, rfl⟩
  | .nilAry, p, fp, r, fr => by
    simp only [Repr] at r ⊢
    obtain ⟨a, rfl, ha, rfl⟩ := r
    exact ⟨a, rfl, by rw [fr a (by simp)]; exact ha, rfl⟩
  | .doc keys ms, p, fp, r, fr => by
    simp only [Repr] at r ⊢
    obtain ⟨a, ps, f, rfl, ha, hm, hn, rfl⟩ := r
    exact ⟨a, ps, f, rfl, by rw [fr a (by simp)]; exact ha,
      ReprM.frame ms hm (fun x hx => fr x (by simp [hx])), hn, rfl⟩
  | .ary ns, p, fp, r, fr => by
    simp only [Repr] at r ⊢
    obtain ⟨a, ps, f, rfl, ha, hm, hn, rfl⟩ := r
    exact ⟨a, ps, f, rfl, by rw [fr a (by simp)]; exact ha,
      ReprL.frame ns hm (fun x hx => fr x (by simp [hx])), hn, rfl⟩
theorem ReprL.frame {h h' : Heap} : ∀ (ns : List Node) {ps fp}, ReprL h ns ps fp →
    (∀ x ∈ fp, h'[x]? = h[x]?) → ReprL h' ns ps fp
  | [], ps, fp, r, _ => by simp only [ReprL] at r ⊢; exact r
  | n :: ns, ps, fp, r, fr => by
    simp only [ReprL] at r ⊢
    obtain ⟨p, ps', f1, f2, rfl, h1, h2, d, rfl⟩ := r
    exact ⟨p, ps', f1, f2, rfl, Repr.frame n h1 (fun x hx => fr x (by simp [hx])),
      ReprL.frame ns h2 (fun x hx => fr x (by simp [hx])), d, rfl⟩
theorem ReprM.frame {h h' : Heap} : ∀ (ms : NMembers) {ps fp}, ReprM h ms ps fp →
    (∀ x ∈ fp, h'[x]? = h[x]?) → ReprM h' ms ps fp
  | [], ps, fp, r, _ => by simp only [ReprM] at r ⊢; exact r
  | (k, n) :: ms, ps, fp, r, fr => by
    simp only [ReprM] at r ⊢
    obtain ⟨p, ps', f1, f2, rfl, h1, h2, d, rfl⟩ := r
    exact ⟨p, ps', f1, f2, rfl, Repr.frame n h1 (fun x hx => fr x (by simp [hx])),
      ReprM.frame ms h2 (fun x hx => fr x (by simp [hx])), d, rfl⟩
end

/-! ### every footprint address is allocated -/

mutual
theorem Repr.valid {h : Heap} : ∀ (n : Node) {p fp}, Repr h n p fp → ∀ x ∈ fp, x < h.length
  | .nil, p, fp, r => by simp only [Repr] at r; obtain ⟨_, rfl⟩ := r; intro x hx; cases hx
  | .raw c, p, fp, r => by
    simp only [Repr] at r; obtain ⟨a, rfl, ha, rfl⟩ := r
    intro x hx; simp only [List.mem_singleton] at hx; subst hx
    exact (List.getElem?_eq_some_iff.mp ha).1
  | .docNil, p, fp, r => by
    simp only [Repr] at r; obtain ⟨a, rfl, ha, rfl⟩ := r
    intro x hx; simp only [List.mem_singleton] at hx; subst hx
    exact (List.getElem?_eq_some_iff.mp ha).1
  | .nilAry, p, fp, r => by
    simp only [Repr] at r; obtain ⟨a, rfl, ha, rfl⟩ := r
    intro x hx; simp only [List.mem_singleton] at hx; subst hx
    exact (List.getElem?_eq_some_iff.mp ha).1
  | .doc keys ms, p, fp, r => by
    simp only [Repr] at r; obtain ⟨a, ps, f, rfl, ha, hm, _, rfl⟩ := r
    intro x hx; simp only [List.mem_cons] at hx
    rcases hx with rfl | hx
    · exact (List.getElem?_eq_some_iff.mp ha).1
    · exact ReprM.valid ms hm x hx
  | .ary ns, p, fp, r => by
    simp only [Repr] at r; obtain ⟨a, ps, f, rfl, ha, hm, _, rfl⟩ := r
    intro x hx; simp only [List.mem_cons] at hx
    rcases hx with rfl | hx
    · exact (List.getElem?_eq_some_iff.mp ha).1
    · exact ReprL.valid ns hm x hx
theorem ReprL.valid {h : Heap} : ∀ (ns : List Node) {ps fp}, ReprL h ns ps fp → ∀ x ∈ fp, x < h.length
  | [], ps, fp, r => by simp only [ReprL] at r; obtain ⟨_, rfl⟩ := r; intro x hx; cases hx
  | n :: ns, ps, fp, r => by
    simp only [ReprL] at r; obtain ⟨p, ps', f1, f2, rfl, h1, h2, _, rfl⟩ := r
    intro x hx; simp only [List.mem_append] at hx
    rcases hx with hx | hx
    · exact Repr.valid n h1 x hx
    · exact ReprL.valid ns h2 x hx
theorem ReprM.valid {h : Heap} : ∀ (ms : NMembers) {ps fp}, ReprM h ms ps fp → ∀ x ∈ fp, x < h.length
  | [], ps, fp, r => by simp only [ReprM] at r; obtain ⟨_, rfl⟩ := r; intro x hx; cases hx
  | (k, n) :: ms, ps, fp, r => by
    simp only [ReprM] at r; obtain ⟨p, ps', f1, f2, rfl, h1, h2, _, rfl⟩ := r
    intro x hx; simp only [List.mem_append] at hx
    rcases hx with hx | hx
    · exact Repr.valid n h1 x hx
    · exact ReprM.valid ms h2 x hx
end

/-! ### a footprint lists each cell once: the reachable part is a tree -/

theorem nodup_append_of_disj {f g : List Nat} (hf : f.Nodup) (hg : g.Nodup) (d : Disj f g) :
    (f ++ g).Nodup := by
  rw [List.nodup_append]
  exact ⟨hf, hg, fun a ha b hb hab => d a ha (hab ▸ hb)⟩

mutual
theorem Repr.nodup {h : Heap} : ∀ (n : Node) {p fp}, Repr h n p fp → fp.Nodup
  | .nil, p, fp, r => by simp only [Repr] at r; obtain ⟨_, rfl⟩ := r; exact List.nodup_nil
  | .raw c, p, fp, r => by
    simp only [Repr] at r; obtain ⟨a, rfl, _, rfl⟩ := r; simp
  | .docNil, p, fp, r => by
    simp only [Repr] at r; obtain ⟨a, rfl, _, rfl⟩ := r; simp
  | .nilAry, p, fp, r => by
    simp only [Repr] at r; obtain ⟨a, rfl, _, rfl⟩ := r; simp
  | .doc keys ms, p, fp, r => by
    simp only [Repr] at r; obtain ⟨a, ps, f, rfl, _, hm, hn, rfl⟩ := r
    exact List.nodup_cons.mpr ⟨hn, ReprM.nodup ms hm⟩
  | .ary ns, p, fp, r => by
    simp only [Repr] at r; obtain ⟨a, ps, f, rfl, _, hm, hn, rfl⟩ := r
    exact List.nodup_cons.mpr ⟨hn, ReprL.nodup ns hm⟩
theorem ReprL.nodup {h : Heap} : ∀ (ns : List Node) {ps fp}, ReprL h ns ps fp → fp.Nodup
  | [], ps, fp, r => by simp only [ReprL] at r; obtain ⟨_, rfl⟩ := r; exact List.nodup_nil
  | n :: ns, ps, fp, r => by
    simp only [ReprL] at r; obtain ⟨p, ps', f1, f2, rfl, h1, h2, d, rfl⟩ := r
    exact nodup_append_of_disj (Repr.nodup n h1) (ReprL.nodup ns h2) d
theorem ReprM.nodup {h : Heap} : ∀ (ms : NMembers) {ps fp}, ReprM h ms ps fp → fp.Nodup
  | [], ps, fp, r => by simp only [ReprM] at r; obtain ⟨_, rfl⟩ := r; exact List.nodup_nil
  | (k, n) :: ms, ps, fp, r => by
    simp only [ReprM] at r; obtain ⟨p, ps', f1, f2, rfl, h1, h2, d, rfl⟩ := r
    exact nodup_append_of_disj (Repr.nodup n h1) (ReprM.nodup ms h2) d
end

/-! ### allocation and writes outside the footprint -/

theorem getElem?_append_left' {h : Heap} {ext : List Cell} {x : Nat} (hx : x < h.length) :
    (h ++ ext)[x]? = h[x]? := List.getElem?_append_left hx

/-- allocation preserves `Repr` -/
theorem Repr.alloc {h : Heap} {n p fp} (r : Repr h n p fp) (ext : List Cell) :
    Repr (h ++ ext) n p fp :=
  Repr.frame n r (fun x hx => List.getElem?_append_left (Repr.valid n r x hx))

theorem ReprL.alloc {h : Heap} {ns ps fp} (r : ReprL h ns ps fp) (ext : List Cell) :
    ReprL (h ++ ext) ns ps fp :=
  ReprL.frame ns r (fun x hx => List.getElem?_append_left (ReprL.valid ns r x hx))

theorem ReprM.alloc {h : Heap} {ms ps fp} (r : ReprM h ms ps fp) (ext : List Cell) :
    ReprM (h ++ ext) ms ps fp :=
  ReprM.frame ms r (fun x hx => List.getElem?_append_left (ReprM.valid ms r x hx))

/-- a write to an address outside the footprint preserves `Repr` -/
theorem Repr.write {h : Heap} {n p fp} (r : Repr h n p fp) {a : Nat} (c : Cell) (ha : a ∉ fp) :
    Repr (h.set a c) n p fp :=
  Repr.frame n r (fun x hx => by
    rw [List.getElem?_set_ne]; intro e; exact ha (e ▸ hx))

theorem ReprL.write {h : Heap} {ns ps fp} (r : ReprL h ns ps fp) {a : Nat} (c : Cell) (ha : a ∉ fp) :
    ReprL (h.set a c) ns ps fp :=
  ReprL.frame ns r (fun x hx => by
    rw [List.getElem?_set_ne]; intro e; exact ha (e ▸ hx))

theorem ReprM.write {h : Heap} {ms ps fp} (r : ReprM h ms ps fp) {a : Nat} (c : Cell) (ha : a ∉ fp) :
    ReprM (h.set a c) ms ps fp :=
  ReprM.frame ms r (fun x hx => by
    rw [List.getElem?_set_ne]; intro e; exact ha (e ▸ hx))

/-! ### the pointer determines nil-ness -/

theorem Repr.none_iff {h : Heap} {n fp} (r : Repr h n none fp) : n = .nil ∧ fp = [] := by
  cases n with
  | nil => simp only [Repr] at r; exact ⟨rfl, r.2⟩
  | raw c => simp only [Repr] at r; obtain ⟨a, e, _⟩ := r; cases e
  | docNil => simp only [Repr] at r; obtain ⟨a, e, _⟩ := r; cases e
  | nilAry => simp only [Repr] at r; obtain ⟨a, e, _⟩ := r; cases e
  | doc k m => simp only [Repr] at r; obtain ⟨a, _, _, e, _⟩ := r; cases e
  | ary k => simp only [Repr] at r; obtain ⟨a, _, _, e, _⟩ := r; cases e

theorem Repr.nil_iff {h : Heap} {p fp} (r : Repr h .nil p fp) : p = none ∧ fp = [] := by
  simp only [Repr] at r; exact r

/-- the address of a non-nil node heads its footprint -/
theorem Repr.head_mem {h : Heap} {n a fp} (r : Repr h n (some a) fp) : a ∈ fp := by
  cases n with
  | nil => simp only [Repr] at r; cases r.1
  | raw c => simp only [Repr] at r; obtain ⟨a', e, _, rfl⟩ := r; cases e; simp
  | docNil => simp only [Repr] at r; obtain ⟨a', e, _, rfl⟩ := r; cases e; simp
  | nilAry => simp only [Repr] at r; obtain ⟨a', e, _, rfl⟩ := r; cases e; simp
  | doc k m => simp only [Repr] at r; obtain ⟨a', _, _, e, _, _, _, rfl⟩ := r; cases e; simp
  | ary k => simp only [Repr] at r; obtain ⟨a', _, _, e, _, _, _, rfl⟩ := r; cases e; simp

end Heap
end JP
