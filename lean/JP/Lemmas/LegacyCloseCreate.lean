import JP.Lemmas.LegacyCloseRespell
import JP.Lemmas.LegacyCloseGood
import JP.Lemmas.CloseMergeCreateTop

/-!
# Legacy `CreateMergePatch` on texts: the top of the function, `resemblesJSONArray`, the text layer

* `resemblesJSONArray_false`: a well-formed text whose root is not an array does not "resemble an
  array" (`bytes.TrimSpace` strips exactly the leading JSON white space of such a text, and what is
  left starts with the first byte of the value);
* `createObject_eq`, `createMergePatch_nonarr`, `createMergePatch_arr`: equations by the shape of the
  two roots.  The legacy function reads `null` as an empty map (`json.Unmarshal` of `null` into a
  map succeeds and leaves it nil) — `rootL`;
* `GV_createObject`, `createArray_ok_GV`: the produced value survives marshal / print / re-spell /
  parse;
* `merge_congr_doc`: RFC 7396 merge respects `eqv` in the document argument.
-/

namespace JP
namespace Legacy
open Value
open Impl (GC GCL GCM GCL_cons GC_of_parse GV GVL GVM getDiff anyOf anyOfM)

/-! ### `bytes.TrimSpace` / `resemblesJSONArray` on a well-formed non-array text -/

set_option maxRecDepth 100000 in
theorem isWs_space : ∀ c : UInt8, isWs c = true → c.toNat < 128 ∧ isUnicodeSpace c.toNat = true := by
  apply byte_forall; decide

set_option maxRecDepth 100000 in
theorem startByte_nospace : ∀ c : UInt8, startByte c = true →
    c.toNat < 128 ∧ isUnicodeSpace c.toNat = false := by
  apply byte_forall; decide

theorem trimLeftSpace_step_space (f : Nat) (c : UInt8) (cs : Bytes) (h : isWs c = true) :
    trimLeftSpace (f + 1) (c :: cs) = trimLeftSpace f cs := by
  have ⟨h1, h2⟩ := isWs_space c h
  simp only [trimLeftSpace, decodeRune_one c cs h1, h2, if_true, List.drop_succ_cons, List.drop_zero]

theorem trimLeftSpace_step_start (f : Nat) (c : UInt8) (cs : Bytes) (h : startByte c = true) :
    trimLeftSpace (f + 1) (c :: cs) = c :: cs := by
  have ⟨h1, h2⟩ := startByte_nospace c h
  simp only [trimLeftSpace, decodeRune_one c cs h1, h2, Bool.false_eq_true, if_false]

/-- on a text whose first non-white-space byte starts a JSON value, the left half of
`bytes.TrimSpace` is `skipWs` -/
theorem trimLeftSpace_eq_skipWs : ∀ (bs : Bytes) (f : Nat), bs.length < f →
    (∀ c t, skipWs bs = c :: t → startByte c = true) → trimLeftSpace f bs = skipWs bs
  | [], f, hf, _ => by
    cases f with
    | zero => simp at hf
    | succ f => rfl
  | c :: cs, f, hf, hs => by
    cases f with
    | zero => simp at hf
    | succ f =>
      simp only [List.length_cons] at hf
      by_cases hw : isWs c = true
      · rw [trimLeftSpace_step_space f c cs hw]
        have e : skipWs (c :: cs) = skipWs cs := by simp [skipWs, hw]
        rw [e] at hs ⊢
        exact trimLeftSpace_eq_skipWs cs f (by omega) hs
      · have e : skipWs (c :: cs) = c :: cs := by simp [skipWs, hw]
        rw [e] at hs ⊢
        exact trimLeftSpace_step_start f c cs (hs c cs rfl)

theorem trimRightSpaceRev_cons (f : Nat) (b : UInt8) (t : Bytes) :
    trimRightSpaceRev (f + 1) (b :: t) =
      if isUnicodeSpace (decodeLastRune (b :: t)).1 then
        trimRightSpaceRev f ((b :: t).drop (decodeLastRune (b :: t)).2) else b :: t := by
  rfl

theorem trimRightSpaceRev_drop : ∀ (f : Nat) (rev : Bytes), ∃ k, trimRightSpaceRev f rev = rev.drop k
  | 0, rev => ⟨0, rfl⟩
  | f + 1, [] => ⟨0, rfl⟩
  | f + 1, b :: t => by
    rw [trimRightSpaceRev_cons]
    by_cases hsp : isUnicodeSpace (decodeLastRune (b :: t)).1 = true
    · rw [if_pos hsp]
      obtain ⟨k, hk⟩ := trimRightSpaceRev_drop f ((b :: t).drop (decodeLastRune (b :: t)).2)
      exact ⟨(decodeLastRune (b :: t)).2 + k, by rw [hk, List.drop_drop]⟩
    · rw [if_neg hsp]
      exact ⟨0, rfl⟩

theorem head?_reverse_drop_reverse (l : Bytes) (k : Nat) :
    ((l.reverse.drop k).reverse).head? = none ∨ ((l.reverse.drop k).reverse).head? = l.head? := by
  cases l with
  | nil => left; simp
  | cons c t =>
    by_cases hk : k ≤ t.length
    · right
      rw [List.reverse_cons, List.drop_append_of_le_length (by simpa using hk)]
      simp
    · left
      rw [List.drop_eq_nil_of_le (by simp only [List.length_reverse, List.length_cons]; omega)]
      rfl

theorem trimSpace_head (bs : Bytes) :
    (trimSpace bs).head? = none ∨ (trimSpace bs).head? = (trimLeftSpace (bs.length + 1) bs).head? := by
  simp only [trimSpace]
  obtain ⟨k, hk⟩ := trimRightSpaceRev_drop ((trimLeftSpace (bs.length + 1) bs).length + 1)
    (trimLeftSpace (bs.length + 1) bs).reverse
  rw [hk]
  exact head?_reverse_drop_reverse _ k

/-- the first byte of the input of a successful `parseValue` starts a JSON value; it is `[` exactly
when the result is an array -/
theorem parseValue_head (f d : Nat) (bs : Bytes) (c : Cst) (r : Bytes)
    (h : parseValue f d bs = some (c, r)) :
    ∃ b t, bs = b :: t ∧ startByte b = true ∧ (b = 91 ↔ c.isArr = true) := by
  cases f with
  | zero => simp [parseValue] at h
  | succ f =>
    cases bs with
    | nil => simp [parseValue] at h
    | cons b t =>
      refine ⟨b, t, rfl, ?_⟩
      simp only [parseValue] at h
      by_cases h1 : b = 123
      · subst h1
        simp only [if_true] at h
        have : c.isArr = false := by
          split at h
          · cases h
          · split at h
            · simp only [Option.some.injEq, Prod.mk.injEq] at h; rw [← h.1]; rfl
            · cases hm : parseMembers f (d + 1) (skipWs t) with
              | none => rw [hm] at h; cases h
              | some q =>
                rw [hm] at h
                simp only [Option.map_some, Option.some.injEq, Prod.mk.injEq] at h
                rw [← h.1]; rfl
        exact ⟨by decide, by rw [this]; decide⟩
      · rw [if_neg h1] at h
        by_cases h2 : b = 91
        · subst h2
          simp only [if_true] at h
          have : c.isArr = true := by
            split at h
            · cases h
            · split at h
              · simp only [Option.some.injEq, Prod.mk.injEq] at h; rw [← h.1]; rfl
              · cases hm : parseElems f (d + 1) (skipWs t) with
                | none => rw [hm] at h; cases h
                | some q =>
                  rw [hm] at h
                  simp only [Option.map_some, Option.some.injEq, Prod.mk.injEq] at h
                  rw [← h.1]; rfl
          exact ⟨by decide, by rw [this]; simp⟩
        · rw [if_neg h2] at h
          have key : startByte b = true → c.isArr = false → startByte b = true ∧ (b = 91 ↔ c.isArr = true) :=
            fun hs hc => ⟨hs, by rw [hc]; simp [h2]⟩
          by_cases h3 : b = 34
          · subst h3
            simp only [if_true] at h
            cases hm : parseStrBody t with
            | none => rw [hm] at h; cases h
            | some q =>
              rw [hm] at h
              simp only [Option.map_some, Option.some.injEq, Prod.mk.injEq] at h
              exact key (by decide) (by rw [← h.1]; rfl)
          · rw [if_neg h3] at h
            have hlit : ∀ w, parseLit w (b :: t) = some (c, r) → c.isArr = false := by
              intro w hw
              simp only [parseLit] at hw
              split at hw
              · simp only [Option.some.injEq, Prod.mk.injEq] at hw; rw [← hw.1]; rfl
              · cases hw
            by_cases h4 : b = 116
            · subst h4; simp only [if_true] at h; exact key (by decide) (hlit _ h)
            · rw [if_neg h4] at h
              by_cases h5 : b = 102
              · subst h5; simp only [if_true] at h; exact key (by decide) (hlit _ h)
              · rw [if_neg h5] at h
                by_cases h6 : b = 110
                · subst h6; simp only [if_true] at h; exact key (by decide) (hlit _ h)
                · rw [if_neg h6] at h
                  cases hm : parseNumber (b :: t) with
                  | none => rw [hm] at h; cases h
                  | some q =>
                    obtain ⟨l, r'⟩ := q
                    rw [hm] at h
                    simp only [Option.map_some, Option.some.injEq, Prod.mk.injEq] at h
                    obtain ⟨b', t', e, hb'⟩ := parseNumber_head (b :: t) l r' hm
                    simp only [List.cons.injEq] at e
                    rw [← e.1] at hb'
                    exact key (startByte_num b hb') (by rw [← h.1]; rfl)

theorem parseCst_head (a : Bytes) (c : Cst) (h : parseCst a = some c) :
    ∃ b t, skipWs a = b :: t ∧ startByte b = true ∧ (b = 91 ↔ c.isArr = true) := by
  unfold parseCst at h
  cases hv : parseValue (a.length + 1) 0 (skipWs a) with
  | none => rw [hv] at h; simp at h
  | some q =>
    obtain ⟨c', r⟩ := q
    rw [hv] at h
    simp only at h
    split at h
    · simp only [Option.some.injEq] at h
      subst h
      exact parseValue_head _ _ _ _ _ hv
    · cases h

/-- **a well-formed text whose root is not an array does not resemble an array** -/
theorem resemblesJSONArray_false (a : Bytes) (c : Cst) (h : parseCst a = some c) (hn : c.isArr = false) :
    resemblesJSONArray a = false := by
  obtain ⟨b, t, hs, hb, hiff⟩ := parseCst_head a c h
  have hl : trimLeftSpace (a.length + 1) a = b :: t := by
    rw [trimLeftSpace_eq_skipWs a _ (by omega) (fun c' t' e => by
      rw [hs] at e; simp only [List.cons.injEq] at e; rw [← e.1]; exact hb), hs]
  have hne : b ≠ 91 := fun e => by rw [hiff.1 e] at hn; cases hn
  simp only [resemblesJSONArray]
  rcases trimSpace_head a with h0 | h0
  · rw [h0]; rfl
  · rw [h0, hl]
    simp [hne]

/-! ### the top of `CreateMergePatch` -/

/-- the map a root value is read as: an object, normalised; `null` is an empty (nil) map;
everything else is an error -/
def rootL : Value → Option Members
  | .obj ms => some (anyOfM ms [])
  | .null => some []
  | _ => none

theorem asAnyMap_eq (c : Cst) : asAnyMap c = rootL c.valueOf := by
  simp only [asAnyMap]
  generalize c.valueOf = v
  cases v <;> simp [rootL, anyOf]

theorem createObject_eq (a b : Bytes) (ca cb : Cst) (ha : parseCst a = some ca) (hb : parseCst b = some cb) :
    createObject a b =
      match rootL ca.valueOf, rootL cb.valueOf with
      | some am, some bm => .ok (.obj (getDiff am bm))
      | _, _ => .err .badDoc := by
  simp only [createObject, ha, hb, asAnyMap_eq]
  cases rootL ca.valueOf <;> cases rootL cb.valueOf <;> rfl

theorem createObject_malformed (a b : Bytes) (h : parseCst a = none ∨ parseCst b = none) :
    createObject a b = .err .badDoc := by
  unfold createObject
  rcases h with h | h
  · simp [h]
  · cases parseCst a with
    | none => rfl
    | some ca =>
      simp only [h]
      cases asAnyMap ca <;> rfl

/-- the output text for a value -/
def createOut (v : Value) : Bytes :=
  respellBF ((Cst.print (Impl.marshalAny v)).length + 1) (Cst.print (Impl.marshalAny v))

theorem createMergePatch_nonarr (a b : Bytes) (ha : resemblesJSONArray a = false)
    (hb : resemblesJSONArray b = false) :
    createMergePatch a b =
      match createObject a b with
      | .ok v => .ok (createOut v)
      | .err e => .err e
      | .panic => .panic := by
  unfold createMergePatch
  simp only [ha, hb, Bool.false_eq_true, if_false, Bool.not_false, Bool.and_self, if_true]
  cases createObject a b <;> rfl

theorem createMergePatch_arr (a b : Bytes) (ha : resemblesJSONArray a = true)
    (hb : resemblesJSONArray b = true) (xs ys : List Cst)
    (pa : parseCst a = some (.arr xs)) (pb : parseCst b = some (.arr ys)) :
    createMergePatch a b =
      if xs.length ≠ ys.length then .err .badDoc
      else match createArray xs ys with
        | .ok vs => .ok (createOut (.arr vs))
        | .err e => .err e
        | .panic => .panic := by
  unfold createMergePatch
  simp only [ha, hb, Bool.and_self, if_true, pa, pb]
  split
  · rfl
  · cases createArray xs ys with
    | ok vs => simp only [createOut, Impl.marshalAny, Impl.marshalAny_arr]
    | err e => rfl
    | panic => rfl

theorem createMergePatch_mixed (a b : Bytes) (h : resemblesJSONArray a ≠ resemblesJSONArray b) :
    createMergePatch a b = .err .badMergeTypes := by
  unfold createMergePatch
  cases ha : resemblesJSONArray a <;> cases hb : resemblesJSONArray b <;> simp_all

/-! ### the produced value survives the text round trip -/

theorem GVM_rootL (d : Nat) (v : Value) (ms : Members) (h : GV d v = true) (hr : rootL v = some ms) :
    GVM (d - 1) ms = true := by
  cases v with
  | obj A =>
    simp only [rootL, Option.some.injEq] at hr
    subst hr
    have := Impl.GV_anyOf (.obj A) d h
    simp only [anyOf] at this
    exact ((Impl.GV_obj d _).1 this).2
  | null =>
    simp only [rootL, Option.some.injEq] at hr
    subst hr; rfl
  | _ => simp [rootL] at hr

theorem GV_getDiff_rootL (d : Nat) (ca cb : Cst) (am bm : Members) (hd : 1 ≤ d) (ha : GC d ca) (hb : GC d cb)
    (hra : rootL ca.valueOf = some am) (hrb : rootL cb.valueOf = some bm) :
    GV d (.obj (getDiff am bm)) = true := by
  rw [Impl.GV_obj]
  exact ⟨hd, Impl.GVM_getDiff _ _ _ (GVM_rootL d _ am (Impl.GV_valueOf ca d ha) hra)
    (GVM_rootL d _ bm (Impl.GV_valueOf cb d hb) hrb)⟩

theorem createArray_ok_GV (d : Nat) : ∀ (xs ys : List Cst) (vs : List Value), 1 ≤ d → GCL d xs → GCL d ys →
    createArray xs ys = .ok vs → GVL d vs = true
  | [], _, vs, _, _, _, h => by
    simp only [createArray, Impl.Outcome.ok.injEq] at h; subst h; rfl
  | _ :: _, [], _, _, _, _, h => by simp [createArray] at h
  | x :: xs, y :: ys, vs, hd, hx, hy, h => by
    rw [GCL_cons] at hx hy
    simp only [createArray, asAnyMap_eq] at h
    cases hra : rootL x.valueOf with
    | none => rw [hra] at h; simp at h
    | some am =>
      cases hrb : rootL y.valueOf with
      | none => rw [hra, hrb] at h; simp at h
      | some bm =>
        rw [hra, hrb] at h
        simp only at h
        cases hr : createArray xs ys with
        | err e => rw [hr] at h; simp at h
        | panic => rw [hr] at h; simp at h
        | ok vs' =>
          rw [hr] at h
          simp only [Impl.Outcome.ok.injEq] at h
          subst h
          simp only [GVL, Bool.and_eq_true]
          exact ⟨GV_getDiff_rootL d x y am bm hd hx.1 hy.1 hra hrb,
            createArray_ok_GV d xs ys vs' hd hx.2 hy.2 hr⟩

theorem parseValueOf_createOut (v : Value) (h : GV maxDepth v = true) :
    parseValueOf (createOut v) = some v :=
  parseValueOf_respell_marshal_GV v h _ (by simp only [Impl.marshalAny]; omega)

theorem parseCst_createOut (v : Value) (h : GV maxDepth v = true) :
    (parseCst (createOut v)).isSome = true := by
  have := parseValueOf_createOut v h
  unfold parseValueOf at this
  cases hc : parseCst (createOut v) with
  | none => rw [hc] at this; cases this
  | some c => rfl

/-- arrays of objects: the element-wise diffs -/
theorem createArray_objs : ∀ (xs ys : List Cst) (As Bs : List Members),
    Cst.valueOfL xs = As.map Value.obj → Cst.valueOfL ys = Bs.map Value.obj → As.length = Bs.length →
    createArray xs ys =
      .ok (List.zipWith (fun A B => Value.obj (getDiff (anyOfM A []) (anyOfM B []))) As Bs)
  | [], [], [], [], _, _, _ => rfl
  | [], _, _ :: _, _, h, _, _ => by simp [Cst.valueOfL] at h
  | _ :: _, _, [], _, h, _, _ => by simp [Cst.valueOfL] at h
  | _, [], _, _ :: _, _, h, _ => by simp [Cst.valueOfL] at h
  | _, _ :: _, _, [], _, h, _ => by simp [Cst.valueOfL] at h
  | x :: xs, y :: ys, A :: As, B :: Bs, hx, hy, hl => by
    simp only [Cst.valueOfL, List.map_cons, List.cons.injEq] at hx hy
    have ih := createArray_objs xs ys As Bs hx.2 hy.2 (by simpa using hl)
    simp only [createArray, asAnyMap_eq, hx.1, hy.1, rootL, ih, List.zipWith_cons_cons]

/-- what a root (or an array element) is read as: an object gives its members, `null` an empty map -/
def membersOrNull : Value → Option Members
  | .obj ms => some ms
  | .null => some []
  | _ => none

theorem rootL_of_membersOrNull {v : Value} {A : Members} (h : membersOrNull v = some A) :
    rootL v = some (anyOfM A []) := by
  cases v <;> simp [membersOrNull] at h <;> subst h <;> rfl

/-- arrays whose elements are objects or `null`: the element-wise diffs -/
theorem createArray_mems : ∀ (xs ys : List Cst) (As Bs : List Members),
    (Cst.valueOfL xs).map membersOrNull = As.map some → (Cst.valueOfL ys).map membersOrNull = Bs.map some →
    As.length = Bs.length →
    createArray xs ys =
      .ok (List.zipWith (fun A B => Value.obj (getDiff (anyOfM A []) (anyOfM B []))) As Bs)
  | [], [], [], [], _, _, _ => rfl
  | [], _, _ :: _, _, h, _, _ => by simp [Cst.valueOfL] at h
  | _ :: _, _, [], _, h, _, _ => by simp [Cst.valueOfL] at h
  | _, [], _, _ :: _, _, h, _ => by simp [Cst.valueOfL] at h
  | _, _ :: _, _, [], _, h, _ => by simp [Cst.valueOfL] at h
  | x :: xs, y :: ys, A :: As, B :: Bs, hx, hy, hl => by
    simp only [Cst.valueOfL, List.map_cons, List.cons.injEq] at hx hy
    have ih := createArray_mems xs ys As Bs hx.2 hy.2 (by simpa using hl)
    simp only [createArray, asAnyMap_eq, rootL_of_membersOrNull hx.1, rootL_of_membersOrNull hy.1, ih,
      List.zipWith_cons_cons]

/-! ### RFC 7396 merge respects `eqv` in the document argument -/

theorem merge_congr_doc : ∀ (p t t' : Value), noDup t = true → noDup t' = true → noDup p = true →
    eqv t' t = true → eqv (Spec.merge t' p) (Spec.merge t p) = true := by
  have nonobj : ∀ (p t t' : Value), p.isObj = false → noDup p = true →
      eqv (Spec.merge t' p) (Spec.merge t p) = true := by
    intro p t t' hp hn
    rw [Spec.merge_of_not_obj t hp, Spec.merge_of_not_obj t' hp]
    exact eqv_refl p hn
  apply Value.ind
  · intro t t' _ _ hp _; exact nonobj _ t t' rfl hp
  · intro b t t' _ _ hp _; exact nonobj _ t t' rfl hp
  · intro l t t' _ _ hp _; exact nonobj _ t t' rfl hp
  · intro s t t' _ _ hp _; exact nonobj _ t t' rfl hp
  · intro xs _ t t' _ _ hp _; exact nonobj _ t t' rfl hp
  · intro ps ih t t' ht ht' hp he
    rw [Spec.merge_obj, Spec.merge_obj]
    have np := (noDup_obj ps).1 hp
    rw [eqv_obj_iff (Spec.nodupKeys_mergeMs ps _ (Spec.nodupKeys_mems ht'))]
    intro k
    rw [Spec.lookup_mergeMs k ps np.1, Spec.lookup_mergeMs k ps np.1]
    -- the members of the two documents under `k`
    have ok : optEqv (lookup k (Spec.mems t')) (lookup k (Spec.mems t)) = true := by
      cases t with
      | obj ts =>
        obtain ⟨ts', rfl⟩ := eqv_obj_right he
        exact optEqv_of_eqv_obj he k
      | null => have := (eqv_null_right t').1 he; subst this; rfl
      | bool b => cases t' <;> simp [eqv] at he <;> rfl
      | num l => cases t' <;> simp [eqv] at he <;> rfl
      | str s => cases t' <;> simp [eqv] at he <;> rfl
      | arr xs => cases t' <;> simp [eqv] at he <;> rfl
    have hts : ∀ v, lookup k (Spec.mems t) = some v → noDup v = true :=
      fun v hv => noDup_of_lookup (Spec.noDupM_mems ht) hv
    have hts' : ∀ v, lookup k (Spec.mems t') = some v → noDup v = true :=
      fun v hv => noDup_of_lookup (Spec.noDupM_mems ht') hv
    cases hl : lookup k ps with
    | none => simpa only [Spec.mergeOpt_none] using ok
    | some pk =>
      by_cases hn : pk = .null
      · subst hn; rfl
      · rw [Spec.mergeOpt_of_ne_null _ hn, Spec.mergeOpt_of_ne_null _ hn]
        simp only [optEqv_some_some]
        have hpk := noDup_of_lookup np.2 hl
        refine ih k pk (mem_of_lookup hl) _ _ (Spec.noDup_getD_lookup (Spec.noDupM_mems ht) k)
          (Spec.noDup_getD_lookup (Spec.noDupM_mems ht') k) hpk ?_
        cases h1 : lookup k (Spec.mems t') with
        | none =>
          rw [h1] at ok
          cases h2 : lookup k (Spec.mems t) with
          | none => rfl
          | some w => rw [h2] at ok; cases ok
        | some w' =>
          rw [h1] at ok
          cases h2 : lookup k (Spec.mems t) with
          | none => rw [h2] at ok; cases ok
          | some w => rw [h2] at ok; simpa using ok

end Legacy
end JP
