import JP.World.Pool

/-!
# Lemmas on the pooled objects: what each entry point computes does not depend on the leftover
-/

namespace JP
namespace World

open Impl

/-! ## scanner -/

theorem resetScan_eq (s : Scanner.Scan) : resetScan s = Scanner.Scan.init := by
  simp [resetScan, Scanner.Scan.init]

theorem newScanner_scan (s : ScanState) : (newScanner s).scan = Scanner.Scan.init := by
  simp [newScanner, ScanState.reset, resetScan_eq]

theorem reset_scan (s : ScanState) : s.reset.scan = Scanner.Scan.init := by
  simp [ScanState.reset, resetScan_eq]

theorem runLeft_run (s : Scanner.Scan) (n : Nat) (bs : Bytes) :
    Scanner.run s bs = if (runLeft s n bs).2.2 then some (runLeft s n bs).1 else none := by
  induction bs generalizing s n with
  | nil => simp [Scanner.run, runLeft]
  | cons c cs ih =>
    simp only [Scanner.run, runLeft]
    by_cases hop : (Scanner.step s c).snd = Scanner.scanError
    · simp [hop]
    · simp only [hop, if_false]
      exact ih _ (n + 1)

theorem eofLeft_snd (s : Scanner.Scan) : (eofLeft s).2 = Scanner.eof s := by
  unfold eofLeft Scanner.eof
  by_cases h1 : s.err = true
  · simp [h1]
  · by_cases h2 : s.endTop = true
    · simp [h1, h2]
    · by_cases h3 : (Scanner.step s 32).1.endTop = true
      · simp [h1, h2, h3]
      · simp [h1, h2, h3]

theorem checkValidW_fst (left : ScanState) (data : Bytes) :
    (checkValidW left data).1 = Scanner.valid data := by
  unfold checkValidW Scanner.valid
  dsimp only
  rw [runLeft_run Scanner.Scan.init left.reset.bytes data, reset_scan]
  cases h : runLeft Scanner.Scan.init left.reset.bytes data with
  | mk s1 r =>
    cases r with
    | mk n ok =>
      cases ok with
      | false => simp
      | true => simp [eofLeft_snd]

theorem validW_fst (left : ScanState) (data : Bytes) : (validW left data).1 = Scanner.valid data := by
  simp [validW, checkValidW_fst]

theorem compactW_fst (left : ScanState) (esc : Bool) (src : Bytes) :
    (compactW left esc src).1 = Scanner.compact esc src := by
  unfold compactW Scanner.compact
  dsimp only
  rw [newScanner_scan]
  cases h : Scanner.compactLoop esc Scanner.Scan.init 0 src [] with
  | mk s1 out => simp [eofLeft_snd]

theorem indentW_fst (left : ScanState) (ind : Bytes) (src : Bytes) :
    (indentW left ind src).1 = Scanner.indent ind src := by
  unfold indentW Scanner.indent
  dsimp only
  rw [newScanner_scan]
  cases h : Scanner.indentLoop ind Scanner.Scan.init false 0 src [] with
  | mk s1 out => simp [eofLeft_snd]

/-! ## encoder -/

theorem marshalEscapedW_inv (left : EncState) (h : EncHavoc) (out : Outcome Bytes) (hl : left.Inv) :
    ∃ e', marshalEscapedW left h out = (out, some e') ∧ e'.Inv := by
  unfold EncState.Inv at hl
  have hne : newEncodeState left = .ok { left with buf := [], ptrLevel := 0 } := by
    simp [newEncodeState, hl]
  unfold marshalEscapedW
  rw [hne]
  simp only [marshalRun, hl]
  have hany : (h.ptrs.any fun p => ([] : List Nat).contains p) = false := by
    induction h.ptrs with
    | nil => rfl
    | cons a as ih => simp
  simp only [hany, Bool.false_eq_true, and_false, if_false]
  cases out with
  | ok text => exact ⟨_, rfl, rfl⟩
  | err x => exact ⟨_, rfl, rfl⟩
  | panic => exact ⟨_, rfl, rfl⟩

/-- whatever `Marshal` puts back satisfies the invariant when what it got did (also on errors
and foreign panics: the `defer`red deletes restore `ptrSeen`) -/
theorem marshalEscapedW_release_inv (left : EncState) (h : EncHavoc) (out : Outcome Bytes) (hl : left.Inv)
    (e' : EncState) (he : (marshalEscapedW left h out).2 = some e') : e'.Inv := by
  obtain ⟨e'', h1, h2⟩ := marshalEscapedW_inv left h out hl
  rw [h1] at he
  simp at he
  exact he ▸ h2

/-! ## decoder -/

theorem init_disallow (d : DecState) (data : Bytes) :
    (d.init data).disallowUnknownFields = d.disallowUnknownFields := rfl

theorem unmarshalCore_disallow (d : DecState) (tgt : Target) :
    (unmarshalCore d tgt).2.disallowUnknownFields = d.disallowUnknownFields := by
  unfold unmarshalCore
  cases hr : runLeft (resetScan d.scan.scan) d.scan.bytes (d.data.drop d.off) with
  | mk scEnd r =>
    cases r with
    | mk n b =>
      simp only
      cases hp : parseCst (d.data.drop d.off) with
      | none => rfl
      | some c =>
        simp only
        split
        · rfl
        · split
          · rfl
          · split
            · split <;> rfl
            · rfl

/-- every `Unmarshal*` variant puts back a state satisfying the invariant if it got one
(nothing in the lifecycle assigns `disallowUnknownFields`) -/
theorem unmarshalValid_release_inv (left : DecState) (data : Bytes) (tgt : Target) (hl : left.Inv) :
    (unmarshalValid left data tgt).2.Inv := by
  unfold DecState.Inv at *
  unfold unmarshalValid
  rw [unmarshalCore_disallow, init_disallow]
  exact hl

theorem unmarshal_release_inv (left : DecState) (data : Bytes) (tgt : Target) (hl : left.Inv) :
    (unmarshal left data tgt).2.Inv := by
  unfold DecState.Inv at *
  unfold unmarshal
  dsimp only
  split
  · rw [unmarshalCore_disallow, init_disallow]; exact hl
  · exact hl

theorem unmarshalValidWithKeys_release_inv (left : DecState) (data : Bytes) (hl : left.Inv) :
    (unmarshalValidWithKeys left data).2.2.Inv := by
  have := unmarshalValid_release_inv left data .mapLazy hl
  unfold unmarshalValidWithKeys
  cases h : unmarshalValid left data .mapLazy with
  | mk r d =>
    rw [h] at this
    cases r <;> exact this

/-- the decoded result as a function of the text and of the two flags the decoder consults -/
def decodePure (data : Bytes) (tgt : Target) (disallow floats : Bool) : DecOut :=
  match parseCst data with
  | none => .panic
  | some c =>
    if !tgt.accepts c then .typeErr []
    else match tgt, c with
      | .strct fields, .obj ms => if disallow && unknownFieldIn fields ms then .unknownField else .ok c floats
      | _, _ => .ok c floats

/-- after `init`, `unmarshal` depends on the text, `disallowUnknownFields` and `useNumber` only -/
theorem core_init_fst (d : DecState) (data : Bytes) (tgt : Target) :
    (unmarshalCore (d.init data) tgt).1 = decodePure data tgt d.disallowUnknownFields (!d.useNumber) := by
  unfold unmarshalCore decodePure
  simp only [DecState.init, List.drop_zero]
  cases hr : runLeft (resetScan d.scan.scan) d.scan.bytes data with
  | mk scEnd r =>
    cases r with
    | mk n b =>
      simp only
      cases hp : parseCst data with
      | none => rfl
      | some c =>
        simp only [Bool.false_eq_true, if_false]
        by_cases ha : tgt.accepts c = true
        · simp only [ha, Bool.not_true, Bool.false_eq_true, if_false]
          split
          · split <;> simp_all
          · simp_all
        · simp only [ha, Bool.not_false, if_true]
          cases d.errorContext <;> simp

theorem unmarshalValid_fst (left : DecState) (data : Bytes) (tgt : Target) :
    (unmarshalValid left data tgt).1 = decodePure data tgt left.disallowUnknownFields false := by
  unfold unmarshalValid
  rw [core_init_fst]
  rfl

/-- `UnmarshalValid` is independent of the leftover for every target the library uses; for a
struct target it is independent given the pool invariant -/
theorem unmarshalValid_indep (l₁ l₂ : DecState) (h₁ : l₁.Inv) (h₂ : l₂.Inv) (data : Bytes) (tgt : Target) :
    (unmarshalValid l₁ data tgt).1 = (unmarshalValid l₂ data tgt).1 := by
  rw [unmarshalValid_fst, unmarshalValid_fst, h₁, h₂]

theorem unmarshal_fst (left : DecState) (data : Bytes) (tgt : Target) :
    (unmarshal left data tgt).1 =
      if Scanner.valid data then decodePure data tgt left.disallowUnknownFields false else .syntax := by
  unfold unmarshal
  dsimp only
  rw [checkValidW_fst]
  split
  · rw [core_init_fst]; rfl
  · rfl

/-- the leftover key list after the decode -/
theorem unmarshalValid_lastKeys (left : DecState) (data : Bytes) (tgt : Target) (c : Cst)
    (hp : parseCst data = some c) :
    (unmarshalValid left data tgt).2.lastKeys = tgt.keysAfter c left.lastKeys := by
  unfold unmarshalValid unmarshalCore
  simp only [DecState.init, List.drop_zero]
  cases hr : runLeft (resetScan left.scan.scan) left.scan.bytes data with
  | mk scEnd r =>
    cases r with
    | mk n b =>
      simp only [hp, Bool.false_eq_true, if_false]
      split
      · rfl
      · split
        · split <;> rfl
        · rfl

/-- what `partialDoc.UnmarshalJSON` yields, leftover made explicit: the keys of a `null`
document are the previous user's -/
def pdocPure (stale : List Bytes) (data : Bytes) : Outcome PDoc :=
  match parseCst data with
  | none => .panic
  | some (.obj ms) => .ok { keys := decodeKeys ms, obj := some (decodeMembers ms []) }
  | some c => if c.isNullLit then .ok { keys := stale, obj := none } else .err .other

theorem partialDocUnmarshal_fst (left : DecState) (data : Bytes) :
    (partialDocUnmarshal left data).1 = pdocPure left.lastKeys data := by
  unfold partialDocUnmarshal unmarshalValidWithKeys pdocPure
  have h1 := unmarshalValid_fst left data .mapLazy
  cases hu : unmarshalValid left data .mapLazy with
  | mk r d =>
    rw [hu] at h1
    simp only at h1
    cases hp : parseCst data with
    | none =>
      simp only [decodePure, hp] at h1
      subst h1; rfl
    | some c =>
      have hk := unmarshalValid_lastKeys left data .mapLazy c hp
      rw [hu] at hk
      simp only at hk
      simp only [decodePure, hp] at h1
      cases c with
      | obj ms =>
        simp [Target.accepts, isObjOrNull, Cst.isObj] at h1
        subst h1
        simp [hk, Target.keysAfter]
      | lit s =>
        by_cases hn : (Cst.lit s).isNullLit = true
        · simp [Target.accepts, isObjOrNull, Cst.isObj, hn] at h1
          subst h1
          simp [hk, Target.keysAfter, hn]
        · simp [Target.accepts, isObjOrNull, Cst.isObj, hn] at h1
          subst h1
          simp [hn]
      | str b =>
        simp [Target.accepts, isObjOrNull, Cst.isObj, Cst.isNullLit] at h1
        subst h1
        simp [Cst.isNullLit]
      | arr xs =>
        simp [Target.accepts, isObjOrNull, Cst.isObj, Cst.isNullLit] at h1
        subst h1
        simp [Cst.isNullLit]

/-- seen through the pure model's nodes the stale keys are gone: this is `decodeRoot`
restricted to the `partialDoc` container -/
theorem pdocPure_toNode (stale : List Bytes) (data : Bytes) (c : Cst) (hp : parseCst data = some c)
    (hc : c.isArr = false) :
    mapOutcome PDoc.toNode (pdocPure stale data) = decodeRoot c := by
  unfold pdocPure decodeRoot
  rw [hp]
  cases c with
  | obj ms => simp [mapOutcome, PDoc.toNode, decodeDoc]
  | lit s =>
    by_cases hn : s = ascii "null"
    · simp [Cst.isNullLit, hn, mapOutcome, PDoc.toNode]
    · simp [Cst.isNullLit, hn, mapOutcome]
  | str b => simp [Cst.isNullLit, mapOutcome]
  | arr xs => simp [Cst.isArr] at hc

theorem partialAryUnmarshal_fst (left : DecState) (data : Bytes) (xs : List Cst)
    (hp : parseCst data = some (.arr xs)) :
    (partialAryUnmarshal left data).1 = .ok (decodeAry xs) := by
  unfold partialAryUnmarshal
  have h1 := unmarshalValid_fst left data .sliceLazy
  cases hu : unmarshalValid left data .sliceLazy with
  | mk r d =>
    rw [hu] at h1
    simp only at h1
    simp [decodePure, hp, Target.accepts, Cst.isArr] at h1
    subst h1
    rfl

theorem delegate_fst (left : DecState) (data : Bytes) (c : Cst) (hp : parseCst data = some c) :
    (unmarshalValid left data .delegate).1 = .ok c false := by
  rw [unmarshalValid_fst]
  simp [decodePure, hp, Target.accepts]

end World
end JP
