import JP.Codec.TypedDecode

set_option linter.unusedSimpArgs false

/-!
# The typed decoder model on the library's own target shapes = the decoder model of `Decode.lean`

A simulation by induction on the fuel: on `interface{}`, `string`, `map[string]T`, `[]T` the functions of
`TypedDecode.lean` take the same scanner steps as those of `Decode.lean`, end in the same `DState`, and
produce the same Go value.
-/

namespace JP
namespace Codec
namespace TDec

open Scanner
open JP.Codec.Typed

/-- the targets of `Decode.lean` that are plain Go types (no `Unmarshaler`) -/
def rawFree : Target → Bool
  | .raw _ => false
  | .str => true
  | .any => true
  | .mapOf t => rawFree t
  | .sliceOf t => rawFree t

/-- the `GoType` of a target -/
def tyOf : Target → GoType
  | .raw _ => .bool
  | .str => .string
  | .any => .iface
  | .mapOf t => .map .str (tyOf t)
  | .sliceOf t => .slice (tyOf t)

def goOfMs (f : DVal → GoVal) : DMembers → List (MapKey × GoVal)
  | [] => []
  | (k, v) :: ms => (.str k, f v) :: goOfMs f ms

/-- a decoded value of `Decode.lean` as a typed Go value -/
def goOf : Target → DVal → GoVal
  | .any, v => ifaceOf v
  | .str, .str s => .str s
  | .str, _ => .nil
  | .mapOf e, .map ms => .map (goOfMs (goOf e) ms)
  | .mapOf _, _ => .nil
  | .sliceOf e, .list xs => .list (xs.map (goOf e))
  | .sliceOf _, _ => .nil
  | .raw _, _ => .nil

/-- the outcomes correspond: same state, values related by `P` -/
def Sim {α β : Type} (P : α → β → Prop) : Exec (DState × α) → R β → Prop
  | .ok (d1, v), r => ∃ w, r = .ok d1 w ∧ P v w
  | .panic, r => r = .panic
  | .fuel, r => r = .fuel

def RelV (t : Target) (v : DVal) (w : DV) : Prop := toGoVal (tyOf t) w = goOf t v

theorem tyOf_not_uint8 (t : Target) : (tyOf t).isUint8 = false := by
  cases t <;> rfl

theorem tyOf_not_ptr (t : Target) : (tyOf t).isPtr = false := by
  cases t <;> rfl

theorem derefT_tyOf (t : Target) : derefT (tyOf t) = tyOf t := by
  cases t <;> rfl

theorem derefV_tyOf (t : Target) (v : DV) : derefV (tyOf t) v = v := by
  cases t <;> rfl

theorem rewrap_tyOf (t : Target) (v : DV) : rewrap (tyOf t) v = v := by
  cases t <;> rfl

theorem zero_rel (t : Target) (h : rawFree t = true) : RelV t (zero t) (zeroDV (tyOf t)) := by
  cases t with
  | raw p => simp [rawFree] at h
  | str => simp [RelV, zero, zeroG, tyOf, zeroDV, toGoVal, goOf]
  | any => simp [RelV, zero, zeroG, tyOf, zeroDV, toGoVal, goOf, ifaceOf]
  | mapOf e => simp [RelV, zero, zeroG, tyOf, zeroDV, toGoVal, goOf]
  | sliceOf e => simp [RelV, zero, zeroG, tyOf, zeroDV, toGoVal, goOf]

theorem sim_ok {α β : Type} (P : α → β → Prop) (d1 : DState) (v : α) (w : β) (h : P v w) :
    Sim P (.ok (d1, v)) (.ok d1 w) := ⟨w, rfl, h⟩

theorem literalStore_sim (item : Bytes) (t : Target) (d : DState) (h : rawFree t = true) :
    Sim (RelV t) (Codec.literalStore item t d) (literalStore item (tyOf t) (zeroDV (tyOf t)) true false d) := by
  cases item with
  | nil =>
    simp only [Codec.literalStore, literalStore]
    exact sim_ok _ _ _ _ (zero_rel t h)
  | cons c rest =>
    have hz := zero_rel t h
    cases t with
    | raw p => simp [rawFree] at h
    | str =>
      simp only [Codec.literalStore, literalStore, isUnmarshaler, tyOf, GoType.isPtr, GoType.nilable, derefT, derefV, zeroDV]
      by_cases h1 : c = 110
      · simp [h1, Sim, RelV, zero, zeroG, tyOf, toGoVal, goOf]
      · by_cases h2 : c = 116 ∨ c = 102
        · simp [h1, h2, Sim, RelV, zero, zeroG, tyOf, toGoVal, goOf, storeBool, R.map, rewrap]
        · by_cases h3 : c = 34
          · subst h3
            cases hu : unquoteBytes (34 :: rest) <;>
              simp [h1, h2, hu, Sim, RelV, zero, zeroG, tyOf, toGoVal, goOf, storeString, R.map, rewrap]
          · by_cases h4 : ¬c = 45 ∧ isDigit c = false
            · simp [h1, h2, h3, h4, Sim]
            · simp [h1, h2, h3, h4, Sim, RelV, zero, zeroG, tyOf, toGoVal, goOf, storeNumber, R.map, rewrap]
    | any =>
      simp only [Codec.literalStore, literalStore, isUnmarshaler, tyOf, GoType.isPtr, GoType.nilable, derefT, derefV, zeroDV]
      by_cases h1 : c = 110
      · simp [h1, Sim, RelV, zero, zeroG, tyOf, toGoVal, goOf, ifaceOf]
      · by_cases h2 : c = 116 ∨ c = 102
        · simp [h1, h2, Sim, RelV, zero, zeroG, tyOf, toGoVal, goOf, storeBool, R.map, rewrap, ifaceOf]
        · by_cases h3 : c = 34
          · subst h3
            cases hu : unquoteBytes (34 :: rest) <;>
              simp [h1, hu, Sim, RelV, zero, zeroG, tyOf, toGoVal, goOf, storeString, R.map, rewrap, ifaceOf]
          · by_cases h4 : ¬c = 45 ∧ isDigit c = false
            · simp [h1, h2, h3, h4, Sim]
            · simp [h1, h2, h3, h4, Sim, RelV, zero, zeroG, tyOf, toGoVal, goOf, storeNumber, R.map, rewrap, ifaceOf]
    | mapOf e =>
      simp only [Codec.literalStore, literalStore, isUnmarshaler, tyOf, GoType.isPtr, GoType.nilable, derefT, derefV, zeroDV]
      by_cases h1 : c = 110
      · simp [h1, Sim, RelV, zero, zeroG, tyOf, toGoVal, goOf]
      · by_cases h2 : c = 116 ∨ c = 102
        · simp [h1, h2, Sim, RelV, zero, zeroG, tyOf, toGoVal, goOf, storeBool, R.map, rewrap]
        · by_cases h3 : c = 34
          · subst h3
            cases hu : unquoteBytes (34 :: rest) <;>
              simp [h1, hu, Sim, RelV, zero, zeroG, tyOf, toGoVal, goOf, storeString, R.map, rewrap]
          · by_cases h4 : ¬c = 45 ∧ isDigit c = false
            · simp [h1, h2, h3, h4, Sim]
            · simp [h1, h2, h3, h4, Sim, RelV, zero, zeroG, tyOf, toGoVal, goOf, storeNumber, R.map, rewrap]
    | sliceOf e =>
      simp only [Codec.literalStore, literalStore, isUnmarshaler, tyOf, GoType.isPtr, GoType.nilable, derefT, derefV, zeroDV]
      by_cases h1 : c = 110
      · simp [h1, Sim, RelV, zero, zeroG, tyOf, toGoVal, goOf]
      · by_cases h2 : c = 116 ∨ c = 102
        · simp [h1, h2, Sim, RelV, zero, zeroG, tyOf, toGoVal, goOf, storeBool, R.map, rewrap]
        · by_cases h3 : c = 34
          · subst h3
            cases hu : unquoteBytes (34 :: rest) <;>
              simp [h1, hu, Sim, RelV, zero, zeroG, tyOf, toGoVal, goOf, storeString, R.map, rewrap, tyOf_not_uint8]
          · by_cases h4 : ¬c = 45 ∧ isDigit c = false
            · simp [h1, h2, h3, h4, Sim]
            · simp [h1, h2, h3, h4, Sim, RelV, zero, zeroG, tyOf, toGoVal, goOf, storeNumber, R.map, rewrap]

/-! ## the simulation -/

def SimV (G : Nat) : Prop := ∀ t d, rawFree t = true →
  Sim (RelV t) (Codec.value G t d) (value G (tyOf t) (zeroDV (tyOf t)) true d)

def SimA (G : Nat) : Prop := ∀ t d, rawFree t = true →
  Sim (RelV t) (Codec.array G t d) (array G (tyOf t) (zeroDV (tyOf t)) true d)

def SimO (G : Nat) : Prop := ∀ t d, rawFree t = true →
  Sim (RelV t) (Codec.object G t d) (object G (tyOf t) (zeroDV (tyOf t)) true d)

def AllZero (e : Target) (spare : List DV) : Prop := ∀ s ∈ spare, s = zeroDV (tyOf e)

def SimAL (G : Nat) : Prop := ∀ e d acc xs spare, rawFree e = true →
  toGoValL (tyOf e) xs = acc.map (goOf e) → xs.length = acc.length → AllZero e spare →
  Sim (fun vs r => r.2.2 = r.1.length ∧ r.1.length = vs.length ∧ toGoValL (tyOf e) r.1 = vs.map (goOf e) ∧ AllZero e r.2.1)
    (Codec.arrayLoop G e d acc) (arrLoop G true (tyOf e) xs spare xs.length d)

def SimOL (G : Nat) : Prop := ∀ e d m keys ms, rawFree e = true →
  toGoValM (tyOf e) ms = goOfMs (goOf e) m →
  Sim (fun r r' => toGoValM (tyOf e) r'.1 = goOfMs (goOf e) r.1 ∧ r'.2 = r.2)
    (Codec.objectLoop G e d m keys) (mapLoop G .str (tyOf e) ms keys d)

theorem simV_step (G : Nat) (hA : SimA G) (hO : SimO G) : SimV (G + 1) := by
  intro t d h
  simp only [Codec.value, value]
  by_cases h1 : d.opcode = scanBeginArray
  · simp only [h1, if_true]
    have := hA t d h
    cases hc : Codec.array G t d with
    | ok p =>
      obtain ⟨d1, v⟩ := p
      rw [hc] at this
      obtain ⟨w, hw, hr⟩ := this
      rw [hw]
      exact ⟨w, rfl, hr⟩
    | panic => rw [hc] at this; simp only [Sim] at this ⊢; rw [this]
    | fuel => rw [hc] at this; simp only [Sim] at this ⊢; rw [this]
  · simp only [h1, if_false]
    by_cases h2 : d.opcode = scanBeginObject
    · simp only [h2, if_true]
      have := hO t d h
      cases hc : Codec.object G t d with
      | ok p =>
        obtain ⟨d1, v⟩ := p
        rw [hc] at this
        obtain ⟨w, hw, hr⟩ := this
        rw [hw]
        exact ⟨w, rfl, hr⟩
      | panic => rw [hc] at this; simp only [Sim] at this ⊢; rw [this]
      | fuel => rw [hc] at this; simp only [Sim] at this ⊢; rw [this]
    · simp only [h2, if_false]
      by_cases h3 : d.opcode = scanBeginLiteral
      · simp only [h3, if_true]
        cases hr : rescanLiteral d with
        | panic => simp only [Sim]
        | fuel => simp only [Sim]
        | ok d1 =>
          simp only []
          cases hs : slice? d1.data d.readIndex d1.readIndex with
          | none => simp only [Sim]
          | some item => exact literalStore_sim item t d1 h
      · simp only [h3, if_false, Sim]

theorem typeErrorSkip_sim (k : JKind) (t : Target) (d : DState) (h : rawFree t = true) :
    Sim (RelV t) (Codec.typeErrorSkip k t d) (typeErrorSkip k (zeroDV (tyOf t)) d) := by
  simp only [Codec.typeErrorSkip, typeErrorSkip]
  cases hs : skip (d.saveError (.typeError k d.off)) with
  | ok d1 => exact sim_ok _ _ _ _ (zero_rel t h)
  | panic => simp only [Sim]
  | fuel => simp only [Sim]

theorem finishSlice_full (xs sp : List DV) : finishSlice xs sp xs.length = if xs.length = 0 then .slice [] [] else .slice xs sp := by
  simp only [finishSlice, Nat.lt_irrefl, if_false]

theorem simA_step (G : Nat) (hAL : SimAL G) : SimA (G + 1) := by
  intro t d h
  cases t with
  | raw p => simp [rawFree] at h
  | str =>
    simp only [Codec.array, array, isUnmarshaler, tyOf, GoType.isPtr, derefT, derefV, rewrap, zeroDV]
    exact typeErrorSkip_sim .array .str d h
  | mapOf e =>
    simp only [Codec.array, array, isUnmarshaler, tyOf, GoType.isPtr, derefT, derefV, rewrap, zeroDV]
    exact typeErrorSkip_sim .array (.mapOf e) d h
  | any =>
    simp only [Codec.array, array, isUnmarshaler, tyOf, GoType.isPtr, derefT, derefV, rewrap, zeroDV]
    cases hc : arrayInterface G d [] with
    | ok p =>
      obtain ⟨d1, vs⟩ := p
      exact sim_ok _ _ _ _ (by simp [RelV, tyOf, toGoVal, goOf, ifaceOf])
    | panic => simp [Sim]
    | fuel => simp [Sim]
  | sliceOf e =>
    simp only [Codec.array, array, isUnmarshaler, tyOf, GoType.isPtr, derefT, derefV, rewrap, zeroDV, sliceXs, sliceSpare]
    have := hAL e d [] [] [] (by simpa [rawFree] using h) rfl rfl (by intro s hs; cases hs)
    cases hc : Codec.arrayLoop G e d [] with
    | ok p =>
      obtain ⟨d1, vs⟩ := p
      rw [hc] at this
      obtain ⟨r, hr, h1, h2, h3, _⟩ := this
      simp only [List.length_nil] at hr
      simp only [Bool.false_and, Bool.false_eq_true, if_false, hr]
      refine sim_ok _ _ _ _ ?_
      rw [h1, finishSlice_full]
      by_cases h0 : r.1.length = 0
      · have e1 : r.1 = [] := List.eq_nil_of_length_eq_zero h0
        have e2 : vs = [] := List.eq_nil_of_length_eq_zero (by omega)
        simp [RelV, tyOf, toGoVal, goOf, h0, e2, tyOf_not_uint8, toGoValL]
      · simp [RelV, tyOf, toGoVal, goOf, h0, tyOf_not_uint8, h3]
    | panic =>
      rw [hc] at this
      simp only [Sim, List.length_nil] at this
      simp [this, Sim]
    | fuel =>
      rw [hc] at this
      simp only [Sim, List.length_nil] at this
      simp [this, Sim]

theorem take_succ_append {α : Type} (xs : List α) (a : α) (r : List α) :
    (xs ++ a :: r).take (xs.length + 1) = xs ++ [a] := by
  induction xs with
  | nil => simp
  | cons x xs ih => simp [ih]

theorem drop_succ_append {α : Type} (xs : List α) (a : α) (r : List α) :
    (xs ++ a :: r).drop (xs.length + 1) = r := by
  induction xs with
  | nil => simp
  | cons x xs ih => simp [ih]

theorem set_length_append {α : Type} (xs : List α) (a b : α) : (xs ++ [a]).set xs.length b = xs ++ [b] := by
  induction xs with
  | nil => simp
  | cons x xs ih => simp [ih]

theorem getElem?_length_append {α : Type} (xs : List α) (a : α) : (xs ++ [a])[xs.length]? = some a := by
  simp

theorem growSlice_fresh (e : GoType) (xs spare : List DV) (hz : ∀ s ∈ spare, s = zeroDV e) :
    ∃ sp', growSlice e xs spare xs.length = (xs ++ [zeroDV e], sp') ∧ ∀ s ∈ sp', s = zeroDV e := by
  cases spare with
  | nil =>
    simp only [growSlice, List.length_nil, Nat.add_zero, ge_iff_le, Nat.le_refl, if_true]
    have hN : ∃ k, (if xs.length + xs.length / 2 < 4 then 4 else xs.length + xs.length / 2) - xs.length = k + 1 := by
      by_cases h4 : xs.length + xs.length / 2 < 4
      · rw [if_pos h4]; exact ⟨4 - xs.length - 1, by omega⟩
      · rw [if_neg h4]; exact ⟨xs.length / 2 - 1, by omega⟩
    obtain ⟨k, hk⟩ := hN
    rw [hk, List.replicate_succ, take_succ_append, drop_succ_append]
    exact ⟨_, rfl, fun s hs => (List.mem_replicate.1 hs).2⟩
  | cons z sp =>
    have hz0 : z = zeroDV e := hz z (by simp)
    have hcap : ¬ (xs.length ≥ xs.length + (z :: sp).length) := by simp
    simp only [growSlice, hcap, if_false, ge_iff_le, Nat.le_refl, if_true]
    rw [take_succ_append, drop_succ_append, hz0]
    exact ⟨sp, rfl, fun s hs => hz s (by simp [hs])⟩

theorem toGoValL_append (e : GoType) (xs : List DV) (w : DV) :
    toGoValL e (xs ++ [w]) = toGoValL e xs ++ [toGoVal e w] := by
  induction xs with
  | nil => simp [toGoValL]
  | cons x xs ih => simp [toGoValL, ih]

theorem simAL_step (G : Nat) (hV : SimV G) (hAL : SimAL G) : SimAL (G + 1) := by
  intro e d acc xs spare h hx hlen hz
  simp only [Codec.arrayLoop, arrLoop]
  by_cases h1 : (scanWhile scanSkipSpace d).opcode = scanEndArray
  · simp only [h1, if_true]
    exact sim_ok _ _ _ _ ⟨rfl, hlen, hx, hz⟩
  · simp only [h1, if_false]
    obtain ⟨sp', hg, hz'⟩ := growSlice_fresh (tyOf e) xs spare hz
    simp only [hg, elemStep, if_true, getElem?_length_append, set_length_append]
    have := hV e (scanWhile scanSkipSpace d) h
    cases hc : Codec.value G e (scanWhile scanSkipSpace d) with
    | panic => rw [hc] at this; simp only [Sim] at this; simp [this, Sim, R.map]
    | fuel => rw [hc] at this; simp only [Sim] at this; simp [this, Sim, R.map]
    | ok p =>
      obtain ⟨d2, v⟩ := p
      rw [hc] at this
      obtain ⟨w, hw, hr⟩ := this
      simp only [hw, R.map]
      have hx' : toGoValL (tyOf e) (xs ++ [w]) = (acc ++ [v]).map (goOf e) := by
        rw [toGoValL_append, hx, List.map_append]
        simp only [List.map_cons, List.map_nil]
        rw [show toGoVal (tyOf e) w = goOf e v from hr]
      have hlen' : (xs ++ [w]).length = (acc ++ [v]).length := by simp [hlen]
      by_cases h2 : (skipSpaceIf d2).opcode = scanEndArray
      · simp only [h2, if_true]
        exact sim_ok _ _ _ _ ⟨by simp, hlen', hx', hz'⟩
      · simp only [h2, if_false]
        by_cases h3 : (skipSpaceIf d2).opcode ≠ scanArrayValue
        · rw [if_pos h3, if_pos h3]; simp only [Sim]
        · rw [if_neg h3, if_neg h3]
          have := hAL e (skipSpaceIf d2) (acc ++ [v]) (xs ++ [w]) sp' h hx' hlen' hz'
          simpa using this

theorem setKey_setD (e' : GoType) (f : DVal → GoVal) (k : Bytes) (v : DVal) (w : DV) (hw : toGoVal e' w = f v) :
    ∀ (m : DMembers) (ms : List (MapKey × DV)), toGoValM e' ms = goOfMs f m →
      toGoValM e' (setKey (.str k) w ms) = goOfMs f (setD k v m) := by
  intro m
  induction m with
  | nil =>
    intro ms h
    cases ms with
    | nil => simp [setKey, setD, toGoValM, goOfMs, hw]
    | cons a ms => obtain ⟨kk, ww⟩ := a; simp [toGoValM, goOfMs] at h
  | cons a m ih =>
    intro ms h
    obtain ⟨k', v'⟩ := a
    cases ms with
    | nil => simp [toGoValM, goOfMs] at h
    | cons b ms =>
      obtain ⟨kk, ww⟩ := b
      simp only [toGoValM, goOfMs, List.cons.injEq, Prod.mk.injEq] at h
      obtain ⟨⟨hk, hv⟩, ht⟩ := h
      subst hk
      by_cases hkk : k' = k
      · subst hkk
        simp [setKey, setD, toGoValM, goOfMs, hw, ht]
      · have : ¬ (MapKey.str k' = MapKey.str k) := by intro hh; injection hh with hh; exact hkk hh
        simp [setKey, setD, toGoValM, goOfMs, hkk, this, hv, ih ms ht]

theorem simO_step (G : Nat) (hOL : SimOL G) : SimO (G + 1) := by
  intro t d h
  cases t with
  | raw p => simp [rawFree] at h
  | str =>
    simp only [Codec.object, object, isUnmarshaler, tyOf, GoType.isPtr, derefT, derefV, rewrap, zeroDV]
    exact typeErrorSkip_sim .object .str d h
  | sliceOf e =>
    simp only [Codec.object, object, isUnmarshaler, tyOf, GoType.isPtr, derefT, derefV, rewrap, zeroDV]
    exact typeErrorSkip_sim .object (.sliceOf e) d h
  | any =>
    simp only [Codec.object, object, isUnmarshaler, tyOf, GoType.isPtr, derefT, derefV, rewrap, zeroDV]
    cases hc : objectInterface G d [] with
    | ok p =>
      obtain ⟨d1, m⟩ := p
      exact sim_ok _ _ _ _ (by simp [RelV, tyOf, toGoVal, goOf, ifaceOf])
    | panic => simp [Sim]
    | fuel => simp [Sim]
  | mapOf e =>
    simp only [Codec.object, object, isUnmarshaler, tyOf, GoType.isPtr, derefT, derefV, rewrap, zeroDV, mapMs]
    have := hOL e d [] [] [] (by simpa [rawFree] using h) rfl
    cases hc : Codec.objectLoop G e d [] [] with
    | ok p =>
      obtain ⟨d1, m, keys⟩ := p
      rw [hc] at this
      obtain ⟨r, hr, h1, h2⟩ := this
      simp only [Bool.false_and, Bool.false_eq_true, if_false, hr]
      rw [h2]
      exact sim_ok _ _ _ _ (by simp [RelV, tyOf, toGoVal, goOf, h1])
    | panic =>
      rw [hc] at this
      simp only [Sim] at this
      simp [this, Sim]
    | fuel =>
      rw [hc] at this
      simp only [Sim] at this
      simp [this, Sim]

theorem simOL_step (G : Nat) (hV : SimV G) (hOL : SimOL G) : SimOL (G + 1) := by
  intro e d m keys ms h hm
  simp only [Codec.objectLoop, mapLoop]
  by_cases h1 : (scanWhile scanSkipSpace d).opcode = scanEndObject
  · simp only [h1, if_true]
    exact sim_ok _ _ _ _ ⟨hm, rfl⟩
  · rw [if_neg h1, if_neg h1]
    by_cases h2 : (scanWhile scanSkipSpace d).opcode ≠ scanBeginLiteral
    · rw [if_pos h2, if_pos h2]; simp only [Sim]
    · rw [if_neg h2, if_neg h2]
      simp only [readKey]
      cases hr : rescanLiteral (scanWhile scanSkipSpace d) with
      | panic => simp only [Sim]
      | fuel => simp only [Sim]
      | ok d2 =>
        simp only []
        cases hs : slice? d2.data (scanWhile scanSkipSpace d).readIndex d2.readIndex with
        | none => simp only [Sim]
        | some item =>
          simp only []
          cases hu : unquoteBytes item with
          | none => simp only [Sim]
          | some key =>
            simp only []
            by_cases h3 : (skipSpaceIf d2).opcode ≠ scanObjectKey
            · rw [if_pos h3, if_pos h3]; simp only [Sim]
            · rw [if_neg h3, if_neg h3]
              simp only []
              have := hV e (scanWhile scanSkipSpace (skipSpaceIf d2)) h
              cases hc : Codec.value G e (scanWhile scanSkipSpace (skipSpaceIf d2)) with
              | panic => rw [hc] at this; simp only [Sim] at this; simp [this, Sim]
              | fuel => rw [hc] at this; simp only [Sim] at this; simp [this, Sim]
              | ok p =>
                obtain ⟨d5, v⟩ := p
                rw [hc] at this
                obtain ⟨w, hw, hr'⟩ := this
                simp only [hw, storeEntry, mapKeyOf]
                have hm' := setKey_setD (tyOf e) (goOf e) key v w hr' m ms hm
                by_cases h4 : (skipSpaceIf d5).opcode = scanEndObject
                · simp only [h4, if_true]
                  exact sim_ok _ _ _ _ ⟨hm', rfl⟩
                · simp only [h4, if_false]
                  by_cases h5 : (skipSpaceIf d5).opcode = scanObjectValue
                  · simp only [h5, ne_eq, not_true_eq_false, if_false]
                    exact hOL e (skipSpaceIf d5) (setD key v m) (keys ++ [key]) _ h hm'
                  · simp only [h5, ne_eq, not_false_eq_true, if_true, Sim]

theorem sim_all : ∀ G, SimV G ∧ SimA G ∧ SimAL G ∧ SimO G ∧ SimOL G := by
  intro G
  induction G with
  | zero =>
    refine ⟨?_, ?_, ?_, ?_, ?_⟩
    · intro t d _; simp [Codec.value, value, Sim]
    · intro t d _; simp [Codec.array, array, Sim]
    · intro e d acc xs spare _ _ _ _; simp [Codec.arrayLoop, arrLoop, Sim]
    · intro t d _; simp [Codec.object, object, Sim]
    · intro e d m keys ms _ _; simp [Codec.objectLoop, mapLoop, Sim]
  | succ G ih =>
    obtain ⟨hV, hA, hAL, hO, hOL⟩ := ih
    exact ⟨simV_step G hA hO, simA_step G hAL, simAL_step G hV hAL, simO_step G hOL, simOL_step G hV hOL⟩

end TDec
end Codec
end JP
