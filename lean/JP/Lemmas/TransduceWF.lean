import JP.Lemmas.TransduceInd
import JP.Lemmas.TextBody
import JP.Lemmas.ScanNum

/-!
# What the reference parser returns is well-formed

String bodies and number literals returned by the parser are complete and valid on their own
(`validBody`, `validLit`), the nesting depth is within the limit: `parseCst bs = some c → WFC c`.
Also: the input splits as consumed text followed by the rest.
-/

namespace JP

/-! ### strings -/

theorem parseStrBody_split (cs : Bytes) : ∀ (b r : Bytes), parseStrBody cs = some (b, r) →
    cs = b ++ 34 :: r ∧ VB b := by
  fun_induction parseStrBody cs <;> intro b r h
  all_goals try (simp at h; done)
  · simp only [Option.some.injEq, Prod.mk.injEq] at h
    obtain ⟨rfl, rfl⟩ := h
    exact ⟨rfl, VB_nil⟩
  · rename_i e cs' he _ ih
    cases hp : parseStrBody cs' with
    | none => rw [hp] at h; simp at h
    | some q =>
      obtain ⟨b', r'⟩ := q
      rw [hp] at h
      simp only [Option.map_some, Option.some.injEq, Prod.mk.injEq] at h
      obtain ⟨rfl, rfl⟩ := h
      obtain ⟨h1, h2⟩ := ih b' r' hp
      exact ⟨by rw [h1]; rfl, (VB_simple_iff e b' he).2 h2⟩
  · rename_i h1 h2 h3 h4 cs'' hh _ _ ih
    cases hp : parseStrBody cs'' with
    | none => rw [hp] at h; simp at h
    | some q =>
      obtain ⟨b', r'⟩ := q
      rw [hp] at h
      simp only [Option.map_some, Option.some.injEq, Prod.mk.injEq] at h
      obtain ⟨rfl, rfl⟩ := h
      obtain ⟨e1, e2⟩ := ih b' r' hp
      simp only [Bool.and_eq_true] at hh
      exact ⟨by rw [e1]; rfl, (VB_u_iff h1 h2 h3 h4 b').2 ⟨⟨hh.1.1.1, hh.1.1.2, hh.1.2, hh.2⟩, e2⟩⟩
  · rename_i c cs h34 h92 hlt ih
    cases hp : parseStrBody cs with
    | none => rw [hp] at h; simp at h
    | some q =>
      obtain ⟨b', r'⟩ := q
      rw [hp] at h
      simp only [Option.map_some, Option.some.injEq, Prod.mk.injEq] at h
      obtain ⟨rfl, rfl⟩ := h
      obtain ⟨e1, e2⟩ := ih b' r' hp
      exact ⟨by rw [e1]; rfl, (VB_plain_iff c b' h92).2 ⟨h34, by omega, e2⟩⟩

/-! ### numbers: the literal returned is a complete number by itself -/

namespace Scanner

theorem td_split (x : Bytes) : x = (takeDigits x).1 ++ (takeDigits x).2 := by
  induction x with
  | nil => rfl
  | cons c cs ih =>
    rw [takeDigits_cons]
    split
    · simp only [List.cons_append]; rw [← ih]
    · rfl

theorem td_digits (x : Bytes) : ∀ c ∈ (takeDigits x).1, isDigit c = true := by
  induction x with
  | nil => intro c hc; simp [takeDigits_nil] at hc
  | cons a as ih =>
    rw [takeDigits_cons]
    split
    · rename_i ha
      intro c hc
      simp only [List.mem_cons] at hc
      rcases hc with rfl | hc
      · exact ha
      · exact ih c hc
    · intro c hc; simp at hc

theorem td_append (d t : Bytes) (hd : ∀ c ∈ d, isDigit c = true)
    (ht : ∀ c cs, t = c :: cs → isDigit c = false) : takeDigits (d ++ t) = (d, t) := by
  induction d with
  | nil =>
    cases t with
    | nil => rfl
    | cons c cs => simp [takeDigits_cons, ht c cs rfl]
  | cons a as ih =>
    simp only [List.cons_append]
    rw [takeDigits_cons, ih (fun c hc => hd c (List.mem_cons_of_mem _ hc))]
    simp [hd a (List.mem_cons_self ..)]

/-- empty or starting with a byte satisfying `P` -/
def HeadP (P : UInt8 → Prop) (t : Bytes) : Prop := ∀ c cs, t = c :: cs → P c

theorem headP_nil (P : UInt8 → Prop) : HeadP P [] := by intro c cs h; cases h
theorem headP_cons (P : UInt8 → Prop) (c : UInt8) (cs : Bytes) (h : P c) : HeadP P (c :: cs) := by
  intro c' cs' hh
  simp only [List.cons.injEq] at hh
  rw [← hh.1]; exact h

theorem headP_append (P : UInt8 → Prop) (a b : Bytes) (ha : HeadP P a) (hb : HeadP P b) : HeadP P (a ++ b) := by
  cases a with
  | nil => exact hb
  | cons c cs => exact headP_cons P c _ (ha c cs rfl)

theorem headP_mono {P Q : UInt8 → Prop} (h : ∀ c, P c → Q c) (t : Bytes) (ht : HeadP P t) : HeadP Q t :=
  fun c cs hh => h c (ht c cs hh)

/-- an exponent part is empty or starts with `e`/`E` -/
theorem pExp_prefix (x p r : Bytes) (h : pExp x = some (p, r)) :
    x = p ++ r ∧ pExp p = some (p, []) ∧ HeadP (fun c => c = 101 ∨ c = 69) p := by
  cases x with
  | nil =>
    simp only [pExp, Option.some.injEq, Prod.mk.injEq] at h
    obtain ⟨rfl, rfl⟩ := h
    exact ⟨rfl, rfl, headP_nil _⟩
  | cons e t =>
    simp only [pExp] at h
    by_cases he : e = 101 ∨ e = 69
    · simp only [he, if_true] at h
      by_cases hd : (takeDigits (stripESign t).2).1.isEmpty = true
      · simp [hd] at h
      · simp only [hd, Bool.false_eq_true, if_false, Option.some.injEq, Prod.mk.injEq] at h
        obtain ⟨rfl, rfl⟩ := h
        have hsplit : t = (stripESign t).1 ++ (stripESign t).2 := by
          cases t with
          | nil => rfl
          | cons c t' => rw [stripESign_cons]; repeat' split
                         all_goals simp_all
        have hself : stripESign ((stripESign t).1 ++ (takeDigits (stripESign t).2).1) =
            ((stripESign t).1, (takeDigits (stripESign t).2).1) := by
          cases t with
          | nil => simp [stripESign, takeDigits_nil] at hd
          | cons c t' =>
            rw [stripESign_cons] at hd ⊢
            by_cases h43 : c = 43
            · subst h43
              simp only [if_true, List.cons_append, List.nil_append]
              rw [stripESign_cons]; simp
            · by_cases h45 : c = 45
              · subst h45
                simp only [show ¬ ((45 : UInt8) = 43) by decide, if_false, if_true, List.cons_append,
                  List.nil_append]
                rw [stripESign_cons]; simp
              · simp only [h43, h45, if_false, List.nil_append] at hd ⊢
                rw [takeDigits_cons] at hd ⊢
                by_cases hc : isDigit c = true
                · simp only [hc, if_true]
                  rw [stripESign_cons]; simp [h43, h45]
                · simp [hc] at hd
        refine ⟨?_, ?_, headP_cons _ _ _ he⟩
        · simp only [List.cons_append, List.append_assoc, List.cons.injEq, true_and]
          rw [← td_split, ← hsplit]
        · have hself2 := td_append (takeDigits (stripESign t).2).1 [] (td_digits _) (by intro c cs h; cases h)
          rw [List.append_nil] at hself2
          simp only [List.cons_append, pExp, he, if_true, hself, hself2, hd]
          simp
    · simp only [he, if_false, Option.some.injEq, Prod.mk.injEq] at h
      obtain ⟨rfl, rfl⟩ := h
      exact ⟨rfl, rfl, headP_nil _⟩

/-- a fraction part is empty or starts with `.`; it is re-read in front of any exponent part -/
theorem pFrac_prefix (x p r : Bytes) (h : pFrac x = some (p, r)) :
    x = p ++ r ∧ HeadP (fun c => c = 46) p ∧
      ∀ t, HeadP (fun c => c = 101 ∨ c = 69) t → pFrac (p ++ t) = some (p, t) := by
  cases x with
  | nil =>
    simp only [pFrac, Option.some.injEq, Prod.mk.injEq] at h
    obtain ⟨rfl, rfl⟩ := h
    refine ⟨rfl, headP_nil _, ?_⟩
    intro t ht
    cases t with
    | nil => rfl
    | cons c cs =>
      rw [List.nil_append, pFrac_cons]
      have : c ≠ 46 := by rcases ht c cs rfl with h | h <;> (rw [h]; decide)
      simp [this]
  | cons c t =>
    rw [pFrac_cons] at h
    by_cases hc : c = 46
    · subst hc
      simp only [if_true] at h
      by_cases hd : (takeDigits t).1.isEmpty = true
      · simp [hd] at h
      · simp only [hd, Bool.false_eq_true, if_false, Option.some.injEq, Prod.mk.injEq] at h
        obtain ⟨rfl, rfl⟩ := h
        refine ⟨by simp only [List.cons_append]; rw [← td_split], headP_cons _ _ _ rfl, ?_⟩
        intro u hu
        simp only [List.cons_append]
        rw [pFrac_cons]
        simp only [if_true]
        rw [td_append _ u (td_digits _) (fun c cs hh => by
          rcases hu c cs hh with h | h <;> (rw [h]; decide))]
        simp [hd]
    · simp only [hc, if_false, Option.some.injEq, Prod.mk.injEq] at h
      obtain ⟨rfl, rfl⟩ := h
      refine ⟨rfl, headP_nil _, ?_⟩
      intro u hu
      cases u with
      | nil => rfl
      | cons a as =>
        rw [List.nil_append, pFrac_cons]
        have : a ≠ 46 := by rcases hu a as rfl with h | h <;> (rw [h]; decide)
        simp [this]

/-- the integer part is re-read in front of anything that does not start with a digit -/
theorem pInt_prefix (x p r : Bytes) (h : pInt x = some (p, r)) :
    x = p ++ r ∧ (∃ c t p', x = c :: t ∧ p = c :: p' ∧ isDigit c = true) ∧
      ∀ t, HeadP (fun c => isDigit c = false) t → pInt (p ++ t) = some (p, t) := by
  cases x with
  | nil => simp [pInt] at h
  | cons c u =>
    rw [pInt_cons] at h
    by_cases h48 : c = 48
    · subst h48
      simp only [if_true, Option.some.injEq, Prod.mk.injEq] at h
      obtain ⟨rfl, rfl⟩ := h
      refine ⟨rfl, ⟨48, u, [], rfl, rfl, by decide⟩, ?_⟩
      intro t _
      simp only [List.cons_append, List.nil_append]
      rw [pInt_cons]; simp
    · simp only [h48, if_false] at h
      by_cases hd : isDigit c = true
      · simp only [hd, if_true, Option.some.injEq, Prod.mk.injEq] at h
        obtain ⟨rfl, rfl⟩ := h
        refine ⟨by simp only [List.cons_append]; rw [← td_split], ⟨c, u, _, rfl, rfl, hd⟩, ?_⟩
        intro t ht
        simp only [List.cons_append]
        rw [pInt_cons]
        simp only [h48, if_false, hd, if_true]
        rw [td_append _ t (td_digits _) ht]
      · simp [hd] at h

end Scanner

open Scanner in
/-- the literal is a prefix of the input and a complete number by itself -/
theorem parseNumber_prefix (bs l rest : Bytes) (h : parseNumber bs = some (l, rest)) :
    bs = l ++ rest ∧ parseNumber l = some (l, []) := by
  rw [Scanner.parseNumber_eq] at h
  cases hpi : pInt (stripSign bs).2 with
  | none => rw [hpi] at h; simp at h
  | some p1 =>
    obtain ⟨ip, r1⟩ := p1
    rw [hpi] at h
    simp only at h
    cases hpf : pFrac r1 with
    | none => rw [hpf] at h; simp at h
    | some p2 =>
      obtain ⟨fp, r2⟩ := p2
      rw [hpf] at h
      simp only at h
      cases hpe : pExp r2 with
      | none => rw [hpe] at h; simp at h
      | some p3 =>
        obtain ⟨ep, r3⟩ := p3
        rw [hpe] at h
        simp only [Option.some.injEq, Prod.mk.injEq] at h
        obtain ⟨rfl, rfl⟩ := h
        obtain ⟨hi1, ⟨c0, t0, ip', hc0, hip, hdig⟩, hi2⟩ := pInt_prefix _ _ _ hpi
        obtain ⟨hf1, hf2, hf3⟩ := pFrac_prefix _ _ _ hpf
        obtain ⟨he1, he2, he3⟩ := pExp_prefix _ _ _ hpe
        have hsign : bs = (stripSign bs).1 ++ (stripSign bs).2 := by
          cases bs with
          | nil => rfl
          | cons c cs => rw [stripSign_cons]; split <;> simp_all
        have hself : stripSign ((stripSign bs).1 ++ ip ++ fp ++ ep) = ((stripSign bs).1, ip ++ fp ++ ep) := by
          cases bs with
          | nil => simp [stripSign, pInt] at hpi
          | cons c cs =>
            rw [stripSign_cons] at hc0 ⊢
            by_cases h45 : c = 45
            · simp only [h45, if_true, List.cons_append, List.nil_append]
              rw [stripSign_cons]; simp
            · simp only [h45, if_false, List.nil_append] at hc0 ⊢
              simp only [List.cons.injEq] at hc0
              obtain ⟨rfl, rfl⟩ := hc0
              subst hip
              simp only [List.cons_append]
              rw [stripSign_cons]; simp only [h45, if_false]
        constructor
        · conv => lhs; rw [hsign, hi1, hf1, he1]
          simp only [List.append_assoc]
        · rw [Scanner.parseNumber_eq, hself]
          simp only
          have hhead : HeadP (fun c => isDigit c = false) (fp ++ ep) :=
            headP_append _ _ _ (headP_mono (fun c h => by rw [h]; decide) _ hf2)
              (headP_mono (fun c h => by rcases h with h | h <;> (rw [h]; decide)) _ he3)
          rw [List.append_assoc, hi2 _ hhead]
          simp only
          rw [hf3 _ he3]
          simp only
          rw [he2]

/-! ### parse results are well-formed -/

theorem wf_all (f : Nat) :
    (∀ d bs c rest, parseValue f d bs = some (c, rest) →
      WFC c = true ∧ (d ≤ maxDepth → d + c.depth ≤ maxDepth)) ∧
    (∀ d bs xs rest, parseElems f d bs = some (xs, rest) →
      xs ≠ [] ∧ (WFCL xs = true ∧ (d ≤ maxDepth → d + Cst.depthL xs ≤ maxDepth))) ∧
    (∀ d bs ms rest, parseMembers f d bs = some (ms, rest) →
      ms ≠ [] ∧ (WFCM ms = true ∧ (d ≤ maxDepth → d + Cst.depthM ms ≤ maxDepth))) := by
  apply parse_ind (PV := fun _ d _ c _ => WFC c = true ∧ (d ≤ maxDepth → d + c.depth ≤ maxDepth))
    (PE := fun _ d _ xs _ => WFCL xs = true ∧ (d ≤ maxDepth → d + Cst.depthL xs ≤ maxDepth))
    (PM := fun _ d _ ms _ => WFCM ms = true ∧ (d ≤ maxDepth → d + Cst.depthM ms ≤ maxDepth))
  · intro _ d cs r hd _
    exact ⟨rfl, fun _ => by simp only [Cst.depth, Cst.depthM]; omega⟩
  · intro _ d cs ms rest hd _ _ _ ih
    exact ⟨by simpa [WFC] using ih.1, fun _ => by have := ih.2 hd; simp only [Cst.depth]; omega⟩
  · intro _ d cs r hd _
    exact ⟨rfl, fun _ => by simp only [Cst.depth, Cst.depthL]; omega⟩
  · intro _ d cs xs rest hd _ _ _ ih
    exact ⟨by simpa [WFC] using ih.1, fun _ => by have := ih.2 hd; simp only [Cst.depth]; omega⟩
  · intro _ d cs b rest h
    exact ⟨by simp only [WFC]; exact (validBody_eq_true_iff b).2 (parseStrBody_split cs b rest h).2,
      fun _ => by simp only [Cst.depth]; omega⟩
  · intro _ d w rest hw
    refine ⟨?_, fun _ => by simp only [Cst.depth]; omega⟩
    rcases hw with rfl | rfl | rfl <;> decide
  · intro _ d c cs l rest _ hp
    refine ⟨?_, fun _ => by simp only [Cst.depth]; omega⟩
    simp only [WFC, validLit, Bool.or_eq_true, decide_eq_true_eq]
    exact .inr (parseNumber_prefix _ _ _ hp).2
  · intro _ d bs x r r' _ ih _
    exact ⟨by simp [WFCL, ih.1], fun hd => by have := ih.2 hd; simp only [Cst.depthL]; omega⟩
  · intro _ d bs x r r' xs rest _ ih _ _ _ ihE
    exact ⟨by simp [WFCL, ih.1, ihE.1],
      fun hd => by have := ih.2 hd; have := ihE.2 hd; simp only [Cst.depthL]; omega⟩
  · intro _ d cs k r r1 v r2 r3 hk _ _ ih _
    have := (validBody_eq_true_iff k).2 (parseStrBody_split cs k r hk).2
    exact ⟨by simp [WFCM, ih.1, this], fun hd => by have := ih.2 hd; simp only [Cst.depthM]; omega⟩
  · intro _ d cs k r r1 v r2 r3 ms rest hk _ _ ih _ _ _ ihM
    have := (validBody_eq_true_iff k).2 (parseStrBody_split cs k r hk).2
    exact ⟨by simp [WFCM, ih.1, ihM.1, this],
      fun hd => by have := ih.2 hd; have := ihM.2 hd; simp only [Cst.depthM]; omega⟩

/-- unfolding of `parseCst` -/
theorem parseCst_inv (bs : Bytes) (c : Cst) (h : parseCst bs = some c) :
    ∃ rest, parseValue (bs.length + 1) 0 (skipWs bs) = some (c, rest) ∧ skipWs rest = [] := by
  unfold parseCst at h
  cases hp : parseValue (bs.length + 1) 0 (skipWs bs) with
  | none => rw [hp] at h; simp at h
  | some p =>
    obtain ⟨c', r⟩ := p
    rw [hp] at h
    simp only at h
    split at h
    · rename_i he
      simp only [Option.some.injEq] at h
      subst h
      exact ⟨r, rfl, by simpa using he⟩
    · simp at h

theorem parseCst_wfc (bs : Bytes) (c : Cst) (h : parseCst bs = some c) :
    WFC c = true ∧ c.depth ≤ maxDepth := by
  obtain ⟨rest, hp, _⟩ := parseCst_inv bs c h
  have := (wf_all _).1 0 _ c rest hp
  exact ⟨this.1, by have := this.2 (Nat.zero_le _); omega⟩

end JP
