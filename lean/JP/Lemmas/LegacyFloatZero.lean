import JP.Lemmas.LegacyFloat
import JP.Legacy.CheckFloat

/-!
# The `float64` diff up to `0 == -0`

On literals spelled the way Go prints a `float64` (`-0` included) Go's `==` is equality of the literals after
`-0 ↦ 0` (`zeroLit`, `floatEqLit_canonical`).  Consequently the float diff, zero-normalised, is the literal diff
of the zero-normalised documents (`zeroNormM_getDiffF`); `zeroNorm` commutes with everything the specification
is built from (`lookup`, `set`, `erase`, `anyOf`, `Spec.merge`) and leaves `noDup`, `hasNullMember`, `GV`, the
canonical spelling untouched.
-/

namespace JP
namespace Legacy
open Value
open Impl (getDiff getDiffM getDiffOne matchesValue matchesL matchesM anyOf anyOfL anyOfM insertSorted mergeSorted
  deletedM sameType GV GVL GVM)
open Codec.Float (FP stdNumberToAny floatEncode)

/-- `-0 ↦ 0` on a literal -/
def zeroLit (l : Bytes) : Bytes := if l = ascii "-0" then ascii "0" else l

theorem zeroNorm_num (l : Bytes) : zeroNorm (.num l) = .num (zeroLit l) := by simp only [zeroNorm, zeroLit]

/-! ### structure -/

theorem lookup_zeroNormM (k : Bytes) : ∀ ms : Members, lookup k (zeroNormM ms) = (lookup k ms).map zeroNorm
  | [] => rfl
  | (k', v) :: ms => by
    simp only [zeroNormM, lookup]
    split
    · rfl
    · exact lookup_zeroNormM k ms

theorem length_zeroNormM : ∀ ms : Members, (zeroNormM ms).length = ms.length
  | [] => rfl
  | (_, _) :: ms => by simp only [zeroNormM, List.length_cons, length_zeroNormM ms]

theorem isEmpty_zeroNormM (ms : Members) : (zeroNormM ms).isEmpty = ms.isEmpty := by
  cases ms with
  | nil => rfl
  | cons m ms => cases m; rfl

theorem zeroNormM_eq_nil {ms : Members} : zeroNormM ms = [] ↔ ms = [] := by
  cases ms with
  | nil => simp [zeroNormM]
  | cons m ms => cases m; simp [zeroNormM]

theorem zeroNormM_append : ∀ xs ys : Members, zeroNormM (xs ++ ys) = zeroNormM xs ++ zeroNormM ys
  | [], _ => rfl
  | (k, v) :: xs, ys => by simp only [List.cons_append, zeroNormM, zeroNormM_append xs ys]

theorem zeroNormM_insertSorted (k : Bytes) (v : Value) : ∀ ms : Members,
    zeroNormM (insertSorted k v ms) = insertSorted k (zeroNorm v) (zeroNormM ms)
  | [] => rfl
  | (k', v') :: ms => by
    simp only [insertSorted, zeroNormM]
    split
    · rfl
    · split
      · rfl
      · simp only [zeroNormM, zeroNormM_insertSorted k v ms]

theorem zeroNormM_mergeSorted : ∀ ys xs : Members,
    zeroNormM (mergeSorted xs ys) = mergeSorted (zeroNormM xs) (zeroNormM ys)
  | [], xs => by simp only [mergeSorted, zeroNormM]
  | (k, v) :: ys, xs => by
    simp only [mergeSorted, zeroNormM, zeroNormM_mergeSorted ys, zeroNormM_insertSorted]

theorem deletedM_zeroNormM (b : Members) : ∀ as : Members,
    deletedM (zeroNormM b) (zeroNormM as) = zeroNormM (deletedM b as)
  | [] => rfl
  | (k, v) :: as => by
    simp only [zeroNormM, deletedM, lookup_zeroNormM, Option.isSome_map]
    split
    · exact deletedM_zeroNormM b as
    · simp only [zeroNormM, zeroNorm, deletedM_zeroNormM b as]

theorem sameType_zeroNorm (a b : Value) : sameType (zeroNorm a) (zeroNorm b) = sameType a b := by
  cases a <;> cases b <;> simp only [zeroNorm, sameType]

theorem isObj_zeroNorm (v : Value) : (zeroNorm v).isObj = v.isObj := by
  cases v <;> simp only [zeroNorm, isObj]

mutual
theorem anyOf_zeroNorm : ∀ v : Value, anyOf (zeroNorm v) = zeroNorm (anyOf v)
  | .null => rfl
  | .bool _ => rfl
  | .num _ => by simp only [zeroNorm, anyOf]
  | .str _ => rfl
  | .arr xs => by simp only [zeroNorm, anyOf, anyOfL_zeroNorm xs]
  | .obj ms => by
    simp only [zeroNorm, anyOf]
    have := anyOfM_zeroNorm ms []
    simp only [zeroNormM] at this
    rw [this]
theorem anyOfL_zeroNorm : ∀ xs : List Value, anyOfL (zeroNormL xs) = zeroNormL (anyOfL xs)
  | [] => rfl
  | x :: xs => by simp only [zeroNormL, anyOfL, anyOf_zeroNorm x, anyOfL_zeroNorm xs]
theorem anyOfM_zeroNorm : ∀ ms acc : Members,
    anyOfM (zeroNormM ms) (zeroNormM acc) = zeroNormM (anyOfM ms acc)
  | [], _ => by simp only [zeroNormM, anyOfM]
  | (k, v) :: ms, acc => by
    simp only [zeroNormM, anyOfM, anyOf_zeroNorm v, ← zeroNormM_insertSorted, anyOfM_zeroNorm ms]
end

/-! ### predicates that do not see the sign of zero -/

theorem validNum_zeroLit (l : Bytes) : validNum (zeroLit l) = validNum l := by
  unfold zeroLit
  split
  · rename_i h; rw [h]; decide
  · rfl

mutual
theorem GV_zeroNorm : ∀ (v : Value) (d : Nat), GV d (zeroNorm v) = GV d v
  | .null, _ => rfl
  | .bool _, _ => rfl
  | .str _, _ => rfl
  | .num l, _ => by rw [zeroNorm_num]; simp only [GV, validNum_zeroLit]
  | .arr xs, d => by simp only [zeroNorm, GV, GVL_zeroNorm xs]
  | .obj ms, d => by simp only [zeroNorm, GV, GVM_zeroNorm ms]
theorem GVL_zeroNorm : ∀ (xs : List Value) (d : Nat), GVL d (zeroNormL xs) = GVL d xs
  | [], _ => rfl
  | x :: xs, d => by simp only [zeroNormL, GVL, GV_zeroNorm x, GVL_zeroNorm xs]
theorem GVM_zeroNorm : ∀ (ms : Members) (d : Nat), GVM d (zeroNormM ms) = GVM d ms
  | [], _ => rfl
  | (k, v) :: ms, d => by simp only [zeroNormM, GVM, GV_zeroNorm v, GVM_zeroNorm ms]
end

theorem canonical_zero : floatCanonical (ascii "0") = true := by decide +kernel
theorem canonical_negZero : floatCanonical (ascii "-0") = true := by decide +kernel

theorem canonical_zeroLit (l : Bytes) : floatCanonical (zeroLit l) = floatCanonical l := by
  unfold zeroLit
  split
  · rename_i h; rw [h, canonical_zero, canonical_negZero]
  · rfl

mutual
theorem NV_zeroNorm : ∀ (v : Value), NV floatCanonical (zeroNorm v) = NV floatCanonical v
  | .null => rfl
  | .bool _ => rfl
  | .str _ => rfl
  | .num l => by rw [zeroNorm_num]; simp only [NV, canonical_zeroLit]
  | .arr xs => by simp only [zeroNorm, NV, NVL_zeroNorm xs]
  | .obj ms => by simp only [zeroNorm, NV, NVM_zeroNorm ms]
theorem NVL_zeroNorm : ∀ (xs : List Value), NVL floatCanonical (zeroNormL xs) = NVL floatCanonical xs
  | [] => rfl
  | x :: xs => by simp only [zeroNormL, NVL, NV_zeroNorm x, NVL_zeroNorm xs]
theorem NVM_zeroNorm : ∀ (ms : Members), NVM floatCanonical (zeroNormM ms) = NVM floatCanonical ms
  | [] => rfl
  | (k, v) :: ms => by simp only [zeroNormM, NVM, NV_zeroNorm v, NVM_zeroNorm ms]
end

theorem keys_zeroNormM : ∀ ms : Members, (zeroNormM ms).map Prod.fst = ms.map Prod.fst
  | [] => rfl
  | (k, v) :: ms => by simp only [zeroNormM, List.map_cons, keys_zeroNormM ms]

theorem isNull_zeroNorm (v : Value) : (zeroNorm v).isNull = v.isNull := by
  cases v <;> simp only [zeroNorm, isNull]

mutual
theorem noDup_zeroNorm : ∀ v : Value, (zeroNorm v).noDup = v.noDup
  | .null => rfl
  | .bool _ => rfl
  | .str _ => rfl
  | .num _ => by simp only [zeroNorm, noDup]
  | .arr xs => by simp only [zeroNorm, noDup, noDupL_zeroNorm xs]
  | .obj ms => by simp only [zeroNorm, noDup, keys_zeroNormM, noDupM_zeroNorm ms]
theorem noDupL_zeroNorm : ∀ xs : List Value, noDupL (zeroNormL xs) = noDupL xs
  | [] => rfl
  | x :: xs => by simp only [zeroNormL, noDupL, noDup_zeroNorm x, noDupL_zeroNorm xs]
theorem noDupM_zeroNorm : ∀ ms : Members, noDupM (zeroNormM ms) = noDupM ms
  | [] => rfl
  | (k, v) :: ms => by simp only [zeroNormM, noDupM, noDup_zeroNorm v, noDupM_zeroNorm ms]
end

mutual
theorem hasNullMember_zeroNorm : ∀ v : Value, (zeroNorm v).hasNullMember = v.hasNullMember
  | .null => rfl
  | .bool _ => rfl
  | .str _ => rfl
  | .num _ => by simp only [zeroNorm, hasNullMember]
  | .arr xs => by simp only [zeroNorm, hasNullMember, hasNullMemberL_zeroNorm xs]
  | .obj ms => by simp only [zeroNorm, hasNullMember, hasNullMemberM_zeroNorm ms]
theorem hasNullMemberL_zeroNorm : ∀ xs : List Value, hasNullMemberL (zeroNormL xs) = hasNullMemberL xs
  | [] => rfl
  | x :: xs => by simp only [zeroNormL, hasNullMemberL, hasNullMember_zeroNorm x, hasNullMemberL_zeroNorm xs]
theorem hasNullMemberM_zeroNorm : ∀ ms : Members, hasNullMemberM (zeroNormM ms) = hasNullMemberM ms
  | [] => rfl
  | (k, v) :: ms => by
    simp only [zeroNormM, hasNullMemberM, isNull_zeroNorm, hasNullMember_zeroNorm v, hasNullMemberM_zeroNorm ms]
end

/-! ### `Spec.merge` -/

theorem zeroNormM_erase (k : Bytes) : ∀ ms : Members, zeroNormM (Value.erase k ms) = Value.erase k (zeroNormM ms)
  | [] => rfl
  | (k', v) :: ms => by
    simp only [Value.erase, zeroNormM]
    split
    · exact zeroNormM_erase k ms
    · simp only [zeroNormM, zeroNormM_erase k ms]

theorem zeroNormM_set (k : Bytes) (v : Value) : ∀ ms : Members,
    zeroNormM (Value.set k v ms) = Value.set k (zeroNorm v) (zeroNormM ms)
  | [] => rfl
  | (k', v') :: ms => by
    simp only [Value.set, zeroNormM]
    split
    · rfl
    · simp only [zeroNormM, zeroNormM_set k v ms]

mutual
theorem zeroNorm_merge : ∀ (p t : Value), zeroNorm (Spec.merge t p) = Spec.merge (zeroNorm t) (zeroNorm p)
  | .obj ps, t => by
    cases t with
    | obj ts => simp only [Spec.merge, zeroNorm, zeroNormM_mergeMs ps ts]
    | _ =>
      simp only [Spec.merge, zeroNorm]
      have := zeroNormM_mergeMs ps []
      simp only [zeroNormM] at this
      rw [this]
  | .null, _ => by simp only [Spec.merge, zeroNorm]
  | .bool _, _ => by simp only [Spec.merge, zeroNorm]
  | .num _, _ => by simp only [Spec.merge, zeroNorm]
  | .str _, _ => by simp only [Spec.merge, zeroNorm]
  | .arr _, _ => by simp only [Spec.merge, zeroNorm]
theorem zeroNormM_mergeMs : ∀ (ps ts : Members),
    zeroNormM (Spec.mergeMs ts ps) = Spec.mergeMs (zeroNormM ts) (zeroNormM ps)
  | [], ts => by simp only [Spec.mergeMs, zeroNormM]
  | (k, p) :: ps, ts => by
    have hl : (lookup k (zeroNormM ts)).getD .null = zeroNorm ((lookup k ts).getD .null) := by
      rw [lookup_zeroNormM]; cases lookup k ts <;> rfl
    cases p with
    | null => simp only [Spec.mergeMs, zeroNormM, zeroNorm, zeroNormM_mergeMs ps, zeroNormM_erase]
    | bool _ => simp only [Spec.mergeMs, zeroNormM, zeroNorm, zeroNormM_mergeMs ps, zeroNormM_set, hl, zeroNorm_merge]
    | num _ => simp only [Spec.mergeMs, zeroNormM, zeroNorm, zeroNormM_mergeMs ps, zeroNormM_set, hl, zeroNorm_merge]
    | str _ => simp only [Spec.mergeMs, zeroNormM, zeroNorm, zeroNormM_mergeMs ps, zeroNormM_set, hl, zeroNorm_merge]
    | arr _ => simp only [Spec.mergeMs, zeroNormM, zeroNorm, zeroNormM_mergeMs ps, zeroNormM_set, hl, zeroNorm_merge]
    | obj _ => simp only [Spec.mergeMs, zeroNormM, zeroNorm, zeroNormM_mergeMs ps, zeroNormM_set, hl, zeroNorm_merge]
end

/-! ### `==` on canonical spellings -/

theorem std_zero : stdNumberToAny (ascii "0") = some ⟨false, 0, 0⟩ := by decide +kernel
theorem std_negZero : stdNumberToAny (ascii "-0") = some ⟨true, 0, 0⟩ := by decide +kernel

/-- on canonical spellings Go's `==` of the two floats is equality of the literals after `-0 ↦ 0` -/
theorem floatEqLit_canonical {x y : Bytes} (hx : floatCanonical x = true) (hy : floatCanonical y = true) :
    floatEqLit x y = (zeroLit x == zeroLit y) := by
  obtain ⟨fx, sx, ex⟩ := floatCanonical_spec hx
  obtain ⟨fy, sy, ey⟩ := floatCanonical_spec hy
  -- a canonical literal whose float is a zero is `0` or `-0`
  have zlit : ∀ (l : Bytes) (f : FP), floatEncode 64 f false = some l → f.isZero = true → zeroLit l = ascii "0" := by
    intro l f e hz
    have e1 := fp_zero_eq hz
    cases hs : f.sign with
    | true =>
      rw [hs] at e1; rw [e1, encode_negZero] at e
      rw [← Option.some.inj e]; rfl
    | false =>
      rw [hs] at e1; rw [e1, encode_posZero] at e
      rw [← Option.some.inj e]; rfl
  -- a literal that normalises to `0` denotes a zero
  have zflo : ∀ (l : Bytes) (f : FP), stdNumberToAny l = some f → zeroLit l = ascii "0" → f.isZero = true := by
    intro l f s hz
    unfold zeroLit at hz
    split at hz
    · rename_i h; rw [h, std_negZero] at s; rw [← Option.some.inj s]; rfl
    · rw [hz, std_zero] at s; rw [← Option.some.inj s]; rfl
  simp only [floatEqLit, sx, sy, fpEq]
  by_cases hxy : x = y
  · subst hxy
    rw [sx] at sy
    cases sy
    simp
  · have hne : fx ≠ fy := by
      intro e; subst e
      rw [ex] at ey; cases ey; exact hxy rfl
    cases hzx : fx.isZero with
    | true =>
      cases hzy : fy.isZero with
      | true =>
        have a1 := zlit x fx ex hzx
        have a2 := zlit y fy ey hzy
        simp [a1, a2]
      | false =>
        have : zeroLit x ≠ zeroLit y := by
          intro e
          have a1 := zlit x fx ex hzx
          rw [e] at a1
          have := zflo y fy sy a1
          rw [hzy] at this; cases this
        simp [hne, this]
    | false =>
      have : zeroLit x ≠ zeroLit y := by
        intro e
        by_cases h0 : zeroLit x = ascii "0"
        · have := zflo x fx sx h0
          rw [hzx] at this; cases this
        · -- neither is a zero spelling: `zeroLit` is the identity on both
          have e1 : zeroLit x = x := by
            unfold zeroLit; split
            · rename_i h; exfalso; apply h0; unfold zeroLit; rw [if_pos h]
            · rfl
          have e2 : zeroLit y = y := by
            unfold zeroLit; split
            · rename_i h; exfalso; apply h0; rw [e]; unfold zeroLit; rw [if_pos h]
            · rfl
          rw [e1, e2] at e
          exact hxy e
      simp [hne, this]

/-! ### the float diff, zero-normalised, is the literal diff of the zero-normalised documents -/

mutual
theorem matchesValueF_zero : ∀ (a b : Value), NV floatCanonical a = true → NV floatCanonical b = true →
    matchesValueF a b = matchesValue (zeroNorm a) (zeroNorm b)
  | .null, b, _, _ => by cases b <;> simp [matchesValueF, matchesValue, zeroNorm]
  | .bool _, b, _, _ => by cases b <;> simp [matchesValueF, matchesValue, zeroNorm]
  | .str _, b, _, _ => by cases b <;> simp [matchesValueF, matchesValue, zeroNorm]
  | .num x, b, ha, hb => by
    cases b <;> simp only [matchesValueF, matchesValue, zeroNorm]
    rename_i y
    simp only [NV] at ha hb
    exact floatEqLit_canonical ha hb
  | .arr xs, b, ha, hb => by
    cases b <;> simp only [matchesValueF, matchesValue, zeroNorm]
    rename_i ys
    simp only [NV] at ha hb
    exact matchesLF_zero xs ys ha hb
  | .obj xs, b, ha, hb => by
    cases b <;> simp only [matchesValueF, matchesValue, zeroNorm]
    rename_i ys
    simp only [NV] at ha hb
    rw [matchesMF_zero xs ys ha hb, length_zeroNormM, length_zeroNormM]
theorem matchesLF_zero : ∀ (xs ys : List Value), NVL floatCanonical xs = true → NVL floatCanonical ys = true →
    matchesLF xs ys = matchesL (zeroNormL xs) (zeroNormL ys)
  | [], ys, _, _ => by cases ys <;> simp [matchesLF, matchesL, zeroNormL]
  | x :: xs, [], _, _ => by simp [matchesLF, matchesL, zeroNormL]
  | x :: xs, y :: ys, ha, hb => by
    simp only [NVL, Bool.and_eq_true] at ha hb
    simp only [matchesLF, matchesL, zeroNormL, matchesValueF_zero x y ha.1 hb.1, matchesLF_zero xs ys ha.2 hb.2]
theorem matchesMF_zero : ∀ (xs ys : Members), NVM floatCanonical xs = true → NVM floatCanonical ys = true →
    matchesMF xs ys = matchesM (zeroNormM xs) (zeroNormM ys)
  | [], _, _, _ => by simp [matchesMF, matchesM, zeroNormM]
  | (k, v) :: xs, ys, ha, hb => by
    simp only [NVM, Bool.and_eq_true] at ha
    simp only [matchesMF, matchesM, zeroNormM, matchesMF_zero xs ys ha.2 hb, lookup_zeroNormM]
    cases hl : lookup k ys with
    | none => rfl
    | some w => simp only [Option.map_some, matchesValueF_zero v w ha.1 (NV_of_lookup hb hl)]
end

theorem getDiffOneF_of_not_obj (k : Bytes) (av : Value) {bv : Value} (h : bv.isObj = false) :
    getDiffOneF k av bv = if (sameType av bv && matchesValueF av bv) = true then [] else [(k, bv)] := by
  cases bv <;> simp [getDiffOneF, isObj] at h ⊢

theorem zeroNormM_getDiffOneF_nonobj (k : Bytes) (av bv : Value) (h : bv.isObj = false)
    (hm : matchesValueF av bv = matchesValue (zeroNorm av) (zeroNorm bv)) :
    zeroNormM (getDiffOneF k av bv) = getDiffOne k (zeroNorm av) (zeroNorm bv) := by
  rw [getDiffOneF_of_not_obj k av h, Impl.getDiffOne_of_not_obj k _ (by rw [isObj_zeroNorm]; exact h),
    sameType_zeroNorm, hm]
  split <;> simp only [zeroNormM]

mutual
theorem zeroNormM_getDiffMF : ∀ (bs a : Members), NVM floatCanonical a = true → NVM floatCanonical bs = true →
    zeroNormM (getDiffMF a bs) = getDiffM (zeroNormM a) (zeroNormM bs)
  | [], _, _, _ => by simp only [getDiffMF, getDiffM, zeroNormM]
  | (k, bv) :: bs, a, ha, hb => by
    simp only [NVM, Bool.and_eq_true] at hb
    have ih := zeroNormM_getDiffMF bs a ha hb.2
    simp only [getDiffMF, zeroNormM, getDiffM, lookup_zeroNormM]
    cases hl : lookup k a with
    | none => simp only [Option.map_none, zeroNormM, ih]
    | some av =>
      simp only [Option.map_some, zeroNormM_append, ih, zeroNormM_getDiffOneF bv k av (NV_of_lookup ha hl) hb.1]
theorem zeroNormM_getDiffOneF : ∀ (bv : Value) (k : Bytes) (av : Value), NV floatCanonical av = true →
    NV floatCanonical bv = true → zeroNormM (getDiffOneF k av bv) = getDiffOne k (zeroNorm av) (zeroNorm bv)
  | .obj bms, k, av, ha, hb => by
    cases av with
    | obj ams =>
      simp only [NV] at ha hb
      have ih := zeroNormM_getDiffMF bms ams ha hb
      have e : zeroNormM (mergeSorted (getDiffMF ams bms) (deletedM bms ams)) =
          mergeSorted (getDiffM (zeroNormM ams) (zeroNormM bms)) (deletedM (zeroNormM bms) (zeroNormM ams)) := by
        rw [zeroNormM_mergeSorted, ih, deletedM_zeroNormM]
      simp only [getDiffOneF, getDiffOne, zeroNorm]
      rw [← e, isEmpty_zeroNormM]
      split
      · rfl
      · simp only [zeroNormM, zeroNorm]
    | _ => simp only [getDiffOneF, getDiffOne, zeroNorm, zeroNormM]
  | .null, k, av, ha, hb => zeroNormM_getDiffOneF_nonobj k av _ rfl (matchesValueF_zero av _ ha hb)
  | .bool _, k, av, ha, hb => zeroNormM_getDiffOneF_nonobj k av _ rfl (matchesValueF_zero av _ ha hb)
  | .num _, k, av, ha, hb => zeroNormM_getDiffOneF_nonobj k av _ rfl (matchesValueF_zero av _ ha hb)
  | .str _, k, av, ha, hb => zeroNormM_getDiffOneF_nonobj k av _ rfl (matchesValueF_zero av _ ha hb)
  | .arr _, k, av, ha, hb => zeroNormM_getDiffOneF_nonobj k av _ rfl (matchesValueF_zero av _ ha hb)
end

/-- **the float diff, zero-normalised, is the literal diff of the zero-normalised documents** -/
theorem zeroNormM_getDiffF (a b : Members) (ha : NVM floatCanonical a = true) (hb : NVM floatCanonical b = true) :
    zeroNormM (getDiffF a b) = getDiff (zeroNormM a) (zeroNormM b) := by
  simp only [getDiffF, getDiff, zeroNormM_mergeSorted, zeroNormM_getDiffMF b a ha hb, deletedM_zeroNormM]

/-- the float diff of canonical documents is canonical -/
theorem NVM_getDiffF (a b : Members) (ha : NVM floatCanonical a = true) (hb : NVM floatCanonical b = true) :
    NVM floatCanonical (getDiffF a b) = true := by
  rw [← NVM_zeroNorm, zeroNormM_getDiffF a b ha hb]
  apply NVM_getDiff
  rw [NVM_zeroNorm]; exact hb

/-- … and survives the text round trip -/
theorem GVM_getDiffF (d : Nat) (a b : Members) (ha : NVM floatCanonical a = true) (hb : NVM floatCanonical b = true)
    (ga : GVM d a = true) (gb : GVM d b = true) : GVM d (getDiffF a b) = true := by
  rw [← GVM_zeroNorm, zeroNormM_getDiffF a b ha hb]
  apply Impl.GVM_getDiff
  · rw [GVM_zeroNorm]; exact ga
  · rw [GVM_zeroNorm]; exact gb

/-! ### `eqv` is kept by `zeroNorm` -/

theorem subKeys_zeroNormM (xs : Members) : ∀ ys : Members, subKeys (zeroNormM ys) (zeroNormM xs) = subKeys ys xs
  | [] => rfl
  | (k, v) :: ys => by
    have ih := subKeys_zeroNormM xs ys
    simp only [subKeys, lookup_zeroNormM, Option.isSome_map] at ih ⊢
    simp only [zeroNormM, List.all_cons, ih]

mutual
theorem eqv_zeroNorm : ∀ (a b : Value), eqv a b = true → eqv (zeroNorm a) (zeroNorm b) = true
  | .null, b, h => by cases b <;> simp_all [eqv, zeroNorm]
  | .bool _, b, h => by cases b <;> simp_all [eqv, zeroNorm]
  | .str _, b, h => by cases b <;> simp_all [eqv, zeroNorm]
  | .num x, b, h => by
    cases b <;> simp only [eqv] at h <;> try cases h
    rename_i y
    have : x = y := by simpa using h
    subst this
    simp [eqv, zeroNorm]
  | .arr xs, b, h => by
    cases b <;> simp only [eqv] at h <;> try cases h
    rename_i ys
    simp only [zeroNorm, eqv]
    exact eqvL_zeroNorm xs ys h
  | .obj xs, b, h => by
    cases b <;> simp only [eqv] at h <;> try cases h
    rename_i ys
    simp only [Bool.and_eq_true] at h
    simp only [zeroNorm, eqv, Bool.and_eq_true, subKeys_zeroNormM]
    exact ⟨eqvM_zeroNorm xs ys h.1, h.2⟩
theorem eqvL_zeroNorm : ∀ (xs ys : List Value), eqvL xs ys = true → eqvL (zeroNormL xs) (zeroNormL ys) = true
  | [], ys, h => by cases ys <;> simp_all [eqvL, zeroNormL]
  | x :: xs, [], h => by simp [eqvL] at h
  | x :: xs, y :: ys, h => by
    simp only [eqvL, Bool.and_eq_true] at h
    simp only [zeroNormL, eqvL, Bool.and_eq_true]
    exact ⟨eqv_zeroNorm x y h.1, eqvL_zeroNorm xs ys h.2⟩
theorem eqvM_zeroNorm : ∀ (xs ys : Members), eqvM xs ys = true → eqvM (zeroNormM xs) (zeroNormM ys) = true
  | [], _, _ => by simp [eqvM, zeroNormM]
  | (k, v) :: xs, ys, h => by
    simp only [eqvM, Bool.and_eq_true] at h
    simp only [zeroNormM, eqvM, Bool.and_eq_true, lookup_zeroNormM]
    refine ⟨?_, eqvM_zeroNorm xs ys h.2⟩
    cases hl : lookup k ys with
    | none => rw [hl] at h; simp at h
    | some w =>
      rw [hl] at h
      simp only [Option.map_some]
      exact eqv_zeroNorm v w h.1
end

end Legacy
end JP
