import JP.Lemmas.NoPanicCon

/-!
# Walks and `ensure` on container-shaped nodes that satisfy the invariant
-/

namespace JP
namespace Impl

theorem intoContainer_ok {next : Node} (hnil : isNilN next = false) (hn : NP next) :
    ConOK (intoContainer next) := by
  cases next with
  | nil => simp [isNilN] at hnil
  | raw c =>
    cases c with
    | arr xs => simp only [intoContainer, rawIsArray, Cst.isArr, if_true, intoAry, ConOK]; exact ⟨rfl, NP_decodeAry xs⟩
    | obj ms =>
      simp only [intoContainer, rawIsArray, Cst.isArr, Bool.false_eq_true, if_false, intoDoc, ConOK]
      exact ⟨rfl, NP_decodeDoc ms⟩
    | lit s => simp [intoContainer, rawIsArray, Cst.isArr, intoDoc, ConOK]
    | str s => simp [intoContainer, rawIsArray, Cst.isArr, intoDoc, ConOK]
  | doc keys obj =>
    simp only [intoContainer, rawIsArray, Bool.false_eq_true, if_false, intoDoc, ConOK]; exact ⟨rfl, hn⟩
  | ary ns => simp only [intoContainer, rawIsArray, if_true, intoAry, ConOK]; exact ⟨rfl, hn⟩
  | docNil => simp [intoContainer, rawIsArray, intoDoc, ConOK]
  | nilAry => simp [intoContainer, rawIsArray, intoDoc, ConOK]

theorem enter_ok {cr key next} (hnil : isNilN next = false) (hn : NP next) :
    ConOK (enter cr key next) := by
  unfold enter
  exact intoContainer_ok hnil hn

theorem putChild_ok {o self con key child' next} (hc : isCon con = true) (hn : NP con)
    (hch : NP child') (hg : conGet o self con key = .ok next) :
    isCon (putChild o con key child') = true ∧ NP (putChild o con key child') := by
  cases con with
  | doc keys obj =>
    simp only [putChild, isCon, true_and]
    have hl := conGet_doc_lookup hg
    have hn' := (NP_doc _ _).1 hn
    rw [NP_doc]
    refine ⟨nodup_setN hn'.1, ?_, ?_⟩
    · intro k hk'
      rcases mem_names_setN hk' with h | h
      · subst h; exact hn'.2.1 _ (lookupN_names hl)
      · exact hn'.2.1 k h
    · intro p hp
      rcases mem_setN hp with h | h
      · rw [h]; exact hch
      · exact hn'.2.2 p h
  | ary nodes =>
    simp only [putChild]
    split
    · simp only [isCon, true_and, NP_ary]
      exact NPL_listSet ((NP_ary _).1 hn) hch
    · exact ⟨rfl, hn⟩
  | docNil => exact ⟨rfl, hn⟩
  | nilAry => exact ⟨rfl, hn⟩
  | nil => simp [isCon] at hc
  | raw c => simp [isCon] at hc

/-- result of a walk: no panic, every node it hands back is container-shaped and fine -/
def WalkOK {α} (Q : α → Prop) : Walk α → Prop
  | .done con a => isCon con = true ∧ NP con ∧ Q a
  | .notFound con => isCon con = true ∧ NP con
  | .fail _ => True
  | .panic => False
  | .doneSelf s a => isCon s = true ∧ NP s ∧ Q a
  | .notFoundSelf s => isCon s = true ∧ NP s

/-- result of the action of a walk -/
def ActOK {α} (Q : α → Prop) : Outcome (Node × α) → Prop
  | .ok (con', a) => isCon con' = true ∧ NP con' ∧ Q a
  | .err _ => True
  | .panic => False

theorem wrapWalk_ok {α} {Q : α → Prop} {o self con key next} {w : Walk α}
    (hc : isCon con = true) (hn : NP con) (hg : conGet o self con key = .ok next)
    (hw : WalkOK Q w) : WalkOK Q (wrapWalk o con key w) := by
  cases w with
  | done child' a =>
    simp only [wrapWalk]
    have := putChild_ok (child' := child') hc hn hw.2.1 hg
    exact ⟨this.1, this.2, hw.2.2⟩
  | notFound child' =>
    simp only [wrapWalk]
    exact putChild_ok (child' := child') hc hn hw.2 hg
  | fail e => trivial
  | panic => exact hw
  | doneSelf s a => exact hw
  | notFoundSelf s => exact hw

theorem walk_ok {α} (o : Opts) (act : Node → Node → Outcome (Node × α)) (Q : α → Prop)
    (hact : ∀ self con, isCon con = true → NP con → NP self → ActOK Q (act self con)) :
    ∀ (parts : List Bytes) (cr : Bool) (self con : Node),
      isCon con = true → NP con → NP self → WalkOK Q (walk o act cr self con parts) := by
  intro parts
  induction parts with
  | nil =>
    intro cr self con hc hn hs
    rw [walk_nil]
    have := hact self con hc hn hs
    cases h : act self con with
    | ok p => obtain ⟨con', a⟩ := p; rw [h] at this; exact this
    | err e => trivial
    | panic => rw [h] at this; exact this
  | cons part rest ih =>
    intro cr self con hc hn hs
    rw [walk_cons]
    cases hg : conGet o self con (decodeToken part) with
    | panic => exact absurd hg (conGet_ne_panic hc)
    | err e => exact ⟨hc, hn⟩
    | ok next =>
      simp only []
      cases hnil : isNilN next with
      | true => exact ⟨hc, hn⟩
      | false =>
        simp only [Bool.false_eq_true, if_false]
        have hnext := conGet_NP hs hn hg
        have he := enter_ok (cr := cr) (key := decodeToken part) hnil hnext
        cases hent : enter cr (decodeToken part) next with
        | panic => rw [hent] at he; exact he
        | err e => exact ⟨hc, hn⟩
        | ok child =>
          rw [hent] at he
          exact wrapWalk_ok hc hn hg (ih false .nil child he.1 he.2 NP_nil)

/-- a root as the engine keeps it -/
def RootOK (r : Root) : Prop := isCon r.con = true ∧ NP r.con ∧ NP r.self

theorem withPath_ok {α} (o : Opts) (r : Root) (path : Bytes)
    (act : Node → Node → Bytes → Outcome (Node × α)) (Q : α → Prop) (hr : RootOK r)
    (hact : ∀ self con key, isCon con = true → NP con → NP self → ActOK Q (act self con key)) :
    WalkOK Q (withPath o r path act) := by
  unfold withPath
  split
  · exact ⟨hr.1, hr.2.1⟩
  · exact walk_ok o _ Q (fun self con => hact self con _) _ _ _ _ hr.1 hr.2.1 hr.2.2

/-! ### `ensure` -/

def EnsOK : Outcome (Node × Node) → Prop
  | .ok (con', self') => isCon con' = true ∧ NP con' ∧ NP self'
  | .err _ => True
  | .panic => False

theorem NP_padNulls (n : Nat) : ∀ x ∈ padNulls n, NP x := by
  intro x hx
  simp only [padNulls, List.mem_replicate] at hx
  rw [hx.2]; simp [rawNull]

theorem ensurePad_ok {part con} (hc : isCon con = true) (hn : NP con) :
    isCon (ensurePad part con) = true ∧ NP (ensurePad part con) := by
  unfold ensurePad
  split
  · split
    · rename_i hcn _
      refine ⟨rfl, ?_⟩
      rw [NP_ary] at hn ⊢
      intro n h
      rcases List.mem_append.1 h with h | h
      · exact hn n h
      · exact NP_padNulls _ n h
    · exact ⟨hc, hn⟩
  · exact ⟨hc, hn⟩

theorem ensureAdd_ok {o con1 key self x} (hc : isCon con1 = true) (hn : NP con1) (hs : NP self)
    (hx : EnsOK x) : EnsOK (ensureAdd o con1 key self x) := by
  cases x with
  | ok p =>
    obtain ⟨child, s'⟩ := p
    simp only [ensureAdd]
    have := conAdd_ok (o := o) (key := key) hc hn hx.2.1
    cases h : conAdd o con1 key child with
    | ok con2 => rw [h] at this; exact ⟨this.1, this.2, hs⟩
    | err e => exact ⟨hc, hn, hs⟩
    | panic => rw [h] at this; exact this
  | err e => trivial
  | panic => exact hx

theorem ensurePut_ok {o self0 con key self next x} (hc : isCon con = true) (hn : NP con) (hs : NP self)
    (hg : conGet o self0 con key = .ok next) (hx : EnsOK x) : EnsOK (ensurePut o con key self x) := by
  cases x with
  | ok p =>
    obtain ⟨child', s'⟩ := p
    simp only [ensurePut]
    have := putChild_ok (child' := child') hc hn hx.2.1 hg
    exact ⟨this.1, this.2, hs⟩
  | err e => trivial
  | panic => exact hx

theorem ensureTarget_some {o self con key t} (h : ensureTarget o self con key = some t) :
    conGet o self con key = .ok t ∧ isNilN t = false := by
  unfold ensureTarget at h
  split at h
  · contradiction
  · rename_i n hne hg
    cases h
    refine ⟨hg, ?_⟩
    cases t with
    | nil => exact absurd rfl hne
    | _ => rfl
  · contradiction

theorem ensure_ok (o : Opts) : ∀ (parts : List Bytes) (cr : Bool) (self con : Node),
    isCon con = true → NP con → NP self → EnsOK (ensure o cr self con parts) := by
  intro parts
  induction parts with
  | nil => intro cr self con hc hn hs; rw [ensure]; exact ⟨hc, hn, hs⟩
  | cons part rest ih =>
    intro cr self con hc hn hs
    cases rest with
    | nil => rw [ensure]; exact ⟨hc, hn, hs⟩
    | cons nxt rest =>
      rw [ensure_cons2]
      have hpad := ensurePad_ok (part := part) hc hn
      cases ht : ensureTarget o self con (decodeToken part) with
      | none =>
        simp only []
        split
        · split
          · trivial
          · split
            · trivial
            · refine ensureAdd_ok hpad.1 hpad.2 hs (ih _ _ _ rfl ?_ NP_nil)
              rw [NP_ary]; exact NP_padNulls _
        · refine ensureAdd_ok hpad.1 hpad.2 hs (ih _ _ _ rfl ?_ NP_nil)
          rw [NP_doc]; simp [names]
      | some t =>
        simp only []
        obtain ⟨hg, hnil⟩ := ensureTarget_some ht
        have ht' := conGet_NP hs hn hg
        have he := enter_ok (cr := cr) (key := decodeToken part) hnil ht'
        cases hent : enter cr (decodeToken part) t with
        | panic => rw [hent] at he; exact he
        | err e => trivial
        | ok child =>
          rw [hent] at he
          exact ensurePut_ok hc hn hs hg (ih false .nil child he.1 he.2 NP_nil)

/-- outcome of an operation: no panic, and the new root is fine -/
def OutOK : Outcome Root → Prop
  | .ok r' => RootOK r'
  | .err _ => True
  | .panic => False

theorem ensurePath_ok {o r path} (hr : RootOK r) : OutOK (ensurePath o r path) := by
  unfold ensurePath
  split
  · exact hr
  · exact hr
  · rename_i _ parts _ _
    split
    · exact hr
    have := ensure_ok o parts r.selfCR r.self r.con hr.1 hr.2.1 hr.2.2
    cases h : ensure o r.selfCR r.self r.con parts with
    | ok p => obtain ⟨c, s⟩ := p; rw [h] at this; exact this
    | err e => trivial
    | panic => rw [h] at this; exact this

end Impl
end JP
