import JP.Lemmas.EngineCon

/-!
# Engine lemmas, part 5: pointers — `splitPath` versus `parsePointer`, and the
specification's `atParent` factored into navigation (`nav`) and the edit
-/

namespace JP
namespace Impl

open Spec (Res)

/-! ### the two copies of the token functions coincide -/

theorem decodeTok_eq : ∀ b : Bytes, Spec.decodeTok b = decodeToken b
  | [] => rfl
  | [_] => rfl
  | a :: b :: rest => by
    simp only [Spec.decodeTok, decodeToken]
    rw [decodeTok_eq rest, decodeTok_eq (b :: rest)]

theorem splitOnSlash_eq : ∀ b : Bytes, Spec.splitOnSlash b = splitSlash b
  | [] => rfl
  | c :: cs => by
    simp only [Spec.splitOnSlash, splitSlash]
    rw [splitOnSlash_eq cs]
    cases splitSlash cs <;> rfl

theorem splitSlash_ne_nil : ∀ b : Bytes, splitSlash b ≠ []
  | [] => by simp [splitSlash]
  | c :: cs => by
    simp only [splitSlash]
    split
    · simp
    · split <;> simp

theorem decodeToken_ne_nil : ∀ b : Bytes, b ≠ [] → decodeToken b ≠ []
  | [], h => absurd rfl h
  | [_], _ => by simp [decodeToken]
  | a :: b :: rest, _ => by
    simp only [decodeToken]
    split
    · simp
    · split <;> simp

theorem parsePointer_nil_iff {path : Bytes} {toks : List Bytes} (h : Spec.parsePointer path = some toks) :
    toks = [] ↔ path = [] := by
  cases path with
  | nil => simp [Spec.parsePointer] at h; simp [h]
  | cons c cs =>
    simp only [Spec.parsePointer] at h
    split at h
    · cases h
    · simp only [Option.some.injEq] at h
      subst h
      simp [splitOnSlash_eq, splitSlash_ne_nil]

/-- a pointer inside the specification's domain, as `findObject` splits it (an empty reference
token is an ordinary token: nothing is excluded any more) -/
theorem splitPath_of_parsePointer {path : Bytes} {toks : List Bytes}
    (h : Spec.parsePointer path = some toks) (hne : toks ≠ []) :
    ∃ parts key, splitPath path = some (parts, key) ∧ toks = parts.map decodeToken ++ [key] := by
  cases path with
  | nil => simp [Spec.parsePointer] at h; exact absurd h hne
  | cons c cs =>
    simp only [Spec.parsePointer] at h
    split at h
    · cases h
    · next hc =>
      simp only [ne_eq, Decidable.not_not] at hc
      subst hc
      simp only [Option.some.injEq] at h
      rw [splitOnSlash_eq] at h
      have hl := splitSlash_ne_nil cs
      cases hs : splitSlash cs with
      | nil => exact absurd hs hl
      | cons p ps =>
        have hsplit : splitSlash (47 :: cs) = [] :: p :: ps := by
          simp [splitSlash, hs]
        refine ⟨(p :: ps).dropLast, decodeToken ((p :: ps).getLast?.getD []), ?_, ?_⟩
        · simp [splitPath, hsplit]
        · rw [← h, hs]
          have : p :: ps = (p :: ps).dropLast ++ [(p :: ps).getLast (by simp)] :=
            (List.dropLast_concat_getLast (by simp)).symm
          conv => lhs; rw [this]
          have hf : (Spec.decodeTok : Bytes → Bytes) = decodeToken := funext decodeTok_eq
          simp only [List.map_append, List.map_cons, List.map_nil, hf]
          simp [List.getLast?_eq_some_getLast]

/-- the first segment `strings.Split` returns: everything before the first `/` -/
theorem splitSlash_head_cons (c : UInt8) (cs : Bytes) (hc : c ≠ 47) :
    ∃ p ps, splitSlash (c :: cs) = (c :: p) :: ps := by
  simp only [splitSlash]
  have hl := splitSlash_ne_nil cs
  cases hs : splitSlash cs with
  | nil => exact absurd hs hl
  | cons p ps => exact ⟨p, ps, by simp [hc]⟩

/-- a non-empty pointer without a leading `/` (outside RFC 6901): `findObject` returns nil -/
theorem splitPath_of_parsePointer_none {path : Bytes} (h : Spec.parsePointer path = none) :
    splitPath path = none := by
  cases path with
  | nil => simp [Spec.parsePointer] at h
  | cons c cs =>
    simp only [Spec.parsePointer] at h
    split at h
    · next hc =>
      obtain ⟨p, ps, hs⟩ := splitSlash_head_cons c cs hc
      simp only [splitPath, hs]
      cases ps with
      | nil => simp
      | cons q qs => simp
    · cases h

theorem parsePointer_none_ne_nil {path : Bytes} (h : Spec.parsePointer path = none) : path ≠ [] := by
  intro hp; subst hp; simp [Spec.parsePointer] at h

/-! ### navigation -/

/-- the parent the tokens `ts` lead to, and how the document is rebuilt around a new parent -/
def nav (o : Spec.Opts) : Value → List Bytes → Res (Value × (Value → Value))
  | v, [] => if v.isContainer then .ok (v, id) else .fail .parentUnreachable
  | v, t :: ts =>
    match v with
    | .obj ms =>
      match Value.lookup t ms with
      | none => .fail .parentUnreachable
      | some child =>
        (nav o child ts).bind fun pk => .ok (pk.1, fun p' => .obj (Value.set t (pk.2 p') ms))
    | .arr xs =>
      match Spec.readIdx o.neg xs.length t with
      | .unspec => .unspec
      | .bad => .fail .parentUnreachable
      | .at i =>
        match xs[i]? with
        | none => .fail .parentUnreachable
        | some child =>
          (nav o child ts).bind fun pk => .ok (pk.1, fun p' => .arr (Spec.setAt i (pk.2 p') xs))
    | _ => .fail .parentUnreachable

theorem nav_noncontainer (o : Spec.Opts) (v : Value) (ts : List Bytes) (h : v.isContainer = false) :
    nav o v ts = .fail .parentUnreachable := by
  cases ts with
  | nil => simp [nav, h]
  | cons t ts =>
    cases v <;> simp [Value.isContainer, Value.isObj, Value.isArr] at h <;> simp [nav]

theorem bind_pair_eta {α β} (r : Res (α × β)) : (r.bind fun pa => .ok (id pa.1, pa.2)) = r := by
  cases r with
  | ok x => obtain ⟨a, b⟩ := x; rfl
  | fail c => rfl
  | unspec => rfl

/-- `atParent` = navigate, edit, rebuild -/
theorem atParent_nav {α} (o : Spec.Opts) (f : Value → Bytes → Res (Value × α)) (t : Bytes) :
    ∀ (ts : List Bytes) (v : Value),
      Spec.atParent o f v (ts ++ [t]) =
        (nav o v ts).bind fun pk => (f pk.1 t).bind fun pa => .ok (pk.2 pa.1, pa.2) := by
  intro ts
  induction ts with
  | nil =>
    intro v
    cases v with
    | obj ms => simp only [List.nil_append, Spec.atParent, nav, isContainer_obj, if_true, Res.bind]
                exact (bind_pair_eta _).symm
    | arr xs => simp only [List.nil_append, Spec.atParent, nav, isContainer_arr, if_true, Res.bind]
                exact (bind_pair_eta _).symm
    | null => simp [Spec.atParent, nav, Value.isContainer, Value.isObj, Value.isArr, Res.bind]
    | bool b => simp [Spec.atParent, nav, Value.isContainer, Value.isObj, Value.isArr, Res.bind]
    | num l => simp [Spec.atParent, nav, Value.isContainer, Value.isObj, Value.isArr, Res.bind]
    | str s => simp [Spec.atParent, nav, Value.isContainer, Value.isObj, Value.isArr, Res.bind]
  | cons t1 ts' ih =>
    intro v
    obtain ⟨t2, ts'', h⟩ : ∃ t2 ts'', ts' ++ [t] = t2 :: ts'' := by
      cases ts' with
      | nil => exact ⟨t, [], rfl⟩
      | cons a b => exact ⟨a, b ++ [t], rfl⟩
    rw [List.cons_append, h]
    cases v with
    | obj ms =>
      simp only [Spec.atParent, nav]
      cases Value.lookup t1 ms with
      | none => rfl
      | some child =>
        simp only
        rw [← h, ih child]
        cases nav o child ts' with
        | ok pk =>
          simp only [Res.bind]
          cases f pk.1 t with
          | ok pa => rfl
          | fail c => rfl
          | unspec => rfl
        | fail c => rfl
        | unspec => rfl
    | arr xs =>
      simp only [Spec.atParent, nav]
      cases Spec.readIdx o.neg xs.length t1 with
      | unspec => rfl
      | bad => rfl
      | «at» i =>
        simp only
        cases xs[i]? with
        | none => rfl
        | some child =>
          simp only
          rw [← h, ih child]
          cases nav o child ts' with
          | ok pk =>
            simp only [Res.bind]
            cases f pk.1 t with
            | ok pa => rfl
            | fail c => rfl
            | unspec => rfl
          | fail c => rfl
          | unspec => rfl
    | null => simp [Spec.atParent, nav, Res.bind]
    | bool b => simp [Spec.atParent, nav, Res.bind]
    | num l => simp [Spec.atParent, nav, Res.bind]
    | str s => simp [Spec.atParent, nav, Res.bind]

/-! ### facts about `nav` used by the operations that read -/

theorem set_lookup_self (k : Bytes) (v : Value) (ms : Value.Members) (h : Value.lookup k ms = some v) :
    Value.set k v ms = ms := by
  induction ms with
  | nil => simp [Value.lookup] at h
  | cons m ms ih =>
    obtain ⟨k', v'⟩ := m
    simp only [Value.lookup] at h
    simp only [Value.set]
    split at h
    · next hk => simp only [Option.some.injEq] at h; subst hk; subst h; simp
    · next hk => simp [hk, ih h]

/-- the parent found is a container, and rebuilding around the parent found gives the value back -/
theorem nav_ok (o : Spec.Opts) : ∀ (ts : List Bytes) (v p : Value) (k : Value → Value),
    nav o v ts = .ok (p, k) → p.isContainer = true ∧ k p = v := by
  intro ts
  induction ts with
  | nil =>
    intro v p k h
    simp only [nav] at h
    split at h
    · next hc => simp only [Res.ok.injEq, Prod.mk.injEq] at h; obtain ⟨rfl, rfl⟩ := h; exact ⟨hc, rfl⟩
    · cases h
  | cons t ts ih =>
    intro v p k h
    cases v with
    | obj ms =>
      simp only [nav] at h
      cases hl : Value.lookup t ms with
      | none => rw [hl] at h; cases h
      | some child =>
        rw [hl] at h
        simp only at h
        cases hn : nav o child ts with
        | ok pk =>
          obtain ⟨p1, k1⟩ := pk
          rw [hn] at h
          simp only [Res.bind, Res.ok.injEq, Prod.mk.injEq] at h
          obtain ⟨rfl, rfl⟩ := h
          obtain ⟨h1, h2⟩ := ih child p1 k1 hn
          refine ⟨h1, ?_⟩
          simp only [h2, set_lookup_self t child ms hl]
        | fail c => rw [hn] at h; cases h
        | unspec => rw [hn] at h; cases h
    | arr xs =>
      simp only [nav] at h
      cases hr : Spec.readIdx o.neg xs.length t with
      | unspec => rw [hr] at h; cases h
      | bad => rw [hr] at h; cases h
      | «at» i =>
        rw [hr] at h
        simp only at h
        cases hl : xs[i]? with
        | none => rw [hl] at h; cases h
        | some child =>
          rw [hl] at h
          simp only at h
          cases hn : nav o child ts with
          | ok pk =>
            obtain ⟨p1, k1⟩ := pk
            rw [hn] at h
            simp only [Res.bind, Res.ok.injEq, Prod.mk.injEq] at h
            obtain ⟨rfl, rfl⟩ := h
            obtain ⟨h1, h2⟩ := ih child p1 k1 hn
            refine ⟨h1, ?_⟩
            simp only [h2, setAt_self i child xs hl]
          | fail c => rw [hn] at h; cases h
          | unspec => rw [hn] at h; cases h
    | null => simp [nav] at h
    | bool b => simp [nav] at h
    | num l => simp [nav] at h
    | str s => simp [nav] at h

end Impl
end JP
