import JP.Lemmas.LegacyBasic
import JP.Lemmas.LegacyNoPanic
import JP.Lemmas.MergeImplCompose

/-!
# Legacy `pruneNulls` / `merge` / `mergeDocs` against RFC 7396 (`Spec.merge`) and against
`Spec.compose` (C19)

With duplicate-free member names on both sides the legacy model computes the specification with
*ordered* equality for the order `den` picks (the association-list order of the model): the
model visits the patch's map entries in order of first appearance, which is the order
`Spec.mergeMs` uses; the `Value.eqv` forms are corollaries.  The node invariant is `WF` (names
duplicate-free) together with `MOK` (no nil map and no raw `null` inside a parsed object): both
hold for everything `doMergePatch` builds.
-/

namespace JP
namespace Legacy

open Value Cst
open Impl (Err Outcome hasKeyC)

def isNil : Node → Bool
  | .nil => true
  | _ => false

def nonNilMember (m : Bytes × Node) : Bool :=
  match m.2 with
  | .nil => false
  | _ => true

theorem filter_nonNil_eq (ob : NMembers) :
    (ob.filter fun m => match m.2 with | .nil => false | _ => true) = ob.filter nonNilMember := rfl

/-- the map `pruneCM` builds from a duplicate-free member list -/
def pruneMap : List (Bytes × Cst) → NMembers
  | [] => []
  | (k, v) :: ms => (unquote k, if v.isNullLit then .nil else pruneC v) :: pruneMap ms

theorem keys_pruneMap : ∀ (ms : List (Bytes × Cst)), (pruneMap ms).map Prod.fst = (valueOfM ms).map Prod.fst
  | [] => rfl
  | (k, v) :: ms => by simp only [pruneMap, valueOfM, List.map_cons, keys_pruneMap ms]

theorem pruneCM_nodup : ∀ (ms : List (Bytes × Cst)) (acc : NMembers),
    (acc.map Prod.fst ++ (valueOfM ms).map Prod.fst).Nodup → pruneCM ms acc = acc ++ pruneMap ms
  | [], acc, _ => by simp [pruneCM, pruneMap]
  | (k, v) :: ms, acc, h => by
    simp only [valueOfM, List.map_cons] at h
    have hk : unquote k ∉ acc.map Prod.fst := by
      have := (List.nodup_append.mp h).2.2
      intro hm
      exact this _ hm _ (by simp) rfl
    simp only [pruneCM, pruneMap]
    rw [setN_of_not_mem _ _ _ hk, pruneCM_nodup ms _ (by simpa using h)]
    simp

theorem pruneC_obj_eq (ms : List (Bytes × Cst)) (h : nodupKeys ((valueOfM ms).map Prod.fst) = true) :
    pruneC (.obj ms) = .doc ((pruneMap ms).filter nonNilMember) := by
  simp only [pruneC, filter_nonNil_eq]
  rw [pruneCM_nodup ms [] (by simpa using (nodupKeys_iffL _).mp h)]
  rfl

theorem isNil_pruneC (c : Cst) : isNil (pruneC c) = false := by
  cases c with
  | obj ms => simp [pruneC, isNil]
  | lit s => simp only [pruneC]; split <;> rfl
  | str b => simp only [pruneC]; split <;> rfl
  | arr xs => simp only [pruneC]; split <;> rfl

theorem nonNilMember_pruneC (k : Bytes) (c : Cst) : nonNilMember (k, pruneC c) = true := by
  have := isNil_pruneC c
  unfold nonNilMember
  cases h : pruneC c <;> simp_all [isNil]

theorem pruneC_nonobj (c : Cst) (ho : c.isObj = false) (hn : c.isNullLit = false) : pruneC c = .raw c := by
  cases c with
  | obj ms => simp [Cst.isObj] at ho
  | lit s => simp [pruneC, hn]
  | str b => simp [pruneC, Cst.isNullLit]
  | arr xs => simp [pruneC, Cst.isNullLit]

theorem valueOf_not_obj (c : Cst) (h : c.isObj = false) : ∀ ms, valueOf c ≠ .obj ms :=
  Impl.valueOf_not_obj_of_isObj c h

theorem isNull_valueOfL (c : Cst) : (valueOf c).isNull = c.isNullLit := Impl.isNull_valueOf c

mutual
theorem pruneC_den : ∀ (c : Cst), noDup (valueOf c) = true → c.isNullLit = false →
    WF (pruneC c) = true ∧ MOK (pruneC c) ∧ den (pruneC c) = Spec.merge .null (valueOf c)
  | .lit s, h, hn => by
    rw [pruneC_nonobj _ rfl hn]
    refine ⟨by simpa [WF] using h, hn, ?_⟩
    rw [Spec.merge_nonobj _ _ (valueOf_not_obj _ rfl)]
    rfl
  | .str s, h, hn => by
    rw [pruneC_nonobj _ rfl hn]
    exact ⟨by simpa [WF] using h, hn, by simp [den, valueOf, Spec.merge]⟩
  | .arr xs, h, hn => by
    rw [pruneC_nonobj _ rfl hn]
    exact ⟨by simpa [WF] using h, hn, by simp [den, valueOf, Spec.merge]⟩
  | .obj ms, h, _ => by
    simp only [valueOf, noDup, Bool.and_eq_true] at h
    have ⟨ih1, ih2, ih3⟩ := pruneMap_den ms h.2
    have hnd : ((pruneMap ms).map Prod.fst).Nodup := by
      rw [keys_pruneMap]; exact (nodupKeys_iffL _).mp h.1
    have hnd2 : (((pruneMap ms).filter nonNilMember).map Prod.fst).Nodup :=
      List.Nodup.sublist (List.Sublist.map _ List.filter_sublist) hnd
    rw [pruneC_obj_eq ms h.1]
    refine ⟨(WF_doc_iff _).mpr ⟨hnd2, ih1⟩, ih2, ?_⟩
    simp only [den, ih3, valueOf, Spec.merge]
    rw [Spec.mergeMs_fresh _ [] (by simpa using (nodupKeys_iffL _).mp h.1)]
    simp
theorem pruneMap_den : ∀ (ms : List (Bytes × Cst)), noDupM (valueOfM ms) = true →
    WFM ((pruneMap ms).filter nonNilMember) = true ∧ MOKM ((pruneMap ms).filter nonNilMember) ∧
    denM ((pruneMap ms).filter nonNilMember) = Spec.pruneV (valueOfM ms)
  | [], _ => ⟨rfl, trivial, rfl⟩
  | (k, v) :: ms, h => by
    simp only [valueOfM, noDupM, Bool.and_eq_true] at h
    have ⟨ih1, ih2, ih3⟩ := pruneMap_den ms h.2
    cases hv : v.isNullLit with
    | true =>
      simp only [pruneMap, hv, if_true, valueOfM, Spec.pruneV, isNull_valueOfL]
      rw [List.filter_cons_of_neg (by simp [nonNilMember])]
      exact ⟨ih1, ih2, ih3⟩
    | false =>
      have ⟨hc1, hc2, hc3⟩ := pruneC_den v h.1 hv
      simp only [pruneMap, hv, valueOfM, Spec.pruneV, isNull_valueOfL, Bool.false_eq_true, if_false]
      rw [List.filter_cons_of_pos (nonNilMember_pruneC _ _)]
      simp only [WFM, MOKM, denM, Bool.and_eq_true]
      exact ⟨⟨hc1, ih1⟩, ⟨hc2, ih2⟩, by rw [hc3, ih3]⟩
end

/-! ### `intoDoc` on a member of a parsed object -/

theorem intoDoc_cases (cur : Node) (hw : WF cur = true) (hm : MOK cur) :
    (∃ ob, intoDoc cur = .ok (.doc ob) ∧ WF (.doc ob) = true ∧ MOKM ob ∧ den (.doc ob) = den cur) ∨
    ((∀ ob, intoDoc cur ≠ .ok (.doc ob)) ∧ intoDoc cur ≠ .ok .docNil ∧ (∀ ms, den cur ≠ .obj ms)) := by
  cases cur with
  | nil => right; simp [intoDoc, den]
  | rawNil => right; simp [intoDoc, den]
  | raw c =>
    cases c with
    | lit s =>
      simp only [MOK] at hm
      right; refine ⟨by simp [intoDoc, hm], by simp [intoDoc, hm], ?_⟩
      exact valueOf_not_obj (.lit s) rfl
    | str s => right; simp [intoDoc, den, valueOf, Cst.isNullLit]
    | arr xs => right; simp [intoDoc, den, valueOf, Cst.isNullLit]
    | obj ms =>
      left
      simp only [WF] at hw
      refine ⟨decodeMembers ms [], rfl, WF_decodeDoc ms hw, MOKM_decodeMembers ms [] trivial, ?_⟩
      exact den_decodeDoc ms hw
  | doc ob => left; exact ⟨ob, rfl, hw, hm, rfl⟩
  | ary ns => right; simp [intoDoc, den]
  | docNil => exact hm.elim

theorem mergeNC_obj_of_doc (mm : Bool) (cur : Node) (pms : List (Bytes × Cst)) (ob : NMembers)
    (h : intoDoc cur = .ok (.doc ob)) :
    mergeNC mm cur (.obj pms) = (mergeDocsC mm (some ob) pms).map fun ob' => .doc ob' := by
  simp only [mergeNC, h]

theorem mergeNC_obj_of_not (mm : Bool) (cur : Node) (pms : List (Bytes × Cst))
    (h1 : ∀ ob, intoDoc cur ≠ .ok (.doc ob)) (h2 : intoDoc cur ≠ .ok .docNil) :
    mergeNC mm cur (.obj pms) = some (pruneC (.obj pms)) := by
  simp only [mergeNC]

theorem mergeNC_nonobj (mm : Bool) (cur : Node) (pc : Cst) (ho : pc.isObj = false)
    (hn : pc.isNullLit = false) (h2 : intoDoc cur ≠ .ok .docNil) :
    mergeNC mm cur pc = some (.raw pc) := by
  have hp := pruneC_nonobj pc ho hn
  cases pc with
  | obj ms => simp [Cst.isObj] at ho
  | lit s =>
    simp only [mergeNC]
    split
    · simp [hn]
    · rename_i h; exact absurd h h2
    · rw [hp]
  | str s =>
    simp only [mergeNC]
    split
    · simp [hn]
    · rename_i h; exact absurd h h2
    · rw [hp]
  | arr xs =>
    simp only [mergeNC]
    split
    · simp [hn]
    · rename_i h; exact absurd h h2
    · rw [hp]

/-- `intoDoc` of a member of a parsed object is never the nil map -/
theorem intoDoc_ne_docNil (cur : Node) (hm : MOK cur) : intoDoc cur ≠ .ok .docNil := by
  have := intoDoc_MOK hm
  intro h; rw [h] at this; exact this

/-! ### one iteration of the loop in `mergeDocs` -/

/-- the map after the entry `(k, v)` of the patch has been merged in (`none`: panic) -/
def mergeStep (mm : Bool) (ob : NMembers) (k : Bytes) (v : Cst) : Option NMembers :=
  if v.isNullLit then some (if mm then setN (unquote k) .nil ob else eraseN (unquote k) ob)
  else
    match lookupN (unquote k) ob with
    | none => some (setN (unquote k) (if mm then .raw v else pruneC v) ob)
    | some .nil => some (setN (unquote k) (if mm then .raw v else pruneC v) ob)
    | some cur => (mergeNC mm cur v).map fun n => setN (unquote k) n ob

theorem mergeDocsC_cons (mm : Bool) (ob : NMembers) (k : Bytes) (v : Cst) (pms : List (Bytes × Cst))
    (hs : hasKeyC (unquote k) pms = false) :
    mergeDocsC mm (some ob) ((k, v) :: pms) =
      match mergeStep mm ob k v with
      | some ob' => mergeDocsC mm (some ob') pms
      | none => none := by
  simp only [mergeDocsC, hs, Bool.false_eq_true, if_false, mergeStep]
  cases hv : v.isNullLit with
  | true => simp
  | false =>
    simp only [Bool.false_eq_true, if_false]
    cases hl : lookupN (unquote k) ob with
    | none => rfl
    | some cur =>
      cases cur with
      | nil => rfl
      | rawNil => simp only []; cases mergeNC mm .rawNil v <;> rfl
      | raw c => simp only []; cases mergeNC mm (.raw c) v <;> rfl
      | doc ms => simp only []; cases mergeNC mm (.doc ms) v <;> rfl
      | docNil => simp only []; cases mergeNC mm .docNil v <;> rfl
      | ary ns => simp only []; cases mergeNC mm (.ary ns) v <;> rfl

theorem mergeStep_absent (mm : Bool) (ob : NMembers) (k : Bytes) (v : Cst)
    (hv : v.isNullLit = false)
    (hl : lookupN (unquote k) ob = none ∨ lookupN (unquote k) ob = some .nil) :
    mergeStep mm ob k v = some (setN (unquote k) (if mm then .raw v else pruneC v) ob) := by
  cases hl with
  | inl hl => simp only [mergeStep, hv, hl, Bool.false_eq_true, if_false]
  | inr hl => simp only [mergeStep, hv, hl, Bool.false_eq_true, if_false]

theorem mergeStep_some (mm : Bool) (ob : NMembers) (k : Bytes) (v : Cst)
    (c : Node) (hv : v.isNullLit = false) (hl : lookupN (unquote k) ob = some c)
    (hc : isNil c = false) :
    mergeStep mm ob k v = (mergeNC mm c v).map fun n => setN (unquote k) n ob := by
  cases c with
  | nil => simp [isNil] at hc
  | rawNil => simp only [mergeStep, hv, hl, Bool.false_eq_true, if_false]
  | raw x => simp only [mergeStep, hv, hl, Bool.false_eq_true, if_false]
  | doc ms => simp only [mergeStep, hv, hl, Bool.false_eq_true, if_false]
  | ary ns => simp only [mergeStep, hv, hl, Bool.false_eq_true, if_false]
  | docNil => simp only [mergeStep, hv, hl, Bool.false_eq_true, if_false]

theorem MOK_of_lookupN {k : Bytes} {n : Node} {ob : NMembers} (hm : MOKM ob)
    (h : lookupN k ob = some n) : MOK n :=
  (MOKM_iff ob).1 hm _ (lookupN_memL h)

/-! ### the main induction: RFC 7396 merge -/

mutual
theorem mergeNC_den : ∀ (p : Cst) (cur : Node), WF cur = true → MOK cur → noDup (valueOf p) = true →
    p.isNullLit = false →
    ∃ r, mergeNC false cur p = some r ∧ WF r = true ∧ MOK r ∧ den r = Spec.merge (den cur) (valueOf p)
  | .lit s, cur, _, hm, hp, hn => by
    refine ⟨_, mergeNC_nonobj false cur _ rfl hn (intoDoc_ne_docNil cur hm), by simpa [WF] using hp, hn, ?_⟩
    rw [Spec.merge_nonobj _ _ (valueOf_not_obj _ rfl)]
    rfl
  | .str s, cur, _, hm, hp, hn => by
    refine ⟨_, mergeNC_nonobj false cur _ rfl hn (intoDoc_ne_docNil cur hm), by simpa [WF] using hp, hn, ?_⟩
    simp [den, valueOf, Spec.merge]
  | .arr xs, cur, _, hm, hp, hn => by
    refine ⟨_, mergeNC_nonobj false cur _ rfl hn (intoDoc_ne_docNil cur hm), by simpa [WF] using hp, hn, ?_⟩
    simp [den, valueOf, Spec.merge]
  | .obj pms, cur, hc, hm, hp, _ => by
    rcases intoDoc_cases cur hc hm with ⟨ob, hi, hw, hmo, hd⟩ | ⟨hi, hi2, hd⟩
    · rw [mergeNC_obj_of_doc false cur pms ob hi]
      have hp' := hp
      simp only [valueOf, noDup, Bool.and_eq_true] at hp'
      obtain ⟨ob', r0, r1, r2, r3⟩ := mergeDocsC_den pms ob hw hmo hp'.1 hp'.2
      refine ⟨.doc ob', by rw [r0]; rfl, r1, r2, ?_⟩
      rw [← hd]
      simp only [den, r3, valueOf, Spec.merge]
    · rw [mergeNC_obj_of_not false cur pms hi hi2]
      have ⟨r1, r2, r3⟩ := pruneC_den (.obj pms) hp rfl
      refine ⟨_, rfl, r1, r2, ?_⟩
      rw [r3]
      simp only [valueOf]
      rw [Spec.merge_obj_of_nonobj (den cur) _ hd]
theorem mergeDocsC_den : ∀ (pms : List (Bytes × Cst)) (ob : NMembers),
    WF (.doc ob) = true → MOKM ob → nodupKeys ((valueOfM pms).map Prod.fst) = true →
    noDupM (valueOfM pms) = true →
    ∃ ob', mergeDocsC false (some ob) pms = some ob' ∧ WF (.doc ob') = true ∧ MOKM ob' ∧
      denM ob' = Spec.mergeMs (denM ob) (valueOfM pms)
  | [], ob, hw, hm, _, _ => ⟨ob, rfl, hw, hm, rfl⟩
  | (k, v) :: pms, ob, hw, hm, hk, hd => by
    have hsh : hasKeyC (unquote k) pms = false := Impl.hasKeyC_false_of_nodup k v pms hk
    simp only [valueOfM, List.map_cons] at hk
    have hk2 : nodupKeys ((valueOfM pms).map Prod.fst) = true := by
      rw [nodupKeys_iffL] at hk ⊢; exact (List.nodup_cons.1 hk).2
    simp only [valueOfM, noDupM, Bool.and_eq_true] at hd
    have ⟨hnd, hwm⟩ := (WF_doc_iff _).mp hw
    rw [mergeDocsC_cons false ob k v pms hsh]
    simp only [valueOfM]
    -- one step
    have hstep : ∃ ob1, mergeStep false ob k v = some ob1 ∧ WF (.doc ob1) = true ∧ MOKM ob1 ∧
        Spec.mergeMs (denM ob1) (valueOfM pms) =
          Spec.mergeMs (denM ob) ((unquote k, valueOf v) :: valueOfM pms) := by
      cases hv : v.isNullLit with
      | true =>
        refine ⟨eraseN (unquote k) ob, by simp [mergeStep, hv], WF_doc_eraseN hw, MOKM_eraseN hm, ?_⟩
        rw [Spec.mergeMs_cons_null_E _ _ _ _ (by rw [isNull_valueOfL]; exact hv), denM_eraseN _ _ hnd]
      | false =>
        have hnn : (valueOf v).isNull = false := by rw [isNull_valueOfL]; exact hv
        rw [Spec.mergeMs_cons_nonnull _ _ _ _ hnn]
        have hlk := lookupN_den (unquote k) ob
        cases hl : lookupN (unquote k) ob with
        | none =>
          have ⟨c1, c2, c3⟩ := pruneC_den v hd.1 hv
          refine ⟨_, mergeStep_absent false ob k v hv (Or.inl hl), WF_doc_setN hw c1, MOKM_setN hm c2, ?_⟩
          rw [hl] at hlk
          simp only [Option.map_none] at hlk
          simp only [Bool.false_eq_true, if_false]
          rw [denM_setN, c3, ← hlk]; rfl
        | some c =>
          rw [hl] at hlk
          simp only [Option.map_some] at hlk
          cases hn : isNil c with
          | true =>
            have hcn : c = .nil := by cases c <;> simp [isNil] at hn; rfl
            have ⟨c1, c2, c3⟩ := pruneC_den v hd.1 hv
            refine ⟨_, mergeStep_absent false ob k v hv (Or.inr (hcn ▸ hl)), WF_doc_setN hw c1,
              MOKM_setN hm c2, ?_⟩
            simp only [Bool.false_eq_true, if_false]
            rw [denM_setN, c3, ← hlk, hcn]; rfl
          | false =>
            have hwc := WF_of_lookupN hwm hl
            have hmc := MOK_of_lookupN hm hl
            obtain ⟨r, c0, c1, c2, c3⟩ := mergeNC_den v c hwc hmc hd.1 hv
            refine ⟨setN (unquote k) r ob, ?_, WF_doc_setN hw c1, MOKM_setN hm c2, ?_⟩
            · rw [mergeStep_some false ob k v c hv hl hn, c0]; rfl
            · rw [denM_setN, c3, ← hlk]; rfl
    obtain ⟨ob1, s0, s1, s2, s3⟩ := hstep
    rw [s0]
    obtain ⟨ob', r0, r1, r2, r3⟩ := mergeDocsC_den pms ob1 s1 s2 hk2 hd.2
    exact ⟨ob', r0, r1, r2, by rw [r3, s3]⟩
end

/-! ### the `mergeMerge` mode against `Spec.compose` -/

mutual
theorem mergeNC_compose : ∀ (p : Cst) (cur : Node), WF cur = true → MOK cur → noDup (valueOf p) = true →
    p.isNullLit = false → Spec.compatible (den cur) (valueOf p) = true →
    ∃ r, mergeNC true cur p = some r ∧ WF r = true ∧ MOK r ∧ den r = Spec.compose (den cur) (valueOf p)
  | .lit s, cur, _, hm, hp, hn, _ => by
    refine ⟨_, mergeNC_nonobj true cur _ rfl hn (intoDoc_ne_docNil cur hm), by simpa [WF] using hp, hn, ?_⟩
    rw [Spec.compose_nonobj _ _ (valueOf_not_obj _ rfl)]
    rfl
  | .str s, cur, _, hm, hp, hn, _ => by
    refine ⟨_, mergeNC_nonobj true cur _ rfl hn (intoDoc_ne_docNil cur hm), by simpa [WF] using hp, hn, ?_⟩
    simp [den, valueOf, Spec.compose]
  | .arr xs, cur, _, hm, hp, hn, _ => by
    refine ⟨_, mergeNC_nonobj true cur _ rfl hn (intoDoc_ne_docNil cur hm), by simpa [WF] using hp, hn, ?_⟩
    simp [den, valueOf, Spec.compose]
  | .obj pms, cur, hc, hm, hp, _, hcomp => by
    rcases intoDoc_cases cur hc hm with ⟨ob, hi, hw, hmo, hd⟩ | ⟨_, _, hd⟩
    · rw [mergeNC_obj_of_doc true cur pms ob hi]
      have hp' := hp
      simp only [valueOf, noDup, Bool.and_eq_true] at hp'
      have hcm : Spec.compatibleMs (denM ob) (valueOfM pms) = true := by
        rw [← hd] at hcomp
        simpa [den, valueOf, Spec.compatible] using hcomp
      obtain ⟨ob', r0, r1, r2, r3⟩ := mergeDocsC_compose pms ob hw hmo hp'.1 hp'.2 hcm
      refine ⟨.doc ob', by rw [r0]; rfl, r1, r2, ?_⟩
      rw [← hd]
      simp only [den, r3, valueOf, Spec.compose]
    · simp only [valueOf] at hcomp
      rw [Spec.compatible_obj_of_nonobj _ _ hd] at hcomp
      cases hcomp
theorem mergeDocsC_compose : ∀ (pms : List (Bytes × Cst)) (ob : NMembers),
    WF (.doc ob) = true → MOKM ob → nodupKeys ((valueOfM pms).map Prod.fst) = true →
    noDupM (valueOfM pms) = true → Spec.compatibleMs (denM ob) (valueOfM pms) = true →
    ∃ ob', mergeDocsC true (some ob) pms = some ob' ∧ WF (.doc ob') = true ∧ MOKM ob' ∧
      denM ob' = Spec.composeMs (denM ob) (valueOfM pms)
  | [], ob, hw, hm, _, _, _ => ⟨ob, rfl, hw, hm, rfl⟩
  | (k, v) :: pms, ob, hw, hm, hk, hd, hcomp => by
    have hsh : hasKeyC (unquote k) pms = false := Impl.hasKeyC_false_of_nodup k v pms hk
    simp only [valueOfM, List.map_cons] at hk
    have hkk := (nodupKeys_iffL _).1 hk
    have hk1 : unquote k ∉ (valueOfM pms).map Prod.fst := (List.nodup_cons.1 hkk).1
    have hk2 : nodupKeys ((valueOfM pms).map Prod.fst) = true :=
      (nodupKeys_iffL _).2 (List.nodup_cons.1 hkk).2
    simp only [valueOfM, noDupM, Bool.and_eq_true] at hd
    simp only [valueOfM] at hcomp
    have ⟨hcomp2, hcomp1⟩ := Spec.compatibleMs_cons_E _ _ _ _ hcomp
    have ⟨hnd, hwm⟩ := (WF_doc_iff _).mp hw
    rw [mergeDocsC_cons true ob k v pms hsh]
    simp only [valueOfM]
    have hstep : ∃ ob1 x, mergeStep true ob k v = some ob1 ∧ WF (.doc ob1) = true ∧ MOKM ob1 ∧
        denM ob1 = Value.set (unquote k) x (denM ob) ∧
        Spec.composeMs (denM ob) ((unquote k, valueOf v) :: valueOfM pms) =
          Spec.composeMs (Value.set (unquote k) x (denM ob)) (valueOfM pms) := by
      cases hv : v.isNullLit with
      | true =>
        refine ⟨setN (unquote k) .nil ob, .null, by simp [mergeStep, hv], WF_doc_setN hw rfl,
          MOKM_setN hm trivial, denM_setN _ _ _, ?_⟩
        exact Spec.composeMs_cons_null _ _ _ _ (by rw [isNull_valueOfL]; exact hv)
      | false =>
        have hnn : (valueOf v).isNull = false := by rw [isNull_valueOfL]; exact hv
        have hlk := lookupN_den (unquote k) ob
        have hraw : WF (.raw v) = true := by simpa [WF] using hd.1
        have hrawm : MOK (.raw v) := hv
        cases hl : lookupN (unquote k) ob with
        | none =>
          rw [hl] at hlk
          simp only [Option.map_none] at hlk
          refine ⟨_, valueOf v, mergeStep_absent true ob k v hv (Or.inl hl), WF_doc_setN hw hraw,
            MOKM_setN hm hrawm, denM_setN _ _ _, ?_⟩
          exact Spec.composeMs_cons_absent _ _ _ _ hnn (Or.inl hlk.symm)
        | some c =>
          rw [hl] at hlk
          simp only [Option.map_some] at hlk
          cases hn : isNil c with
          | true =>
            have hcn : c = .nil := by cases c <;> simp [isNil] at hn; rfl
            refine ⟨_, valueOf v, mergeStep_absent true ob k v hv (Or.inr (hcn ▸ hl)), WF_doc_setN hw hraw,
              MOKM_setN hm hrawm, denM_setN _ _ _, ?_⟩
            refine Spec.composeMs_cons_absent _ _ _ _ hnn (Or.inr ?_)
            rw [← hlk, hcn]; rfl
          | false =>
            have hwc := WF_of_lookupN hwm hl
            have hmc := MOK_of_lookupN hm hl
            have hcc := hcomp1 (den c) hlk.symm
            obtain ⟨r, c0, c1, c2, c3⟩ := mergeNC_compose v c hwc hmc hd.1 hv hcc
            refine ⟨setN (unquote k) r ob, Spec.compose (den c) (valueOf v), ?_, WF_doc_setN hw c1,
              MOKM_setN hm c2, by rw [denM_setN, c3], ?_⟩
            · rw [mergeStep_some true ob k v c hv hl hn, c0]; rfl
            · exact Spec.composeMs_cons_some _ _ _ _ _ hnn hlk.symm hcc
    obtain ⟨ob1, x, s0, s1, s2, s3, s4⟩ := hstep
    rw [s0]
    have hcomp' : Spec.compatibleMs (denM ob1) (valueOfM pms) = true := by
      rw [s3, Spec.compatibleMs_set _ _ _ _ hk1]; exact hcomp2
    obtain ⟨ob', r0, r1, r2, r3⟩ := mergeDocsC_compose pms ob1 s1 s2 hk2 hd.2 hcomp'
    exact ⟨ob', r0, r1, r2, by rw [r3, s3, s4]⟩
end

/-! ### `pruneN` of a freshly decoded object -/

theorem pruneNM_childM (ms : List (Bytes × Cst)) : pruneNM (childM ms) = pruneMap ms := by
  induction ms with
  | nil => rfl
  | cons m ms ih =>
    obtain ⟨k, v⟩ := m
    rw [show pruneMap ((k, v) :: ms) = (unquote k, if v.isNullLit then .nil else pruneC v) :: pruneMap ms from rfl]
    cases hv : v.isNullLit with
    | true =>
      rw [show childM ((k, v) :: ms) = (unquote k, .nil) :: childM ms by simp [childM, childOf, hv]]
      simp only [pruneNM, ih, if_true]
    | false =>
      rw [show childM ((k, v) :: ms) = (unquote k, .raw v) :: childM ms by simp [childM, childOf, hv]]
      simp only [pruneNM, ih, pruneN, Bool.false_eq_true, if_false]

theorem pruneN_doc_eq (ob : NMembers) : pruneN (.doc ob) = .doc ((pruneNM ob).filter nonNilMember) := rfl

theorem pruneN_decodeDoc (ms : List (Bytes × Cst)) (h : nodupKeys ((valueOfM ms).map Prod.fst) = true) :
    pruneN (decodeDoc ms) = pruneC (.obj ms) := by
  unfold decodeDoc
  rw [pruneN_doc_eq, decodeMembers_eq ms h, pruneNM_childM, pruneC_obj_eq ms h]

/-! ### `doMergePatch` on syntax trees -/

/-- the node `doMergePatch` marshals, for a non-null document and an object or array patch -/
def mergeTree (mm : Bool) (dc pc : Cst) : Option Node :=
  match dc, pc with
  | .obj dms, .obj pms => (mergeDocsC mm (some (decodeMembers dms [])) pms).map fun ob => .doc ob
  | _, .obj pms => if mm then some (decodeDoc pms) else some (pruneN (decodeDoc pms))
  | _, .arr xs => some (decodeAry xs)
  | _, _ => none

theorem doMergePatch_eq (mm : Bool) (docData patchData : Bytes) (dc pc : Cst)
    (hd : parseCst docData = some dc) (hp : parseCst patchData = some pc)
    (hnn : dc.isNullLit = false) (hpc : (pc.isObj || pc.isArr) = true) (r : Node)
    (hr : mergeTree mm dc pc = some r) :
    doMergePatch mm docData patchData = .ok (marshal r) := by
  have hpn : pc.isNullLit = false := by cases pc <;> simp_all [Cst.isNullLit, Cst.isObj, Cst.isArr]
  unfold doMergePatch
  simp only [hd, hp, hnn, hpn, Bool.false_eq_true, if_false]
  cases pc with
  | lit s => simp [Cst.isObj, Cst.isArr] at hpc
  | str s => simp [Cst.isObj, Cst.isArr] at hpc
  | arr xs =>
    cases dc <;> simp only [mergeTree, Option.some.injEq] at hr <;> subst hr <;> rfl
  | obj pms =>
    cases dc with
    | obj dms =>
      simp only [mergeTree] at hr
      cases hm : mergeDocsC mm (some (decodeMembers dms [])) pms with
      | none => rw [hm] at hr; cases hr
      | some ob =>
        rw [hm] at hr
        simp only [Option.map_some, Option.some.injEq] at hr
        subst hr
        simp only [hm]
    | lit s =>
      simp only [mergeTree] at hr
      cases mm <;> simp only [Bool.false_eq_true, if_false, if_true, Option.some.injEq] at hr <;>
        subst hr <;> rfl
    | str s =>
      simp only [mergeTree] at hr
      cases mm <;> simp only [Bool.false_eq_true, if_false, if_true, Option.some.injEq] at hr <;>
        subst hr <;> rfl
    | arr xs =>
      simp only [mergeTree] at hr
      cases mm <;> simp only [Bool.false_eq_true, if_false, if_true, Option.some.injEq] at hr <;>
        subst hr <;> rfl

theorem mergeTree_den (dc pc : Cst) (hdd : noDup dc.valueOf = true) (hdp : noDup pc.valueOf = true)
    (hpc : (pc.isObj || pc.isArr) = true) :
    ∃ r, mergeTree false dc pc = some r ∧ WF r = true ∧ den r = Spec.merge dc.valueOf pc.valueOf := by
  cases pc with
  | lit s => simp [Cst.isObj, Cst.isArr] at hpc
  | str s => simp [Cst.isObj, Cst.isArr] at hpc
  | arr xs =>
    refine ⟨decodeAry xs, by cases dc <;> rfl, WF_decodeAry xs hdp, ?_⟩
    rw [den_decodeAry]; simp [valueOf, Spec.merge]
  | obj pms =>
    have hobj : ∀ dc' : Cst, dc'.isObj = false →
        WF (pruneN (decodeDoc pms)) = true ∧
        den (pruneN (decodeDoc pms)) = Spec.merge dc'.valueOf (Cst.obj pms).valueOf := by
      intro dc' hno
      have h1 := hdp
      simp only [valueOf, noDup, Bool.and_eq_true] at h1
      rw [pruneN_decodeDoc pms h1.1]
      have ⟨r1, _, r3⟩ := pruneC_den (.obj pms) hdp rfl
      refine ⟨r1, ?_⟩
      rw [r3]
      simp only [valueOf]
      rw [Spec.merge_obj_of_nonobj _ _ (valueOf_not_obj dc' hno)]
    cases dc with
    | lit s => exact ⟨_, rfl, hobj _ rfl⟩
    | str s => exact ⟨_, rfl, hobj _ rfl⟩
    | arr xs => exact ⟨_, rfl, hobj _ rfl⟩
    | obj dms =>
      have h1 := hdp
      simp only [valueOf, noDup, Bool.and_eq_true] at h1
      obtain ⟨ob', r0, r1, _, r3⟩ := mergeDocsC_den pms (decodeMembers dms []) (WF_decodeDoc dms hdd)
        (MOKM_decodeMembers dms [] trivial) h1.1 h1.2
      refine ⟨.doc ob', by simp only [mergeTree, r0]; rfl, r1, ?_⟩
      have hdm : denM (decodeMembers dms []) = valueOfM dms := by
        have := den_decodeDoc dms hdd
        simpa [decodeDoc, den, valueOf] using this
      simp only [den, r3, hdm, valueOf, Spec.merge]

theorem composeTree_den (dc pc : Cst) (hdd : noDup dc.valueOf = true) (hdp : noDup pc.valueOf = true)
    (hpc : (pc.isObj || pc.isArr) = true)
    (hcomp : dc.isObj = true → Spec.compatible dc.valueOf pc.valueOf = true) :
    ∃ r, mergeTree true dc pc = some r ∧ WF r = true ∧ den r = Spec.compose dc.valueOf pc.valueOf := by
  cases pc with
  | lit s => simp [Cst.isObj, Cst.isArr] at hpc
  | str s => simp [Cst.isObj, Cst.isArr] at hpc
  | arr xs =>
    refine ⟨decodeAry xs, by cases dc <;> rfl, WF_decodeAry xs hdp, ?_⟩
    rw [den_decodeAry]; simp [valueOf, Spec.compose]
  | obj pms =>
    have hobj : ∀ dc' : Cst, dc'.isObj = false →
        WF (decodeDoc pms) = true ∧
        den (decodeDoc pms) = Spec.compose dc'.valueOf (Cst.obj pms).valueOf := by
      intro dc' hno
      refine ⟨WF_decodeDoc pms hdp, ?_⟩
      rw [den_decodeDoc pms hdp]
      simp only [valueOf]
      rw [Spec.compose_obj_of_nonobj _ _ (valueOf_not_obj dc' hno)]
    cases dc with
    | lit s => exact ⟨_, rfl, hobj _ rfl⟩
    | str s => exact ⟨_, rfl, hobj _ rfl⟩
    | arr xs => exact ⟨_, rfl, hobj _ rfl⟩
    | obj dms =>
      have h1 := hdp
      simp only [valueOf, noDup, Bool.and_eq_true] at h1
      have hdm : denM (decodeMembers dms []) = valueOfM dms := by
        have := den_decodeDoc dms hdd
        simpa [decodeDoc, den, valueOf] using this
      have hcm : Spec.compatibleMs (denM (decodeMembers dms [])) (valueOfM pms) = true := by
        have := hcomp rfl
        rw [hdm]
        simpa [valueOf, Spec.compatible] using this
      obtain ⟨ob', r0, r1, _, r3⟩ := mergeDocsC_compose pms (decodeMembers dms []) (WF_decodeDoc dms hdd)
        (MOKM_decodeMembers dms [] trivial) h1.1 h1.2 hcm
      refine ⟨.doc ob', by simp only [mergeTree, r0]; rfl, r1, ?_⟩
      simp only [den, r3, hdm, valueOf, Spec.compose]

end Legacy
end JP
