import JP.Lemmas.TextWFC
import JP.Lemmas.TextRune

/-!
# Valid string bodies: structure lemmas
-/

namespace JP

/-! ### unfolding `parseStrBody` -/

theorem parseStrBody_quote (cs : Bytes) : parseStrBody (34 :: cs) = some ([], cs) := by
  rw [parseStrBody.eq_def]; simp only [if_true]

theorem parseStrBody_plain (c : UInt8) (cs : Bytes) (h34 : c ≠ 34) (h92 : c ≠ 92) :
    parseStrBody (c :: cs) =
      if c.toNat < 32 then none else (parseStrBody cs).map fun p => (c :: p.1, p.2) := by
  rw [parseStrBody.eq_def]; simp only [h34, h92, if_false]

theorem parseStrBody_simple (e : UInt8) (cs : Bytes)
    (h : e = 34 ∨ e = 92 ∨ e = 47 ∨ e = 98 ∨ e = 102 ∨ e = 110 ∨ e = 114 ∨ e = 116) :
    parseStrBody (92 :: e :: cs) = (parseStrBody cs).map fun p => (92 :: e :: p.1, p.2) := by
  rw [parseStrBody.eq_def]; simp only [h, if_true, show (92 : UInt8) ≠ 34 by decide, if_false]

theorem parseStrBody_u (h1 h2 h3 h4 : UInt8) (cs : Bytes) :
    parseStrBody (92 :: 117 :: h1 :: h2 :: h3 :: h4 :: cs) =
      if (isHex h1 && isHex h2 && isHex h3 && isHex h4) = true then
        (parseStrBody cs).map fun p => (92 :: 117 :: h1 :: h2 :: h3 :: h4 :: p.1, p.2)
      else none := by
  rw [parseStrBody.eq_def]
  simp only [show (92 : UInt8) ≠ 34 by decide, if_false, if_true,
    show ¬ ((117 : UInt8) = 34 ∨ (117 : UInt8) = 92 ∨ (117 : UInt8) = 47 ∨ (117 : UInt8) = 98 ∨ (117 : UInt8) = 102
      ∨ (117 : UInt8) = 110 ∨ (117 : UInt8) = 114 ∨ (117 : UInt8) = 116) by decide]

theorem parseStrBody_bs_nil : parseStrBody [92] = none := by
  rw [parseStrBody.eq_def]; simp

theorem parseStrBody_bad (e : UInt8) (cs : Bytes)
    (h : ¬ (e = 34 ∨ e = 92 ∨ e = 47 ∨ e = 98 ∨ e = 102 ∨ e = 110 ∨ e = 114 ∨ e = 116)) (hu : e ≠ 117) :
    parseStrBody (92 :: e :: cs) = none := by
  rw [parseStrBody.eq_def]
  simp only [h, hu, if_true, show (92 : UInt8) ≠ 34 by decide, if_false]

theorem parseStrBody_u_short (cs : Bytes) (h : cs.length < 4) : parseStrBody (92 :: 117 :: cs) = none := by
  rw [parseStrBody.eq_def]
  rcases cs with _ | ⟨a, _ | ⟨b, _ | ⟨c, _ | ⟨d, cs⟩⟩⟩⟩ <;> simp at h ⊢
  omega

/-! ### valid bodies -/

/-- `validBody` as a proposition -/
def VB (b : Bytes) : Prop := parseStrBody (b ++ [34]) = some (b, [])

theorem validBody_eq_true_iff (b : Bytes) : validBody b = true ↔ VB b := validBody_iff b

def simpleEsc (e : UInt8) : Prop := e = 34 ∨ e = 92 ∨ e = 47 ∨ e = 98 ∨ e = 102 ∨ e = 110 ∨ e = 114 ∨ e = 116

instance (e : UInt8) : Decidable (simpleEsc e) := by unfold simpleEsc; infer_instance

theorem VB_nil : VB [] := by simp [VB, parseStrBody_quote]

private theorem map_cons_eq (o : Option (Bytes × Bytes)) (pre x y : Bytes) :
    (o.map fun p => (pre ++ p.1, p.2)) = some (pre ++ x, y) ↔ o = some (x, y) := by
  cases o with
  | none => simp
  | some p => 
    obtain ⟨p1, p2⟩ := p
    simp only [Option.map_some, Option.some.injEq, Prod.mk.injEq, List.append_cancel_left_eq]

theorem VB_plain_iff (c : UInt8) (rest : Bytes) (h : c ≠ 92) :
    VB (c :: rest) ↔ c ≠ 34 ∧ 32 ≤ c.toNat ∧ VB rest := by
  unfold VB
  by_cases h34 : c = 34
  · subst h34
    simp only [List.cons_append, parseStrBody_quote]
    simp
  · simp only [List.cons_append, parseStrBody_plain c _ h34 h]
    by_cases h32 : c.toNat < 32
    · simp only [h32, if_true]; constructor
      · intro h; cases h
      · intro h; omega
    · simp only [h32, if_false]
      have := map_cons_eq (parseStrBody (rest ++ [34])) [c] rest []
      simp only [List.cons_append, List.nil_append] at this
      rw [this]
      simp only [ne_eq, h34, not_false_eq_true, true_and]
      constructor
      · intro h; exact ⟨by omega, h⟩
      · intro h; exact h.2

theorem VB_bs_nil : ¬ VB [92] := by
  simp [VB, parseStrBody_simple]

theorem VB_simple_iff (e : UInt8) (rest : Bytes) (h : simpleEsc e) :
    VB (92 :: e :: rest) ↔ VB rest := by
  unfold VB
  simp only [List.cons_append, parseStrBody_simple e _ h]
  have := map_cons_eq (parseStrBody (rest ++ [34])) [92, e] rest []
  simp only [List.cons_append, List.nil_append] at this
  exact this

theorem VB_u_iff (h1 h2 h3 h4 : UInt8) (rest : Bytes) :
    VB (92 :: 117 :: h1 :: h2 :: h3 :: h4 :: rest) ↔
      (isHex h1 = true ∧ isHex h2 = true ∧ isHex h3 = true ∧ isHex h4 = true) ∧ VB rest := by
  unfold VB
  simp only [List.cons_append, parseStrBody_u]
  by_cases hh : (isHex h1 && isHex h2 && isHex h3 && isHex h4) = true
  · simp only [hh, if_true]
    have := map_cons_eq (parseStrBody (rest ++ [34])) [92, 117, h1, h2, h3, h4] rest []
    simp only [List.cons_append, List.nil_append] at this
    rw [this]
    simp only [Bool.and_eq_true] at hh
    simp only [hh, and_self, true_and]
  · simp only [hh]
    simp only [Bool.and_eq_true] at hh
    constructor
    · intro h; cases h
    · intro h; exact absurd ⟨⟨⟨h.1.1, h.1.2.1⟩, h.1.2.2.1⟩, h.1.2.2.2⟩ hh

theorem VB_u_short (rest : Bytes) (h : rest.length < 4) : ¬ VB (92 :: 117 :: rest) := by
  unfold VB
  rcases rest with _ | ⟨a, _ | ⟨b, _ | ⟨c, _ | ⟨d, cs⟩⟩⟩⟩
  · simp [parseStrBody_u_short]
  · simp [parseStrBody_u_short]
  · simp [parseStrBody_u_short]
  · simp only [List.cons_append, List.nil_append, parseStrBody_u]
    have : isHex 34 = false := by decide
    simp [this]
  · simp at h; omega

theorem VB_bad (e : UInt8) (rest : Bytes) (h : ¬ simpleEsc e) (hu : e ≠ 117) : ¬ VB (92 :: e :: rest) := by
  unfold VB
  simp only [List.cons_append, parseStrBody_bad e _ h hu]
  simp

/-- the shapes of a valid body -/
theorem VB_cases (b : Bytes) (h : VB b) :
    b = [] ∨
    (∃ c rest, b = c :: rest ∧ c ≠ 92 ∧ c ≠ 34 ∧ 32 ≤ c.toNat ∧ VB rest) ∨
    (∃ e rest, b = 92 :: e :: rest ∧ simpleEsc e ∧ VB rest) ∨
    (∃ h1 h2 h3 h4 rest, b = 92 :: 117 :: h1 :: h2 :: h3 :: h4 :: rest ∧
      isHex h1 = true ∧ isHex h2 = true ∧ isHex h3 = true ∧ isHex h4 = true ∧ VB rest) := by
  cases b with
  | nil => left; rfl
  | cons c rest =>
    by_cases h92 : c = 92
    · subst h92
      cases rest with
      | nil => exact absurd h VB_bs_nil
      | cons e rest =>
        by_cases hs : simpleEsc e
        · right; right; left; exact ⟨e, rest, rfl, hs, (VB_simple_iff e rest hs).1 h⟩
        · by_cases hu : e = 117
          · subst hu
            rcases rest with _ | ⟨h1, _ | ⟨h2, _ | ⟨h3, _ | ⟨h4, rest⟩⟩⟩⟩
            · exact absurd h (VB_u_short _ (by simp))
            · exact absurd h (VB_u_short _ (by simp))
            · exact absurd h (VB_u_short _ (by simp))
            · exact absurd h (VB_u_short _ (by simp))
            · right; right; right
              have := (VB_u_iff h1 h2 h3 h4 rest).1 h
              exact ⟨h1, h2, h3, h4, rest, rfl, this.1.1, this.1.2.1, this.1.2.2.1, this.1.2.2.2, this.2⟩
          · exact absurd h (VB_bad e rest hs hu)
    · right; left
      have := (VB_plain_iff c rest h92).1 h
      exact ⟨c, rest, rfl, h92, this.1, this.2.1, this.2.2⟩

/-! ### unquote steps -/

/-- lift a fact checked on all 256 bytes -/
theorem byte_forall (P : UInt8 → Prop) (h : ∀ n : Fin 256, P (UInt8.ofNat n.val)) (b : UInt8) : P b := by
  have := h ⟨b.toNat, b.toNat_lt⟩
  simpa using this

/-- the byte a two-character escape denotes -/
def escChar (e : UInt8) : UInt8 :=
  if e = 98 then 8 else if e = 102 then 12 else if e = 110 then 10 else if e = 114 then 13
  else if e = 116 then 9 else e

theorem unquoteBody_simple (e : UInt8) (X : Bytes) (h : simpleEsc e) :
    unquoteBody (92 :: e :: X) = (unquoteBody X).map (escChar e :: ·) := by
  rw [unquoteBody_esc]
  rcases h with h | h | h | h | h | h | h | h <;> subst h <;> simp [escChar]

theorem hex4_cons4 (h1 h2 h3 h4 : UInt8) (X : Bytes) : hex4 (h1 :: h2 :: h3 :: h4 :: X) = hex4 [h1, h2, h3, h4] := rfl

theorem hex4_isSome (h1 h2 h3 h4 : UInt8) (a : isHex h1 = true) (b : isHex h2 = true) (c : isHex h3 = true)
    (d : isHex h4 = true) : ∃ rr, hex4 [h1, h2, h3, h4] = some rr := by
  simp only [isHex, Option.isSome_iff_exists] at a b c d
  obtain ⟨w, hw⟩ := a; obtain ⟨x, hx⟩ := b; obtain ⟨y, hy⟩ := c; obtain ⟨z, hz⟩ := d
  exact ⟨((w * 16 + x) * 16 + y) * 16 + z, by simp only [hex4, hw, hx, hy, hz]⟩

theorem unquoteBody_u4 (h1 h2 h3 h4 : UInt8) (X : Bytes) (rr : Nat) (hh : hex4 [h1, h2, h3, h4] = some rr)
    (hs : isSurrogate rr = false) :
    unquoteBody (92 :: 117 :: h1 :: h2 :: h3 :: h4 :: X) = (unquoteBody X).map (encodeRune rr ++ ·) := by
  rw [unquoteBody_esc, hex4_cons4, hh]
  simp [hs]

theorem unquoteBody_u4_pair (h1 h2 h3 h4 : UInt8) (X : Bytes) (rr dec : Nat) (hh : hex4 [h1, h2, h3, h4] = some rr)
    (hs : isSurrogate rr = true) (hp : utf16Pair rr (getu4 X) = some dec) :
    unquoteBody (92 :: 117 :: h1 :: h2 :: h3 :: h4 :: X) = (unquoteBody (X.drop 6)).map (encodeRune dec ++ ·) := by
  rw [unquoteBody_esc, hex4_cons4, hh]
  simp [hs, hp]

theorem unquoteBody_u4_lone (h1 h2 h3 h4 : UInt8) (X : Bytes) (rr : Nat) (hh : hex4 [h1, h2, h3, h4] = some rr)
    (hs : isSurrogate rr = true) (hp : utf16Pair rr (getu4 X) = none) :
    unquoteBody (92 :: 117 :: h1 :: h2 :: h3 :: h4 :: X) = (unquoteBody X).map (encodeRune runeError ++ ·) := by
  rw [unquoteBody_esc, hex4_cons4, hh]
  simp [hs, hp]

theorem getu4_u (l : Bytes) : getu4 (92 :: 117 :: l) = hex4 l := rfl
theorem getu4_nil : getu4 [] = none := rfl
theorem getu4_ne (c : UInt8) (l : Bytes) (h : c ≠ 92) : getu4 (c :: l) = none := by
  unfold getu4; split
  · rename_i heq; injection heq with h1 _; exact absurd h1 h
  · rfl
theorem getu4_ne2 (e : UInt8) (l : Bytes) (h : e ≠ 117) : getu4 (92 :: e :: l) = none := by
  unfold getu4; split
  · rename_i heq; injection heq with _ h2; injection h2 with h2 _; exact absurd h2 h
  · rfl
theorem utf16Pair_none (rr : Nat) : utf16Pair rr none = none := rfl
theorem utf16Pair_small (rr v : Nat) (h : v < 0xDC00) : utf16Pair rr (some v) = none := by
  simp only [utf16Pair]; rw [if_neg]; omega


end JP
