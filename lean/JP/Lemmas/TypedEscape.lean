import JP.Lemmas.TypedWF
import JP.Lemmas.TextUtf8Tree
import JP.Lemmas.TransduceEsc

/-!
# The HTML-escape switch of the typed encoder changes only the spelling

`typedCst true t v` and `typedCst false t v` are both `none` or both `some`; in the latter case the two
trees have the same shape, the same literals, the same member names after decoding, and strings that
decode to the same bytes — EXCEPT at the strings of `,string` fields of Go type `string`: such a string
is marshalled twice (`quoteBody false (goString esc s)`), so the VALUE of the JSON string is the inner
JSON text `goString true s` resp. `goString false s`: two spellings of one string (`reqEq`).

* `escRel`: the relation on values; `cst_escape_rel`, `typed_escape_rel`, `typed_escape_same_outcome`.
* `typed_escape_counterexample`: plain equality of the values is false.
-/

namespace JP
namespace Codec
namespace Typed

open JP.Codec.Enc (isValidNumber null)

/-! ### the relation -/

/-- equal, or the two spellings of one twice-marshalled string -/
def reqEq (a b : Bytes) : Prop := a = b ∨ ∃ s, a = goString true s ∧ b = goString false s

mutual
/-- same shape, same literals, same member names, strings equal up to `reqEq` -/
def escRel : Value → Value → Prop
  | .str a, w => ∃ b, w = .str b ∧ reqEq a b
  | .arr xs, w => ∃ ys, w = .arr ys ∧ escRelL xs ys
  | .obj ms, w => ∃ ns, w = .obj ns ∧ escRelM ms ns
  | .null, w => w = .null
  | .bool b, w => w = .bool b
  | .num l, w => w = .num l
def escRelL : List Value → List Value → Prop
  | [], ys => ys = []
  | x :: xs, ys => ∃ y ys', ys = y :: ys' ∧ escRel x y ∧ escRelL xs ys'
def escRelM : Value.Members → Value.Members → Prop
  | [], ns => ns = []
  | (k, x) :: ms, ns => ∃ y ns', ns = (k, y) :: ns' ∧ escRel x y ∧ escRelM ms ns'
end

theorem reqEq_refl (a : Bytes) : reqEq a a := Or.inl rfl

mutual
theorem escRel_refl : ∀ v : Value, escRel v v
  | .str a => by simp only [escRel]; exact ⟨a, rfl, reqEq_refl a⟩
  | .arr xs => by simp only [escRel]; exact ⟨xs, rfl, escRelL_refl xs⟩
  | .obj ms => by simp only [escRel]; exact ⟨ms, rfl, escRelM_refl ms⟩
  | .null => by simp only [escRel]
  | .bool b => by simp only [escRel]
  | .num l => by simp only [escRel]
theorem escRelL_refl : ∀ xs : List Value, escRelL xs xs
  | [] => by simp only [escRelL]
  | x :: xs => by simp only [escRelL]; exact ⟨x, xs, rfl, escRel_refl x, escRelL_refl xs⟩
theorem escRelM_refl : ∀ ms : Value.Members, escRelM ms ms
  | [] => by simp only [escRelM]
  | (k, x) :: ms => by simp only [escRelM]; exact ⟨x, ms, rfl, escRel_refl x, escRelM_refl ms⟩
end

/-! ### relations on optional results and on lists of results -/

/-- both absent, or both present and related -/
def OptRel {α : Type} (R : α → α → Prop) : Option α → Option α → Prop
  | some a, some b => R a b
  | none, none => True
  | _, _ => False

theorem optRel_some {α : Type} {R : α → α → Prop} {a b : α} (h : R a b) : OptRel R (some a) (some b) := h

theorem optRel_none {α : Type} {R : α → α → Prop} : OptRel R (none : Option α) none := trivial

theorem OptRel.elim {α : Type} {R : α → α → Prop} {o1 o0 : Option α} (h : OptRel R o1 o0) :
    (o1 = none ∧ o0 = none) ∨ ∃ a b, o1 = some a ∧ o0 = some b ∧ R a b := by
  cases o1 with
  | none =>
    cases o0 with
    | none => exact Or.inl ⟨rfl, rfl⟩
    | some b => exact False.elim h
  | some a =>
    cases o0 with
    | none => exact False.elim h
    | some b => exact Or.inr ⟨a, b, rfl, rfl, h⟩

theorem OptRel.isSome_eq {α : Type} {R : α → α → Prop} {o1 o0 : Option α} (h : OptRel R o1 o0) :
    o1.isSome = o0.isSome := by
  rcases OptRel.elim h with ⟨e1, e0⟩ | ⟨a, b, e1, e0, _⟩
  · rw [e1, e0]
  · rw [e1, e0]; rfl

/-- elementwise -/
def RelL (R : Cst → Cst → Prop) : List Cst → List Cst → Prop
  | [], ys => ys = []
  | x :: xs, ys => ∃ y ys', ys = y :: ys' ∧ R x y ∧ RelL R xs ys'

/-- position by position: the same key (which satisfies `K`), related values -/
def RelKV (K : Bytes → Prop) (R : Cst → Cst → Prop) : List (Bytes × Cst) → List (Bytes × Cst) → Prop
  | [], ns => ns = []
  | (k, x) :: ms, ns => ∃ y ns', ns = (k, y) :: ns' ∧ K k ∧ R x y ∧ RelKV K R ms ns'

theorem RelL_nil {R : Cst → Cst → Prop} : RelL R [] [] := by simp only [RelL]

theorem RelL_cons {R : Cst → Cst → Prop} {a b : Cst} {as bs : List Cst} (h : R a b) (hs : RelL R as bs) :
    RelL R (a :: as) (b :: bs) := by
  simp only [RelL]; exact ⟨b, bs, rfl, h, hs⟩

theorem RelKV_nil {K : Bytes → Prop} {R : Cst → Cst → Prop} : RelKV K R [] [] := by simp only [RelKV]

theorem RelKV_cons {K : Bytes → Prop} {R : Cst → Cst → Prop} {k : Bytes} {a b : Cst} {as bs : List (Bytes × Cst)}
    (hk : K k) (h : R a b) (hs : RelKV K R as bs) : RelKV K R ((k, a) :: as) ((k, b) :: bs) := by
  simp only [RelKV]; exact ⟨b, bs, rfl, hk, h, hs⟩

theorem RelKV_nil_elim {K : Bytes → Prop} {R : Cst → Cst → Prop} {ns : List (Bytes × Cst)}
    (h : RelKV K R [] ns) : ns = [] := by
  simpa only [RelKV] using h

theorem RelKV_cons_elim {K : Bytes → Prop} {R : Cst → Cst → Prop} {k : Bytes} {a : Cst} {as ns : List (Bytes × Cst)}
    (h : RelKV K R ((k, a) :: as) ns) : ∃ b bs, ns = (k, b) :: bs ∧ K k ∧ R a b ∧ RelKV K R as bs := by
  simpa only [RelKV] using h

theorem RelL_nil_elim {R : Cst → Cst → Prop} {ys : List Cst} (h : RelL R [] ys) : ys = [] := by
  simpa only [RelL] using h

theorem RelL_cons_elim {R : Cst → Cst → Prop} {a : Cst} {as ys : List Cst}
    (h : RelL R (a :: as) ys) : ∃ b bs, ys = b :: bs ∧ R a b ∧ RelL R as bs := by
  simpa only [RelL] using h

/-! ### the combinators on two pointwise related encoders -/

theorem encAll_rel (R : Cst → Cst → Prop) (f1 f0 : GoVal → Option Cst) :
    ∀ (xs : List GoVal), (∀ x ∈ xs, OptRel R (f1 x) (f0 x)) → OptRel (RelL R) (encAll f1 xs) (encAll f0 xs)
  | [], _ => by simp only [encAll]; exact optRel_some RelL_nil
  | x :: xs, h => by
    have hx := h x List.mem_cons_self
    have ih := encAll_rel R f1 f0 xs (fun y hy => h y (List.mem_cons_of_mem _ hy))
    simp only [encAll]
    rcases OptRel.elim hx with ⟨e1, e0⟩ | ⟨a, b, e1, e0, hr⟩
    · rw [e1, e0]; exact optRel_none
    · rw [e1, e0]
      simp only []
      rcases OptRel.elim ih with ⟨i1, i0⟩ | ⟨as, bs, i1, i0, hrs⟩
      · rw [i1, i0]; exact optRel_none
      · rw [i1, i0]; exact optRel_some (RelL_cons hr hrs)

theorem encEntries_rel (R : Cst → Cst → Prop) (f1 f0 : GoVal → Option Cst) :
    ∀ (ms : List (MapKey × GoVal)), (∀ p ∈ ms, OptRel R (f1 p.2) (f0 p.2)) →
      OptRel (RelKV (fun _ => True) R) (encEntries f1 ms) (encEntries f0 ms)
  | [], _ => by simp only [encEntries]; exact optRel_some RelKV_nil
  | (k, v) :: ms, h => by
    have hx := h (k, v) List.mem_cons_self
    have ih := encEntries_rel R f1 f0 ms (fun y hy => h y (List.mem_cons_of_mem _ hy))
    simp only [encEntries]
    rcases OptRel.elim hx with ⟨e1, e0⟩ | ⟨a, b, e1, e0, hr⟩
    · rw [e1, e0]; exact optRel_none
    · rw [e1, e0]
      simp only []
      rcases OptRel.elim ih with ⟨i1, i0⟩ | ⟨as, bs, i1, i0, hrs⟩
      · rw [i1, i0]; exact optRel_none
      · rw [i1, i0]; exact optRel_some (RelKV_cons trivial hr hrs)

/-- `walk`, `isEmptyValue`, `typeByIndex` do not read the switch: both sides take the same branches -/
theorem encFields_rel (K : Bytes → Prop) (R : Cst → Cst → Prop) (f1 f0 : Bool → GoType → GoVal → Option Cst)
    (t : GoType) (v : GoVal) :
    ∀ (flds : List Fld),
      (∀ fld ∈ flds, ∀ fv, walk fld.index v = .val fv →
        K fld.name ∧ OptRel R (f1 fld.quoted (typeByIndex t fld.index) fv) (f0 fld.quoted (typeByIndex t fld.index) fv)) →
      OptRel (RelKV K R) (encFields f1 t v flds) (encFields f0 t v flds)
  | [], _ => by simp only [encFields]; exact optRel_some RelKV_nil
  | fld :: flds, h => by
    have ih := encFields_rel K R f1 f0 t v flds (fun y hy => h y (List.mem_cons_of_mem _ hy))
    simp only [encFields]
    cases hw : walk fld.index v with
    | skip => exact ih
    | bad => exact optRel_none
    | val fv =>
      simp only []
      obtain ⟨hk, hx⟩ := h fld List.mem_cons_self fv hw
      by_cases he : (fld.omitEmpty && isEmptyValue (typeByIndex t fld.index) fv) = true
      · simp only [he, if_true]; exact ih
      · simp only [he]
        rcases OptRel.elim hx with ⟨e1, e0⟩ | ⟨a, b, e1, e0, hr⟩
        · rw [e1, e0]; exact optRel_none
        · rw [e1, e0]
          simp only []
          rcases OptRel.elim ih with ⟨i1, i0⟩ | ⟨as, bs, i1, i0, hrs⟩
          · rw [i1, i0]; exact optRel_none
          · rw [i1, i0]; exact optRel_some (RelKV_cons hk hr hrs)

/-- the comparison reads only the keys -/
theorem insertKV_rel (K : Bytes → Prop) (R : Cst → Cst → Prop) (k : Bytes) (a b : Cst) (hk : K k) (hr : R a b) :
    ∀ (l1 l0 : List (Bytes × Cst)), RelKV K R l1 l0 → RelKV K R (insertKV k a l1) (insertKV k b l0)
  | [], l0, h => by
    have := RelKV_nil_elim h
    subst this
    simp only [insertKV]
    exact RelKV_cons hk hr RelKV_nil
  | (k', a') :: l1, l0, h => by
    obtain ⟨b', l0', rfl, hk', hr', hrest⟩ := RelKV_cons_elim h
    simp only [insertKV]
    cases bytesLt k k' with
    | true => simp only [if_true]; exact RelKV_cons hk hr (RelKV_cons hk' hr' hrest)
    | false =>
      simp only [Bool.false_eq_true, if_false]
      exact RelKV_cons hk' hr' (insertKV_rel K R k a b hk hr l1 l0' hrest)

theorem sortKV_rel (K : Bytes → Prop) (R : Cst → Cst → Prop) :
    ∀ (l1 l0 : List (Bytes × Cst)), RelKV K R l1 l0 → RelKV K R (sortKV l1) (sortKV l0)
  | [], l0, h => by
    have := RelKV_nil_elim h
    subst this
    simp only [sortKV]
    exact RelKV_nil
  | (k, a) :: l1, l0, h => by
    obtain ⟨b, l0', rfl, hk, hr, hrest⟩ := RelKV_cons_elim h
    simp only [sortKV]
    exact insertKV_rel K R k a b hk hr _ _ (sortKV_rel K R l1 l0' hrest)

/-! ### from related trees to related values -/

/-- the two trees denote `escRel`-related values -/
def CR (c1 c0 : Cst) : Prop := escRel c1.valueOf c0.valueOf

theorem CR_refl (c : Cst) : CR c c := escRel_refl _

theorem valueOfL_rel : ∀ (cs1 cs0 : List Cst), RelL CR cs1 cs0 → escRelL (Cst.valueOfL cs1) (Cst.valueOfL cs0)
  | [], cs0, h => by
    have := RelL_nil_elim h
    subst this
    simp only [Cst.valueOfL, escRelL]
  | c :: cs1, cs0, h => by
    obtain ⟨d, cs0', rfl, hr, hrest⟩ := RelL_cons_elim h
    simp only [Cst.valueOfL, escRelL]
    exact ⟨_, _, rfl, hr, valueOfL_rel cs1 cs0' hrest⟩

/-- map keys: `e.string` with and without HTML escaping decode to the same name -/
theorem keyMembers_rel : ∀ (l1 l0 : List (Bytes × Cst)), RelKV (fun _ => True) CR l1 l0 →
    escRelM (Cst.valueOfM (keyMembers true l1)) (Cst.valueOfM (keyMembers false l0))
  | [], l0, h => by
    have := RelKV_nil_elim h
    subst this
    simp only [keyMembers, Cst.valueOfM, escRelM]
  | (k, c) :: l1, l0, h => by
    obtain ⟨d, l0', rfl, _, hr, hrest⟩ := RelKV_cons_elim h
    simp only [keyMembers, Cst.valueOfM, escRelM]
    refine ⟨_, _, ?_, hr, keyMembers_rel l1 l0' hrest⟩
    rw [unquote_quoteBody_indep true k]

theorem unquote_nameBody (n : Bytes) (h : validBody n = true) : unquote (nameBody true n) = unquote (nameBody false n) := by
  simp only [nameBody, if_true, Bool.false_eq_true, if_false]
  rw [htmlEscape_eq_escBody]
  exact unquote_escBody n ((validBody_iff n).1 h)

/-- struct member names: `HTMLEscape` of a name that can stand raw between quotes decodes to the same name -/
theorem nameMembers_rel : ∀ (l1 l0 : List (Bytes × Cst)), RelKV (fun n => validBody n = true) CR l1 l0 →
    escRelM (Cst.valueOfM (nameMembers true l1)) (Cst.valueOfM (nameMembers false l0))
  | [], l0, h => by
    have := RelKV_nil_elim h
    subst this
    simp only [nameMembers, Cst.valueOfM, escRelM]
  | (k, c) :: l1, l0, h => by
    obtain ⟨d, l0', rfl, hk, hr, hrest⟩ := RelKV_cons_elim h
    simp only [nameMembers, Cst.valueOfM, escRelM]
    refine ⟨_, _, ?_, hr, nameMembers_rel l1 l0' hrest⟩
    rw [unquote_nameBody k hk]

theorem isValidUtf8_goString (e : Bool) (s : Bytes) : isValidUtf8 (goString e s) = true := by
  show isValidUtf8 (34 :: (quoteBody e s ++ 34 :: [])) = true
  exact isValidUtf8_quoted _ [] (isValidUtf8_quoteBody e s) rfl

/-- the value of a twice-marshalled string is the inner JSON text -/
theorem unquote_requoted (e : Bool) (s : Bytes) : unquote (quoteBody false (goString e s)) = goString e s :=
  unquote_quoteBody false _ (isValidUtf8_goString e s)

/-! ### one encoder call -/

theorem arrayCstBody_rel (g1 g0 : GoVal → Option Cst) (xs : List GoVal)
    (hg : ∀ x ∈ xs, OptRel CR (g1 x) (g0 x)) : OptRel CR (arrayCstBody g1 xs) (arrayCstBody g0 xs) := by
  simp only [arrayCstBody]
  rcases OptRel.elim (encAll_rel CR g1 g0 xs hg) with ⟨e1, e0⟩ | ⟨as, bs, e1, e0, hr⟩
  · rw [e1, e0]; exact optRel_none
  · rw [e1, e0]
    apply optRel_some
    show escRel (Cst.valueOf (.arr as)) (Cst.valueOf (.arr bs))
    simp only [Cst.valueOf, escRel]
    exact ⟨_, rfl, valueOfL_rel as bs hr⟩

theorem cstT_rel (g1 g0 : Bool → GoType → GoVal → Option Cst)
    (hg : ∀ q t v, Ok t v → OptRel CR (g1 q t v) (g0 q t v))
    (q : Bool) (t : GoType) (v : GoVal) (hok : Ok t v) : OptRel CR (cstT true g1 q t v) (cstT false g0 q t v) := by
  obtain ⟨ht, hv⟩ := hok
  cases t with
  | bool =>
    simp only [cstT]
    cases v with
    | bool b => simp only [boolCst]; exact optRel_some (CR_refl _)
    | _ => simp only [boolCst]; exact optRel_none
  | int k =>
    simp only [cstT]
    cases v with
    | int n => simp only [intCst]; exact optRel_some (CR_refl _)
    | _ => simp only [intCst]; exact optRel_none
  | uint k =>
    simp only [cstT]
    cases v with
    | uint n => simp only [uintCst]; exact optRel_some (CR_refl _)
    | _ => simp only [uintCst]; exact optRel_none
  | string =>
    simp only [cstT]
    cases v with
    | str s =>
      simp only [stringCst]
      apply optRel_some
      show escRel (Cst.valueOf (.str _)) (Cst.valueOf (.str _))
      cases q
      · simp only [Bool.false_eq_true, if_false, Cst.valueOf, escRel]
        exact ⟨_, rfl, Or.inl (unquote_quoteBody_indep true s)⟩
      · simp only [if_true, Cst.valueOf, escRel]
        exact ⟨_, rfl, Or.inr ⟨s, unquote_requoted true s, unquote_requoted false s⟩⟩
    | _ => simp only [stringCst]; exact optRel_none
  | number =>
    simp only [cstT]
    cases v with
    | str s =>
      simp only [numberCst]
      by_cases hn : isValidNumber (if s.isEmpty = true then [48] else s) = true
      · simp only [hn, if_true]; exact optRel_some (CR_refl _)
      · simp only [hn]; exact optRel_none
    | _ => simp only [numberCst]; exact optRel_none
  | iface =>
    simp only [cstT]
    cases v with
    | nil => simp only [ifaceCst]; exact optRel_some (CR_refl _)
    | iface dt dv =>
      simp only [ifaceCst]
      simp only [GoVal.typesWf, Bool.and_eq_true] at hv
      exact hg q dt dv ⟨hv.1, hv.2⟩
    | _ => simp only [ifaceCst]; exact optRel_none
  | struct n fs =>
    simp only [cstT]
    cases v with
    | struct vs =>
      simp only [structCst]
      have hflds := encFields_rel (fun nm => validBody nm = true) CR g1 g0 (.struct n fs) (.struct vs)
        (typeFields (.struct n fs))
        (fun fld hfld fv hw =>
          ⟨validBody_of_nameOk _ (typeFields_names_ok _ nameOk_of_isValidTag ht fld hfld),
           hg fld.quoted _ fv ⟨wf_typeByIndex _ _ ht, walk_typesWf _ _ fv hw hv⟩⟩)
      rcases OptRel.elim hflds with ⟨e1, e0⟩ | ⟨ms1, ms0, e1, e0, hr⟩
      · rw [e1, e0]; exact optRel_none
      · rw [e1, e0]
        apply optRel_some
        show escRel (Cst.valueOf (.obj _)) (Cst.valueOf (.obj _))
        simp only [Cst.valueOf, escRel]
        exact ⟨_, rfl, nameMembers_rel ms1 ms0 hr⟩
    | _ => simp only [structCst]; exact optRel_none
  | map k e =>
    simp only [cstT]
    simp only [GoType.wf] at ht
    cases v with
    | nil => simp only [mapCst]; exact optRel_some (CR_refl _)
    | map ms =>
      simp only [mapCst]
      simp only [GoVal.typesWf] at hv
      have hents := encEntries_rel CR (g1 q e) (g0 q e) ms
        (fun p hp => hg q e p.2 ⟨ht, typesWfM_mem ms hv p hp⟩)
      rcases OptRel.elim hents with ⟨e1, e0⟩ | ⟨l1, l0, e1, e0, hr⟩
      · rw [e1, e0]; exact optRel_none
      · rw [e1, e0]
        apply optRel_some
        show escRel (Cst.valueOf (.obj _)) (Cst.valueOf (.obj _))
        simp only [Cst.valueOf, escRel]
        exact ⟨_, rfl, keyMembers_rel _ _ (sortKV_rel _ _ l1 l0 hr)⟩
    | _ => simp only [mapCst]; exact optRel_none
  | slice e =>
    simp only [cstT]
    simp only [GoType.wf] at ht
    cases hu : e.isUint8 with
    | true =>
      simp only [if_true]
      cases v with
      | nil => simp only [bytesCst]; exact optRel_some (CR_refl _)
      | bytes b => simp only [bytesCst]; exact optRel_some (CR_refl _)
      | _ => simp only [bytesCst]; exact optRel_none
    | false =>
      simp only [Bool.false_eq_true, if_false]
      cases v with
      | nil => simp only [sliceCst]; exact optRel_some (CR_refl _)
      | list xs =>
        simp only [sliceCst]
        simp only [GoVal.typesWf] at hv
        exact arrayCstBody_rel (g1 q e) (g0 q e) xs (fun x hx => hg q e x ⟨ht, typesWfL_mem xs hv x hx⟩)
      | _ => simp only [sliceCst]; exact optRel_none
  | array n e =>
    simp only [cstT]
    simp only [GoType.wf] at ht
    cases v with
    | list xs =>
      simp only [arrayCst]
      simp only [GoVal.typesWf] at hv
      by_cases hl : xs.length = n
      · simp only [hl, if_true]
        exact arrayCstBody_rel (g1 q e) (g0 q e) xs (fun x hx => hg q e x ⟨ht, typesWfL_mem xs hv x hx⟩)
      · simp only [hl, if_false]; exact optRel_none
    | _ => simp only [arrayCst]; exact optRel_none
  | ptr e =>
    simp only [cstT]
    simp only [GoType.wf] at ht
    cases v with
    | nil => simp only [ptrCst]; exact optRel_some (CR_refl _)
    | ptr pv =>
      simp only [ptrCst]
      simp only [GoVal.typesWf] at hv
      exact hg q e pv ⟨ht, hv⟩
    | _ => simp only [ptrCst]; exact optRel_none

/-! ### all encoder calls -/

theorem cst_escape_optRel : ∀ (fuel : Nat) (q : Bool) (t : GoType) (v : GoVal),
    Ok t v → OptRel CR (cst true fuel q t v) (cst false fuel q t v)
  | 0, _, _, _, _ => by simp only [cst]; exact optRel_none
  | fuel + 1, q, t, v, hok => by
    simp only [cst]
    exact cstT_rel (cst true fuel) (cst false fuel) (cst_escape_optRel fuel) q t v hok

/-- the two trees exist together and denote related values -/
theorem cst_escape_rel (fuel : Nat) (q : Bool) (t : GoType) (v : GoVal) (ht : t.wf = true) (hv : v.typesWf = true) :
    match cst true fuel q t v, cst false fuel q t v with
    | some c1, some c0 => escRel c1.valueOf c0.valueOf
    | none, none => True
    | _, _ => False := by
  have h := cst_escape_optRel fuel q t v ⟨ht, hv⟩
  rcases OptRel.elim h with ⟨e1, e0⟩ | ⟨a, b, e1, e0, hr⟩
  · rw [e1, e0]; exact trivial
  · rw [e1, e0]; exact hr

/-- `Marshal` with and without HTML escaping: both outputs parse, to `escRel`-related values -/
theorem typed_escape_rel (t : GoType) (v : GoVal) (bs1 bs0 : Bytes) (ht : t.wf = true) (hv : v.typesWf = true)
    (hd : v.depth ≤ maxDepth) (h1 : marshalTyped true t v = some bs1) (h0 : marshalTyped false t v = some bs0) :
    ∃ c1 c0, parseCst bs1 = some c1 ∧ parseCst bs0 = some c0 ∧ escRel c1.valueOf c0.valueOf := by
  obtain ⟨c1, hc1, _, hp1⟩ := typed_wellformed_cst true t v bs1 ht hv hd h1
  obtain ⟨c0, hc0, _, hp0⟩ := typed_wellformed_cst false t v bs0 ht hv hd h0
  refine ⟨c1, c0, hp1, hp0, ?_⟩
  have h := cst_escape_optRel (v.height + 1) false t v ⟨ht, hv⟩
  simp only [typedCst] at hc1 hc0
  rw [hc1, hc0] at h
  exact h

/-- the switch does not decide between output and error -/
theorem typed_escape_same_outcome (t : GoType) (v : GoVal) (ht : t.wf = true) (hv : v.typesWf = true) :
    (marshalTyped true t v).isSome = (marshalTyped false t v).isSome := by
  rw [marshalTyped_eq_print, marshalTyped_eq_print]
  simp only [Option.isSome_map]
  exact OptRel.isSome_eq (cst_escape_optRel (v.height + 1) false t v ⟨ht, hv⟩)

/-! ### plain equality of the values is false -/

/-- the struct type `struct { S string `json:",string"` }` -/
def ceType : GoType :=
  .struct [] [({ name := [83], tag := [44, 115, 116, 114, 105, 110, 103], anonymous := false, exported := true }, .string)]

/-- its value `{S: "<"}` -/
def ceVal : GoVal := .struct [.str [60]]

/-- `{"S":"\"\\u003c\""}` -/
def ceOut1 : Bytes := [123, 34, 83, 34, 58, 34, 92, 34, 92, 92, 117, 48, 48, 51, 99, 92, 34, 34, 125]

/-- `{"S":"\"<\""}` -/
def ceOut0 : Bytes := [123, 34, 83, 34, 58, 34, 92, 34, 60, 92, 34, 34, 125]

theorem ceType_eq :
    ceType = .struct [] [({ name := ascii "S", tag := ascii ",string", anonymous := false, exported := true }, .string)] := by
  have h1 : ascii "S" = [83] := by decide +kernel
  have h2 : ascii ",string" = [44, 115, 116, 114, 105, 110, 103] := by decide +kernel
  rw [h1, h2]; rfl

theorem ceOut1_eq : ceOut1 = ascii "{\"S\":\"\\\"\\\\u003c\\\"\"}" := by decide +kernel

theorem ceOut0_eq : ceOut0 = ascii "{\"S\":\"\\\"<\\\"\"}" := by decide +kernel

theorem ce_marshal1 : marshalTyped true ceType ceVal = some ceOut1 := by decide +kernel

theorem ce_marshal0 : marshalTyped false ceType ceVal = some ceOut0 := by decide +kernel

/-- the string of the only member of an object -/
def probe : Value → Option Bytes
  | .obj [(_, .str a)] => some a
  | _ => none

theorem ce_probe1 :
    (parseCst ceOut1).map (fun c => probe c.valueOf) = some (some [34, 92, 117, 48, 48, 51, 99, 34]) := by
  decide +kernel

theorem ce_probe0 : (parseCst ceOut0).map (fun c => probe c.valueOf) = some (some [34, 60, 34]) := by
  decide +kernel

/-- a `,string` field of type `string` holding `<`: the two outputs are JSON texts of DIFFERENT values
(the member `S` is the string `"\u003c"` with escaping, `"<"` without: eight bytes against three), as
in Go's standard library; `escRel` (right disjunct of `reqEq`) is what holds -/
theorem typed_escape_counterexample :
    ∃ t v bs1 bs0 c1 c0, marshalTyped true t v = some bs1 ∧ marshalTyped false t v = some bs0 ∧
      parseCst bs1 = some c1 ∧ parseCst bs0 = some c0 ∧ c1.valueOf ≠ c0.valueOf := by
  have p1 := ce_probe1
  have p0 := ce_probe0
  cases h1 : parseCst ceOut1 with
  | none => rw [h1] at p1; cases p1
  | some c1 =>
    cases h0 : parseCst ceOut0 with
    | none => rw [h0] at p0; cases p0
    | some c0 =>
      rw [h1] at p1
      rw [h0] at p0
      simp only [Option.map_some, Option.some.injEq] at p1 p0
      refine ⟨ceType, ceVal, ceOut1, ceOut0, c1, c0, ce_marshal1, ce_marshal0, h1, h0, ?_⟩
      intro he
      rw [he, p0] at p1
      exact absurd p1 (by decide)

/-- the counterexample is an instance of the right disjunct of `reqEq` -/
theorem typed_escape_counterexample_rel :
    ∃ c1 c0, parseCst ceOut1 = some c1 ∧ parseCst ceOut0 = some c0 ∧ escRel c1.valueOf c0.valueOf :=
  typed_escape_rel ceType ceVal ceOut1 ceOut0 (by decide +kernel) (by decide +kernel) (by decide +kernel)
    ce_marshal1 ce_marshal0

/-! ### where no twice-marshalled string differs, the values are equal -/

mutual
/-- no string of the value is an HTML-escaped JSON string text whose unescaped spelling differs -/
def noRequote : Value → Prop
  | .str a => ∀ s, a = goString true s → goString true s = goString false s
  | .arr xs => noRequoteL xs
  | .obj ms => noRequoteM ms
  | _ => True
def noRequoteL : List Value → Prop
  | [] => True
  | x :: xs => noRequote x ∧ noRequoteL xs
def noRequoteM : Value.Members → Prop
  | [] => True
  | (_, x) :: ms => noRequote x ∧ noRequoteM ms
end

mutual
theorem escRel_eq_of_no_requote : ∀ (a b : Value), escRel a b → noRequote a → a = b
  | .str a, b, h, hp => by
    simp only [escRel] at h
    obtain ⟨b', rfl, hr⟩ := h
    simp only [noRequote] at hp
    rcases hr with rfl | ⟨s, rfl, rfl⟩
    · rfl
    · rw [hp s rfl]
  | .arr xs, b, h, hp => by
    simp only [escRel] at h
    obtain ⟨ys, rfl, hl⟩ := h
    simp only [noRequote] at hp
    rw [escRelL_eq_of_no_requote xs ys hl hp]
  | .obj ms, b, h, hp => by
    simp only [escRel] at h
    obtain ⟨ns, rfl, hl⟩ := h
    simp only [noRequote] at hp
    rw [escRelM_eq_of_no_requote ms ns hl hp]
  | .null, b, h, _ => by simp only [escRel] at h; exact h.symm
  | .bool x, b, h, _ => by simp only [escRel] at h; exact h.symm
  | .num l, b, h, _ => by simp only [escRel] at h; exact h.symm
theorem escRelL_eq_of_no_requote : ∀ (xs ys : List Value), escRelL xs ys → noRequoteL xs → xs = ys
  | [], ys, h, _ => by simp only [escRelL] at h; exact h.symm
  | x :: xs, ys, h, hp => by
    simp only [escRelL] at h
    obtain ⟨y, ys', rfl, hx, hxs⟩ := h
    simp only [noRequoteL] at hp
    rw [escRel_eq_of_no_requote x y hx hp.1, escRelL_eq_of_no_requote xs ys' hxs hp.2]
theorem escRelM_eq_of_no_requote : ∀ (ms ns : Value.Members), escRelM ms ns → noRequoteM ms → ms = ns
  | [], ns, h, _ => by simp only [escRelM] at h; exact h.symm
  | (k, x) :: ms, ns, h, hp => by
    simp only [escRelM] at h
    obtain ⟨y, ns', rfl, hx, hxs⟩ := h
    simp only [noRequoteM] at hp
    rw [escRel_eq_of_no_requote x y hx hp.1, escRelM_eq_of_no_requote ms ns' hxs hp.2]
end

end Typed
end Codec
end JP
