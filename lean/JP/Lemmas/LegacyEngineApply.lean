import JP.Lemmas.LegacyEngineCopy

/-!
# Legacy engine lemmas, part 6: one operation and the operation list against the specification,
with the simulation relation `Rel root d` (`Inv`, parsed container, `den root` equal to the
specification's document `d` up to member order)
-/

namespace JP
namespace Legacy

open Value
open Impl (QK Outcome Err)
open Spec (Res)

/-! ### `applyOp` by kind -/

theorem fstOutL_lift (acc : Int) (x : Outcome Node) :
    fstOutL (match x with
      | .ok r' => .ok (r', acc)
      | .err e => .err e
      | .panic => .panic) = x := by
  cases x <;> rfl

theorem applyOp_add {neg limit root acci op} (h : op.kind = ascii "add") :
    fstOutL (applyOp neg limit root acci op) = opAdd neg root op := by
  simp only [applyOp]; rw [if_pos h]; exact fstOutL_lift _ _

theorem applyOp_remove {neg limit root acci op} (h : op.kind = ascii "remove") :
    fstOutL (applyOp neg limit root acci op) = opRemove neg root op := by
  have h1 : op.kind ≠ ascii "add" := by rw [h]; decide
  simp only [applyOp]; rw [if_neg h1, if_pos h]; exact fstOutL_lift _ _

theorem applyOp_replace {neg limit root acci op} (h : op.kind = ascii "replace") :
    fstOutL (applyOp neg limit root acci op) = opReplace neg root op := by
  have h1 : op.kind ≠ ascii "add" := by rw [h]; decide
  have h2 : op.kind ≠ ascii "remove" := by rw [h]; decide
  simp only [applyOp]; rw [if_neg h1, if_neg h2, if_pos h]; exact fstOutL_lift _ _

theorem applyOp_move {neg limit root acci op} (h : op.kind = ascii "move") :
    fstOutL (applyOp neg limit root acci op) = opMove neg root op := by
  have h1 : op.kind ≠ ascii "add" := by rw [h]; decide
  have h2 : op.kind ≠ ascii "remove" := by rw [h]; decide
  have h3 : op.kind ≠ ascii "replace" := by rw [h]; decide
  simp only [applyOp]; rw [if_neg h1, if_neg h2, if_neg h3, if_pos h]; exact fstOutL_lift _ _

theorem applyOp_test {neg limit root acci op} (h : op.kind = ascii "test") :
    fstOutL (applyOp neg limit root acci op) = opTest neg root op := by
  have h1 : op.kind ≠ ascii "add" := by rw [h]; decide
  have h2 : op.kind ≠ ascii "remove" := by rw [h]; decide
  have h3 : op.kind ≠ ascii "replace" := by rw [h]; decide
  have h4 : op.kind ≠ ascii "move" := by rw [h]; decide
  simp only [applyOp]; rw [if_neg h1, if_neg h2, if_neg h3, if_neg h4, if_pos h]; exact fstOutL_lift _ _

theorem applyOp_copy' {neg limit root acci op} (h : op.kind = ascii "copy") :
    applyOp neg limit root acci op = opCopy neg limit root acci op := by
  have h1 : op.kind ≠ ascii "add" := by rw [h]; decide
  have h2 : op.kind ≠ ascii "remove" := by rw [h]; decide
  have h3 : op.kind ≠ ascii "replace" := by rw [h]; decide
  have h4 : op.kind ≠ ascii "move" := by rw [h]; decide
  have h5 : op.kind ≠ ascii "test" := by rw [h]; decide
  simp only [applyOp]; rw [if_neg h1, if_neg h2, if_neg h3, if_neg h4, if_neg h5, if_pos h]

theorem fstOutL_ok {x : Outcome (Node × Int)} {r' : Node} (h : fstOutL x = .ok r') :
    ∃ a, x = .ok (r', a) := by
  cases x with
  | ok ra => obtain ⟨r1, a⟩ := ra; simp only [fstOutL, Outcome.ok.injEq] at h; subst h; exact ⟨a, rfl⟩
  | err e => cases h
  | panic => cases h

theorem fstOutL_err {x : Outcome (Node × Int)} {er : Err} (h : fstOutL x = .err er) : x = .err er := by
  cases x with
  | ok ra => cases h
  | err e => simp only [fstOutL, Outcome.err.injEq] at h; subst h; rfl
  | panic => cases h

/-! ### the RFC 6901 strictness the legacy package does not have

The legacy package reads a pointer without a leading `/` as if the text before the first `/`
were not there; the specification rejects it (`parentUnreachable`, or — for `move` / `copy` with
such a destination — the failure of the source half).  So the refinement holds on the operations
whose pointers parse where that matters (`strictOp`, decidable; the harness excludes the same
operations: `legacyLoose`, `JP/Driver.lean`, `handleLApply`). -/

/-- a pointer inside RFC 6901: empty, or starting with `/` -/
def strictPtr (p : Bytes) : Bool := (Spec.parsePointer p).isSome

/-- the domain of the refinement, per decoded operation: the `path` of a `remove`, `move` or
`copy` and the `from` of a `move` parse.  (`add`, `replace`, `test` with a malformed `path`, and a
`copy` with a malformed `from`, need no exclusion: the specification fails with a cause that is not
listed for them.) -/
def strictOp (op : Op) : Bool :=
  (!(op.kind = ascii "remove" || op.kind = ascii "move" || op.kind = ascii "copy") ||
    (match op.path with
     | .ok p => strictPtr p
     | _ => true)) &&
  (!(op.kind = ascii "move") ||
    (match op.frm with
     | .ok f => strictPtr f
     | _ => true))

def strictOps (ops : List Op) : Bool := ops.all strictOp

theorem strictOps_iff {ops : List Op} : strictOps ops = true ↔ ∀ op ∈ ops, strictOp op = true := by
  simp [strictOps, List.all_eq_true]

theorem strictOp_path {op : Op} {p : Bytes} (h : strictOp op = true)
    (hk : op.kind = ascii "remove" ∨ op.kind = ascii "move" ∨ op.kind = ascii "copy")
    (hp : op.path = .ok p) : Spec.parsePointer p ≠ none := by
  intro hn
  simp only [strictOp, hp, strictPtr, hn, Option.isSome_none, Bool.and_eq_true, Bool.or_eq_true,
    Bool.not_eq_true', Bool.or_eq_false_iff, decide_eq_false_iff_not, Bool.false_eq_true, or_false] at h
  rcases hk with hk | hk | hk
  · exact h.1.1.1 hk
  · exact h.1.1.2 hk
  · exact h.1.2 hk

theorem strictOp_frm {op : Op} {f : Bytes} (h : strictOp op = true)
    (hk : op.kind = ascii "move") (hf : op.frm = .ok f) : Spec.parsePointer f ≠ none := by
  intro hn
  simp only [strictOp, hf, strictPtr, hn, Option.isSome_none, Bool.and_eq_true, Bool.or_eq_true,
    Bool.not_eq_true', decide_eq_false_iff_not, Bool.false_eq_true, or_false] at h
  exact h.2 hk

theorem specKind_eq {k : Bytes} {sk : Spec.OpKind} (h : specKind k = some sk) :
    (sk = .add ∧ k = ascii "add") ∨ (sk = .remove ∧ k = ascii "remove") ∨
    (sk = .replace ∧ k = ascii "replace") ∨ (sk = .move ∧ k = ascii "move") ∨
    (sk = .copy ∧ k = ascii "copy") ∨ (sk = .test ∧ k = ascii "test") := by
  simp only [specKind] at h
  by_cases h1 : k = ascii "add"
  · rw [if_pos h1] at h; cases h; exact .inl ⟨rfl, h1⟩
  rw [if_neg h1] at h
  by_cases h2 : k = ascii "remove"
  · rw [if_pos h2] at h; cases h; exact .inr (.inl ⟨rfl, h2⟩)
  rw [if_neg h2] at h
  by_cases h3 : k = ascii "replace"
  · rw [if_pos h3] at h; cases h; exact .inr (.inr (.inl ⟨rfl, h3⟩))
  rw [if_neg h3] at h
  by_cases h4 : k = ascii "move"
  · rw [if_pos h4] at h; cases h; exact .inr (.inr (.inr (.inl ⟨rfl, h4⟩)))
  rw [if_neg h4] at h
  by_cases h5 : k = ascii "copy"
  · rw [if_pos h5] at h; cases h; exact .inr (.inr (.inr (.inr (.inl ⟨rfl, h5⟩))))
  rw [if_neg h5] at h
  by_cases h6 : k = ascii "test"
  · rw [if_pos h6] at h; cases h; exact .inr (.inr (.inr (.inr (.inr ⟨rfl, h6⟩))))
  rw [if_neg h6] at h
  cases h

/-! ### specification side: outside the domain -/

theorem spec_novalue {so : Spec.Opts} {sz acc : Nat} {doc : Value} {sop : Spec.Op} {toks : List Bytes}
    (hk : sop.kind = .add ∨ sop.kind = .replace) (hv : sop.value = none)
    (hp : Spec.parsePointer sop.path = some toks) :
    Spec.applyOp so sz acc doc sop = .unspec := by
  rcases hk with hk | hk <;> simp only [Spec.applyOp, hp, hk, hv]

theorem spec_remove_root {so : Spec.Opts} {sz acc : Nat} {doc : Value} {sop : Spec.Op}
    (hk : sop.kind = .remove) (hp : Spec.parsePointer sop.path = some []) :
    Spec.applyOp so sz acc doc sop = .unspec := by
  simp only [Spec.applyOp, hp, hk]

/-! ### what `specOp` gives -/

theorem specOp_some {op : Op} {sop : Spec.Op} (h : specOp op = some sop) :
    ∃ k path, specKind op.kind = some k ∧ op.path = .ok path ∧
      sop = { kind := k, path := path, frm := (fieldBytes op.frm).getD [], value := specValue op.value } := by
  simp only [specOp] at h
  cases hk : specKind op.kind with
  | none => rw [hk] at h; cases h
  | some k =>
    cases hp : op.path with
    | ok path =>
      rw [hk, hp] at h
      simp only [fieldBytes, Option.some.injEq] at h
      exact ⟨k, path, rfl, rfl, h.symm⟩
    | missing => rw [hk, hp] at h; cases h
    | bad => rw [hk, hp] at h; cases h

theorem Inv_valueNode {op : Op} (hop : OpOK op) : Inv op.valueNode := by
  cases hv : op.value with
  | absent => simp only [Op.valueNode, hv]; exact Inv_nil
  | null => simp only [Op.valueNode, hv]; exact Inv_rawNil
  | val c => simp only [Op.valueNode, hv]; exact (Inv_raw c).2 (hop.val c hv)

theorem den_valueNode {op : Op} {v : Value} (h : specValue op.value = some v) : den op.valueNode = v := by
  cases hv : op.value with
  | absent => rw [hv] at h; cases h
  | null => rw [hv] at h; simp only [specValue, Option.some.injEq] at h; subst h; simp only [Op.valueNode, hv]; rfl
  | val c => rw [hv] at h; simp only [specValue, Option.some.injEq] at h; subst h; simp only [Op.valueNode, hv]; rfl

theorem testValOK {op : Op} (hop : OpOK op) (hk : op.kind = ascii "test") : TestValOK op.value := by
  refine ⟨?_, fun c hc => ⟨(hop.val c hc).1, (hop.val c hc).2, hop.nn c hc⟩⟩
  intro ha
  have := hop.dom
  simp [opDom, hk, ha] at this

/-! ### one operation on `den root` (all kinds but `test`) -/

theorem applyOp_den_refines (neg : Bool) (root : Node) (hr : Inv root) (hc : isDA root = true)
    (op : Op) (sop : Spec.Op) (hs : specOp op = some sop) (hop : OpOK op)
    (hst : strictOp op = true) (hnt : sop.kind ≠ .test)
    (sz acc : Nat) (acci : Int) :
    OpRefL sop.kind (Spec.applyOp (specOpts neg) sz acc (den root) sop)
      (fstOutL (applyOp neg 0 root acci op)) := by
  obtain ⟨k, path, hkind, hpath, rfl⟩ := specOp_some hs
  simp only at hnt ⊢
  cases hp : Spec.parsePointer path with
  | none =>
    -- a pointer without a leading `/`: excluded for remove / move / copy; for add / replace the
    -- specification fails with a cause that is not listed
    rcases specKind_eq hkind with ⟨rfl, _⟩ | ⟨rfl, hk⟩ | ⟨rfl, _⟩ | ⟨rfl, hk⟩ | ⟨rfl, hk⟩ | ⟨rfl, _⟩
    · rw [Impl.spec_path_none (by exact hp) (Or.inl rfl)]; simp [OpRefL, listed]
    · exact absurd hp (strictOp_path hst (Or.inl hk) hpath)
    · rw [Impl.spec_path_none (by exact hp) (Or.inr (Or.inl rfl))]; simp [OpRefL, listed]
    · exact absurd hp (strictOp_path hst (Or.inr (Or.inl hk)) hpath)
    · exact absurd hp (strictOp_path hst (Or.inr (Or.inr hk)) hpath)
    · exact absurd rfl hnt
  | some toks =>
    have hq : ∀ x ∈ toks, QK true x = true := hop.toks path toks hpath hp
    simp only [specKind] at hkind
    by_cases h1 : op.kind = ascii "add"
    · simp only [h1, if_true, Option.some.injEq] at hkind
      subst hkind
      rw [applyOp_add h1]
      cases toks with
      | nil =>
        exfalso
        have hpe : path = [] := (Impl.parsePointer_nil_iff hp).1 rfl
        have := hop.dom
        simp [opDom, h1, hpath, hpe] at this
      | cons t ts =>
        cases hv : specValue op.value with
        | none => rw [spec_novalue (Or.inl rfl) rfl (by exact hp)]; trivial
        | some v =>
          exact opAdd_refines sz acc hr hc hpath rfl rfl hp rfl (Inv_valueNode hop)
            (den_valueNode hv) hq
    · simp only [h1, if_false] at hkind
      by_cases h2 : op.kind = ascii "remove"
      · simp only [h2, if_true, Option.some.injEq] at hkind
        subst hkind
        rw [applyOp_remove h2]
        cases toks with
        | nil => rw [spec_remove_root rfl (by exact hp)]; trivial
        | cons t ts => exact opRemove_refines sz acc hr hc hpath rfl rfl hp
      · simp only [h2, if_false] at hkind
        by_cases h3 : op.kind = ascii "replace"
        · simp only [h3, if_true, Option.some.injEq] at hkind
          subst hkind
          rw [applyOp_replace h3]
          exact opReplace_refines sz acc hr hc hpath rfl rfl hp rfl hop.val hq
        · simp only [h3, if_false] at hkind
          by_cases h4 : op.kind = ascii "move"
          · simp only [h4, if_true, Option.some.injEq] at hkind
            subst hkind
            rw [applyOp_move h4]
            cases hf : op.frm with
            | ok f =>
              cases hpf : Spec.parsePointer f with
              | none => exact absurd hpf (strictOp_frm hst h4 hf)
              | some ftoks =>
                exact opMove_refines sz acc hr hc hpath hf rfl rfl (by simp [fieldBytes]) hp hq hpf
            | missing =>
              rw [Impl.spec_move_root rfl (by exact hp) (by simp [fieldBytes, Spec.parsePointer])]
              simp [OpRefL, listed]
            | bad =>
              rw [Impl.spec_move_root rfl (by exact hp) (by simp [fieldBytes, Spec.parsePointer])]
              simp [OpRefL, listed]
          · simp only [h4, if_false] at hkind
            by_cases h5 : op.kind = ascii "copy"
            · simp only [h5, if_true, Option.some.injEq] at hkind
              subst hkind
              rw [applyOp_copy' h5]
              have hdom := hop.dom
              cases hf : op.frm with
              | ok f =>
                have hfne : f ≠ [] := by
                  intro e; subst e
                  simp [opDom, h5, hf, fieldBytes] at hdom
                exact opCopy_refines sz acc acci hr hc hpath hf rfl rfl (by simp [fieldBytes]) hp hfne hq
              | missing => simp [opDom, h5, hf, fieldBytes] at hdom
              | bad => simp [opDom, h5, hf, fieldBytes] at hdom
            · simp only [h5, if_false] at hkind
              by_cases h6 : op.kind = ascii "test"
              · simp only [h6, if_true, Option.some.injEq] at hkind
                subst hkind
                exact absurd rfl hnt
              · simp only [h6, if_false] at hkind
                cases hkind

theorem listed_test_ne {c : Spec.Cause} (h : listed .test c = true) : c ≠ .parentUnreachable := by
  intro e; subst e; simp [listed] at h

/-! ### the simulation relation -/

/-- the legacy root `root` stands for the specification's document `d` -/
def Rel (root : Node) (d : Value) : Prop := Inv root ∧ isDA root = true ∧ Sim (den root) d

theorem specValue_noDup {op : Op} (hop : OpOK op) : ∀ v, specValue op.value = some v → v.noDup = true := by
  intro v hv
  cases ho : op.value with
  | absent => rw [ho] at hv; cases hv
  | null => rw [ho] at hv; simp only [specValue, Option.some.injEq] at hv; subst hv; rfl
  | val c => rw [ho] at hv; simp only [specValue, Option.some.injEq] at hv; subst hv; exact (hop.val c ho).1

theorem wantOf_noDup {op : Op} (hop : OpOK op) : (wantOf op.value).noDup = true := by
  unfold wantOf
  cases hv : specValue op.value with
  | none => rfl
  | some v => exact specValue_noDup hop v hv

/-- **one operation**: from related states, where the specification is defined the legacy
operation succeeds exactly when the specification does (for the listed failure causes), and the
states are related again -/
theorem applyOp_refines (neg : Bool) (root : Node) (d : Value) (hrel : Rel root d)
    (op : Op) (sop : Spec.Op) (hs : specOp op = some sop) (hop : OpOK op)
    (hst : strictOp op = true) (sz acc : Nat) (acci : Int) :
    match Spec.applyOp (specOpts neg) sz acc d sop with
    | .ok (d', _) => ∃ r' a, applyOp neg 0 root acci op = .ok (r', a) ∧ Rel r' d'
    | .fail c => listed sop.kind c = true → ∃ e, applyOp neg 0 root acci op = .err e
    | .unspec => True := by
  obtain ⟨hr, hc, hsim⟩ := hrel
  by_cases hk : sop.kind = .test
  · -- `test`: through the lookup of the tested location
    obtain ⟨k, path, hkind, hpath, rfl⟩ := specOp_some hs
    simp only at hk
    subst hk
    have hkt : op.kind = ascii "test" := by
      simp only [specKind] at hkind
      repeat' split at hkind
      all_goals first | assumption | cases hkind
    have hov := testValOK hop hkt
    have hwn := wantOf_noDup hop
    have hfst := applyOp_test (neg := neg) (limit := 0) (root := root) (acci := acci) hkt
    have hwant : (specValue op.value).getD .null = wantOf op.value := rfl
    cases hp : Spec.parsePointer path with
    | none =>
      -- the specification fails with a cause that is not listed for `test`
      rw [Impl.spec_path_none (by exact hp) (Or.inr (Or.inr (Or.inl rfl)))]
      simp [listed]
    | some toks =>
      cases toks with
      | nil =>
        have hpe : path = [] := (Impl.parsePointer_nil_iff hp).1 rfl
        subst hpe
        rw [Impl.spec_test_root rfl (by exact hp)]
        simp only [hwant]
        have hroot := opTest_root (neg := neg) hr hc hpath hov
        have heq := eqv_congr_left (Sim.symm hsim) hwn
        cases hb : Value.eqv d (wantOf op.value) with
        | true =>
          rw [← heq, hb, if_pos rfl] at hroot
          obtain ⟨r', h1, h2, h3, h4⟩ := hroot
          simp only [Spec.testEq, hb, if_true, Res.bind]
          rw [← hfst] at h1
          obtain ⟨a, ha⟩ := fstOutL_ok h1
          exact ⟨r', a, ha, h2, h3, by rw [h4]; exact hsim⟩
        | false =>
          rw [← heq, hb, if_neg (by simp)] at hroot
          obtain ⟨er, h1⟩ := hroot
          rw [← hfst] at h1
          simp only [Spec.testEq, hb, Bool.false_eq_true, if_false]
          cases Spec.numEqv d (wantOf op.value) with
          | true => trivial
          | false => exact fun _ => ⟨er, fstOutL_err h1⟩
      | cons t ts =>
        rw [Impl.spec_test rfl (by exact hp)]
        simp only [hwant]
        have hstrong := opTest_strong (neg := neg) hr hc hpath hp hov
        have hlk := lookup_sim (specOpts neg) true (t :: ts) d (den root) (Sim.symm hsim)
        cases hd : Spec.atParent (specOpts neg) (Spec.getIn (specOpts neg) true) d (t :: ts) with
        | unspec => trivial
        | fail c =>
          rw [hd] at hlk
          cases hr' : Spec.atParent (specOpts neg) (Spec.getIn (specOpts neg) true) (den root) (t :: ts) with
          | unspec => rw [hr'] at hlk; exact hlk.elim
          | ok pv => rw [hr'] at hlk; exact hlk.elim
          | fail c' =>
            rw [hr'] at hlk hstrong
            simp only [] at hstrong
            have hcc : c = c' := hlk
            subst hcc
            simp only [Res.bind]
            intro hl
            obtain ⟨er, h1⟩ := hstrong (listed_test_ne hl)
            rw [← hfst] at h1
            exact ⟨er, fstOutL_err h1⟩
        | ok pd =>
          rw [hd] at hlk
          cases hr' : Spec.atParent (specOpts neg) (Spec.getIn (specOpts neg) true) (den root) (t :: ts) with
          | unspec => rw [hr'] at hlk; exact hlk.elim
          | fail c' => rw [hr'] at hlk; exact hlk.elim
          | ok pv =>
            rw [hr'] at hlk hstrong
            simp only [] at hstrong
            obtain ⟨_, hsv⟩ := hlk
            have heq := eqv_congr_left hsv hwn
            simp only [Res.bind]
            cases hb : Value.eqv pd.2 (wantOf op.value) with
            | true =>
              rw [← heq, hb, if_pos rfl] at hstrong
              obtain ⟨r', h1, h2, h3, h4⟩ := hstrong
              simp only [Spec.testEq, hb, if_true]
              rw [← hfst] at h1
              obtain ⟨a, ha⟩ := fstOutL_ok h1
              exact ⟨r', a, ha, h2, h3, by rw [h4]; exact hsim⟩
            | false =>
              rw [← heq, hb, if_neg (by simp)] at hstrong
              obtain ⟨er, h1⟩ := hstrong
              rw [← hfst] at h1
              simp only [Spec.testEq, hb, Bool.false_eq_true, if_false]
              cases Spec.numEqv pd.2 (wantOf op.value) with
              | true => trivial
              | false => exact fun _ => ⟨er, fstOutL_err h1⟩
  · -- every other kind: congruence of the specification + refinement on `den root`
    have hden := applyOp_den_refines neg root hr hc op sop hs hop hst hk sz acc acci
    have hvnd : ∀ v, sop.value = some v → v.noDup = true := by
      obtain ⟨k, path, _, _, rfl⟩ := specOp_some hs
      exact specValue_noDup hop
    have hcong := applyOp_sim (specOpts neg) sz acc sop hk hvnd d (den root) (Sim.symm hsim)
    cases hd : Spec.applyOp (specOpts neg) sz acc d sop with
    | unspec => trivial
    | fail c =>
      rw [hd] at hcong
      cases hr' : Spec.applyOp (specOpts neg) sz acc (den root) sop with
      | unspec => rw [hr'] at hcong; exact hcong.elim
      | ok x => rw [hr'] at hcong; exact hcong.elim
      | fail c' =>
        rw [hr'] at hcong hden
        have hcc : c = c' := hcong
        subst hcc
        intro hl
        obtain ⟨er, h1⟩ := hden hl
        exact ⟨er, fstOutL_err h1⟩
    | ok x =>
      obtain ⟨d', a⟩ := x
      rw [hd] at hcong
      cases hr' : Spec.applyOp (specOpts neg) sz acc (den root) sop with
      | unspec => rw [hr'] at hcong; exact hcong.elim
      | fail c' => rw [hr'] at hcong; exact hcong.elim
      | ok y =>
        obtain ⟨v', a'⟩ := y
        rw [hr'] at hcong hden
        obtain ⟨hs1, _⟩ := hcong
        obtain ⟨r', h1, h2, h3, h4⟩ := hden
        obtain ⟨b, hb⟩ := fstOutL_ok h1
        exact ⟨r', b, hb, h2, h3, Sim.trans h4 (Sim.symm hs1)⟩

/-! ### the operation list -/

/-- the kind of the operation at absolute index `j` of a list that starts at index `i` -/
def kindAt (sops : List Spec.Op) (i j : Nat) : Option Spec.OpKind := (sops[j - i]?).map (·.kind)

/-- the failure `fail j c` is one the property requires to be reported -/
def listedAt (sops : List Spec.Op) (i j : Nat) (c : Spec.Cause) : Bool :=
  match kindAt sops i j with
  | some k => listed k c
  | none => false

theorem applyFrom_fail_ge (o : Spec.Opts) (sizeAt : Nat → Nat) : ∀ (sops : List Spec.Op) (i acc : Nat)
    (d : Value) (j : Nat) (c : Spec.Cause), Spec.applyFrom o sizeAt i acc d sops = .fail j c → i ≤ j
  | [], i, acc, d, j, c, h => by simp [Spec.applyFrom] at h
  | s :: ss, i, acc, d, j, c, h => by
    simp only [Spec.applyFrom] at h
    cases hx : Spec.applyOp o (sizeAt i) acc d s with
    | unspec => rw [hx] at h; cases h
    | fail c' => rw [hx] at h; simp only [Spec.Outcome.fail.injEq] at h; omega
    | ok x =>
      obtain ⟨d', a⟩ := x
      rw [hx] at h
      have := applyFrom_fail_ge o sizeAt ss (i + 1) a d' j c h
      omega

theorem applyOps_refines_rel (neg : Bool) (sizeAt : Nat → Nat) :
    ∀ (ops : List Op) (sops : List Spec.Op) (root : Node) (d : Value) (i acc : Nat) (acci : Int),
      Rel root d → specOps ops = some sops → (∀ op ∈ ops, OpOK op) →
      (∀ op ∈ ops, strictOp op = true) →
      match Spec.applyFrom (specOpts neg) sizeAt i acc d sops with
      | .ok v => ∃ r', applyOps neg 0 root acci ops = .ok r' ∧ Rel r' v
      | .fail j c => listedAt sops i j c = true → ∃ e, applyOps neg 0 root acci ops = .err e
      | .unspec => True := by
  intro ops
  induction ops with
  | nil =>
    intro sops root d i acc acci hrel hs _ _
    simp only [specOps, Option.some.injEq] at hs
    subst hs
    simp only [Spec.applyFrom, applyOps]
    exact ⟨root, rfl, hrel⟩
  | cons op ops ih =>
    intro sops root d i acc acci hrel hs hops hsts
    simp only [specOps] at hs
    cases hso : specOp op with
    | none => rw [hso] at hs; cases hs
    | some s =>
      cases hss : specOps ops with
      | none => rw [hso, hss] at hs; cases hs
      | some ss =>
        rw [hso, hss] at hs
        simp only [Option.some.injEq] at hs
        subst hs
        have h1 := applyOp_refines neg root d hrel op s hso (hops op List.mem_cons_self)
          (hsts op List.mem_cons_self) (sizeAt i) acc acci
        simp only [Spec.applyFrom, applyOps]
        cases hres : Spec.applyOp (specOpts neg) (sizeAt i) acc d s with
        | unspec => trivial
        | fail c =>
          rw [hres] at h1
          simp only
          intro hl
          have hl' : listed s.kind c = true := by
            simpa [listedAt, kindAt] using hl
          obtain ⟨er, her⟩ := h1 hl'
          exact ⟨er, by rw [her]⟩
        | ok va =>
          obtain ⟨d', acc'⟩ := va
          rw [hres] at h1
          obtain ⟨r', a, hr', hrel'⟩ := h1
          rw [hr']
          simp only
          have := ih ss r' d' (i + 1) acc' a hrel' hss (fun op' h => hops op' (List.mem_cons_of_mem _ h))
            (fun op' h => hsts op' (List.mem_cons_of_mem _ h))
          cases hrest : Spec.applyFrom (specOpts neg) sizeAt (i + 1) acc' d' ss with
          | unspec => trivial
          | ok v => rw [hrest] at this; exact this
          | fail j c =>
            rw [hrest] at this
            simp only at this ⊢
            intro hl
            apply this
            have hge := applyFrom_fail_ge _ _ _ _ _ _ _ _ hrest
            have hidx : j - i = (j - (i + 1)) + 1 := by omega
            simpa [listedAt, kindAt, hidx] using hl

end Legacy
end JP
