import JP.Lemmas.TextQuote
import JP.Lemmas.TextParse
import JP.Impl.Merge

/-!
# Tree-level boundary theorems: escaping, marshalling, printing
-/

namespace JP

/-! ### predicates on values -/

/-- a complete RFC 8259 number literal -/
def validNum (l : Bytes) : Bool := decide (parseNumber l = some (l, []))

mutual
/-- every string and member name is valid UTF-8 -/
def StrsUtf8 : Value → Bool
  | .str s => isValidUtf8 s
  | .arr xs => StrsUtf8L xs
  | .obj ms => StrsUtf8M ms
  | _ => true
def StrsUtf8L : List Value → Bool
  | [] => true
  | x :: xs => StrsUtf8 x && StrsUtf8L xs
def StrsUtf8M : Value.Members → Bool
  | [] => true
  | (k, v) :: ms => isValidUtf8 k && StrsUtf8 v && StrsUtf8M ms
end

mutual
/-- every number literal is a valid RFC 8259 number -/
def NumsValid : Value → Bool
  | .num l => validNum l
  | .arr xs => NumsValidL xs
  | .obj ms => NumsValidM ms
  | _ => true
def NumsValidL : List Value → Bool
  | [] => true
  | x :: xs => NumsValid x && NumsValidL xs
def NumsValidM : Value.Members → Bool
  | [] => true
  | (_, v) :: ms => NumsValid v && NumsValidM ms
end

/-! ### escaping keeps the value -/

theorem unquote_escIf (e : Bool) (b : Bytes) (hb : validBody b = true) :
    unquote (if e then escBody b else b) = unquote b := by
  cases e with
  | false => rfl
  | true => exact unquote_escBody b ((validBody_iff b).1 hb)

mutual
theorem valueOf_escape (e : Bool) : ∀ (c : Cst), WFC c = true → (Cst.escape e c).valueOf = c.valueOf
  | .lit s, _ => by simp only [Cst.escape]
  | .str b, h => by
    simp only [WFC] at h
    simp only [Cst.escape, Cst.valueOf, unquote_escIf e b h]
  | .arr xs, h => by
    simp only [WFC] at h
    simp only [Cst.escape, Cst.valueOf, valueOfL_escapeL e xs h]
  | .obj ms, h => by
    simp only [WFC] at h
    simp only [Cst.escape, Cst.valueOf, valueOfM_escapeM e ms h]
theorem valueOfL_escapeL (e : Bool) : ∀ (xs : List Cst), WFCL xs = true →
    Cst.valueOfL (Cst.escapeL e xs) = Cst.valueOfL xs
  | [], _ => by simp only [Cst.escapeL]
  | x :: xs, h => by
    simp only [WFCL, Bool.and_eq_true] at h
    simp only [Cst.escapeL, Cst.valueOfL, valueOf_escape e x h.1, valueOfL_escapeL e xs h.2]
theorem valueOfM_escapeM (e : Bool) : ∀ (ms : List (Bytes × Cst)), WFCM ms = true →
    Cst.valueOfM (Cst.escapeM e ms) = Cst.valueOfM ms
  | [], _ => by simp only [Cst.escapeM]
  | (k, v) :: ms, h => by
    simp only [WFCM, Bool.and_eq_true] at h
    simp only [Cst.escapeM, Cst.valueOfM, unquote_escIf e k h.1.1, valueOf_escape e v h.1.2,
      valueOfM_escapeM e ms h.2]
end

/-! ### the dynamic-value codec -/

open Impl

theorem litValue_num (l : Bytes) (h : validNum l = true) : Cst.litValue l = .num l := by
  simp only [validNum, decide_eq_true_eq] at h
  obtain ⟨c, t, rfl, hc⟩ := parseNumber_head _ _ _ h
  have n1 : c :: t ≠ ascii "null" := by
    intro he; have : c = 110 := by injection he
    subst this; revert hc; decide
  have n2 : c :: t ≠ ascii "true" := by
    intro he; have : c = 116 := by injection he
    subst this; revert hc; decide
  have n3 : c :: t ≠ ascii "false" := by
    intro he; have : c = 102 := by injection he
    subst this; revert hc; decide
  simp only [Cst.litValue, n1, n2, n3, if_false]

theorem validLit_of_validNum (l : Bytes) (h : validNum l = true) : validLit l = true := by
  simp only [validNum] at h
  simp only [validLit, h, Bool.or_true]

mutual
theorem marshal_wfc (e : Bool) : ∀ (v : Value), NumsValid v = true → WFC (marshalAnyE e v) = true
  | .null, _ => by simp only [marshalAnyE, litNull]; decide
  | .bool b, _ => by cases b <;> (simp only [marshalAnyE]; decide)
  | .num l, h => by
    simp only [NumsValid] at h
    simp only [marshalAnyE, WFC, validLit_of_validNum l h]
  | .str s, _ => by
    simp only [marshalAnyE, WFC, validBody_iff]; exact quoteBody_valid e s
  | .arr xs, h => by
    simp only [NumsValid] at h
    simp only [marshalAnyE, WFC, marshalL_wfc e xs h]
  | .obj ms, h => by
    simp only [NumsValid] at h
    simp only [marshalAnyE, WFC, marshalM_wfc e ms h]
theorem marshalL_wfc (e : Bool) : ∀ (xs : List Value), NumsValidL xs = true → WFCL (marshalAnyEL e xs) = true
  | [], _ => by simp only [marshalAnyEL, WFCL]
  | x :: xs, h => by
    simp only [NumsValidL, Bool.and_eq_true] at h
    simp only [marshalAnyEL, WFCL, marshal_wfc e x h.1, marshalL_wfc e xs h.2, Bool.and_self]
theorem marshalM_wfc (e : Bool) : ∀ (ms : Value.Members), NumsValidM ms = true → WFCM (marshalAnyEM e ms) = true
  | [], _ => by simp only [marshalAnyEM, WFCM]
  | (k, v) :: ms, h => by
    simp only [NumsValidM, Bool.and_eq_true] at h
    have hk : validBody (quoteBody e k) = true := (validBody_iff _).2 (quoteBody_valid e k)
    simp only [marshalAnyEM, WFCM, hk, marshal_wfc e v h.1, marshalM_wfc e ms h.2, Bool.and_self]
end

mutual
theorem roundtrip (e : Bool) : ∀ (v : Value), StrsUtf8 v = true → NumsValid v = true → (marshalAnyE e v).valueOf = v
  | .null, _, _ => by simp only [marshalAnyE, litNull]; rfl
  | .bool b, _, _ => by cases b <;> (simp only [marshalAnyE]; rfl)
  | .num l, _, h => by
    simp only [NumsValid] at h
    simp only [marshalAnyE, Cst.valueOf, litValue_num l h]
  | .str s, hs, _ => by
    simp only [StrsUtf8] at hs
    simp only [marshalAnyE, Cst.valueOf, unquote_quoteBody e s hs]
  | .arr xs, hs, h => by
    simp only [NumsValid] at h; simp only [StrsUtf8] at hs
    simp only [marshalAnyE, Cst.valueOf, roundtripL e xs hs h]
  | .obj ms, hs, h => by
    simp only [NumsValid] at h; simp only [StrsUtf8] at hs
    simp only [marshalAnyE, Cst.valueOf, roundtripM e ms hs h]
theorem roundtripL (e : Bool) : ∀ (xs : List Value), StrsUtf8L xs = true → NumsValidL xs = true →
    Cst.valueOfL (marshalAnyEL e xs) = xs
  | [], _, _ => by simp only [marshalAnyEL, Cst.valueOfL]
  | x :: xs, hs, h => by
    simp only [NumsValidL, Bool.and_eq_true] at h
    simp only [StrsUtf8L, Bool.and_eq_true] at hs
    simp only [marshalAnyEL, Cst.valueOfL, roundtrip e x hs.1 h.1, roundtripL e xs hs.2 h.2]
theorem roundtripM (e : Bool) : ∀ (ms : Value.Members), StrsUtf8M ms = true → NumsValidM ms = true →
    Cst.valueOfM (marshalAnyEM e ms) = ms
  | [], _, _ => by simp only [marshalAnyEM, Cst.valueOfM]
  | (k, v) :: ms, hs, h => by
    simp only [NumsValidM, Bool.and_eq_true] at h
    simp only [StrsUtf8M, Bool.and_eq_true] at hs
    simp only [marshalAnyEM, Cst.valueOfM, unquote_quoteBody e k hs.1.1, roundtrip e v hs.1.2 h.1,
      roundtripM e ms hs.2 h.2]
end

mutual
theorem escape_switch (e : Bool) : ∀ (v : Value), (marshalAnyE e v).valueOf = (marshalAnyE false v).valueOf
  | .null => rfl
  | .bool _ => rfl
  | .num _ => rfl
  | .str s => by simp only [marshalAnyE, Cst.valueOf, unquote_quoteBody_indep e s]
  | .arr xs => by simp only [marshalAnyE, Cst.valueOf, escape_switchL e xs]
  | .obj ms => by simp only [marshalAnyE, Cst.valueOf, escape_switchM e ms]
theorem escape_switchL (e : Bool) : ∀ (xs : List Value),
    Cst.valueOfL (marshalAnyEL e xs) = Cst.valueOfL (marshalAnyEL false xs)
  | [] => rfl
  | x :: xs => by simp only [marshalAnyEL, Cst.valueOfL, escape_switch e x, escape_switchL e xs]
theorem escape_switchM (e : Bool) : ∀ (ms : Value.Members),
    Cst.valueOfM (marshalAnyEM e ms) = Cst.valueOfM (marshalAnyEM false ms)
  | [] => rfl
  | (k, v) :: ms => by
    simp only [marshalAnyEM, Cst.valueOfM, unquote_quoteBody_indep e k, escape_switch e v, escape_switchM e ms]
end

theorem escape_switch_only_spelling (v : Value) :
    (marshalAnyE true v).valueOf = (marshalAnyE false v).valueOf := escape_switch true v


end JP
