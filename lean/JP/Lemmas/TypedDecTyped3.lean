import JP.Lemmas.TypedDecTyped2

set_option linter.unusedSimpArgs false

/-!
# Type preservation, part 3: `indirect`, `literalStore`, `valueQuoted`, the walk along `f.index`,
slice growth, map entries
-/

namespace JP
namespace Codec
namespace TDec

open Scanner
open JP.Codec.Typed

/-- the value a result carries (returned normally or with a Go `return err`) satisfies `P` -/
def R.All {α : Type} (P : α → Prop) : R α → Prop
  | .ok _ a => P a
  | .abort _ a _ => P a
  | .panic => True
  | .fuel => True

theorem R.All_map {α β : Type} (f : α → β) (P : β → Prop) (r : R α) : R.All P (R.map f r) ↔ R.All (fun a => P (f a)) r := by
  cases r <;> simp [R.map, R.All]

theorem R.All_mono {α : Type} (P Q : α → Prop) (h : ∀ a, P a → Q a) (r : R α) (hr : R.All P r) : R.All Q r := by
  cases r <;> simp_all [R.All]

theorem derefV_typed : ∀ (t : GoType) (cur : DV), DV.typed t cur = true → DV.typed (derefT t) (derefV t cur) = true
  | .ptr e, cur, h => by
    cases cur with
    | ptr p => simp only [DV.typed] at h; simpa [derefT, derefV] using derefV_typed e p h
    | _ => simpa [derefT, derefV] using derefV_typed e _ (zero_typed e)
  | .bool, cur, h => by simpa [derefT, derefV] using h
  | .int _, cur, h => by simpa [derefT, derefV] using h
  | .uint _, cur, h => by simpa [derefT, derefV] using h
  | .string, cur, h => by simpa [derefT, derefV] using h
  | .number, cur, h => by simpa [derefT, derefV] using h
  | .slice _, cur, h => by simpa [derefT, derefV] using h
  | .array _ _, cur, h => by simpa [derefT, derefV] using h
  | .map _ _, cur, h => by simpa [derefT, derefV] using h
  | .iface, cur, h => by simpa [derefT, derefV] using h
  | .struct _ _, cur, h => by simpa [derefT, derefV] using h

theorem rewrap_typed : ∀ (t : GoType) (v : DV), DV.typed (derefT t) v = true → DV.typed t (rewrap t v) = true
  | .ptr e, v, h => by simpa [rewrap, DV.typed, derefT] using rewrap_typed e v (by simpa [derefT] using h)
  | .bool, v, h => by simpa [derefT, rewrap] using h
  | .int _, v, h => by simpa [derefT, rewrap] using h
  | .uint _, v, h => by simpa [derefT, rewrap] using h
  | .string, v, h => by simpa [derefT, rewrap] using h
  | .number, v, h => by simpa [derefT, rewrap] using h
  | .slice _, v, h => by simpa [derefT, rewrap] using h
  | .array _ _, v, h => by simpa [derefT, rewrap] using h
  | .map _ _, v, h => by simpa [derefT, rewrap] using h
  | .iface, v, h => by simpa [derefT, rewrap] using h
  | .struct _ _, v, h => by simpa [derefT, rewrap] using h

theorem isUint8_eq (e : GoType) (h : e.isUint8 = true) : e = .uint .uint8 := by
  cases e with
  | uint k => cases k <;> simp_all [GoType.isUint8]
  | _ => simp [GoType.isUint8] at h

theorem typedAll_bytes : ∀ b : Bytes, typedAll (.uint .uint8) (b.map fun x => DV.uint x.toNat) = true
  | [] => rfl
  | x :: b => by
    have : x.toNat < 256 := x.toNat_lt
    simp [typedAll, DV.typed, UintKind.inRange, UintKind.bits, this, typedAll_bytes b]

theorem storeBool_typed (item : Bytes) (bt : GoType) (bv : DV) (fq : Bool) (d : DState) (h : DV.typed bt bv = true) :
    R.All (fun w => DV.typed bt w = true) (storeBool item bt bv fq d) := by
  simp only [storeBool]
  split
  · exact h
  · cases bt <;> simp only [] <;> first | (split <;> exact h) | simp [R.All, DV.typed, GoVal.hasType, GoType.wf]

theorem storeString_typed (item : Bytes) (bt : GoType) (bv : DV) (fq : Bool) (d : DState) (h : DV.typed bt bv = true) :
    R.All (fun w => DV.typed bt w = true) (storeString item bt bv fq d) := by
  simp only [storeString]
  cases hu : unquoteBytes item with
  | none => simp only []; split <;> simp [R.All, h]
  | some s =>
    simp only []
    cases bt with
    | slice e =>
      simp only []
      by_cases he : e.isUint8 = true
      · have := isUint8_eq e he
        subst this
        simp only [GoType.isUint8, Bool.not_true, Bool.false_eq_true, if_false]
        cases hb : base64Decode s with
        | none => exact h
        | some b =>
          simp only [R.All, DV.typed, typedAll_bytes, Bool.true_and]
          exact typedAll_replicate _ _ (by decide) _
      · simp only [he, Bool.not_false, if_true]; exact h
    | string => simp [R.All, DV.typed]
    | number => simp only []; split <;> simp [R.All, DV.typed, h]
    | iface => simp [R.All, DV.typed, GoVal.hasType, GoType.wf]
    | _ => exact h

theorem storeNumber_typed (item : Bytes) (bt : GoType) (bv : DV) (fq : Bool) (d : DState) (h : DV.typed bt bv = true) :
    R.All (fun w => DV.typed bt w = true) (storeNumber item bt bv fq d) := by
  simp only [storeNumber]
  cases bt with
  | number => simp [R.All, DV.typed]
  | iface => simp [R.All, DV.typed, GoVal.hasType, GoType.wf]
  | int k =>
    simp only []
    cases hp : parseInt64 item with
    | none => exact h
    | some n => simp only []; split <;> simp_all [R.All, DV.typed]
  | uint k =>
    simp only []
    cases hp : parseUint64 item with
    | none => exact h
    | some n => simp only []; split <;> simp_all [R.All, DV.typed]
  | _ => simp only []; split <;> exact h

theorem nil_typed (t : GoType) (h : t.nilable = true) : DV.typed t .nil = true := by
  simpa [DV.typed] using h

theorem literalStore_typed (item : Bytes) (t : GoType) (cur : DV) (cs fq : Bool) (d : DState) (h : DV.typed t cur = true) :
    R.All (fun w => DV.typed t w = true) (literalStore item t cur cs fq d) := by
  cases item with
  | nil => exact h
  | cons c rest =>
    simp only [literalStore]
    have hb := derefV_typed t cur h
    split
    · trivial
    · split
      · split
        · exact h
        · split
          · rename_i hn; exact nil_typed t hn
          · exact h
      · split
        · rw [R.All_map]
          exact R.All_mono _ _ (fun a ha => rewrap_typed t a ha) _ (storeBool_typed _ _ _ _ _ hb)
        · split
          · rw [R.All_map]
            exact R.All_mono _ _ (fun a ha => rewrap_typed t a ha) _ (storeString_typed _ _ _ _ _ hb)
          · split
            · split
              · exact rewrap_typed t _ hb
              · trivial
            · rw [R.All_map]
              exact R.All_mono _ _ (fun a ha => rewrap_typed t a ha) _ (storeNumber_typed _ _ _ _ _ hb)

theorem quotedValue_typed (t : GoType) (cur : DV) (cs : Bool) (d : DState) (h : DV.typed t cur = true) :
    R.All (fun w => DV.typed t w = true) (quotedValue t cur cs d) := by
  simp only [quotedValue]
  split
  · cases skip d <;> simp [R.All, h]
  · split
    · cases hl : literalInterface d with
      | panic => trivial
      | fuel => trivial
      | ok p =>
        obtain ⟨d1, v⟩ := p
        cases v <;> first | exact literalStore_typed _ _ _ _ _ _ h | exact h
    · trivial

/-! ### struct fields -/

theorem typedF_get : ∀ (fts : List (FieldInfo × GoType)) (vs : List DV) (i : Nat) (fi : FieldInfo) (ft : GoType) (fv : DV),
    typedF fts vs = true → fts[i]? = some (fi, ft) → vs[i]? = some fv → DV.typed ft fv = true
  | [], _, _, _, _, _, _, h, _ => by simp at h
  | _ :: _, [], _, _, _, _, _, _, h => by simp at h
  | (fi', ft') :: r, v :: vs, 0, fi, ft, fv, h, h1, h2 => by
    simp only [typedF, Bool.and_eq_true] at h
    simp at h1 h2
    obtain ⟨_, rfl⟩ := h1
    subst h2
    exact h.1
  | (fi', ft') :: r, v :: vs, i + 1, fi, ft, fv, h, h1, h2 => by
    simp only [typedF, Bool.and_eq_true] at h
    simp at h1 h2
    exact typedF_get r vs i fi ft fv h.2 h1 h2

theorem typedF_set : ∀ (fts : List (FieldInfo × GoType)) (vs : List DV) (i : Nat) (fi : FieldInfo) (ft : GoType) (v : DV),
    typedF fts vs = true → fts[i]? = some (fi, ft) → DV.typed ft v = true → typedF fts (vs.set i v) = true
  | _, [], _, _, _, _, h, _, _ => by simpa using h
  | [], _ :: _, _, _, _, _, h, _, _ => by simp [typedF] at h
  | (fi', ft') :: r, x :: vs, 0, fi, ft, v, h, h1, hv => by
    simp only [typedF, Bool.and_eq_true] at h
    simp at h1
    obtain ⟨_, rfl⟩ := h1
    simp [typedF, hv, h.2]
  | (fi', ft') :: r, x :: vs, i + 1, fi, ft, v, h, h1, hv => by
    simp only [typedF, Bool.and_eq_true] at h
    simp at h1
    simp [typedF, h.1, typedF_set r vs i fi ft v h.2 h1 hv]

theorem fieldStep_typed (k : GoType → DV → Bool → DState → R DV)
    (hk : ∀ t cur cs d, DV.typed t cur = true → R.All (fun w => DV.typed t w = true) (k t cur cs d))
    (i : Nat) (n : Bytes) (fts : List (FieldInfo × GoType)) (sv : DV) (hsv : DV.typed (.struct n fts) sv = true) (isPtr : Bool) (d : DState) :
    R.All (fun w => DV.typed (if isPtr then .ptr (.struct n fts) else .struct n fts) w = true)
      (fieldStep k i (.struct n fts) sv isPtr d) := by
  simp only [fieldStep]
  cases hf : (structFieldsOf (.struct n fts))[i]? with
  | none => trivial
  | some p =>
    obtain ⟨fi, ft⟩ := p
    cases hv : (dvFields sv)[i]? with
    | none => trivial
    | some fv =>
      simp only []
      cases sv with
      | struct vs =>
        simp only [structFieldsOf] at hf
        simp only [dvFields] at hv ⊢
        simp only [DV.typed] at hsv
        rw [R.All_map]
        refine R.All_mono _ _ ?_ _ (hk ft fv fi.exported d (typedF_get fts vs i fi ft fv hsv hf hv))
        intro a ha
        cases isPtr <;> simp [wrapPtrIf, DV.typed, typedF_set fts vs i fi ft a hsv hf ha]
      | _ => simp [dvFields] at hv

theorem fieldStep_nonstruct (k : GoType → DV → Bool → DState → R DV) (i : Nat) (st : GoType) (sv : DV) (isPtr : Bool) (d : DState)
    (h : st.isStruct = false) : fieldStep k i st sv isPtr d = .panic := by
  cases st <;> simp_all [fieldStep, structFieldsOf, GoType.isStruct]

theorem atPath_typed (leaf : GoType → DV → Bool → DState → R DV) (blocked : DState → R Unit)
    (hleaf : ∀ t cur cs d, DV.typed t cur = true → R.All (fun w => DV.typed t w = true) (leaf t cur cs d)) :
    ∀ (is : List Nat) (t : GoType) (cur : DV) (cs : Bool) (d : DState), DV.typed t cur = true →
      R.All (fun w => DV.typed t w = true) (atPath leaf blocked is t cur cs d)
  | [], t, cur, cs, d, h => hleaf t cur cs d h
  | i :: is, t, cur, cs, d, h => by
    simp only [atPath]
    split
    · rw [R.All_map]; cases blocked (d.saveError .other) <;> simp [R.All, h]
    · have ih := atPath_typed leaf blocked hleaf is
      cases t with
      | ptr e =>
        simp only [GoType.isPtr, GoType.deref, if_true]
        have hsv : DV.typed e (ptrTarget e cur) = true := by
          cases cur <;> first | exact zero_typed e | (simpa [DV.typed, ptrTarget] using h)
        cases e with
        | struct n fts => exact fieldStep_typed _ ih i n fts _ hsv true d
        | _ => rw [fieldStep_nonstruct _ _ _ _ _ _ rfl]; trivial
      | struct n fts =>
        simp only [GoType.isPtr, GoType.deref, Bool.false_eq_true, if_false]
        exact fieldStep_typed _ ih i n fts _ h false d
      | _ => rw [fieldStep_nonstruct _ _ _ _ _ _ rfl]; trivial

end TDec
end Codec
end JP
