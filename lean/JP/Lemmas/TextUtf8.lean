import JP.Lemmas.TextQuote

/-!
# UTF-8 preservation of the escaper and the encoder
-/

namespace JP

theorem isValidUtf8_ascii_cons (c : UInt8) (X : Bytes) (hc : c.toNat < 128) :
    isValidUtf8 (c :: X) = isValidUtf8 X := by
  rw [isValidUtf8_cons, decodeRune_one c X hc]
  rw [if_neg (by simp only [runeError]; omega)]
  rfl

theorem isValidUtf8_ascii_append : ∀ (T X : Bytes), (∀ c ∈ T, c.toNat < 128) → isValidUtf8 (T ++ X) = isValidUtf8 X
  | [], _, _ => rfl
  | c :: T, X, h => by
    rw [List.cons_append, isValidUtf8_ascii_cons c _ (h c (List.mem_cons_self ..))]
    exact isValidUtf8_ascii_append T X (fun x hx => h x (List.mem_cons_of_mem _ hx))

/-- a raw valid rune in front does not change validity -/
theorem isValidUtf8_rune (b : UInt8) (rest Y : Bytes) (hok : runeOk (b :: rest)) :
    isValidUtf8 ((b :: rest).take (decodeRune (b :: rest)).2 ++ Y) = isValidUtf8 Y := by
  obtain ⟨_, _, hle, hdec⟩ := encodeRune_decodeRune b rest hok
  have hsz := decodeRune_size_pos b rest
  have hdec' := hdec Y
  generalize hn : (decodeRune (b :: rest)).2 = n at *
  obtain ⟨n', rfl⟩ : ∃ n', n = n' + 1 := ⟨n - 1, by omega⟩
  simp only [List.take_succ_cons, List.cons_append] at hdec' ⊢
  rw [isValidUtf8_cons, hdec', if_neg hok, hn]
  congr 1
  simp only [List.drop_succ_cons]
  rw [List.drop_left']
  simp only [List.length_take, List.length_cons] at hle ⊢
  omega

set_option maxRecDepth 100000 in
theorem quoteAscii_ascii_aux (e : Bool) : ∀ b : UInt8, b.toNat < 128 → (quoteAscii e b).all (fun c => decide (c.toNat < 128)) = true := by
  cases e <;> (apply byte_forall; decide)

theorem quoteAscii_ascii (e : Bool) (b : UInt8) (hb : b.toNat < 128) : ∀ c ∈ quoteAscii e b, c.toNat < 128 := by
  have := quoteAscii_ascii_aux e b hb
  simp only [List.all_eq_true, decide_eq_true_eq] at this
  exact this

/-- the encoder always writes valid UTF-8 (invalid input bytes become `\\ufffd`) -/
theorem isValidUtf8_quoteBody (e : Bool) (s : Bytes) : isValidUtf8 (quoteBody e s) = true := by
  induction s using rune_induction with
  | nil => rfl
  | cons b rest ih =>
    by_cases hb : b.toNat < 128
    · rw [decodeRune_one b rest hb] at ih
      rw [quoteBody_ascii e b rest hb, isValidUtf8_ascii_append _ _ (quoteAscii_ascii e b hb)]
      exact ih
    · rw [quoteBody_multi e b rest hb]
      split
      · rename_i h; rw [h.2] at ih
        rw [isValidUtf8_ascii_append _ _ (by decide)]
        exact ih
      · rename_i hok
        split
        · rename_i h
          rcases h with h | h <;> rw [h]
          · rw [hexLower_8, List.append_assoc, isValidUtf8_ascii_append _ _ (by decide),
              isValidUtf8_ascii_append _ _ (by decide)]
            exact ih
          · rw [hexLower_9, List.append_assoc, isValidUtf8_ascii_append _ _ (by decide),
              isValidUtf8_ascii_append _ _ (by decide)]
            exact ih
        · rw [isValidUtf8_rune b rest _ hok]; exact ih

/-- the escaper keeps valid UTF-8 valid -/
theorem isValidUtf8_escBody (b : Bytes) (h : isValidUtf8 b = true) : isValidUtf8 (escBody b) = true := by
  induction b using rune_induction with
  | nil => rfl
  | cons c rest ih =>
    rw [isValidUtf8_cons] at h
    split at h
    · cases h
    · rename_i hok
      have ih' := ih h
      clear ih
      rcases escBody_cases c rest with ⟨hc, _⟩ | ⟨t, rfl, rfl, he⟩ | ⟨t, rfl, rfl, he⟩ | ⟨_, _, he⟩
      · have hd : decodeRune (c :: rest) = (c.toNat, 1) := by
          apply decodeRune_one; rcases hc with rfl | rfl | rfl <;> decide
        rw [hd] at ih'
        simp only [List.drop_succ_cons, List.drop_zero] at ih'
        rcases hc with rfl | rfl | rfl
        · rw [escBody_lt]
          exact (isValidUtf8_ascii_append [92, 117, 48, 48, 51, 99] _ (by decide)).trans ih'
        · rw [escBody_gt]
          exact (isValidUtf8_ascii_append [92, 117, 48, 48, 51, 101] _ (by decide)).trans ih'
        · rw [escBody_amp]
          exact (isValidUtf8_ascii_append [92, 117, 48, 48, 50, 54] _ (by decide)).trans ih'
      · rw [decodeRune_ls] at ih'
        rw [he]
        exact (isValidUtf8_ascii_append [92, 117, 50, 48, 50, 56] _ (by decide)).trans ih'
      · rw [decodeRune_ps] at ih'
        rw [he]
        exact (isValidUtf8_ascii_append [92, 117, 50, 48, 50, 57] _ (by decide)).trans ih'
      · have hD := decodeRune_escBody c rest
        rw [he, isValidUtf8_cons, hD.1, if_neg hok, hD.2]
        exact ih'

end JP
