import JP.Impl.Merge

/-!
# The panic-freedom invariant `NP` on nodes

For a parsed object `.doc keys obj`: the map `obj` has distinct names, every name of the
map occurs in the order list `keys` (which may contain repeats and names without an entry),
and the members satisfy the invariant; for a parsed array: the elements do.  Raw messages,
nil and the two special roots satisfy it trivially.
-/

namespace JP
namespace Impl

def names (obj : NMembers) : List Bytes := obj.map Prod.fst

mutual
def NP : Node → Prop
  | .doc keys obj => (names obj).Nodup ∧ (∀ k ∈ names obj, k ∈ keys) ∧ NPM obj
  | .ary ns => NPL ns
  | .nil => True
  | .raw _ => True
  | .docNil => True
  | .nilAry => True
def NPM : NMembers → Prop
  | [] => True
  | (_, n) :: ms => NP n ∧ NPM ms
def NPL : List Node → Prop
  | [] => True
  | n :: ns => NP n ∧ NPL ns
end

/-- container-shaped: what the root container (and every container a walk enters) is -/
def isCon : Node → Bool
  | .doc _ _ => true
  | .ary _ => true
  | .docNil => true
  | .nilAry => true
  | _ => false

theorem NPM_iff (obj : NMembers) : NPM obj ↔ ∀ p ∈ obj, NP p.2 := by
  induction obj with
  | nil => simp [NPM]
  | cons p ms ih => obtain ⟨k, n⟩ := p; simp [NPM, ih]

theorem NPL_iff (ns : List Node) : NPL ns ↔ ∀ n ∈ ns, NP n := by
  induction ns with
  | nil => simp [NPL]
  | cons n ns ih => simp [NPL, ih]

@[simp] theorem NP_nil : NP .nil := by simp [NP]
@[simp] theorem NP_raw (c : Cst) : NP (.raw c) := by simp [NP]
@[simp] theorem NP_docNil : NP .docNil := by simp [NP]
@[simp] theorem NP_nilAry : NP .nilAry := by simp [NP]
theorem NP_doc (keys : List Bytes) (obj : NMembers) :
    NP (.doc keys obj) ↔ (names obj).Nodup ∧ (∀ k ∈ names obj, k ∈ keys) ∧ ∀ p ∈ obj, NP p.2 := by
  simp [NP, NPM_iff]
theorem NP_ary (ns : List Node) : NP (.ary ns) ↔ ∀ n ∈ ns, NP n := by
  simp [NP, NPL_iff]

/-! ### association-list operations -/

theorem lookupN_mem {k : Bytes} {obj : NMembers} {n : Node} (h : lookupN k obj = some n) :
    (k, n) ∈ obj := by
  induction obj with
  | nil => simp [lookupN] at h
  | cons p ms ih =>
    obtain ⟨k', n'⟩ := p
    simp only [lookupN] at h
    split at h
    · rename_i hk; cases h; subst hk; exact List.mem_cons_self
    · exact List.mem_cons_of_mem _ (ih h)

theorem lookupN_names {k : Bytes} {obj : NMembers} {n : Node} (h : lookupN k obj = some n) :
    k ∈ names obj :=
  List.mem_map.2 ⟨(k, n), lookupN_mem h, rfl⟩

theorem lookupN_none {k : Bytes} {obj : NMembers} (h : lookupN k obj = none) : k ∉ names obj := by
  induction obj with
  | nil => simp [names]
  | cons p ms ih =>
    obtain ⟨k', n'⟩ := p
    simp only [lookupN] at h
    split at h
    · contradiction
    · rename_i hk
      simp only [names, List.map_cons, List.mem_cons, not_or]
      exact ⟨fun h' => hk h'.symm, ih h⟩

theorem mem_setN {k : Bytes} {n : Node} {obj : NMembers} {p : Bytes × Node}
    (h : p ∈ setN k n obj) : p = (k, n) ∨ p ∈ obj := by
  induction obj with
  | nil => simp [setN] at h; exact Or.inl h
  | cons q ms ih =>
    obtain ⟨k', n'⟩ := q
    simp only [setN] at h
    split at h
    · rcases List.mem_cons.1 h with h | h
      · exact Or.inl h
      · exact Or.inr (List.mem_cons_of_mem _ h)
    · rcases List.mem_cons.1 h with h | h
      · exact Or.inr (h ▸ List.mem_cons_self)
      · rcases ih h with h | h
        · exact Or.inl h
        · exact Or.inr (List.mem_cons_of_mem _ h)

theorem names_setN (k : Bytes) (n : Node) (obj : NMembers) :
    names (setN k n obj) = if k ∈ names obj then names obj else names obj ++ [k] := by
  induction obj with
  | nil => simp [setN, names]
  | cons q ms ih =>
    obtain ⟨k', n'⟩ := q
    simp only [setN]
    by_cases hk : k' = k
    · subst hk; simp [names]
    · simp only [hk, if_false]
      simp only [names, List.map_cons, List.mem_cons] at ih ⊢
      rw [ih]
      have : ¬ k = k' := fun h => hk h.symm
      by_cases hm : k ∈ List.map Prod.fst ms <;> simp [hm, this]

theorem nodup_setN {k : Bytes} {n : Node} {obj : NMembers} (h : (names obj).Nodup) :
    (names (setN k n obj)).Nodup := by
  rw [names_setN]
  split
  · exact h
  · rename_i hk
    rw [List.nodup_append]
    refine ⟨h, by simp, ?_⟩
    intro a ha b hb
    simp only [List.mem_singleton] at hb
    subst hb
    intro hab; subst hab; exact hk ha

theorem mem_names_setN {k k' : Bytes} {n : Node} {obj : NMembers} (h : k' ∈ names (setN k n obj)) :
    k' = k ∨ k' ∈ names obj := by
  rw [names_setN] at h
  split at h
  · exact Or.inr h
  · rcases List.mem_append.1 h with h | h
    · exact Or.inr h
    · exact Or.inl (List.mem_singleton.1 h)

theorem mem_eraseN {k : Bytes} {obj : NMembers} {p : Bytes × Node} (h : p ∈ eraseN k obj) : p ∈ obj := by
  induction obj with
  | nil => simp [eraseN] at h
  | cons q ms ih =>
    obtain ⟨k', n'⟩ := q
    simp only [eraseN] at h
    split at h
    · exact List.mem_cons_of_mem _ h
    · rcases List.mem_cons.1 h with h | h
      · exact h ▸ List.mem_cons_self
      · exact List.mem_cons_of_mem _ (ih h)

theorem names_eraseN (k : Bytes) (obj : NMembers) : names (eraseN k obj) = (names obj).erase k := by
  induction obj with
  | nil => simp [eraseN, names]
  | cons q ms ih =>
    obtain ⟨k', n'⟩ := q
    simp only [eraseN]
    by_cases hk : k' = k
    · subst hk; simp [names]
    · simp only [hk, if_false]
      simp only [names, List.map_cons] at ih ⊢
      rw [ih, List.erase_cons_tail]
      simpa using hk

theorem eraseKey_eq (k : Bytes) (keys : List Bytes) : eraseKey k keys = keys.erase k := by
  induction keys with
  | nil => simp [eraseKey]
  | cons k' ks ih =>
    simp only [eraseKey]
    by_cases hk : k' = k
    · subst hk; simp
    · simp only [hk, if_false, ih]
      rw [List.erase_cons_tail]
      simpa using hk

/-! ### list operations -/

theorem mem_listSet {α} {i : Nat} {a x : α} {l : List α} (h : x ∈ listSet i a l) : x = a ∨ x ∈ l := by
  induction l generalizing i with
  | nil => cases i <;> simp [listSet] at h
  | cons y ys ih =>
    cases i with
    | zero =>
      simp only [listSet] at h
      rcases List.mem_cons.1 h with h | h
      · exact Or.inl h
      · exact Or.inr (List.mem_cons_of_mem _ h)
    | succ i =>
      simp only [listSet] at h
      rcases List.mem_cons.1 h with h | h
      · exact Or.inr (h ▸ List.mem_cons_self)
      · rcases ih h with h | h
        · exact Or.inl h
        · exact Or.inr (List.mem_cons_of_mem _ h)

theorem mem_listInsert {α} {i : Nat} {a x : α} {l : List α} (h : x ∈ listInsert i a l) : x = a ∨ x ∈ l := by
  induction l generalizing i with
  | nil => cases i <;> simp [listInsert] at h <;> exact Or.inl h
  | cons y ys ih =>
    cases i with
    | zero =>
      simp only [listInsert] at h
      rcases List.mem_cons.1 h with h | h
      · exact Or.inl h
      · exact Or.inr h
    | succ i =>
      simp only [listInsert] at h
      rcases List.mem_cons.1 h with h | h
      · exact Or.inr (h ▸ List.mem_cons_self)
      · rcases ih h with h | h
        · exact Or.inl h
        · exact Or.inr (List.mem_cons_of_mem _ h)

/-! ### decoding a raw message gives a node that satisfies the invariant -/

theorem NP_childOf (c : Cst) : NP (childOf c) := by
  unfold childOf; split <;> simp

theorem decodeMembers_inv (ms : List (Bytes × Cst)) : ∀ (acc : NMembers),
    (names acc).Nodup → (∀ p ∈ acc, NP p.2) →
      (names (decodeMembers ms acc)).Nodup ∧ (∀ p ∈ decodeMembers ms acc, NP p.2) ∧
      ∀ k ∈ names (decodeMembers ms acc), k ∈ names acc ∨ k ∈ decodeKeys ms := by
  induction ms with
  | nil => intro acc h1 h2; exact ⟨h1, h2, fun k hk => Or.inl hk⟩
  | cons m ms ih =>
    intro acc h1 h2
    obtain ⟨k, v⟩ := m
    simp only [decodeMembers]
    have := ih (setN (unquote k) (childOf v) acc) (nodup_setN h1) (by
      intro p hp
      rcases mem_setN hp with hp | hp
      · rw [hp]; exact NP_childOf v
      · exact h2 p hp)
    refine ⟨this.1, this.2.1, ?_⟩
    intro k' hk'
    rcases this.2.2 k' hk' with h | h
    · rcases mem_names_setN h with h | h
      · exact Or.inr (by simp [decodeKeys, h])
      · exact Or.inl h
    · exact Or.inr (by simp only [decodeKeys, List.map_cons, List.mem_cons]; exact Or.inr h)

theorem NP_decodeDoc (ms : List (Bytes × Cst)) : NP (decodeDoc ms) := by
  unfold decodeDoc
  rw [NP_doc]
  have := decodeMembers_inv ms [] (by simp [names]) (by simp)
  refine ⟨this.1, ?_, this.2.1⟩
  intro k hk
  rcases this.2.2 k hk with h | h
  · simp [names] at h
  · exact h

theorem NP_decodeAry (xs : List Cst) : NP (decodeAry xs) := by
  unfold decodeAry
  rw [NP_ary]
  intro n hn
  obtain ⟨c, _, rfl⟩ := List.mem_map.1 hn
  exact NP_childOf c

theorem isCon_decodeDoc (ms : List (Bytes × Cst)) : isCon (decodeDoc ms) = true := rfl
theorem isCon_decodeAry (xs : List Cst) : isCon (decodeAry xs) = true := rfl

end Impl
end JP
