import JP.Lemmas.ApplyBasic

/-!
# The error classes `testFailed` and `copySize`

Container methods, walks and `ensure` never produce them.
-/

namespace JP
namespace Impl

/-- the two error classes with a dedicated meaning -/
def Special (e : Err) : Prop := e = .testFailed ∨ e = .copySize

theorem special_testFailed : Special .testFailed := Or.inl rfl
theorem special_copySize : Special .copySize := Or.inr rfl

theorem conGet_not_special {o self con key e} (h : conGet o self con key = .err e) : ¬ Special e := by
  simp only [conGet] at h
  repeat' split at h
  all_goals first | (cases h; simp [Special]) | contradiction

theorem conSet_not_special {o con key val e} (h : conSet o con key val = .err e) : ¬ Special e := by
  simp only [conSet] at h
  repeat' split at h
  all_goals first | (cases h; simp [Special]) | contradiction

theorem conAdd_not_special {o con key val e} (h : conAdd o con key val = .err e) : ¬ Special e := by
  simp only [conAdd] at h
  repeat' split at h
  all_goals first | (cases h; simp [Special]) | contradiction

theorem conRemove_not_special {o con key e} (h : conRemove o con key = .err e) : ¬ Special e := by
  simp only [conRemove] at h
  repeat' split at h
  all_goals first | (cases h; simp [Special]) | contradiction

theorem intoDoc_not_special {n e} (h : intoDoc n = .err e) : ¬ Special e := by
  unfold intoDoc at h
  repeat' split at h
  all_goals first | (cases h; simp [Special]) | contradiction

theorem intoAry_not_special {n e} (h : intoAry n = .err e) : ¬ Special e := by
  unfold intoAry at h
  repeat' split at h
  all_goals first | (cases h; simp [Special]) | contradiction

theorem intoContainer_not_special {n e} (h : intoContainer n = .err e) : ¬ Special e := by
  unfold intoContainer at h
  split at h
  · exact intoAry_not_special h
  · exact intoDoc_not_special h

theorem enter_not_special {cr key n e} (h : enter cr key n = .err e) : ¬ Special e := by
  unfold enter at h
  exact intoContainer_not_special h

theorem decodeRoot_not_special {c e} (h : decodeRoot c = .err e) : ¬ Special e := by
  unfold decodeRoot at h
  repeat' split at h
  all_goals first | (cases h; simp [Special]) | contradiction

theorem wrapWalk_fail {α} {o con key} {w : Walk α} {e} (h : wrapWalk o con key w = .fail e) : w = .fail e := by
  cases w <;> simp only [wrapWalk] at h <;> (try split at h) <;> first | exact h | contradiction

/-- a walk fails only with an error of its action -/
theorem walk_fail {α} (o : Opts) (act : Node → Node → Outcome (Node × α)) (P : Err → Prop)
    (hact : ∀ s c e, act s c = .err e → P e) :
    ∀ (parts : List Bytes) (cr : Bool) (self con : Node) (e : Err),
      walk o act cr self con parts = .fail e → P e := by
  intro parts
  induction parts with
  | nil =>
    intro cr self con e h
    rw [walk_nil] at h
    split at h <;> first | contradiction | (cases h; exact hact _ _ _ ‹_›)
  | cons part rest ih =>
    intro cr self con e h
    rw [walk_cons] at h
    repeat' split at h
    all_goals first | contradiction | exact ih _ _ _ _ (wrapWalk_fail h)

theorem withPath_fail {α} (o : Opts) (r : Root) (path : Bytes)
    (act : Node → Node → Bytes → Outcome (Node × α)) (P : Err → Prop)
    (hact : ∀ s c k e, act s c k = .err e → P e) {e : Err}
    (h : withPath o r path act = .fail e) : P e := by
  unfold withPath at h
  split at h
  · contradiction
  · exact walk_fail o _ P (fun s c e h => hact s c _ e h) _ _ _ _ _ h

theorem ensureAdd_err {o con1 key self x e} (h : ensureAdd o con1 key self x = .err e) : x = .err e := by
  cases x with
  | ok p => cases p; simp only [ensureAdd] at h; split at h <;> contradiction
  | err e' => simpa [ensureAdd] using h
  | panic => simp [ensureAdd] at h

theorem ensurePut_err {o con key self x e} (h : ensurePut o con key self x = .err e) : x = .err e := by
  cases x with
  | ok p => cases p; simp only [ensurePut] at h; contradiction
  | err e' => simpa [ensurePut] using h
  | panic => simp [ensurePut] at h

theorem ensure_not_special (o : Opts) : ∀ (parts : List Bytes) (cr : Bool) (self con : Node) (e : Err),
    ensure o cr self con parts = .err e → ¬ Special e := by
  intro parts
  induction parts with
  | nil => intro cr self con e h; rw [ensure] at h; contradiction
  | cons part rest ih =>
    intro cr self con e h
    cases rest with
    | nil => rw [ensure] at h; contradiction
    | cons nxt rest =>
      rw [ensure_cons2] at h
      repeat' split at h
      all_goals first
        | contradiction
        | (cases h; simp [Special]; done)
        | exact ih _ _ _ _ (ensureAdd_err h)
        | exact ih _ _ _ _ (ensurePut_err h)
        | (cases h; exact enter_not_special ‹_›)

theorem ensurePath_not_special {o r path e} (h : ensurePath o r path = .err e) : ¬ Special e := by
  unfold ensurePath at h
  repeat' split at h
  all_goals first
    | contradiction
    | (cases h; exact ensure_not_special _ _ _ _ _ _ ‹_›)

theorem liftWalk_err {r : Root} {w : Walk Unit} {k : Root → Outcome Root} {e : Err}
    (h : liftWalk r w k = .err e) : w = .fail e ∨ ∃ r', k r' = .err e := by
  cases w <;> simp only [liftWalk] at h
  · contradiction
  · exact Or.inr ⟨_, h⟩
  · cases h; exact Or.inl rfl
  · contradiction
  · contradiction
  · exact Or.inr ⟨_, h⟩

/-- the usual shape of an action: a container method, errors passed through -/
theorem liftAct_err {α} {x : Outcome Node} {a : α} {e : Err}
    (h : (match x with
          | .ok con' => (.ok (con', a) : Outcome (Node × α))
          | .err e => .err e
          | .panic => .panic) = .err e) : x = .err e := by
  cases x <;> simp_all

theorem opAdd_not_special {o r op e} (h : opAdd o r op = .err e) : ¬ Special e := by
  unfold opAdd at h
  split at h
  · repeat' split at h
    all_goals first
      | contradiction
      | (cases h; exact decodeRoot_not_special ‹_›)
  · simp only [] at h
    split at h
    · rename_i e' h1
      cases h
      split at h1
      · exact ensurePath_not_special h1
      · contradiction
    · contradiction
    · rcases liftWalk_err h with h | ⟨_, h⟩
      · exact withPath_fail o _ _ _ (fun e => ¬ Special e)
          (fun s c k e h => conAdd_not_special (liftAct_err h)) h
      · cases h; simp [Special]

theorem opRemove_not_special {o r op e} (h : opRemove o r op = .err e) : ¬ Special e := by
  unfold opRemove at h
  rcases liftWalk_err h with h | ⟨_, h⟩
  · exact withPath_fail o _ _ _ (fun e => ¬ Special e)
      (fun s c k e h => conRemove_not_special (liftAct_err h)) h
  · split at h
    · contradiction
    · cases h; simp [Special]

theorem opReplace_not_special {o r op e} (h : opReplace o r op = .err e) : ¬ Special e := by
  unfold opReplace at h
  split at h
  · repeat' split at h
    all_goals first
      | contradiction
      | (cases h; simp [Special]; done)
  · simp only [] at h
    rcases liftWalk_err h with h | ⟨_, h⟩
    · refine withPath_fail o _ _ _ (fun e => ¬ Special e) ?_ h
      intro s c k e h
      split at h
      · contradiction
      · cases h; simp [Special]
      · exact conSet_not_special (liftAct_err h)
    · cases h; simp [Special]

theorem opMove_not_special {o r op e} (h : opMove o r op = .err e) : ¬ Special e := by
  unfold opMove at h
  split at h
  · cases h; simp [Special]
  · split at h
    · cases h; simp [Special]
    · simp only [] at h
      have hcont : ∀ r1 val, liftWalk r1
          (withPath o r1 op.path fun _ con key =>
            match conAdd o con key val with
            | .ok con' => .ok (con', ())
            | .err e => .err e
            | .panic => .panic)
          (fun _ => .err .missing) = .err e → ¬ Special e := by
        intro r1 val h
        rcases liftWalk_err h with h | ⟨_, h⟩
        · exact withPath_fail o _ _ _ (fun e => ¬ Special e)
            (fun s c k e h => conAdd_not_special (liftAct_err h)) h
        · cases h; simp [Special]
      split at h
      · contradiction
      · rename_i hw
        cases h
        refine withPath_fail o _ _ _ (fun e => ¬ Special e) ?_ hw
        intro s c k e h
        split at h
        · contradiction
        · rename_i h1; cases h; exact conGet_not_special h1
        · exact conRemove_not_special (liftAct_err h)
      · cases h; simp [Special]
      · cases h; simp [Special]
      · exact hcont _ _ h
      · exact hcont _ _ h

end Impl
end JP
