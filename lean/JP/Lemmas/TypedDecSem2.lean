import JP.Lemmas.TypedDecSem1

set_option linter.unusedSimpArgs false
set_option linter.unusedVariables false

/-!
# The typed decoder as a function of the parse tree, part 2: the walk along `f.index`, one member of a struct
-/

namespace JP
namespace Codec
namespace TDec

open Scanner
open JP.Codec.Typed
open JP.C17 (decodable decodableF structSettable lastField)

/-- two runs with the same value; the second one's state satisfies `Q` -/
def RRel {α : Type} (Q : DState → Prop) (r' : R α) : R α → Prop
  | .ok d v => Q d ∧ ∃ d', r' = .ok d' v
  | .abort _ v _ => ∃ d' e', r' = .abort d' v e'
  | .panic => False
  | .fuel => False

theorem RRel_map {α β : Type} (f : α → β) (Q : DState → Prop) (r' r : R α) (h : RRel Q r' r) :
    RRel Q (R.map f r') (R.map f r) := by
  cases r with
  | ok d v => obtain ⟨h1, d', h2⟩ := h; subst h2; exact ⟨h1, d', rfl⟩
  | abort d v e => obtain ⟨d', e', h2⟩ := h; subst h2; exact ⟨d', e', rfl⟩
  | panic => exact h
  | fuel => exact h

theorem RRel_of_sem {α : Type} (Q : DState → Prop) (tv : TR α) (r : R α) (h : RSem Q tv r) : RRel Q tv.toR r := by
  cases r with
  | ok d v => obtain ⟨h1, h2⟩ := h; subst h2; exact ⟨h1, dummyD, rfl⟩
  | abort d v e => have h2 : tv = .abort v := h; subst h2; exact ⟨dummyD, .other, rfl⟩
  | panic => exact h
  | fuel => exact h

theorem RRel.toSem {α : Type} {Q : DState → Prop} {r' r : R α} (dflt : α) (h : RRel Q r' r) : RSem Q (trOf dflt r') r := by
  cases r with
  | ok d v => obtain ⟨h1, d', h2⟩ := h; subst h2; exact ⟨h1, rfl⟩
  | abort d v e => obtain ⟨d', e', h2⟩ := h; subst h2; exact rfl
  | panic => exact h
  | fuel => exact h

theorem fieldStep_rel (Q : DState → Prop) (k k' : GoType → DV → Bool → DState → R DV) (i : Nat) (n : Bytes)
    (fts : List (FieldInfo × GoType)) (sv : DV) (hsv : DV.typed (.struct n fts) sv = true) (isPtr : Bool) (d d' : DState)
    (fi : FieldInfo) (ft : GoType) (hf : fts[i]? = some (fi, ft))
    (hk : ∀ fv, DV.typed ft fv = true → RRel Q (k' ft fv fi.exported d') (k ft fv fi.exported d)) :
    RRel Q (fieldStep k' i (.struct n fts) sv isPtr d') (fieldStep k i (.struct n fts) sv isPtr d) := by
  cases sv with
  | struct vs =>
    simp only [DV.typed] at hsv
    obtain ⟨fv, hfv⟩ := typedF_get_some fts vs i (fi, ft) hsv hf
    simp only [fieldStep, structFieldsOf, hf, dvFields, hfv]
    exact RRel_map _ _ _ _ (hk fv (typedF_get fts vs i fi ft fv hsv hf hfv))
  | _ => simp [DV.typed, GoType.nilable] at hsv

theorem atPath_rel (Q : DState → Prop) (leaf leaf' : GoType → DV → Bool → DState → R DV) (blocked blocked' : DState → R Unit)
    (d d' : DState) (hleaf : ∀ t cur cs, Inv t cur cs → RRel Q (leaf' t cur cs d') (leaf t cur cs d))
    (hblocked : RRel Q (blocked' (d'.saveError .other)) (blocked (d.saveError .other))) :
    ∀ (is : List Nat) (t : GoType) (cur : DV) (cs : Bool), DV.typed t cur = true → leafOk t cs is = true →
      RRel Q (atPath leaf' blocked' is t cur cs d') (atPath leaf blocked is t cur cs d)
  | [], t, cur, cs, h, hl => by
    simp only [leafOk, Bool.and_eq_true] at hl
    refine hleaf t cur cs ⟨hl.1, h, fun hp => ?_⟩
    have := hl.2
    rw [hp] at this
    simpa using this
  | i :: is, t, cur, cs, h, hl => by
    simp only [atPath]
    by_cases hb : (t.isPtr && cur.isNil && !cs) = true
    · simp only [hb, if_true]
      exact RRel_map _ _ _ _ hblocked
    · simp only [hb, if_false]
      have ih := atPath_rel Q leaf leaf' blocked blocked' d d' hleaf hblocked is
      simp only [leafOk] at hl
      cases hf : (structFieldsOf t.deref)[i]? with
      | none => simp [hf] at hl
      | some p =>
        obtain ⟨fi, ft⟩ := p
        simp only [hf] at hl
        cases t with
        | ptr e =>
          simp only [GoType.isPtr, GoType.deref, if_true] at hf ⊢
          have hsv : DV.typed e (ptrTarget e cur) = true := by
            cases cur <;> first | exact zero_typed e | (simpa [DV.typed, ptrTarget] using h)
          cases e with
          | struct n fts =>
            simp only [structFieldsOf] at hf
            exact fieldStep_rel Q _ _ i n fts _ hsv true d d' fi ft hf (fun fv hfv => ih ft fv fi.exported hfv hl)
          | _ => simp [structFieldsOf] at hf
        | struct n fts =>
          simp only [GoType.isPtr, GoType.deref, Bool.false_eq_true, if_false] at hf ⊢
          simp only [structFieldsOf] at hf
          exact fieldStep_rel Q _ _ i n fts _ h false d d' fi ft hf (fun fv hfv => ih ft fv fi.exported hfv hl)
        | _ => simp [GoType.deref, structFieldsOf] at hf

/-- one member of an object decoded into a struct of a decodable type: the value is `tmember` -/
theorem memberStep_sem (Q : DState → Prop) (G : Nat) (n : Bytes) (fs : List (FieldInfo × GoType))
    (hd : decodable (.struct n fs) = true) (cur : DV) (hc : DV.typed (.struct n fs) cur = true) (key : Bytes) (c : Cst)
    (D : DState) (hcons : ConsumesS G Q c D) (hcons' : ConsumesS G Q c (D.saveError .other)) :
    RSem Q (tmember c (.struct n fs) (typeFields (.struct n fs)) cur key)
      (memberStep (value G) (.struct n fs) (typeFields (.struct n fs)) cur key D) := by
  simp only [memberStep, tmember]
  cases hff : findField (typeFields (.struct n fs)) key with
  | none =>
    simp only []
    exact RSem_map (fun _ => cur) Q (.ok ()) _ hcons.skip
  | some f =>
    simp only []
    have hfm := findField_mem _ _ _ hff
    refine RRel.toSem cur (atPath_rel Q _ _ _ _ D dummyD ?_ ?_ f.index _ cur true hc (leafOk_struct n fs hd f hfm))
    · intro t cur' cs' hinv
      cases hq : f.quoted with
      | true =>
        simp only [if_true]
        exact RRel_of_sem Q _ _ (hcons.quoted t cur' cs' hinv.2.2)
      | false =>
        simp only [Bool.false_eq_true, if_false]
        exact RRel_of_sem Q _ _ (hcons.val t cur' cs' hinv)
    · exact RRel_of_sem Q (.ok ()) _ hcons'.skip

end TDec
end Codec
end JP
