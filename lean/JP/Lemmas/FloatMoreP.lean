import JP.Lemmas.FloatMoreM
import JP.Lemmas.FloatTotalDefs

/-!
# `parseFloat` is monotone, and reports the range error exactly from the threshold on
-/

namespace JP
namespace Codec
namespace Float

theorem ten_pow_pos (k : Nat) : 0 < 10 ^ k := Nat.pos_of_ne_zero (by simp)

theorem decD_pos (e : Int) : 0 < decD e := by
  unfold decD; split
  · omega
  · exact ten_pow_pos _

theorem decN_pos (c : Nat) (e : Int) (hc : c ≠ 0) : 0 < decN c e := by
  unfold decN; split
  · exact Nat.mul_pos (by omega) (ten_pow_pos _)
  · omega

theorem decN_zero (e : Int) : decN 0 e = 0 := by
  unfold decN; split <;> simp

theorem roundDec_eq_dec (bits c : Nat) (e : Int) (hc : c ≠ 0) :
    roundDec bits c e = roundRat bits (decN c e) (decD e) := by
  rw [roundDec_eq_roundRat bits c e hc]
  unfold decN decD
  by_cases he : e ≥ 0
  · simp only [he, if_true]
  · simp only [he, if_false]

theorem roundDec_zero (bits : Nat) (e : Int) : roundDec bits 0 e = (0, 0, false) := by
  unfold roundDec; simp

theorem resUlps_zero (bits : Nat) : resUlps bits (0, 0, false) = 0 := by
  unfold resUlps ulps FP.sig; simp

/-- MONOTONICITY of `roundDec` -/
theorem roundDec_mono (bits c₁ c₂ : Nat) (e₁ e₂ : Int)
    (h : decN c₁ e₁ * decD e₂ ≤ decN c₂ e₂ * decD e₁) :
    resUlps bits (roundDec bits c₁ e₁) ≤ resUlps bits (roundDec bits c₂ e₂) := by
  by_cases h1 : c₁ = 0
  · subst h1
    rw [roundDec_zero, resUlps_zero]; exact Nat.zero_le _
  · by_cases h2 : c₂ = 0
    · exfalso
      subst h2
      rw [decN_zero, Nat.zero_mul] at h
      have := Nat.mul_pos (decN_pos c₁ e₁ h1) (decD_pos e₂)
      omega
    · rw [roundDec_eq_dec bits c₁ e₁ h1, roundDec_eq_dec bits c₂ e₂ h2]
      exact roundRat_mono bits _ _ _ _ (decN_pos _ _ h1) (decD_pos _) (decN_pos _ _ h2) (decD_pos _) h

/-! ## the order of floats through their exact values -/

/-- `x ≤ y` on the exact values (signed zeros are equal, `±Inf` is read as `±2^(emax+1)`) -/
def FP.le (bits : Nat) (x y : FP) : Prop :=
  (x.value bits).1 * ((y.value bits).2 : Int) ≤ (y.value bits).1 * ((x.value bits).2 : Int)

instance (bits : Nat) (x y : FP) : Decidable (FP.le bits x y) := by unfold FP.le; exact inferInstance

/-- signed number of units `2^qmin` -/
def sulps (bits : Nat) (x : FP) : Int := if x.sign then -(ulps bits x : Int) else (ulps bits x : Int)

theorem value_fst (bits : Nat) (x : FP) :
    (x.value bits).1 = if x.sign then -(exactN bits x : Int) else (exactN bits x : Int) := by
  unfold FP.value exactN
  by_cases h : x.qexp bits ≥ 0
  · simp only [h, if_true]
    cases x.sign <;> simp [Int.natCast_mul, Int.natCast_pow, Int.neg_mul]
  · simp only [h, if_false]

theorem value_snd (bits : Nat) (x : FP) : (x.value bits).2 = exactD bits x := by
  unfold FP.value exactD
  by_cases h : x.qexp bits ≥ 0
  · simp only [h, if_true]
  · simp only [h, if_false]

theorem exactD_pos (bits : Nat) (x : FP) : 0 < exactD bits x := by
  unfold exactD; split
  · omega
  · exact two_pow_pos _

theorem cross_iff (a b u v K dx dy : Int) (hK : 0 < K) (hdx : 0 < dx) (hdy : 0 < dy)
    (ha : a * K = u * dx) (hb : b * K = v * dy) : a * dy ≤ b * dx ↔ u ≤ v := by
  have e1 : a * dy * K = u * (dx * dy) := by grind
  have e2 : b * dx * K = v * (dx * dy) := by grind
  have hdd : 0 < dx * dy := Int.mul_pos hdx hdy
  constructor
  · intro h
    have h' := Int.mul_le_mul_of_nonneg_right h (Int.le_of_lt hK)
    rw [e1, e2] at h'
    exact Int.le_of_mul_le_mul_right h' hdd
  · intro h
    have h' := Int.mul_le_mul_of_nonneg_right h (Int.le_of_lt hdd)
    rw [← e1, ← e2] at h'
    exact Int.le_of_mul_le_mul_right h' hK

theorem signed_units (bits : Nat) (x : FP) :
    (if x.sign then -(exactN bits x : Int) else (exactN bits x : Int))
        * ((2 ^ (bias bits + mantBits bits - 1) : Nat) : Int)
      = sulps bits x * ((exactD bits x : Nat) : Int) := by
  have h := exact_units bits x
  have h' : ((exactN bits x * 2 ^ (bias bits + mantBits bits - 1) : Nat) : Int)
      = ((ulps bits x * exactD bits x : Nat) : Int) := by rw [h]
  rw [Int.natCast_mul, Int.natCast_mul] at h'
  unfold sulps
  cases x.sign
  · simpa using h'
  · simp only [if_true, Int.neg_mul]; rw [h']

theorem FP.le_iff_sulps (bits : Nat) (x y : FP) : FP.le bits x y ↔ sulps bits x ≤ sulps bits y := by
  unfold FP.le
  rw [value_fst, value_fst, value_snd, value_snd]
  apply cross_iff _ _ _ _ ((2 ^ (bias bits + mantBits bits - 1) : Nat) : Int)
  · exact Int.natCast_pos.2 (two_pow_pos _)
  · exact Int.natCast_pos.2 (exactD_pos bits x)
  · exact Int.natCast_pos.2 (exactD_pos bits y)
  · exact signed_units bits x
  · exact signed_units bits y

theorem FP.le_refl (bits : Nat) (x : FP) : FP.le bits x x :=
  (FP.le_iff_sulps bits x x).2 (Int.le_refl _)

theorem FP.le_trans (bits : Nat) (x y z : FP) (h1 : FP.le bits x y) (h2 : FP.le bits y z) : FP.le bits x z :=
  (FP.le_iff_sulps bits x z).2
    (Int.le_trans ((FP.le_iff_sulps bits x y).1 h1) ((FP.le_iff_sulps bits y z).1 h2))

theorem FP.le_total (bits : Nat) (x y : FP) : FP.le bits x y ∨ FP.le bits y x := by
  rw [FP.le_iff_sulps, FP.le_iff_sulps]; omega

example : FP.le 64 ⟨true, 0, 0⟩ ⟨false, 0, 0⟩ := by decide +kernel
example : FP.le 64 ⟨false, 0, 0⟩ ⟨true, 0, 0⟩ := by decide +kernel
example : FP.le 32 ⟨true, 0, 0⟩ ⟨false, 0, 0⟩ := by decide +kernel
example : FP.le 32 ⟨false, 0, 0⟩ ⟨true, 0, 0⟩ := by decide +kernel
example : FP.le 64 ⟨false, 2046, 2 ^ 52 - 1⟩ (FP.inf 64 false) := by decide +kernel
example : ¬ FP.le 64 (FP.inf 64 false) ⟨false, 2046, 2 ^ 52 - 1⟩ := by decide +kernel
example : FP.le 64 (FP.inf 64 true) ⟨true, 2046, 2 ^ 52 - 1⟩ := by decide +kernel
example : FP.le 64 ⟨true, 0, 1⟩ ⟨true, 0, 0⟩ := by decide +kernel
example : ¬ FP.le 64 ⟨false, 0, 1⟩ ⟨true, 0, 0⟩ := by decide +kernel

/-! ## the order of literals, and `parseFloat` is monotone -/

/-- the literal `l` is the fraction `litNum l / litDen l` -/
def litNum (l : Lit) : Int :=
  if l.neg then -((l.digits * 10 ^ l.exp10.toNat : Nat) : Int) else ((l.digits * 10 ^ l.exp10.toNat : Nat) : Int)
def litDen (l : Lit) : Nat := 10 ^ (-l.exp10).toNat
/-- `l₁ ≤ l₂` as rationals, by cross-multiplication -/
def litLe (l₁ l₂ : Lit) : Prop := litNum l₁ * (litDen l₂ : Int) ≤ litNum l₂ * (litDen l₁ : Int)

instance (l₁ l₂ : Lit) : Decidable (litLe l₁ l₂) := by unfold litLe; exact inferInstance

theorem decN_eq (c : Nat) (e : Int) : decN c e = c * 10 ^ e.toNat := by
  unfold decN
  by_cases he : e ≥ 0
  · simp only [he, if_true]
  · simp only [he, if_false]
    have : e.toNat = 0 := by omega
    rw [this, Nat.pow_zero, Nat.mul_one]

theorem decD_eq (e : Int) : decD e = 10 ^ (-e).toNat := by
  unfold decD
  by_cases he : e ≥ 0
  · simp only [he, if_true]
    have : (-e).toNat = 0 := by omega
    rw [this, Nat.pow_zero]
  · simp only [he, if_false]

theorem parseFloat_eq (bits : Nat) (s : Bytes) (l : Lit) (h : parseLit s = some l) :
    parseFloat bits s =
      some (⟨l.neg, (roundDec bits l.digits l.exp10).1, (roundDec bits l.digits l.exp10).2.1⟩,
        (roundDec bits l.digits l.exp10).2.2) := by
  unfold parseFloat
  rw [h]

theorem sulps_mk (bits : Nat) (s : Bool) (r : Nat × Nat × Bool) :
    sulps bits ⟨s, r.1, r.2.1⟩ = if s then -(resUlps bits r : Int) else (resUlps bits r : Int) := by
  unfold sulps resUlps ulps FP.sig
  rfl

theorem cast_cross (a b c d : Nat) (h : ((a : Nat) : Int) * ((b : Nat) : Int) ≤ ((c : Nat) : Int) * ((d : Nat) : Int)) :
    a * b ≤ c * d := by
  rw [← Int.natCast_mul, ← Int.natCast_mul] at h
  exact Int.ofNat_le.1 h

/-- a decimal that is at most zero has the digits zero -/
theorem roundDec_of_decN_zero (bits c : Nat) (e : Int) (h : decN c e = 0) : resUlps bits (roundDec bits c e) = 0 := by
  by_cases hc : c = 0
  · subst hc; rw [roundDec_zero, resUlps_zero]
  · have := decN_pos c e hc; omega

/-- MONOTONICITY of `strconv.ParseFloat` on number literals: `l₁ ≤ l₂` as rationals ⇒ the floats read are in
order (as exact values; `-0 = +0`, `±Inf = ±2^(emax+1)`) -/
theorem parseFloat_mono (bits : Nat) (s₁ s₂ : Bytes) (l₁ l₂ : Lit) (h₁ : parseLit s₁ = some l₁)
    (h₂ : parseLit s₂ = some l₂) (hle : litLe l₁ l₂) :
    ∃ x₁ r₁ x₂ r₂, parseFloat bits s₁ = some (x₁, r₁) ∧ parseFloat bits s₂ = some (x₂, r₂) ∧
      FP.le bits x₁ x₂ := by
  refine ⟨_, _, _, _, parseFloat_eq bits s₁ l₁ h₁, parseFloat_eq bits s₂ l₂ h₂, ?_⟩
  rw [FP.le_iff_sulps, sulps_mk, sulps_mk]
  unfold litLe litNum litDen at hle
  rw [← decN_eq l₁.digits l₁.exp10, ← decN_eq l₂.digits l₂.exp10, ← decD_eq l₁.exp10, ← decD_eq l₂.exp10] at hle
  have hD₁ := decD_pos l₁.exp10
  have hD₂ := decD_pos l₂.exp10
  cases hn₁ : l₁.neg <;> cases hn₂ : l₂.neg <;> simp only [hn₁, hn₂, if_true, if_false, Bool.false_eq_true] at hle ⊢
  · -- both non-negative
    have := roundDec_mono bits l₁.digits l₂.digits l₁.exp10 l₂.exp10 (cast_cross _ _ _ _ hle)
    omega
  · -- l₁ ≥ 0 ≥ l₂: both are zero
    have hA₁ : decN l₁.digits l₁.exp10 = 0 := by
      apply Nat.eq_zero_of_not_pos
      intro hp
      have hp' := Nat.mul_pos hp hD₂
      have e1 : ((decN l₁.digits l₁.exp10 * decD l₂.exp10 : Nat) : Int)
          = (decN l₁.digits l₁.exp10 : Int) * (decD l₂.exp10 : Int) := Int.natCast_mul _ _
      have e2 : ((decN l₂.digits l₂.exp10 * decD l₁.exp10 : Nat) : Int)
          = (decN l₂.digits l₂.exp10 : Int) * (decD l₁.exp10 : Int) := Int.natCast_mul _ _
      rw [Int.neg_mul] at hle
      generalize (decN l₁.digits l₁.exp10 : Int) * (decD l₂.exp10 : Int) = X at *
      generalize (decN l₂.digits l₂.exp10 : Int) * (decD l₁.exp10 : Int) = Y at *
      omega
    have hA₂ : decN l₂.digits l₂.exp10 = 0 := by
      apply Nat.eq_zero_of_not_pos
      intro hp
      have hp' := Nat.mul_pos hp hD₁
      have e2 : ((decN l₂.digits l₂.exp10 * decD l₁.exp10 : Nat) : Int)
          = (decN l₂.digits l₂.exp10 : Int) * (decD l₁.exp10 : Int) := Int.natCast_mul _ _
      rw [hA₁, Int.neg_mul] at hle
      generalize (decN l₂.digits l₂.exp10 : Int) * (decD l₁.exp10 : Int) = Y at *
      simp at hle
      omega
    rw [roundDec_of_decN_zero bits _ _ hA₁, roundDec_of_decN_zero bits _ _ hA₂]
    decide
  · -- l₁ ≤ 0 ≤ l₂
    omega
  · -- both non-positive
    rw [Int.neg_mul, Int.neg_mul] at hle
    have hle' := Int.neg_le_neg_iff.1 hle
    have := roundDec_mono bits l₂.digits l₁.digits l₂.exp10 l₁.exp10 (cast_cross _ _ _ _ hle')
    omega

/-! ## the range error of `parseFloat` -/

theorem overflowThr_pos (bits : Nat) : 0 < overflowThr bits := by
  unfold overflowThr
  apply Nat.mul_pos _ (two_pow_pos _)
  have : 2 ^ 1 ≤ 2 ^ (mantBits bits + 2) := Nat.pow_le_pow_right (by omega) (by omega)
  omega

/-- the range error is reported exactly for the literals of magnitude at least `overflowThr` -/
theorem parseFloat_overflow_iff (bits : Nat) (s : Bytes) (l : Lit) (h : parseLit s = some l) :
    (∃ x, parseFloat bits s = some (x, true)) ↔ overflowThr bits * litDen l ≤ l.digits * 10 ^ l.exp10.toNat := by
  rw [parseFloat_eq bits s l h]
  unfold litDen
  rw [← decN_eq l.digits l.exp10, ← decD_eq l.exp10]
  have hiff : (∃ x, some ((⟨l.neg, (roundDec bits l.digits l.exp10).1, (roundDec bits l.digits l.exp10).2.1⟩ : FP),
        (roundDec bits l.digits l.exp10).2.2) = some (x, true)) ↔ (roundDec bits l.digits l.exp10).2.2 = true := by
    constructor
    · rintro ⟨x, hx⟩
      simp only [Option.some.injEq, Prod.mk.injEq] at hx
      exact hx.2
    · intro hr
      exact ⟨_, by rw [hr]⟩
  rw [hiff]
  by_cases hc : l.digits = 0
  · rw [hc, roundDec_zero, decN_zero]
    have := Nat.mul_pos (overflowThr_pos bits) (decD_pos l.exp10)
    constructor
    · intro h; simp at h
    · intro h; omega
  · rw [roundDec_eq_dec bits _ _ hc]
    exact roundRat_overflow_iff bits _ _ (decN_pos _ _ hc) (decD_pos _)

/-- with the range error comes the infinity of the literal's sign -/
theorem parseFloat_overflow_value (bits : Nat) (s : Bytes) (l : Lit) (h : parseLit s = some l) (x : FP)
    (hx : parseFloat bits s = some (x, true)) : x = ⟨l.neg, expMax bits, 0⟩ := by
  rw [parseFloat_eq bits s l h] at hx
  simp only [Option.some.injEq, Prod.mk.injEq] at hx
  obtain ⟨hx1, hx2⟩ := hx
  by_cases hc : l.digits = 0
  · rw [hc, roundDec_zero] at hx2; simp at hx2
  · rw [roundDec_eq_dec bits _ _ hc] at hx1 hx2
    rcases roundRat_shape bits _ _ (decN_pos l.digits l.exp10 hc) (decD_pos l.exp10) with hs | ⟨hs, _, _⟩
    · rw [hs] at hx1; exact hx1.symm
    · rw [hs] at hx2; simp at hx2

/-- the two directions spelled out: at the threshold `(±Inf, ErrRange)`, below it a finite float and no error -/
theorem parseFloat_overflow (bits : Nat) (s : Bytes) (l : Lit) (h : parseLit s = some l)
    (hthr : overflowThr bits * litDen l ≤ l.digits * 10 ^ l.exp10.toNat) :
    parseFloat bits s = some (⟨l.neg, expMax bits, 0⟩, true) := by
  obtain ⟨x, hx⟩ := (parseFloat_overflow_iff bits s l h).2 hthr
  rw [hx, parseFloat_overflow_value bits s l h x hx]

example : overflowThr 64 = (2 ^ 54 - 1) * 2 ^ 970 := by decide +kernel
example : overflowThr 32 = (2 ^ 25 - 1) * 2 ^ 103 := by decide +kernel
example : overflowThr 64 =
    179769313486231580793728971405303415079934132710037826936173778980444968292764750946649017977587207096330286416692887910946555547851940402630657488671505820681908902000708383676273854845817711531764475730270069855571366959622842914819860834936475292719074168444365510704342711559699508093042880177904174497792 := by
  decide +kernel
example : (roundRat 64 (overflowThr 64) 1).2.2 = true := by decide +kernel
example : (roundRat 64 (overflowThr 64 - 1) 1).2.2 = false := by decide +kernel
example : roundRat 64 (overflowThr 64 - 1) 1 = (2046, 2 ^ 52 - 1, false) := by decide +kernel
example : (roundRat 32 (overflowThr 32) 1).2.2 = true := by decide +kernel
example : (roundRat 32 (overflowThr 32 - 1) 1).2.2 = false := by decide +kernel
example : roundRat 32 (overflowThr 32 - 1) 1 = (254, 2 ^ 23 - 1, false) := by decide +kernel

/-- below the threshold: a finite float and no error -/
theorem parseFloat_no_overflow (bits : Nat) (s : Bytes) (l : Lit) (h : parseLit s = some l)
    (hthr : l.digits * 10 ^ l.exp10.toNat < overflowThr bits * litDen l) :
    ∃ x, parseFloat bits s = some (x, false) ∧ x.sign = l.neg ∧ x.exp < expMax bits := by
  have hno : ¬ ∃ x, parseFloat bits s = some (x, true) := by
    rw [parseFloat_overflow_iff bits s l h]; omega
  rw [parseFloat_eq bits s l h] at hno ⊢
  refine ⟨⟨l.neg, (roundDec bits l.digits l.exp10).1, (roundDec bits l.digits l.exp10).2.1⟩, ?_, rfl, ?_⟩
  · cases hr : (roundDec bits l.digits l.exp10).2.2
    · rfl
    · exact absurd ⟨_, by rw [hr]⟩ hno
  · show (roundDec bits l.digits l.exp10).1 < expMax bits
    by_cases hc : l.digits = 0
    · rw [hc, roundDec_zero]
      have := (fmt_consts bits).2.2.2.2.2.2
      show 0 < expMax bits
      omega
    · rw [roundDec_eq_dec bits _ _ hc] at hno ⊢
      rcases roundRat_shape bits _ _ (decN_pos l.digits l.exp10 hc) (decD_pos l.exp10) with hs | ⟨_, _, hs⟩
      · exact absurd ⟨_, by rw [hs]⟩ hno
      · exact hs

-- the boundary on the BYTES: the decimal literal of `overflowThr` is the first that overflows
example : parseFloat 64 (Typed.decimal (overflowThr 64)) = some (⟨false, 2047, 0⟩, true) := by decide +kernel
example : parseFloat 64 (45 :: Typed.decimal (overflowThr 64)) = some (⟨true, 2047, 0⟩, true) := by decide +kernel
example : parseFloat 64 (Typed.decimal (overflowThr 64 - 1)) = some (⟨false, 2046, 2 ^ 52 - 1⟩, false) := by
  decide +kernel
example : parseFloat 64 (45 :: Typed.decimal (overflowThr 64 - 1)) = some (⟨true, 2046, 2 ^ 52 - 1⟩, false) := by
  decide +kernel
example : parseFloat 32 (Typed.decimal (overflowThr 32)) = some (⟨false, 255, 0⟩, true) := by decide +kernel
example : parseFloat 32 (Typed.decimal (overflowThr 32 - 1)) = some (⟨false, 254, 2 ^ 23 - 1⟩, false) := by
  decide +kernel

-- "-0" and "0" are equal as literals, and so are the floats read (−0 and +0)
example : litLe ⟨true, 0, 0, 1⟩ ⟨false, 0, 0, 1⟩ ∧ litLe ⟨false, 0, 0, 1⟩ ⟨true, 0, 0, 1⟩ := by decide +kernel
-- "1e-1" ≤ "0.2", "-0.2" ≤ "-1e-1", not the other way round
example : litLe ⟨false, 1, -1, 1⟩ ⟨false, 2, -1, 1⟩ ∧ ¬ litLe ⟨false, 2, -1, 1⟩ ⟨false, 1, -1, 1⟩ := by decide +kernel
example : litLe ⟨true, 2, -1, 1⟩ ⟨true, 1, -1, 1⟩ ∧ ¬ litLe ⟨true, 1, -1, 1⟩ ⟨true, 2, -1, 1⟩ := by decide +kernel

end Float
end Codec
end JP
