import JP.Lemmas.LegacyCloseCreate
import JP.Legacy.MergeFloat

/-!
# The `float64` model of the legacy `CreateMergePatch` against the literal model

`NV P v`: every number literal of `v` satisfies `P`.  For `P = goodLit` (spelled the way Go prints a `float64`,
and not `-0`):

* `floatEqLit_good`: `==` on the decoded floats is equality of the literals — from `floatCanonical` BY DEFINITION
  (equal floats are printed alike), the two zeros being the only distinct floats that are `==`;
* `matchesValueF_eq`, `getDiffMF_eq`, `getDiffF_eq`: the diff on floats is the diff on literals;
* `encV_of_NV`: printing changes nothing; `NVM_getDiff`: the diff only contains literals of its arguments.
-/

namespace JP
namespace Legacy
open Value
open Impl (getDiff getDiffM getDiffOne matchesValue matchesL matchesM anyOf anyOfL anyOfM insertSorted mergeSorted
  deletedM sameType)
open Codec.Float (FP stdNumberToAny floatEncode)

/-! ### a predicate on every number literal -/

mutual
def NV (P : Bytes → Bool) : Value → Bool
  | .num l => P l
  | .arr xs => NVL P xs
  | .obj ms => NVM P ms
  | _ => true
def NVL (P : Bytes → Bool) : List Value → Bool
  | [] => true
  | x :: xs => NV P x && NVL P xs
def NVM (P : Bytes → Bool) : Members → Bool
  | [] => true
  | (_, v) :: ms => NV P v && NVM P ms
end

mutual
theorem NV_eq_all (P : Bytes → Bool) : ∀ v : Value, NV P v = v.numLits.all P
  | .null => by simp [NV, numLits]
  | .bool _ => by simp [NV, numLits]
  | .num l => by simp [NV, numLits]
  | .str _ => by simp [NV, numLits]
  | .arr xs => by simp only [NV, numLits]; exact NVL_eq_all P xs
  | .obj ms => by simp only [NV, numLits]; exact NVM_eq_all P ms
theorem NVL_eq_all (P : Bytes → Bool) : ∀ xs : List Value, NVL P xs = (numLitsL xs).all P
  | [] => by simp [NVL, numLitsL]
  | x :: xs => by simp only [NVL, numLitsL, List.all_append, NV_eq_all P x, NVL_eq_all P xs]
theorem NVM_eq_all (P : Bytes → Bool) : ∀ ms : Members, NVM P ms = (numLitsM ms).all P
  | [] => by simp [NVM, numLitsM]
  | (_, v) :: ms => by simp only [NVM, numLitsM, List.all_append, NV_eq_all P v, NVM_eq_all P ms]
end

theorem NVM_iff (P : Bytes → Bool) : ∀ (ms : Members), NVM P ms = true ↔ ∀ x ∈ ms, NV P x.2 = true
  | [] => by simp [NVM]
  | (k, v) :: ms => by
    simp only [NVM, Bool.and_eq_true, NVM_iff P ms, List.mem_cons, forall_eq_or_imp]

theorem NV_of_lookup {P : Bytes → Bool} {ms : Members} (h : NVM P ms = true) {k : Bytes} {v : Value}
    (hl : lookup k ms = some v) : NV P v = true :=
  (NVM_iff P ms).1 h _ (mem_of_lookup hl)

theorem NVM_insertSorted (P : Bytes → Bool) (k : Bytes) (v : Value) (ms : Members)
    (hv : NV P v = true) (h : NVM P ms = true) : NVM P (insertSorted k v ms) = true := by
  rw [NVM_iff] at h ⊢
  intro x hx
  rcases Impl.mem_insertSorted k v ms x hx with rfl | hx
  · exact hv
  · exact h x hx

mutual
theorem NV_anyOf (P : Bytes → Bool) : ∀ (v : Value), NV P v = true → NV P (anyOf v) = true
  | .null, h => h
  | .bool _, h => h
  | .num _, h => h
  | .str _, h => h
  | .arr xs, h => by
    simp only [NV] at h
    simp only [anyOf, NV]
    exact NVL_anyOfL P xs h
  | .obj ms, h => by
    simp only [NV] at h
    simp only [anyOf, NV]
    exact NVM_anyOfM P ms [] h rfl
theorem NVL_anyOfL (P : Bytes → Bool) : ∀ (xs : List Value), NVL P xs = true → NVL P (anyOfL xs) = true
  | [], _ => rfl
  | x :: xs, h => by
    simp only [NVL, Bool.and_eq_true] at h
    simp only [anyOfL, NVL, NV_anyOf P x h.1, NVL_anyOfL P xs h.2, Bool.and_self]
theorem NVM_anyOfM (P : Bytes → Bool) : ∀ (ms acc : Members), NVM P ms = true → NVM P acc = true →
    NVM P (anyOfM ms acc) = true
  | [], acc, _, h => by simpa [anyOfM] using h
  | (k, v) :: ms, acc, hm, h => by
    simp only [NVM, Bool.and_eq_true] at hm
    simp only [anyOfM]
    exact NVM_anyOfM P ms _ hm.2 (NVM_insertSorted P k _ acc (NV_anyOf P v hm.1) h)
end

theorem NVM_mergeSorted (P : Bytes → Bool) (xs ys : Members) (hx : NVM P xs = true) (hy : NVM P ys = true) :
    NVM P (mergeSorted xs ys) = true := by
  rw [NVM_iff] at hx hy ⊢
  intro x h
  rcases Impl.mem_mergeSorted ys xs x h with h | h
  · exact hx x h
  · exact hy x h

theorem NVM_append (P : Bytes → Bool) (xs ys : Members) (hx : NVM P xs = true) (hy : NVM P ys = true) :
    NVM P (xs ++ ys) = true := by
  rw [NVM_iff] at hx hy ⊢
  intro x h
  rcases List.mem_append.1 h with h | h
  · exact hx x h
  · exact hy x h

theorem NVM_deletedM (P : Bytes → Bool) (b : Members) : ∀ (as : Members), NVM P (deletedM b as) = true
  | [] => by simp [deletedM, NVM]
  | (k, v) :: as => by
    simp only [deletedM]
    split
    · exact NVM_deletedM P b as
    · simp only [NVM, NV, Bool.true_and]
      exact NVM_deletedM P b as

mutual
theorem NVM_getDiffM (P : Bytes → Bool) : ∀ (bs a : Members), NVM P bs = true → NVM P (getDiffM a bs) = true
  | [], _, _ => by rw [Impl.getDiffM_nil]; rfl
  | (k, bv) :: bs, a, hb => by
    simp only [NVM, Bool.and_eq_true] at hb
    have ih := NVM_getDiffM P bs a hb.2
    cases hl : lookup k a with
    | none =>
      rw [Impl.getDiffM_cons_none hl]
      simp only [NVM, Bool.and_eq_true]
      exact ⟨hb.1, ih⟩
    | some av =>
      rw [Impl.getDiffM_cons_some hl]
      exact NVM_append P _ _ (NVM_getDiffOne P bv k av hb.1) ih
theorem NVM_getDiffOne (P : Bytes → Bool) : ∀ (bv : Value) (k : Bytes) (av : Value),
    NV P bv = true → NVM P (getDiffOne k av bv) = true
  | .obj bms, k, av, hb => by
    by_cases hao : av.isObj = true
    · cases av <;> simp [isObj] at hao
      rename_i ams
      rw [Impl.getDiffOne_obj_obj]
      split
      · rfl
      · simp only [NV] at hb
        simp only [NVM, NV, Bool.and_true]
        rw [getDiff]
        exact NVM_mergeSorted P _ _ (NVM_getDiffM P bms ams hb) (NVM_deletedM P _ _)
    · rw [Impl.getDiffOne_nonobj_obj k (by simpa using hao)]
      simp only [NVM, Bool.and_true]; exact hb
  | .null, k, av, hb => by
    rw [Impl.getDiffOne_of_not_obj k av rfl]; split <;> simp [NVM, hb]
  | .bool _, k, av, hb => by
    rw [Impl.getDiffOne_of_not_obj k av rfl]; split <;> simp [NVM, hb]
  | .num _, k, av, hb => by
    rw [Impl.getDiffOne_of_not_obj k av rfl]; split <;> simp [NVM, hb]
  | .str _, k, av, hb => by
    rw [Impl.getDiffOne_of_not_obj k av rfl]; split <;> simp [NVM, hb]
  | .arr _, k, av, hb => by
    rw [Impl.getDiffOne_of_not_obj k av rfl]; split <;> simp [NVM, hb]
end

/-- the diff only contains number literals of the modified document -/
theorem NVM_getDiff (P : Bytes → Bool) (a b : Members) (hb : NVM P b = true) : NVM P (getDiff a b) = true :=
  NVM_mergeSorted P _ _ (NVM_getDiffM P b a hb) (NVM_deletedM P _ _)

/-! ### literals that Go prints, `-0` apart -/

/-- spelled the way Go prints a `float64`, and not `-0` -/
def goodLit (l : Bytes) : Bool := floatCanonical l && l != ascii "-0"

theorem floatCanonical_iff {l : Bytes} : floatCanonical l = true ↔ normNum l = some l := by
  simp [floatCanonical]

theorem floatCanonical_spec {l : Bytes} (h : floatCanonical l = true) :
    ∃ x, stdNumberToAny l = some x ∧ floatEncode 64 x false = some l := by
  have h := floatCanonical_iff.1 h
  unfold normNum at h
  cases hs : stdNumberToAny l with
  | none => rw [hs] at h; simp at h
  | some x => rw [hs] at h; exact ⟨x, rfl, by simpa using h⟩

theorem encNum_of_canonical {l : Bytes} (h : floatCanonical l = true) : encNum l = l := by
  have h := floatCanonical_iff.1 h
  simp only [encNum, h, Option.getD_some]

theorem encode_negZero : floatEncode 64 ⟨true, 0, 0⟩ false = some (ascii "-0") := by decide +kernel
theorem encode_posZero : floatEncode 64 ⟨false, 0, 0⟩ false = some (ascii "0") := by decide +kernel

theorem fp_zero_eq {x : FP} (h : x.isZero = true) : x = ⟨x.sign, 0, 0⟩ := by
  cases x with
  | mk s e m =>
    simp only [FP.isZero, Bool.and_eq_true, decide_eq_true_eq] at h
    simp only [h.1, h.2]

/-- on canonical spellings other than `-0`, Go's `==` of the two floats is equality of the literals -/
theorem floatEqLit_good {x y : Bytes} (hx : goodLit x = true) (hy : goodLit y = true) :
    floatEqLit x y = (x == y) := by
  simp only [goodLit, Bool.and_eq_true, bne_iff_ne, ne_eq] at hx hy
  obtain ⟨fx, sx, ex⟩ := floatCanonical_spec hx.1
  obtain ⟨fy, sy, ey⟩ := floatCanonical_spec hy.1
  simp only [floatEqLit, sx, sy, fpEq]
  by_cases hxy : x = y
  · subst hxy
    rw [sx] at sy
    cases sy
    simp
  · have hne : fx ≠ fy := by
      intro e; subst e
      rw [ex] at ey; cases ey; exact hxy rfl
    have hz : (fx.isZero && fy.isZero) = false := by
      cases hzx : fx.isZero with
      | false => rfl
      | true =>
        cases hzy : fy.isZero with
        | false => rfl
        | true =>
          exfalso
          have e1 := fp_zero_eq hzx
          have e2 := fp_zero_eq hzy
          cases hs1 : fx.sign with
          | true =>
            rw [hs1] at e1; rw [e1, encode_negZero] at ex
            exact hx.2 (Option.some.inj ex).symm
          | false =>
            cases hs2 : fy.sign with
            | true =>
              rw [hs2] at e2; rw [e2, encode_negZero] at ey
              exact hy.2 (Option.some.inj ey).symm
            | false =>
              rw [hs1] at e1; rw [hs2] at e2
              exact hne (e1.trans e2.symm)
    simp [hz, hne, hxy]

/-! ### the diff on floats is the diff on literals -/

mutual
theorem matchesValueF_eq : ∀ (a b : Value), NV goodLit a = true → NV goodLit b = true →
    matchesValueF a b = matchesValue a b
  | .null, b, _, _ => by cases b <;> simp [matchesValueF, matchesValue]
  | .bool _, b, _, _ => by cases b <;> simp [matchesValueF, matchesValue]
  | .str _, b, _, _ => by cases b <;> simp [matchesValueF, matchesValue]
  | .num x, b, ha, hb => by
    cases b <;> simp only [matchesValueF, matchesValue]
    rename_i y
    simp only [NV] at ha hb
    exact floatEqLit_good ha hb
  | .arr xs, b, ha, hb => by
    cases b <;> simp only [matchesValueF, matchesValue]
    rename_i ys
    simp only [NV] at ha hb
    exact matchesLF_eq xs ys ha hb
  | .obj xs, b, ha, hb => by
    cases b <;> simp only [matchesValueF, matchesValue]
    rename_i ys
    simp only [NV] at ha hb
    rw [matchesMF_eq xs ys ha hb]
theorem matchesLF_eq : ∀ (xs ys : List Value), NVL goodLit xs = true → NVL goodLit ys = true →
    matchesLF xs ys = matchesL xs ys
  | [], _, _, _ => by simp [matchesLF, matchesL]
  | x :: xs, [], _, _ => by simp [matchesLF, matchesL]
  | x :: xs, y :: ys, ha, hb => by
    simp only [NVL, Bool.and_eq_true] at ha hb
    simp only [matchesLF, matchesL, matchesValueF_eq x y ha.1 hb.1, matchesLF_eq xs ys ha.2 hb.2]
theorem matchesMF_eq : ∀ (xs ys : Members), NVM goodLit xs = true → NVM goodLit ys = true →
    matchesMF xs ys = matchesM xs ys
  | [], _, _, _ => by simp [matchesMF, matchesM]
  | (k, v) :: xs, ys, ha, hb => by
    simp only [NVM, Bool.and_eq_true] at ha
    simp only [matchesMF, matchesM, matchesMF_eq xs ys ha.2 hb]
    cases hl : lookup k ys with
    | none => rfl
    | some w => simp only [matchesValueF_eq v w ha.1 (NV_of_lookup hb hl)]
end

mutual
theorem getDiffMF_eq : ∀ (bs a : Members), NVM goodLit a = true → NVM goodLit bs = true →
    getDiffMF a bs = getDiffM a bs
  | [], _, _, _ => by simp only [getDiffMF, getDiffM]
  | (k, bv) :: bs, a, ha, hb => by
    simp only [NVM, Bool.and_eq_true] at hb
    have ih := getDiffMF_eq bs a ha hb.2
    simp only [getDiffMF, getDiffM, ih]
    cases hl : lookup k a with
    | none => rfl
    | some av => simp only [getDiffOneF_eq bv k av (NV_of_lookup ha hl) hb.1]
theorem getDiffOneF_eq : ∀ (bv : Value) (k : Bytes) (av : Value), NV goodLit av = true → NV goodLit bv = true →
    getDiffOneF k av bv = getDiffOne k av bv
  | .obj bms, k, av, ha, hb => by
    cases av with
    | obj ams =>
      simp only [NV] at ha hb
      simp only [getDiffOneF, getDiffOne, getDiffMF_eq bms ams ha hb]
    | _ => simp only [getDiffOneF, getDiffOne]
  | .null, k, av, ha, hb => by simp only [getDiffOneF, getDiffOne, matchesValueF_eq av _ ha hb]
  | .bool _, k, av, ha, hb => by simp only [getDiffOneF, getDiffOne, matchesValueF_eq av _ ha hb]
  | .num _, k, av, ha, hb => by simp only [getDiffOneF, getDiffOne, matchesValueF_eq av _ ha hb]
  | .str _, k, av, ha, hb => by simp only [getDiffOneF, getDiffOne, matchesValueF_eq av _ ha hb]
  | .arr _, k, av, ha, hb => by simp only [getDiffOneF, getDiffOne, matchesValueF_eq av _ ha hb]
end

theorem getDiffF_eq (a b : Members) (ha : NVM goodLit a = true) (hb : NVM goodLit b = true) :
    getDiffF a b = getDiff a b := by
  simp only [getDiffF, getDiff, getDiffMF_eq b a ha hb]

/-! ### printing changes nothing -/

mutual
theorem encV_of_NV : ∀ (v : Value), NV floatCanonical v = true → encV v = v
  | .null, _ => rfl
  | .bool _, _ => rfl
  | .str _, _ => rfl
  | .num l, h => by simp only [NV] at h; simp only [encV, encNum_of_canonical h]
  | .arr xs, h => by simp only [NV] at h; simp only [encV, encL_of_NV xs h]
  | .obj ms, h => by simp only [NV] at h; simp only [encV, encM_of_NV ms h]
theorem encL_of_NV : ∀ (xs : List Value), NVL floatCanonical xs = true → encL xs = xs
  | [], _ => rfl
  | x :: xs, h => by
    simp only [NVL, Bool.and_eq_true] at h
    simp only [encL, encV_of_NV x h.1, encL_of_NV xs h.2]
theorem encM_of_NV : ∀ (ms : Members), NVM floatCanonical ms = true → encM ms = ms
  | [], _ => rfl
  | (k, v) :: ms, h => by
    simp only [NVM, Bool.and_eq_true] at h
    simp only [encM, encV_of_NV v h.1, encM_of_NV ms h.2]
end

mutual
theorem NV_mono {P Q : Bytes → Bool} (hpq : ∀ l, P l = true → Q l = true) :
    ∀ v : Value, NV P v = true → NV Q v = true
  | .null, _ => rfl
  | .bool _, _ => rfl
  | .str _, _ => rfl
  | .num l, h => by simp only [NV] at h ⊢; exact hpq l h
  | .arr xs, h => by simp only [NV] at h ⊢; exact NVL_mono hpq xs h
  | .obj ms, h => by simp only [NV] at h ⊢; exact NVM_mono hpq ms h
theorem NVL_mono {P Q : Bytes → Bool} (hpq : ∀ l, P l = true → Q l = true) :
    ∀ xs : List Value, NVL P xs = true → NVL Q xs = true
  | [], _ => rfl
  | x :: xs, h => by
    simp only [NVL, Bool.and_eq_true] at h ⊢
    exact ⟨NV_mono hpq x h.1, NVL_mono hpq xs h.2⟩
theorem NVM_mono {P Q : Bytes → Bool} (hpq : ∀ l, P l = true → Q l = true) :
    ∀ ms : Members, NVM P ms = true → NVM Q ms = true
  | [], _ => rfl
  | (_, v) :: ms, h => by
    simp only [NVM, Bool.and_eq_true] at h ⊢
    exact ⟨NV_mono hpq v h.1, NVM_mono hpq ms h.2⟩
end

theorem goodLit_canonical (l : Bytes) (h : goodLit l = true) : floatCanonical l = true := by
  simp only [goodLit, Bool.and_eq_true] at h; exact h.1

theorem goodLit_decodes (l : Bytes) (h : goodLit l = true) : (stdNumberToAny l).isSome = true := by
  obtain ⟨x, sx, _⟩ := floatCanonical_spec (goodLit_canonical l h)
  rw [sx]; rfl

/-! ### the two models on good inputs -/

theorem asAnyMapF_eq (c : Cst) (h : NV goodLit c.valueOf = true) : asAnyMapF c = asAnyMap c := by
  have : numbersDecode c.valueOf = true := by
    unfold numbersDecode
    rw [← NV_eq_all]
    exact NV_mono goodLit_decodes _ h
  simp only [asAnyMapF, this, if_true]

theorem NVM_rootL (P : Bytes → Bool) (v : Value) (ms : Members) (h : NV P v = true) (hr : rootL v = some ms) :
    NVM P ms = true := by
  cases v with
  | obj A =>
    simp only [rootL, Option.some.injEq] at hr
    subst hr
    have := NV_anyOf P (.obj A) h
    simpa only [anyOf, NV] using this
  | null =>
    simp only [rootL, Option.some.injEq] at hr
    subst hr; rfl
  | _ => simp [rootL] at hr

/-- the printed diff of two good roots is the literal diff -/
theorem encV_getDiffF (ca cb : Cst) (am bm : Members) (ha : NV goodLit ca.valueOf = true)
    (hb : NV goodLit cb.valueOf = true) (hra : asAnyMap ca = some am) (hrb : asAnyMap cb = some bm) :
    encV (.obj (getDiffF am bm)) = .obj (getDiff am bm) := by
  rw [asAnyMap_eq] at hra hrb
  have h1 := NVM_rootL goodLit _ am ha hra
  have h2 := NVM_rootL goodLit _ bm hb hrb
  rw [getDiffF_eq am bm h1 h2]
  apply encV_of_NV
  simp only [NV]
  exact NVM_mono goodLit_canonical _ (NVM_getDiff goodLit am bm h2)

theorem createArrayF_eq : ∀ (xs ys : List Cst), NVL goodLit (Cst.valueOfL xs) = true →
    NVL goodLit (Cst.valueOfL ys) = true → createArrayF xs ys = createArray xs ys
  | [], _, _, _ => by simp only [createArrayF, createArray]
  | _ :: _, [], _, _ => by simp only [createArrayF, createArray]
  | x :: xs, y :: ys, hx, hy => by
    simp only [Cst.valueOfL, NVL, Bool.and_eq_true] at hx hy
    simp only [createArrayF, createArray, asAnyMapF_eq x hx.1, asAnyMapF_eq y hy.1, createArrayF_eq xs ys hx.2 hy.2]
    cases hra : asAnyMap x with
    | none => rfl
    | some am =>
      cases hrb : asAnyMap y with
      | none => rfl
      | some bm =>
        simp only [encV_getDiffF x y am bm hx.1 hy.1 hra hrb]
        cases createArray xs ys <;> rfl

end Legacy
end JP
