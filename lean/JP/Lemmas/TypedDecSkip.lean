import JP.Lemmas.TypedDecSem3

set_option linter.unusedSimpArgs false
set_option linter.unusedVariables false

/-!
# Skipped values leave the decoder state alone: an object none of whose member names is known

`SkipV`: `d.value(reflect.Value{})` on a well-formed value stands just past it with `savedError` and `lastKeys`
unchanged; an object whose member names match no field of a struct type is decoded into that struct without any
change of the struct and without saving an error.
-/

namespace JP
namespace Codec
namespace TDec

open Scanner
open JP.Codec.Typed
open JP.C17 (decodable decodableF structSettable lastField)

/-- no member name of `ms` is (exactly or case-insensitively) a field of `flds` -/
def AllUnknown (flds : List Fld) (ms : List (Bytes × Cst)) : Prop :=
  ∀ kv ∈ ms, findField flds (unquote kv.1) = none

def SkipV (f dd : Nat) (bs : Bytes) (c : Cst) (rest : Bytes) : Prop :=
  parseValue f dd bs = some (c, rest) →
  ∀ stk : List Nat, stk.length = dd → ValueStk stk → ∀ (pre : Bytes) (x : UInt8) (bs' : Bytes), bs = x :: bs' →
    DelimW rest →
    ∃ vt, bs = vt ++ rest ∧
      (∀ (se : Option DErr) (lk : List Bytes), ∃ D',
        valueSkip (atD (pre ++ bs) (pre.length + 1) (step (bv stk) x) se lk) = .ok D' () ∧
        PostV D' (pre ++ bs) (pre ++ vt).length stk rest se lk) ∧
      (∀ ms, c = .obj ms → ∀ n fs, AllUnknown (typeFields (.struct n fs)) ms → ∀ G, 3 * f ≤ G →
        ∀ (cur : DV) (cs : Bool) (se : Option DErr) (lk : List Bytes), ∃ D',
          value G (.struct n fs) cur cs (atD (pre ++ bs) (pre.length + 1) (step (bv stk) x) se lk) = .ok D' cur ∧
          PostV D' (pre ++ bs) (pre ++ vt).length stk rest se lk)

def SkipE (f dd : Nat) (bs : Bytes) (xs : List Cst) (rest : Bytes) : Prop := True

def SkipM (f dd : Nat) (bs : Bytes) (ms : List (Bytes × Cst)) (rest : Bytes) : Prop :=
  parseMembers f dd bs = some (ms, rest) →
  ∀ stk : List Nat, stk.length + 1 = dd → ∀ (pre : Bytes) (bs' : Bytes), bs = 34 :: bs' →
    ∃ mt, bs = mt ++ rest ∧ ∀ (se : Option DErr) (lk : List Bytes) (G : Nat), 3 * f + 1 ≤ G → ∀ d0 : DState,
      scanWhile scanSkipSpace d0 =
        atD (pre ++ bs) (pre.length + 1) (step (mk .stateBeginString (0 :: stk)) 34) se lk →
      ∀ t flds cur, AllUnknown flds ms →
        structLoop G t flds cur d0 =
          .ok (atD (pre ++ bs) (pre ++ mt).length (afterClose stk, scanEndObject) se lk) cur

/-! ### literals -/

theorem skip_lit (bs rest vt : Bytes) (c : Cst) (hc : ∀ ms, c ≠ .obj ms) (f : Nat) (hbs : bs = vt ++ rest) (x : UInt8)
    (bs' : Bytes) (hx : bs = x :: bs') (stk : List Nat) (X : St)
    (hX : step (bv stk) x = (mk X stk, scanBeginLiteral))
    (hres : ∀ (pre : Bytes) (se : Option DErr) (lk : List Bytes),
      rescanLiteral (atD (pre ++ (vt ++ rest)) (pre.length + 1) (mk X stk, scanBeginLiteral) se lk) =
        .ok (atD (pre ++ (vt ++ rest)) ((pre ++ vt).length + 1) (afterLit (mk X stk) rest) se lk))
    (pre : Bytes) :
    ∃ vt, bs = vt ++ rest ∧
      (∀ (se : Option DErr) (lk : List Bytes), ∃ D',
        valueSkip (atD (pre ++ bs) (pre.length + 1) (step (bv stk) x) se lk) = .ok D' () ∧
        PostV D' (pre ++ bs) (pre ++ vt).length stk rest se lk) ∧
      (∀ ms, c = .obj ms → ∀ n fs, AllUnknown (typeFields (.struct n fs)) ms → ∀ G, 3 * f ≤ G →
        ∀ (cur : DV) (cs : Bool) (se : Option DErr) (lk : List Bytes), ∃ D',
          value G (.struct n fs) cur cs (atD (pre ++ bs) (pre.length + 1) (step (bv stk) x) se lk) = .ok D' cur ∧
          PostV D' (pre ++ bs) (pre ++ vt).length stk rest se lk) := by
  refine ⟨vt, hbs, ?_, fun ms h => absurd h (hc ms)⟩
  intro se lk
  rw [hX, hbs]
  have e1 : (scanBeginLiteral = scanBeginArray) = False := by decide
  have e2 : (scanBeginLiteral = scanBeginObject) = False := by decide
  refine ⟨_, ?_, postV_atD _ _ stk X rest se lk⟩
  simp only [valueSkip, atD_opcode, e1, e2, or_self, if_false, if_true, hres pre se lk]

theorem skip_str (f d : Nat) (cs b rest : Bytes) (h : parseStrBody cs = some (b, rest)) :
    SkipV (f + 1) d (34 :: cs) (.str b) rest := by
  intro hp stk _ _ pre x bs' hx _
  obtain ⟨hcs, hvb⟩ := parseStrBody_split cs b rest h
  have hx' := hx
  simp only [List.cons.injEq] at hx'
  obtain ⟨rfl, _⟩ := hx'
  have hdata : (34 : UInt8) :: cs = strText b ++ rest := by rw [hcs]; simp [strText]
  exact skip_lit _ rest (strText b) (.str b) (fun ms h => by cases h) (f + 1) hdata 34 bs' hx stk .stateInString
    (step_bv_quote stk) (fun pre se lk => rescan_string pre b rest hvb _ _ se lk) pre

theorem skip_word (f d : Nat) (w rest : Bytes) (hw : w = ascii "true" ∨ w = ascii "false" ∨ w = ascii "null") :
    SkipV (f + 1) d (w ++ rest) (.lit w) rest := by
  intro hp stk _ _ pre x bs' hx _
  have hres := fun (X : St) (pre : Bytes) (se : Option DErr) (lk : List Bytes) =>
    rescan_word pre w rest hw (mk X stk) scanBeginLiteral se lk
  have key := fun X hX => skip_lit (w ++ rest) rest w (.lit w) (fun ms h => by cases h) (f + 1) rfl x bs' hx stk X hX
    (hres X) pre
  rcases hw with rfl | rfl | rfl
  · have : x = 116 := by simp [ascii] at hx; exact hx.1.symm
    subst this
    exact key _ (step_bv_t stk)
  · have : x = 102 := by simp [ascii] at hx; exact hx.1.symm
    subst this
    exact key _ (step_bv_f stk)
  · have : x = 110 := by simp [ascii] at hx; exact hx.1.symm
    subst this
    exact key _ (step_bv_n stk)

theorem skip_num (f d : Nat) (c : UInt8) (cs l rest : Bytes) (hc : c = 45 ∨ isDigit c = true)
    (hpn : parseNumber (c :: cs) = some (l, rest)) : SkipV (f + 1) d (c :: cs) (.lit l) rest := by
  intro hp stk _ _ pre x bs' hx hdl
  have hx' := hx
  simp only [List.cons.injEq] at hx'
  obtain ⟨rfl, _⟩ := hx'
  obtain ⟨hsp, hself⟩ := parseNumber_prefix _ _ _ hpn
  have halpha := parseNumber_alphabet _ _ _ hpn
  obtain ⟨c', lt, hl, _⟩ := parseNumber_head l l [] hself
  subst hl
  have hcc : c' = c := by simp only [List.cons_append, List.cons.injEq] at hsp; exact hsp.1.symm
  subst hcc
  obtain ⟨X, hX⟩ := step_bv_numhead stk c' hc
  exact skip_lit _ rest (c' :: lt) (.lit (c' :: lt)) (fun ms h => by cases h) (f + 1) hsp c' bs' hx stk X hX
    (fun pre se lk => rescan_number pre c' lt rest hc (fun b hb => halpha b (List.mem_cons_of_mem _ hb))
      (delimW_numEnd rest hdl) _ _ se lk) pre

/-! ### arrays: skipped as a whole -/

theorem skip_arr_any (F d : Nat) (cs : Bytes) (xs : List Cst) (rest : Bytes)
    (hd : d + 1 ≤ maxDepth) : SkipV F d (91 :: cs) (.arr xs) rest := by
  intro hp stk hstk hvs pre x bs' hx hdl
  simp only [List.cons.injEq] at hx
  obtain ⟨rfl, rfl⟩ := hx
  obtain ⟨vt, hbs, hend, hre⟩ := (split_all F).1 d _ _ rest hp
  obtain ⟨e0, inner, rfl⟩ := head_of_append (endsNonWs_ne_nil hend)
  have hbs' := hbs
  simp only [List.cons_append, List.cons.injEq] at hbs'
  obtain ⟨rfl, rfl⟩ := hbs'
  have heq := fun rest' hdl' => trace_of_split (91 :: inner) (.arr xs) d hre stk (by omega) rest' hdl'
  have hskip := fun se' lk' => skip_arr stk hvs (by omega) pre inner rest xs heq hend se' lk'
  have h0 := step_lbrack_ok stk (by omega)
  refine ⟨91 :: inner, rfl, ?_, fun ms h => by cases h⟩
  intro se lk
  rw [h0]
  simp only [h0] at hskip
  refine ⟨_, ?_, postV_scanNext pre (91 :: inner) rest stk scanEndArray se lk⟩
  have hsk : skip (atD (pre ++ 91 :: (inner ++ rest)) (pre.length + 1)
      (mk St.stateBeginValueOrEmpty (2 :: stk), scanBeginArray) se lk) = _ := hskip se lk
  simp only [valueSkip, atD_opcode, true_or, if_true, hsk]

/-! ### objects -/

theorem skip_obj_of_loop (F d : Nat) (cs : Bytes) (ms : List (Bytes × Cst)) (rest : Bytes)
    (hp : parseValue F d (123 :: cs) = some (.obj ms, rest)) (hd : d + 1 ≤ maxDepth) (hF : 1 ≤ F)
    (stk : List Nat) (hstk : stk.length = d) (hvs : ValueStk stk) (pre : Bytes) (hdl : DelimW rest)
    (hloop : ∀ vt, 123 :: cs = vt ++ rest → ∀ (se : Option DErr) (lk : List Bytes) (G : Nat), 3 * F ≤ G + 2 →
      ∀ t flds cur, AllUnknown flds ms →
        structLoop G t flds cur
          (atD (pre ++ 123 :: cs) (pre.length + 1) (mk .stateBeginStringOrEmpty (0 :: stk), scanBeginObject) se lk) =
          .ok (atD (pre ++ 123 :: cs) (pre ++ vt).length (afterClose stk, scanEndObject) se lk) cur) :
    ∃ vt, 123 :: cs = vt ++ rest ∧
      (∀ (se : Option DErr) (lk : List Bytes), ∃ D',
        valueSkip (atD (pre ++ 123 :: cs) (pre.length + 1) (step (bv stk) 123) se lk) = .ok D' () ∧
        PostV D' (pre ++ 123 :: cs) (pre ++ vt).length stk rest se lk) ∧
      (∀ ms', Cst.obj ms = .obj ms' → ∀ n fs, AllUnknown (typeFields (.struct n fs)) ms' → ∀ G, 3 * F ≤ G →
        ∀ (cur : DV) (cs' : Bool) (se : Option DErr) (lk : List Bytes), ∃ D',
          value G (.struct n fs) cur cs' (atD (pre ++ 123 :: cs) (pre.length + 1) (step (bv stk) 123) se lk) = .ok D' cur ∧
          PostV D' (pre ++ 123 :: cs) (pre ++ vt).length stk rest se lk) := by
  obtain ⟨vt, hbs, hend, hre⟩ := (split_all F).1 d _ _ rest hp
  obtain ⟨e0, inner, rfl⟩ := head_of_append (endsNonWs_ne_nil hend)
  have hbs' := hbs
  simp only [List.cons_append, List.cons.injEq] at hbs'
  obtain ⟨rfl, rfl⟩ := hbs'
  have heq := fun rest' hdl' => trace_of_split (123 :: inner) (.obj ms) d hre stk (by omega) rest' hdl'
  have hskip := fun se' lk' => skip_obj stk hvs (by omega) pre inner rest ms heq hend se' lk'
  have h0 := step_lbrace_ok stk (by omega)
  simp only [h0] at hskip
  refine ⟨123 :: inner, rfl, ?_, ?_⟩
  · intro se lk
    rw [h0]
    refine ⟨_, ?_, postV_scanNext pre (123 :: inner) rest stk scanEndObject se lk⟩
    have hsk : skip (atD (pre ++ 123 :: (inner ++ rest)) (pre.length + 1)
        (mk St.stateBeginStringOrEmpty (0 :: stk), scanBeginObject) se lk) = _ := hskip se lk
    simp only [valueSkip, atD_opcode, or_true, if_true, hsk]
  · intro ms' hms n fs hunk G hG cur cs' se lk
    simp only [Cst.obj.injEq] at hms
    subst hms
    obtain ⟨G, rfl⟩ : ∃ G', G = G' + 2 := ⟨G - 2, by omega⟩
    rw [h0]
    have hl := hloop (123 :: inner) rfl se lk G (by omega) (.struct n fs) (typeFields (.struct n fs)) cur hunk
    have e1 : (scanBeginObject = scanBeginArray) = False := by decide
    refine ⟨_, ?_, postV_scanNext pre (123 :: inner) rest stk scanEndObject se lk⟩
    simp only [value, atD_opcode, e1, if_false, if_true, object, GoType.isPtr, Bool.false_and, Bool.false_eq_true,
      derefT, derefV, hl, R.map, rewrap] <;> rfl

theorem skip_obj0 (f d : Nat) (cs r : Bytes) (hd : d + 1 ≤ maxDepth) (hs : skipWs cs = 125 :: r) :
    SkipV (f + 1) d (123 :: cs) (.obj []) r := by
  intro hp stk hstk hvs pre x bs' hx hdl
  simp only [List.cons.injEq] at hx
  obtain ⟨rfl, rfl⟩ := hx
  refine skip_obj_of_loop (f + 1) d cs [] r hp hd (by omega) stk hstk hvs pre hdl ?_
  intro vt hvt se lk G hG t flds cur _
  obtain ⟨G, rfl⟩ : ∃ G', G = G' + 1 := ⟨G - 1, by omega⟩
  obtain ⟨ws, hcs, hws, _⟩ := skipWs_split cs 125 r hs
  have hdata : pre ++ 123 :: cs = (pre ++ [123]) ++ (ws ++ 125 :: r) := by rw [hcs]; simp
  have hsw := scanWhile_ws' (pre ++ 123 :: cs) (pre ++ [123]) ws 125 r (mk .stateBeginStringOrEmpty (0 :: stk))
    scanBeginObject se lk hdata hws (fun c hc => step_bsoe_ws (0 :: stk) c hc) (by decide)
  rw [step_bsoe_rbrace] at hsw
  have hlen : (pre ++ [123]).length = pre.length + 1 := by simp
  rw [hlen] at hsw
  have hv : vt = 123 :: ws ++ [125] := List.append_cancel_right (by rw [← hvt, hcs]; simp)
  subst hv
  have hoff : (pre ++ [123] ++ ws).length + 1 = (pre ++ (123 :: ws ++ [125])).length := by
    simp only [List.length_append, List.length_cons, List.length_nil]; omega
  rw [structLoop_done G _ _ cur _ _ hsw rfl, hoff]

theorem skip_obj (f d : Nat) (cs : Bytes) (ms : List (Bytes × Cst)) (rest : Bytes) (hd : d + 1 ≤ maxDepth)
    (hs : ∀ r, skipWs cs ≠ 125 :: r) (hpm : parseMembers f (d + 1) (skipWs cs) = some (ms, rest))
    (ih : SkipM f (d + 1) (skipWs cs) ms rest) : SkipV (f + 1) d (123 :: cs) (.obj ms) rest := by
  intro hp stk hstk hvs pre x bs' hx hdl
  simp only [List.cons.injEq] at hx
  obtain ⟨rfl, rfl⟩ := hx
  refine skip_obj_of_loop (f + 1) d cs ms rest hp hd (by omega) stk hstk hvs pre hdl ?_
  intro vt hvt se lk G hG t flds cur hunk
  obtain ⟨b2, hx2⟩ := parseMembers_cons_of_some hpm
  obtain ⟨ws, hcs, hws⟩ := skipWs_prefix cs
  have hdata : pre ++ 123 :: cs = (pre ++ [123]) ++ (ws ++ 34 :: b2) := by rw [hcs, hx2]; simp
  have hsw := scanWhile_ws' (pre ++ 123 :: cs) (pre ++ [123]) ws 34 b2 (mk .stateBeginStringOrEmpty (0 :: stk))
    scanBeginObject se lk hdata hws (fun c hc => step_bsoe_ws (0 :: stk) c hc) (by decide)
  rw [step_bsoe_other (0 :: stk) 34 (by decide) (by decide)] at hsw
  have hlen : (pre ++ [123]).length = pre.length + 1 := by simp
  rw [hlen] at hsw
  have hdata2 : pre ++ 123 :: cs = (pre ++ [123] ++ ws) ++ skipWs cs := by rw [hdata, hx2]; simp
  rw [hdata2] at hsw
  obtain ⟨mt, hmt, hl⟩ := ih hpm stk (by omega) (pre ++ [123] ++ ws) b2 hx2
  have h := hl se lk G (by omega) _ hsw t flds cur hunk
  rw [← hdata2] at h
  have hv : vt = 123 :: ws ++ mt := List.append_cancel_right (by rw [← hvt, hcs, hmt]; simp)
  subst hv
  have hn : (pre ++ [123] ++ ws ++ mt).length = (pre ++ (123 :: ws ++ mt)).length := by
    simp only [List.length_append, List.length_cons, List.length_nil]; omega
  rw [hn] at h
  exact h

/-- one unknown member: from the name to the state after the white space behind its value -/
theorem skip_member (f d : Nat) (cs k r r1 : Bytes) (c : Cst) (r2 : Bytes) (y' : UInt8) (r3 : Bytes)
    (hk : parseStrBody cs = some (k, r)) (h58 : skipWs r = 58 :: r1)
    (hv : parseValue f d (skipWs r1) = some (c, r2)) (ih : SkipV f d (skipWs r1) c r2)
    (hy' : skipWs r2 = y' :: r3) (hy'd : y' = 44 ∨ y' = 93 ∨ y' = 125)
    (stk : List Nat) (hstk : stk.length + 1 = d) (pre : Bytes) :
    ∃ mt : Bytes, 34 :: cs = mt ++ y' :: r3 ∧
      ∀ (se : Option DErr) (lk : List Bytes), ∃ D4 start D5,
        readKey (atD (pre ++ 34 :: cs) (pre.length + 1) (mk .stateInString (0 :: stk), scanBeginLiteral) se lk) =
          .ok (D4, unquote k, start) ∧ valueSkip D4 = .ok D5 () ∧
        skipSpaceIf D5 = atD (pre ++ 34 :: cs) ((pre ++ mt).length + 1) (step (ev (1 :: stk)) y') se lk := by
  obtain ⟨xv, bv', hxv⟩ := parseValue_cons_of_some hv
  obtain ⟨mid, hmid, hrk⟩ := readKey_pos cs k r r1 hk h58 xv bv' hxv stk pre
  have hdata4 : pre ++ 34 :: cs = (pre ++ mid) ++ skipWs r1 := by rw [hmid]; simp
  obtain ⟨vt, hvt, hsk, _⟩ := ih hv (1 :: stk) (by simpa using hstk) (valueStk_one stk) (pre ++ mid) xv bv' hxv
    (delimW_of_skipWs r2 r3 y' hy' hy'd)
  obtain ⟨y2, r20, rfl⟩ := skipWs_cons_ne_nil hy'
  obtain ⟨ws3, hr2, hws3, hy'ws⟩ := skipWs_split (y2 :: r20) y' r3 hy'
  have hdata5 : pre ++ 34 :: cs = (pre ++ mid ++ vt) ++ y2 :: r20 := by rw [hdata4, hvt]; simp
  refine ⟨mid ++ vt ++ ws3, by rw [hmid, hvt, hr2]; simp, ?_⟩
  intro se lk
  obtain ⟨start, hs⟩ := hrk se lk
  obtain ⟨D5, h5, hpost⟩ := hsk se lk
  rw [← hdata4] at h5 hpost
  refine ⟨_, start, D5, hs, h5, ?_⟩
  have hD5 := hpost.eq y2 r20 rfl
  rw [hD5, skipSpaceIf_ev_ws (pre ++ 34 :: cs) (pre ++ mid ++ vt) y2 r20 y' r3 1 stk ws3 hr2 hws3 hy'ws hdata5 se lk]
  have hn : (pre ++ mid ++ vt ++ ws3).length = (pre ++ (mid ++ vt ++ ws3)).length := by
    simp only [List.append_assoc]
  rw [hn]

theorem structLoop_unknown_step (G : Nat) (t : GoType) (flds : List Fld) (cur : DV) (d0 D1 D4 D5 D6 : DState) (key : Bytes)
    (start : Nat) (h1 : scanWhile scanSkipSpace d0 = D1) (hop1 : D1.opcode = scanBeginLiteral)
    (hrk : readKey D1 = .ok (D4, key, start)) (hf : findField flds key = none) (hs : valueSkip D4 = .ok D5 ())
    (h6 : skipSpaceIf D5 = D6) :
    structLoop (G + 1) t flds cur d0 =
      (if D6.opcode = scanEndObject then .ok D6 cur
       else if D6.opcode ≠ scanObjectValue then .panic
       else structLoop G t flds cur D6) := by
  have e1 : (scanBeginLiteral = scanEndObject) = False := by decide
  simp only [structLoop, h1, hop1, e1, if_false, ne_eq, not_true_eq_false, hrk, memberStep, hf, hs, R.map, h6]

theorem skip_mlast (f d : Nat) (cs k r r1 : Bytes) (c : Cst) (r2 r3 : Bytes)
    (hk : parseStrBody cs = some (k, r)) (h58 : skipWs r = 58 :: r1)
    (hv : parseValue f d (skipWs r1) = some (c, r2)) (ih : SkipV f d (skipWs r1) c r2)
    (h125 : skipWs r2 = 125 :: r3) : SkipM (f + 1) d (34 :: cs) [(k, c)] r3 := by
  intro _ stk hstk pre bs' hx
  obtain ⟨mt, hmt, hmem⟩ := skip_member f d cs k r r1 c r2 125 r3 hk h58 hv ih h125 (by simp) stk hstk pre
  refine ⟨mt ++ [125], by rw [hmt]; simp, ?_⟩
  intro se lk G hG d0 hd0 t flds cur hunk
  obtain ⟨G, rfl⟩ : ∃ G', G = G' + 1 := ⟨G - 1, by omega⟩
  rw [step_bs_quote] at hd0
  obtain ⟨D4, start, D5, hrk, hs, h6⟩ := hmem se lk
  rw [step_ev_val_rbrace] at h6
  rw [structLoop_unknown_step G t flds cur d0 _ D4 D5 _ (unquote k) start hd0 rfl hrk
    (hunk (k, c) (List.mem_cons_self ..)) hs h6]
  simp only [atD_opcode, if_true]
  have : (pre ++ mt).length + 1 = (pre ++ (mt ++ [125])).length := by
    simp only [List.length_append, List.length_cons, List.length_nil]; omega
  rw [this]

theorem skip_mmore (f d : Nat) (cs k r r1 : Bytes) (c : Cst) (r2 r3 : Bytes) (ms : List (Bytes × Cst)) (rest : Bytes)
    (hk : parseStrBody cs = some (k, r)) (h58 : skipWs r = 58 :: r1)
    (hv : parseValue f d (skipWs r1) = some (c, r2)) (ih : SkipV f d (skipWs r1) c r2)
    (h44 : skipWs r2 = 44 :: r3) (hpm : parseMembers f d (skipWs r3) = some (ms, rest))
    (ihM : SkipM f d (skipWs r3) ms rest) : SkipM (f + 1) d (34 :: cs) ((k, c) :: ms) rest := by
  intro _ stk hstk pre bs' hx
  obtain ⟨mt, hmt, hmem⟩ := skip_member f d cs k r r1 c r2 44 r3 hk h58 hv ih h44 (by simp) stk hstk pre
  obtain ⟨b3, hb3⟩ := parseMembers_cons_of_some hpm
  obtain ⟨ws4, hr3, hws4⟩ := skipWs_prefix r3
  have hdata : pre ++ 34 :: cs = (pre ++ mt ++ [44]) ++ (ws4 ++ 34 :: b3) := by rw [hmt, hr3, hb3]; simp
  have hdata2 : pre ++ 34 :: cs = (pre ++ mt ++ [44] ++ ws4) ++ skipWs r3 := by rw [hdata, hb3]; simp
  obtain ⟨mt', hmt', hloop⟩ := ihM hpm stk hstk (pre ++ mt ++ [44] ++ ws4) b3 hb3
  refine ⟨mt ++ [44] ++ ws4 ++ mt', by rw [hmt, hr3, hmt']; simp, ?_⟩
  intro se lk G hG d0 hd0 t flds cur hunk
  obtain ⟨G, rfl⟩ : ∃ G', G = G' + 1 := ⟨G - 1, by omega⟩
  rw [step_bs_quote] at hd0
  obtain ⟨D4, start, D5, hrk, hs, h6⟩ := hmem se lk
  rw [step_ev_val_comma] at h6
  rw [structLoop_unknown_step G t flds cur d0 _ D4 D5 _ (unquote k) start hd0 rfl hrk
    (hunk (k, c) (List.mem_cons_self ..)) hs h6]
  have e2 : (scanObjectValue = scanEndObject) = False := by decide
  simp only [atD_opcode, e2, if_false, ne_eq, not_true_eq_false]
  have hsw := scanWhile_ws' (pre ++ 34 :: cs) (pre ++ mt ++ [44]) ws4 34 b3 (mk .stateBeginString (0 :: stk))
    scanObjectValue se lk hdata hws4 (fun c hc => step_bs_ws (0 :: stk) c hc) (by decide)
  have hlen : (pre ++ mt ++ [44]).length = (pre ++ mt).length + 1 := by
    simp only [List.length_append, List.length_cons, List.length_nil]
  rw [hlen] at hsw
  rw [hdata2] at hsw
  have hl := hloop se lk G (by omega) _ hsw t flds cur (fun kv hkv => hunk kv (List.mem_cons_of_mem _ hkv))
  rw [← hdata2] at hl
  have hn : (pre ++ mt ++ [44] ++ ws4 ++ mt').length = (pre ++ (mt ++ [44] ++ ws4 ++ mt')).length := by
    simp only [List.append_assoc]
  rw [hn] at hl
  exact hl

theorem skip_all (f : Nat) :
    (∀ d bs c rest, parseValue f d bs = some (c, rest) → SkipV f d bs c rest) ∧
    (∀ d bs xs rest, parseElems f d bs = some (xs, rest) → xs ≠ [] ∧ SkipE f d bs xs rest) ∧
    (∀ d bs ms rest, parseMembers f d bs = some (ms, rest) → ms ≠ [] ∧ SkipM f d bs ms rest) :=
  parse_ind (PV := SkipV) (PE := SkipE) (PM := SkipM)
    (fun f d cs r hd hs => skip_obj0 f d cs r hd hs)
    (fun f d cs ms rest hd hs _ hp ih => skip_obj f d cs ms rest hd hs hp ih)
    (fun f d cs r hd hs => skip_arr_any (f + 1) d cs [] r hd)
    (fun f d cs xs rest hd hs _ hp ih => skip_arr_any (f + 1) d cs xs rest hd)
    (fun f d cs b rest h => skip_str f d cs b rest h)
    (fun f d w rest hw => skip_word f d w rest hw)
    (fun f d c cs l rest hc hp => skip_num f d c cs l rest hc hp)
    (fun f d bs x r r' hv ih h93 => True.intro)
    (fun f d bs x r r' xs rest hv ih h44 _ hp ihE => True.intro)
    (fun f d cs k r r1 v r2 r3 hk h58 hv ih h125 => skip_mlast f d cs k r r1 v r2 r3 hk h58 hv ih h125)
    (fun f d cs k r r1 v r2 r3 ms rest hk h58 hv ih h44 _ hp ihM =>
      skip_mmore f d cs k r r1 v r2 r3 ms rest hk h58 hv ih h44 hp ihM)
    f

end TDec
end Codec
end JP
