import JP.Spec.Rfc7396

/-!
# The shape of the RFC 7396 composition law (specification level)

Stated in a file that imports the specification only, so that it can be *used* by the legacy
development (`JP/Props/C19.lean`, which builds on the `Equal*` / `MergeImpl*` lemma family) and
*proved* from `JP/Props/C07spec.lean` (`JP/Props/C19law.lean`, which builds on the `Eqv*` /
`MergeLaws*` family); the two families cannot be imported into one module.
-/

namespace JP
namespace Legacy

/-- one combined patch = applying both in succession, up to member order -/
def ComposeLaw : Prop :=
  ∀ P1 P2 D : Value, P1.noDup = true → P2.noDup = true → D.noDup = true →
    Spec.compatible P1 P2 = true →
    Value.eqv (Spec.merge (Spec.merge D P1) P2) (Spec.merge D (Spec.compose P1 P2)) = true

end Legacy
end JP
