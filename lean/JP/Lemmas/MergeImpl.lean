import JP.Lemmas.MergeImplBasic
import JP.Spec.Rfc7396

/-!
# `pruneC`, `mergeNC`, `mergeDocsC` against RFC 7396 `Spec.merge` (C02)

With duplicate-free member names on both sides the implementation computes the specification
*exactly* (ordered equality of the denoted values): the model visits the patch's map entries
in order of first appearance, which is the order `Spec.mergeMs` uses.
-/

namespace JP
open Value

namespace Spec

theorem merge_nonobj (t p : Value) (h : ∀ ms, p ≠ .obj ms) : merge t p = p := by
  cases p <;> simp [merge] at *

theorem merge_obj_of_nonobj (t : Value) (ps : Members) (h : ∀ ms, t ≠ .obj ms) :
    merge t (.obj ps) = merge .null (.obj ps) := by
  cases t <;> simp [merge] at *

theorem mergeMs_cons_null_E (ts : Members) (k : Bytes) (p : Value) (ps : Members) (h : p.isNull = true) :
    mergeMs ts ((k, p) :: ps) = mergeMs (erase k ts) ps := by
  cases p <;> simp [mergeMs, isNull] at *

theorem mergeMs_cons_nonnull (ts : Members) (k : Bytes) (p : Value) (ps : Members) (h : p.isNull = false) :
    mergeMs ts ((k, p) :: ps) = mergeMs (Value.set k (merge ((lookup k ts).getD .null) p) ts) ps := by
  cases p <;> simp [mergeMs, isNull] at *

/-- `MergePatch(null, {…})` member-wise: null members dropped, the others merged into null -/
def pruneV : Members → Members
  | [] => []
  | (k, p) :: ps => if p.isNull then pruneV ps else (k, merge .null p) :: pruneV ps

/-- merging duplicate-free members, none of which is present in the target, appends them -/
theorem mergeMs_fresh : ∀ (ps ts : Members), (ts.map Prod.fst ++ ps.map Prod.fst).Nodup →
    mergeMs ts ps = ts ++ pruneV ps
  | [], ts, _ => by simp [mergeMs, pruneV]
  | (k, p) :: ps, ts, h => by
    simp only [List.map_cons] at h
    have hk : k ∉ ts.map Prod.fst := by
      have := (List.nodup_append.mp h).2.2
      intro hm
      exact this _ hm _ (by simp) rfl
    cases hp : p.isNull with
    | true =>
      rw [mergeMs_cons_null_E ts k p ps hp, erase_of_not_mem k ts hk]
      simp only [pruneV, hp, if_true]
      apply mergeMs_fresh ps ts
      refine List.Nodup.sublist ?_ h
      exact List.Sublist.append (List.Sublist.refl _) (List.Sublist.cons _ (List.Sublist.refl _))
    | false =>
      rw [mergeMs_cons_nonnull ts k p ps hp, (lookup_eq_none_iff_E k ts).mpr hk,
        set_of_not_mem k _ ts hk]
      simp only [pruneV, hp, Option.getD_none]
      rw [mergeMs_fresh ps (ts ++ [(k, merge .null p)]) (by simpa using h)]
      simp

end Spec

namespace Impl
open Cst

theorem isNull_valueOf (c : Cst) : (valueOf c).isNull = c.isNullLit := by
  rw [← valueOf_eq_null_iff]
  cases valueOf c <;> rfl

/-! ### `pruneC` -/

theorem keys_pruneCM : ∀ (ms : List (Bytes × Cst)), (pruneCM ms).map Prod.fst = (valueOfM ms).map Prod.fst
  | [] => by simp [pruneCM, valueOfM]
  | (k, v) :: ms => by simp [pruneCM, valueOfM, keys_pruneCM ms]

theorem foldl_setN_fresh : ∀ (ms acc : NMembers), (acc.map Prod.fst ++ ms.map Prod.fst).Nodup →
    ms.foldl (fun acc m => setN m.1 m.2 acc) acc = acc ++ ms
  | [], acc, _ => by simp
  | (k, n) :: ms, acc, h => by
    simp only [List.map_cons] at h
    have hk : k ∉ acc.map Prod.fst := by
      have := (List.nodup_append.mp h).2.2
      intro hm
      exact this _ hm _ (by simp) rfl
    simp only [List.foldl_cons]
    rw [setN_of_not_mem k n acc hk, foldl_setN_fresh ms _ (by simpa using h)]
    simp

theorem pruneC_obj_form (ms : List (Bytes × Cst)) : ∃ ks ob, pruneC (.obj ms) = .doc ks ob := by
  simp only [pruneC]
  exact ⟨_, _, rfl⟩

theorem isNil_pruneC (c : Cst) : isNil (pruneC c) = false := by
  cases c with
  | obj ms => obtain ⟨ks, ob, h⟩ := pruneC_obj_form ms; rw [h]; rfl
  | lit s => simp [pruneC, isNil]
  | str s => simp [pruneC, isNil]
  | arr xs => simp [pruneC, isNil]

/-- the closed form of `pruneC` on an object with duplicate-free names -/
theorem pruneC_obj_eq (ms : List (Bytes × Cst)) (h : nodupKeys ((valueOfM ms).map Prod.fst) = true) :
    pruneC (.obj ms) = .doc ((dropNil (pruneCM ms)).map Prod.fst) (dropNil (pruneCM ms)) := by
  have hnd : ((pruneCM ms).map Prod.fst).Nodup := by
    rw [keys_pruneCM]; exact (nodupKeys_iff _).mp h
  simp only [pruneC]
  rw [foldl_setN_fresh (pruneCM ms) [] (by simpa using hnd)]
  simp only [List.nil_append]
  rw [dropNilEntries_self _ hnd]

mutual
theorem pruneC_den : ∀ (c : Cst), noDup (valueOf c) = true →
    WF (pruneC c) = true ∧ den (pruneC c) = Spec.merge .null (valueOf c)
  | .lit s, h => by
    refine ⟨by simpa [pruneC, WF] using h, ?_⟩
    rw [Spec.merge_nonobj _ _ (by simpa [valueOf] using (litValue_not_container s).2.2)]
    simp [pruneC, den]
  | .str s, h => by
    refine ⟨by simpa [pruneC, WF] using h, ?_⟩
    simp [pruneC, den, valueOf, Spec.merge]
  | .arr xs, h => by
    refine ⟨by simpa [pruneC, WF] using h, ?_⟩
    simp [pruneC, den, valueOf, Spec.merge]
  | .obj ms, h => by
    simp only [valueOf, noDup, Bool.and_eq_true] at h
    have ⟨ih1, ih2⟩ := pruneCM_den ms h.2
    have hnd : ((pruneCM ms).map Prod.fst).Nodup := by
      rw [keys_pruneCM]; exact (nodupKeys_iff _).mp h.1
    have hnd2 : nodupKeys ((dropNil (pruneCM ms)).map Prod.fst) = true := by
      rw [nodupKeys_iff]
      exact List.Nodup.sublist (List.Sublist.map _ (dropNil_sublist _)) hnd
    rw [pruneC_obj_eq ms h.1]
    refine ⟨(WF_doc_iff _ _).mpr ⟨rfl, hnd2, ih1⟩, ?_⟩
    rw [den_doc_wf _ _ rfl hnd2, ih2]
    simp only [valueOf, Spec.merge]
    rw [Spec.mergeMs_fresh _ [] (by simpa using (nodupKeys_iff _).mp h.1)]
    simp
theorem pruneCM_den : ∀ (ms : List (Bytes × Cst)), noDupM (valueOfM ms) = true →
    WFM (dropNil (pruneCM ms)) = true ∧ denM (dropNil (pruneCM ms)) = Spec.pruneV (valueOfM ms)
  | [], _ => ⟨rfl, rfl⟩
  | (k, v) :: ms, h => by
    simp only [valueOfM, noDupM, Bool.and_eq_true] at h
    have ⟨ih1, ih2⟩ := pruneCM_den ms h.2
    cases hv : v.isNullLit with
    | true =>
      simp only [pruneCM, hv, if_true, dropNil, isNil, valueOfM, Spec.pruneV, isNull_valueOf]
      exact ⟨ih1, ih2⟩
    | false =>
      have ⟨hc1, hc2⟩ := pruneC_den v h.1
      simp only [pruneCM, hv, dropNil, isNil_pruneC, valueOfM, Spec.pruneV, isNull_valueOf,
        Bool.false_eq_true, if_false, WFM, denM, Bool.and_eq_true]
      exact ⟨⟨hc1, ih1⟩, by rw [hc2, ih2]⟩
end

/-! ### `intoDoc`, and equations for `mergeNC` / `mergeDocsC` -/

theorem intoDoc_cases (cur : Node) (hw : WF cur = true) :
    (∃ keys ob, intoDoc cur = .ok (.doc keys ob) ∧ WF (.doc keys ob) = true ∧
        den (.doc keys ob) = den cur) ∨
    ((∀ keys ob, intoDoc cur ≠ .ok (.doc keys ob)) ∧ (∀ ms, den cur ≠ .obj ms)) := by
  cases cur with
  | nil => right; simp [intoDoc, den]
  | raw c =>
    cases c with
    | lit s =>
      right; refine ⟨by simp [intoDoc], ?_⟩
      simpa [den, valueOf] using (litValue_not_container s).2.2
    | str s => right; simp [intoDoc, den, valueOf]
    | arr xs => right; simp [intoDoc, den, valueOf]
    | obj ms =>
      left
      simp only [WF] at hw
      have h1 := hw
      simp only [valueOf, noDup, Bool.and_eq_true] at h1
      refine ⟨(childM ms).map Prod.fst, childM ms, ?_, ?_, ?_⟩
      · simp only [intoDoc]; rw [decodeDoc_eq ms h1.1]
      · rw [← decodeDoc_eq ms h1.1]; exact WF_decodeDoc ms hw
      · rw [← decodeDoc_eq ms h1.1, den_decodeDoc ms hw]; rfl
  | doc keys ob => left; exact ⟨keys, ob, rfl, hw, rfl⟩
  | ary ns => right; simp [intoDoc, den]
  | docNil => simp [WF] at hw
  | nilAry => simp [WF] at hw

theorem mergeNC_obj_of_doc (mm : Bool) (cur : Node) (pms : List (Bytes × Cst)) (keys : List Bytes)
    (ob : NMembers) (h : intoDoc cur = .ok (.doc keys ob)) :
    mergeNC mm cur (.obj pms) =
      .doc (mergeDocsC mm keys ob pms).1 (mergeDocsC mm keys ob pms).2 := by
  simp only [mergeNC, h]

theorem mergeNC_obj_of_not (mm : Bool) (cur : Node) (pms : List (Bytes × Cst))
    (h : ∀ keys ob, intoDoc cur ≠ .ok (.doc keys ob)) :
    mergeNC mm cur (.obj pms) = pruneC (.obj pms) := by
  simp only [mergeNC]

theorem mergeNC_lit (mm : Bool) (cur : Node) (s : Bytes) : mergeNC mm cur (.lit s) = .raw (.lit s) := by
  simp only [mergeNC, pruneC]; split <;> rfl

theorem mergeNC_str (mm : Bool) (cur : Node) (s : Bytes) : mergeNC mm cur (.str s) = .raw (.str s) := by
  simp only [mergeNC, pruneC]; split <;> rfl

theorem mergeNC_arr (mm : Bool) (cur : Node) (xs : List Cst) : mergeNC mm cur (.arr xs) = .raw (.arr xs) := by
  simp only [mergeNC, pruneC]; split <;> rfl

/-- one iteration of the loop in `mergeDocs` -/
def mergeStep (mm : Bool) (keys : List Bytes) (ob : NMembers) (k : Bytes) (v : Cst) : List Bytes × NMembers :=
  if v.isNullLit then
    if mm then docSetNil keys ob (unquote k) else docRemoveIgnore keys ob (unquote k)
  else
    match lookupN (unquote k) ob with
    | none => docSet' keys ob (unquote k) (if mm then .raw v else pruneC v)
    | some .nil => docSet' keys ob (unquote k) (if mm then .raw v else pruneC v)
    | some cur => docSet' keys ob (unquote k) (mergeNC mm cur v)

theorem mergeDocsC_cons (mm : Bool) (keys : List Bytes) (ob : NMembers) (k : Bytes) (v : Cst)
    (pms : List (Bytes × Cst)) :
    mergeDocsC mm keys ob ((k, v) :: pms) =
      if isShadowed k pms then mergeDocsC mm keys ob pms
      else mergeDocsC mm (mergeStep mm keys ob k v).1 (mergeStep mm keys ob k v).2 pms := by
  simp only [mergeDocsC, mergeStep]
  split
  · rfl
  · rfl

theorem mergeStep_null (mm : Bool) (keys : List Bytes) (ob : NMembers) (k : Bytes) (v : Cst)
    (hv : v.isNullLit = true) :
    mergeStep mm keys ob k v =
      if mm then docSetNil keys ob (unquote k) else docRemoveIgnore keys ob (unquote k) := by
  simp only [mergeStep, hv, if_true]

theorem mergeStep_absent (mm : Bool) (keys : List Bytes) (ob : NMembers) (k : Bytes) (v : Cst)
    (hv : v.isNullLit = false)
    (hl : lookupN (unquote k) ob = none ∨ lookupN (unquote k) ob = some .nil) :
    mergeStep mm keys ob k v = docSet' keys ob (unquote k) (if mm then .raw v else pruneC v) := by
  cases hl with
  | inl hl => simp only [mergeStep, hv, hl, Bool.false_eq_true, if_false]
  | inr hl => simp only [mergeStep, hv, hl, Bool.false_eq_true, if_false]

theorem mergeStep_some (mm : Bool) (keys : List Bytes) (ob : NMembers) (k : Bytes) (v : Cst)
    (c : Node) (hv : v.isNullLit = false) (hl : lookupN (unquote k) ob = some c)
    (hc : isNil c = false) :
    mergeStep mm keys ob k v = docSet' keys ob (unquote k) (mergeNC mm c v) := by
  cases c with
  | nil => simp [isNil] at hc
  | raw x => simp only [mergeStep, hv, hl, Bool.false_eq_true, if_false]
  | doc ks ms => simp only [mergeStep, hv, hl, Bool.false_eq_true, if_false]
  | ary ns => simp only [mergeStep, hv, hl, Bool.false_eq_true, if_false]
  | docNil => simp only [mergeStep, hv, hl, Bool.false_eq_true, if_false]
  | nilAry => simp only [mergeStep, hv, hl, Bool.false_eq_true, if_false]

theorem den_of_isNil (c : Node) (h : isNil c = true) : den c = .null := by
  cases c <;> simp [isNil] at h; rfl

/-! ### the main induction -/

mutual
theorem mergeNC_den : ∀ (p : Cst) (cur : Node), WF cur = true → noDup (valueOf p) = true →
    WF (mergeNC false cur p) = true ∧ den (mergeNC false cur p) = Spec.merge (den cur) (valueOf p)
  | .lit s, cur, _, hp => by
    rw [mergeNC_lit]
    refine ⟨by simpa [WF] using hp, ?_⟩
    rw [Spec.merge_nonobj _ _ (by simpa [valueOf] using (litValue_not_container s).2.2)]
    rfl
  | .str s, cur, _, hp => by
    rw [mergeNC_str]
    exact ⟨by simpa [WF] using hp, by simp [den, valueOf, Spec.merge]⟩
  | .arr xs, cur, _, hp => by
    rw [mergeNC_arr]
    exact ⟨by simpa [WF] using hp, by simp [den, valueOf, Spec.merge]⟩
  | .obj pms, cur, hc, hp => by
    rcases intoDoc_cases cur hc with ⟨keys, ob, hi, hw, hd⟩ | ⟨hi, hd⟩
    · rw [mergeNC_obj_of_doc false cur pms keys ob hi]
      have hp' := hp
      simp only [valueOf, noDup, Bool.and_eq_true] at hp'
      have ⟨r1, r2⟩ := mergeDocsC_den pms keys ob hw hp'.1 hp'.2
      refine ⟨r1, ?_⟩
      have ⟨a1, a2, _⟩ := (WF_doc_iff _ _).mp r1
      have ⟨b1, b2, _⟩ := (WF_doc_iff _ _).mp hw
      rw [den_doc_wf _ _ a1 a2, r2, ← hd, den_doc_wf _ _ b1 b2]
      simp [valueOf, Spec.merge]
    · rw [mergeNC_obj_of_not false cur pms hi]
      have ⟨r1, r2⟩ := pruneC_den (.obj pms) hp
      refine ⟨r1, ?_⟩
      rw [r2]
      simp only [valueOf]
      rw [Spec.merge_obj_of_nonobj (den cur) _ hd]
theorem mergeDocsC_den : ∀ (pms : List (Bytes × Cst)) (keys : List Bytes) (ob : NMembers),
    WF (.doc keys ob) = true → nodupKeys ((valueOfM pms).map Prod.fst) = true →
    noDupM (valueOfM pms) = true →
    WF (.doc (mergeDocsC false keys ob pms).1 (mergeDocsC false keys ob pms).2) = true ∧
    denM (mergeDocsC false keys ob pms).2 = Spec.mergeMs (denM ob) (valueOfM pms)
  | [], keys, ob, hw, _, _ => by
    simp only [mergeDocsC, valueOfM, Spec.mergeMs]
    exact ⟨hw, trivial⟩
  | (k, v) :: pms, keys, ob, hw, hk, hd => by
    have hsh : isShadowed k pms = false := hasKeyC_false_of_nodup k v pms hk
    simp only [valueOfM, List.map_cons] at hk
    have hk2 := ((nodupKeys_cons _ _).mp hk).2
    simp only [valueOfM, noDupM, Bool.and_eq_true] at hd
    have ⟨_, _, hwm⟩ := (WF_doc_iff _ _).mp hw
    rw [mergeDocsC_cons, hsh]
    simp only [Bool.false_eq_true, if_false, valueOfM]
    -- one step
    have hstep : WF (.doc (mergeStep false keys ob k v).1 (mergeStep false keys ob k v).2) = true ∧
        Spec.mergeMs (denM (mergeStep false keys ob k v).2) (valueOfM pms) =
          Spec.mergeMs (denM ob) ((unquote k, valueOf v) :: valueOfM pms) := by
      cases hv : v.isNullLit with
      | true =>
        rw [mergeStep_null false keys ob k v hv]
        simp only [Bool.false_eq_true, if_false]
        have ⟨s1, s2⟩ := docRemoveIgnore_inv keys ob (unquote k) hw
        refine ⟨s1, ?_⟩
        rw [Spec.mergeMs_cons_null_E _ _ _ _ (by rw [isNull_valueOf]; exact hv), s2]
      | false =>
        have hnn : (valueOf v).isNull = false := by rw [isNull_valueOf]; exact hv
        rw [Spec.mergeMs_cons_nonnull _ _ _ _ hnn]
        have hlk := lookupN_den (unquote k) ob
        cases hl : lookupN (unquote k) ob with
        | none =>
          rw [mergeStep_absent false keys ob k v hv (Or.inl hl)]
          simp only [Bool.false_eq_true, if_false]
          have ⟨c1, c2⟩ := pruneC_den v hd.1
          have ⟨s1, s2⟩ := docSet'_inv keys ob (unquote k) _ hw c1
          refine ⟨s1, ?_⟩
          rw [hl] at hlk
          simp only [Option.map_none] at hlk
          rw [s2, c2, ← hlk]; rfl
        | some c =>
          rw [hl] at hlk
          simp only [Option.map_some] at hlk
          cases hn : isNil c with
          | true =>
            have hcn : c = .nil := by cases c <;> simp [isNil] at hn; rfl
            rw [mergeStep_absent false keys ob k v hv (Or.inr (hcn ▸ hl))]
            simp only [Bool.false_eq_true, if_false]
            have ⟨c1, c2⟩ := pruneC_den v hd.1
            have ⟨s1, s2⟩ := docSet'_inv keys ob (unquote k) _ hw c1
            refine ⟨s1, ?_⟩
            rw [s2, c2, ← hlk, hcn]; rfl
          | false =>
            rw [mergeStep_some false keys ob k v c hv hl hn]
            have hwc := WF_of_lookupN (unquote k) c ob hwm hl
            have ⟨c1, c2⟩ := mergeNC_den v c hwc hd.1
            have ⟨s1, s2⟩ := docSet'_inv keys ob (unquote k) _ hw c1
            refine ⟨s1, ?_⟩
            rw [s2, c2, ← hlk]; rfl
    have ⟨r1, r2⟩ := mergeDocsC_den pms _ _ hstep.1 hk2 hd.2
    exact ⟨r1, by rw [r2, hstep.2]⟩
end

end Impl
end JP
