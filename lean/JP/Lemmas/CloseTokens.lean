import JP.Lemmas.CloseApply

/-!
# Closing the text hypotheses, part 7: reference tokens of a decoded `path` are valid UTF-8

`op.path` of a decoded operation is `unquote b` for a valid body `b`, hence valid UTF-8
(`unquote_utf8`).  Splitting at `/` (an ASCII byte) and replacing `~1`, `~0` (ASCII for ASCII)
keeps validity, so every reference token is valid UTF-8 and `QK` holds for it: the hypothesis
`TokensUtf8` of the byte-level theorems follows from `decodePatch patch = .ok ops`.
-/

namespace JP

/-! ### cutting valid UTF-8 at an ASCII byte -/

theorem decodeRune_of_prefix (c : UInt8) (rest X : Bytes) (hc : 0x80 ≤ c.toNat)
    (hok : runeOk (c :: (rest ++ X))) (hX : ∀ x, X.head? = some x → x.toNat < 0x80) :
    (decodeRune (c :: (rest ++ X))).2 ≤ (c :: rest).length ∧
      decodeRune (c :: rest) = decodeRune (c :: (rest ++ X)) := by
  obtain ⟨_, _, hle, hdec⟩ := encodeRune_decodeRune c (rest ++ X) hok
  have hhigh := rune_bytes_high c (rest ++ X) hc
  generalize hm : (decodeRune (c :: (rest ++ X))).2 = m at *
  have hlen : m ≤ (c :: rest).length := by
    rcases Nat.lt_or_ge (c :: rest).length m with hgt | hge
    case inr => exact hge
    exfalso
    cases X with
    | nil => simp only [List.append_nil] at hle; omega
    | cons x X' =>
      have hx := hX x rfl
      have hidx : (c :: rest).length < ((c :: (rest ++ x :: X')).take m).length := by
        simp only [List.length_take, List.length_cons, List.length_append] at hle hgt ⊢
        omega
      have hmem : ((c :: (rest ++ x :: X')).take m)[(c :: rest).length]'hidx ∈ (c :: (rest ++ x :: X')).take m :=
        List.getElem_mem _
      have hval : ((c :: (rest ++ x :: X')).take m)[(c :: rest).length]'hidx = x := by
        rw [List.getElem_take]
        have : c :: (rest ++ x :: X') = (c :: rest) ++ x :: X' := rfl
        simp only [this]
        rw [List.getElem_append_right (by simp)]
        simp
      rw [hval] at hmem
      have := hhigh x hmem
      omega
  refine ⟨hlen, ?_⟩
  have htake : (c :: (rest ++ X)).take m = (c :: rest).take m := by
    have : c :: (rest ++ X) = (c :: rest) ++ X := rfl
    rw [this, List.take_append_of_le_length hlen]
  have := hdec ((c :: rest).drop m)
  rw [htake, List.take_append_drop] at this
  exact this

/-- valid UTF-8 cut at an ASCII byte: both sides are valid -/
theorem isValidUtf8_split (s : UInt8) (hs : s.toNat < 0x80) (b : Bytes) :
    ∀ a : Bytes, isValidUtf8 (a ++ s :: b) = true → isValidUtf8 a = true ∧ isValidUtf8 b = true := by
  intro a
  induction a using rune_induction with
  | nil =>
    intro h
    rw [List.nil_append, isValidUtf8_ascii_cons s b hs] at h
    exact ⟨rfl, h⟩
  | cons c rest ih =>
    intro h
    by_cases hc : c.toNat < 0x80
    · rw [List.cons_append, isValidUtf8_ascii_cons c _ hc] at h
      have hd : (decodeRune (c :: rest)).2 = 1 := by rw [decodeRune_one c rest hc]
      rw [hd] at ih
      simp only [List.drop_succ_cons, List.drop_zero] at ih
      obtain ⟨h1, h2⟩ := ih h
      exact ⟨by rw [isValidUtf8_ascii_cons c rest hc]; exact h1, h2⟩
    · have hc' : 0x80 ≤ c.toNat := by omega
      rw [List.cons_append, isValidUtf8_cons] at h
      split at h
      · cases h
      · rename_i hok
        obtain ⟨hlen, heq⟩ := decodeRune_of_prefix c rest (s :: b) hc' hok
          (by intro x hx; simp only [List.head?_cons, Option.some.injEq] at hx; subst hx; exact hs)
        rw [← heq] at h hok
        have hdrop : (c :: (rest ++ s :: b)).drop (decodeRune (c :: rest)).2 =
            (c :: rest).drop (decodeRune (c :: rest)).2 ++ s :: b := by
          have : c :: (rest ++ s :: b) = (c :: rest) ++ s :: b := rfl
          rw [this, List.drop_append_of_le_length (by rw [heq]; exact hlen)]
        rw [hdrop] at h
        obtain ⟨h1, h2⟩ := ih h
        refine ⟨?_, h2⟩
        rw [isValidUtf8_cons, if_neg hok]
        exact h1

/-! ### the pieces between slashes -/

theorem splitOnSlash_cases : ∀ (x : Bytes) (p : Bytes) (ps : List Bytes), Spec.splitOnSlash x = p :: ps →
    (ps = [] ∧ x = p) ∨ (∃ x', x = p ++ 47 :: x' ∧ Spec.splitOnSlash x' = ps)
  | [], p, ps, h => by
    simp only [Spec.splitOnSlash, List.cons.injEq] at h
    exact Or.inl ⟨h.2.symm, h.1⟩
  | c :: cs, p, ps, h => by
    simp only [Spec.splitOnSlash] at h
    cases hs : Spec.splitOnSlash cs with
    | nil =>
      rw [hs] at h
      simp only [List.cons.injEq] at h
      -- `splitOnSlash` never returns `[]`
      exfalso
      have : ∀ y : Bytes, Spec.splitOnSlash y ≠ [] := by
        intro y
        cases y with
        | nil => simp [Spec.splitOnSlash]
        | cons a as =>
          simp only [Spec.splitOnSlash]
          cases Spec.splitOnSlash as with
          | nil => simp
          | cons q qs => simp only; split <;> simp
      exact this cs hs
    | cons q qs =>
      rw [hs] at h
      simp only at h
      by_cases hc : c = 47
      · simp only [hc, if_true, List.cons.injEq] at h
        obtain ⟨rfl, rfl⟩ := h
        exact Or.inr ⟨cs, by simp [hc], hs⟩
      · simp only [hc, if_false, List.cons.injEq] at h
        obtain ⟨rfl, rfl⟩ := h
        rcases splitOnSlash_cases cs q qs hs with ⟨rfl, rfl⟩ | ⟨x', rfl, hx'⟩
        · exact Or.inl ⟨rfl, rfl⟩
        · exact Or.inr ⟨x', rfl, hx'⟩

theorem splitOnSlash_utf8 : ∀ (n : Nat) (x : Bytes), x.length ≤ n → isValidUtf8 x = true →
    ∀ p ∈ Spec.splitOnSlash x, isValidUtf8 p = true := by
  intro n
  induction n with
  | zero =>
    intro x hx _ p hp
    have : x = [] := List.length_eq_zero_iff.1 (by omega)
    subst this
    simp only [Spec.splitOnSlash, List.mem_singleton] at hp
    subst hp; rfl
  | succ n ih =>
    intro x hx hv p hp
    cases hs : Spec.splitOnSlash x with
    | nil => rw [hs] at hp; cases hp
    | cons q qs =>
      rw [hs] at hp
      rcases splitOnSlash_cases x q qs hs with ⟨rfl, rfl⟩ | ⟨x', rfl, hx'⟩
      · simp only [List.mem_singleton] at hp; subst hp; exact hv
      · obtain ⟨h1, h2⟩ := isValidUtf8_split 47 (by decide) x' q hv
        simp only [List.mem_cons] at hp
        rcases hp with rfl | hp
        · exact h1
        · rw [← hx'] at hp
          exact ih x' (by simp only [List.length_append, List.length_cons] at hx; omega) h2 p hp

/-! ### `~0`, `~1` -/

theorem decodeTok_high : ∀ (T X : Bytes), (∀ x ∈ T, 0x80 ≤ x.toNat) → Spec.decodeTok (T ++ X) = T ++ Spec.decodeTok X
  | [], X, _ => rfl
  | a :: T, X, h => by
    have ha : a ≠ 126 := by
      intro h126
      have := h a (by simp)
      rw [h126] at this
      revert this; decide
    have ih := decodeTok_high T X (fun x hx => h x (by simp [hx]))
    cases hTX : T ++ X with
    | nil =>
      have hT : T = [] := (List.append_eq_nil_iff.1 hTX).1
      have hX : X = [] := (List.append_eq_nil_iff.1 hTX).2
      subst hT; subst hX
      rfl
    | cons b r =>
      rw [List.cons_append, hTX]
      simp only [Spec.decodeTok, ha, false_and, if_false]
      rw [← hTX, ih]
      rfl

theorem decodeTok_utf8 : ∀ (n : Nat) (t : Bytes), t.length ≤ n → isValidUtf8 t = true →
    isValidUtf8 (Spec.decodeTok t) = true := by
  intro n
  induction n with
  | zero =>
    intro t ht _
    have : t = [] := List.length_eq_zero_iff.1 (by omega)
    subst this; rfl
  | succ n ih =>
    intro t ht hv
    cases t with
    | nil => rfl
    | cons c rest =>
      simp only [List.length_cons] at ht
      by_cases hc : c.toNat < 0x80
      · rw [isValidUtf8_ascii_cons c rest hc] at hv
        cases rest with
        | nil => simp only [Spec.decodeTok]; rw [isValidUtf8_ascii_cons c [] hc]; rfl
        | cons b r =>
          simp only [List.length_cons] at ht
          simp only [Spec.decodeTok]
          split
          · rename_i h1
            have hb : b.toNat < 0x80 := by rw [h1.2]; decide
            rw [isValidUtf8_ascii_cons b r hb] at hv
            rw [isValidUtf8_ascii_cons 47 _ (by decide)]
            exact ih r (by omega) hv
          · split
            · rename_i h1
              have hb : b.toNat < 0x80 := by rw [h1.2]; decide
              rw [isValidUtf8_ascii_cons b r hb] at hv
              rw [isValidUtf8_ascii_cons 126 _ (by decide)]
              exact ih r (by omega) hv
            · rw [isValidUtf8_ascii_cons c _ hc]
              exact ih (b :: r) (by simp only [List.length_cons]; omega) hv
      · have hc' : 0x80 ≤ c.toNat := by omega
        rw [isValidUtf8_cons] at hv
        split at hv
        · cases hv
        · rename_i hok
          have hsz := decodeRune_size_pos c rest
          have hhigh := rune_bytes_high c rest hc'
          have hsplit : c :: rest = (c :: rest).take (decodeRune (c :: rest)).2 ++
              (c :: rest).drop (decodeRune (c :: rest)).2 := (List.take_append_drop _ _).symm
          rw [hsplit, decodeTok_high _ _ hhigh, isValidUtf8_rune c rest _ hok]
          exact ih _ (by simp only [List.length_drop, List.length_cons]; omega) hv

/-- the reference tokens of a valid-UTF-8 pointer are valid UTF-8 -/
theorem parsePointer_utf8 (p : Bytes) (toks : List Bytes) (hp : Spec.parsePointer p = some toks)
    (hv : isValidUtf8 p = true) : ∀ t ∈ toks, isValidUtf8 t = true := by
  cases p with
  | nil => simp only [Spec.parsePointer, Option.some.injEq] at hp; subst hp; simp
  | cons c cs =>
    simp only [Spec.parsePointer] at hp
    split at hp
    · cases hp
    · rename_i hc
      simp only [ne_eq, Decidable.not_not] at hc
      subst hc
      simp only [Option.some.injEq] at hp
      subst hp
      rw [isValidUtf8_ascii_cons 47 cs (by decide)] at hv
      intro t ht
      obtain ⟨q, hq, rfl⟩ := List.mem_map.1 ht
      exact decodeTok_utf8 _ q (Nat.le_refl _) (splitOnSlash_utf8 _ cs (Nat.le_refl _) hv q hq)

namespace Impl

/-- **the reference tokens of a decoded operation's `path` are valid UTF-8** -/
theorem OpFacts.tokens {op : Op} (h : OpFacts op) (toks : List Bytes)
    (hp : Spec.parsePointer op.path = some toks) : ∀ t ∈ toks, isValidUtf8 t = true := by
  obtain ⟨b, hb, hpath⟩ := h.path
  exact parsePointer_utf8 op.path toks hp (by rw [hpath]; exact unquote_utf8 b ((validBody_eq_true_iff b).1 hb))

end Impl
end JP
