import JP.Lemmas.EqvLaws
import JP.Spec.Rfc7396

/-!
# RFC 7396 `merge`: equations, the lookup characterisation of `mergeMs`, preservation of `noDup`
-/

namespace JP
namespace Spec
open Value

/-- the members of an object, nothing for any other value -/
def mems : Value → Members
  | .obj ts => ts
  | _ => []

@[simp] theorem mems_obj (ts : Members) : mems (.obj ts) = ts := rfl

theorem mems_of_not_obj {t : Value} (h : t.isObj = false) : mems t = [] := by
  cases t <;> simp [mems, isObj] at h ⊢

theorem nodupKeys_mems {t : Value} (h : noDup t = true) : nodupKeys ((mems t).map Prod.fst) = true := by
  cases t <;> simp [mems, nodupKeys]
  exact ((noDup_obj _).1 h).1

theorem noDupM_mems {t : Value} (h : noDup t = true) : noDupM (mems t) = true := by
  cases t <;> simp [mems, noDupM]
  exact ((noDup_obj _).1 h).2

theorem noDup_getD_lookup {ts : Members} (h : noDupM ts = true) (k : Bytes) :
    noDup ((lookup k ts).getD .null) = true := by
  cases hl : lookup k ts with
  | none => rfl
  | some v => exact noDup_of_lookup h hl

/-! ### equations -/

theorem merge_obj (t : Value) (ps : Members) : merge t (.obj ps) = .obj (mergeMs (mems t) ps) := by
  cases t <;> simp only [merge, mems]

theorem merge_of_not_obj (t : Value) {p : Value} (h : p.isObj = false) : merge t p = p := by
  cases p <;> simp [merge, isObj] at h ⊢

theorem mergeMs_nil (ts : Members) : mergeMs ts [] = ts := by simp only [mergeMs]

theorem mergeMs_cons_null (ts : Members) (k : Bytes) (ps : Members) :
    mergeMs ts ((k, .null) :: ps) = mergeMs (erase k ts) ps := by simp only [mergeMs]

theorem mergeMs_cons_of_ne_null (ts : Members) (k : Bytes) {p : Value} (h : p ≠ .null) (ps : Members) :
    mergeMs ts ((k, p) :: ps) = mergeMs (set k (merge ((lookup k ts).getD .null) p) ts) ps := by
  cases p <;> simp only [mergeMs] <;> exact absurd rfl h

theorem isNull_iff (v : Value) : v.isNull = true ↔ v = .null := by
  cases v <;> simp [isNull]

theorem isNull_false_iff (v : Value) : v.isNull = false ↔ v ≠ .null := by
  cases v <;> simp [isNull]

/-! ### lookup characterisation -/

/-- what a patch member does to a target member -/
def mergeOpt (t : Option Value) : Option Value → Option Value
  | none => t
  | some p => if p.isNull then none else some (merge (t.getD .null) p)

@[simp] theorem mergeOpt_none (t : Option Value) : mergeOpt t none = t := rfl
@[simp] theorem mergeOpt_null (t : Option Value) : mergeOpt t (some .null) = none := rfl
theorem mergeOpt_of_ne_null (t : Option Value) {p : Value} (h : p ≠ .null) :
    mergeOpt t (some p) = some (merge (t.getD .null) p) := by
  simp [mergeOpt, (isNull_false_iff p).2 h]

/-- what the merged member list holds under each name (patch names duplicate-free) -/
theorem lookup_mergeMs (k : Bytes) : ∀ (ps : Members), nodupKeys (ps.map Prod.fst) = true →
    ∀ ts, lookup k (mergeMs ts ps) = mergeOpt (lookup k ts) (lookup k ps)
  | [], _, ts => by simp [mergeMs_nil, lookup]
  | (k', p') :: ps, hnd, ts => by
    rw [nodupKeys_members_cons] at hnd
    have ih := lookup_mergeMs k ps hnd.2
    by_cases hp : p' = .null
    · subst hp
      rw [mergeMs_cons_null, ih]
      by_cases hk : k' = k
      · subst hk; rw [lookup_cons_self, hnd.1, lookup_erase_eq]; rfl
      · rw [lookup_cons_ne hk, lookup_erase_ne hk]
    · rw [mergeMs_cons_of_ne_null _ _ hp, ih]
      by_cases hk : k' = k
      · subst hk
        rw [lookup_cons_self, hnd.1, lookup_set_eq, mergeOpt_of_ne_null _ hp]; rfl
      · rw [lookup_cons_ne hk, lookup_set_ne hk]

/-! ### preservation of duplicate-freeness -/

theorem nodupKeys_mergeMs : ∀ (ps ts : Members), nodupKeys (ts.map Prod.fst) = true →
    nodupKeys ((mergeMs ts ps).map Prod.fst) = true
  | [], ts, h => by rw [mergeMs_nil]; exact h
  | (k, p) :: ps, ts, h => by
    by_cases hp : p = .null
    · subst hp; rw [mergeMs_cons_null]; exact nodupKeys_mergeMs ps _ (nodupKeys_erase k ts h)
    · rw [mergeMs_cons_of_ne_null _ _ hp]; exact nodupKeys_mergeMs ps _ (nodupKeys_set k _ ts h)

theorem noDupM_mergeMs_of : ∀ (ps ts : Members),
    (∀ k p, (k, p) ∈ ps → ∀ t, noDup t = true → noDup (merge t p) = true) →
    noDupM ts = true → noDupM (mergeMs ts ps) = true
  | [], ts, _, h => by rw [mergeMs_nil]; exact h
  | (k, p) :: ps, ts, ih, h => by
    have ih' : ∀ k p, (k, p) ∈ ps → ∀ t, noDup t = true → noDup (merge t p) = true :=
      fun k' p' hm => ih k' p' (List.mem_cons_of_mem _ hm)
    by_cases hp : p = .null
    · subst hp; rw [mergeMs_cons_null]; exact noDupM_mergeMs_of ps _ ih' (noDupM_erase k ts h)
    · rw [mergeMs_cons_of_ne_null _ _ hp]
      refine noDupM_mergeMs_of ps _ ih' (noDupM_set k _ ?_ ts h)
      exact ih k p List.mem_cons_self _ (noDup_getD_lookup h k)

theorem noDup_merge : ∀ p : Value, ∀ t : Value, noDup t = true → noDup p = true → noDup (merge t p) = true := by
  apply ind
  · intro t _ _; rfl
  · intro b t _ _; rfl
  · intro l t _ _; rfl
  · intro s t _ _; rfl
  · intro xs _ t _ hp; rw [merge_of_not_obj t rfl]; exact hp
  · intro ps ih t ht hp
    rw [merge_obj, noDup_obj]
    rw [noDup_obj] at hp
    refine ⟨nodupKeys_mergeMs ps _ (nodupKeys_mems ht), noDupM_mergeMs_of ps _ ?_ (noDupM_mems ht)⟩
    intro k p hm t' ht'
    exact ih k p hm t' ht' ((noDupM_iff ps).1 hp.2 k p hm)

theorem noDup_mergeOpt {t p : Option Value} (ht : ∀ v, t = some v → noDup v = true)
    (hp : ∀ v, p = some v → noDup v = true) : ∀ v, mergeOpt t p = some v → noDup v = true := by
  intro v hv
  cases p with
  | none => exact ht v hv
  | some pv =>
    by_cases hn : pv = .null
    · subst hn; simp at hv
    · rw [mergeOpt_of_ne_null _ hn] at hv
      cases hv
      refine noDup_merge pv _ ?_ (hp pv rfl)
      cases t with
      | none => rfl
      | some tv => exact ht tv rfl

theorem optEqv_refl {o : Option Value} (h : ∀ v, o = some v → noDup v = true) : optEqv o o = true := by
  cases o with
  | none => rfl
  | some v => exact eqv_refl v (h v rfl)

end Spec
end JP
