import JP.Lemmas.EnsureSpec

/-!
# EnsurePathExistsOnAdd, part 9: reference tokens are decoded as everywhere else

`Spec.applyOp` hands `ensureAdd` the tokens `Spec.parsePointer` produces, i.e. decoded by
`Spec.decodeTok` (`~1` ↦ `/`, `~0` ↦ `~`) like for every other operation.  `pointerOf` is the
RFC 6901 spelling of a list of names; parsing it gives the names back.
-/

namespace JP
namespace Ens

open Impl
open Spec (Res)

/-- the JSON pointer that addresses the member names / indices `toks` (RFC 6901 escaping) -/
def pointerOf : List Bytes → Bytes
  | [] => []
  | t :: ts => 47 :: (encodeToken t ++ pointerOf ts)

theorem decodeTok_encodeToken : ∀ t : Bytes, Spec.decodeTok (encodeToken t) = t
  | [] => rfl
  | c :: cs => by
    have ih := decodeTok_encodeToken cs
    by_cases h1 : c = 126
    · subst h1
      simp [encodeToken, Spec.decodeTok, ih]
    · by_cases h2 : c = 47
      · subst h2
        simp [encodeToken, Spec.decodeTok, ih]
      · simp only [encodeToken, h1, h2, if_false]
        cases he : encodeToken cs with
        | nil =>
          rw [he] at ih
          simp only [Spec.decodeTok] at ih ⊢
          rw [← ih]
        | cons b r =>
          rw [he] at ih
          simp only [Spec.decodeTok, h1, false_and, if_false, ih]

theorem encodeToken_no_slash : ∀ t : Bytes, (47 : UInt8) ∉ encodeToken t
  | [] => by simp [encodeToken]
  | c :: cs => by
    have ih := encodeToken_no_slash cs
    simp only [encodeToken]
    split
    · simp only [List.mem_cons, not_or]; exact ⟨by decide, by decide, ih⟩
    · split
      · simp only [List.mem_cons, not_or]; exact ⟨by decide, by decide, ih⟩
      · next h2 => simp only [List.mem_cons, not_or]; exact ⟨fun h => h2 h.symm, ih⟩

theorem encodeToken_ne_nil {t : Bytes} (h : t ≠ []) : encodeToken t ≠ [] := by
  cases t with
  | nil => exact absurd rfl h
  | cons c cs =>
    simp only [encodeToken]
    split
    · simp
    · split <;> simp

theorem splitOnSlash_ne_nil (b : Bytes) : Spec.splitOnSlash b ≠ [] := by
  rw [splitOnSlash_eq]; exact splitSlash_ne_nil b

theorem splitOnSlash_no_slash : ∀ s : Bytes, (47 : UInt8) ∉ s → Spec.splitOnSlash s = [s]
  | [], _ => rfl
  | c :: cs, h => by
    simp only [List.mem_cons, not_or] at h
    simp only [Spec.splitOnSlash, splitOnSlash_no_slash cs h.2]
    rw [if_neg (fun hc => h.1 hc.symm)]

theorem splitOnSlash_append : ∀ (s rest : Bytes), (47 : UInt8) ∉ s →
    Spec.splitOnSlash (s ++ 47 :: rest) = s :: Spec.splitOnSlash rest
  | [], rest, _ => by
    simp only [List.nil_append, Spec.splitOnSlash]
    cases h : Spec.splitOnSlash rest with
    | nil => exact absurd h (splitOnSlash_ne_nil rest)
    | cons p ps => simp
  | c :: cs, rest, h => by
    simp only [List.mem_cons, not_or] at h
    simp only [List.cons_append, Spec.splitOnSlash, splitOnSlash_append cs rest h.2]
    rw [if_neg (fun hc => h.1 hc.symm)]

theorem splitOnSlash_pointer : ∀ (ts : List Bytes) (t : Bytes),
    Spec.splitOnSlash (encodeToken t ++ pointerOf ts) = encodeToken t :: ts.map encodeToken
  | [], t => by
    simp only [pointerOf, List.append_nil, List.map_nil]
    exact splitOnSlash_no_slash _ (encodeToken_no_slash t)
  | t2 :: ts, t => by
    simp only [pointerOf, List.map_cons]
    rw [splitOnSlash_append _ _ (encodeToken_no_slash t), splitOnSlash_pointer ts t2]

/-- parsing the escaped spelling gives the names back -/
theorem parsePointer_pointerOf (toks : List Bytes) :
    Spec.parsePointer (pointerOf toks) = some toks := by
  cases toks with
  | nil => rfl
  | cons t ts =>
    simp only [pointerOf, Spec.parsePointer, ne_eq, not_true_eq_false, if_false]
    rw [splitOnSlash_pointer]
    simp only [Option.some.injEq]
    rw [← List.map_cons, List.map_map]
    conv => rhs; rw [← List.map_id (t :: ts)]
    apply List.map_congr_left
    intro x _
    exact decodeTok_encodeToken x

/-! ### the navigation looks at the options only through `neg` -/

theorem atParent_congr {α} (o o' : Spec.Opts) (h : o.neg = o'.neg) (f : Value → Bytes → Res (Value × α)) :
    ∀ (toks : List Bytes) (v : Value), Spec.atParent o f v toks = Spec.atParent o' f v toks
  | [], _ => by simp only [Spec.atParent]
  | [t], v => by cases v <;> simp only [Spec.atParent]
  | t :: t2 :: ts, v => by
    cases v with
    | obj ms =>
      simp only [Spec.atParent]
      cases Value.lookup t ms with
      | none => rfl
      | some child => simp only []; rw [atParent_congr o o' h f (t2 :: ts) child]
    | arr xs =>
      simp only [Spec.atParent, h]
      cases Spec.readIdx o'.neg xs.length t with
      | unspec => rfl
      | bad => rfl
      | «at» i =>
        simp only []
        cases xs[i]? with
        | none => rfl
        | some child => simp only []; rw [atParent_congr o o' h f (t2 :: ts) child]
    | null => simp only [Spec.atParent]
    | bool b => simp only [Spec.atParent]
    | num l => simp only [Spec.atParent]
    | str s => simp only [Spec.atParent]

theorem addIn_congr (o o' : Spec.Opts) (h : o.neg = o'.neg) : Spec.addIn o = Spec.addIn o' := by
  funext v p t; simp only [Spec.addIn, h]

/-- `add` with the option, for any pointer of the domain: `ensureAdd` on the tokens that
`parsePointer` decodes -/
theorem applyOp_add_ensure (o : Spec.Opts) (he : o.ensure = true) (size acc : Nat) (d v : Value)
    (path : Bytes) (toks : List Bytes) (hp : Spec.parsePointer path = some toks) (hne : toks ≠ []) :
    Spec.applyOp o size acc d { kind := .add, path := path, value := some v } =
      (Spec.ensureAdd o v d toks).bind fun d' => .ok (d', acc) := by
  cases toks with
  | nil => exact absurd rfl hne
  | cons t ts => simp only [Spec.applyOp, hp, he, if_true]

/-- **tokens are decoded as everywhere else**: an `add` (with the option) at the pointer that
spells the names `toks` with `~1` for `/` and `~0` for `~` puts the value at the unescaped names -/
theorem tokens_decoded (o : Spec.Opts) (he : o.ensure = true) (size acc : Nat) (d v : Value)
    (toks : List Bytes) (hne : toks ≠ []) (d' : Value) (acc' : Nat)
    (hok : Spec.applyOp o size acc d { kind := .add, path := pointerOf toks, value := some v } = .ok (d', acc')) :
    resolveAdded o d' toks = some v := by
  rw [applyOp_add_ensure o he size acc d v _ toks (parsePointer_pointerOf toks) hne] at hok
  obtain ⟨d1, h1, h2⟩ := Spec.Res.bind_eq_ok.1 hok
  cases h2
  exact found_at_path o v toks d d' h1

end Ens
end JP
