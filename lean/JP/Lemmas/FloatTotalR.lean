import JP.Lemmas.FloatClamp

/-!
# `roundRat` depends only on the value of the fraction, `roundDec` only on the value of the decimal

`roundRat bits (N * t) (D * t) = roundRat bits N D` and `roundDec bits (c * 10^z) e = roundDec bits c (e + z)`.
The exponent chosen by `pickQ` uses `Nat.log2`, which is not invariant under scaling; it is invariant because
the exponent is DETERMINED by the property `pickQ_spec` (uniqueness: one exponent lower doubles the quotient).
-/

namespace JP
namespace Codec
namespace Float

/-- scaling numerator and denominator scales both components of `scaled` -/
theorem scaled_scale (N D t : Nat) (q : Int) :
    scaled (N * t) (D * t) q = ((scaled N D q).1 * t, (scaled N D q).2 * t) := by
  unfold scaled
  by_cases h0 : q ≥ 0
  · simp only [h0, if_true]
    congr 1
    simp only [Nat.mul_assoc, Nat.mul_comm, Nat.mul_left_comm]
  · simp only [h0, if_false]
    congr 1
    simp only [Nat.mul_assoc, Nat.mul_comm, Nat.mul_left_comm]

/-- the integer part of `N / D / 2^q` -/
def quo (N D : Nat) (q : Int) : Nat := (scaled N D q).1 / (scaled N D q).2

theorem quo_scale (N D t : Nat) (ht : 0 < t) (q : Int) : quo (N * t) (D * t) q = quo N D q := by
  unfold quo
  rw [scaled_scale]
  exact Nat.mul_div_mul_right _ _ ht

/-- one exponent lower at least doubles the quotient (mirror of `scaled_pred_lt`) -/
theorem scaled_pred_ge (N D : Nat) (hD : 0 < D) (q : Int) (K : Nat)
    (h : K ≤ quo N D q) : 2 * K ≤ quo N D (q - 1) := by
  unfold quo at *
  have hb := scaled_snd_pos N D hD q
  have hb' := scaled_snd_pos N D hD (q - 1)
  have he := scaled_pred N D q
  generalize (scaled N D q).1 = a at *
  generalize (scaled N D q).2 = b at *
  generalize (scaled N D (q - 1)).1 = a' at *
  generalize (scaled N D (q - 1)).2 = b' at *
  have h1 : K * b ≤ a := (Nat.le_div_iff_mul_le hb).1 h
  apply (Nat.le_div_iff_mul_le hb').2
  have h2 : 2 * K * b' * b ≤ a' * b := by
    rw [he]
    calc 2 * K * b' * b = 2 * (K * b) * b' := by
          simp only [Nat.mul_assoc, Nat.mul_comm, Nat.mul_left_comm]
      _ ≤ 2 * a * b' := by
          apply Nat.mul_le_mul_right
          omega
  exact Nat.le_of_mul_le_mul_right h2 hb

theorem quo_pred_le (N D : Nat) (hD : 0 < D) (q : Int) : quo N D q ≤ quo N D (q - 1) := by
  have := scaled_pred_ge N D hD q (quo N D q) (Nat.le_refl _)
  omega

theorem quo_sub_le (N D : Nat) (hD : 0 < D) (q : Int) (n : Nat) :
    quo N D q ≤ quo N D (q - (n : Int)) := by
  induction n with
  | zero => simp
  | succ n ih =>
    have h := quo_pred_le N D hD (q - (n : Int))
    have e : q - ((n + 1 : Nat) : Int) = q - (n : Int) - 1 := by omega
    rw [e]
    exact Nat.le_trans ih h

/-- the quotient decreases when the exponent grows -/
theorem quo_antitone (N D : Nat) (hD : 0 < D) (q q' : Int) (h : q ≤ q') : quo N D q' ≤ quo N D q := by
  have e : q = q' - ((q' - q).toNat : Int) := by omega
  rw [e]
  exact quo_sub_le N D hD q' _

/-- the property that determines the exponent of the last place -/
def IsExp (bits N D : Nat) (q : Int) : Prop :=
  (1 : Int) - ((bias bits + mantBits bits : Nat) : Int) ≤ q ∧
  quo N D q < 2 ^ (mantBits bits + 1) ∧
  (2 ^ mantBits bits ≤ quo N D q ∨ q = 1 - ((bias bits + mantBits bits : Nat) : Int))

theorem pickQ_isExp (bits N D : Nat) (hN : 0 < N) (hD : 0 < D) : IsExp bits N D (pickQ bits N D) :=
  ⟨pickQ_ge bits N D, (pickQ_spec bits N D hN hD).1, (pickQ_spec bits N D hN hD).2⟩

theorem isExp_not_lt (bits N D : Nat) (hD : 0 < D) (q q' : Int)
    (h : IsExp bits N D q) (h' : IsExp bits N D q') : ¬ q < q' := by
  intro hlt
  obtain ⟨hge, hU, _⟩ := h
  obtain ⟨_, _, hL'⟩ := h'
  have hL : 2 ^ mantBits bits ≤ quo N D q' := by
    rcases hL' with h | h
    · exact h
    · omega
  have h1 := scaled_pred_ge N D hD q' _ hL
  have h2 := quo_antitone N D hD q (q' - 1) (by omega)
  have hpow : 2 ^ (mantBits bits + 1) = 2 * 2 ^ mantBits bits := by rw [Nat.pow_succ]; omega
  omega

/-- the exponent of the last place is unique -/
theorem isExp_unique (bits N D : Nat) (hD : 0 < D) (q q' : Int)
    (h : IsExp bits N D q) (h' : IsExp bits N D q') : q = q' := by
  have h1 := isExp_not_lt bits N D hD q q' h h'
  have h2 := isExp_not_lt bits N D hD q' q h' h
  omega

theorem isExp_scale (bits N D t : Nat) (ht : 0 < t) (q : Int) (h : IsExp bits (N * t) (D * t) q) :
    IsExp bits N D q := by
  unfold IsExp at *
  rw [quo_scale N D t ht q] at h
  exact h

theorem pickQ_scale (bits N D t : Nat) (hN : 0 < N) (hD : 0 < D) (ht : 0 < t) :
    pickQ bits (N * t) (D * t) = pickQ bits N D :=
  isExp_unique bits N D hD _ _
    (isExp_scale bits N D t ht _ (pickQ_isExp bits (N * t) (D * t) (Nat.mul_pos hN ht) (Nat.mul_pos hD ht)))
    (pickQ_isExp bits N D hN hD)

theorem nearestEven_scale (a b t : Nat) (ht : 0 < t) : nearestEven (a * t) (b * t) = nearestEven a b := by
  unfold nearestEven
  rw [Nat.mul_div_mul_right _ _ ht, Nat.mul_mod_mul_right]
  generalize a % b = r
  have e1 : (b * t < 2 * (r * t)) = (b < 2 * r) := by
    apply propext
    rw [← Nat.mul_assoc]
    exact ⟨fun h => Nat.lt_of_mul_lt_mul_right h, fun h => Nat.mul_lt_mul_of_pos_right h ht⟩
  have e2 : (2 * (r * t) = b * t) = (2 * r = b) := by
    apply propext
    rw [← Nat.mul_assoc]
    exact ⟨fun h => Nat.eq_of_mul_eq_mul_right ht h, fun h => by rw [h]⟩
  simp only [e1, e2]

/-- `roundRat` depends only on the value of the fraction -/
theorem roundRat_scale (bits N D t : Nat) (hN : 0 < N) (hD : 0 < D) (ht : 0 < t) :
    roundRat bits (N * t) (D * t) = roundRat bits N D := by
  rw [roundRat_eq, roundRat_eq, pickQ_scale bits N D t hN hD ht, scaled_scale]
  simp only
  rw [nearestEven_scale _ _ t ht]

/-- `roundDec` depends only on the value of the decimal: digits moved between coefficient and exponent -/
theorem roundDec_shift (bits c z : Nat) (e : Int) (hc : c ≠ 0) :
    roundDec bits (c * 10 ^ z) e = roundDec bits c (e + (z : Int)) := by
  have hp10 : ∀ k : Nat, 0 < 10 ^ k := fun k => Nat.pos_of_ne_zero (by simp)
  have hcp : 0 < c := Nat.pos_of_ne_zero hc
  have hcz : c * 10 ^ z ≠ 0 := Nat.ne_of_gt (Nat.mul_pos hcp (hp10 z))
  rw [roundDec_eq_roundRat bits _ e hcz, roundDec_eq_roundRat bits c _ hc]
  by_cases he : e ≥ 0
  · have he' : e + (z : Int) ≥ 0 := by omega
    rw [if_pos he, if_pos he']
    have : (e + (z : Int)).toNat = z + e.toNat := by omega
    rw [this, Nat.pow_add, Nat.mul_assoc]
  · rw [if_neg he]
    by_cases he' : e + (z : Int) ≥ 0
    · rw [if_pos he']
      have hz : z = (e + (z : Int)).toNat + (-e).toNat := by omega
      have e1 : c * 10 ^ z = (c * 10 ^ (e + (z : Int)).toNat) * 10 ^ (-e).toNat := by
        rw [Nat.mul_assoc, ← Nat.pow_add, ← hz]
      have e2 : 10 ^ (-e).toNat = 1 * 10 ^ (-e).toNat := (Nat.one_mul _).symm
      rw [e1]
      conv => lhs; arg 3; rw [e2]
      exact roundRat_scale bits _ 1 _ (Nat.mul_pos hcp (hp10 _)) (by omega) (hp10 _)
    · rw [if_neg he']
      have hz : (-e).toNat = (-(e + (z : Int))).toNat + z := by omega
      rw [hz, Nat.pow_add]
      exact roundRat_scale bits c _ _ hcp (hp10 _) (hp10 _)

end Float
end Codec
end JP
