import JP.Lemmas.EngineBasic

/-!
# Engine lemmas, part 2: decoding one level, printing (`cstOf`), `deepParse`
-/

namespace JP
namespace Impl

/-! ### list forms on the `Cst` / `Value` side -/

theorem valueOfL_eq_map (xs : List Cst) : Cst.valueOfL xs = xs.map Cst.valueOf := by
  induction xs with
  | nil => simp [Cst.valueOfL]
  | cons x xs ih => simp [Cst.valueOfL, ih]

theorem valueOfM_eq_map (ms : List (Bytes × Cst)) :
    Cst.valueOfM ms = ms.map fun m => (unquote m.1, Cst.valueOf m.2) := by
  induction ms with
  | nil => simp [Cst.valueOfM]
  | cons m ms ih => obtain ⟨k, v⟩ := m; simp [Cst.valueOfM, ih]

theorem valueOfM_keys (ms : List (Bytes × Cst)) : (Cst.valueOfM ms).map Prod.fst = decodeKeys ms := by
  simp [valueOfM_eq_map, decodeKeys]

theorem noDupL_iff (xs : List Value) : Value.noDupL xs = true ↔ ∀ x ∈ xs, Value.noDup x = true := by
  induction xs with
  | nil => simp [Value.noDupL]
  | cons x xs ih => simp [Value.noDupL, ih]

theorem noDupM_iff (ms : Value.Members) : Value.noDupM ms = true ↔ ∀ m ∈ ms, Value.noDup m.2 = true := by
  induction ms with
  | nil => simp [Value.noDupM]
  | cons m ms ih => obtain ⟨k, v⟩ := m; simp [Value.noDupM, ih]

theorem CstOKL_iff (e : Bool) (xs : List Cst) : CstOKL e xs = true ↔ ∀ x ∈ xs, CstOK e x = true := by
  induction xs with
  | nil => simp [CstOKL]
  | cons x xs ih => simp [CstOKL, ih]

theorem CstOKM_iff (e : Bool) (ms : List (Bytes × Cst)) :
    CstOKM e ms = true ↔
      ∀ m ∈ ms, EscOK e m.1 = true ∧ QK e (unquote m.1) = true ∧ CstOK e m.2 = true := by
  induction ms with
  | nil => simp [CstOKM]
  | cons m ms ih => obtain ⟨k, v⟩ := m; simp [CstOKM, ih, and_assoc]

/-! ### children of a raw message -/

theorem isNullLit_valueOf (c : Cst) : c.isNullLit = true ↔ c.valueOf = .null := by
  cases c with
  | lit s =>
    simp only [Cst.isNullLit, Cst.valueOf, Cst.litValue, beq_iff_eq]
    constructor
    · intro h; simp [h]
    · intro h
      split at h
      · assumption
      · split at h
        · cases h
        · split at h <;> cases h
  | str b => simp [Cst.isNullLit, Cst.valueOf]
  | arr xs => simp [Cst.isNullLit, Cst.valueOf]
  | obj ms => simp [Cst.isNullLit, Cst.valueOf]

theorem den_childOf (c : Cst) : den (childOf c) = c.valueOf := by
  simp only [childOf]
  split
  · next h => simp [den, (isNullLit_valueOf c).1 h]
  · simp [den]

theorem Inv_childOf {e : Bool} {c : Cst} (h1 : c.valueOf.noDup = true) (h2 : CstOK e c = true) :
    Inv e (childOf c) := by
  simp only [childOf]
  split
  · exact Inv_nil e
  · exact (Inv_raw e c).2 ⟨h1, h2⟩

theorem decodeMembers_eq (ms : List (Bytes × Cst)) (acc : NMembers)
    (h : (acc.map Prod.fst ++ decodeKeys ms).Nodup) :
    decodeMembers ms acc = acc ++ ms.map (fun m => (unquote m.1, childOf m.2)) := by
  induction ms generalizing acc with
  | nil => simp [decodeMembers]
  | cons m ms ih =>
    obtain ⟨k, v⟩ := m
    simp only [decodeMembers]
    have hk : unquote k ∉ acc.map Prod.fst := by
      intro hmem
      simp only [decodeKeys, List.map_cons] at h
      rw [List.nodup_append] at h
      exact h.2.2 _ hmem _ (List.mem_cons_self) rfl
    rw [setN_append_of_not_mem _ _ _ hk, ih]
    · simp
    · simp only [decodeKeys, List.map_cons, List.map_append, List.map_nil] at h ⊢
      simpa using h

theorem decodeMembers_nil (ms : List (Bytes × Cst)) (h : (decodeKeys ms).Nodup) :
    decodeMembers ms [] = ms.map (fun m => (unquote m.1, childOf m.2)) := by
  have := decodeMembers_eq ms [] (by simpa using h)
  simpa using this

theorem noDup_obj {ms : List (Bytes × Cst)} (h : (Cst.obj ms).valueOf.noDup = true) :
    (decodeKeys ms).Nodup ∧ ∀ m ∈ ms, m.2.valueOf.noDup = true := by
  simp only [Cst.valueOf, Value.noDup, Bool.and_eq_true, valueOfM_keys, nodupKeys_iff, noDupM_iff] at h
  refine ⟨h.1, ?_⟩
  intro m hm
  apply h.2 (unquote m.1, m.2.valueOf)
  rw [valueOfM_eq_map]
  exact List.mem_map_of_mem hm

theorem noDup_arr {xs : List Cst} (h : (Cst.arr xs).valueOf.noDup = true) :
    ∀ x ∈ xs, x.valueOf.noDup = true := by
  simp only [Cst.valueOf, Value.noDup, noDupL_iff, valueOfL_eq_map] at h
  intro x hx
  exact h _ (List.mem_map_of_mem hx)

theorem Inv_decodeDoc {e : Bool} {ms : List (Bytes × Cst)} (h : Inv e (.raw (.obj ms))) :
    Inv e (decodeDoc ms) := by
  rw [Inv_raw] at h
  obtain ⟨h1, h2⟩ := h
  obtain ⟨hk, hv⟩ := noDup_obj h1
  simp only [CstOK, CstOKM_iff] at h2
  simp only [decodeDoc]
  rw [Inv_doc, decodeMembers_nil ms hk]
  refine ⟨by simp [decodeKeys], (nodupKeys_iff _).2 hk, ?_⟩
  intro kn hkn
  simp only [List.mem_map] at hkn
  obtain ⟨m, hm, rfl⟩ := hkn
  exact ⟨(h2 m hm).2.1, Inv_childOf (hv m hm) (h2 m hm).2.2⟩

theorem den_decodeDoc {e : Bool} {ms : List (Bytes × Cst)} (h : Inv e (.raw (.obj ms))) :
    den (decodeDoc ms) = (Cst.obj ms).valueOf := by
  have h' := Inv_decodeDoc h
  simp only [decodeDoc] at h' ⊢
  rw [den_doc_inv h']
  rw [Inv_raw] at h
  rw [decodeMembers_nil ms (noDup_obj h.1).1]
  simp [Cst.valueOf, denM_eq_map, valueOfM_eq_map, den_childOf]

theorem Inv_decodeAry {e : Bool} {xs : List Cst} (h : Inv e (.raw (.arr xs))) :
    Inv e (decodeAry xs) := by
  rw [Inv_raw] at h
  obtain ⟨h1, h2⟩ := h
  simp only [CstOK, CstOKL_iff] at h2
  simp only [decodeAry]
  rw [Inv_ary]
  intro n hn
  simp only [List.mem_map] at hn
  obtain ⟨x, hx, rfl⟩ := hn
  exact Inv_childOf (noDup_arr h1 x hx) (h2 x hx)

theorem den_decodeAry (xs : List Cst) : den (decodeAry xs) = (Cst.arr xs).valueOf := by
  simp [decodeAry, den, denL_eq_map, Cst.valueOf, valueOfL_eq_map, den_childOf]

/-! ### `intoContainer` -/

theorem isContainer_obj (ms : Value.Members) : (Value.obj ms).isContainer = true := by
  simp [Value.isContainer, Value.isObj]
theorem isContainer_arr (xs : List Value) : (Value.arr xs).isContainer = true := by
  simp [Value.isContainer, Value.isArr]

theorem litValue_isContainer_false (s : Bytes) : (Cst.litValue s).isContainer = false := by
  simp only [Cst.litValue]
  split
  · rfl
  · split
    · rfl
    · split <;> rfl

/-- entering a child: succeeds exactly on containers, keeps the value, parses one level -/
theorem intoContainer_spec {e : Bool} {n : Node} (h : Inv e n) :
    if (den n).isContainer then
      ∃ child, intoContainer n = .ok child ∧ Inv e child ∧ isCon child = true ∧ den child = den n
    else (isNil n = true ∨ ∃ err, intoContainer n = .err err) := by
  cases n with
  | nil => simp [den, Value.isContainer, Value.isObj, Value.isArr, isNil]
  | raw c =>
    cases c with
    | lit s =>
      have : (den (.raw (.lit s))).isContainer = false := by
        simp [den, Cst.valueOf, litValue_isContainer_false]
      rw [this]
      simp [intoContainer, rawIsArray, Cst.isArr, intoDoc]
    | str b =>
      simp [den, Cst.valueOf, Value.isContainer, Value.isObj, Value.isArr, intoContainer, rawIsArray,
        Cst.isArr, intoDoc]
    | arr xs =>
      have : (den (.raw (.arr xs))).isContainer = true := by
        simp [den, Cst.valueOf, isContainer_arr]
      rw [this]
      simp only [if_true]
      refine ⟨decodeAry xs, by simp [intoContainer, rawIsArray, Cst.isArr, intoAry], Inv_decodeAry h,
        by simp [decodeAry, isCon], ?_⟩
      rw [den_decodeAry]; simp [den]
    | obj ms =>
      have : (den (.raw (.obj ms))).isContainer = true := by
        simp [den, Cst.valueOf, isContainer_obj]
      rw [this]
      simp only [if_true]
      refine ⟨decodeDoc ms, by simp [intoContainer, rawIsArray, Cst.isArr, intoDoc], Inv_decodeDoc h,
        by simp [decodeDoc, isCon], ?_⟩
      rw [den_decodeDoc h]; simp [den]
  | doc keys obj =>
    rw [den_doc_inv h]
    simp only [isContainer_obj, if_true]
    exact ⟨.doc keys obj, by simp [intoContainer, rawIsArray, intoDoc], h, rfl, den_doc_inv h⟩
  | ary ns =>
    rw [den_ary]
    simp only [isContainer_arr, if_true]
    exact ⟨.ary ns, by simp [intoContainer, rawIsArray, intoAry], h, rfl, den_ary ns⟩
  | docNil => exact absurd h (Inv_docNil e)
  | nilAry => exact absurd h (Inv_nilAry e)

/-- a parsed container denotes an object or an array -/
theorem den_isContainer {e : Bool} {n : Node} (h : Inv e n) (hc : isCon n = true) :
    (den n).isContainer = true := by
  cases n with
  | doc keys obj => rw [den_doc_inv h]; exact isContainer_obj _
  | ary ns => rw [den_ary]; exact isContainer_arr _
  | _ => simp [isCon] at hc

theorem isNil_den {n : Node} (h : isNil n = true) : den n = .null := by
  cases n <;> simp [isNil] at h
  simp [den]

/-! ### `den` of a well-formed node has no duplicate names -/

mutual
theorem den_noDup : ∀ n : Node, WF n = true → (den n).noDup = true
  | .nil, _ => by simp [den, Value.noDup]
  | .raw c, h => by simpa [den, WF] using h
  | .doc keys obj, h => by
    rw [den_doc_of_WF keys obj h]
    simp only [WF, Bool.and_eq_true, beq_iff_eq] at h
    simp only [Value.noDup, Bool.and_eq_true, denM_keys]
    exact ⟨by rw [← h.1.1]; exact h.1.2, denM_noDup obj h.2⟩
  | .ary ns, h => by
    simp only [WF] at h
    simp only [den, Value.noDup]
    exact denL_noDup ns h
  | .docNil, h => by simp [WF] at h
  | .nilAry, h => by simp [WF] at h
theorem denM_noDup : ∀ ms : NMembers, WFM ms = true → Value.noDupM (denM ms) = true
  | [], _ => by simp [denM, Value.noDupM]
  | (k, n) :: ms, h => by
    simp only [WFM, Bool.and_eq_true] at h
    simp only [denM, Value.noDupM, Bool.and_eq_true]
    exact ⟨den_noDup n h.1, denM_noDup ms h.2⟩
theorem denL_noDup : ∀ ns : List Node, WFL ns = true → Value.noDupL (denL ns) = true
  | [], _ => by simp [denL, Value.noDupL]
  | n :: ns, h => by
    simp only [WFL, Bool.and_eq_true] at h
    simp only [denL, Value.noDupL, Bool.and_eq_true]
    exact ⟨den_noDup n h.1, denL_noDup ns h.2⟩
end

/-! ### printing: `valueOf (cstOf e n) = den n` under the invariant -/

theorem EscOK_eq {e : Bool} {b : Bytes} (h : EscOK e b = true) :
    unquote (if e then escBody b else b) = unquote b := by
  simp only [EscOK, escB, Bool.and_eq_true, beq_iff_eq] at h
  exact h.1

/-- with EscapeHTML off `compact` leaves string bodies alone -/
theorem EscOK_false (b : Bytes) : EscOK false b = true := by simp [EscOK, escB]

theorem QK_eq {e : Bool} {k : Bytes} (h : QK e k = true) : unquote (quoteBody e k) = k := by
  simp only [QK, Bool.and_eq_true, beq_iff_eq] at h
  exact h.1

mutual
theorem valueOf_escape (e : Bool) : ∀ c : Cst, CstOK e c = true → (Cst.escape e c).valueOf = c.valueOf
  | .lit s, _ => by simp [Cst.escape]
  | .str b, h => by
    simp only [CstOK] at h
    simp only [Cst.escape, Cst.valueOf, EscOK_eq h]
  | .arr xs, h => by
    simp only [CstOK] at h
    simp only [Cst.escape, Cst.valueOf, valueOfL_escape e xs h]
  | .obj ms, h => by
    simp only [CstOK] at h
    simp only [Cst.escape, Cst.valueOf, valueOfM_escape e ms h]
theorem valueOfL_escape (e : Bool) :
    ∀ xs : List Cst, CstOKL e xs = true → Cst.valueOfL (Cst.escapeL e xs) = Cst.valueOfL xs
  | [], _ => by simp [Cst.escapeL]
  | x :: xs, h => by
    simp only [CstOKL, Bool.and_eq_true] at h
    simp only [Cst.escapeL, Cst.valueOfL, valueOf_escape e x h.1, valueOfL_escape e xs h.2]
theorem valueOfM_escape (e : Bool) :
    ∀ ms : List (Bytes × Cst), CstOKM e ms = true → Cst.valueOfM (Cst.escapeM e ms) = Cst.valueOfM ms
  | [], _ => by simp [Cst.escapeM]
  | (k, v) :: ms, h => by
    simp only [CstOKM, Bool.and_eq_true] at h
    simp only [Cst.escapeM, Cst.valueOfM, valueOf_escape e v h.1.2, valueOfM_escape e ms h.2,
      EscOK_eq h.1.1.1]
end

theorem cstOfM_keys (e : Bool) (obj : NMembers) : (cstOfM e obj).map Prod.fst = obj.map Prod.fst := by
  induction obj with
  | nil => simp [cstOfM]
  | cons m ms ih => obtain ⟨k, n⟩ := m; simp [cstOfM, ih]

theorem litNull_valueOf : litNull.valueOf = .null := by
  simp [litNull, Cst.valueOf, Cst.litValue]

mutual
theorem valueOf_cstOf (e : Bool) : ∀ n : Node, WF n = true → TX e n = true → (cstOf e n).valueOf = den n
  | .nil, _, _ => by simp [cstOf, den, litNull_valueOf]
  | .raw c, _, h2 => by
    simp only [TX] at h2
    simp only [cstOf, den, valueOf_escape e c h2]
  | .doc keys obj, h1, h2 => by
    rw [den_doc_of_WF keys obj h1]
    simp only [WF, Bool.and_eq_true, beq_iff_eq] at h1
    simp only [TX] at h2
    obtain ⟨⟨hk, hnd⟩, hwf⟩ := h1
    subst hk
    simp only [cstOf, Cst.valueOf]
    congr 1
    have := map_keys_lookup (β := Cst) (γ := Bytes × Cst) lookupC (by intro k k' b ms; rfl)
      (fun k o => (quoteBody e k, o.getD litNull)) (cstOfM e obj)
      (by rw [cstOfM_keys]; exact hnd)
    rw [cstOfM_keys] at this
    rw [this]
    exact valueOfM_cstOfM e obj hwf h2
  | .ary ns, h1, h2 => by
    simp only [WF] at h1
    simp only [TX] at h2
    simp only [cstOf, den, Cst.valueOf, valueOfL_cstOfL e ns h1 h2]
  | .docNil, h1, _ => by simp [WF] at h1
  | .nilAry, h1, _ => by simp [WF] at h1
theorem valueOfM_cstOfM (e : Bool) : ∀ obj : NMembers, WFM obj = true → TXM e obj = true →
    Cst.valueOfM ((cstOfM e obj).map fun kb => (quoteBody e kb.1, (some kb.2).getD litNull)) = denM obj
  | [], _, _ => by simp [cstOfM, denM, Cst.valueOfM]
  | (k, n) :: ms, h1, h2 => by
    simp only [WFM, Bool.and_eq_true] at h1
    simp only [TXM, Bool.and_eq_true] at h2
    have hq : unquote (quoteBody e k) = k := QK_eq h2.1.1
    simp only [cstOfM, List.map_cons, Cst.valueOfM, denM, Option.getD_some, hq,
      valueOf_cstOf e n h1.1 h2.1.2]
    congr 1
    exact valueOfM_cstOfM e ms h1.2 h2.2
theorem valueOfL_cstOfL (e : Bool) : ∀ ns : List Node, WFL ns = true → TXL e ns = true →
    Cst.valueOfL (cstOfL e ns) = denL ns
  | [], _, _ => by simp [cstOfL, denL, Cst.valueOfL]
  | n :: ns, h1, h2 => by
    simp only [WFL, Bool.and_eq_true] at h1
    simp only [TXL, Bool.and_eq_true] at h2
    simp only [cstOfL, Cst.valueOfL, denL, valueOf_cstOf e n h1.1 h2.1, valueOfL_cstOfL e ns h1.2 h2.2]
end

/-! ### the text invariant is closed under printing -/

theorem EscOK_escB {e : Bool} {b : Bytes} (h : EscOK e b = true) : EscOK e (escB e b) = true := by
  simp only [EscOK, Bool.and_eq_true, beq_iff_eq] at h ⊢
  exact ⟨by rw [h.2], by rw [h.2, h.2]⟩

theorem QK_unquote_escB {e : Bool} {b : Bytes} (h : EscOK e b = true) :
    QK e (unquote (escB e b)) = QK e (unquote b) := by
  simp only [EscOK, Bool.and_eq_true, beq_iff_eq] at h
  rw [h.1]

theorem EscOK_quoteBody {e : Bool} {k : Bytes} (h : QK e k = true) : EscOK e (quoteBody e k) = true := by
  simp only [QK, EscOK, Bool.and_eq_true, beq_iff_eq] at h ⊢
  exact ⟨by rw [h.2], by rw [h.2, h.2]⟩

theorem QK_unquote_quoteBody {e : Bool} {k : Bytes} (h : QK e k = true) :
    QK e (unquote (quoteBody e k)) = true := by
  rw [QK_eq h]; exact h

mutual
theorem CstOK_escape (e : Bool) : ∀ c : Cst, CstOK e c = true → CstOK e (Cst.escape e c) = true
  | .lit s, _ => by simp [Cst.escape, CstOK]
  | .str b, h => by
    simp only [CstOK] at h
    simpa [Cst.escape, CstOK, escB] using EscOK_escB h
  | .arr xs, h => by
    simp only [CstOK] at h
    simp only [Cst.escape, CstOK, CstOKL_escape e xs h]
  | .obj ms, h => by
    simp only [CstOK] at h
    simp only [Cst.escape, CstOK, CstOKM_escape e ms h]
theorem CstOKL_escape (e : Bool) : ∀ xs : List Cst, CstOKL e xs = true → CstOKL e (Cst.escapeL e xs) = true
  | [], _ => by simp [Cst.escapeL, CstOKL]
  | x :: xs, h => by
    simp only [CstOKL, Bool.and_eq_true] at h
    simp only [Cst.escapeL, CstOKL, CstOK_escape e x h.1, CstOKL_escape e xs h.2, Bool.and_self]
theorem CstOKM_escape (e : Bool) :
    ∀ ms : List (Bytes × Cst), CstOKM e ms = true → CstOKM e (Cst.escapeM e ms) = true
  | [], _ => by simp [Cst.escapeM, CstOKM]
  | (k, v) :: ms, h => by
    simp only [CstOKM, Bool.and_eq_true] at h
    have h1 := EscOK_escB h.1.1.1
    have h2 := QK_unquote_escB h.1.1.1
    simp only [escB] at h1 h2
    simp only [Cst.escapeM, CstOKM, CstOK_escape e v h.1.2, CstOKM_escape e ms h.2, h1, h2, h.1.1.2,
      Bool.and_self]
end

theorem CstOK_litNull (e : Bool) : CstOK e litNull = true := by simp [litNull, CstOK]

mutual
theorem CstOK_cstOf (e : Bool) : ∀ n : Node, WF n = true → TX e n = true → CstOK e (cstOf e n) = true
  | .nil, _, _ => by simp [cstOf, CstOK_litNull]
  | .raw c, _, h2 => by
    simp only [TX] at h2
    simp only [cstOf, CstOK_escape e c h2]
  | .doc keys obj, h1, h2 => by
    simp only [WF, Bool.and_eq_true, beq_iff_eq] at h1
    simp only [TX] at h2
    obtain ⟨⟨hk, hnd⟩, hwf⟩ := h1
    subst hk
    simp only [cstOf, CstOK]
    have := map_keys_lookup (β := Cst) (γ := Bytes × Cst) lookupC (by intro k k' b ms; rfl)
      (fun k o => (quoteBody e k, o.getD litNull)) (cstOfM e obj)
      (by rw [cstOfM_keys]; exact hnd)
    rw [cstOfM_keys] at this
    rw [this]
    exact CstOKM_cstOfM e obj hwf h2
  | .ary ns, h1, h2 => by
    simp only [WF] at h1
    simp only [TX] at h2
    simp only [cstOf, CstOK, CstOKL_cstOfL e ns h1 h2]
  | .docNil, _, _ => by simp [cstOf, CstOK_litNull]
  | .nilAry, _, _ => by simp [cstOf, CstOK_litNull]
theorem CstOKM_cstOfM (e : Bool) : ∀ obj : NMembers, WFM obj = true → TXM e obj = true →
    CstOKM e ((cstOfM e obj).map fun kb => (quoteBody e kb.1, (some kb.2).getD litNull)) = true
  | [], _, _ => by simp [cstOfM, CstOKM]
  | (k, n) :: ms, h1, h2 => by
    simp only [WFM, Bool.and_eq_true] at h1
    simp only [TXM, Bool.and_eq_true] at h2
    simp only [cstOfM, List.map_cons, CstOKM, Option.getD_some, EscOK_quoteBody h2.1.1,
      QK_unquote_quoteBody h2.1.1, CstOK_cstOf e n h1.1 h2.1.2, Bool.true_and]
    exact CstOKM_cstOfM e ms h1.2 h2.2
theorem CstOKL_cstOfL (e : Bool) : ∀ ns : List Node, WFL ns = true → TXL e ns = true →
    CstOKL e (cstOfL e ns) = true
  | [], _, _ => by simp [cstOfL, CstOKL]
  | n :: ns, h1, h2 => by
    simp only [WFL, Bool.and_eq_true] at h1
    simp only [TXL, Bool.and_eq_true] at h2
    simp only [cstOfL, CstOKL, CstOK_cstOf e n h1.1 h2.1, CstOKL_cstOfL e ns h1.2 h2.2, Bool.and_self]
end

/-- `deepCopy` makes a node with the same value that satisfies the invariant again -/
theorem deepCopy_spec {e : Bool} {n : Node} (h : Inv e n) :
    Inv e (deepCopy e n).1 ∧ den (deepCopy e n).1 = den n := by
  have key : Inv e (.raw (cstOf e n)) ∧ den (.raw (cstOf e n)) = den n := by
    refine ⟨(Inv_raw e _).2 ⟨?_, CstOK_cstOf e n h.1 h.2⟩, ?_⟩
    · rw [valueOf_cstOf e n h.1 h.2]; exact den_noDup n h.1
    · simp only [den]; exact valueOf_cstOf e n h.1 h.2
  cases n with
  | nil => exact ⟨Inv_nil e, rfl⟩
  | raw c => exact key
  | doc keys obj => exact key
  | ary ns => exact key
  | docNil => exact key
  | nilAry => exact key

/-! ### `deepParse` keeps the value and the invariants -/

theorem WFM_append (xs ys : NMembers) : WFM (xs ++ ys) = (WFM xs && WFM ys) := by
  induction xs with
  | nil => simp [WFM]
  | cons m ms ih => obtain ⟨k, n⟩ := m; simp [WFM, ih, Bool.and_assoc]

theorem TXM_append (e : Bool) (xs ys : NMembers) : TXM e (xs ++ ys) = (TXM e xs && TXM e ys) := by
  induction xs with
  | nil => simp [TXM]
  | cons m ms ih => obtain ⟨k, n⟩ := m; simp [TXM, ih, Bool.and_assoc]

theorem deepParseCM_keys (ms : List (Bytes × Cst)) (acc : NMembers)
    (h : (acc.map Prod.fst ++ decodeKeys ms).Nodup) :
    (deepParseCM ms acc).map Prod.fst = acc.map Prod.fst ++ decodeKeys ms := by
  induction ms generalizing acc with
  | nil => simp [deepParseCM, decodeKeys]
  | cons m ms ih =>
    obtain ⟨k, v⟩ := m
    have hk : unquote k ∉ acc.map Prod.fst := by
      intro hmem
      simp only [decodeKeys, List.map_cons] at h
      rw [List.nodup_append] at h
      exact h.2.2 _ hmem _ (List.mem_cons_self) rfl
    simp only [deepParseCM]
    rw [setN_append_of_not_mem _ _ _ hk, ih]
    · simp [decodeKeys]
    · simp only [decodeKeys, List.map_cons, List.map_append, List.map_nil] at h ⊢
      simpa using h

mutual
theorem deepParseC_spec (e : Bool) : ∀ c : Cst, c.valueOf.noDup = true → CstOK e c = true →
    den (deepParseC c) = c.valueOf ∧ WF (deepParseC c) = true ∧ TX e (deepParseC c) = true
  | .lit s, h1, h2 => by
    simp only [deepParseC]
    split
    · next hs => subst hs; simp [den, WF, TX, Cst.valueOf, Cst.litValue]
    · exact ⟨by simp [den], by simpa [WF] using h1, by simpa [TX] using h2⟩
  | .str b, h1, h2 => by
    simp only [deepParseC]
    exact ⟨by simp [den], by simpa [WF] using h1, by simpa [TX] using h2⟩
  | .arr xs, h1, h2 => by
    simp only [Cst.valueOf, Value.noDup] at h1
    simp only [CstOK] at h2
    obtain ⟨a, b, c⟩ := deepParseCL_spec e xs h1 h2
    simp only [deepParseC, den, WF, TX, Cst.valueOf, a, b, c, and_self]
  | .obj ms, h1, h2 => by
    have hk := (noDup_obj h1).1
    simp only [Cst.valueOf, Value.noDup, Bool.and_eq_true] at h1
    simp only [CstOK] at h2
    obtain ⟨a, b, c⟩ := deepParseCM_spec e ms [] h1.2 h2 (by simpa using hk)
    have hkeys := deepParseCM_keys ms [] (by simpa using hk)
    simp only [List.map_nil, List.nil_append] at hkeys
    have hwf : WF (deepParseC (.obj ms)) = true := by
      simp only [deepParseC, WF, Bool.and_eq_true, beq_iff_eq]
      exact ⟨⟨hkeys.symm, (nodupKeys_iff _).2 hk⟩, b (by simp [WFM])⟩
    refine ⟨?_, hwf, ?_⟩
    · simp only [deepParseC] at hwf ⊢
      rw [den_doc_of_WF _ _ hwf, a]
      simp [denM, Cst.valueOf]
    · simp only [deepParseC, TX]
      exact c (by simp [TXM])
theorem deepParseCL_spec (e : Bool) : ∀ xs : List Cst, Value.noDupL (Cst.valueOfL xs) = true →
    CstOKL e xs = true →
    denL (deepParseCL xs) = Cst.valueOfL xs ∧ WFL (deepParseCL xs) = true ∧ TXL e (deepParseCL xs) = true
  | [], _, _ => by simp [deepParseCL, denL, WFL, TXL, Cst.valueOfL]
  | x :: xs, h1, h2 => by
    simp only [Cst.valueOfL, Value.noDupL, Bool.and_eq_true] at h1
    simp only [CstOKL, Bool.and_eq_true] at h2
    obtain ⟨a, b, c⟩ := deepParseC_spec e x h1.1 h2.1
    obtain ⟨a', b', c'⟩ := deepParseCL_spec e xs h1.2 h2.2
    simp only [deepParseCL, denL, WFL, TXL, Cst.valueOfL, a, b, c, a', b', c', and_self, Bool.and_self]
theorem deepParseCM_spec (e : Bool) : ∀ (ms : List (Bytes × Cst)) (acc : NMembers),
    Value.noDupM (Cst.valueOfM ms) = true → CstOKM e ms = true →
    (acc.map Prod.fst ++ decodeKeys ms).Nodup →
    denM (deepParseCM ms acc) = denM acc ++ Cst.valueOfM ms ∧
      (WFM acc = true → WFM (deepParseCM ms acc) = true) ∧
      (TXM e acc = true → TXM e (deepParseCM ms acc) = true)
  | [], acc, _, _, _ => by simp [deepParseCM, Cst.valueOfM]
  | (k, v) :: ms, acc, h1, h2, h3 => by
    simp only [Cst.valueOfM, Value.noDupM, Bool.and_eq_true] at h1
    simp only [CstOKM, Bool.and_eq_true] at h2
    have hk : unquote k ∉ acc.map Prod.fst := by
      intro hmem
      simp only [decodeKeys, List.map_cons] at h3
      rw [List.nodup_append] at h3
      exact h3.2.2 _ hmem _ (List.mem_cons_self) rfl
    obtain ⟨a, b, c⟩ := deepParseC_spec e v h1.1 h2.1.2
    have h3' : ((acc ++ [(unquote k, deepParseC v)]).map Prod.fst ++ decodeKeys ms).Nodup := by
      simp only [decodeKeys, List.map_cons, List.map_append, List.map_nil] at h3 ⊢
      simpa using h3
    obtain ⟨a', b', c'⟩ := deepParseCM_spec e ms (acc ++ [(unquote k, deepParseC v)]) h1.2 h2.2 h3'
    simp only [deepParseCM]
    rw [setN_append_of_not_mem _ _ _ hk]
    refine ⟨?_, ?_, ?_⟩
    · rw [a', denM_append]; simp [denM, a, Cst.valueOfM]
    · intro hacc; apply b'; rw [WFM_append]; simp [WFM, hacc, b]
    · intro hacc; apply c'; rw [TXM_append]; simp [TXM, hacc, c, h2.1.1.2]
end

theorem deepParseM_keys (obj : NMembers) : (deepParseM obj).map Prod.fst = obj.map Prod.fst := by
  induction obj with
  | nil => simp [deepParseM]
  | cons m ms ih => obtain ⟨k, n⟩ := m; simp [deepParseM, ih]

mutual
theorem deepParse_spec (e : Bool) : ∀ n : Node, WF n = true → TX e n = true →
    den (deepParse n) = den n ∧ WF (deepParse n) = true ∧ TX e (deepParse n) = true
  | .nil, h1, h2 => by simp [deepParse, h1, h2]
  | .docNil, h1, h2 => by simp [deepParse, h1, h2]
  | .nilAry, h1, h2 => by simp [deepParse, h1, h2]
  | .raw c, h1, h2 => by
    simp only [deepParse]
    split
    · simp only [WF] at h1
      simp only [TX] at h2
      simpa [den] using deepParseC_spec e c h1 h2
    · exact ⟨rfl, h1, h2⟩
  | .ary ns, h1, h2 => by
    simp only [WF] at h1
    simp only [TX] at h2
    obtain ⟨a, b, c⟩ := deepParseL_spec e ns h1 h2
    simp only [deepParse, den, WF, TX, a, b, c, and_self]
  | .doc keys obj, h1, h2 => by
    have h1' := h1
    simp only [WF, Bool.and_eq_true, beq_iff_eq] at h1
    simp only [TX] at h2
    obtain ⟨a, b, c⟩ := deepParseM_spec e obj h1.2 h2
    have hwf : WF (deepParse (.doc keys obj)) = true := by
      simp only [deepParse, WF, Bool.and_eq_true, beq_iff_eq, deepParseM_keys]
      exact ⟨h1.1, b⟩
    refine ⟨?_, hwf, ?_⟩
    · simp only [deepParse] at hwf ⊢
      rw [den_doc_of_WF _ _ hwf, den_doc_of_WF _ _ h1', a]
    · simp only [deepParse, TX, c]
theorem deepParseM_spec (e : Bool) : ∀ obj : NMembers, WFM obj = true → TXM e obj = true →
    denM (deepParseM obj) = denM obj ∧ WFM (deepParseM obj) = true ∧ TXM e (deepParseM obj) = true
  | [], _, _ => by simp [deepParseM, denM, WFM, TXM]
  | (k, n) :: ms, h1, h2 => by
    simp only [WFM, Bool.and_eq_true] at h1
    simp only [TXM, Bool.and_eq_true] at h2
    obtain ⟨a, b, c⟩ := deepParse_spec e n h1.1 h2.1.2
    obtain ⟨a', b', c'⟩ := deepParseM_spec e ms h1.2 h2.2
    simp only [deepParseM, denM, WFM, TXM, a, b, c, a', b', c', h2.1.1, and_self, Bool.and_self]
theorem deepParseL_spec (e : Bool) : ∀ ns : List Node, WFL ns = true → TXL e ns = true →
    denL (deepParseL ns) = denL ns ∧ WFL (deepParseL ns) = true ∧ TXL e (deepParseL ns) = true
  | [], _, _ => by simp [deepParseL, denL, WFL, TXL]
  | n :: ns, h1, h2 => by
    simp only [WFL, Bool.and_eq_true] at h1
    simp only [TXL, Bool.and_eq_true] at h2
    obtain ⟨a, b, c⟩ := deepParse_spec e n h1.1 h2.1
    obtain ⟨a', b', c'⟩ := deepParseL_spec e ns h1.2 h2.2
    simp only [deepParseL, denL, WFL, TXL, a, b, c, a', b', c', and_self, Bool.and_self]
end

theorem den_deepParse {e : Bool} {n : Node} (h : Inv e n) : den (deepParse n) = den n :=
  (deepParse_spec e n h.1 h.2).1

theorem Inv_deepParse {e : Bool} {n : Node} (h : Inv e n) : Inv e (deepParse n) :=
  ⟨(deepParse_spec e n h.1 h.2).2.1, (deepParse_spec e n h.1 h.2).2.2⟩

theorem isCon_deepParse {n : Node} (h : isCon n = true) : isCon (deepParse n) = true := by
  cases n <;> simp [isCon] at h <;> simp [deepParse, isCon]

end Impl
end JP
