import JP.Lemmas.HeapParse
import JP.Lemmas.HeapCopy

/-!
# `test`: the verdict of `equal` is the value model's on the abstraction; a successful comparison
leaves the visited part parsed, in place
-/

namespace JP
namespace Heap

open JP.Impl (Node NMembers Outcome walk Walk putChild conGet Opts Op Root)

theorem hEqualTo_refines {h : Heap} {n : Node} {p : Ptr} {f : List Nat} (ov : Option Cst)
    (r : Repr h n p f) :
    ∃ h', hEqualTo h p ov = .ok ((Impl.equalTo n ov).1, h') ∧
      ((Impl.equalTo n ov).1 = true → StepP h p f h' (Impl.equalTo n ov).2) ∧
      (p = none → h' = h) := by
  unfold hEqualTo Impl.equalTo
  rw [abs_fuelOf r]
  cases ov with
  | none =>
    simp only [or_true, if_true, decide_true, Bool.and_true]
    exact ⟨h, rfl, fun _ => ⟨f, r, Ext.refl _ _⟩, fun _ => rfl⟩
  | some c =>
    simp only
    by_cases hc : Impl.isNullN n = true ∨ c.isNullLit = true
    · simp only [hc, if_true]
      exact ⟨h, rfl, fun _ => ⟨f, r, Ext.refl _ _⟩, fun _ => rfl⟩
    · simp only [hc, if_false]
      by_cases he : Impl.eqNC n c = true
      · simp only [he, if_true]
        refine ⟨_, rfl, fun _ => deepParseH_spec n r _ (by have := r.size_le; simp only [fuelOf]; omega),
          fun hp => ?_⟩
        subst hp; simp [fuelOf, deepParseH]
      · simp only [he]
        exact ⟨h, rfl, fun hb => by simp at hb, fun _ => rfl⟩

theorem opTest_refines (o : Opts) {s : St} {r : Root} {fp : List Nat} (op : Op)
    (hr : Repr s.h r.con (some s.root) fp) :
    OutRel (RelSt s.h fp) (Heap.opTest o s op) (Impl.opTest o r op) := by
  unfold Heap.opTest Impl.opTest
  by_cases hp : op.path = []
  · simp only [hp, if_true]
    obtain ⟨h', heq, hstep, _⟩ := hEqualTo_refines op.value hr
    rw [heq]
    cases hq : Impl.equalTo r.con op.value with
    | mk b con' =>
      rw [hq] at hstep
      simp only at hstep ⊢
      cases b with
      | false => simp
      | true =>
        simp only [if_true, OutRel_ok_ok]
        obtain ⟨f', hr', e⟩ := hstep rfl
        exact ⟨f', hr', e⟩
  · simp only [hp, if_false]
    have hF := findObject_refines o r op.path hr
    cases hf : findObject o s.h s.root op.path with
    | panic =>
      rw [hf] at hF; simp only [FoundP] at hF
      rw [hF]; simp [Impl.liftWalk]
    | err e => rw [hf] at hF; simp only [FoundP] at hF
    | ok res =>
      obtain ⟨h1, oc⟩ := res
      rw [hf] at hF
      cases oc with
      | none =>
        simp only [FoundP] at hF
        obtain ⟨n', fp', h1r, e1, hw⟩ := hF
        rw [hw]
        simp [Impl.liftWalk]
      | some ck =>
        obtain ⟨c, key⟩ := ck
        simp only [FoundP] at hF
        obtain ⟨conc, fc, ctx, plug, s', hrc, dc, e1, hctx, vctx, hw⟩ := hF
        rw [hw]
        have hG := hGet_refines o s' key hrc
        have vfc := Repr.valid _ hrc
        simp only
        -- the common end: the pointer `p` stands for `val` inside the container
        have finish : ∀ (p : Ptr) (val : Node), ((p = none ∧ val = .nil) ∨ Focus o h1 conc c fc key p val) →
            OutRel (RelSt s.h fp)
              (match hEqualTo h1 p op.value with
               | .panic => .panic
               | .err e => .err e
               | .ok (b, h') => if b then .ok ⟨h', s.root⟩ else .err .testFailed)
              (Impl.liftWalk r
                (doneOf plug
                  (match Impl.equalTo val op.value with
                   | (b, val') =>
                     if b then
                       (match val with
                        | .nil => .ok (conc, ())
                        | _ => .ok (putChild o conc key val', ()))
                     else .err .testFailed))
                (fun _ => .err .missing)) := by
          intro p val hfoc
          have hrv0 : ∃ f0, Repr h1 val p f0 := by
            rcases hfoc with ⟨rfl, rfl⟩ | ⟨f, _, hrv, _⟩
            · exact ⟨[], Repr.mk_nil _⟩
            · exact ⟨f, hrv⟩
          obtain ⟨f0, hrv0⟩ := hrv0
          obtain ⟨h', heq, hstep, hnone⟩ := hEqualTo_refines op.value hrv0
          rw [heq]
          cases hq : Impl.equalTo val op.value with
          | mk b val' =>
            rw [hq] at hstep
            simp only at hstep ⊢
            cases b with
            | false => simp [doneOf, Impl.liftWalk]
            | true =>
              simp only [if_true]
              cases p with
              | none =>
                obtain ⟨rfl, _⟩ := Repr.none_iff hrv0
                have := hnone rfl
                subst this
                simp only [doneOf, Impl.liftWalk, OutRel_ok_ok]
                obtain ⟨fpB, hrB, eB⟩ := ctx_close hrc dc e1 hctx
                exact ⟨fpB, hrB, eB⟩
              | some b =>
                rcases hfoc with ⟨hpn, _⟩ | ⟨f, rest, hrv, dfr, sf, sr, hcr, wand⟩
                · cases hpn
                obtain ⟨h'', heq2, hstep2, _⟩ := hEqualTo_refines op.value hrv
                rw [heq] at heq2
                cases heq2
                rw [hq] at hstep2
                obtain ⟨f', hr', e⟩ := hstep2 rfl
                have hval : (match val with
                    | .nil => (Outcome.ok (conc, ()) : Outcome (Node × Unit))
                    | _ => .ok (putChild o conc key val', ())) = .ok (putChild o conc key val', ()) := by
                  cases val with
                  | nil => simp only [Repr] at hrv; cases hrv.1
                  | raw c => rfl
                  | doc k m => rfl
                  | ary k => rfl
                  | docNil => rfl
                  | nilAry => rfl
                rw [hval]
                simp only [doneOf, Impl.liftWalk, OutRel_ok_ok]
                have vrest : ∀ x ∈ rest, x < h1.length := fun x hx => vfc x (sr x hx)
                obtain ⟨fc', hrc', subc⟩ := wand h' val' f' hr'
                  (fun x hx => e.frame x (vrest x hx) (fun h1' => dfr x h1' hx))
                  (Disj.symm (Ext.disj e (Disj.symm dfr) vrest))
                obtain ⟨fp'', hr'', sub''⟩ := hctx h' _ fc' hrc'
                  (fun x hx => e.frame x (vctx x hx) (fun h1' => dc x (sf x h1') hx))
                  (fun x hx hy => by
                    rcases subc x hx with h1' | h1'
                    · rcases e.sub x h1' with h2 | h2
                      · exact dc x (sf x h2) hy
                      · have := vctx x hy; omega
                    · exact dc x (sr x h1') hy)
                refine ⟨fp'', hr'', Ext.trans e1 (Ext.widen e (fun x hx => by simp [sf x hx]) (fun x hx => ?_))⟩
                rcases sub'' x hx with h1' | h1'
                · rcases subc x h1' with h2 | h2
                  · exact Or.inl h2
                  · exact Or.inr (by simp [sr x h2])
                · exact Or.inr (by simp [h1'])
        cases hg : hGet o h1 c key with
        | panic =>
          cases hc : conGet o s' conc key with
          | panic => simp [doneOf, Impl.liftWalk]
          | ok x => rw [hg, hc] at hG; simp at hG
          | err e => rw [hg, hc] at hG; simp at hG
        | err e =>
          cases hc : conGet o s' conc key with
          | panic => rw [hg, hc] at hG; simp at hG
          | ok x => rw [hg, hc] at hG; simp at hG
          | err e' =>
            rw [hg, hc] at hG; simp only [OutRel_err_err] at hG; subst hG
            cases e <;> first | exact finish none .nil (Or.inl ⟨rfl, rfl⟩) | simp [doneOf, Impl.liftWalk]
        | ok p =>
          cases hc : conGet o s' conc key with
          | panic => rw [hg, hc] at hG; simp at hG
          | err e' => rw [hg, hc] at hG; simp at hG
          | ok val =>
            rw [hg, hc] at hG; simp only [OutRel_ok_ok] at hG
            exact finish p val (Or.inr hG)

end Heap
end JP
