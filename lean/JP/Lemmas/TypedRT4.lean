import JP.Lemmas.TypedRT3
import JP.Lemmas.TypedStruct
import JP.Lemmas.CloseMergeSorted

set_option linter.unusedSimpArgs false
set_option linter.unusedVariables false

/-!
# C17 — round trip of the typed codec: `map[string]T`, `T` in `rtSeqT`
-/

namespace JP.C17
open JP JP.Codec JP.Codec.Typed JP.Codec.TDec JP.Scanner

/-- the entries in the order the encoder writes them -/
def insertMS (k : MapKey) (v : GoVal) : List (MapKey × GoVal) → List (MapKey × GoVal)
  | [] => [(k, v)]
  | (k', v') :: ms => if bytesLt (keyText k) (keyText k') then (k, v) :: (k', v') :: ms else (k', v') :: insertMS k v ms

def sortMS : List (MapKey × GoVal) → List (MapKey × GoVal)
  | [] => []
  | (k, v) :: ms => insertMS k v (sortMS ms)

theorem insertMS_perm (k : MapKey) (v : GoVal) : ∀ l, (insertMS k v l).Perm ((k, v) :: l)
  | [] => List.Perm.refl _
  | (k', a') :: l => by
    simp only [insertMS]
    cases bytesLt (keyText k) (keyText k') with
    | true => exact List.Perm.refl _
    | false =>
      simp only [Bool.false_eq_true, if_false]
      exact List.Perm.trans (List.Perm.cons _ (insertMS_perm k v l)) (List.Perm.swap _ _ _)

theorem sortMS_perm : ∀ l, (sortMS l).Perm l
  | [] => List.Perm.refl _
  | (k, a) :: l => by
    simp only [sortMS]
    exact List.Perm.trans (insertMS_perm k a (sortMS l)) (List.Perm.cons _ (sortMS_perm l))

theorem encEntries_insertMS {α : Type} (g : GoVal → Option α) (k : MapKey) (v : GoVal) (c : α) (hg : g v = some c) :
    ∀ (l : List (MapKey × GoVal)) (L : List (Bytes × α)), encEntries g l = some L →
      encEntries g (insertMS k v l) = some (insertKV (keyText k) c L)
  | [], L, h => by
    simp only [encEntries, Option.some.injEq] at h
    subst h
    simp only [insertMS, encEntries, hg, insertKV]
  | (k', v') :: l, L, h => by
    simp only [encEntries] at h
    cases hg' : g v' with
    | none => rw [hg'] at h; cases h
    | some c' =>
      rw [hg'] at h
      cases hr : encEntries g l with
      | none => rw [hr] at h; cases h
      | some L' =>
        rw [hr] at h
        simp only [Option.some.injEq] at h
        subst h
        simp only [insertMS, insertKV]
        cases bytesLt (keyText k) (keyText k') with
        | true => simp only [if_true, encEntries, hg, hg', hr]
        | false =>
          simp only [Bool.false_eq_true, if_false, encEntries, hg', encEntries_insertMS g k v c hg l L' hr]

theorem encEntries_sortMS {α : Type} (g : GoVal → Option α) :
    ∀ (l : List (MapKey × GoVal)) (L : List (Bytes × α)), encEntries g l = some L →
      encEntries g (sortMS l) = some (sortKV L)
  | [], L, h => by
    simp only [encEntries, Option.some.injEq] at h
    subst h; rfl
  | (k, v) :: l, L, h => by
    simp only [encEntries] at h
    cases hg : g v with
    | none => rw [hg] at h; cases h
    | some c =>
      rw [hg] at h
      cases hr : encEntries g l with
      | none => rw [hr] at h; cases h
      | some L' =>
        rw [hr] at h
        simp only [Option.some.injEq] at h
        subst h
        simp only [sortMS, sortKV]
        exact encEntries_insertMS g k v c hg _ _ (encEntries_sortMS g l L' hr)

theorem heightM_insertMS (k : MapKey) (v : GoVal) : ∀ l, heightM (insertMS k v l) = max v.height (heightM l)
  | [] => by simp only [insertMS, heightM]
  | (k', v') :: l => by
    simp only [insertMS]
    cases bytesLt (keyText k) (keyText k') with
    | true => simp only [if_true, heightM]
    | false =>
      simp only [Bool.false_eq_true, if_false, heightM, heightM_insertMS k v l]
      omega

theorem heightM_sortMS : ∀ l, heightM (sortMS l) = heightM l
  | [] => rfl
  | (k, v) :: l => by simp only [sortMS, heightM_insertMS, heightM, heightM_sortMS l]

theorem sortKV_of_sorted {α : Type} : ∀ l : List (Bytes × α), KeySorted l → (l.map Prod.fst).Nodup → sortKV l = l
  | [], _, _ => rfl
  | [(k, b)], _, _ => rfl
  | (k, b) :: (k', b') :: r, hs, hn => by
    have hs' : KeySorted ((k', b') :: r) := (List.pairwise_cons.1 hs).2
    have hn' : (((k', b') :: r).map Prod.fst).Nodup := (List.nodup_cons.1 hn).2
    have hlt : bytesLt k' k = false := (List.pairwise_cons.1 hs).1 (k', b') (by simp)
    have hne : k' ≠ k := by
      intro h
      have := (List.nodup_cons.1 hn).1
      simp [h] at this
    have hlt' : bytesLt k k' = true := JP.Impl.bytesLt_total k' k hlt hne
    have ih := sortKV_of_sorted ((k', b') :: r) hs' hn'
    show insertKV k b (sortKV ((k', b') :: r)) = _
    rw [ih]
    simp only [insertKV, hlt', if_true]

/-- `map[string]T` with `T` in `rtSeqT` -/
def rtMapT : GoType → Bool
  | .map .str e => rtSeqT e
  | _ => false

/-- string keys that are valid UTF-8, elements without invalid strings -/
def rtMapKeys : List (MapKey × GoVal) → Bool
  | [] => true
  | (.str k, v) :: r => isValidUtf8 k && rtSeqV v && rtMapKeys r
  | _ => false

def rtMapV : GoVal → Bool
  | .map ms => rtMapKeys ms && decide ((ms.map (fun p => keyText p.1)).Nodup)
  | _ => true

def EntryOK (e : GoType) (p : MapKey × GoVal) : Prop :=
  ∃ k, p.1 = .str k ∧ isValidUtf8 k = true ∧ p.2.hasType e = true ∧ rtSeqV p.2 = true

theorem entryOK_of (e : GoType) : ∀ ms : List (MapKey × GoVal), hasTypeM .str e ms = true → rtMapKeys ms = true →
    ∀ p ∈ ms, EntryOK e p
  | [], _, _, p, hp => by cases hp
  | (.str k, v) :: r, ht, hk, p, hp => by
    simp only [hasTypeM, Bool.and_eq_true] at ht
    simp only [rtMapKeys, Bool.and_eq_true] at hk
    rcases List.mem_cons.1 hp with rfl | hp
    · exact ⟨k, rfl, hk.1.1, ht.1.2, hk.1.2⟩
    · exact entryOK_of e r ht.2 hk.2 p hp
  | (.int _, v) :: r, _, hk, _, _ => by simp [rtMapKeys] at hk
  | (.uint _, v) :: r, _, hk, _, _ => by simp [rtMapKeys] at hk

theorem setKey_fresh (key : MapKey) (v : DV) : ∀ acc : List (MapKey × DV), (∀ a ∈ acc, a.1 ≠ key) →
    setKey key v acc = acc ++ [(key, v)]
  | [], _ => rfl
  | (k', v') :: acc, h => by
    have h1 : k' ≠ key := h (k', v') (by simp)
    simp only [setKey, h1, if_false, List.cons_append]
    rw [setKey_fresh key v acc (fun a ha => h a (by simp [ha]))]

theorem tmap_rt (esc : Bool) (e : GoType) (g : GoVal → Option Cst)
    (IH : ∀ v c, v.hasType e = true → rtSeqV v = true → g v = some c →
      ∃ d, tvalue c e (zeroDV e) = .ok d ∧ toGoVal e d = v) :
    ∀ (ms : List (MapKey × GoVal)) (S : List (Bytes × Cst)) (acc : List (MapKey × DV)),
      encEntries g ms = some S → (∀ p ∈ ms, EntryOK e p) → (ms.map (fun p => keyText p.1)).Nodup →
      (∀ p ∈ ms, ∀ a ∈ acc, a.1 ≠ p.1) →
      ∃ DS, tmap (keyMembers esc S) .str e acc = .ok (acc ++ DS) ∧ toGoValM e DS = ms
  | [], S, acc, hS, _, _, _ => by
    simp only [encEntries, Option.some.injEq] at hS
    subst hS
    exact ⟨[], by simp [keyMembers, tmap], rfl⟩
  | (key, v) :: rest, S, acc, hS, hok, hnd, hfresh => by
    obtain ⟨k, hk1, hk2, hk3, hk4⟩ := hok (key, v) (by simp)
    simp only at hk1 hk3 hk4
    subst hk1
    simp only [encEntries] at hS
    cases hg : g v with
    | none => rw [hg] at hS; cases hS
    | some c =>
      rw [hg] at hS
      cases hr : encEntries g rest with
      | none => rw [hr] at hS; cases hS
      | some S' =>
        rw [hr] at hS
        simp only [Option.some.injEq] at hS
        subst hS
        obtain ⟨d, hd, hdv⟩ := IH v c hk3 hk4 hg
        simp only [List.map_cons, List.nodup_cons] at hnd
        have hfr0 : ∀ a ∈ acc, a.1 ≠ MapKey.str k := fun a ha => hfresh (.str k, v) (by simp) a ha
        have hfresh' : ∀ p ∈ rest, ∀ a ∈ acc ++ [(MapKey.str k, d)], a.1 ≠ p.1 := by
          intro p hp a ha
          rcases List.mem_append.1 ha with ha | ha
          · exact hfresh p (by simp [hp]) a ha
          · simp only [List.mem_singleton] at ha
            subst ha
            intro heq
            apply hnd.1
            simp only [List.mem_map]
            exact ⟨p, hp, by rw [← heq]⟩
        obtain ⟨DS, hDS, hvs⟩ := tmap_rt esc e g IH rest S' (acc ++ [(.str k, d)]) hr
          (fun p hp => hok p (by simp [hp])) hnd.2 hfresh'
        refine ⟨(.str k, d) :: DS, ?_, by simp only [toGoValM, hdv, hvs]⟩
        simp only [keyMembers, keyText]
        rw [tmap_cons, hd]
        simp only [tentry, mapKeyOf, unquote_quoteBody esc k hk2, setKey_fresh _ d acc hfr0]
        rw [hDS]
        simp only [List.append_assoc, List.singleton_append]

/-- what comes back for a map: the entries in key order -/
def mapBack : GoVal → GoVal
  | .map ms => .map (sortMS ms)
  | v => v

theorem rt_map_tree (esc : Bool) (t : GoType) (v : GoVal) (c : Cst) (hl : rtMapT t = true)
    (hv : v.hasType t = true) (hu : rtMapV v = true) (hc : typedCst esc t v = some c) :
    ∃ d, tvalue c t (zeroDV t) = .ok d ∧ toGoVal t d = mapBack v ∧ typedCst esc t (mapBack v) = some c := by
  cases t with
  | map kt e =>
    cases kt with
    | str =>
      simp only [rtMapT] at hl
      cases v with
      | nil =>
        have h0 : typedCst esc (.map .str e) .nil = some (.lit Enc.null) := rfl
        rw [h0] at hc
        simp only [Option.some.injEq] at hc
        subst hc
        exact ⟨.nil, by rfl, rfl, rfl⟩
      | map ms =>
        have h0 : typedCst esc (.map .str e) (.map ms) = mapCst esc (cst esc (heightM ms + 1) false e) (.map ms) := rfl
        have h1 : typedCst esc (.map .str e) (.map (sortMS ms)) =
            mapCst esc (cst esc (heightM (sortMS ms) + 1) false e) (.map (sortMS ms)) := rfl
        rw [h0] at hc
        simp only [mapCst] at hc
        cases henc : encEntries (cst esc (heightM ms + 1) false e) ms with
        | none => rw [henc] at hc; cases hc
        | some kvs =>
          rw [henc] at hc
          simp only [Option.some.injEq] at hc
          subst hc
          simp only [GoVal.hasType, Bool.and_eq_true] at hv
          simp only [rtMapV, Bool.and_eq_true, decide_eq_true_eq] at hu
          have hperm := sortMS_perm ms
          have hok := entryOK_of e ms hv.2 hu.1
          have hok' : ∀ p ∈ sortMS ms, EntryOK e p := fun p hp => hok p (hperm.mem_iff.1 hp)
          have hnd' : ((sortMS ms).map (fun p => keyText p.1)).Nodup :=
            (List.Perm.nodup_iff (hperm.map _)).2 hu.2
          have henc' := encEntries_sortMS (cst esc (heightM ms + 1) false e) ms kvs henc
          obtain ⟨DS, hDS, hvs⟩ := tmap_rt esc e (cst esc (heightM ms + 1) false e)
            (fun v c h1 h2 h3 => rt_seq_tree esc e _ v c hl h1 h2 h3) (sortMS ms) (sortKV kvs) [] henc' hok' hnd'
            (fun _ _ a ha => by cases ha)
          simp only [List.nil_append] at hDS
          refine ⟨.map DS, ?_, ?_, ?_⟩
          · simp only [tvalue, derefT, zeroDV, derefV, mapMs, hDS, rewrap]
          · simp only [toGoVal, hvs, mapBack]
          · simp only [mapBack]
            rw [h1, heightM_sortMS]
            simp only [mapCst, henc']
            have hkeys : (sortKV kvs).map Prod.fst = (sortMS ms).map (fun p => keyText p.1) :=
              encEntries_keys _ _ _ henc'
            rw [sortKV_of_sorted (sortKV kvs) (sortKV_sorted kvs) (by rw [hkeys]; exact hnd')]
      | _ => simp [GoVal.hasType, GoType.nilable] at hv
    | _ => simp [rtMapT] at hl
  | _ => simp [rtMapT] at hl

theorem rt_map_side (t : GoType) (hl : rtMapT t = true) : t.wf = true ∧ decodable t = true := by
  cases t with
  | map kt e =>
    cases kt with
    | str =>
      simp only [rtMapT] at hl
      have := rt_seq_side e hl
      exact ⟨by simpa [GoType.wf] using this.1, by simpa [decodable] using this.2⟩
    | _ => simp [rtMapT] at hl
  | _ => simp [rtMapT] at hl

end JP.C17
