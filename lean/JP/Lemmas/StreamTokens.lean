import JP.Lemmas.StreamToken

/-!
# `Token` on well-formed texts: the whole token stream

Induction along a successful parse (`parse_ind`): repeated calls of `Token` return `flatten c`.
A separator (`,` / `:`) is consumed by the call that returns the NEXT token, so the statements
carry two states: the real one `D`, and the one `D2` in which the loop of `Token` stands once the
separator has been passed (`Virt D D2`).
-/

namespace JP
namespace Codec
namespace Stream

open Scanner

/-- position, token state and stack replaced; `err` and `lastKeys` kept -/
def Dec.at (D : Dec) (rest : Bytes) (s : TokState) (stk : List TokState) : Dec :=
  { D with rest := rest, tokenState := s, tokenStack := stk }

@[simp] theorem at_rest (D : Dec) (r : Bytes) (s : TokState) (k : List TokState) : (D.at r s k).rest = r := rfl
@[simp] theorem at_state (D : Dec) (r : Bytes) (s : TokState) (k : List TokState) : (D.at r s k).tokenState = s := rfl
@[simp] theorem at_stack (D : Dec) (r : Bytes) (s : TokState) (k : List TokState) : (D.at r s k).tokenStack = k := rfl
@[simp] theorem at_err (D : Dec) (r : Bytes) (s : TokState) (k : List TokState) : (D.at r s k).err = D.err := rfl
@[simp] theorem at_keys (D : Dec) (r : Bytes) (s : TokState) (k : List TokState) : (D.at r s k).lastKeys = D.lastKeys := rfl
@[simp] theorem at_at (D : Dec) (r r' : Bytes) (s s' : TokState) (k k' : List TokState) :
    (D.at r s k).at r' s' k' = D.at r' s' k' := rfl

/-- the call `Token` from `D` continues, after passing a separator or at once, as the loop from `D2` -/
def Virt (D D2 : Dec) : Prop := ∃ f, token D = tokenLoop (f + 1) D2

theorem virt_self (D : Dec) : Virt D D := ⟨D.rest.length, rfl⟩

theorem rest_length_pos {D : Dec} {c : UInt8} {r : Bytes} (h : skipWs D.rest = c :: r) : ∃ n, D.rest.length = n + 1 := by
  cases hr : D.rest with
  | nil => rw [hr] at h; cases h
  | cons a t => exact ⟨t.length, rfl⟩

theorem virt_comma_arr (D : Dec) (r' : Bytes) (hst : D.tokenState = .arrayComma) (h : skipWs D.rest = 44 :: r') :
    Virt D (D.at r' .arrayValue D.tokenStack) := by
  obtain ⟨n, hn⟩ := rest_length_pos h
  refine ⟨n, ?_⟩
  unfold token
  rw [hn, tokenLoop_comma_arr (n + 1) D r' h hst]
  rfl

theorem virt_comma_obj (D : Dec) (r' : Bytes) (hst : D.tokenState = .objectComma) (h : skipWs D.rest = 44 :: r') :
    Virt D (D.at r' .objectKey D.tokenStack) := by
  obtain ⟨n, hn⟩ := rest_length_pos h
  refine ⟨n, ?_⟩
  unfold token
  rw [hn, tokenLoop_comma_obj (n + 1) D r' h hst]
  rfl

theorem virt_colon (D : Dec) (r' : Bytes) (hst : D.tokenState = .objectColon) (h : skipWs D.rest = 58 :: r') :
    Virt D (D.at r' .objectValue D.tokenStack) := by
  obtain ⟨n, hn⟩ := rest_length_pos h
  refine ⟨n, ?_⟩
  unfold token
  rw [hn, tokenLoop_colon (n + 1) D r' h hst]
  rfl

/-! ### single tokens from a virtual state -/

theorem tok_open_arr {D D2 : Dec} (hv : Virt D D2) (cs : Bytes) (h : skipWs D2.rest = 91 :: cs)
    (hst : valueAllowed D2.tokenState = true) :
    token D = (D2.at cs .arrayStart (D2.tokenState :: D2.tokenStack), .ok (.delim 91)) := by
  obtain ⟨f, hf⟩ := hv
  rw [hf, tokenLoop_open_arr f D2 cs h hst]; rfl

theorem tok_open_obj {D D2 : Dec} (hv : Virt D D2) (cs : Bytes) (h : skipWs D2.rest = 123 :: cs)
    (hst : valueAllowed D2.tokenState = true) :
    token D = (D2.at cs .objectStart (D2.tokenState :: D2.tokenStack), .ok (.delim 123)) := by
  obtain ⟨f, hf⟩ := hv
  rw [hf, tokenLoop_open_obj f D2 cs h hst]; rfl

theorem tok_close_arr (D : Dec) (cs : Bytes) (s0 : TokState) (st : List TokState)
    (h : skipWs D.rest = 93 :: cs) (hst : D.tokenState = .arrayStart ∨ D.tokenState = .arrayComma)
    (hstk : D.tokenStack = s0 :: st) :
    token D = (D.at cs (valueEnd s0) st, .ok (.delim 93)) := by
  unfold token
  rw [tokenLoop_close_arr _ D cs s0 st h hst hstk]; rfl

theorem tok_close_obj (D : Dec) (cs : Bytes) (s0 : TokState) (st : List TokState)
    (h : skipWs D.rest = 125 :: cs) (hst : D.tokenState = .objectStart ∨ D.tokenState = .objectComma)
    (hstk : D.tokenStack = s0 :: st) :
    token D = (D.at cs (valueEnd s0) st, .ok (.delim 125)) := by
  unfold token
  rw [tokenLoop_close_obj _ D cs s0 st h hst hstk]; rfl

theorem tok_scalar {D D2 : Dec} (hv : Virt D D2) (c : Cst) (x : UInt8) (bs' vt r : Bytes)
    (hsk : skipWs D2.rest = x :: bs') (nv : NextValue (x :: bs') [] vt r c)
    (hc : c.isArr = false ∧ c.isObj = false) (herr : D2.err = none) (hst : valueAllowed D2.tokenState = true)
    (hx : x ≠ 91 ∧ x ≠ 93 ∧ x ≠ 123 ∧ x ≠ 125 ∧ x ≠ 58 ∧ x ≠ 44) :
    token D = (D2.at r (valueEnd D2.tokenState) D2.tokenStack, .ok (.val (scalarVal c))) := by
  obtain ⟨f, hf⟩ := hv
  rw [hf, tokenLoop_scalar f D2 c x bs' vt r hsk nv hc herr hst hx]; rfl

theorem tok_key {D D2 : Dec} (hv : Virt D D2) (cs k r : Bytes) (hsk : skipWs D2.rest = 34 :: cs)
    (hk : parseStrBody cs = some (k, r)) (herr : D2.err = none)
    (hst : D2.tokenState = .objectStart ∨ D2.tokenState = .objectKey) :
    token D = (D2.at r .objectColon D2.tokenStack, .ok (.val (.str (unquote k)))) := by
  obtain ⟨f, hf⟩ := hv
  rw [hf, tokenLoop_key f D2 cs k r hsk hk herr hst]; rfl

/-! ### the induction -/

def TokV (f d : Nat) (bs : Bytes) (c : Cst) (rest : Bytes) : Prop :=
  parseValue f d bs = some (c, rest) → NoWs bs → DelimW rest →
  ∀ D D2 : Dec, Virt D D2 → D2.err = none → valueAllowed D2.tokenState = true → skipWs D2.rest = bs →
    Toks D (flatten c) (D2.at rest (valueEnd D2.tokenState) D2.tokenStack)

def TokE (_f _d : Nat) (bs : Bytes) (xs : List Cst) (rest : Bytes) : Prop :=
  NoWs bs → ∀ (D D2 : Dec) (s0 : TokState) (st : List TokState), Virt D D2 → D2.err = none →
    (D2.tokenState = .arrayStart ∨ D2.tokenState = .arrayValue) → skipWs D2.rest = bs → D2.tokenStack = s0 :: st →
    Toks D (flattenL xs ++ [.delim 93]) (D2.at rest (valueEnd s0) st)

def TokM (_f _d : Nat) (bs : Bytes) (ms : List (Bytes × Cst)) (rest : Bytes) : Prop :=
  ∀ (D D2 : Dec) (s0 : TokState) (st : List TokState), Virt D D2 → D2.err = none →
    (D2.tokenState = .objectStart ∨ D2.tokenState = .objectKey) → skipWs D2.rest = bs → D2.tokenStack = s0 :: st →
    Toks D (flattenM ms ++ [.delim 125]) (D2.at rest (valueEnd s0) st)

theorem tokv_arr0 (f d : Nat) (cs r : Bytes) (hs : skipWs cs = 93 :: r) : TokV (f + 1) d (91 :: cs) (.arr []) r := by
  intro _ _ _ D D2 hv _ hst hsk
  have h1 := tok_open_arr hv cs hsk hst
  have h2 := tok_close_arr (D2.at cs .arrayStart (D2.tokenState :: D2.tokenStack)) r D2.tokenState D2.tokenStack
    hs (.inl rfl) rfl
  exact toks_cons h1 (toks_one h2)

theorem tokv_obj0 (f d : Nat) (cs r : Bytes) (hs : skipWs cs = 125 :: r) : TokV (f + 1) d (123 :: cs) (.obj []) r := by
  intro _ _ _ D D2 hv _ hst hsk
  have h1 := tok_open_obj hv cs hsk hst
  have h2 := tok_close_obj (D2.at cs .objectStart (D2.tokenState :: D2.tokenStack)) r D2.tokenState D2.tokenStack
    hs (.inl rfl) rfl
  exact toks_cons h1 (toks_one h2)

theorem tokv_arr (f d : Nat) (cs : Bytes) (xs : List Cst) (rest : Bytes)
    (ih : TokE f (d + 1) (skipWs cs) xs rest) : TokV (f + 1) d (91 :: cs) (.arr xs) rest := by
  intro _ _ _ D D2 hv herr hst hsk
  have h1 := tok_open_arr hv cs hsk hst
  have h2 := ih (noWs_skipWs cs) (D2.at cs .arrayStart (D2.tokenState :: D2.tokenStack)) _ D2.tokenState D2.tokenStack
    (virt_self _) herr (.inl rfl) rfl rfl
  exact toks_cons h1 h2

theorem tokv_obj (f d : Nat) (cs : Bytes) (ms : List (Bytes × Cst)) (rest : Bytes)
    (ih : TokM f (d + 1) (skipWs cs) ms rest) : TokV (f + 1) d (123 :: cs) (.obj ms) rest := by
  intro _ _ _ D D2 hv herr hst hsk
  have h1 := tok_open_obj hv cs hsk hst
  have h2 := ih (D2.at cs .objectStart (D2.tokenState :: D2.tokenStack)) _ D2.tokenState D2.tokenStack
    (virt_self _) herr (.inl rfl) rfl rfl
  exact toks_cons h1 h2

theorem tokv_str (f d : Nat) (cs b rest : Bytes) (h : parseStrBody cs = some (b, rest)) :
    TokV (f + 1) d (34 :: cs) (.str b) rest := by
  intro _ _ _ D D2 hv herr hst hsk
  have nv := nextValue_of_str [] cs b rest (by intro b hb; cases hb) h
  exact toks_one (tok_scalar hv (.str b) 34 cs _ rest hsk nv ⟨rfl, rfl⟩ herr hst (by decide))

theorem tokv_lit (f d : Nat) (x : UInt8) (bs' : Bytes) (l rest : Bytes)
    (hx : x ≠ 91 ∧ x ≠ 93 ∧ x ≠ 123 ∧ x ≠ 125 ∧ x ≠ 58 ∧ x ≠ 44) :
    TokV f d (x :: bs') (.lit l) rest := by
  intro hp hnw hdl D D2 hv herr hst hsk
  obtain ⟨vt, _, nv⟩ := nextValue_of_parse f d [] (x :: bs') rest (.lit l) (by intro b hb; cases hb) hnw hp hdl
  exact toks_one (tok_scalar hv (.lit l) x bs' vt rest hsk nv ⟨rfl, rfl⟩ herr hst hx)

theorem tokv_word (f d : Nat) (w rest : Bytes) (hw : w = ascii "true" ∨ w = ascii "false" ∨ w = ascii "null") :
    TokV (f + 1) d (w ++ rest) (.lit w) rest := by
  rcases hw with rfl | rfl | rfl
  · exact tokv_lit (f + 1) d 116 ([114, 117, 101] ++ rest) _ rest (by decide)
  · exact tokv_lit (f + 1) d 102 ([97, 108, 115, 101] ++ rest) _ rest (by decide)
  · exact tokv_lit (f + 1) d 110 ([117, 108, 108] ++ rest) _ rest (by decide)

theorem digit_not_delim (c : UInt8) (hc : c = 45 ∨ isDigit c = true) :
    c ≠ 91 ∧ c ≠ 93 ∧ c ≠ 123 ∧ c ≠ 125 ∧ c ≠ 58 ∧ c ≠ 44 := by
  rcases hc with rfl | hd
  · decide
  · refine ⟨?_, ?_, ?_, ?_, ?_, ?_⟩ <;> (intro h; rw [h] at hd; exact absurd hd (by decide))

theorem tokv_num (f d : Nat) (c : UInt8) (cs l rest : Bytes) (hc : c = 45 ∨ isDigit c = true) :
    TokV (f + 1) d (c :: cs) (.lit l) rest :=
  tokv_lit (f + 1) d c cs l rest (digit_not_delim c hc)

theorem valueEnd_arr {s : TokState} (h : s = .arrayStart ∨ s = .arrayValue) : valueEnd s = .arrayComma := by
  rcases h with h | h <;> rw [h] <;> rfl

theorem valueAllowed_arr {s : TokState} (h : s = .arrayStart ∨ s = .arrayValue) : valueAllowed s = true := by
  rcases h with h | h <;> rw [h] <;> rfl

theorem toke_last (f d : Nat) (bs : Bytes) (x : Cst) (r r' : Bytes) (hp : parseValue f d bs = some (x, r))
    (ih : TokV f d bs x r) (h93 : skipWs r = 93 :: r') : TokE (f + 1) d bs [x] r' := by
  intro hnw D D2 s0 st hv herr hst hsk hstk
  have h1 := ih hp hnw (delimW_of_skipWs r r' 93 h93 (.inr (.inl rfl))) D D2 hv herr (valueAllowed_arr hst) hsk
  rw [valueEnd_arr hst] at h1
  have h2 := tok_close_arr (D2.at r .arrayComma D2.tokenStack) r' s0 st h93 (.inr rfl) hstk
  have hfl : flattenL [x] ++ [Tok.delim 93] = flatten x ++ [Tok.delim 93] := by simp [flattenL]
  rw [hfl]
  exact toks_append h1 (toks_one h2)

theorem toke_more (f d : Nat) (bs : Bytes) (x : Cst) (r r' : Bytes) (xs : List Cst) (rest : Bytes)
    (hp : parseValue f d bs = some (x, r)) (ih : TokV f d bs x r) (h44 : skipWs r = 44 :: r')
    (ihE : TokE f d (skipWs r') xs rest) : TokE (f + 1) d bs (x :: xs) rest := by
  intro hnw D D2 s0 st hv herr hst hsk hstk
  have h1 := ih hp hnw (delimW_of_skipWs r r' 44 h44 (.inl rfl)) D D2 hv herr (valueAllowed_arr hst) hsk
  rw [valueEnd_arr hst] at h1
  have hvirt := virt_comma_arr (D2.at r .arrayComma D2.tokenStack) r' rfl h44
  have h2 := ihE (noWs_skipWs r') (D2.at r .arrayComma D2.tokenStack) _ s0 st hvirt herr (.inr rfl) rfl hstk
  have hfl : flattenL (x :: xs) ++ [Tok.delim 93] = flatten x ++ (flattenL xs ++ [Tok.delim 93]) := by
    simp [flattenL]
  rw [hfl]
  exact toks_append h1 h2

theorem tokm_last (f d : Nat) (cs k r r1 : Bytes) (v : Cst) (r2 r3 : Bytes) (hk : parseStrBody cs = some (k, r))
    (h58 : skipWs r = 58 :: r1) (hp : parseValue f d (skipWs r1) = some (v, r2)) (ih : TokV f d (skipWs r1) v r2)
    (h125 : skipWs r2 = 125 :: r3) : TokM (f + 1) d (34 :: cs) [(k, v)] r3 := by
  intro D D2 s0 st hv herr hst hsk hstk
  have h1 := tok_key hv cs k r hsk hk herr hst
  have hvirt := virt_colon (D2.at r .objectColon D2.tokenStack) r1 rfl h58
  have h2 := ih hp (noWs_skipWs r1) (delimW_of_skipWs r2 r3 125 h125 (.inr (.inr rfl)))
    (D2.at r .objectColon D2.tokenStack) _ hvirt herr rfl rfl
  have h3 := tok_close_obj (D2.at r2 .objectComma D2.tokenStack) r3 s0 st h125 (.inr rfl) hstk
  have hfl : flattenM [(k, v)] ++ [Tok.delim 125] = Tok.val (.str (unquote k)) :: (flatten v ++ [Tok.delim 125]) := by
    simp [flattenM]
  rw [hfl]
  exact toks_cons h1 (toks_append h2 (toks_one h3))

theorem tokm_more (f d : Nat) (cs k r r1 : Bytes) (v : Cst) (r2 r3 : Bytes) (ms : List (Bytes × Cst)) (rest : Bytes)
    (hk : parseStrBody cs = some (k, r)) (h58 : skipWs r = 58 :: r1)
    (hp : parseValue f d (skipWs r1) = some (v, r2)) (ih : TokV f d (skipWs r1) v r2)
    (h44 : skipWs r2 = 44 :: r3) (ihM : TokM f d (skipWs r3) ms rest) :
    TokM (f + 1) d (34 :: cs) ((k, v) :: ms) rest := by
  intro D D2 s0 st hv herr hst hsk hstk
  have h1 := tok_key hv cs k r hsk hk herr hst
  have hvirt := virt_colon (D2.at r .objectColon D2.tokenStack) r1 rfl h58
  have h2 := ih hp (noWs_skipWs r1) (delimW_of_skipWs r2 r3 44 h44 (.inl rfl))
    (D2.at r .objectColon D2.tokenStack) _ hvirt herr rfl rfl
  have hvirt2 := virt_comma_obj (D2.at r2 .objectComma D2.tokenStack) r3 rfl h44
  have h3 := ihM (D2.at r2 .objectComma D2.tokenStack) _ s0 st hvirt2 herr (.inr rfl) rfl hstk
  have hfl : flattenM ((k, v) :: ms) ++ [Tok.delim 125] =
      Tok.val (.str (unquote k)) :: (flatten v ++ (flattenM ms ++ [Tok.delim 125])) := by
    simp [flattenM]
  rw [hfl]
  exact toks_cons h1 (toks_append h2 h3)

theorem toks_all (f : Nat) :
    (∀ d bs c rest, parseValue f d bs = some (c, rest) → TokV f d bs c rest) ∧
    (∀ d bs xs rest, parseElems f d bs = some (xs, rest) → xs ≠ [] ∧ TokE f d bs xs rest) ∧
    (∀ d bs ms rest, parseMembers f d bs = some (ms, rest) → ms ≠ [] ∧ TokM f d bs ms rest) :=
  parse_ind (PV := TokV) (PE := TokE) (PM := TokM)
    (fun f d cs r _ hs => tokv_obj0 f d cs r hs)
    (fun f d cs ms rest _ _ _ _ ih => tokv_obj f d cs ms rest ih)
    (fun f d cs r _ hs => tokv_arr0 f d cs r hs)
    (fun f d cs xs rest _ _ _ _ ih => tokv_arr f d cs xs rest ih)
    (fun f d cs b rest h => tokv_str f d cs b rest h)
    (fun f d w rest hw => tokv_word f d w rest hw)
    (fun f d c cs l rest hc _ => tokv_num f d c cs l rest hc)
    (fun f d bs x r r' hp ih h93 => toke_last f d bs x r r' hp ih h93)
    (fun f d bs x r r' xs rest hp ih h44 _ _ ihE => toke_more f d bs x r r' xs rest hp ih h44 ihE)
    (fun f d cs k r r1 v r2 r3 hk h58 hp ih h125 => tokm_last f d cs k r r1 v r2 r3 hk h58 hp ih h125)
    (fun f d cs k r r1 v r2 r3 ms rest hk h58 hp ih h44 _ _ ihM =>
      tokm_more f d cs k r r1 v r2 r3 ms rest hk h58 hp ih h44 ihM)
    f

/-- the tokens of a value in front of a delimiter, from a state in which a value is allowed -/
theorem toks_value (f d : Nat) (bs : Bytes) (c : Cst) (rest : Bytes) (hp : parseValue f d bs = some (c, rest))
    (hnw : NoWs bs) (hdl : DelimW rest) (D : Dec) (herr : D.err = none)
    (hst : valueAllowed D.tokenState = true) (hsk : skipWs D.rest = bs) :
    Toks D (flatten c) (D.at rest (valueEnd D.tokenState) D.tokenStack) :=
  (toks_all f).1 d bs c rest hp hp hnw hdl D D (virt_self D) herr hst hsk

theorem tokenRun_add (m n : Nat) : ∀ D : Dec, tokenRun (m + n) D =
    ((tokenRun n (tokenRun m D).1).1, (tokenRun m D).2 ++ (tokenRun n (tokenRun m D).1).2) := by
  induction m with
  | zero => intro D; simp [tokenRun]
  | succ m ih =>
    intro D
    have : m + 1 + n = (m + n) + 1 := by omega
    rw [this]
    simp only [tokenRun, ih, List.cons_append]

/-- a whole JSON text: the tokens of its tree, then `io.EOF` -/
theorem token_stream (t : Bytes) (c : Cst) (h : parseCst t = some c) :
    (tokenRun ((flatten c).length + 1) (Dec.new t)).2 = (flatten c).map TokRes.ok ++ [TokRes.err .eof] := by
  obtain ⟨rest, hp, hrest⟩ := parseCst_inv t c h
  have h1 := toks_value _ 0 (skipWs t) c rest hp (noWs_skipWs t) (delimW_of_skipWs_nil rest hrest) (Dec.new t) rfl rfl rfl
  unfold Toks at h1
  rw [tokenRun_add, h1]
  have h2 : token ((Dec.new t).at rest (valueEnd (Dec.new t).tokenState) (Dec.new t).tokenStack) =
      ((Dec.new t).at rest (valueEnd (Dec.new t).tokenState) (Dec.new t).tokenStack, .err .eof) := by
    unfold token
    exact tokenLoop_eof _ _ hrest
  simp only [tokenRun, h2]

end Stream
end Codec
end JP
