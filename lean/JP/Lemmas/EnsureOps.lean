import JP.Lemmas.EnsureRefine

/-!
# EnsurePathExistsOnAdd, part 5: `ensurePath`, and `add` with the option set
-/

namespace JP
namespace Ens

open Impl
open Spec (Res)

/-- a pointer inside the specification's domain, as `ensurePathExists` splits it -/
theorem splitSlash_of_parsePointer {path : Bytes} {toks : List Bytes}
    (h : Spec.parsePointer path = some toks) (hne : toks ≠ []) :
    ∃ parts, splitSlash path = [] :: parts ∧ parts ≠ [] ∧ toks = parts.map decodeToken := by
  cases path with
  | nil => simp [Spec.parsePointer] at h; exact absurd h hne
  | cons c cs =>
    simp only [Spec.parsePointer] at h
    split at h
    · cases h
    · next hc =>
      simp only [ne_eq, Decidable.not_not] at hc
      subst hc
      simp only [Option.some.injEq] at h
      rw [splitOnSlash_eq] at h
      have hl := splitSlash_ne_nil cs
      cases hs : splitSlash cs with
      | nil => exact absurd hs hl
      | cons p ps =>
        have hsplit : splitSlash (47 :: cs) = [] :: p :: ps := by
          simp [splitSlash, hs]
        refine ⟨p :: ps, hsplit, by simp, ?_⟩
        rw [← h, hs]
        have hf : (Spec.decodeTok : Bytes → Bytes) = decodeToken := funext decodeTok_eq
        rw [hf]

/-- `ensurePath` against `ensureAdd`: the root it returns denotes a document on which the plain
`add` answers what `ensureAdd` answers on the original document -/
theorem ensurePath_refines {o : Opts} {e : Bool} {r : Root} {path : Bytes} {toks : List Bytes} (v : Value)
    (hr : InvRoot e r) (hp : Spec.parsePointer path = some toks) (hne : toks ≠ [])
    (hq : ∀ t ∈ toks, QK e t = true) :
    match Spec.ensureAdd (specOpts o) v (den r.con) toks with
    | .ok c' => ∃ r1, ensurePath o r path = .ok r1 ∧ InvRoot e r1 ∧
        Spec.atParent (specOpts o) (Spec.addIn (specOpts o) v) (den r1.con) toks = .ok (c', ())
    | .fail _ => (∃ er, ensurePath o r path = .err er) ∨
        ∃ r1 c, ensurePath o r path = .ok r1 ∧ InvRoot e r1 ∧
          Spec.atParent (specOpts o) (Spec.addIn (specOpts o) v) (den r1.con) toks = .fail c
    | .unspec => True := by
  obtain ⟨parts, hs, hpne, htoks⟩ := splitSlash_of_parsePointer hp hne
  subst htoks
  have hq' : ∀ p ∈ parts, QK e (decodeToken p) = true :=
    fun p hp' => hq _ (List.mem_map_of_mem hp')
  have h := ensure_refines o e v parts r.selfCR r.self r.con hr.1 hr.2 hq'
  unfold EnsRef at h
  have hep : ensurePath o r path =
      match ensure o r.selfCR r.self r.con parts with
      | .ok (con, self) => .ok { r with con := con, self := self }
      | .err e => .err e
      | .panic => .panic := by
    cases parts with
    | nil => exact absurd rfl hpne
    | cons p ps =>
      simp only [ensurePath, hs]
      cases ensure o r.selfCR r.self r.con (p :: ps) with
      | ok x => obtain ⟨a, b⟩ := x; rfl
      | err e => rfl
      | panic => rfl
  cases hres : Spec.ensureAdd (specOpts o) v (den r.con) (parts.map decodeToken) with
  | unspec => trivial
  | fail c =>
    rw [hres] at h
    rcases h with ⟨er, her⟩ | ⟨con1, c1, h1, h2, h3, h4⟩
    · exact Or.inl ⟨er, by rw [hep, her]⟩
    · exact Or.inr ⟨_, c1, by rw [hep, h1], ⟨h2, h3⟩, h4⟩
  | ok c' =>
    rw [hres] at h
    obtain ⟨con1, h1, h2, h3, h4⟩ := h
    exact ⟨_, by rw [hep, h1], ⟨h2, h3⟩, h4⟩

theorem opAdd_eq_ensure (o : Opts) (r : Root) (op : Op) (hp : op.path ≠ []) (he : o.ensure = true) :
    opAdd o r op =
      match ensurePath o r op.path with
      | .err e => .err e
      | .panic => .panic
      | .ok r1 =>
        liftWalk r1 (withPath o r1 op.path (actAdd o ((op.valueNode).getD .nil))) (fun _ => .err .missing) := by
  simp only [opAdd, hp, if_false, he, if_true]
  rfl

/-- **`add` with EnsurePathExistsOnAdd refines `ensureAdd`** (a non-empty pointer) -/
theorem opAdd_ensure_toks {o : Opts} {e : Bool} {r : Root} {op : Op} {c : Cst} {toks : List Bytes}
    (he : o.ensure = true) (hr : InvRoot e r) (hval : op.value = some c) (hc : Inv e (.raw c))
    (hp : Spec.parsePointer op.path = some toks) (hne : toks ≠ [])
    (hq : ∀ t ∈ toks, QK e t = true) :
    match Spec.ensureAdd (specOpts o) c.valueOf (den r.con) toks with
    | .ok c' => ∃ r', opAdd o r op = .ok r' ∧ den r'.con = c' ∧ InvRoot e r'
    | .fail _ => ∃ er, opAdd o r op = .err er
    | .unspec => True := by
  have hpne : op.path ≠ [] := fun h => hne ((parsePointer_nil_iff hp).2 h)
  have hvn : (op.valueNode).getD .nil = .raw c := by simp [Op.valueNode, hval]
  have hdv : c.valueOf = den (.raw c) := by simp [den]
  have h := ensurePath_refines (o := o) c.valueOf hr hp hne hq
  rw [opAdd_eq_ensure o r op hpne he, hvn]
  cases hres : Spec.ensureAdd (specOpts o) c.valueOf (den r.con) toks with
  | unspec => trivial
  | fail cz =>
    rw [hres] at h
    rcases h with ⟨er, her⟩ | ⟨r1, c1, h1, h2, h3⟩
    · exact ⟨er, by rw [her]⟩
    · rw [h1]
      simp only []
      have hw := addAt_refines (o := o) h2 hc hp hne hq
      rw [← hdv, h3] at hw
      simp only [WalkRef] at hw
      rcases hw with ⟨con', hw, _⟩ | ⟨er, hw⟩
      · rw [hw]; exact ⟨_, rfl⟩
      · rw [hw]; exact ⟨_, rfl⟩
  | ok c' =>
    rw [hres] at h
    obtain ⟨r1, h1, h2, h3⟩ := h
    rw [h1]
    simp only []
    have hw := addAt_refines (o := o) h2 hc hp hne hq
    rw [← hdv, h3] at hw
    simp only [WalkRef] at hw
    obtain ⟨con', a, hw, i1, i2, i3, _⟩ := hw
    rw [hw]
    exact ⟨_, rfl, i3, ⟨i1, i2⟩⟩

theorem spec_add_ensure {so : Spec.Opts} {sz acc : Nat} {doc : Value} {sop : Spec.Op} {v : Value}
    {t : Bytes} {ts : List Bytes}
    (hk : sop.kind = .add) (hp : Spec.parsePointer sop.path = some (t :: ts)) (hv : sop.value = some v)
    (he : so.ensure = true) :
    Spec.applyOp so sz acc doc sop =
      (Spec.ensureAdd so v doc (t :: ts)).bind fun d => .ok (d, acc) := by
  simp only [Spec.applyOp, hp, hk, hv, he, if_true]

/-- `opAdd_refines` of `JP/Lemmas/EngineOps.lean` for `o.ensure = true` -/
theorem opAdd_ensure_refines {o : Opts} {e : Bool} {r : Root} {op : Op} {sop : Spec.Op} {c : Cst}
    (sz acc : Nat) (he : o.ensure = true) (hr : InvRoot e r)
    (hk : sop.kind = .add) (hpath : sop.path = op.path)
    (hval : op.value = some c) (hsval : sop.value = some c.valueOf)
    (hc : Inv e (.raw c))
    (hq : ∀ toks, Spec.parsePointer op.path = some toks → ∀ t ∈ toks, QK e t = true) :
    OpRef e (Spec.applyOp (specOpts o) sz acc (den r.con) sop) (opAdd o r op) := by
  cases hp : Spec.parsePointer op.path with
  | none =>
    -- a pointer without a leading `/`: `ensurePathExists` does nothing, `findObject` finds nothing
    rw [spec_path_none (by rw [hpath]; exact hp) (by simp [hk]), opAdd_path_none_any o r op hp]
    exact ⟨.missing, rfl⟩
  | some toks =>
    cases toks with
    | nil =>
      -- the root: the option is not consulted
      have hnil : op.path = [] := (parsePointer_nil_iff hp).1 rfl
      have h := opAdd_refines (o := { o with ensure := false }) (e := e) (r := r) (op := op) (sop := sop)
        sz acc rfl hr hk hpath hval hsval hc hq
      have e1 : opAdd { o with ensure := false } r op = opAdd o r op := by
        simp only [opAdd, hnil, if_true]
      have e2 : Spec.applyOp (specOpts { o with ensure := false }) sz acc (den r.con) sop =
          Spec.applyOp (specOpts o) sz acc (den r.con) sop := by
        rw [spec_add_root hk (by rw [hpath]; exact hp) hsval,
          spec_add_root hk (by rw [hpath]; exact hp) hsval]
      rw [e1, e2] at h
      exact h
    | cons t ts =>
      rw [spec_add_ensure hk (by rw [hpath]; exact hp) hsval (by simp [specOpts, he])]
      have h := opAdd_ensure_toks he hr hval hc hp (by simp) (hq _ hp)
      cases hres : Spec.ensureAdd (specOpts o) c.valueOf (den r.con) (t :: ts) with
      | unspec => trivial
      | fail cz => rw [hres] at h; exact h
      | ok c' =>
        rw [hres] at h
        obtain ⟨r', h1, h2, h3⟩ := h
        exact ⟨r', h1, h3, h2⟩

end Ens
end JP
