import JP.Lemmas.StreamDecode

/-!
# `Token` on well-formed texts: one call at a time

`flatten c`: what repeated calls of `Token` return on a text with parse tree `c`.
The lemmas here describe single calls in terms of `skipWs` of the remaining input.
-/

namespace JP
namespace Codec
namespace Stream

open Scanner

/-- the value `Decode(&x)` with `x any` stores for a `true` / `false` / `null` / number literal
(`semLit s .any` as a `DVal`) -/
def litVal (s : Bytes) : DVal :=
  if s = nullLit then .null
  else if s = ascii "true" then .bool true
  else if s = ascii "false" then .bool false
  else .num s

mutual
/-- the tokens of a value: delimiters, member names and strings decoded, literals as `litVal` -/
def flatten : Cst → List Tok
  | .lit s => [.val (litVal s)]
  | .str b => [.val (.str (unquote b))]
  | .arr xs => .delim 91 :: (flattenL xs ++ [.delim 93])
  | .obj ms => .delim 123 :: (flattenM ms ++ [.delim 125])
def flattenL : List Cst → List Tok
  | [] => []
  | x :: xs => flatten x ++ flattenL xs
def flattenM : List (Bytes × Cst) → List Tok
  | [] => []
  | (k, v) :: ms => .val (.str (unquote k)) :: (flatten v ++ flattenM ms)
end

/-- `n` calls of `Token`: the state afterwards and the results -/
def tokenRun : Nat → Dec → Dec × List TokRes
  | 0, d => (d, [])
  | n + 1, d =>
    let r := token d
    let rs := tokenRun n r.1
    (rs.1, r.2 :: rs.2)

/-- `ts.length` calls of `Token` from `D` return the tokens `ts` without error and leave `D'` -/
def Toks (D : Dec) (ts : List Tok) (D' : Dec) : Prop :=
  tokenRun ts.length D = (D', ts.map TokRes.ok)

theorem toks_nil (D : Dec) : Toks D [] D := rfl

theorem toks_cons {D D1 D2 : Dec} {t : Tok} {ts : List Tok} (h1 : token D = (D1, .ok t)) (h2 : Toks D1 ts D2) :
    Toks D (t :: ts) D2 := by
  unfold Toks at h2 ⊢
  simp only [List.length_cons, tokenRun, h1, h2, List.map_cons]

theorem toks_one {D D1 : Dec} {t : Tok} (h1 : token D = (D1, .ok t)) : Toks D [t] D1 :=
  toks_cons h1 (toks_nil D1)

theorem toks_append {D D1 D2 : Dec} {ts us : List Tok} (h1 : Toks D ts D1) (h2 : Toks D1 us D2) :
    Toks D (ts ++ us) D2 := by
  induction ts generalizing D with
  | nil =>
    unfold Toks at h1
    simp only [List.length_nil, tokenRun, List.map_nil, Prod.mk.injEq, and_true] at h1
    subst h1; exact h2
  | cons t ts ih =>
    unfold Toks at h1
    simp only [List.length_cons, tokenRun, List.map_cons, Prod.mk.injEq, List.cons.injEq] at h1
    obtain ⟨hD, ht, hts⟩ := h1
    have h3 : Toks (token D).1 ts D1 := by
      unfold Toks; exact Prod.ext hD hts
    exact toks_cons (Prod.ext rfl ht) (ih h3)

/-! ### `peek` -/

theorem peekLoop_eq : ∀ x : Bytes, peekLoop x =
    match skipWs x with
    | [] => none
    | c :: cs => some (c, c :: cs) := by
  intro x
  induction x with
  | nil => rfl
  | cons c cs ih =>
    simp only [peekLoop, skipWs, isSpace_eq_isWs]
    by_cases hc : isWs c = true
    · simp only [hc, if_true]; exact ih
    · simp only [hc, if_false]; rfl

theorem peek_cons (D : Dec) (c : UInt8) (cs : Bytes) (h : skipWs D.rest = c :: cs) :
    peek D = ({ D with rest := c :: cs }, some c) := by
  simp only [peek, peekLoop_eq, h]

theorem peek_nil (D : Dec) (h : skipWs D.rest = []) : peek D = (D, none) := by
  simp only [peek, peekLoop_eq, h]

/-- one round of the loop of `Token` that returns -/
theorem tokenLoop_return (f : Nat) (D : Dec) (c : UInt8) (cs : Bytes) (x : Dec × TokRes)
    (h : skipWs D.rest = c :: cs) (hs : tokenStep { D with rest := c :: cs } c = .inr x) :
    tokenLoop (f + 1) D = x := by
  simp only [tokenLoop, peek_cons D c cs h, hs]

/-- one round that ends in `continue` -/
theorem tokenLoop_continue (f : Nat) (D : Dec) (c : UInt8) (cs : Bytes) (D2 : Dec)
    (h : skipWs D.rest = c :: cs) (hs : tokenStep { D with rest := c :: cs } c = .inl D2) :
    tokenLoop (f + 1) D = tokenLoop f D2 := by
  simp only [tokenLoop, peek_cons D c cs h, hs]

theorem tokenLoop_eof (f : Nat) (D : Dec) (h : skipWs D.rest = []) : tokenLoop (f + 1) D = (D, .err .eof) := by
  simp only [tokenLoop, peek_nil D h]

/-! ### delimiters -/

theorem tokenLoop_open_arr (f : Nat) (D : Dec) (cs : Bytes) (h : skipWs D.rest = 91 :: cs)
    (hst : valueAllowed D.tokenState = true) :
    tokenLoop (f + 1) D = ({ D with rest := cs, tokenStack := D.tokenState :: D.tokenStack, tokenState := .arrayStart },
      .ok (.delim 91)) := by
  apply tokenLoop_return f D 91 cs _ h
  simp only [tokenStep, tokenValueAllowed, hst, if_true, Bool.not_true, Bool.false_eq_true, if_false, pushState,
    Dec.advance, List.tail_cons]

theorem tokenLoop_open_obj (f : Nat) (D : Dec) (cs : Bytes) (h : skipWs D.rest = 123 :: cs)
    (hst : valueAllowed D.tokenState = true) :
    tokenLoop (f + 1) D = ({ D with rest := cs, tokenStack := D.tokenState :: D.tokenStack, tokenState := .objectStart },
      .ok (.delim 123)) := by
  apply tokenLoop_return f D 123 cs _ h
  simp only [tokenStep, tokenValueAllowed, hst, Bool.not_true, Bool.false_eq_true, if_false, pushState,
    Dec.advance, List.tail_cons, show ¬ ((123 : UInt8) = 91) by decide, show ¬ ((123 : UInt8) = 93) by decide, if_true]

theorem tokenLoop_close_arr (f : Nat) (D : Dec) (cs : Bytes) (s0 : TokState) (st : List TokState)
    (h : skipWs D.rest = 93 :: cs) (hst : D.tokenState = .arrayStart ∨ D.tokenState = .arrayComma)
    (hstk : D.tokenStack = s0 :: st) :
    tokenLoop (f + 1) D = ({ D with rest := cs, tokenState := valueEnd s0, tokenStack := st }, .ok (.delim 93)) := by
  apply tokenLoop_return f D 93 cs _ h
  have hn : ¬ (D.tokenState ≠ .arrayStart ∧ D.tokenState ≠ .arrayComma) := by
    rcases hst with h | h <;> rw [h] <;> simp
  simp only [tokenStep, show ¬ ((93 : UInt8) = 91) by decide, if_false, if_true, hn, popState, hstk, tokenValueEnd,
    Dec.advance, List.tail_cons]

theorem tokenLoop_close_obj (f : Nat) (D : Dec) (cs : Bytes) (s0 : TokState) (st : List TokState)
    (h : skipWs D.rest = 125 :: cs) (hst : D.tokenState = .objectStart ∨ D.tokenState = .objectComma)
    (hstk : D.tokenStack = s0 :: st) :
    tokenLoop (f + 1) D = ({ D with rest := cs, tokenState := valueEnd s0, tokenStack := st }, .ok (.delim 125)) := by
  apply tokenLoop_return f D 125 cs _ h
  have hn : ¬ (D.tokenState ≠ .objectStart ∧ D.tokenState ≠ .objectComma) := by
    rcases hst with h | h <;> rw [h] <;> simp
  simp only [tokenStep, show ¬ ((125 : UInt8) = 91) by decide, show ¬ ((125 : UInt8) = 93) by decide,
    show ¬ ((125 : UInt8) = 123) by decide, if_false, if_true, hn, popState, hstk, tokenValueEnd,
    Dec.advance, List.tail_cons]

/-! ### separators (`continue`) -/

theorem tokenLoop_comma_arr (f : Nat) (D : Dec) (cs : Bytes) (h : skipWs D.rest = 44 :: cs)
    (hst : D.tokenState = .arrayComma) :
    tokenLoop (f + 1) D = tokenLoop f { D with rest := cs, tokenState := .arrayValue } := by
  apply tokenLoop_continue f D 44 cs _ h
  simp only [tokenStep, show ¬ ((44 : UInt8) = 91) by decide, show ¬ ((44 : UInt8) = 93) by decide,
    show ¬ ((44 : UInt8) = 123) by decide, show ¬ ((44 : UInt8) = 125) by decide, show ¬ ((44 : UInt8) = 58) by decide,
    if_false, if_true, hst, Dec.advance, List.tail_cons]

theorem tokenLoop_comma_obj (f : Nat) (D : Dec) (cs : Bytes) (h : skipWs D.rest = 44 :: cs)
    (hst : D.tokenState = .objectComma) :
    tokenLoop (f + 1) D = tokenLoop f { D with rest := cs, tokenState := .objectKey } := by
  apply tokenLoop_continue f D 44 cs _ h
  simp only [tokenStep, show ¬ ((44 : UInt8) = 91) by decide, show ¬ ((44 : UInt8) = 93) by decide,
    show ¬ ((44 : UInt8) = 123) by decide, show ¬ ((44 : UInt8) = 125) by decide, show ¬ ((44 : UInt8) = 58) by decide,
    if_false, if_true, hst, Dec.advance, List.tail_cons, show ¬ (TokState.objectComma = TokState.arrayComma) by decide]

theorem tokenLoop_colon (f : Nat) (D : Dec) (cs : Bytes) (h : skipWs D.rest = 58 :: cs)
    (hst : D.tokenState = .objectColon) :
    tokenLoop (f + 1) D = tokenLoop f { D with rest := cs, tokenState := .objectValue } := by
  apply tokenLoop_continue f D 58 cs _ h
  simp only [tokenStep, show ¬ ((58 : UInt8) = 91) by decide, show ¬ ((58 : UInt8) = 93) by decide,
    show ¬ ((58 : UInt8) = 123) by decide, show ¬ ((58 : UInt8) = 125) by decide,
    if_false, if_true, hst, Dec.advance, List.tail_cons, ne_eq, not_true_eq_false]

/-! ### scalars and member names -/

/-- what `Token` returns for a scalar -/
def scalarVal : Cst → DVal
  | .lit s => litVal s
  | .str b => .str (unquote b)
  | _ => .null

theorem val_of_view_scalar (v : DVal) (c : Cst) (hc : c.isArr = false ∧ c.isObj = false)
    (h : view v = sem c .any) : v = scalarVal c := by
  cases c with
  | lit s =>
    simp only [sem, semLit] at h
    simp only [scalarVal, litVal]
    by_cases h1 : s = nullLit
    · rw [if_pos h1] at h ⊢
      cases v <;> simp [view, mapRaw] at h ⊢
    · rw [if_neg h1] at h ⊢
      by_cases h2 : s = ascii "true"
      · rw [if_pos h2] at h ⊢
        cases v <;> simp [view, mapRaw] at h ⊢
        exact h
      · rw [if_neg h2] at h ⊢
        by_cases h3 : s = ascii "false"
        · rw [if_pos h3] at h ⊢
          cases v <;> simp [view, mapRaw] at h ⊢
          exact h
        · rw [if_neg h3] at h ⊢
          cases v <;> simp [view, mapRaw] at h ⊢
          exact h
  | str b =>
    simp only [sem, semStr] at h
    exact view_eq_str v _ h
  | arr xs => simp [Cst.isArr] at hc
  | obj ms => simp [Cst.isObj] at hc

theorem not_key_state {s : TokState} (h : valueAllowed s = true) : ¬ (s = .objectStart ∨ s = .objectKey) := by
  cases s <;> simp [valueAllowed] at h ⊢

/-- `Token` in front of a scalar, where a value is allowed -/
theorem tokenLoop_scalar (f : Nat) (D : Dec) (c : Cst) (x : UInt8) (bs' vt r : Bytes)
    (hsk : skipWs D.rest = x :: bs') (nv : NextValue (x :: bs') [] vt r c)
    (hc : c.isArr = false ∧ c.isObj = false) (herr : D.err = none) (hst : valueAllowed D.tokenState = true)
    (hx : x ≠ 91 ∧ x ≠ 93 ∧ x ≠ 123 ∧ x ≠ 125 ∧ x ≠ 58 ∧ x ≠ 44) :
    tokenLoop (f + 1) D = ({ D with rest := r, tokenState := valueEnd D.tokenState }, .ok (.val (scalarVal c))) := by
  apply tokenLoop_return f D x bs' _ hsk
  obtain ⟨DS, v, _, hview, hse, hlk, hdec⟩ := decode_next .any { D with rest := x :: bs' } [] vt r c nv herr hst
  have hse' : DS.savedError = none := hse.1 (bad_any c)
  have hv : v = scalarVal c := val_of_view_scalar v c hc hview
  rw [keysAfter_any] at hlk
  have hk := not_key_state hst
  simp only [tokenStep, hx.1, hx.2.1, hx.2.2.1, hx.2.2.2.1, hx.2.2.2.2.1, hx.2.2.2.2.2, if_false, hk, and_false,
    tokenValue, tokenValueAllowed, hst, Bool.not_true, Bool.false_eq_true, hdec, hse', resOf, tokOfDecode, hv, hlk]

/-- `Token` in front of a member name -/
theorem tokenLoop_key (f : Nat) (D : Dec) (cs k r : Bytes) (hsk : skipWs D.rest = 34 :: cs)
    (hk : parseStrBody cs = some (k, r)) (herr : D.err = none)
    (hst : D.tokenState = .objectStart ∨ D.tokenState = .objectKey) :
    tokenLoop (f + 1) D = ({ D with rest := r, tokenState := .objectColon }, .ok (.val (.str (unquote k)))) := by
  apply tokenLoop_return f D 34 cs _ hsk
  have nv : NextValue (34 :: cs) [] (34 :: k ++ [34]) r (.str k) :=
    nextValue_of_str [] cs k r (by intro b hb; cases hb) hk
  obtain ⟨DS, v, _, hview, hse, hlk, hdec⟩ :=
    decode_next .str { D with rest := 34 :: cs, tokenState := .topValue } [] (34 :: k ++ [34]) r (.str k) nv herr rfl
  have hse' : DS.savedError = none := hse.1 rfl
  have hv : v = .str (unquote k) := view_eq_str v _ (by simpa [sem, semStr] using hview)
  rw [keysAfter_str_target] at hlk
  simp only [tokenStep, show ¬ ((34 : UInt8) = 91) by decide, show ¬ ((34 : UInt8) = 93) by decide,
    show ¬ ((34 : UInt8) = 123) by decide, show ¬ ((34 : UInt8) = 125) by decide, show ¬ ((34 : UInt8) = 58) by decide,
    show ¬ ((34 : UInt8) = 44) by decide, if_false, hst, and_self, if_true, tokenKey, hdec, hse', resOf,
    tokenKeyFinish, hv, hlk]

end Stream
end Codec
end JP
