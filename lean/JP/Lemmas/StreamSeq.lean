import JP.Lemmas.StreamValues
import JP.Lemmas.StreamTokens

/-!
# `Decode` called repeatedly on a sequence of JSON texts
-/

namespace JP
namespace Codec
namespace Stream

open Scanner

/-- `n` calls of `Decode` into fresh variables of type `t` -/
def decodeRun (t : Target) : Nat → Dec → Dec × List DecRes
  | 0, d => (d, [])
  | n + 1, d =>
    let r := decode t d
    let rs := decodeRun t n r.1
    (rs.1, r.2 :: rs.2)

/-- the texts with one space between neighbours -/
def joinSp : List Bytes → Bytes
  | [] => []
  | [t] => t
  | t :: u :: ts => t ++ 32 :: joinSp (u :: ts)

/-- what `UnmarshalValid(t, &x)` with `x any` gives, as a `Decode` result -/
def anyResult (t : Bytes) : DecRes :=
  match unmarshalValidWithKeys .any t [] with
  | .ok r => .ok r.val
  | .error e v => .unmarshalErr e v
  | .panic => .panic
  | .fuel => .fuel

theorem NextValue.extend {X ws vt r : Bytes} {c : Cst} (nv : NextValue X ws vt r c) (pre tail : Bytes)
    (hpre : ∀ b ∈ pre, isWs b = true) (hd : DelimW (r ++ tail)) :
    NextValue (pre ++ X ++ tail) (pre ++ ws) vt (r ++ tail) c := by
  refine ⟨by rw [nv.split]; simp only [List.append_assoc], ?_, nv.ends, nv.head, nv.reparse, .inl hd⟩
  intro b hb
  rcases List.mem_append.1 hb with h | h
  · exact hpre b h
  · exact nv.ws b h

theorem delimW_ws_tail (r tail : Bytes) (hr : skipWs r = []) (ht : tail = [] ∨ ∃ x, tail = 32 :: x) :
    DelimW (r ++ tail) := by
  cases r with
  | nil =>
    rcases ht with rfl | ⟨x, rfl⟩
    · trivial
    · exact .inl (by decide)
  | cons a r' =>
    have := (skipWs_nil_iff (a :: r')).1 hr a (List.mem_cons_self ..)
    exact .inl this

/-- one `Decode(&x)`, `x any`, in front of a JSON text `t` (white space before it, nothing or a space after it) -/
theorem decode_any_text (D : Dec) (pre t tail : Bytes) (c : Cst) (hparse : parseCst t = some c)
    (herr : D.err = none) (hst : D.tokenState = .topValue) (hpre : ∀ b ∈ pre, isWs b = true)
    (hrest : D.rest = pre ++ t ++ tail) (htail : tail = [] ∨ ∃ x, tail = 32 :: x) :
    ∃ r, skipWs r = [] ∧ decode .any D = (D.at (r ++ tail) .topValue D.tokenStack, anyResult t) := by
  obtain ⟨rest, hp, hrest'⟩ := parseCst_inv t c hparse
  obtain ⟨ws, ht, hws⟩ := skipWs_prefix t
  obtain ⟨vt, _, nv⟩ := nextValue_of_parse _ 0 ws (skipWs t) rest c hws (noWs_skipWs t) hp
    (delimW_of_skipWs_nil rest hrest')
  rw [← ht] at nv
  have nv' := nv.extend pre tail hpre (delimW_ws_tail rest tail hrest' htail)
  rw [← hrest] at nv'
  obtain ⟨DS, v, _, hview, hse, hlk, hdec⟩ := decode_next .any D (pre ++ ws) vt (rest ++ tail) c nv' herr (by rw [hst]; rfl)
  refine ⟨rest, hrest', ?_⟩
  have hse' : DS.savedError = none := hse.1 (bad_any c)
  rw [keysAfter_any] at hlk
  obtain ⟨v', hu', hview'⟩ := decode_ok .any t c [] hparse (bad_any c)
  have hv : v = v' := any_value_unique hview hview'
  rw [hdec, hse', hlk, hst, hv]
  simp only [anyResult, hu', resOf]
  rfl

theorem decodeRun_add (t : Target) (m n : Nat) : ∀ D : Dec, decodeRun t (m + n) D =
    ((decodeRun t n (decodeRun t m D).1).1, (decodeRun t m D).2 ++ (decodeRun t n (decodeRun t m D).1).2) := by
  induction m with
  | zero => intro D; simp [decodeRun]
  | succ m ih =>
    intro D
    have : m + 1 + n = (m + n) + 1 := by omega
    rw [this]
    simp only [decodeRun, ih, List.cons_append]

theorem decode_values_aux : ∀ (ts : List Bytes) (D : Dec) (pre : Bytes), (∀ t ∈ ts, (parseCst t).isSome = true) →
    D.err = none → D.tokenState = .topValue → (∀ b ∈ pre, isWs b = true) → D.rest = pre ++ joinSp ts →
    ∃ D', decodeRun .any ts.length D = (D', ts.map anyResult) ∧ D'.err = none ∧ D'.tokenState = .topValue ∧
      skipWs D'.rest = []
  | [], D, pre, _, herr, hst, hpre, hrest => by
    refine ⟨D, rfl, herr, hst, ?_⟩
    rw [hrest]; simp only [joinSp, List.append_nil]
    exact (skipWs_nil_iff pre).2 hpre
  | [t], D, pre, hall, herr, hst, hpre, hrest => by
    obtain ⟨c, hc⟩ := Option.isSome_iff_exists.1 (hall t (List.mem_singleton.2 rfl))
    obtain ⟨r, hr, hdec⟩ := decode_any_text D pre t [] c hc herr hst hpre (by simpa [joinSp] using hrest) (.inl rfl)
    refine ⟨D.at (r ++ []) .topValue D.tokenStack, ?_, herr, rfl, by simpa using hr⟩
    simp only [List.length_singleton, decodeRun, hdec, List.map_cons, List.map_nil]
  | t :: u :: ts, D, pre, hall, herr, hst, hpre, hrest => by
    obtain ⟨c, hc⟩ := Option.isSome_iff_exists.1 (hall t (List.mem_cons_self ..))
    obtain ⟨r, hr, hdec⟩ := decode_any_text D pre t (32 :: joinSp (u :: ts)) c hc herr hst hpre
      (by rw [hrest]; simp [joinSp]) (.inr ⟨_, rfl⟩)
    have hpre' : ∀ b ∈ r ++ [32], isWs b = true := by
      intro b hb
      rcases List.mem_append.1 hb with h | h
      · exact (skipWs_nil_iff r).1 hr b h
      · rw [List.mem_singleton.1 h]; decide
    obtain ⟨D', hrun, h1, h2, h3⟩ := decode_values_aux (u :: ts) (D.at (r ++ 32 :: joinSp (u :: ts)) .topValue D.tokenStack)
      (r ++ [32]) (fun x hx => hall x (List.mem_cons_of_mem _ hx)) herr rfl hpre' (by simp)
    refine ⟨D', ?_, h1, h2, h3⟩
    have hstep : decodeRun .any ((u :: ts).length + 1) D =
        ((decodeRun .any (u :: ts).length (decode .any D).1).1,
          (decode .any D).2 :: (decodeRun .any (u :: ts).length (decode .any D).1).2) := rfl
    rw [List.length_cons, hstep, hdec]
    simp only [hrun, List.map_cons]

/-- **`Decode` on a stream of values**: `n` texts that each parse, separated by one space; `n` calls return
what `UnmarshalValid` returns for each text alone, the next call returns `io.EOF` -/
theorem decode_values (ts : List Bytes) (hall : ∀ t ∈ ts, (parseCst t).isSome = true) :
    (decodeRun .any (ts.length + 1) (Dec.new (joinSp ts))).2 = ts.map anyResult ++ [.err .eof] := by
  obtain ⟨D', hrun, herr, hst, hws⟩ := decode_values_aux ts (Dec.new (joinSp ts)) [] hall rfl rfl
    (by intro b hb; cases hb) rfl
  rw [decodeRun_add, hrun]
  have hws' : ∀ b ∈ D'.rest, isWs b = true := (skipWs_nil_iff D'.rest).1 hws
  have hflat := flatOK_ws [] D'.rest hws'
  have hread : readLoop D'.rest Scan.init D'.rest 0 = .err .eof := by
    have h0 : Scan.init = bv [] := rfl
    have := readLoop_flat D'.rest D'.rest (bv []) 0 [] hflat.1
    rw [List.append_nil] at this
    rw [h0, this, hflat.2]
    have hns : nonSpace D'.rest = false := by
      have : ∀ x : Bytes, (∀ b ∈ x, isWs b = true) → nonSpace x = false := by
        intro x
        induction x with
        | nil => intro _; rfl
        | cons a x ih =>
          intro h
          simp only [nonSpace, isSpace_eq_isWs, h a (List.mem_cons_self ..), Bool.not_true, Bool.false_eq_true, if_false]
          exact ih (fun b hb => h b (List.mem_cons_of_mem _ hb))
      exact this _ hws'
    simp only [readLoop, hns]
    rw [if_neg (by decide)]
    simp
  have hdec : decode .any D' = ({ D' with err := some .eof }, .err .eof) := by
    simp only [decode, herr, tokenPrepare_id D' (by rw [hst]; rfl), decodeAfterPrepare, tokenValueAllowed, hst,
      valueAllowed, readValue, hread, decodeAfterRead]
    rfl
  simp only [decodeRun, hdec]

end Stream
end Codec
end JP
