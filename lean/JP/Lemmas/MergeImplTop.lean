import JP.Lemmas.MergeImpl
import JP.Lemmas.EqualEquiv

/-!
# `doMergePatch false` on syntax trees (C02)
-/

namespace JP
open Value


namespace Impl
open Cst

/-! ### arrays decoded one level -/

theorem denL_map_childOf : ∀ (xs : List Cst), denL (xs.map childOf) = valueOfL xs
  | [] => rfl
  | x :: xs => by simp [denL, valueOfL, den_childOf, denL_map_childOf xs]

theorem WFL_map_childOf : ∀ (xs : List Cst), noDupL (valueOfL xs) = true → WFL (xs.map childOf) = true
  | [], _ => rfl
  | x :: xs, h => by
    simp only [valueOfL, noDupL, Bool.and_eq_true] at h
    simp only [List.map_cons, WFL, Bool.and_eq_true]
    exact ⟨WF_childOf x h.1, WFL_map_childOf xs h.2⟩

/-! ### `pruneN` of a freshly decoded object is `pruneC` of its syntax tree -/

theorem pruneN_childOf (v : Cst) : pruneN (childOf v) = if v.isNullLit then .nil else pruneC v := by
  simp only [childOf]
  split <;> simp [pruneN]

theorem pruneNM_childM : ∀ (ms : List (Bytes × Cst)), pruneNM (childM ms) = pruneCM ms
  | [] => rfl
  | (k, v) :: ms => by simp only [childM, pruneNM, pruneCM, pruneN_childOf, pruneNM_childM ms]

theorem pruneN_decodeDoc (ms : List (Bytes × Cst)) (h : nodupKeys ((valueOfM ms).map Prod.fst) = true) :
    pruneN (decodeDoc ms) = pruneC (.obj ms) := by
  have hnd : ((pruneCM ms).map Prod.fst).Nodup := by
    rw [keys_pruneCM]; exact (nodupKeys_iff _).mp h
  rw [decodeDoc_eq ms h, pruneC_obj_eq ms h]
  simp only [pruneN, pruneNM_childM]
  rw [keys_childM, ← keys_pruneCM, dropNilEntries_self _ hnd]

theorem valueOf_not_obj_of_isObj (dc : Cst) (h : dc.isObj = false) : ∀ ms, valueOf dc ≠ .obj ms := by
  cases dc with
  | lit s => simpa [valueOf] using (litValue_not_container s).2.2
  | str s => simp [valueOf]
  | arr xs => simp [valueOf]
  | obj ms => simp [Cst.isObj] at h

/-- the result node of `doMergePatch false` on two syntax trees, or `none` when the patch text
itself is returned -/
def mergeTree (dc pc : Cst) : Option Node :=
  match pc with
  | .obj pms =>
    match dc with
    | .obj dms => some (mergeNC false (.raw (.obj dms)) (.obj pms))
    | _ => some (pruneN (decodeDoc pms))
  | .arr xs => some (decodeAry xs)
  | _ => none

theorem doMergePatch_eq (docData patchData : Bytes) (dc pc : Cst)
    (hvd : Scanner.valid docData = true) (hvp : Scanner.valid patchData = true)
    (hd : parseCst docData = some dc) (hp : parseCst patchData = some pc)
    (hnn : dc.isNullLit = false) :
    doMergePatch false docData patchData =
      .ok (match (if pc.isNullLit then none else mergeTree dc pc) with
           | some r => Cst.print (cstOf true r)
           | none => patchData) := by
  unfold doMergePatch
  simp only [hvd, hvp, hd, hp, hnn, Bool.not_true, Bool.false_eq_true, if_false]
  cases hpn : pc.isNullLit with
  | true => simp
  | false =>
    simp only [Bool.false_eq_true, if_false]
    cases pc with
    | lit s => cases dc <;> simp [mergeTree]
    | str s => cases dc <;> simp [mergeTree]
    | arr xs => cases dc <;> simp [mergeTree]
    | obj pms =>
      cases dc with
      | lit s => simp [mergeTree]
      | str s => simp [mergeTree]
      | arr xs => simp [mergeTree]
      | obj dms =>
        have hi : intoDoc (.raw (.obj dms)) = .ok (.doc (decodeKeys dms) (decodeMembers dms [])) := rfl
        simp only [mergeTree, decodeDoc]
        rw [mergeNC_obj_of_doc false _ pms _ _ hi]

theorem mergeTree_den (dc pc : Cst) (hdd : noDup dc.valueOf = true) (hdp : noDup pc.valueOf = true) :
    match mergeTree dc pc with
    | some r => WF r = true ∧ den r = Spec.merge dc.valueOf pc.valueOf
    | none => pc.valueOf = Spec.merge dc.valueOf pc.valueOf := by
  cases pc with
  | lit s =>
    simp only [mergeTree]
    rw [Spec.merge_nonobj _ _ (by simpa [valueOf] using (litValue_not_container s).2.2)]
  | str s => simp [mergeTree, valueOf, Spec.merge]
  | arr xs =>
    simp only [mergeTree, decodeAry]
    simp only [valueOf, noDup] at hdp
    exact ⟨by simpa [WF] using WFL_map_childOf xs hdp, by simp [den, denL_map_childOf, valueOf, Spec.merge]⟩
  | obj pms =>
    have hobj : ∀ dc' : Cst, dc'.isObj = false → noDup dc'.valueOf = true →
        WF (pruneN (decodeDoc pms)) = true ∧
        den (pruneN (decodeDoc pms)) = Spec.merge dc'.valueOf (Cst.obj pms).valueOf := by
      intro dc' hno _
      have h1 := hdp
      simp only [valueOf, noDup, Bool.and_eq_true] at h1
      rw [pruneN_decodeDoc pms h1.1]
      have ⟨r1, r2⟩ := pruneC_den (.obj pms) hdp
      refine ⟨r1, ?_⟩
      rw [r2]
      simp only [valueOf]
      rw [Spec.merge_obj_of_nonobj _ _ (valueOf_not_obj_of_isObj dc' hno)]
    cases dc with
    | lit s => exact hobj _ rfl hdd
    | str s => exact hobj _ rfl hdd
    | arr xs => exact hobj _ rfl hdd
    | obj dms =>
      simp only [mergeTree]
      exact mergeNC_den (.obj pms) (.raw (.obj dms)) (by simpa [WF] using hdd) hdp

end Impl
end JP
