import JP.Lemmas.HeapLegacyPrim
import JP.Lemmas.HeapStable

/-!
# The legacy `find` is stable: it only turns raw cells into parsed ones, and a second descent
along a path already parsed returns the same address and leaves the heap alone

The Go code of the legacy `copy` keeps the POINTER `val` it obtained across the second `findObject`;
the value model re-walks (`copyPrepare`).  No tree hypothesis is needed here.  `Mono`, `cellIsCon`
are those of `JP/Lemmas/HeapStable.lean`; a parsed legacy container may also be a nil map.
-/

namespace JP
namespace Heap
namespace Lg

open JP.Impl (Outcome)

/-- a parsed container (what the legacy `intoContainer` leaves behind; `docNil` for a raw `null`) -/
def cellIsParsedL : Cell → Bool
  | .doc _ _ => true
  | .ary _ => true
  | .docNil => true
  | _ => false

theorem intoContainer_stable {h h' : Heap} {b : Nat} (hi : intoContainer h (some b) = .ok h') :
    Mono h h' ∧ ∃ cell, h'[b]? = some cell ∧ cellIsParsedL cell = true := by
  unfold intoContainer at hi
  by_cases hb : ptrIsArray h (some b) = true
  · simp only [hb, if_true, intoAry] at hi
    cases hc : h[b]? with
    | none => rw [hc] at hi; cases hi
    | some cell =>
      rw [hc] at hi
      cases cell with
      | ary ps => simp only [cellIntoAry] at hi; cases hi; exact ⟨Mono.refl _, .ary ps, hc, rfl⟩
      | raw c =>
        cases c with
        | arr xs =>
          simp only [cellIntoAry] at hi; cases hi
          obtain ⟨ext, he⟩ := newChildren_append xs h
          rw [he]
          refine ⟨mono_set_raw hc, .ary (newChildren h xs).2, ?_, rfl⟩
          · rw [List.getElem?_set_self]
            have := (List.getElem?_eq_some_iff.mp hc).1
            simp; omega
        | lit s => simp [cellIntoAry] at hi
        | str s => simp [cellIntoAry] at hi
        | obj s => simp [cellIntoAry] at hi
      | doc k m => simp [cellIntoAry] at hi
      | docNil => simp [cellIntoAry] at hi
      | nilAry => simp [cellIntoAry] at hi
  · simp only [hb, intoDoc] at hi
    cases hc : h[b]? with
    | none => rw [hc] at hi; simp at hi
    | some cell =>
      rw [hc] at hi
      cases cell with
      | doc k m => simp only [cellIntoDoc] at hi; simp at hi; cases hi; exact ⟨Mono.refl _, .doc k m, hc, rfl⟩
      | docNil => simp only [cellIntoDoc] at hi; simp at hi; cases hi; exact ⟨Mono.refl _, .docNil, hc, rfl⟩
      | raw c =>
        have hlt := (List.getElem?_eq_some_iff.mp hc).1
        cases c with
        | obj ms =>
          simp only [cellIntoDoc] at hi; simp at hi; cases hi
          obtain ⟨ext, he⟩ := newMembers_append ms h
          rw [he]
          refine ⟨mono_set_raw hc, .doc [] (newMembers h ms []).2, ?_, rfl⟩
          · rw [List.getElem?_set_self]
            simp; omega
        | lit s =>
          simp only [cellIntoDoc] at hi
          by_cases hn : (Cst.lit s).isNullLit = true
          · simp only [hn, if_true] at hi; simp at hi; cases hi
            refine ⟨?_, .docNil, by rw [List.getElem?_set_self hlt], rfl⟩
            have := mono_set_raw (ext := []) (cell' := .docNil) hc
            simpa using this
          · simp [hn] at hi
        | str s =>
          have hn : (Cst.str s).isNullLit = false := rfl
          simp [cellIntoDoc, hn] at hi
        | arr s =>
          have hn : (Cst.arr s).isNullLit = false := rfl
          simp [cellIntoDoc, hn] at hi
      | ary k => simp [cellIntoDoc] at hi
      | nilAry => simp [cellIntoDoc] at hi

/-- on a parsed container `intoContainer` does nothing -/
theorem intoContainer_parsed {h : Heap} {b : Nat} {cell : Cell} (hc : h[b]? = some cell)
    (hp : cellIsParsedL cell = true) : intoContainer h (some b) = .ok h ∧ ptrRawIsNil h b = false := by
  cases cell with
  | doc k m =>
    simp [intoContainer, ptrIsArray, hc, cellIsArray, intoDoc, cellIntoDoc, ptrRawIsNil, cellRawIsNil]
  | ary ps =>
    simp [intoContainer, ptrIsArray, hc, cellIsArray, intoAry, cellIntoAry, ptrRawIsNil, cellRawIsNil]
  | docNil =>
    simp [intoContainer, ptrIsArray, hc, cellIsArray, intoDoc, cellIntoDoc, ptrRawIsNil, cellRawIsNil]
  | raw c => cases hp
  | nilAry => cases hp

/-- a successful `get` was on a cell that is not raw -/
theorem hGet_ok_con {neg : Bool} {h : Heap} {a : Nat} {key : Bytes} {p : Ptr}
    (hg : hGet neg h a key = .ok p) : ∃ cell, h[a]? = some cell ∧ cellIsCon cell = true := by
  unfold hGet at hg
  cases hc : h[a]? with
  | none => rw [hc] at hg; cases hg
  | some cell =>
    rw [hc] at hg
    cases cell with
    | raw c => simp [cellGet] at hg
    | doc k m => exact ⟨_, rfl, rfl⟩
    | ary ps => exact ⟨_, rfl, rfl⟩
    | docNil => exact ⟨_, rfl, rfl⟩
    | nilAry => exact ⟨_, rfl, rfl⟩

theorem hGet_mono {neg : Bool} {h h' : Heap} {a : Nat} {key : Bytes} {p : Ptr}
    (hg : hGet neg h a key = .ok p) (m : Mono h h') : hGet neg h' a key = .ok p := by
  obtain ⟨cell, hc, hcon⟩ := hGet_ok_con hg
  unfold hGet at hg ⊢
  rw [m a cell hc hcon]; rw [hc] at hg; exact hg

/-- the path `parts` leads from `a` to `c` through parsed containers -/
inductive Parsed (neg : Bool) (h : Heap) : Nat → List Bytes → Nat → Prop
  | nil (a : Nat) : Parsed neg h a [] a
  | cons {a b c : Nat} {part : Bytes} {rest : List Bytes} {cell : Cell}
      (hg : hGet neg h a (decodeToken part) = .ok (some b))
      (hc : h[b]? = some cell) (hp : cellIsParsedL cell = true)
      (hr : Parsed neg h b rest c) : Parsed neg h a (part :: rest) c

theorem cellIsCon_of_parsed {cell : Cell} (hp : cellIsParsedL cell = true) : cellIsCon cell = true := by
  cases cell <;> simp_all [cellIsParsedL, cellIsCon]

theorem Parsed.mono {neg : Bool} {h h' : Heap} {a c : Nat} {parts : List Bytes} (pp : Parsed neg h a parts c)
    (m : Mono h h') : Parsed neg h' a parts c := by
  induction pp with
  | nil a => exact Parsed.nil a
  | cons hg hc hp _ ih => exact Parsed.cons (hGet_mono hg m) (m _ _ hc (cellIsCon_of_parsed hp)) hp ih

/-- a second descent along a parsed path: same address, same heap -/
theorem find_of_parsed {neg : Bool} {h : Heap} {a c : Nat} {parts : List Bytes} (pp : Parsed neg h a parts c) :
    find neg h a parts = .ok (h, some c) := by
  induction pp with
  | nil a => rfl
  | cons hg hc hp _ ih =>
    obtain ⟨h1, h2⟩ := intoContainer_parsed hc hp
    simp only [find, hg, h1, h2, Bool.false_eq_true, if_false]
    exact ih

/-- what a descent leaves behind -/
theorem find_stable (neg : Bool) : ∀ (parts : List Bytes) (h : Heap) (a : Nat) (h' : Heap) (oc : Option Nat),
    find neg h a parts = .ok (h', oc) → Mono h h' ∧ ∀ c, oc = some c → Parsed neg h' a parts c
  | [], h, a, h', oc, hf => by
    simp only [find] at hf; cases hf
    exact ⟨Mono.refl _, fun c hc => by cases hc; exact Parsed.nil a⟩
  | part :: rest, h, a, h', oc, hf => by
    simp only [find] at hf
    cases hg : hGet neg h a (decodeToken part) with
    | panic => rw [hg] at hf; cases hf
    | err e => rw [hg] at hf; cases hf; exact ⟨Mono.refl _, fun c hc => by cases hc⟩
    | ok p =>
      rw [hg] at hf
      cases p with
      | none => cases hf; exact ⟨Mono.refl _, fun c hc => by cases hc⟩
      | some b =>
        simp only at hf
        by_cases hrn : ptrRawIsNil h b = true
        · simp only [hrn, if_true] at hf; cases hf; exact ⟨Mono.refl _, fun c hc => by cases hc⟩
        · simp only [hrn, if_false] at hf
          cases hi : intoContainer h (some b) with
          | panic => rw [hi] at hf; cases hf
          | err e => rw [hi] at hf; cases hf; exact ⟨Mono.refl _, fun c hc => by cases hc⟩
          | ok h1 =>
            rw [hi] at hf
            obtain ⟨m1, cell, hc1, hp1⟩ := intoContainer_stable hi
            obtain ⟨m2, hpar⟩ := find_stable neg rest h1 b h' oc hf
            refine ⟨Mono.trans m1 m2, fun c hc => ?_⟩
            exact Parsed.cons (hGet_mono hg (Mono.trans m1 m2))
              (m2 _ _ hc1 (cellIsCon_of_parsed hp1)) hp1 (hpar c hc)

/-- `findObject` twice: the second call along the same path, after any number of other descents,
finds the same container and changes nothing -/
theorem findObject_stable {neg : Bool} {h h' : Heap} {root : Nat} {path : Bytes} {oc : Option (Nat × Bytes)}
    (hf : findObject neg h root path = .ok (h', oc)) :
    Mono h h' ∧ ∀ c key, oc = some (c, key) →
      ∀ h2, Mono h' h2 → findObject neg h2 root path = .ok (h2, some (c, key)) := by
  unfold findObject at hf
  cases hs : Legacy.splitPath path with
  | none => rw [hs] at hf; cases hf; exact ⟨Mono.refl _, fun c key hc => by cases hc⟩
  | some pk =>
    obtain ⟨parts, key⟩ := pk
    rw [hs] at hf
    simp only at hf
    cases hfi : find neg h root parts with
    | panic => rw [hfi] at hf; cases hf
    | err e => rw [hfi] at hf; cases hf
    | ok res =>
      obtain ⟨h1, oc1⟩ := res
      rw [hfi] at hf
      obtain ⟨m, hpar⟩ := find_stable neg parts h root h1 oc1 hfi
      cases oc1 with
      | none => cases hf; exact ⟨m, fun c key hc => by cases hc⟩
      | some c1 =>
        cases hf
        refine ⟨m, fun c key' hc h2 m2 => ?_⟩
        cases hc
        unfold findObject
        rw [hs]
        simp only [find_of_parsed ((hpar _ rfl).mono m2)]

end Lg
end Heap
end JP
